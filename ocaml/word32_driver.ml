(* stdin: "<op> <a> [<b>]" per line; a, b = signed decimal readings of 32-bit patterns (values outside
   [-2^31, 2^31) are first reinterpreted with the model's [wrap], so unsigned decimals and 0x.. hex are
   accepted too); unary ops (sneg bnot lnot fneg i2f u2f f2i f2u) take one argument.
   stdout: "ok <signed decimal>" (booleans as 1/0) or "undef" (the C++ expression is undefined there),
   "err" for an unknown op / malformed line.
   String operations (extension; byte strings travel hex-encoded, "-" = the empty string):
   "strlt <hexa> <hexb>" -> ok 1/0; "contains <hexpat> <hexs>" -> ok 1/0; "substr <hexs> <idx> <len>" -> "ok <hex>";
   "tostr <a>" -> "ok <hex>" (std::to_string of the signed reading); "tonum <hexs>" -> ok <n> / undef.
   Everything is computed by the extracted Coq model (Word32Defs.v, Float32Defs.v). Only exception:
   sexp / uexp with an exponent above 64 are answered by the closed forms proved in Word32Lemmas.v
   (sexp_big_undef, sexp_base_0, sexp_base_1, sexp_base_m1, uexp_big_undef, uexp_base_0, uexp_base_1),
   because Coq's Z.pow iterates exponent-many times. *)
open Word32_model
open Common_io

let two32 = BZ.shift_left BZ.one 32
let parse (s : string) : z = wrap (cz_of_z (BZ.of_string s))
let show (v : z) = "ok " ^ BZ.to_string (z_of_cz v)
let show_o = function Some v -> show v | None -> "undef"
let show_b b = if b then "ok 1" else "ok 0"
let big n = BZ.gt n (BZ.of_int 64)

let sexp_guard a b =
  let a' = z_of_cz a and b' = z_of_cz b in
  if big b' then begin
    if BZ.geq (BZ.abs a') (BZ.of_int 2) then None                               (* sexp_big_undef *)
    else if BZ.sign a' = 0 then Some (cz_of_int 0)                               (* sexp_base_0, b <> 0 *)
    else if BZ.equal a' BZ.one then Some (cz_of_int 1)                           (* sexp_base_1 *)
    else Some (cz_of_int (if BZ.is_even b' then 1 else -1))                      (* sexp_base_m1 *)
  end else sexp a b

let uexp_guard a b =
  let ua = z_of_cz (u a) and ub = z_of_cz (u b) in
  if big ub then begin
    if BZ.geq ua (BZ.of_int 2) then None                                         (* uexp_big_undef *)
    else if BZ.sign ua = 0 then Some (cz_of_int 0)                               (* uexp_base_0, u b <> 0 *)
    else Some (cz_of_int 1)                                                      (* uexp_base_1 *)
  end else uexp a b

let bin_o = [ "sadd", sadd; "ssub", ssub; "smul", smul; "sdiv", sdiv; "smod", smod;
              "udiv", udiv; "umod", umod; "sexp", sexp_guard; "uexp", uexp_guard ]
let bin_z = [ "uadd", uadd; "usub", usub; "umul", umul; "band", band; "bor", bor; "bxor", bxor;
              "shl", shl; "shr_s", shr_s; "shr_u", shr_u; "land", land0; "lor", lor0; "lxor", lxor0;
              "smax", smax; "smin", smin; "umax", umax; "umin", umin;
              "fadd", fadd; "fsub", fsub; "fmul", fmul; "fdiv", fdiv; "fmax", fmax; "fmin", fmin ]
let bin_b = [ "slt", slt; "sle", sle; "ult", ult; "ule", ule; "flt", flt; "fle", fle; "feq", feq ]
let un_o = [ "sneg", sneg; "f2i", f2i; "f2u", f2u ]
let un_z = [ "bnot", bnot; "lnot", lnot0; "fneg", fneg; "i2f", i2f; "u2f", u2f ]

let hex s = if s = "-" then [] else bytes_of_hex s
let show_hex b = "ok " ^ (match hex_of_bytes b with "" -> "-" | h -> h)

let run (l : string) : string =
  match List.filter (fun t -> t <> "") (split_on ' ' (String.trim l)) with
  | ["strlt"; a; b] -> show_b (bytes_ltb (hex a) (hex b))
  | ["contains"; p; s] -> show_b (has_substr (hex p) (hex s))
  | ["substr"; s; i; n] -> show_hex (substr (hex s) (parse i) (parse n))
  | ["tostr"; a] -> show_hex (dec_of_Z (parse a))
  | ["tonum"; s] -> show_o (to_number (hex s))
  | [op; a] ->
    let a = parse a in
    (match List.assoc_opt op un_o with Some f -> show_o (f a) | None ->
     match List.assoc_opt op un_z with Some f -> show (f a) | None -> "err")
  | [op; a; b] ->
    let a = parse a and b = parse b in
    (match List.assoc_opt op bin_o with Some f -> show_o (f a b) | None ->
     match List.assoc_opt op bin_z with Some f -> show (f a b) | None ->
     match List.assoc_opt op bin_b with Some f -> show_b (f a b) | None -> "err")
  | _ -> "err"

let () = read_lines (fun l -> print_endline (try run l with _ -> "err"))
