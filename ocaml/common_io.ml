(* Glue between text lines and the extracted inductive number types (the models keep
   nat/positive/N/Z as extracted datatypes; nothing is mapped to OCaml int). Trusted base.
   MODEL is replaced by the extracted module's name when the driver is built. *)
module BZ = Z
open MODEL

let rec pos_of_z (x : BZ.t) : positive =
  if BZ.equal x BZ.one then XH
  else if BZ.is_even x then XO (pos_of_z (BZ.shift_right x 1))
  else XI (pos_of_z (BZ.shift_right x 1))
let rec z_of_pos (p : positive) : BZ.t =
  match p with XH -> BZ.one | XO q -> BZ.shift_left (z_of_pos q) 1 | XI q -> BZ.succ (BZ.shift_left (z_of_pos q) 1)
let n_of_z (x : BZ.t) : n = if BZ.sign x <= 0 then N0 else Npos (pos_of_z x)
let z_of_n (x : n) : BZ.t = match x with N0 -> BZ.zero | Npos p -> z_of_pos p
let cz_of_z (x : BZ.t) : z = if BZ.sign x = 0 then Z0 else if BZ.sign x > 0 then Zpos (pos_of_z x) else Zneg (pos_of_z (BZ.neg x))
let z_of_cz (x : z) : BZ.t = match x with Z0 -> BZ.zero | Zpos p -> z_of_pos p | Zneg p -> BZ.neg (z_of_pos p)
let n_of_int i = n_of_z (BZ.of_int i)
let int_of_n x = BZ.to_int (z_of_n x)
let cz_of_int i = cz_of_z (BZ.of_int i)
let int_of_cz x = BZ.to_int (z_of_cz x)
let rec nat_of_int i = if i <= 0 then O else S (nat_of_int (i - 1))
let rec int_of_nat = function O -> 0 | S k -> 1 + int_of_nat k

(* byte strings travel hex-encoded, one case per line *)
let bytes_of_hex (h : string) : n list =
  let l = String.length h / 2 in
  List.init l (fun i -> n_of_int (int_of_string ("0x" ^ String.sub h (2 * i) 2)))
let hex_of_bytes (b : n list) : string =
  String.concat "" (List.map (fun c -> Printf.sprintf "%02x" (int_of_n c)) b)
let split_on c s = String.split_on_char c s
let rec read_lines f = match input_line stdin with l -> f l; read_lines f | exception End_of_file -> ()
