(* C25 / C26: the proved B-tree validator and query walks (coq/theories/BTreeDefs.v) on dumps of the
   REAL node graph (cpp/btree_harness.cpp).
   stdin, one case per line:
     <maxKeys> <dump> ; <query> <query> ...
        dump:   E | (L k1 ... kn) | (I c0 k1 c1 ... kn cn)      keys: decimal integers of any size
        query:  c:<k> contains   l:<k> lower_bound   u:<k> upper_bound
                (extensions: f:<k> find, n:<k> iterator successor of k, it full iteration == elems)
     stdout: wf <t|f> ; n <size> ; elems <k1> <k2> ... ; <answers in order>
             answers: t/f for c (and it), the key or `end` for l, u, f, n
     ins <maxKeys> <k1> <k2> ...     model insert from the empty tree
     stdout: fresh <t|f> ... ; elems <k1> ...
     insd <maxKeys> <k1> ...         the same, followed by ` ; wf <t|f> ; dump <dump>` of the model tree
   A line that cannot be parsed gives `err <reason>`. Sections are joined by " ; "; an empty
   section is the empty string. *)
open Btree_model
open Common_io

exception Bad of string

let key_of_string s = try cz_of_z (BZ.of_string s) with _ -> raise (Bad ("key " ^ s))
let string_of_key z = BZ.to_string (z_of_cz z)

let tokens (s : string) : string list =
  let b = Buffer.create (String.length s + 16) in
  String.iter (fun c -> match c with
    | '(' | ')' -> Buffer.add_char b ' '; Buffer.add_char b c; Buffer.add_char b ' '
    | '\t' | '\r' -> Buffer.add_char b ' '
    | c -> Buffer.add_char b c) s;
  List.filter (fun t -> t <> "") (split_on ' ' (Buffer.contents b))

(* leaf: L then keys; inner: I then a tree followed by (key tree) pairs.
   An inner node is stored as the pairs (child_i, key_i+1) and the last child. *)
let rec parse_tree (ts : string list) : tree * string list =
  match ts with
  | "(" :: "L" :: rest ->
    let rec keys acc = function
      | ")" :: r -> (List.rev acc, r)
      | k :: r -> keys (key_of_string k :: acc) r
      | [] -> raise (Bad "unterminated leaf") in
    let (ks, r) = keys [] rest in (Leaf ks, r)
  | "(" :: "I" :: rest ->
    let (c0, r) = parse_tree rest in
    let rec more acc cur = function
      | ")" :: r -> (Inner (List.rev acc, cur), r)
      | k :: r -> let key = key_of_string k in
        let (c, r') = parse_tree r in more ((cur, key) :: acc) c r'
      | [] -> raise (Bad "unterminated inner node") in
    more [] c0 r
  | t :: _ -> raise (Bad ("unexpected token " ^ t))
  | [] -> raise (Bad "empty dump")

let parse_dump (ts : string list) : tree =
  match ts with
  | ["E"] -> Leaf []
  | _ ->
    let (t, r) = parse_tree ts in
    if r <> [] then raise (Bad "trailing tokens after the tree");
    (match t with Leaf [] -> raise (Bad "root leaf without keys (the empty tree is E)") | _ -> t)

let rec dump_tree (t : tree) : string =
  match t with
  | Leaf ks -> "(L" ^ String.concat "" (List.map (fun k -> " " ^ string_of_key k) ks) ^ ")"
  | Inner (cs, last) ->
    "(I " ^ String.concat "" (List.map (fun (c, s) -> dump_tree c ^ " " ^ string_of_key s ^ " ") cs) ^ dump_tree last ^ ")"
let dump_root t = match t with Leaf [] -> "E" | _ -> dump_tree t

let tf b = if b then "t" else "f"
let bound = function Some k -> string_of_key k | None -> "end"
let section ws = String.concat " " ws
let rec same_keys a b = match a, b with
  | [], [] -> true
  | x :: r, y :: s -> BZ.equal (z_of_cz x) (z_of_cz y) && same_keys r s
  | _ -> false

let answer (t : tree) (q : string) : string =
  let arg () = key_of_string (String.sub q 2 (String.length q - 2)) in
  if q = "it" then tf (same_keys (iterate t) (elements t))
  else if String.length q < 3 || q.[1] <> ':' then raise (Bad ("query " ^ q))
  else match q.[0] with
    | 'c' -> tf (contains t (arg ()))
    | 'l' -> bound (lower_bound t (arg ()))
    | 'u' -> bound (upper_bound t (arg ()))
    | 'f' -> bound (find t (arg ()))
    | 'n' -> bound (next_after t (arg ()))
    | _ -> raise (Bad ("query " ^ q))

let positive_int s = match int_of_string_opt s with Some m when m >= 0 -> m | _ -> raise (Bad ("maxKeys " ^ s))

let run_ins (with_dump : bool) (args : string list) : string =
  match args with
  | m :: ks ->
    let m = nat_of_int (positive_int m) in
    let (t, fs) = insert_all m (Leaf []) (List.map key_of_string ks) in
    let base = [section ("fresh" :: List.map tf fs); section ("elems" :: List.map string_of_key (elements t))] in
    String.concat " ; " (if with_dump then base @ [section ["wf"; tf (wf m t)]; section ["dump"; dump_root t]] else base)
  | [] -> raise (Bad "ins needs maxKeys")

let run_check (line : string) : string =
  let (left, right) = match String.index_opt line ';' with
    | Some i -> (String.sub line 0 i, String.sub line (i + 1) (String.length line - i - 1))
    | None -> (line, "") in
  match tokens left with
  | m :: dump ->
    let m = nat_of_int (positive_int m) in
    let t = parse_dump dump in
    let qs = List.filter (fun q -> q <> "") (split_on ' ' (String.trim right)) in
    String.concat " ; " [
      section ["wf"; tf (wf m t)];
      section ["n"; string_of_int (int_of_nat (size t))];
      section ("elems" :: List.map string_of_key (elements t));
      section (List.map (answer t) qs)]
  | [] -> raise (Bad "empty line")

let () = read_lines (fun l ->
  let out =
    try
      (match List.filter (fun t -> t <> "") (split_on ' ' (String.trim l)) with
       | "ins" :: args -> run_ins false args
       | "insd" :: args -> run_ins true args
       | _ -> run_check l)
    with Bad msg -> "err " ^ msg | Stack_overflow -> "err stack overflow" in
  print_endline out)
