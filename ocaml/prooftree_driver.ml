(* Proof-tree validator (C19): one S-expression per input line -> one verdict line.
   Syntax of values / terms / lits / clauses exactly as in datalog_driver.ml.
   (proof (db (R tuple...)...) (clauses clause...) (tree T))
      T ::= (node R (value...) K (child...))
      child ::= T | (fact R (value...)) | (negfact R anything...) | (cons)
      -> ok | bad <reason> <detail> | stuck | undef
         reasons: rule R <tuple> K | head R <tuple> K | child R <tuple> I | constraint R <tuple> I |
                  negpresent R <tuple> I | factabsent R <tuple> | ambiguous R <tuple> I
   (absent (db (R tuple...)...) R (value...))   -> absent | present
   If the static hypotheses of C19_check_tree_valid (tree_hyps: duplicate-free database, well-scoped
   aggregates) do not hold for the input, the verdict is prefixed with `nohyp `. *)
open Prooftree_model
open Common_io

type sx = A of string | L of sx list
let tokenize (s : string) : string list =
  let n = String.length s in
  let toks = ref [] and i = ref 0 in
  while !i < n do
    (match s.[!i] with
     | '(' -> toks := "(" :: !toks; incr i
     | ')' -> toks := ")" :: !toks; incr i
     | ' ' | '\t' | '\r' -> incr i
     | _ -> let j = ref !i in
            while !j < n && (match s.[!j] with '(' | ')' | ' ' | '\t' | '\r' -> false | _ -> true) do incr j done;
            toks := String.sub s !i (!j - !i) :: !toks; i := !j)
  done; List.rev !toks
let rec parse_sx toks = match toks with
  | "(" :: r -> let (l, r') = parse_list r [] in (L l, r')
  | ")" :: _ -> failwith "unexpected )"
  | a :: r -> (A a, r)
  | [] -> failwith "eof"
and parse_list toks acc = match toks with
  | ")" :: r -> (List.rev acc, r)
  | [] -> failwith "eof in list"
  | _ -> let (x, r) = parse_sx toks in parse_list r (x :: acc)

let nat_of_sx = function A a -> nat_of_int (int_of_string a) | _ -> failwith "nat"
let rec value_of = function
  | L [A "n"; A i] -> VNum (cz_of_z (BZ.of_string i))
  | L [A "s"; A h] -> VSym (bytes_of_hex h)
  | L [A "s"] -> VSym []
  | A "nil" -> VNil
  | L (A "r" :: vs) -> VRec (List.map value_of vs)
  | L (A "a" :: b :: vs) -> VAdt (nat_of_sx b, List.map value_of vs)
  | _ -> failwith "value"
let nty_of = function "s" -> TS | "u" -> TU | _ -> failwith "nty"
let op_of (name : string) : fop =
  let base, ty = match String.index_opt name '.' with
    | Some i -> String.sub name 0 i, String.sub name (i + 1) (String.length name - i - 1)
    | None -> name, "s" in
  match base with
  | "add" -> OAdd (nty_of ty) | "sub" -> OSub (nty_of ty) | "mul" -> OMul (nty_of ty) | "div" -> ODiv (nty_of ty)
  | "mod" -> OMod (nty_of ty) | "exp" -> OExp (nty_of ty) | "max" -> OMax (nty_of ty) | "min" -> OMin (nty_of ty)
  | "neg" -> ONeg | "band" -> OBand | "bor" -> OBor | "bxor" -> OBxor | "bnot" -> OBnot | "shl" -> OShl
  | "shr" -> OShr (nty_of ty) | "shru" -> OShru | "land" -> OLand | "lor" -> OLor | "lxor" -> OLxor | "lnot" -> OLnot
  | "cat" -> OCat | "strlen" -> OStrlen | "substr" -> OSubstr | "tonum" -> OToNumber | "tostr" -> OToString
  | "smax" -> OSMax | "smin" -> OSMin | "id" -> OId
  | _ -> failwith ("op " ^ name)
let cop_of (name : string) : cop =
  let base, ty = match String.index_opt name '.' with
    | Some i -> String.sub name 0 i, String.sub name (i + 1) (String.length name - i - 1)
    | None -> name, "s" in
  let t = if ty = "y" then None else Some (nty_of ty) in
  match base with
  | "eq" -> CEq | "ne" -> CNe | "lt" -> CLt t | "le" -> CLe t | "gt" -> CGt t | "ge" -> CGe t
  | "contains" -> CContains | "ncontains" -> CNotContains | _ -> failwith ("cop " ^ name)
let rec term_of = function
  | L [A "v"; x] -> TVar (nat_of_sx x)
  | A "_" -> TAnon
  | L [A "c"; v] -> TConst (value_of v)
  | L (A "op" :: A name :: ts) -> TOp (op_of name, List.map term_of ts)
  | L (A "rec" :: ts) -> TRecord (List.map term_of ts)
  | L (A "adt" :: b :: ts) -> TAdtC (nat_of_sx b, List.map term_of ts)
  | _ -> failwith "term"
let slit_of = function
  | L (A "pos" :: r :: ts) -> SPos (nat_of_sx r, List.map term_of ts)
  | L (A "neg" :: r :: ts) -> SNeg (nat_of_sx r, List.map term_of ts)
  | L [A "cmp"; A op; a; b] -> SCmp (cop_of op, term_of a, term_of b)
  | _ -> failwith "slit"
let aggk_of = function "count" -> ACount | "sum" -> ASum | "min" -> AMin | "max" -> AMax | _ -> failwith "aggk"
let lit_of = function
  | L [A "agg"; x; A k; A ty; target; L body] -> LAgg (nat_of_sx x, aggk_of k, nty_of ty, term_of target, List.map slit_of body)
  | L [A "range"; x; A ty; f; t] -> LRange (nat_of_sx x, nty_of ty, term_of f, term_of t, None)
  | L [A "range"; x; A ty; f; t; s] -> LRange (nat_of_sx x, nty_of ty, term_of f, term_of t, Some (term_of s))
  | s -> LS (slit_of s)
let clause_of = function
  | L [A "cl"; r; L args; L body] -> { c_rel = nat_of_sx r; c_args = List.map term_of args; c_body = List.map lit_of body }
  | _ -> failwith "clause"
let tuple_of = function L vs -> List.map value_of vs | _ -> failwith "tuple"

let rec show_value = function
  | VNum z -> "(n " ^ BZ.to_string (z_of_cz z) ^ ")"
  | VSym s -> "(s " ^ hex_of_bytes s ^ ")"
  | VNil -> "nil"
  | VRec vs -> "(r" ^ String.concat "" (List.map (fun v -> " " ^ show_value v) vs) ^ ")"
  | VAdt (b, vs) -> "(a " ^ string_of_int (int_of_nat b) ^ String.concat "" (List.map (fun v -> " " ^ show_value v) vs) ^ ")"
let show_tuple t = "(" ^ String.concat " " (List.map show_value t) ^ ")"

let db_of rels = List.map (function L (r :: ts) -> (nat_of_sx r, List.map tuple_of ts) | _ -> failwith "db") rels
let rec tree_of = function
  | L [A "node"; r; L vs; k; L chs] -> PNode (nat_of_sx r, List.map value_of vs, nat_of_sx k, List.map tree_of chs)
  | L [A "fact"; r; L vs] -> PFact (nat_of_sx r, List.map value_of vs)
  | L (A "negfact" :: r :: _) -> PNeg (nat_of_sx r)
  | L [A "cons"] -> PCons
  | _ -> failwith "tree"
let ni n = string_of_int (int_of_nat n)

let () = read_lines (fun line ->
  try
    match fst (parse_sx (tokenize line)) with
    | L [A "proof"; L (A "db" :: rels); L (A "clauses" :: cls); L [A "tree"; t]] ->
      let d = db_of rels and cs = List.map clause_of cls in
      let pre = if tree_hyps d cs then "" else "nohyp " in
      (match check_tree d cs (tree_of t) with
       | Ok TOk -> print_endline (pre ^ "ok")
       | Ok (TBadRule (r, t, k)) -> print_endline (pre ^ "bad rule " ^ ni r ^ " " ^ show_tuple t ^ " " ^ ni k)
       | Ok (THeadMismatch (r, t, k)) -> print_endline (pre ^ "bad head " ^ ni r ^ " " ^ show_tuple t ^ " " ^ ni k)
       | Ok (TBadChild (r, t, i)) -> print_endline (pre ^ "bad child " ^ ni r ^ " " ^ show_tuple t ^ " " ^ ni i)
       | Ok (TConstraintFalse (r, t, i)) -> print_endline (pre ^ "bad constraint " ^ ni r ^ " " ^ show_tuple t ^ " " ^ ni i)
       | Ok (TNegPresent (r, t, i)) -> print_endline (pre ^ "bad negpresent " ^ ni r ^ " " ^ show_tuple t ^ " " ^ ni i)
       | Ok (TFactAbsent (r, t)) -> print_endline (pre ^ "bad factabsent " ^ ni r ^ " " ^ show_tuple t)
       | Ok (TAmbiguous (r, t, i)) -> print_endline (pre ^ "bad ambiguous " ^ ni r ^ " " ^ show_tuple t ^ " " ^ ni i)
       | Stuck -> print_endline "stuck"
       | Undef -> print_endline "undef")
    | L [A "absent"; L (A "db" :: rels); r; L vs] ->
      print_endline (if absent (db_of rels) (nat_of_sx r) (List.map value_of vs) then "absent" else "present")
    | _ -> print_endline "parse-error shape"
  with Failure m -> print_endline ("parse-error " ^ m) | Not_found -> print_endline "parse-error nf")
