(* stdin: one history per line, operations separated by spaces, on two relations A and B.
   Mutators (no output):
     iA:x:y / iB:x:y   A.insert(x,y) / B.insert(x,y)
     mAB / mBA         A.insertAll(B) / B.insertAll(A)
     xAB / xBA         A.extendAndInsert(B) / B.extendAndInsert(A)   (this = first letter)
   Queries (on A; append B to the keyword to query B, e.g. cB:1:2, zB, allB):
     c:x:y    contains -> t/f            z        size -> n
     all      full iteration, sorted     ant:x    getBoundaries<1> (x,_), sorted
     part     classes, sorted {a,b}{c}   ap:x:y   getBoundaries<2> (x,y)
     oall / oant:x / opart   the same in the exact order the C++ iterators produce
     ch:k     partition(k): one [..] per returned range, exact order
     lb:x:y   lower_bound((x,y)) .. end(), exact order
     sc:x:y   NOT the model: the executable specification closure_b on the pairs the history
              has inserted so far (spec_pairs) -> t/f; must equal c:x:y
   stdout: one line per history, the answers in order separated by " ; ". *)
open Eqrel_model
open Common_io

let zs (x : z) = BZ.to_string (z_of_cz x)
let zi (x : z) = z_of_cz x
let pz s = cz_of_z (BZ.of_string s)
let cmp_pair (a, b) (c, d) = let k = BZ.compare a c in if k <> 0 then k else BZ.compare b d
let pairs sorted (l : (z * z) list) =
  let l = List.map (fun (a, b) -> (zi a, zi b)) l in
  let l = if sorted then List.sort cmp_pair l else l in
  String.concat " " (List.map (fun (a, b) -> BZ.to_string a ^ "," ^ BZ.to_string b) l)
let rec cmp_list a b = match a, b with
  | [], [] -> 0 | [], _ -> -1 | _, [] -> 1
  | x :: r, y :: s -> let k = BZ.compare x y in if k <> 0 then k else cmp_list r s
let classes sorted (l : z list list) =
  let l = List.map (List.map zi) l in
  let l = if sorted then List.sort cmp_list (List.map (List.sort BZ.compare) l) else l in
  String.concat "" (List.map (fun c -> "{" ^ String.concat "," (List.map BZ.to_string c) ^ "}") l)

let parse tok : (op * bool) option =
  let f = split_on ':' tok in
  let k = List.hd f in
  let arg i = pz (List.nth f i) in
  match k with
  | "iA" -> Some (OInsert (RA, arg 1, arg 2), false)
  | "iB" -> Some (OInsert (RB, arg 1, arg 2), false)
  | "mAB" -> Some (OInsertAll RA, false) | "mBA" -> Some (OInsertAll RB, false)
  | "xAB" -> Some (OExtend RA, false) | "xBA" -> Some (OExtend RB, false)
  | _ ->
    let n = String.length k in
    let r, k = if n > 1 && k.[n - 1] = 'B' then RB, String.sub k 0 (n - 1) else RA, k in
    (match k with
     | "c" -> Some (OContains (r, arg 1, arg 2), true)
     | "z" -> Some (OSize r, true)
     | "all" -> Some (OAll r, true) | "oall" -> Some (OAll r, false)
     | "ant" -> Some (OAnterior (r, arg 1), true) | "oant" -> Some (OAnterior (r, arg 1), false)
     | "ap" -> Some (OAntpost (r, arg 1, arg 2), true)
     | "part" -> Some (OClasses r, true) | "opart" -> Some (OClasses r, false)
     | "ch" -> Some (OPartition (r, n_of_z (BZ.of_string (List.nth f 1))), false)
     | "lb" -> Some (OLowerBound (r, arg 1, arg 2), false)
     | _ -> None)

let is_query = function
  | OInsert _ | OInsertAll _ | OExtend _ -> false
  | _ -> true

type item = Model of op * bool | Spec of rel_id * z * z

let parse_item tok : item option =
  let f = split_on ':' tok in
  match List.hd f with
  | "sc" -> Some (Spec (RA, pz (List.nth f 1), pz (List.nth f 2)))
  | "scB" -> Some (Spec (RB, pz (List.nth f 1), pz (List.nth f 2)))
  | _ -> (match parse tok with Some (o, s) -> Some (Model (o, s)) | None -> None)

let () = read_lines (fun l ->
  let toks = List.filter (fun s -> s <> "") (split_on ' ' l) in
  let items = List.filter_map parse_item toks in
  let ops = List.filter_map (function Model (o, _) -> Some o | Spec _ -> None) items in
  let (_, answers) = run ops in
  let show a sorted = match a with
    | ABool b -> if b then "t" else "f"
    | ASize n -> BZ.to_string (z_of_n n)
    | APairs p -> pairs sorted p
    | AClasses c -> classes sorted c
    | AChunks c -> String.concat "" (List.map (fun p -> "[" ^ pairs false p ^ "]") c) in
  (* walk the items: model queries consume the next answer, spec queries look at the prefix *)
  let rec go items prefix answers acc = match items with
    | [] -> List.rev acc
    | Model (o, sorted) :: r ->
      if is_query o then
        (match answers with
         | a :: ar -> go r (o :: prefix) ar (show a sorted :: acc)
         | [] -> go r (o :: prefix) [] ("?" :: acc))
      else go r (o :: prefix) answers acc
    | Spec (rid, x, y) :: r ->
      let (pa, pb) = spec_pairs (List.rev prefix) in
      let ps = (match rid with RA -> pa | RB -> pb) in
      go r prefix answers ((if closure_b ps x y then "t" else "f") :: acc) in
  print_endline (String.concat " ; " (go items [] answers [])))
