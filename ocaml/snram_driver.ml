(* Validator driver: one stratum skeleton (S-expression, see coq/theories/SemiNaiveRam.v and
   harness/ramparse.py) per input line -> "ok" | "reject <reason>" | "parse-error <what>".
   (stratum (scc R..) (preamble R..) (exit R..) (limits (R n)..) (update (R merge swap clear)..)
            [(nullary R..)]
            (clause C (version (scans (T R K)..) (eqs (X Y)..) (negs (R K (X..))..) (others N)
                               (insert R K (X..))
                               [(tests (R K)..)] [(empties (R K)..)] [(breaks (R K)..)])..)..)
   X ::= (e T I) | (k N);  K ::= 0 main | 1 @delta | 2 @new.
   The parts in [ ] may be left out (= empty): (nullary ..) the relations whose copy statements have the
   form for arity 0; (tests ..) IF (NOT ISEMPTY(rel)) of atoms without a scan; (empties ..) IF ISEMPTY(rel);
   (breaks ..) IF (NOT ISEMPTY(rel)) BREAK.
   The decision is taken by the extracted [stratum_check]; this file only parses and prints. *)
open Snram_model
open Common_io

type sx = A of string | L of sx list
let tokenize (s : string) : string list =
  let n = String.length s in
  let toks = ref [] and i = ref 0 in
  while !i < n do
    (match s.[!i] with
     | '(' -> toks := "(" :: !toks; incr i
     | ')' -> toks := ")" :: !toks; incr i
     | ' ' | '\t' | '\r' -> incr i
     | _ -> let j = ref !i in
            while !j < n && (match s.[!j] with '(' | ')' | ' ' | '\t' | '\r' -> false | _ -> true) do incr j done;
            toks := String.sub s !i (!j - !i) :: !toks; i := !j)
  done; List.rev !toks
let rec parse_sx toks = match toks with
  | "(" :: r -> let (l, r') = parse_list r [] in (L l, r')
  | ")" :: _ -> failwith "unexpected )"
  | a :: r -> (A a, r)
  | [] -> failwith "eof"
and parse_list toks acc = match toks with
  | ")" :: r -> (List.rev acc, r)
  | [] -> failwith "eof in list"
  | _ -> let (x, r) = parse_sx toks in parse_list r (x :: acc)

let num_of_sx = function
  | A a -> (match BZ.of_string a with
            | z -> if BZ.sign z < 0 then failwith ("negative number " ^ a) else n_of_z z
            | exception _ -> failwith ("number " ^ a))
  | _ -> failwith "number"
let idx_of_sx = function
  | A a -> (match int_of_string_opt a with
            | Some i when i >= 0 -> nat_of_int i
            | _ -> failwith ("index " ^ a))
  | _ -> failwith "index"
let kind_of_sx = function
  | A "0" -> KMain | A "1" -> KDelta | A "2" -> KNew
  | _ -> failwith "kind"
let flag_of_sx = function
  | A "0" -> false | A "1" -> true
  | _ -> failwith "flag"
let elem_of_sx = function
  | L [A "e"; t; i] -> EComp (num_of_sx t, idx_of_sx i)
  | L [A "k"; n] -> EOther (num_of_sx n)
  | _ -> failwith "element"
let scan_of_sx = function
  | L [t; r; k] -> { s_tup = num_of_sx t; s_rel = num_of_sx r; s_kind = kind_of_sx k }
  | _ -> failwith "scan"
let eq_of_sx = function
  | L [x; y] -> (elem_of_sx x, elem_of_sx y)
  | _ -> failwith "eq"
let neg_of_sx = function
  | L [r; k; L args] -> { n_rel = num_of_sx r; n_kind = kind_of_sx k; n_args = List.map elem_of_sx args }
  | _ -> failwith "neg"
let test_of_sx = function
  | L [r; k] -> { e_rel = num_of_sx r; e_kind = kind_of_sx k }
  | _ -> failwith "test"
(* the optional sections, in the order tests, empties, breaks *)
let opt_section name rest = match rest with
  | L (A a :: items) :: rest' when a = name -> (List.map test_of_sx items, rest')
  | _ -> ([], rest)
let version_of_sx = function
  | L (A "version" :: L (A "scans" :: scans) :: L (A "eqs" :: eqs) :: L (A "negs" :: negs)
       :: L [A "others"; n] :: L [A "insert"; r; k; L args] :: rest) ->
    let (tests, rest) = opt_section "tests" rest in
    let (empties, rest) = opt_section "empties" rest in
    let (breaks, rest) = opt_section "breaks" rest in
    if rest <> [] then failwith "version";
    { v_scans = List.map scan_of_sx scans; v_eqs = List.map eq_of_sx eqs; v_negs = List.map neg_of_sx negs;
      v_others = num_of_sx n; v_ins_rel = num_of_sx r; v_ins_kind = kind_of_sx k;
      v_ins_args = List.map elem_of_sx args; v_tests = tests; v_empties = empties; v_breaks = breaks }
  | _ -> failwith "version"
let clause_of_sx = function
  | L (A "clause" :: c :: versions) -> { c_id = num_of_sx c; c_versions = List.map version_of_sx versions }
  | _ -> failwith "clause"
let limit_of_sx = function
  | L [r; n] -> (num_of_sx r, num_of_sx n)
  | _ -> failwith "limit"
let update_of_sx = function
  | L [r; m; s; c] -> { u_rel = num_of_sx r; u_merge = flag_of_sx m; u_swap = flag_of_sx s; u_clear = flag_of_sx c }
  | _ -> failwith "update"
let stratum_of_sx = function
  | L (A "stratum" :: L (A "scc" :: scc) :: L (A "preamble" :: pre) :: L (A "exit" :: ex)
       :: L (A "limits" :: lims) :: L (A "update" :: upd) :: rest) ->
    let (nul, clauses) = match rest with
      | L (A "nullary" :: nul) :: clauses -> (List.map num_of_sx nul, clauses)
      | _ -> ([], rest) in
    { st_scc = List.map num_of_sx scc; st_preamble = List.map num_of_sx pre; st_exit = List.map num_of_sx ex;
      st_limits = List.map limit_of_sx lims; st_update = List.map update_of_sx upd;
      st_clauses = List.map clause_of_sx clauses; st_nullary = nul }
  | _ -> failwith "stratum"

let sn x = BZ.to_string (z_of_n x)
let si x = string_of_int (int_of_nat x)
let cv c v = "clause " ^ sn c ^ " version " ^ si v
let show_reason = function
  | RVersionsCount c -> "versions-count clause " ^ sn c
  | RScanMismatch (c, v) -> "scan-mismatch " ^ cv c v
  | RVersionMismatch (c, v) -> "version-mismatch " ^ cv c v
  | RDeltaPosition (c, v) -> "delta-position " ^ cv c v
  | RMissingNegDelta (c, v, p) -> "missing-negdelta " ^ cv c v ^ " pos " ^ si p
  | RExtraNegDelta (c, v) -> "extra-negdelta " ^ cv c v
  | RGuard (c, v) -> "guard " ^ cv c v
  | RInsertTarget (c, v) -> "insert-target " ^ cv c v
  | RFrame (w, r) ->
    "frame " ^ (match w with
                | FPreamble -> "preamble" | FExit -> "exit" | FUpdateSet -> "update-set"
                | FUpdateDup -> "update-dup" | FUpdateFlags -> "update-flags" | FLimits -> "limits"
                | FNullary -> "nullary")
    ^ " " ^ sn r
  | RUnsupported (w, c, v) ->
    "unsupported " ^ (match w with
                      | UScanKind -> "scan-kind" | UNullary -> "nullary" | UNegKind -> "neg-kind"
                      | USccNegation -> "scc-negation" | UTestKind -> "test-kind" | UEmptyKind -> "empty-kind"
                      | UBreak -> "break" | UWide -> "isempty-delta-of-wide-relation")
    ^ " " ^ cv c v

let () = read_lines (fun line ->
  try
    match parse_sx (tokenize line) with
    | (sx, []) ->
      (match stratum_check (stratum_of_sx sx) with
       | OkResult -> print_endline "ok"
       | Reject r -> print_endline ("reject " ^ show_reason r))
    | (_, _ :: _) -> print_endline "parse-error trailing input"
  with Failure m -> print_endline ("parse-error " ^ m) | Not_found -> print_endline "parse-error nf")
