(* stdin: one history per line: "<dim> <mode> <ops>"
     dim  = arity 1..4;  mode = asis (unchanged Brie.h as it behaves on x86-64) | fixed (repaired
     header) | asisub (unchanged header, shifts >= 64 undefined) | spec (the set model)
     ops  = i:a,b,..  insert      c:a,b,..  contains      z  size      it  full iteration
            p:a,..    all tuples starting with the given prefix (getBoundaries<k>), "p:" = all
            q:n       partition(n): the chunks, each as {a,b a,b ...}
   stdout: the answers separated by " ; ": insert -> t/f (was new), contains -> t/f, size -> n,
     iteration/prefix -> tuples "a,b a,b ..." in the structure's iteration order;
     "undef" where the model has no defined result (shift >= 64 in asisub, failed assert). *)
open Brie_model
open Common_io
let tuple_of s = if s = "" then [] else List.map (fun x -> cz_of_z (BZ.of_string x)) (split_on ',' s)
let show_tuple t = String.concat "," (List.map (fun k -> BZ.to_string (z_of_cz k)) t)
let after2 s = String.sub s 2 (String.length s - 2)
let () = read_lines (fun l ->
  match List.filter (fun w -> w <> "") (split_on ' ' l) with
  | dim :: mode :: ops ->
    let d = int_of_string dim in
    let ok = ref (d >= 1 && d <= 4) in
    let parse w =
      if w = "z" then OSize else if w = "it" then OIter
      else if String.length w >= 2 && w.[1] = ':' then begin
        let t = if w.[0] = 'q' then [] else tuple_of (after2 w) in
        match w.[0] with
        | 'i' -> if List.length t <> d then ok := false; OIns t
        | 'c' -> if List.length t <> d then ok := false; OMem t
        | 'p' -> if List.length t > d then ok := false; OPrefix t
        | 'q' -> OPart (n_of_z (BZ.of_string (after2 w)))
        | _ -> ok := false; OSize end
      else (ok := false; OSize) in
    let h = List.map parse ops in
    if not !ok then print_endline "bad" else begin
      let dn = nat_of_int (d - 1) in
      let res = match mode with
        | "asis" -> run_model false X86 dn (trie_empty dn) h
        | "asisub" -> run_model false UBexplicit dn (trie_empty dn) h
        | "fixed" -> run_model true UBexplicit dn (trie_empty dn) h
        | _ -> run_spec [] h in
      let show = function
        | ABool true -> "t" | ABool false -> "f"
        | ANum n -> BZ.to_string (z_of_n n)
        | ATuples ts -> String.concat " " (List.map show_tuple ts)
        | AChunks cs -> String.concat "" (List.map (fun ts -> "{" ^ String.concat " " (List.map show_tuple ts) ^ "}") cs)
        | AUndef -> "undef" in
      print_endline (String.concat " ; " (List.map show res)) end
  | _ -> print_endline "")
