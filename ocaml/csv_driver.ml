(* stdin, one case per line (same protocol as /verif/cpp/io_harness.cpp, which drives the real
   reader / writer):
     rt   <cfg> <ncols> <type>... <hex of a default-format file>
        parse the content with the model's default-format reader, write the rows with cfg, read
        them back with cfg:
        "written <n> <hex canonical default text of the parsed rows> <hex written> back <n> <same|DIFF> <hex canonical text of the rows read back>"
        | "written <n> <hex> <hex> backerr" | "err"
     read <cfg> <ncols> <type>... <hex of file>   ->  "tuples <n> <hex canonical default text>" | "err"
     write <cfg> <ncols> <type>... <hex of a default-format file>  ->  "out <hex written with cfg>" | "err"
     rep  <cfg> <ncols> <type>... <hex of a default-format file>
        -> "rep <n> <one 0/1 per row: representable_row under cfg>" | "err"   (model only)
   cfg: "-" or comma separated rfc4180=true, delimiter=<hex bytes>, headers=true;
   types: i:number u:unsigned s:symbol r:P r:Q +:A +:E (the fixed environment of the harness). *)
open Csv_model
open Common_io

let parse_cfg (s : string) : (cfg * bool) option =
  let rfc = ref false and d = ref None and hdr = ref false in
  if s <> "-" then
    List.iter (fun kv ->
      match String.index_opt kv '=' with
      | None -> ()
      | Some i ->
        let k = String.sub kv 0 i and v = String.sub kv (i + 1) (String.length kv - i - 1) in
        if k = "rfc4180" then rfc := (v = "true")
        else if k = "delimiter" then d := Some (bytes_of_hex v)
        else if k = "headers" then hdr := (v = "true")) (split_on ',' s);
  let dl = match !d with Some x -> x | None -> if !rfc then [n_of_int 44] else [n_of_int 9] in
  let c = { rfc4180 = !rfc; delim = dl } in
  if cfg_accepted c then Some (c, !hdr) else None

let ty_of = function
  | "i:number" -> Some TyNum | "u:unsigned" -> Some TyUns | "s:symbol" -> Some TySym
  | "r:P" -> Some ty_P | "r:Q" -> Some ty_Q | "+:A" -> Some ty_A | "+:E" -> Some ty_E
  | _ -> None

let rec take n l = if n = 0 then ([], l) else match l with x :: r -> let (a, b) = take (n - 1) r in (x :: a, b) | [] -> ([], [])

(* the attribute names line the harness passes: c0 TAB c1 ... *)
let header n = List.concat (List.init n (fun i ->
  (if i > 0 then [n_of_int 9] else []) @ List.map (fun ch -> n_of_int (Char.code ch)) (List.of_seq (String.to_seq ("c" ^ string_of_int i)))))

let wr (c, h) tys rows = if h then write_file_hdr c (header (List.length tys)) tys rows else write_file c tys rows
let rd (c, h) tys content = if h then read_file_hdr c tys content else read_file c tys content

let () = read_lines (fun l ->
  let out =
    try
      match split_on ' ' l with
      | cmd :: cfgs :: ncols :: rest ->
        let n = int_of_string ncols in
        let (tyss, rest') = take n rest in
        let tys = List.map (fun t -> match ty_of t with Some x -> x | None -> failwith "type") tyss in
        let content = bytes_of_hex (match rest' with h :: _ -> h | [] -> "") in
        let canon rows = hex_of_bytes (write_file default_cfg tys rows) in
        (match cmd with
         | "read" ->
           (match parse_cfg cfgs with
            | None -> "err"
            | Some ch ->
              (match rd ch tys content with
               | Some rows -> Printf.sprintf "tuples %d %s" (List.length rows) (canon rows)
               | None -> "err"))
         | "rt" | "write" | "rep" ->
           (match read_file default_cfg tys content with
            | None -> "err"
            | Some rows ->
              (match parse_cfg cfgs with
               | None -> "err"
               | Some ch ->
                 let written = wr ch tys rows in
                 if cmd = "write" then "out " ^ hex_of_bytes written
                 else if cmd = "rep" then
                   Printf.sprintf "rep %d %s" (List.length rows)
                     (String.concat "" (List.map (fun r -> if cfg_ok (fst ch) && representable_row (fst ch) tys r then "1" else "0") rows))
                 else
                   let head = Printf.sprintf "written %d %s %s" (List.length rows) (canon rows) (hex_of_bytes written) in
                   (match rd ch tys written with
                    | None -> head ^ " backerr"
                    | Some rows' ->
                      Printf.sprintf "%s back %d %s %s" head (List.length rows') (if rows = rows' then "same" else "DIFF") (canon rows'))))
         | _ -> "unknown")
      | _ -> "unknown"
    with _ -> "err" in
  print_endline out)
