(* Oracle driver: one S-expression program per input line -> one result line.
   (prog FUEL (edb (R tuple...)...) (strata (clause...)...) (out R...))
   value  ::= (n INT) | (s HEX) | nil | (r value...) | (a B value...)
   term   ::= (v X) | _ | (c value) | (op NAME term...) | (rec term...) | (adt B term...)
   slit   ::= (pos R term...) | (neg R term...) | (cmp OP term term)
   lit    ::= slit | (agg X KIND TY term (slit...)) | (range X TY term term [term])
   clause ::= (cl R (term...) (lit...))                                         *)
open Datalog_model
open Common_io

type sx = A of string | L of sx list
let tokenize (s : string) : string list =
  let n = String.length s in
  let toks = ref [] and i = ref 0 in
  while !i < n do
    (match s.[!i] with
     | '(' -> toks := "(" :: !toks; incr i
     | ')' -> toks := ")" :: !toks; incr i
     | ' ' | '\t' | '\r' -> incr i
     | _ -> let j = ref !i in
            while !j < n && (match s.[!j] with '(' | ')' | ' ' | '\t' | '\r' -> false | _ -> true) do incr j done;
            toks := String.sub s !i (!j - !i) :: !toks; i := !j)
  done; List.rev !toks
let rec parse_sx toks = match toks with
  | "(" :: r -> let (l, r') = parse_list r [] in (L l, r')
  | ")" :: _ -> failwith "unexpected )"
  | a :: r -> (A a, r)
  | [] -> failwith "eof"
and parse_list toks acc = match toks with
  | ")" :: r -> (List.rev acc, r)
  | [] -> failwith "eof in list"
  | _ -> let (x, r) = parse_sx toks in parse_list r (x :: acc)

let nat_of_sx = function A a -> nat_of_int (int_of_string a) | _ -> failwith "nat"
let rec value_of = function
  | L [A "n"; A i] -> VNum (cz_of_z (BZ.of_string i))
  | L [A "s"; A h] -> VSym (bytes_of_hex h)
  | L [A "s"] -> VSym []
  | A "nil" -> VNil
  | L (A "r" :: vs) -> VRec (List.map value_of vs)
  | L (A "a" :: b :: vs) -> VAdt (nat_of_sx b, List.map value_of vs)
  | _ -> failwith "value"
let nty_of = function "s" -> TS | "u" -> TU | _ -> failwith "nty"
let op_of (name : string) : fop =
  let base, ty = match String.index_opt name '.' with
    | Some i -> String.sub name 0 i, String.sub name (i + 1) (String.length name - i - 1)
    | None -> name, "s" in
  match base with
  | "add" -> OAdd (nty_of ty) | "sub" -> OSub (nty_of ty) | "mul" -> OMul (nty_of ty) | "div" -> ODiv (nty_of ty)
  | "mod" -> OMod (nty_of ty) | "exp" -> OExp (nty_of ty) | "max" -> OMax (nty_of ty) | "min" -> OMin (nty_of ty)
  | "neg" -> ONeg | "band" -> OBand | "bor" -> OBor | "bxor" -> OBxor | "bnot" -> OBnot | "shl" -> OShl
  | "shr" -> OShr (nty_of ty) | "shru" -> OShru | "land" -> OLand | "lor" -> OLor | "lxor" -> OLxor | "lnot" -> OLnot
  | "cat" -> OCat | "strlen" -> OStrlen | "substr" -> OSubstr | "tonum" -> OToNumber | "tostr" -> OToString
  | "smax" -> OSMax | "smin" -> OSMin | "id" -> OId
  | _ -> failwith ("op " ^ name)
let cop_of (name : string) : cop =
  let base, ty = match String.index_opt name '.' with
    | Some i -> String.sub name 0 i, String.sub name (i + 1) (String.length name - i - 1)
    | None -> name, "s" in
  let t = if ty = "y" then None else Some (nty_of ty) in
  match base with
  | "eq" -> CEq | "ne" -> CNe | "lt" -> CLt t | "le" -> CLe t | "gt" -> CGt t | "ge" -> CGe t
  | "contains" -> CContains | "ncontains" -> CNotContains | _ -> failwith ("cop " ^ name)
let rec term_of = function
  | L [A "v"; x] -> TVar (nat_of_sx x)
  | A "_" -> TAnon
  | L [A "c"; v] -> TConst (value_of v)
  | L (A "op" :: A name :: ts) -> TOp (op_of name, List.map term_of ts)
  | L (A "rec" :: ts) -> TRecord (List.map term_of ts)
  | L (A "adt" :: b :: ts) -> TAdtC (nat_of_sx b, List.map term_of ts)
  | _ -> failwith "term"
let slit_of = function
  | L (A "pos" :: r :: ts) -> SPos (nat_of_sx r, List.map term_of ts)
  | L (A "neg" :: r :: ts) -> SNeg (nat_of_sx r, List.map term_of ts)
  | L [A "cmp"; A op; a; b] -> SCmp (cop_of op, term_of a, term_of b)
  | _ -> failwith "slit"
let aggk_of = function "count" -> ACount | "sum" -> ASum | "min" -> AMin | "max" -> AMax | _ -> failwith "aggk"
let lit_of = function
  | L [A "agg"; x; A k; A ty; target; L body] -> LAgg (nat_of_sx x, aggk_of k, nty_of ty, term_of target, List.map slit_of body)
  | L [A "range"; x; A ty; f; t] -> LRange (nat_of_sx x, nty_of ty, term_of f, term_of t, None)
  | L [A "range"; x; A ty; f; t; s] -> LRange (nat_of_sx x, nty_of ty, term_of f, term_of t, Some (term_of s))
  | s -> LS (slit_of s)
let clause_of = function
  | L [A "cl"; r; L args; L body] -> { c_rel = nat_of_sx r; c_args = List.map term_of args; c_body = List.map lit_of body }
  | _ -> failwith "clause"
let tuple_of = function L vs -> List.map value_of vs | _ -> failwith "tuple"

let rec show_value = function
  | VNum z -> "(n " ^ BZ.to_string (z_of_cz z) ^ ")"
  | VSym s -> "(s " ^ hex_of_bytes s ^ ")"
  | VNil -> "nil"
  | VRec vs -> "(r" ^ String.concat "" (List.map (fun v -> " " ^ show_value v) vs) ^ ")"
  | VAdt (b, vs) -> "(a " ^ string_of_int (int_of_nat b) ^ String.concat "" (List.map (fun v -> " " ^ show_value v) vs) ^ ")"
let show_tuple t = "(" ^ String.concat " " (List.map show_value t) ^ ")"

let () = read_lines (fun line ->
  try
    match fst (parse_sx (tokenize line)) with
    | L [A "prog"; A fuel; L (A "edb" :: rels); L (A "strata" :: strata); L (A "out" :: outs)] ->
      let edb = List.map (function L (r :: ts) -> (nat_of_sx r, List.map tuple_of ts) | _ -> failwith "edb") rels in
      let ss = List.map (function L cs -> List.map clause_of cs | _ -> failwith "stratum") strata in
      (match run_program (nat_of_int (int_of_string fuel)) edb ss with
       | Ok (Some (d, rounds)) ->
         let buf = Buffer.create 1024 in
         (* static hypotheses of theorem C01_run_program_correct, evaluated on this very input *)
         Buffer.add_string buf (if program_ok ss && program_det ss then "ok (rounds" else "ok (rounds-nohyp");
         List.iter (fun n -> Buffer.add_string buf (" " ^ string_of_int (int_of_nat n))) rounds;
         Buffer.add_string buf ")";
         List.iter (fun o ->
           let r = nat_of_sx o in
           let ts = try List.assoc r d with Not_found -> [] in
           Buffer.add_string buf (" (" ^ string_of_int (int_of_nat r));
           List.iter (fun t -> Buffer.add_string buf (" " ^ show_tuple t)) ts;
           Buffer.add_string buf ")") outs;
         print_endline (Buffer.contents buf)
       | Ok None -> print_endline "fuel"
       | Stuck -> print_endline "stuck"
       | Undef -> print_endline "undef")
    | _ -> print_endline "parse-error shape"
  with Failure m -> print_endline ("parse-error " ^ m) | Not_found -> print_endline "parse-error nf")
