(* stdin, one case per line:
     [fixed] [trace] <nnodes> | <script_0> | ... | <script_{k-1}> | <schedule>
   script: space-separated tokens u:x:y (unionNodes), s:x:y (sameSet), f:x (findNode);
   schedule: space-separated thread ids. Leading token "fixed" selects the repaired linking
   (model switch fx = true; default is the code as it is), "trace" adds the per-access trace.
   stdout, one line per case:
     resp <tid>:<f|s|u>:<value> ... ; mem <parent>:<rank> ... ; steps <tid> ... ; mon <ok|bad>
     [ ; acc <tid>:<L|C>:<index>:<observed parent>:<observed rank>:<t|f|-> ... ]
   or "err <message>" for a malformed line. *)
open Unionfind_model
open Common_io

let words s = List.filter (fun w -> w <> "") (split_on ' ' (String.trim s))

let parse_op tok =
  match split_on ':' tok with
  | ["u"; x; y] -> OUnion (nat_of_int (int_of_string x), nat_of_int (int_of_string y))
  | ["s"; x; y] -> OSame (nat_of_int (int_of_string x), nat_of_int (int_of_string y))
  | ["f"; x] -> OFind (nat_of_int (int_of_string x))
  | _ -> failwith ("bad op " ^ tok)

let show_resp (t, r) =
  let t = int_of_nat t in
  match r with
  | RFind z -> Printf.sprintf "%d:f:%d" t (int_of_nat z)
  | RSame b -> Printf.sprintf "%d:s:%s" t (if b then "t" else "f")
  | RUnion -> Printf.sprintf "%d:u:-" t

let show_acc (t, a) =
  let k, ok = (match a.a_kind with ALoad -> "L", "-" | ACas b -> "C", (if b then "t" else "f")) in
  Printf.sprintf "%d:%s:%d:%d:%d:%s" (int_of_nat t) k (int_of_nat a.a_idx)
    (int_of_nat a.a_par) (int_of_nat a.a_rank) ok

let sect name items = if items = [] then name else name ^ " " ^ String.concat " " items

let handle line =
  let rec flags fx tr = function
    | "fixed" :: r -> flags true tr r
    | "trace" :: r -> flags fx true r
    | r -> (fx, tr, r) in
  let parts = split_on '|' line in
  match parts with
  | first :: rest when rest <> [] ->
    let fx, tr, hd = flags false false (words first) in
    let n = (match hd with [n] -> int_of_string n | _ -> failwith "bad node count") in
    let rec split_last = function
      | [x] -> ([], x) | x :: r -> let (a, b) = split_last r in (x :: a, b) | [] -> failwith "empty" in
    let scripts_s, sched_s = split_last rest in
    let scripts = List.map (fun s -> List.map parse_op (words s)) scripts_s in
    let sched = List.map (fun w -> nat_of_int (int_of_string w)) (words sched_s) in
    let chk x = if x < 0 || x >= n then failwith "node out of range" in
    List.iter (List.iter (fun o -> match o with
      | OUnion (x, y) | OSame (x, y) -> chk (int_of_nat x); chk (int_of_nat y)
      | OFind x -> chk (int_of_nat x))) scripts;
    let nn = nat_of_int n in
    let (st, ev) = run_events_from fx (init nn scripts) sched in
    let resps = List.filter_map (fun ((t, r), _) -> match r with Some r -> Some (show_resp (t, r)) | None -> None) ev in
    let memory = List.map (fun (p, r) -> Printf.sprintf "%d:%d" (int_of_nat p) (int_of_nat r)) st.s_mem in
    let steps = List.map (fun ((t, _), _) -> string_of_int (int_of_nat t)) ev in
    let mon = if mon_ok fx nn scripts sched then "ok" else "bad" in
    let base = String.concat " ; " [sect "resp" resps; sect "mem" memory; sect "steps" steps; "mon " ^ mon] in
    if tr then base ^ " ; " ^ sect "acc" (List.map (fun ((t, _), a) -> show_acc (t, a)) ev) else base
  | _ -> failwith "expected <n> | scripts... | schedule"

let () = read_lines (fun l ->
  if String.trim l = "" then print_endline "err empty line"
  else match handle l with
    | s -> print_endline s
    | exception Failure m -> print_endline ("err " ^ m)
    | exception Invalid_argument m -> print_endline ("err " ^ m))
