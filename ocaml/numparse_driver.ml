(* stdin: "<kind> <hex bytes>" per line (kind: si = signed fact, un = unsigned fact,
   cs/cu = program-text constants, up = unsigned fact before the repairs);
   stdout: "ok <value>" or "err" per line. *)
open Numparse_model
open Common_io
let () = read_lines (fun l ->
  match split_on ' ' l with
  | kind :: rest ->
    let s = bytes_of_hex (match rest with h :: _ -> h | [] -> "") in
    let r = (match kind with
      | "si" -> fact_signed s | "un" -> fact_unsigned s | "cs" -> const_signed s
      | "cu" -> const_unsigned s | "up" -> fact_unsigned_prefix s | _ -> None) in
    (match r with Some v -> print_endline ("ok " ^ BZ.to_string (z_of_cz v)) | None -> print_endline "err")
  | [] -> print_endline "err")
