(* Lattice validator (C12): one S-expression per input line -> one verdict line.
   Syntax of values / terms / lits / clauses exactly as in datalog_driver.ml; a lattice value is a
   record with one number, e.g. (r (n 5)); it is the LAST column of the relation.
   (lattice (db (R tuple...)...) (rel R) (join max|min|bor) (clauses clause...))
      -> ok | dupkey <t1> <t2> | notjoin <key> <expected> <actual> | missing <key> |
         underivable <t> | stuck | undef
   If the static hypotheses of C12_lattice_ok_iff (choice_hyps: duplicate-free database, well-scoped
   aggregates, no unsigned min/max aggregate) do not hold for the input, the verdict is prefixed
   with `nohyp `. *)
open Lattice_model
open Common_io

type sx = A of string | L of sx list
let tokenize (s : string) : string list =
  let n = String.length s in
  let toks = ref [] and i = ref 0 in
  while !i < n do
    (match s.[!i] with
     | '(' -> toks := "(" :: !toks; incr i
     | ')' -> toks := ")" :: !toks; incr i
     | ' ' | '\t' | '\r' -> incr i
     | _ -> let j = ref !i in
            while !j < n && (match s.[!j] with '(' | ')' | ' ' | '\t' | '\r' -> false | _ -> true) do incr j done;
            toks := String.sub s !i (!j - !i) :: !toks; i := !j)
  done; List.rev !toks
let rec parse_sx toks = match toks with
  | "(" :: r -> let (l, r') = parse_list r [] in (L l, r')
  | ")" :: _ -> failwith "unexpected )"
  | a :: r -> (A a, r)
  | [] -> failwith "eof"
and parse_list toks acc = match toks with
  | ")" :: r -> (List.rev acc, r)
  | [] -> failwith "eof in list"
  | _ -> let (x, r) = parse_sx toks in parse_list r (x :: acc)

let nat_of_sx = function A a -> nat_of_int (int_of_string a) | _ -> failwith "nat"
let rec value_of = function
  | L [A "n"; A i] -> VNum (cz_of_z (BZ.of_string i))
  | L [A "s"; A h] -> VSym (bytes_of_hex h)
  | L [A "s"] -> VSym []
  | A "nil" -> VNil
  | L (A "r" :: vs) -> VRec (List.map value_of vs)
  | L (A "a" :: b :: vs) -> VAdt (nat_of_sx b, List.map value_of vs)
  | _ -> failwith "value"
let nty_of = function "s" -> TS | "u" -> TU | _ -> failwith "nty"
let op_of (name : string) : fop =
  let base, ty = match String.index_opt name '.' with
    | Some i -> String.sub name 0 i, String.sub name (i + 1) (String.length name - i - 1)
    | None -> name, "s" in
  match base with
  | "add" -> OAdd (nty_of ty) | "sub" -> OSub (nty_of ty) | "mul" -> OMul (nty_of ty) | "div" -> ODiv (nty_of ty)
  | "mod" -> OMod (nty_of ty) | "exp" -> OExp (nty_of ty) | "max" -> OMax (nty_of ty) | "min" -> OMin (nty_of ty)
  | "neg" -> ONeg | "band" -> OBand | "bor" -> OBor | "bxor" -> OBxor | "bnot" -> OBnot | "shl" -> OShl
  | "shr" -> OShr (nty_of ty) | "shru" -> OShru | "land" -> OLand | "lor" -> OLor | "lxor" -> OLxor | "lnot" -> OLnot
  | "cat" -> OCat | "strlen" -> OStrlen | "substr" -> OSubstr | "tonum" -> OToNumber | "tostr" -> OToString
  | "smax" -> OSMax | "smin" -> OSMin | "id" -> OId
  | _ -> failwith ("op " ^ name)
let cop_of (name : string) : cop =
  let base, ty = match String.index_opt name '.' with
    | Some i -> String.sub name 0 i, String.sub name (i + 1) (String.length name - i - 1)
    | None -> name, "s" in
  let t = if ty = "y" then None else Some (nty_of ty) in
  match base with
  | "eq" -> CEq | "ne" -> CNe | "lt" -> CLt t | "le" -> CLe t | "gt" -> CGt t | "ge" -> CGe t
  | "contains" -> CContains | "ncontains" -> CNotContains | _ -> failwith ("cop " ^ name)
let rec term_of = function
  | L [A "v"; x] -> TVar (nat_of_sx x)
  | A "_" -> TAnon
  | L [A "c"; v] -> TConst (value_of v)
  | L (A "op" :: A name :: ts) -> TOp (op_of name, List.map term_of ts)
  | L (A "rec" :: ts) -> TRecord (List.map term_of ts)
  | L (A "adt" :: b :: ts) -> TAdtC (nat_of_sx b, List.map term_of ts)
  | _ -> failwith "term"
let slit_of = function
  | L (A "pos" :: r :: ts) -> SPos (nat_of_sx r, List.map term_of ts)
  | L (A "neg" :: r :: ts) -> SNeg (nat_of_sx r, List.map term_of ts)
  | L [A "cmp"; A op; a; b] -> SCmp (cop_of op, term_of a, term_of b)
  | _ -> failwith "slit"
let aggk_of = function "count" -> ACount | "sum" -> ASum | "min" -> AMin | "max" -> AMax | _ -> failwith "aggk"
let lit_of = function
  | L [A "agg"; x; A k; A ty; target; L body] -> LAgg (nat_of_sx x, aggk_of k, nty_of ty, term_of target, List.map slit_of body)
  | L [A "range"; x; A ty; f; t] -> LRange (nat_of_sx x, nty_of ty, term_of f, term_of t, None)
  | L [A "range"; x; A ty; f; t; s] -> LRange (nat_of_sx x, nty_of ty, term_of f, term_of t, Some (term_of s))
  | s -> LS (slit_of s)
let clause_of = function
  | L [A "cl"; r; L args; L body] -> { c_rel = nat_of_sx r; c_args = List.map term_of args; c_body = List.map lit_of body }
  | _ -> failwith "clause"
let tuple_of = function L vs -> List.map value_of vs | _ -> failwith "tuple"

let rec show_value = function
  | VNum z -> "(n " ^ BZ.to_string (z_of_cz z) ^ ")"
  | VSym s -> "(s " ^ hex_of_bytes s ^ ")"
  | VNil -> "nil"
  | VRec vs -> "(r" ^ String.concat "" (List.map (fun v -> " " ^ show_value v) vs) ^ ")"
  | VAdt (b, vs) -> "(a " ^ string_of_int (int_of_nat b) ^ String.concat "" (List.map (fun v -> " " ^ show_value v) vs) ^ ")"
let show_tuple t = "(" ^ String.concat " " (List.map show_value t) ^ ")"

let db_of rels = List.map (function L (r :: ts) -> (nat_of_sx r, List.map tuple_of ts) | _ -> failwith "db") rels
let jkind_of = function "max" -> JMax | "min" -> JMin | "bor" -> JBor | _ -> failwith "join"

let () = read_lines (fun line ->
  try
    match fst (parse_sx (tokenize line)) with
    | L [A "lattice"; L (A "db" :: rels); L [A "rel"; r]; L [A "join"; A j]; L (A "clauses" :: cls)] ->
      let d = db_of rels and cs = List.map clause_of cls in
      let pre = if choice_hyps d cs then "" else "nohyp " in
      (match lattice_ok d (nat_of_sx r) cs (jkind_of j) with
       | Ok LOk -> print_endline (pre ^ "ok")
       | Ok (LDuplicateKey (a, b)) -> print_endline (pre ^ "dupkey " ^ show_tuple a ^ " " ^ show_tuple b)
       | Ok (LNotJoin (k, e, a)) -> print_endline (pre ^ "notjoin " ^ show_tuple k ^ " " ^ show_value e ^ " " ^ show_value a)
       | Ok (LMissingKey k) -> print_endline (pre ^ "missing " ^ show_tuple k)
       | Ok (LUnderivable t) -> print_endline (pre ^ "underivable " ^ show_tuple t)
       | Stuck -> print_endline "stuck"
       | Undef -> print_endline "undef")
    | _ -> print_endline "parse-error shape"
  with Failure m -> print_endline ("parse-error " ^ m) | Not_found -> print_endline "parse-error nf")
