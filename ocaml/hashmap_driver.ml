(* stdin, one case per line:
     <nbuckets0> <max0> <hashmod> [prime] | <keys of thread 0> | <keys of thread 1> | ... | <schedule tids>
   hash k = k mod hashmod (hashmod 0: hash k = k).
   Growth policy: default   next_buckets b s = 2*b+1, next_max m nb = 2*m+1;
                  "prime"   next_buckets b s = smallest prime of Souffle's ToPrime table >= s (s itself if none),
                            next_max m nb = nb   (the real policy with LoadFactor 1.0).
   stdout, one line per case:
     resp <tid>:<key>:<node id>:<t|f> ... ; buckets <count> ; chains <b>:<id>,<id>,.. ... ; size <n> ; steps <tids> ; mon <ok|bad>
   (responses in global order; chains: only the non-empty buckets, node ids head first; a bucket
   whose list does not terminate prints <b>:cyclic; steps: the schedule entries that actually
   stepped, i.e. not those naming a blocked or finished thread), or "err" for a malformed line. *)
open Hashmap_model
open Common_io

let toks s = List.filter (fun x -> x <> "") (split_on ' ' (String.trim s))

let to_prime = [ (4,3); (8,5); (9,3); (10,3); (11,9); (12,3); (13,1); (14,3); (15,19); (16,15); (17,1);
  (18,5); (19,1); (20,3); (21,9); (22,3); (23,15); (24,3); (25,39); (26,5); (27,39); (28,57); (29,3);
  (30,35); (31,1); (32,5); (33,9); (34,41); (35,31); (36,5); (37,25); (38,45); (39,7); (40,87) ]
let ge_prime lb =
  let rec go = function
    | [] -> lb
    | (n, k) :: r -> let p = (1 lsl n) - k in if p >= lb then p else go r in
  go to_prime

let rec split_last = function
  | [] -> ([], [])
  | [x] -> ([], x)
  | x :: r -> let (a, b) = split_last r in (x :: a, b)

let run_case l =
  match List.map toks (split_on '|' l) with
  | hdr :: rest when List.length hdr >= 3 && rest <> [] ->
    let nb0 = int_of_string (List.nth hdr 0) and mx0 = int_of_string (List.nth hdr 1)
    and hm = int_of_string (List.nth hdr 2) in
    let prime = List.length hdr >= 4 && List.nth hdr 3 = "prime" in
    let (progs_s, sched_s) = split_last rest in
    let progs = List.map (List.map (fun k -> n_of_z (BZ.of_string k))) progs_s in
    let sched = List.map (fun t -> nat_of_int (int_of_string t)) sched_s in
    let hash k = if hm = 0 then k else n_of_z (BZ.rem (z_of_n k) (BZ.of_int hm)) in
    let next_buckets b s = if prime then n_of_int (ge_prime (int_of_n s)) else n_of_int (2 * int_of_n b + 1) in
    let next_max m nb = if prime then nb else n_of_int (2 * int_of_n m + 1) in
    let ((st, resps), steps) = exec hash next_buckets next_max (init (n_of_int nb0) (n_of_int mx0) progs) sched in
    let resp_s = List.map (fun (t, RGet (k, id, ins)) ->
      Printf.sprintf "%d:%s:%d:%s" (int_of_nat t) (BZ.to_string (z_of_n k)) (int_of_nat id) (if ins then "t" else "f")) resps in
    let chains = chains_of st in
    let chain_s = List.concat (List.mapi (fun b c ->
      match c with
      | None -> [Printf.sprintf "%d:cyclic" b]
      | Some [] -> []
      | Some ids -> [Printf.sprintf "%d:%s" b (String.concat "," (List.map (fun i -> string_of_int (int_of_nat i)) ids))]) chains) in
    let steps_s = List.map (fun t -> string_of_int (int_of_nat t)) steps in
    let j xs = String.concat " " xs in
    Printf.sprintf "%s ; buckets %s ; %s ; size %s ; %s ; mon %s"
      (j ("resp" :: resp_s)) (BZ.to_string (z_of_n st.bcount)) (j ("chains" :: chain_s))
      (BZ.to_string (z_of_n st.size)) (j ("steps" :: steps_s))
      (if mon hash st resps then "ok" else "bad")
  | _ -> "err"

let () = read_lines (fun l ->
  print_endline (try run_case l with _ -> "err"))
