(* Optimistic read/write lock model (LockDefs.v) as a line filter.
   stdin, one case per line:
     <nthreads>[@<initial version>] | <script_0> | ... | <script_{n-1}> | <schedule>
   script: space-separated blocks  R  W+ W-  T+ T-  U+ U-
     (R = start_read validate end_read; W = start_write then end_write(+)/abort_write(-);
      T = try_start_write, if granted end_write(+)/abort_write(-);
      U = start_read try_upgrade_to_write, if granted end_write(+)/abort_write(-))
   schedule: space-separated thread ids, one per atomic step (entries naming a finished or
     non-existent thread are skipped).
   stdout, one line per case:
     final <version> ; <tid>:<method>:<resp> ... ; mon <ok|bad>
   method: sr va er sw tsw tup aw ew; resp: lease as decimal, t/f, u.  "err" for a malformed line. *)
open Lock_model
open Common_io

let parse_block = function
  | "R" -> BRead
  | "W+" -> BWrite true | "W-" -> BWrite false
  | "T+" -> BTry true | "T-" -> BTry false
  | "U+" -> BUpg true | "U-" -> BUpg false
  | s -> failwith ("bad block " ^ s)

let words s = List.filter (fun w -> w <> "") (split_on ' ' (String.trim s))

let meth = function
  | MStartRead -> "sr" | MValidate -> "va" | MEndRead -> "er" | MStartWrite -> "sw"
  | MTryStartWrite -> "tsw" | MTryUpgrade -> "tup" | MAbortWrite -> "aw" | MEndWrite -> "ew"

let resp = function
  | RLease v -> BZ.to_string (z_of_cz v)
  | RBool true -> "t" | RBool false -> "f"
  | RUnit -> "u"

let tid_of_string w =
  let i = int_of_string w in
  if i < 0 then failwith "negative tid" else nat_of_int i

let rec take n l = if n = 0 then [] else match l with x :: r -> x :: take (n - 1) r | [] -> failwith "short"

let () = read_lines (fun l ->
  try
    match split_on '|' l with
    | n :: rest ->
      let n = String.trim n in
      let (n, v0) = match split_on '@' n with
        | [a; b] -> (int_of_string a, BZ.of_string b)
        | _ -> (int_of_string n, BZ.zero) in
      if n < 0 || List.length rest <> n + 1 then failwith "arity";
      let scripts = List.map (fun s -> List.map parse_block (words s)) (take n rest) in
      let sched = List.map tid_of_string (words (List.nth rest n)) in
      let (st, evs) = run_from (cz_of_z v0) scripts sched in
      let verdict = if mon_ok (cz_of_z v0) scripts sched then "ok" else "bad" in
      let ev ((t, m), r) = Printf.sprintf " %d:%s:%s" (int_of_nat t) (meth m) (resp r) in
      print_endline ("final " ^ BZ.to_string (z_of_cz st.s_version) ^ " ;"
                     ^ String.concat "" (List.map ev evs) ^ " ; mon " ^ verdict)
    | [] -> print_endline "err"
  with _ -> print_endline "err")
