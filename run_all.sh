#!/bin/sh
# Runs every registered quick check on the current /repo working tree (used before committing evidence).
cd "$(dirname "$0")"
for id in $(python3 -c "import json;print(' '.join(c['property_id'] for c in json.load(open('MANIFEST.json'))['checks']))"); do
  s=$(date +%s); ./check $id --tier quick > _work/last_$id.log 2>&1; rc=$?
  echo "$id exit=$rc $(( $(date +%s) - s ))s $(grep -c '^VIOLATION' _work/last_$id.log) violations $(grep -c '^KNOWN-FINDING' _work/last_$id.log) known"
done
