From Coq Require Import Extraction ExtrOcamlBasic.
From SV Require Import DatalogDefs DatalogSem ContractDefs.
Extraction Language OCaml.
Extraction "contract_model.ml" choice_ok subsume_ok choice_hyps subsume_hyps value_eqb.
