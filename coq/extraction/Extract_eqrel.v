From Coq Require Import Extraction ExtrOcamlBasic.
From SV Require Import EqRelDefs.
Extraction Language OCaml.
Extraction "eqrel_model.ml" run closure_b spec_pairs class_of.
