From Coq Require Import Extraction ExtrOcamlBasic.
From SV Require Import LockDefs.
Extraction Language OCaml.
Extraction "lock_model.ml" run run_from mon_ok step exec init.
