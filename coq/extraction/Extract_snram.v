From Coq Require Import Extraction ExtrOcamlBasic NArith ZArith.
From SV Require Import SemiNaiveRam.
Extraction Language OCaml.
(* Z.of_N is listed only so that the inductive type z, which ocaml/common_io.ml mentions, exists
   in the extracted module; the validator itself uses nat and N only. *)
Extraction "snram_model.ml" stratum_check clause_check clause_perm Z.of_N.
