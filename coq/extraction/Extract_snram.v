From Coq Require Import Extraction ExtrOcamlBasic NArith ZArith.
From SV Require Import SemiNaiveRam.
Extraction Language OCaml.
(* Z.of_N is listed only so that the inductive type z, which ocaml/common_io.ml mentions, exists
   in the extracted module; the validator itself uses nat and N only.
   The records version (fields v_tests, v_empties, v_breaks) and stratum (field st_nullary) are built
   by ocaml/snram_driver.ml field by field; stratum_check = frame_check, clause_check per clause,
   nullary_check per clause. *)
Extraction "snram_model.ml" stratum_check clause_check nullary_check clause_perm Z.of_N.
