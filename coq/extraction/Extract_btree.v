From Coq Require Import Extraction ExtrOcamlBasic NArith ZArith.
From SV Require Import BTreeDefs.
Extraction Language OCaml.
(* N.of_nat is listed only so that the inductive type n, which ocaml/common_io.ml mentions, exists
   in the extracted module; the B-tree model itself uses nat and Z only. *)
Extraction "btree_model.ml" wf ordered balanced filled check elements size find contains lower_bound upper_bound first next_after iterate insert insert_all N.of_nat.
