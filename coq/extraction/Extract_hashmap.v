From Coq Require Import Extraction ExtrOcamlBasic ZArith.
From SV Require Import HashMapDefs.
Extraction Language OCaml.
(* Z.of_N is listed only so that the inductive type z, which ocaml/common_io.ml mentions, exists
   in the extracted module; the hash-map model itself uses nat and N only. *)
Extraction "hashmap_model.ml" init exec run run_steps mon chains_of Z.of_N.
