From Coq Require Import Extraction ExtrOcamlBasic.
From SV Require Import Word32Defs Float32Defs.
Extraction Language OCaml.
Extraction "word32_model.ml"
  in_s wrap u
  sadd ssub smul sdiv smod sneg uadd usub umul udiv umod band bor bxor bnot shl shr_s shr_u
  land lor lxor lnot smax smin umax umin sexp uexp slt sle ult ule
  fadd fsub fmul fdiv fneg flt fle feq fmax fmin i2f u2f f2i f2u
  bytes_ltb substr has_substr dec_of_Z to_number.
