From Coq Require Import Extraction ExtrOcamlBasic.
From SV Require Import BrieDefs.
Extraction Language OCaml.
Extraction "brie_model.ml" run_model trie_empty run_spec.
