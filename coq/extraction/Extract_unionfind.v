From Coq Require Import Extraction ExtrOcamlBasic NArith ZArith.
From SV Require Import UnionFindDefs.
Extraction Language OCaml.
(* N.of_nat and Z.of_nat are only there so that the types n, z, positive used by common_io.ml exist. *)
Extraction "unionfind_model.ml" init run_events_from mon_ok quiescent explore N.of_nat Z.of_nat.
