From Coq Require Import Extraction ExtrOcamlBasic.
From SV Require Import DatalogDefs DatalogSem ContractDefs LatticeDefs.
Extraction Language OCaml.
Extraction "lattice_model.ml" lattice_ok choice_hyps value_eqb.
