From Coq Require Import Extraction ExtrOcamlBasic.
From SV Require Import CsvDefs.
Extraction Language OCaml.
Extraction "csv_model.ml" write_file read_file write_file_hdr read_file_hdr default_cfg cfg_accepted cfg_ok
  representable_row ty_P ty_Q ty_A ty_E.
