From Coq Require Import Extraction ExtrOcamlBasic.
From SV Require Import NumParseDefs.
Extraction Language OCaml.
Extraction "numparse_model.ml" fact_signed fact_unsigned const_signed const_unsigned fact_unsigned_prefix.
