From Coq Require Import Extraction ExtrOcamlBasic.
From SV Require Import DatalogDefs DatalogSem.
Extraction Language OCaml.
Extraction "datalog_model.ml" run_program value_eqb program_ok program_det.
