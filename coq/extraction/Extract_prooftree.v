From Coq Require Import Extraction ExtrOcamlBasic.
From SV Require Import DatalogDefs DatalogSem ProofTreeDefs.
Extraction Language OCaml.
Extraction "prooftree_model.ml" check_tree absent tree_hyps value_eqb.
