(** C17 -- Fact files round-trip: writing a relation and reading the file back with the matching
    input options yields exactly the same tuples (here: the same list of tuples, in order).
    Only statements here; proofs are in CsvLemmas.v. The model (CsvDefs.v) is tied to
    src/include/souffle/io/{WriteStreamCSV,WriteStream,ReadStreamCSV,ReadStream}.h by the
    correspondence run by `./check C17` (extracted model against /verif/cpp/io_harness.cpp).

    Scope: signed, unsigned, symbol, record and ADT columns (finite type trees); tab or custom
    delimiters, rfc4180, with or without header line. Float columns are not modelled.
    "Within the characters that format can represent" is the explicit boolean predicate
    [representable_row] (CsvDefs.v), for delimiters accepted by [cfg_ok] (non-empty, no newline,
    not ending in CR, no double quote under rfc4180). *)
From SV Require Import NumParseDefs CsvDefs CsvLemmas.
Local Open Scope N_scope.

(** Every configuration, every column types: the file written for tuples the format can
    represent reads back as exactly those tuples. Covers custom (multi-byte, comma-containing)
    delimiters, rfc4180, nested and nil records, ADTs. *)
Theorem C17_roundtrip : forall c tys rows,
  cfg_ok c = true ->
  Forall (fun vs => representable_row c tys vs = true) rows ->
  read_file c tys (write_file c tys rows) = Some rows.
Proof. exact file_roundtrip. Qed.
Print Assumptions C17_roundtrip.

(** The same with headers=true on both sides (the header line must not contain a newline). *)
Theorem C17_roundtrip_headers : forall c hdr tys rows,
  cfg_ok c = true -> memb 10 hdr = false ->
  Forall (fun vs => representable_row c tys vs = true) rows ->
  read_file_hdr c tys (write_file_hdr c hdr tys rows) = Some rows.
Proof. exact file_roundtrip_hdr. Qed.
Print Assumptions C17_roundtrip_headers.

(** Default format (tab separated), number / unsigned / symbol columns: 32-bit numbers, symbols
    without tab and newline, and the last symbol of a tuple not ending in CR. *)
Theorem C17_default_flat : forall tys rows,
  tys <> [] ->
  Forall (fun vs => forallb2 (flat_ok (plain_sym_ok 9)) tys vs = true /\ last_sym_no_cr vs = true) rows ->
  read_file default_cfg tys (write_file default_cfg tys rows) = Some rows.
Proof. exact file_roundtrip_plain. Qed.
Print Assumptions C17_default_flat.

(** rfc4180 (comma separated), number / unsigned / symbol columns: symbols are arbitrary byte
    strings (quotes, commas, newlines, CR, CRLF, backslashes). *)
Theorem C17_rfc4180_flat : forall tys rows,
  tys <> [] ->
  Forall (fun vs => forallb2 (flat_ok (fun _ => true)) tys vs = true) rows ->
  read_file rfc_cfg tys (write_file rfc_cfg tys rows) = Some rows.
Proof. exact file_roundtrip_rfc4180. Qed.
Print Assumptions C17_rfc4180_flat.

(** Default format, any column types including records and ADTs: values of the type whose
    nested symbols contain no ',' and no closing ']' / ')' and begin with neither white space
    nor a double quote ([value_ok]), whose written text has no tab and no newline. *)
Theorem C17_default_records_adts : forall tys rows,
  tys <> [] ->
  Forall (fun vs => forallb2 default_field_ok tys vs = true /\
                    ends_cr (last (write_fields default_cfg tys vs) []) = false) rows ->
  read_file default_cfg tys (write_file default_cfg tys rows) = Some rows.
Proof. exact file_roundtrip_default_nested. Qed.
Print Assumptions C17_default_records_adts.

(** The record / ADT reader on the text of a nested value (symbols plain, or quoted with
    backslash-escaped quotes as they appear once an rfc4180 field is unquoted): it returns the
    value and stops right after it. *)
Theorem C17_nested_value_reads_back : forall q v closer ty rest,
  (34 =? closer) = false ->
  nested_ok q closer ty v = true -> follows closer v rest = true ->
  read_value closer ty (render q v ++ rest) = Some (v, rest).
Proof. exact read_value_render. Qed.
Print Assumptions C17_nested_value_reads_back.

(** The rfc4180 writer as it was before the first repair (a backslash in front of the doubled
    quote of a symbol field) did not round-trip: [a"b] came back as [a\"b]. *)
Theorem C17_rfc4180_backslash_writer_refuted :
  exists s, representable_row rfc_cfg [TySym] [CSym s] = true /\
            read_tuple rfc_cfg [TySym] (write_tuple_old rfc_cfg [TySym] [CSym s]) = Some [CSym [97; 92; 34; 98]] /\
            read_tuple rfc_cfg [TySym] (write_tuple_old rfc_cfg [TySym] [CSym s]) <> Some [CSym s].
Proof. exact rfc4180_backslash_writer_refuted. Qed.
Print Assumptions C17_rfc4180_backslash_writer_refuted.

(** The rfc4180 writer as it was before the second repair (quotes of a symbol nested in a
    record / ADT escaped by a backslash, backslashes left alone): a nested symbol with a
    backslash did not round-trip, [a\b] came back as [ab]. With the present writer such symbols
    are representable (first conjunct) and covered by [C17_roundtrip]. *)
Theorem C17_rfc4180_nested_backslash_before_fix_refuted :
  exists s, representable_row rfc_cfg [ty_P] [CRec [CNum 2; CSym s]] = true /\
            read_tuple rfc_cfg [ty_P] (write_tuple_nested_old rfc_cfg [ty_P] [CRec [CNum 2; CSym s]])
            = Some [CRec [CNum 2; CSym [97; 98]]] /\ s <> [97; 98].
Proof. exact rfc4180_nested_backslash_before_fix_refuted. Qed.
Print Assumptions C17_rfc4180_nested_backslash_before_fix_refuted.

(** Default format: a symbol with a tab does not round-trip. *)
Theorem C17_default_tab_symbol_refuted :
  exists vs, representable_row default_cfg [TySym; TySym] vs = false /\
             read_tuple default_cfg [TySym; TySym] (write_tuple default_cfg [TySym; TySym] vs)
             = Some [CSym [97]; CSym [98]] /\
             Some [CSym [97]; CSym [98]] <> Some vs.
Proof. exact default_tab_symbol_refuted. Qed.
Print Assumptions C17_default_tab_symbol_refuted.

(** Default format: a CR at the end of the last symbol of a tuple is lost. *)
Theorem C17_default_trailing_cr_refuted :
  exists vs, representable_row default_cfg [TySym; TySym] vs = false /\
             read_tuple default_cfg [TySym; TySym] (write_tuple default_cfg [TySym; TySym] vs)
             = Some [CSym [97]; CSym [98]] /\
             Some [CSym [97]; CSym [98]] <> Some vs.
Proof. exact default_trailing_cr_refuted. Qed.
Print Assumptions C17_default_trailing_cr_refuted.

(** Default format, symbol inside a record: [a,b] and [a]b] are errors, [ x] loses the blank,
    ["q"] loses the quotes; all four are outside [nested_sym_ok]. *)
Theorem C17_default_record_symbol_refuted :
  read_tuple default_cfg [ty_P] (write_tuple default_cfg [ty_P] [CRec [CNum 1; CSym [97; 44; 98]]]) = None /\
  read_tuple default_cfg [ty_P] (write_tuple default_cfg [ty_P] [CRec [CNum 1; CSym [97; 93; 98]]]) = None /\
  read_tuple default_cfg [ty_P] (write_tuple default_cfg [ty_P] [CRec [CNum 1; CSym [32; 120]]])
    = Some [CRec [CNum 1; CSym [120]]] /\
  read_tuple default_cfg [ty_P] (write_tuple default_cfg [ty_P] [CRec [CNum 1; CSym [34; 113; 34]]])
    = Some [CRec [CNum 1; CSym [113]]] /\
  nested_sym_ok false 93 [97; 44; 98] = false /\ nested_sym_ok false 93 [97; 93; 98] = false /\
  nested_sym_ok false 93 [32; 120] = false /\ nested_sym_ok false 93 [34; 113; 34] = false.
Proof. exact default_record_symbol_refuted. Qed.
Print Assumptions C17_default_record_symbol_refuted.

(** Delimiter ",": an ADT with two arguments, a symbol with an unmatched ']' and a symbol with
    an unmatched '[' do not read back (all three are load errors). *)
Theorem C17_comma_delimiter_refuted :
  let c := {| rfc4180 := false; delim := [44] |} in
  read_tuple c [ty_A] (write_tuple c [ty_A] [CAdt [89] [CSym [97; 98; 99]; CRec [CNum 1; CSym [120]]]]) = None /\
  read_tuple c [TySym; TyNum] (write_tuple c [TySym; TyNum] [CSym [97; 93; 98]; CNum 3]) = None /\
  read_tuple c [TySym; TyNum] (write_tuple c [TySym; TyNum] [CSym [97; 91; 98]; CNum 3]) = None.
Proof. exact comma_delimiter_refuted. Qed.
Print Assumptions C17_comma_delimiter_refuted.
