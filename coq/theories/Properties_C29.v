(** C29 -- Lock-free union-find is linearizable.
    "For any concurrent interleaving of union, find and same-set operations, the final partition is
    exactly the closure of the requested unions. Every same-set answer is correct at some instant
    during that call, and ranks and parent links never form a cycle other than a root pointing to
    itself."
    Only statements here; proofs are in UnionFindLemmas.v. The model (UnionFindDefs.v) follows
    src/include/souffle/datastructure/UnionFind.h (DisjointSet::findNode, updateRoot, sameSet,
    unionNodes) one atomic access per step; [run] is the code as it is, [run_fixed] differs in one
    place: unionNodes links with updateRoot(x, xrank, y, xrank) instead of (x, xrank, y, yrank).
    The property FAILS for the code as it is (theorems C29_*_refuted); it is proved for the
    repaired linking. Soundness (only requested unions ever connect nodes) holds for both. *)
From SV Require Import UnionFindDefs UnionFindLemmas.

(** * Both variants ([fx] arbitrary) *)

(** Two nodes in the same tree are related by the closure of the unions invoked so far. *)
Theorem C29_sound : forall fx n scripts sched x y,
  scripts_wf n scripts ->
  let st := fst (run_v fx n scripts sched) in
  x < n -> y < n -> sameroot (s_mem st) x y -> closure n (s_inv st) x y.
Proof. exact uf_sound. Qed.
Print Assumptions C29_sound.

(** A [true] answer of sameSet x y is justified by the unions invoked before it returns; find
    returns a node of its argument's class; every response has the kind of its operation. *)
Theorem C29_sameset_true_correct : forall fx n scripts sched t st' rs,
  scripts_wf n scripts ->
  let st := fst (run_v fx n scripts sched) in
  step fx st t = Some (st', rs) ->
  forall resp, In resp rs ->
    exists o, cur_op st t = Some o /\
      match o, resp with
      | OSame x y, RSame b => b = true -> closure n (s_inv st') x y
      | OFind x, RFind z => closure n (s_inv st') x z
      | OUnion _ _, RUnion => True
      | _, _ => False
      end.
Proof. exact sameset_true_correct. Qed.
Print Assumptions C29_sameset_true_correct.

(** The executable class table used by the monitor decides the closure. *)
Theorem C29_same_class_spec : forall n u x y,
  Forall (fun p => fst p < n /\ snd p < n) u ->
  (same_class n u x y = true <-> closure n u x y).
Proof. exact same_class_spec. Qed.
Print Assumptions C29_same_class_spec.

(** * The code as it is: the property is refuted *)

(** Parent links form a cycle between two distinct nodes (3 nodes, 2 threads suffice). *)
Theorem C29_acyclic_refuted :
  exists scripts sched, scripts_wf 3 scripts /\ no_wrap false (init 3 scripts) sched /\
    let m := s_mem (fst (run 3 scripts sched)) in parent m 1 = 2 /\ parent m 2 = 1.
Proof. exact uf_acyclic_refuted. Qed.
Print Assumptions C29_acyclic_refuted.

(** All threads finished, union(1,2) and union(2,1) both returned, yet 1 and 2 are in different
    trees, and a later sameSet(1,2) answered false. *)
Theorem C29_union_complete_refuted :
  exists scripts sched, scripts_wf 3 scripts /\ no_wrap false (init 3 scripts) sched /\
    let r := run 3 scripts sched in
    quiescent (fst r) = true /\
    closure 3 (all_unions scripts) 1 2 /\
    ~ sameroot (s_mem (fst r)) 1 2 /\
    snd r = [(0, RUnion); (1, RUnion); (0, RUnion); (1, RFind 2); (0, RFind 1); (2, RSame false)].
Proof. exact uf_union_complete_refuted. Qed.
Print Assumptions C29_union_complete_refuted.

Theorem C29_linearizable_bounded_refuted :
  exists scripts sched, scripts_wf 3 scripts /\ mon_ok false 3 scripts sched = false.
Proof. exact uf_linearizable_bounded_refuted. Qed.
Print Assumptions C29_linearizable_bounded_refuted.

(** * The repaired linking: unbounded in threads, operations and steps, for n < 255 nodes *)

(** Every parent link strictly increases (rank, index) -- rank first, index as tie-break, child
    below parent; hence no cycle other than a root's self-loop, and every node reaches a root
    within n links. *)
Theorem C29_fixed_acyclic : forall n scripts sched,
  scripts_wf n scripts -> n < 255 ->
  let m := s_mem (fst (run_fixed n scripts sched)) in
  (forall x, x < n -> parent m x < n /\
     (parent m x <> x -> lexlt (rank m x) x (rank m (parent m x)) (parent m x))) /\
  (forall x k, Nat.iter (S k) (parent m) x = x -> parent m x = x) /\
  (forall x, exists k, k <= n /\ is_root m (Nat.iter k (parent m) x)).
Proof. exact uf_acyclic_small. Qed.
Print Assumptions C29_fixed_acyclic.

(** Ranks never decrease; a non-root stays a non-root and keeps its rank. *)
Theorem C29_fixed_ranks_monotone : forall n scripts sched t st' rs,
  scripts_wf n scripts -> n < 255 ->
  let st := fst (run_fixed n scripts sched) in
  step true st t = Some (st', rs) ->
  forall x, rank (s_mem st) x <= rank (s_mem st') x /\
            (parent (s_mem st) x <> x ->
             parent (s_mem st') x <> x /\ rank (s_mem st') x = rank (s_mem st) x).
Proof. exact uf_ranks_monotone_small. Qed.
Print Assumptions C29_fixed_ranks_monotone.

(** When unionNodes x y returns, x and y are in the same tree. *)
Theorem C29_fixed_union_returns : forall n scripts sched t st' rs,
  scripts_wf n scripts -> n < 255 ->
  let st := fst (run_fixed n scripts sched) in
  step true st t = Some (st', rs) -> In RUnion rs ->
  exists x y, cur_op st t = Some (OUnion x y) /\ sameroot (s_mem st') x y.
Proof. exact uf_union_returns_small. Qed.
Print Assumptions C29_fixed_union_returns.

(** Classes never split. *)
Theorem C29_fixed_classes_never_split : forall n scripts sched sched' x y,
  scripts_wf n scripts -> n < 255 ->
  sameroot (s_mem (fst (run_fixed n scripts sched))) x y ->
  sameroot (s_mem (fst (run_fixed n scripts (sched ++ sched')))) x y.
Proof. exact uf_classes_never_split_small. Qed.
Print Assumptions C29_fixed_classes_never_split.

(** At quiescence the partition (same tree / same computed root) is exactly the closure of the
    requested unions. *)
Theorem C29_fixed_union_complete : forall n scripts sched,
  scripts_wf n scripts -> n < 255 ->
  let st := fst (run_fixed n scripts sched) in
  quiescent st = true ->
  forall x y, x < n -> y < n ->
    (sameroot (s_mem st) x y <-> closure n (all_unions scripts) x y) /\
    (root (s_mem st) x = root (s_mem st) y <-> closure n (all_unions scripts) x y).
Proof. exact uf_union_complete_small. Qed.
Print Assumptions C29_fixed_union_complete.

(** The hypothesis-free form of the rank assumption: below 255 nodes no rank ever reaches 255
    (the theorems in UnionFindLemmas.v are stated for any n under [no_wrap]). *)
Theorem C29_fixed_no_wrap_small : forall n scripts sched,
  scripts_wf n scripts -> n < 255 -> no_wrap true (init n scripts) sched.
Proof. exact no_wrap_small. Qed.
Print Assumptions C29_fixed_no_wrap_small.

(** * The repaired linking: bounded exhaustive part (ALL interleavings, by computation)
    Bound: 3 threads x 2 operations and 2 threads x 3 operations, over 3 or 4 nodes, for exactly
    the scripts listed. For every schedule the monitor [mon_step] accepts: memory acyclic after
    every step; a returning union's arguments share a root; find returns the root of its argument
    at the return; every sameSet answer equals the true answer at some instant between the call's
    first and last step; at quiescence partition = closure; and no rank reaches 255. *)
Theorem C29_fixed_linearizable_bounded :
  forall cfg, In cfg
    [ (4, [[OUnion 0 1; OUnion 2 3]; [OUnion 1 2; OSame 0 3]; [OUnion 3 0; OFind 1]]);
      (3, [[OUnion 0 1; OSame 1 2]; [OUnion 1 2; OFind 0]; [OUnion 2 0; OSame 0 1]]);
      (3, [[OUnion 0 1; OUnion 1 2]; [OUnion 1 2; OUnion 2 0]; [OUnion 2 0; OUnion 0 1]]);
      (3, [[OUnion 0 1; OUnion 1 2]; [OUnion 2 1]; [OFind 2]]);
      (4, [[OUnion 0 1; OUnion 2 3; OSame 0 3]; [OUnion 1 2; OFind 0; OUnion 3 0]]);
      (3, [[OUnion 0 1; OUnion 1 2; OSame 0 2]; [OUnion 2 1; OFind 2; OSame 1 0]]) ] ->
  scripts_wf (fst cfg) (snd cfg) /\
  forall sched, mon_ok true (fst cfg) (snd cfg) sched = true /\
                no_wrap true (init (fst cfg) (snd cfg)) sched.
Proof. exact uf_linearizable_bounded. Qed.
Print Assumptions C29_fixed_linearizable_bounded.

Theorem C29_fixed_linearizable_bounded_2 :
  let n := 4 in
  let scripts := [[OUnion 0 1; OSame 2 3]; [OUnion 2 3; OSame 0 1]; [OUnion 1 2; OSame 0 3]] in
  scripts_wf n scripts /\
  forall sched, mon_ok true n scripts sched = true /\ no_wrap true (init n scripts) sched.
Proof. exact uf_linearizable_bounded_2. Qed.
Print Assumptions C29_fixed_linearizable_bounded_2.

(** What an accepting monitor means for the run: acyclic memory after the step, and the closure
    at quiescence. *)
Theorem C29_monitor_meaning : forall fx n scripts sched t,
  mon_ok fx n scripts (sched ++ [t]) = true ->
  let st := fst (run_v fx n scripts sched) in
  forall st' r a, step_acc fx st t = Some (st', r, a) ->
    acyclic_b (s_mem st') = true /\
    (quiescent st' = true -> partition_ok n (classes n (all_unions scripts)) (s_mem st') = true).
Proof. exact mon_ok_last. Qed.
Print Assumptions C29_monitor_meaning.
