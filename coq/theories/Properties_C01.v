(** C01 -- Evaluation computes the stratified least model.
    Only statements here; the declarative semantics is DatalogSem.v, the proofs are in
    DatalogLemmas.v. The evaluator ([run_program] and its parts, DatalogDefs.v) is the extracted
    oracle against which every Souffle backend / configuration is compared by `./check C01`.

    Reading guide: [holds d r t] = tuple [t] is in relation [r] of database [d];
    [sat_lit P N outer e l] = valuation [e] satisfies literal [l] (positive atoms read in [P],
    negated atoms and aggregate bodies in [N]); [fires P N c t] = [t] is the head of an instance of
    clause [c]; [least_model lower cs] = least interpretation containing [lower] and closed under
    the clauses [cs] (negation / aggregation read in [lower]); [strat_model edb ss] = stratum by
    stratum. Results [Stuck] (the literal order given to the oracle does not ground a variable
    before its use) and [Undef] (an operation left the defined value domain) are excluded by the
    hypotheses [... = Ok _]: the property excludes those inputs.
    Static side conditions (all computed): [program_ok] / [clause_ok] / [scoped] = aggregates are
    well scoped and their positive atoms contain no [_]; [program_det] / [lit_det] = no unsigned
    min/max aggregate (needed for completeness only). *)
From SV Require Import DatalogDefs DatalogSem DatalogLemmas.
Local Open Scope Z_scope.

(** (g) The computed database holds exactly the tuples of the stratified least model (nothing
    missing, nothing underivable), no relation holds a tuple twice, and it meets the
    specification [is_strat_model] (a chain of least models, one per stratum). *)
Theorem C01_run_program_correct : forall fuel edb ss d rounds,
  program_ok ss = true -> program_det ss = true -> db_nodup edb ->
  run_program fuel edb ss = Ok (Some (d, rounds)) ->
  (forall r t, In t (rel_of d r) <-> strat_model (holds edb) ss r t) /\
  (forall r, NoDup (rel_of d r)) /\
  is_strat_model (holds edb) ss (holds d).
Proof. exact run_program_correct. Qed.
Print Assumptions C01_run_program_correct.

(** The specification has at most one solution up to the order of tuples: any two databases that
    are stratified models of the same program over the same input hold the same tuples. *)
Theorem C01_least_model_unique : forall ss L M M',
  is_strat_model L ss M -> is_strat_model L ss M' -> forall r t, M r t <-> M' r t.
Proof. exact least_model_unique. Qed.
Print Assumptions C01_least_model_unique.

Theorem C01_stratified_model_unique_db : forall edb ss d d',
  is_strat_model (holds edb) ss (holds d) -> is_strat_model (holds edb) ss (holds d') ->
  forall r t, In t (rel_of d r) <-> In t (rel_of d' r).
Proof. exact stratified_model_unique_db. Qed.
Print Assumptions C01_stratified_model_unique_db.

(** The least model of a stratum is what it says: it contains the lower database, is closed under
    the rules, and is included in every interpretation with these two properties; and it is the
    set of tuples that have a derivation. *)
Theorem C01_least_model_is_least : forall lower cs,
  isub lower (least_model lower cs) /\ closed (least_model lower cs) lower cs /\
  forall I, isub lower I -> closed I lower cs -> isub (least_model lower cs) I.
Proof. exact least_model_is_least. Qed.
Print Assumptions C01_least_model_is_least.

Theorem C01_derived_least_model : forall lower cs r t,
  derived lower cs r t <-> least_model lower cs r t.
Proof. exact derived_least_model. Qed.
Print Assumptions C01_derived_least_model.

(** (c) Every valuation returned by [solve] extends the start valuation and satisfies every
    literal (atoms, negation, constraints, aggregates, ranges). *)
Theorem C01_solve_sound : forall d outer ls e0 es,
  db_nodup d -> scoped outer [] ls = true -> incl (flat_map lit_outer_vars ls) outer ->
  (forall y, bound e0 y -> In y outer) ->
  solve d ls [e0] = Ok es ->
  forall e, In e es -> ext e0 e /\ Forall (sat_lit (holds d) (holds d) outer e) ls.
Proof. exact solve_sound. Qed.
Print Assumptions C01_solve_sound.

(** (d) Every satisfying valuation is found, up to extension. *)
Theorem C01_solve_complete : forall d outer ls e0 es,
  db_nodup d -> scoped outer [] ls = true -> forallb lit_det ls = true ->
  incl (flat_map lit_outer_vars ls) outer -> (forall y, bound e0 y -> In y outer) ->
  solve d ls [e0] = Ok es ->
  forall s, ext e0 s -> Forall (sat_lit (holds d) (holds d) outer s) ls ->
  exists e, In e es /\ ext e s.
Proof. exact solve_complete. Qed.
Print Assumptions C01_solve_complete.

(** (e) The tuples produced by one clause are exactly its instances. *)
Theorem C01_fire_clause_spec : forall d c ts,
  db_nodup d -> clause_ok c = true -> clause_det c = true -> fire_clause d c = Ok ts ->
  forall t, In t ts <-> fires (holds d) (holds d) c t.
Proof. exact fire_clause_spec. Qed.
Print Assumptions C01_fire_clause_spec.

(** (f) The iteration of one stratum stops on the least model over the database it started from:
    (i) nothing is lost, (ii) the result is closed under the rules, (iii) it holds exactly the
    tuples of the least model (every new tuple has a derivation, every derivable tuple is
    there), (iv) no duplicates appear, (v) relations the stratum does not define are untouched. *)
Theorem C01_iterate_fixpoint : forall fuel d cs d' n,
  stratum_ok cs -> clauses_ok cs = true -> forallb clause_det cs = true -> db_nodup d ->
  iterate fuel d cs 0 = Ok (Some (d', n)) ->
  isub (holds d) (holds d') /\
  closed (holds d') (holds d') cs /\
  (forall r t, holds d' r t <-> least_model (holds d) cs r t) /\
  db_nodup d' /\
  (forall r, ~ In r (defined_in cs) -> rel_of d' r = rel_of d r).
Proof. exact iterate_fixpoint. Qed.
Print Assumptions C01_iterate_fixpoint.

(** (h) Aggregates over an empty solution set: count and sum are satisfied exactly by 0 (the rule
    fires with 0), min and max are not satisfied (the rule does not fire); and the evaluator does
    precisely that. *)
Theorem C01_agg_empty_rule : forall P N outer e x k t target body,
  no_solution N outer e target body ->
  match k with
  | ACount | ASum => sat_lit P N outer e (LAgg x k t target body) <-> lookup e x = Some (VNum 0)
  | AMin | AMax => ~ sat_lit P N outer e (LAgg x k t target body)
  end.
Proof. exact agg_empty_rule. Qed.
Print Assumptions C01_agg_empty_rule.

Theorem C01_agg_empty_eval : forall d e x k t target body,
  solve_s d body [e] = Ok [] ->
  step_lit d (LAgg x k t target body) e =
  Ok (match k with ACount | ASum => bind_var e x (VNum 0) | AMin | AMax => [] end).
Proof. exact agg_empty_eval. Qed.
Print Assumptions C01_agg_empty_eval.

(** (b) Pattern matching. *)
Theorem C01_match_term_sound : forall e p v e',
  match_term e p v = Ok (Some e') ->
  ext e e' /\ den e' p v /\ (forall x, bound e' x <-> bound e x \/ In x (term_vars p)).
Proof. exact match_term_sound. Qed.
Print Assumptions C01_match_term_sound.

Theorem C01_match_term_complete : forall e p v s o,
  ext e s -> den s p v -> match_term e p v = Ok o -> exists e', o = Some e' /\ ext e' s.
Proof. exact match_term_complete. Qed.
Print Assumptions C01_match_term_complete.

(** (a) The equality test used for duplicate elimination is equality. *)
Theorem C01_mem_tuple_spec : forall t l, mem_tuple t l = true <-> In t l.
Proof. exact mem_tuple_spec. Qed.
Print Assumptions C01_mem_tuple_spec.
