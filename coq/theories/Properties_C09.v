(** C09 -- Semi-naive evaluation is complete and non-redundant.
    Only statements here; definitions and proofs are in SemiNaiveAbs.v (abstract scheme of
    src/ast2ram/seminaive/UnitTranslator.cpp [generateRecursiveStratum] and ClauseTranslator.cpp
    [translateRecursiveClause]).  [fact] = (relation, tuple) pair of the SCC; [fire r ts h] = rule [r]
    derives [h] from the facts [ts] of its SCC body atoms (in order).
      T I h          := I h \/ exists r ts, In r rules /\ length ts = arity r /\ Forall I ts /\ fire r ts h
      old R D f      := R f /\ ~ D f
      version_ok R D i ts := forall j f, nth_error ts j = Some f -> R f /\ (j = i -> D f) /\ (i < j -> ~ D f)
      New R D h      := ~ R h /\ exists r ts i, In r rules /\ length ts = arity r /\ i < length ts /\
                                               version_ok R D i ts /\ fire r ts h
      Inv R D        := (forall f, D f -> R f) /\ (forall h, T (old R D) h -> R h)
      iterR/iterD    := the loop states from (R0, R0) by R := R \/ New R D, D := New R D
      naiveR k       := T^k R0;   lfp := least set containing R0 closed under the rules
      dec_set S      := forall f, S f \/ ~ S f   (holds for list-backed relations)
    The premise "preamble closed": rules without recursive atoms have been evaluated by the
    preamble; it follows from [forall r, In r rules -> 0 < arity r]
    ([arity_pos_preamble_closed]). *)
From Coq Require Import List.
From SV Require Import SemiNaiveAbs.
Import ListNotations.

(** The invariant holds after the preamble (delta = main relation) ... *)
Theorem C09_inv_init :
  forall (fact rule : Type) (rules : list rule) (arity : rule -> nat)
         (fire : rule -> list fact -> fact -> Prop) (R0 : fset fact),
    (forall r, In r rules -> 0 < arity r) -> Inv rules arity fire R0 R0.
Proof. exact inv_init. Qed.
Print Assumptions C09_inv_init.

(** ... and is preserved by one round followed by the table updates. *)
Theorem C09_inv_preserved :
  forall (fact rule : Type) (rules : list rule) (arity : rule -> nat)
         (fire : rule -> list fact -> fact -> Prop) (R D : fset fact),
    dec_set R -> dec_set D -> Inv rules arity fire R D ->
    Inv rules arity fire (fun f => R f \/ New rules arity fire R D f) (New rules arity fire R D).
Proof. exact inv_preserved. Qed.
Print Assumptions C09_inv_preserved.

(** One semi-naive round adds exactly what one naive round adds. *)
Theorem C09_step_eq_naive :
  forall (fact rule : Type) (rules : list rule) (arity : rule -> nat)
         (fire : rule -> list fact -> fact -> Prop) (R D : fset fact),
    dec_set R -> dec_set D -> Inv rules arity fire R D ->
    forall h, (R h \/ New rules arity fire R D h) <-> T rules arity fire R h.
Proof. exact step_eq_naive. Qed.
Print Assumptions C09_step_eq_naive.

(** The emptiness exit fires exactly when the main relations are closed under the rules. *)
Theorem C09_exit_iff_fixpoint :
  forall (fact rule : Type) (rules : list rule) (arity : rule -> nat)
         (fire : rule -> list fact -> fact -> Prop) (R D : fset fact),
    dec_set R -> dec_set D -> Inv rules arity fire R D ->
    ((forall h, ~ New rules arity fire R D h) <-> (forall h, T rules arity fire R h -> R h)).
Proof. exact exit_iff_fixpoint. Qed.
Print Assumptions C09_exit_iff_fixpoint.

(** A combination of body facts is accepted by at most one version ... *)
Theorem C09_version_unique :
  forall (fact : Type) (R D : fset fact) (i i' : nat) (ts : list fact),
    i < length ts -> i' < length ts ->
    version_ok R D i ts -> version_ok R D i' ts -> i = i'.
Proof. exact version_unique. Qed.
Print Assumptions C09_version_unique.

(** ... and, if it lies in R and contains a delta fact, by at least one. *)
Theorem C09_version_exists :
  forall (fact : Type) (R D : fset fact) (ts : list fact),
    dec_set D -> Forall R ts -> Exists D ts ->
    exists i, i < length ts /\ version_ok R D i ts.
Proof. exact version_exists. Qed.
Print Assumptions C09_version_exists.

(** Round by round, the semi-naive loop computes the naive iteration. *)
Theorem C09_iter_eq_naive :
  forall (fact rule : Type) (rules : list rule) (arity : rule -> nat)
         (fire : rule -> list fact -> fact -> Prop) (R0 : fset fact),
    (forall r h, In r rules -> arity r = 0 -> fire r [] h -> R0 h) ->
    (forall k, dec_set (iterD rules arity fire R0 k)) ->
    forall k h, iterR rules arity fire R0 k h <-> naiveR rules arity fire R0 k h.
Proof. exact iter_eq_naive. Qed.
Print Assumptions C09_iter_eq_naive.

(** A combination fires in at most one round of the whole run ... *)
Theorem C09_combo_round_unique :
  forall (fact rule : Type) (rules : list rule) (arity : rule -> nat)
         (fire : rule -> list fact -> fact -> Prop) (R0 : fset fact)
         (k k' i i' : nat) (ts : list fact),
    i < length ts -> i' < length ts ->
    version_ok (iterR rules arity fire R0 k) (iterD rules arity fire R0 k) i ts ->
    version_ok (iterR rules arity fire R0 k') (iterD rules arity fire R0 k') i' ts ->
    k = k'.
Proof. exact combo_round_unique. Qed.
Print Assumptions C09_combo_round_unique.

(** ... and every non-empty combination over the relations of round k has fired in a round <= k. *)
Theorem C09_combo_round_exists :
  forall (fact rule : Type) (rules : list rule) (arity : rule -> nat)
         (fire : rule -> list fact -> fact -> Prop) (R0 : fset fact),
    (forall k, dec_set (iterD rules arity fire R0 k)) ->
    forall (k : nat) (ts : list fact),
      ts <> [] -> Forall (iterR rules arity fire R0 k) ts ->
      exists k0 i, k0 <= k /\ i < length ts /\
        version_ok (iterR rules arity fire R0 k0) (iterD rules arity fire R0 k0) i ts.
Proof. exact combo_round_exists. Qed.
Print Assumptions C09_combo_round_exists.

(** When the emptiness exit fires, everything in the least fixpoint has been derived ... *)
Theorem C09_seminaive_complete :
  forall (fact rule : Type) (rules : list rule) (arity : rule -> nat)
         (fire : rule -> list fact -> fact -> Prop) (R0 : fset fact),
    (forall r h, In r rules -> arity r = 0 -> fire r [] h -> R0 h) ->
    (forall k, dec_set (iterD rules arity fire R0 k)) ->
    forall k,
      (forall h, ~ New rules arity fire (iterR rules arity fire R0 k) (iterD rules arity fire R0 k) h) ->
      forall h, lfp rules arity fire R0 h -> iterR rules arity fire R0 k h.
Proof. exact seminaive_complete. Qed.
Print Assumptions C09_seminaive_complete.

(** ... and at every round only facts of the least fixpoint have been derived. *)
Theorem C09_seminaive_sound :
  forall (fact rule : Type) (rules : list rule) (arity : rule -> nat)
         (fire : rule -> list fact -> fact -> Prop) (R0 : fset fact) (k : nat) (h : fact),
    iterR rules arity fire R0 k h -> lfp rules arity fire R0 h.
Proof. exact seminaive_sound. Qed.
Print Assumptions C09_seminaive_sound.
