(** C13 -- Unstratifiable programs are rejected, stratifiable ones accepted.
    Only statements here; definitions and proofs are in StratLemmas.v. The oracle's executable
    check is [strata_ok] (DatalogDefs.v): the harness proposes the strata, Coq checks them.

    Reading guide (for a flat clause list [cs]): [pos_edge cs a b] = a clause with head [a] has a
    positive atom of [b] (outside aggregates); [neg_edge cs a b] = a clause with head [a] has [b]
    negated or inside an aggregate body; [reaches] = reflexive-transitive closure of the union;
    [neg_cycle cs a] = [exists b c, reaches cs a b /\ neg_edge cs b c /\ reaches cs c a], i.e. [a]
    depends on itself through negation or aggregation. [respects lvl cs] = positive edges do not
    increase [lvl], negative edges strictly decrease it; [consistent lvl ss] = a relation with a
    clause in stratum number [i] has level [i + 1] (level 0 = relations without clauses);
    [level_of ss] = the level function read off the strata. *)
From SV Require Import DatalogDefs DatalogSem DatalogLemmas StratLemmas.
Require Import Permutation.

(** 2. Accepted strata come with a level function that follows the stratum order and respects the
    dependency graph; in particular no relation depends on itself through negation/aggregation. *)
Theorem C13_strata_ok_sound : forall ss,
  strata_ok [] ss = true ->
  consistent (level_of ss) ss /\ respects (level_of ss) (concat ss) /\
  forall a, ~ neg_cycle (concat ss) a.
Proof. exact strata_ok_sound. Qed.
Print Assumptions C13_strata_ok_sound.

(** any level function that respects the graph excludes such cycles (induction on paths) *)
Theorem C13_respects_no_neg_cycle : forall lvl cs, respects lvl cs -> forall a, ~ neg_cycle cs a.
Proof. exact respects_no_neg_cycle. Qed.
Print Assumptions C13_respects_no_neg_cycle.

(** 3. Conversely, strata that follow some level function respecting the graph are accepted: the
    check rejects nothing that is stratified along the proposed order. ([consistent] implies that
    the clauses of each relation sit in exactly one stratum: [C13_consistent_one_stratum].) *)
Theorem C13_strata_ok_complete : forall ss lvl,
  consistent lvl ss -> respects lvl (concat ss) -> strata_ok [] ss = true.
Proof. exact strata_ok_complete. Qed.
Print Assumptions C13_strata_ok_complete.

Theorem C13_consistent_one_stratum : forall lvl ss i j cs cs' r,
  consistent lvl ss -> nth_error ss i = Some cs -> nth_error ss j = Some cs' ->
  In r (defined_in cs) -> In r (defined_in cs') -> i = j.
Proof. exact consistent_one_stratum. Qed.
Print Assumptions C13_consistent_one_stratum.

Theorem C13_strata_ok_iff : forall ss,
  strata_ok [] ss = true <-> exists lvl, consistent lvl ss /\ respects lvl (concat ss).
Proof. exact strata_ok_iff. Qed.
Print Assumptions C13_strata_ok_iff.

(** 4. A program in which some relation depends on itself through negation or aggregation is
    rejected for every arrangement of its clauses into strata. *)
Theorem C13_unstratifiable_rejected : forall ss a,
  neg_cycle (concat ss) a ->
  forall ss', Permutation (concat ss') (concat ss) -> strata_ok [] ss' = false.
Proof. exact unstratifiable_rejected. Qed.
Print Assumptions C13_unstratifiable_rejected.
