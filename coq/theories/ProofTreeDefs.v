(** C19: validator for the proof trees printed by `souffle -t explain` (src/include/souffle/
    provenance/Explain*.h, `format json`; "explain R(...)"). A tree node cites a clause of its
    relation and lists one child per body literal, in body order: a subtree for a derived atom,
    an axiom for an input fact, for a negated atom and for a constraint. The checker replays the
    cited clause on the node's tuple with the reference evaluator of DatalogDefs.v against the FINAL
    database [d]. Definitions only; specifications and proofs in ProofTreeLemmas.v. *)
From SV Require Export DatalogDefs DatalogSem.

Inductive ptree :=
| PNode (r : nat) (t : tuple) (k : nat) (children : list ptree)   (* k: 0-based index among the clauses with head r *)
| PFact (r : nat) (t : tuple)                                     (* {"axiom": "e(2, 3)"} *)
| PNeg (r : nat)                                                  (* {"axiom": "!e(1, 4)"}; printed arguments ignored *)
| PCons.                                                          (* {"axiom": "1 != 3"}; text ignored, re-evaluated *)

Inductive tree_result :=
| TOk
| TBadRule (r : nat) (t : tuple) (k : nat)          (* relation r has no clause number k *)
| THeadMismatch (r : nat) (t : tuple) (k : nat)     (* the head of the cited clause does not match the tuple *)
| TBadChild (r : nat) (t : tuple) (i : nat)         (* child i of node r(t): wrong kind / relation / tuple, or wrong number of children *)
| TConstraintFalse (r : nat) (t : tuple) (i : nat)  (* body literal i (constraint, aggregate, range) fails under the bindings *)
| TNegPresent (r : nat) (t : tuple) (i : nat)       (* negated body atom i has a matching tuple in d *)
| TFactAbsent (r : nat) (t : tuple)                 (* fact leaf r(t) is not in d *)
| TAmbiguous (r : nat) (t : tuple) (i : nat).       (* literal i can bind a variable in several ways (range generator) *)

Definition clauses_for (cs : list clause) (r : nat) : list clause :=
  filter (fun c => Nat.eqb (c_rel c) r) cs.

(** walk the body literals and the children in parallel, threading the bindings; [chk] checks a
    child subtree; [r0 t0] (the node) and the literal index [i] are only for error reports *)
Definition walk (chk : ptree -> res tree_result) (d : db) (r0 : nat) (t0 : tuple) :
  nat -> list lit -> list ptree -> env -> res tree_result :=
  fix walk (i : nat) (ls : list lit) (chs : list ptree) (e : env) {struct chs} : res tree_result :=
  match ls, chs with
  | [], [] => Ok TOk
  | l :: ls', ch :: chs' =>
      match l with
      | LS (SPos r args) =>
          match ch with
          | PNode r' tup _ _ =>
              if Nat.eqb r r' then
                bind (match_terms e args tup) (fun o =>
                match o with
                | None => Ok (TBadChild r0 t0 i)
                | Some e' => bind (chk ch) (fun res =>
                             match res with TOk => walk (S i) ls' chs' e' | bad => Ok bad end)
                end)
              else Ok (TBadChild r0 t0 i)
          | PFact r' tup =>
              if Nat.eqb r r' then
                if mem_tuple tup (rel_of d r) then
                  bind (match_terms e args tup) (fun o =>
                  match o with
                  | None => Ok (TBadChild r0 t0 i)
                  | Some e' => walk (S i) ls' chs' e'
                  end)
                else Ok (TFactAbsent r' tup)
              else Ok (TBadChild r0 t0 i)
          | _ => Ok (TBadChild r0 t0 i)
          end
      | LS (SNeg r args) =>
          match ch with
          | PNeg r' =>
              if Nat.eqb r r' then
                if ground_or_anon e args then
                  bind (exists_match e args (rel_of d r)) (fun b =>
                  if b then Ok (TNegPresent r0 t0 i) else walk (S i) ls' chs' e)
                else Stuck
              else Ok (TBadChild r0 t0 i)
          | _ => Ok (TBadChild r0 t0 i)
          end
      | _ =>
          match ch with
          | PCons =>
              bind (step_lit d l e) (fun es =>
              match es with
              | [] => Ok (TConstraintFalse r0 t0 i)
              | [e'] => walk (S i) ls' chs' e'
              | _ => Ok (TAmbiguous r0 t0 i)
              end)
          | _ => Ok (TBadChild r0 t0 i)
          end
      end
  | _, _ => Ok (TBadChild r0 t0 i)
  end.

Fixpoint check_tree (d : db) (cs : list clause) (t : ptree) {struct t} : res tree_result :=
  match t with
  | PNode r tup k children =>
      match nth_error (clauses_for cs r) k with
      | None => Ok (TBadRule r tup k)
      | Some c =>
          bind (match_terms [] (c_args c) tup) (fun o =>
          match o with
          | None => Ok (THeadMismatch r tup k)
          | Some e => walk (fun ch => check_tree d cs ch) d r tup 0 (c_body c) children e
          end)
      end
  | PFact r tup => Ok (if mem_tuple tup (rel_of d r) then TOk else TFactAbsent r tup)
  | PNeg r => Ok (TBadChild r [] 0)
  | PCons => Ok (TBadChild 0 [] 0)
  end.

(** "Tuple not found": the right answer exactly for tuples absent from the relation *)
Definition absent (d : db) (r : nat) (t : tuple) : bool := negb (mem_tuple t (rel_of d r)).

(** static side conditions of the soundness theorem, evaluated by the driver *)
Fixpoint tuples_nodup (l : list tuple) : bool :=
  match l with [] => true | x :: l' => negb (mem_tuple x l') && tuples_nodup l' end.
Definition db_nodup_b (d : db) : bool := forallb (fun p => tuples_nodup (snd p)) d.
Definition tree_hyps (d : db) (cs : list clause) : bool := db_nodup_b d && clauses_ok cs.
