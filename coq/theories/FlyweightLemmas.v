(** Proofs about the concurrent flyweight model (FlyweightDefs.v). *)
From SV Require Import HashMapDefs HashMapLemmas FlyweightDefs.
From Coq Require Import Lia Permutation.
Require Import ZifyBool ZifyNat ZifyN.
Arguments N.eqb : simpl never.
Arguments N.leb : simpl never.
Arguments N.ltb : simpl never.
Arguments N.modulo : simpl never.
Arguments N.to_nat : simpl never.
Arguments N.pow : simpl never.
Arguments N.mul : simpl never.
Arguments N.add : simpl never.
Arguments N.sub : simpl never.
Local Open Scope nat_scope.

(** * Lane discipline, generically over "who holds what" functions *)

Definition LI1 (n : nat) (lanes : list (option nat)) (H : nat -> nat -> bool) : Prop :=
  forall i t, i < n -> (nth i lanes None = Some t <-> H t i = true).

Lemma LI1_step n lanes (H H' : nat -> nat -> bool) t c v :
  LI1 n lanes H -> length lanes = n -> c < n ->
  (forall t0 i, t0 <> t -> H' t0 i = H t0 i) ->
  (forall i, i < n -> i <> c -> H' t i = H t i) ->
  ((v = Some t /\ H' t c = true /\ nth c lanes None = None) \/
   (v = None /\ H' t c = false /\ H t c = true)) ->
  LI1 n (setn lanes c v) H'.
Proof.
  intros HL Hlen Hc Hoth Hsame Hv i t0 Hi.
  pose proof (HL i t0 Hi) as Hold. pose proof (HL c t0 Hc) as Holdc. pose proof (HL c t Hc) as Holdt.
  rewrite nth_setn, Hlen.
  destruct (Nat.eq_dec t0 t) as [->|Hne].
  - destruct (Nat.eqb c i) eqn:Ec.
    + apply Nat.eqb_eq in Ec. subst i. replace (Nat.ltb c n) with true by lia. simpl.
      destruct Hv as [(-> & H1 & H2)|(-> & H1 & H2)]; rewrite H1; split; congruence.
    + simpl. rewrite Hsame by lia. exact Hold.
  - rewrite Hoth by auto. destruct (Nat.eqb c i) eqn:Ec.
    + apply Nat.eqb_eq in Ec. subst i. replace (Nat.ltb c n) with true by lia. simpl.
      destruct Hv as [(-> & H1 & H2)|(-> & H1 & H2)].
      * split; [intros E; inversion E; lia|]. intros E. apply Holdc in E. congruence.
      * split; [discriminate|]. intros E. apply Holdc in E. apply Holdt in H2.
        rewrite H2 in E. inversion E. lia.
    + simpl. exact Hold.
Qed.

Lemma LI1_step0 n lanes (H H' : nat -> nat -> bool) t :
  LI1 n lanes H ->
  (forall t0 i, t0 <> t -> H' t0 i = H t0 i) ->
  (forall i, i < n -> H' t i = H t i) ->
  LI1 n lanes H'.
Proof.
  intros HL Hoth Hsame i t0 Hi. destruct (Nat.eq_dec t0 t) as [->|Hne].
  - rewrite Hsame by auto. apply HL. auto.
  - rewrite Hoth by auto. apply HL. auto.
Qed.

Definition LI2 (bla : option nat) (B : nat -> bool) : Prop := forall t, bla = Some t <-> B t = true.

Lemma LI2_step bla (B B' : nat -> bool) t v :
  LI2 bla B -> (forall t0, t0 <> t -> B' t0 = B t0) ->
  ((v = bla /\ B' t = B t) \/ (v = Some t /\ B' t = true /\ bla = None) \/
   (v = None /\ B' t = false /\ B t = true)) ->
  LI2 v B'.
Proof.
  intros HL Hoth Hv t0. pose proof (HL t0) as Hold. pose proof (HL t) as Holdt.
  destruct (Nat.eq_dec t0 t) as [->|Hne].
  - destruct Hv as [(-> & H1)|[(-> & H1 & H2)|(-> & H1 & H2)]]; rewrite H1.
    + exact Holdt.
    + split; auto.
    + split; discriminate.
  - rewrite Hoth by auto. destruct Hv as [(-> & H1)|[(-> & H1 & H2)|(-> & H1 & H2)]].
    + exact Hold.
    + split; [intros E; inversion E; lia|]. intros E. apply Hold in E. congruence.
    + split; [discriminate|]. intros E. apply Hold in E. apply Holdt in H2.
      rewrite H2 in E. inversion E. lia.
Qed.

(** * The flyweight's lanes *)

Definition fpcs (ths : list fthread) (t : nat) : fpc := ftpc (nth t ths dfthread).
Definition fpcof (st : fstate) (t : nat) : fpc := fpcs (fthreads st) t.

Lemma fpcs_setn ths t th' t0 : t < length ths ->
  fpcs (setn ths t th') t0 = if Nat.eqb t t0 then ftpc th' else fpcs ths t0.
Proof.
  intros Ht. unfold fpcs. rewrite nth_setn. destruct (Nat.eqb t t0) eqn:E; simpl; auto.
  apply Nat.eqb_eq in E. subst. destruct (Nat.ltb t0 (length ths)) eqn:L; auto. lia.
Qed.

Definition fholds (t : nat) (p : fpc) (i : nat) : bool :=
  match p with
  | FIdle | FWaitBLA | FRelock => false
  | FAcquire j => Nat.eqb i t || Nat.ltb i j
  | FGrow | FRelBLA => true
  | FRelease j => Nat.eqb i t || Nat.leb j i
  | _ => Nat.eqb i t
  end.

Definition fholds_bla (p : fpc) : bool :=
  match p with
  | FRelock | FRecheck | FNoGrow | FAcquire _ | FGrow | FRelBLA => true
  | _ => false
  end.

Definition fidx_ok (n t : nat) (p : fpc) : Prop :=
  match p with
  | FAcquire j | FRelease j => j < n /\ j <> t
  | _ => True
  end.

Record FInvL (st : fstate) : Prop := {
  FL0 : length (flanes st) = length (fthreads st);
  FL1 : LI1 (length (fthreads st)) (flanes st) (fun t i => fholds t (fpcof st t) i);
  FL2 : LI2 (fbla st) (fun t => fholds_bla (fpcof st t));
  FL3 : forall t, t < length (fthreads st) -> fidx_ok (length (fthreads st)) t (fpcof st t) }.

Lemma fholds_acq_next n t i0 i : i < n ->
  fholds t (facq_next n t i0) i = (Nat.eqb i t || Nat.ltb i i0)%bool.
Proof.
  intros Hi. unfold facq_next, skip.
  destruct (Nat.eqb i0 t) eqn:E1;
    [destruct (Nat.ltb (S i0) n) eqn:E2 | destruct (Nat.ltb i0 n) eqn:E2]; cbn [fholds]; lia.
Qed.

Lemma after_grow_cases st t : (exists s, after_grow st t = FCheck s) \/ after_grow st t = FReserve.
Proof. unfold after_grow. destruct (hslot _); eauto. Qed.

Lemma fholds_after_grow st t i : fholds t (after_grow st t) i = Nat.eqb i t.
Proof. destruct (after_grow_cases st t) as [[s ->] | ->]; reflexivity. Qed.

Lemma fholds_rel_next st n t i0 i : i < n ->
  fholds t (frel_next st n t i0) i = (Nat.eqb i t || Nat.leb i0 i)%bool.
Proof.
  intros Hi. unfold frel_next, skip.
  destruct (Nat.eqb i0 t) eqn:E1;
    [destruct (Nat.ltb (S i0) n) eqn:E2 | destruct (Nat.ltb i0 n) eqn:E2];
    rewrite ?fholds_after_grow; cbn [fholds]; lia.
Qed.

Lemma fidx_ok_acq_next n t i0 : fidx_ok n t (facq_next n t i0).
Proof.
  unfold facq_next, skip.
  destruct (Nat.eqb i0 t) eqn:E1;
    [destruct (Nat.ltb (S i0) n) eqn:E2 | destruct (Nat.ltb i0 n) eqn:E2]; cbn [fidx_ok]; auto; lia.
Qed.

Lemma fidx_ok_rel_next st n t i0 : fidx_ok n t (frel_next st n t i0).
Proof.
  unfold frel_next, skip.
  destruct (Nat.eqb i0 t) eqn:E1;
    [destruct (Nat.ltb (S i0) n) eqn:E2 | destruct (Nat.ltb i0 n) eqn:E2]; cbn [fidx_ok]; auto; try lia;
    destruct (after_grow_cases st t) as [[s ->] | ->]; exact I.
Qed.

Lemma fholds_bla_acq_next n t i0 : fholds_bla (facq_next n t i0) = true.
Proof. unfold facq_next. destruct (Nat.ltb _ _); reflexivity. Qed.

Lemma fholds_bla_after_grow st t : fholds_bla (after_grow st t) = false.
Proof. destruct (after_grow_cases st t) as [[s ->] | ->]; reflexivity. Qed.

Lemma fholds_bla_rel_next st n t i0 : fholds_bla (frel_next st n t i0) = false.
Proof. unfold frel_next. destruct (Nat.ltb _ _); [reflexivity | apply fholds_bla_after_grow]. Qed.

Lemma flane_free_true st i : flane_free st i = true -> nth i (flanes st) None = None.
Proof. unfold flane_free. destruct (nth i (flanes st) None); congruence. Qed.

Ltac fstep_cases H :=
  unfold fstep in H;
  match type of H with
  | context [nth_error ?l ?t] => destruct (nth_error l t) as [[[|o rest] p]|] eqn:Hth
  end; try discriminate H;
  cbn [ftodo ftpc] in H; match goal with p0 : fpc |- _ => destruct p0 end;
  match goal with o0 : op |- _ => destruct o0 as [k|fi] end;
  cbn beta iota zeta in H;
  repeat match type of H with
         | context [if ?c then _ else _] => destruct c eqn:?
         | context [match ?c with _ => _ end] => destruct c eqn:?
         end; try discriminate H; injection H as <- <-.

Lemma fstep_InvL st t st' rs : FInvL st -> fstep st t = Some (st', rs) -> FInvL st'.
Proof.
  intros HL H.
  assert (Hlen := FL0 _ HL).
  fstep_cases H;
    apply (nth_error_nth_lt _ _ _ dfthread) in Hth as [Hth Ht];
    assert (Hp : fpcof st t = _) by (unfold fpcof, fpcs; rewrite Hth; reflexivity); cbn [ftpc] in Hp;
    pose proof (FL3 _ HL t Ht) as Hidx; rewrite Hp in Hidx; cbn [fidx_ok] in Hidx.
  all: unfold fset_thr, fset_lane, fset_bla, fset_slots;
    cbn [fslots fnodes fmap fnext fcount fhandles flanes fbla fthreads].
  all: constructor; cbn [fslots fnodes fmap fnext fcount fhandles flanes fbla fthreads];
    rewrite ?length_setn; auto.
  all: unfold fpcof; cbn [fthreads]; rewrite ?Hlen.
  (* FL1 *)
  all: try match goal with
    | |- LI1 _ (setn _ ?c ?v) _ =>
        apply (LI1_step _ _ (fun t0 i => fholds t0 (fpcof st t0) i) _ t c v (FL1 _ HL) Hlen);
          [ lia
          | intros t0 ii Hne; rewrite fpcs_setn by auto;
            replace (Nat.eqb t t0) with false by lia; reflexivity
          | intros ii Hii Hne; rewrite fpcs_setn by auto; rewrite Nat.eqb_refl; cbn [ftpc];
            rewrite Hp; rewrite ?fholds_acq_next, ?fholds_rel_next by lia; cbn [fholds]; lia
          | rewrite fpcs_setn by auto; rewrite Nat.eqb_refl; cbn [ftpc]; rewrite Hp;
            rewrite ?fholds_acq_next, ?fholds_rel_next by lia; cbn [fholds];
            first [ left; repeat split; [lia | apply flane_free_true; assumption]
                  | right; repeat split; lia ] ]
    | |- LI1 _ (flanes _) _ =>
        apply (LI1_step0 _ _ (fun t0 i => fholds t0 (fpcof st t0) i) _ t (FL1 _ HL));
          [ intros t0 ii Hne; rewrite fpcs_setn by auto;
            replace (Nat.eqb t t0) with false by lia; reflexivity
          | intros ii Hii; rewrite fpcs_setn by auto; rewrite Nat.eqb_refl; cbn [ftpc];
            rewrite Hp; rewrite ?fholds_acq_next, ?fholds_rel_next, ?fholds_after_grow by lia;
            cbn [fholds]; try destruct (hslot _); cbn [fholds]; lia ]
    end.
  (* FL2 *)
  all: try match goal with
    | |- LI2 ?v _ =>
        apply (LI2_step _ (fun t0 => fholds_bla (fpcof st t0)) _ t v (FL2 _ HL));
          [ intros t0 Hne; rewrite fpcs_setn by auto;
            replace (Nat.eqb t t0) with false by lia; reflexivity
          | rewrite fpcs_setn by auto; rewrite Nat.eqb_refl; cbn [ftpc]; rewrite Hp;
            rewrite ?fholds_bla_acq_next, ?fholds_bla_rel_next, ?fholds_bla_after_grow;
            try destruct (hslot _); cbn [fholds_bla];
            first [ left; split; [reflexivity|reflexivity]
                  | left; split; [congruence|reflexivity]
                  | right; left; repeat split; assumption
                  | right; right; repeat split; reflexivity ] ]
    end.
  (* FL3 *)
  all: try (intros t0 Ht0; rewrite fpcs_setn by auto; destruct (Nat.eqb t t0) eqn:Et;
            [ assert (t0 = t) by lia; subst t0; cbn [ftpc];
              first [apply fidx_ok_acq_next | apply fidx_ok_rel_next
                    | destruct (after_grow_cases st t) as [[s' ->] | ->]; exact I
                    | destruct (hslot _); exact I | exact I]
            | apply (FL3 _ HL); auto ]).
Qed.

(** A thread that does not own its own lane is outside every guard(H) .. ~guard window. *)
Definition foutside (p : fpc) : Prop := p = FIdle \/ p = FWaitBLA \/ p = FRelock.

Lemma fnot_holding_own t p : fholds t p t = false -> foutside p.
Proof. unfold foutside. destruct p; cbn [fholds]; intros H; auto; lia. Qed.

(** Crux of the slot-array growth: while a thread is in the safe section, all others are outside
    their lanes, hence none of them is between reading [Slots]/[SlotCount] and using them. *)
Lemma fgrow_exclusive st g : FInvL st -> g < length (fthreads st) -> fpcof st g = FGrow ->
  forall t, t < length (fthreads st) -> t <> g -> foutside (fpcof st t).
Proof.
  intros HL Hg Hp t Ht Hne. apply (fnot_holding_own t).
  pose proof (FL1 _ HL t g Ht) as H1. cbn beta in H1. rewrite Hp in H1. cbn [fholds] in H1.
  pose proof (FL1 _ HL t t Ht) as H2. cbn beta in H2.
  destruct (fholds t (fpcof st t) t) eqn:E; auto.
  destruct H1 as [_ H1]. destruct H2 as [_ H2]. rewrite H1 in H2 by auto.
  specialize (H2 eq_refl). inversion H2. lia.
Qed.

(** * The memory invariant *)
Local Open Scope N_scope.

Section FProofs.
  Context (rf : bool).
  Definition lo : N := if rf then 1 else 0.

  Definition nkey (nds : list fnode) (nd : nat) : option N := fkey (nth nd nds dfnode).
  Definition nval (nds : list fnode) (nd : nat) : N := fval (nth nd nds dfnode).

  (** Index [i] is published with key [ok]. *)
  Definition pub_at (nds : list fnode) (mp : list nat) (i : N) (ok : option N) : Prop :=
    exists nd, In nd mp /\ nval nds nd = i /\ nkey nds nd = ok.

  Definition handle_ok (nds : list fnode) (mp : list nat) (nx : N) (h : handle) : Prop :=
    match h with
    | mkHandle None None => True
    | mkHandle (Some s) (Some nd) =>
        (nd < length nds)%nat /\ nval nds nd = s /\ nkey nds nd = None /\ ~ In nd mp
        /\ lo <= s < nx /\ (forall nd', In nd' mp -> nval nds nd' <> s)
    | _ => False
    end.

  Record MemOK (n : nat) (sl : list (option nat)) (nds : list fnode) (mp : list nat) (nx cnt : N)
         (hs : list handle) : Prop := {
    M_cnt : cnt <> 0;
    M_len : length sl = N.to_nat cnt;
    M_hlen : length hs = n;
    M_lo : lo <= nx;
    M_nodup : NoDup mp;
    M_pub : forall nd, In nd mp ->
              (nd < length nds)%nat /\ (exists k, nkey nds nd = Some k)
              /\ lo <= nval nds nd < nx /\ nval nds nd < cnt
              /\ nth (N.to_nat (nval nds nd)) sl None = Some nd;
    M_keys : NoDup (map (nkey nds) mp);
    M_hok : forall t, (t < n)%nat -> handle_ok nds mp nx (nth t hs dhandle);
    M_hdist : forall t t', (t < n)%nat -> (t' < n)%nat -> t <> t' ->
                (forall s, hslot (nth t hs dhandle) = Some s -> hslot (nth t' hs dhandle) <> Some s)
                /\ (forall nd, hnode (nth t hs dhandle) = Some nd -> hnode (nth t' hs dhandle) <> Some nd);
    M_slots : forall i nd, nth i sl None = Some nd ->
                (In nd mp /\ nval nds nd = N.of_nat i)
                \/ (exists t, (t < n)%nat /\ nth t hs dhandle = mkHandle (Some (N.of_nat i)) (Some nd));
    M_cov : forall i, lo <= i < nx ->
              (exists nd, In nd mp /\ nval nds nd = i)
              \/ (exists t, (t < n)%nat /\ hslot (nth t hs dhandle) = Some i) }.

  Definition is_OIns (o : option op) : Prop := exists k, o = Some (OIns k).

  (** What a thread at a program point knows (about its own handle, its slot, its result). *)
  Definition FLocal (sl : list (option nat)) (nds : list fnode) (mp : list nat) (cnt : N)
             (h : handle) (th : fthread) : Prop :=
    let o := hd_error (ftodo th) in
    match ftpc th with
    | FIdle => True
    | FReserve => h = dhandle /\ is_OIns o
    | FCheck s => hslot h = Some s /\ is_OIns o
    | FTryBLA | FYield | FWaitBLA | FRelock | FRecheck | FNoGrow | FAcquire _ | FGrow | FRelBLA
    | FRelease _ => (exists s, hslot h = Some s) /\ is_OIns o
    | FWrite s => hslot h = Some s /\ s < cnt /\ is_OIns o
    | FGet s => hslot h = Some s /\ s < cnt /\ nth (N.to_nat s) sl None = hnode h /\ is_OIns o
    | FClear s idx => hslot h = Some s /\ s < cnt /\ exists k, o = Some (OIns k) /\ pub_at nds mp idx (Some k)
    | FUnlock idx _ => exists k, o = Some (OIns k) /\ pub_at nds mp idx (Some k)
    | TRead i => o = Some (OFetch i)
    | TUnlock i r => o = Some (OFetch i) /\ (r = None \/ pub_at nds mp i r)
    end.

  Definition resp_fact (nds : list fnode) (mp : list nat) (r : nat * fresponse) : Prop :=
    match snd r with
    | RIns k i _ => pub_at nds mp i (Some k)
    | RFetch i r => r = None \/ pub_at nds mp i r
    end.

  Record FInvC (st : fstate) (hist : list (nat * fresponse)) : Prop := {
    FC_mem : MemOK (length (fthreads st)) (fslots st) (fnodes st) (fmap st) (fnext st) (fcount st)
                   (fhandles st);
    FC_local : forall t, (t < length (fthreads st))%nat ->
                 FLocal (fslots st) (fnodes st) (fmap st) (fcount st) (nth t (fhandles st) dhandle)
                        (nth t (fthreads st) dfthread);
    FC_resp : forall r, In r hist -> resp_fact (fnodes st) (fmap st) r }.

  (** Monotonicity of the thread-local facts of the threads that do not step. *)
  Lemma FLocal_frame sl sl' nds nds' mp mp' cnt cnt' h th :
    FLocal sl nds mp cnt h th ->
    cnt <= cnt' ->
    (forall i ok, pub_at nds mp i ok -> pub_at nds' mp' i ok) ->
    (forall s, hslot h = Some s -> s < cnt ->
               nth (N.to_nat s) sl' None = nth (N.to_nat s) sl None) ->
    FLocal sl' nds' mp' cnt' h th.
  Proof.
    unfold FLocal. intros Hl Hc Hp Hs.
    destruct (ftpc th); auto.
    - destruct Hl as (H1 & H2 & H3). repeat split; auto. lia.
    - destruct Hl as (H1 & H2 & H3 & H4). repeat split; auto; [lia|]. rewrite Hs; auto.
    - destruct Hl as (H1 & H2 & k & H3 & H4). repeat split; auto; [lia|]. eauto.
    - destruct Hl as (k & H3 & H4). eauto.
    - destruct Hl as (H1 & [H2|H2]); split; auto.
  Qed.

  Lemma resp_fact_mono nds nds' mp mp' r :
    (forall i ok, pub_at nds mp i ok -> pub_at nds' mp' i ok) ->
    resp_fact nds mp r -> resp_fact nds' mp' r.
  Proof.
    unfold resp_fact. intros Hp. destruct (snd r); auto. intros [H|H]; auto.
  Qed.

  (** Steps that change neither the memory nor the history: only the stepping thread's local
      facts have to be re-established. *)
  Lemma fframe_step st hist t th' ln bl :
    FInvC st hist -> (t < length (fthreads st))%nat ->
    FLocal (fslots st) (fnodes st) (fmap st) (fcount st) (nth t (fhandles st) dhandle) th' ->
    FInvC (mkFState (fslots st) (fnodes st) (fmap st) (fnext st) (fcount st) (fhandles st) ln bl
                    (setn (fthreads st) t th')) hist.
  Proof.
    intros HC Ht Hl.
    constructor; cbn [fslots fnodes fmap fnext fcount fhandles flanes fbla fthreads];
      rewrite ?length_setn.
    - apply (FC_mem _ _ HC).
    - intros t0 Ht0. rewrite nth_setn.
      destruct (Nat.eqb t t0 && Nat.ltb t0 (length (fthreads st)))%bool eqn:E.
      + assert (t0 = t) by lia. subst. exact Hl.
      + apply (FC_local _ _ HC); auto.
    - apply (FC_resp _ _ HC).
  Qed.

  Lemma fframe_step_hist st hist hist' t th' ln bl :
    FInvC st hist -> (t < length (fthreads st))%nat ->
    FLocal (fslots st) (fnodes st) (fmap st) (fcount st) (nth t (fhandles st) dhandle) th' ->
    (forall r, In r hist' -> resp_fact (fnodes st) (fmap st) r) ->
    FInvC (mkFState (fslots st) (fnodes st) (fmap st) (fnext st) (fcount st) (fhandles st) ln bl
                    (setn (fthreads st) t th')) hist'.
  Proof.
    intros HC Ht Hl Hr.
    constructor; cbn [fslots fnodes fmap fnext fcount fhandles flanes fbla fthreads];
      rewrite ?length_setn; auto.
    - apply (FC_mem _ _ HC).
    - intros t0 Ht0. rewrite nth_setn.
      destruct (Nat.eqb t t0 && Nat.ltb t0 (length (fthreads st)))%bool eqn:E.
      + assert (t0 = t) by lia. subst. exact Hl.
      + apply (FC_local _ _ HC); auto.
  Qed.

  (** General re-assembly: new memory, the stepping thread's new local facts, and a frame
      condition for the others. *)
  Lemma fmem_step st hist t th' sl' nds' mp' nx' cnt' hs' ln bl :
    FInvC st hist -> (t < length (fthreads st))%nat ->
    MemOK (length (fthreads st)) sl' nds' mp' nx' cnt' hs' ->
    FLocal sl' nds' mp' cnt' (nth t hs' dhandle) th' ->
    (forall t0, t0 <> t -> nth t0 hs' dhandle = nth t0 (fhandles st) dhandle) ->
    fcount st <= cnt' ->
    (forall i ok, pub_at (fnodes st) (fmap st) i ok -> pub_at nds' mp' i ok) ->
    (forall t0 s, t0 <> t -> (t0 < length (fthreads st))%nat ->
                  hslot (nth t0 (fhandles st) dhandle) = Some s -> s < fcount st ->
                  nth (N.to_nat s) sl' None = nth (N.to_nat s) (fslots st) None) ->
    FInvC (mkFState sl' nds' mp' nx' cnt' hs' ln bl (setn (fthreads st) t th')) hist.
  Proof.
    intros HC Ht HM Hl Hh Hc Hp Hs.
    constructor; cbn [fslots fnodes fmap fnext fcount fhandles flanes fbla fthreads];
      rewrite ?length_setn; auto.
    - intros t0 Ht0. rewrite nth_setn.
      destruct (Nat.eqb t t0 && Nat.ltb t0 (length (fthreads st)))%bool eqn:E.
      + assert (t0 = t) by lia. subst. exact Hl.
      + assert (Hne : t0 <> t) by lia. rewrite (Hh t0 Hne).
        eapply FLocal_frame; [apply (FC_local _ _ HC); auto | auto | auto |].
        intros s Hsl Hsc. apply (Hs t0 s); auto.
    - intros r Hr. eapply resp_fact_mono; [exact Hp | apply (FC_resp _ _ HC); auto].
  Qed.

  Lemma nth_app_old {A} (l : list A) x d i : (i < length l)%nat -> nth i (l ++ x) d = nth i l d.
  Proof. intros. apply app_nth1. auto. Qed.

  Lemma dbl_ge fuel : forall sz next, sz <= dbl fuel sz next.
  Proof.
    induction fuel as [|f IH]; intros sz next; simpl; [lia|].
    destruct (sz <? next); [|lia]. specialize (IH (2 * sz) next). lia.
  Qed.

  Lemma map_find_some st k ex : map_find st k = Some ex ->
    In ex (fmap st) /\ nkey (fnodes st) ex = Some k.
  Proof.
    unfold map_find. intros H. apply find_some in H as [H1 H2]. split; auto.
    unfold nkey. destruct (fkey (nth ex (fnodes st) dfnode)); [|discriminate].
    apply N.eqb_eq in H2. congruence.
  Qed.

  Lemma map_find_none st k : map_find st k = None ->
    forall nd, In nd (fmap st) -> nkey (fnodes st) nd <> Some k.
  Proof.
    unfold map_find. intros H nd Hnd Hk. pose proof (find_none _ _ H nd Hnd) as Hf.
    cbn beta in Hf. unfold nkey in Hk. rewrite Hk in Hf. rewrite N.eqb_refl in Hf. discriminate.
  Qed.

  Lemma handle_some nds mp nx h s : handle_ok nds mp nx h -> hslot h = Some s ->
    exists nd, h = mkHandle (Some s) (Some nd)
      /\ (nd < length nds)%nat /\ nval nds nd = s /\ nkey nds nd = None /\ ~ In nd mp
      /\ lo <= s < nx /\ (forall nd', In nd' mp -> nval nds nd' <> s).
  Proof.
    unfold handle_ok. destruct h as [[s0|] [nd|]]; cbn [hslot]; intros H E; try discriminate;
      try contradiction. inversion E; subst. exists nd. tauto.
  Qed.
End FProofs.
