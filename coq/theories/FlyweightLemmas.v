(** Proofs about the concurrent flyweight model (FlyweightDefs.v). *)
From SV Require Import HashMapDefs HashMapLemmas FlyweightDefs.
From Coq Require Import Lia Permutation.
Require Import ZifyBool ZifyNat ZifyN.
Arguments N.eqb : simpl never.
Arguments N.leb : simpl never.
Arguments N.ltb : simpl never.
Arguments N.modulo : simpl never.
Arguments N.to_nat : simpl never.
Arguments N.pow : simpl never.
Arguments N.mul : simpl never.
Arguments N.add : simpl never.
Arguments N.sub : simpl never.
Local Open Scope nat_scope.

(** * Lane discipline, generically over "who holds what" functions *)

Definition LI1 (n : nat) (lanes : list (option nat)) (H : nat -> nat -> bool) : Prop :=
  forall i t, i < n -> (nth i lanes None = Some t <-> H t i = true).

Lemma LI1_step n lanes (H H' : nat -> nat -> bool) t c v :
  LI1 n lanes H -> length lanes = n -> c < n ->
  (forall t0 i, t0 <> t -> H' t0 i = H t0 i) ->
  (forall i, i < n -> i <> c -> H' t i = H t i) ->
  ((v = Some t /\ H' t c = true /\ nth c lanes None = None) \/
   (v = None /\ H' t c = false /\ H t c = true)) ->
  LI1 n (setn lanes c v) H'.
Proof.
  intros HL Hlen Hc Hoth Hsame Hv i t0 Hi.
  pose proof (HL i t0 Hi) as Hold. pose proof (HL c t0 Hc) as Holdc. pose proof (HL c t Hc) as Holdt.
  rewrite nth_setn, Hlen.
  destruct (Nat.eq_dec t0 t) as [->|Hne].
  - destruct (Nat.eqb c i) eqn:Ec.
    + apply Nat.eqb_eq in Ec. subst i. replace (Nat.ltb c n) with true by lia. simpl.
      destruct Hv as [(-> & H1 & H2)|(-> & H1 & H2)]; rewrite H1; split; congruence.
    + simpl. rewrite Hsame by lia. exact Hold.
  - rewrite Hoth by auto. destruct (Nat.eqb c i) eqn:Ec.
    + apply Nat.eqb_eq in Ec. subst i. replace (Nat.ltb c n) with true by lia. simpl.
      destruct Hv as [(-> & H1 & H2)|(-> & H1 & H2)].
      * split; [intros E; inversion E; lia|]. intros E. apply Holdc in E. congruence.
      * split; [discriminate|]. intros E. apply Holdc in E. apply Holdt in H2.
        rewrite H2 in E. inversion E. lia.
    + simpl. exact Hold.
Qed.

Lemma LI1_step0 n lanes (H H' : nat -> nat -> bool) t :
  LI1 n lanes H ->
  (forall t0 i, t0 <> t -> H' t0 i = H t0 i) ->
  (forall i, i < n -> H' t i = H t i) ->
  LI1 n lanes H'.
Proof.
  intros HL Hoth Hsame i t0 Hi. destruct (Nat.eq_dec t0 t) as [->|Hne].
  - rewrite Hsame by auto. apply HL. auto.
  - rewrite Hoth by auto. apply HL. auto.
Qed.

Definition LI2 (bla : option nat) (B : nat -> bool) : Prop := forall t, bla = Some t <-> B t = true.

Lemma LI2_step bla (B B' : nat -> bool) t v :
  LI2 bla B -> (forall t0, t0 <> t -> B' t0 = B t0) ->
  ((v = bla /\ B' t = B t) \/ (v = Some t /\ B' t = true /\ bla = None) \/
   (v = None /\ B' t = false /\ B t = true)) ->
  LI2 v B'.
Proof.
  intros HL Hoth Hv t0. pose proof (HL t0) as Hold. pose proof (HL t) as Holdt.
  destruct (Nat.eq_dec t0 t) as [->|Hne].
  - destruct Hv as [(-> & H1)|[(-> & H1 & H2)|(-> & H1 & H2)]]; rewrite H1.
    + exact Holdt.
    + split; auto.
    + split; discriminate.
  - rewrite Hoth by auto. destruct Hv as [(-> & H1)|[(-> & H1 & H2)|(-> & H1 & H2)]].
    + exact Hold.
    + split; [intros E; inversion E; lia|]. intros E. apply Hold in E. congruence.
    + split; [discriminate|]. intros E. apply Hold in E. apply Holdt in H2.
      rewrite H2 in E. inversion E. lia.
Qed.

(** * The flyweight's lanes *)

Definition fpcs (ths : list fthread) (t : nat) : fpc := ftpc (nth t ths dfthread).
Definition fpcof (st : fstate) (t : nat) : fpc := fpcs (fthreads st) t.

Lemma fpcs_setn ths t th' t0 : t < length ths ->
  fpcs (setn ths t th') t0 = if Nat.eqb t t0 then ftpc th' else fpcs ths t0.
Proof.
  intros Ht. unfold fpcs. rewrite nth_setn. destruct (Nat.eqb t t0) eqn:E; simpl; auto.
  apply Nat.eqb_eq in E. subst. destruct (Nat.ltb t0 (length ths)) eqn:L; auto. lia.
Qed.

Definition fholds (t : nat) (p : fpc) (i : nat) : bool :=
  match p with
  | FIdle | FWaitBLA | FRelock => false
  | FAcquire j => Nat.eqb i t || Nat.ltb i j
  | FGrow | FRelBLA => true
  | FRelease j => Nat.eqb i t || Nat.leb j i
  | _ => Nat.eqb i t
  end.

Definition fholds_bla (p : fpc) : bool :=
  match p with
  | FRelock | FRecheck | FNoGrow | FAcquire _ | FGrow | FRelBLA => true
  | _ => false
  end.

Definition fidx_ok (n t : nat) (p : fpc) : Prop :=
  match p with
  | FAcquire j | FRelease j => j < n /\ j <> t
  | _ => True
  end.

Record FInvL (st : fstate) : Prop := {
  FL0 : length (flanes st) = length (fthreads st);
  FL1 : LI1 (length (fthreads st)) (flanes st) (fun t i => fholds t (fpcof st t) i);
  FL2 : LI2 (fbla st) (fun t => fholds_bla (fpcof st t));
  FL3 : forall t, t < length (fthreads st) -> fidx_ok (length (fthreads st)) t (fpcof st t) }.

Lemma fholds_acq_next n t i0 i : i < n ->
  fholds t (facq_next n t i0) i = (Nat.eqb i t || Nat.ltb i i0)%bool.
Proof.
  intros Hi. unfold facq_next, skip.
  destruct (Nat.eqb i0 t) eqn:E1;
    [destruct (Nat.ltb (S i0) n) eqn:E2 | destruct (Nat.ltb i0 n) eqn:E2]; cbn [fholds]; lia.
Qed.

Lemma after_grow_cases st t : (exists s, after_grow st t = FCheck s) \/ after_grow st t = FReserve.
Proof. unfold after_grow. destruct (hslot _); eauto. Qed.

Lemma fholds_after_grow st t i : fholds t (after_grow st t) i = Nat.eqb i t.
Proof. destruct (after_grow_cases st t) as [[s ->] | ->]; reflexivity. Qed.

Lemma fholds_rel_next st n t i0 i : i < n ->
  fholds t (frel_next st n t i0) i = (Nat.eqb i t || Nat.leb i0 i)%bool.
Proof.
  intros Hi. unfold frel_next, skip.
  destruct (Nat.eqb i0 t) eqn:E1;
    [destruct (Nat.ltb (S i0) n) eqn:E2 | destruct (Nat.ltb i0 n) eqn:E2];
    rewrite ?fholds_after_grow; cbn [fholds]; lia.
Qed.

Lemma fidx_ok_acq_next n t i0 : fidx_ok n t (facq_next n t i0).
Proof.
  unfold facq_next, skip.
  destruct (Nat.eqb i0 t) eqn:E1;
    [destruct (Nat.ltb (S i0) n) eqn:E2 | destruct (Nat.ltb i0 n) eqn:E2]; cbn [fidx_ok]; auto; lia.
Qed.

Lemma fidx_ok_rel_next st n t i0 : fidx_ok n t (frel_next st n t i0).
Proof.
  unfold frel_next, skip.
  destruct (Nat.eqb i0 t) eqn:E1;
    [destruct (Nat.ltb (S i0) n) eqn:E2 | destruct (Nat.ltb i0 n) eqn:E2]; cbn [fidx_ok]; auto; try lia;
    destruct (after_grow_cases st t) as [[s ->] | ->]; exact I.
Qed.

Lemma fholds_bla_acq_next n t i0 : fholds_bla (facq_next n t i0) = true.
Proof. unfold facq_next. destruct (Nat.ltb _ _); reflexivity. Qed.

Lemma fholds_bla_after_grow st t : fholds_bla (after_grow st t) = false.
Proof. destruct (after_grow_cases st t) as [[s ->] | ->]; reflexivity. Qed.

Lemma fholds_bla_rel_next st n t i0 : fholds_bla (frel_next st n t i0) = false.
Proof. unfold frel_next. destruct (Nat.ltb _ _); [reflexivity | apply fholds_bla_after_grow]. Qed.

Lemma flane_free_true st i : flane_free st i = true -> nth i (flanes st) None = None.
Proof. unfold flane_free. destruct (nth i (flanes st) None); congruence. Qed.

Lemma some_pair_inj {A B} (a c : A) (b d : B) : Some (a, b) = Some (c, d) -> a = c /\ b = d.
Proof. intros H. inversion H. auto. Qed.

Ltac fstep_cases H :=
  unfold fstep in H;
  match type of H with
  | context [nth_error ?l ?t] => destruct (nth_error l t) as [[[|o rest] p]|] eqn:Hth
  end; try discriminate H;
  cbn [ftodo ftpc] in H; match goal with p0 : fpc |- _ => destruct p0 end;
  match goal with o0 : op |- _ => destruct o0 as [k|fi] end;
  cbn beta iota zeta in H;
  repeat match type of H with
         | context [if ?c then _ else _] => destruct c eqn:?
         | context [match ?c with _ => _ end] => destruct c eqn:?
         end; try discriminate H; apply some_pair_inj in H as [<- <-].

Lemma fstep_InvL st t st' rs : FInvL st -> fstep st t = Some (st', rs) -> FInvL st'.
Proof.
  intros HL H.
  assert (Hlen := FL0 _ HL).
  fstep_cases H;
    apply (nth_error_nth_lt _ _ _ dfthread) in Hth as [Hth Ht];
    assert (Hp : fpcof st t = _) by (unfold fpcof, fpcs; rewrite Hth; reflexivity); cbn [ftpc] in Hp;
    pose proof (FL3 _ HL t Ht) as Hidx; rewrite Hp in Hidx; cbn [fidx_ok] in Hidx.
  all: unfold fset_thr, fset_lane, fset_bla, fset_slots;
    cbn [fslots fnodes fmap fnext fcount fhandles flanes fbla fthreads].
  all: constructor; cbn [fslots fnodes fmap fnext fcount fhandles flanes fbla fthreads];
    rewrite ?length_setn; auto.
  all: unfold fpcof; cbn [fthreads]; rewrite ?Hlen.
  (* FL1 *)
  all: try match goal with
    | |- LI1 _ (setn _ ?c ?v) _ =>
        apply (LI1_step _ _ (fun t0 i => fholds t0 (fpcof st t0) i) _ t c v (FL1 _ HL) Hlen);
          [ lia
          | intros t0 ii Hne; rewrite fpcs_setn by auto;
            replace (Nat.eqb t t0) with false by lia; reflexivity
          | intros ii Hii Hne; rewrite fpcs_setn by auto; rewrite Nat.eqb_refl; cbn [ftpc];
            rewrite Hp; rewrite ?fholds_acq_next, ?fholds_rel_next by lia; cbn [fholds]; lia
          | rewrite fpcs_setn by auto; rewrite Nat.eqb_refl; cbn [ftpc]; rewrite Hp;
            rewrite ?fholds_acq_next, ?fholds_rel_next by lia; cbn [fholds];
            first [ left; repeat split; [lia | apply flane_free_true; assumption]
                  | right; repeat split; lia ] ]
    | |- LI1 _ (flanes _) _ =>
        apply (LI1_step0 _ _ (fun t0 i => fholds t0 (fpcof st t0) i) _ t (FL1 _ HL));
          [ intros t0 ii Hne; rewrite fpcs_setn by auto;
            replace (Nat.eqb t t0) with false by lia; reflexivity
          | intros ii Hii; rewrite fpcs_setn by auto; rewrite Nat.eqb_refl; cbn [ftpc];
            rewrite Hp; rewrite ?fholds_acq_next, ?fholds_rel_next, ?fholds_after_grow by lia;
            cbn [fholds]; try destruct (hslot _); cbn [fholds]; lia ]
    end.
  (* FL2 *)
  all: try match goal with
    | |- LI2 ?v _ =>
        apply (LI2_step _ (fun t0 => fholds_bla (fpcof st t0)) _ t v (FL2 _ HL));
          [ intros t0 Hne; rewrite fpcs_setn by auto;
            replace (Nat.eqb t t0) with false by lia; reflexivity
          | rewrite fpcs_setn by auto; rewrite Nat.eqb_refl; cbn [ftpc]; rewrite Hp;
            rewrite ?fholds_bla_acq_next, ?fholds_bla_rel_next, ?fholds_bla_after_grow;
            try destruct (hslot _); cbn [fholds_bla];
            first [ left; split; [reflexivity|reflexivity]
                  | left; split; [congruence|reflexivity]
                  | right; left; repeat split; assumption
                  | right; right; repeat split; reflexivity ] ]
    end.
  (* FL3 *)
  all: try (intros t0 Ht0; rewrite fpcs_setn by auto; destruct (Nat.eqb t t0) eqn:Et;
            [ assert (t0 = t) by lia; subst t0; cbn [ftpc];
              first [apply fidx_ok_acq_next | apply fidx_ok_rel_next
                    | destruct (after_grow_cases st t) as [[s' ->] | ->]; exact I
                    | destruct (hslot _); exact I | exact I]
            | apply (FL3 _ HL); auto ]).
Qed.

(** A thread that does not own its own lane is outside every guard(H) .. ~guard window. *)
Definition foutside (p : fpc) : Prop := p = FIdle \/ p = FWaitBLA \/ p = FRelock.

Lemma fnot_holding_own t p : fholds t p t = false -> foutside p.
Proof. unfold foutside. destruct p; cbn [fholds]; intros H; auto; lia. Qed.

(** Crux of the slot-array growth: while a thread is in the safe section, all others are outside
    their lanes, hence none of them is between reading [Slots]/[SlotCount] and using them. *)
Lemma fgrow_exclusive st g : FInvL st -> g < length (fthreads st) -> fpcof st g = FGrow ->
  forall t, t < length (fthreads st) -> t <> g -> foutside (fpcof st t).
Proof.
  intros HL Hg Hp t Ht Hne. apply (fnot_holding_own t).
  pose proof (FL1 _ HL t g Ht) as H1. cbn beta in H1. rewrite Hp in H1. cbn [fholds] in H1.
  pose proof (FL1 _ HL t t Ht) as H2. cbn beta in H2.
  destruct (fholds t (fpcof st t) t) eqn:E; auto.
  destruct H1 as [_ H1]. destruct H2 as [_ H2]. rewrite H1 in H2 by auto.
  specialize (H2 eq_refl). inversion H2. lia.
Qed.

(** * The memory invariant *)
Local Open Scope N_scope.

Section FProofs.
  Context (rf : bool).
  Definition lo : N := if rf then 1 else 0.

  Definition ndkey (nds : list fnode) (nd : nat) : option N := fkey (nth nd nds dfnode).
  Definition ndval (nds : list fnode) (nd : nat) : N := fval (nth nd nds dfnode).

  (** Index [i] is published with key [ok]. *)
  Definition pub_at (nds : list fnode) (mp : list nat) (i : N) (ok : option N) : Prop :=
    exists nd, In nd mp /\ ndval nds nd = i /\ ndkey nds nd = ok.

  Definition handle_ok (nds : list fnode) (mp : list nat) (nx : N) (h : handle) : Prop :=
    match h with
    | mkHandle None None => True
    | mkHandle (Some s) (Some nd) =>
        (nd < length nds)%nat /\ ndval nds nd = s /\ ndkey nds nd = None /\ ~ In nd mp
        /\ lo <= s < nx /\ (forall nd', In nd' mp -> ndval nds nd' <> s)
    | _ => False
    end.

  Record MemOK (n : nat) (sl : list (option nat)) (nds : list fnode) (mp : list nat) (nx cnt : N)
         (hs : list handle) : Prop := {
    M_cnt : cnt <> 0;
    M_len : length sl = N.to_nat cnt;
    M_hlen : length hs = n;
    M_lo : lo <= nx;
    M_nodup : NoDup mp;
    M_pub : forall nd, In nd mp ->
              (nd < length nds)%nat /\ (exists k, ndkey nds nd = Some k)
              /\ lo <= ndval nds nd < nx /\ ndval nds nd < cnt
              /\ nth (N.to_nat (ndval nds nd)) sl None = Some nd;
    M_keys : NoDup (map (ndkey nds) mp);
    M_hok : forall t, (t < n)%nat -> handle_ok nds mp nx (nth t hs dhandle);
    M_hdist : forall t t', (t < n)%nat -> (t' < n)%nat -> t <> t' ->
                (forall s, hslot (nth t hs dhandle) = Some s -> hslot (nth t' hs dhandle) <> Some s)
                /\ (forall nd, hnode (nth t hs dhandle) = Some nd -> hnode (nth t' hs dhandle) <> Some nd);
    M_slots : forall i nd, nth i sl None = Some nd ->
                (In nd mp /\ ndval nds nd = N.of_nat i)
                \/ (exists t, (t < n)%nat /\ nth t hs dhandle = mkHandle (Some (N.of_nat i)) (Some nd));
    M_cov : forall i, lo <= i < nx ->
              (exists nd, In nd mp /\ ndval nds nd = i)
              \/ (exists t, (t < n)%nat /\ hslot (nth t hs dhandle) = Some i) }.

  Definition is_OIns (o : option op) : Prop := exists k, o = Some (OIns k).

  (** What a thread at a program point knows (about its own handle, its slot, its result). *)
  Definition FLocal (sl : list (option nat)) (nds : list fnode) (mp : list nat) (cnt : N)
             (h : handle) (th : fthread) : Prop :=
    let o := hd_error (ftodo th) in
    match ftpc th with
    | FIdle => True
    | FReserve => h = dhandle /\ is_OIns o
    | FCheck s => hslot h = Some s /\ is_OIns o
    | FTryBLA | FYield | FWaitBLA | FRelock | FRecheck | FNoGrow | FAcquire _ | FGrow | FRelBLA
    | FRelease _ => (exists s, hslot h = Some s) /\ is_OIns o
    | FWrite s => hslot h = Some s /\ s < cnt /\ is_OIns o
    | FGet s => hslot h = Some s /\ s < cnt /\ nth (N.to_nat s) sl None = hnode h /\ is_OIns o
    | FClear s idx => hslot h = Some s /\ s < cnt /\ exists k, o = Some (OIns k) /\ pub_at nds mp idx (Some k)
    | FUnlock idx _ => exists k, o = Some (OIns k) /\ pub_at nds mp idx (Some k)
    | TRead i => o = Some (OFetch i)
    | TUnlock i r => o = Some (OFetch i) /\ (r = None \/ pub_at nds mp i r)
    end.

  Definition resp_fact (nds : list fnode) (mp : list nat) (r : nat * fresponse) : Prop :=
    match snd r with
    | RIns k i _ => pub_at nds mp i (Some k)
    | RFetch i r => r = None \/ pub_at nds mp i r
    end.

  Record FInvC (st : fstate) (hist : list (nat * fresponse)) : Prop := {
    FC_mem : MemOK (length (fthreads st)) (fslots st) (fnodes st) (fmap st) (fnext st) (fcount st)
                   (fhandles st);
    FC_local : forall t, (t < length (fthreads st))%nat ->
                 FLocal (fslots st) (fnodes st) (fmap st) (fcount st) (nth t (fhandles st) dhandle)
                        (nth t (fthreads st) dfthread);
    FC_resp : forall r, In r hist -> resp_fact (fnodes st) (fmap st) r }.

  (** Monotonicity of the thread-local facts of the threads that do not step. *)
  Lemma FLocal_frame sl sl' nds nds' mp mp' cnt cnt' h th :
    FLocal sl nds mp cnt h th ->
    cnt <= cnt' ->
    (forall i ok, pub_at nds mp i ok -> pub_at nds' mp' i ok) ->
    (forall s, hslot h = Some s -> s < cnt ->
               nth (N.to_nat s) sl' None = nth (N.to_nat s) sl None) ->
    FLocal sl' nds' mp' cnt' h th.
  Proof.
    unfold FLocal. intros Hl Hc Hp Hs.
    destruct (ftpc th); auto.
    - destruct Hl as (H1 & H2 & H3). repeat split; auto. lia.
    - destruct Hl as (H1 & H2 & H3 & H4). repeat split; auto; [lia|]. rewrite Hs; auto.
    - destruct Hl as (H1 & H2 & k & H3 & H4). repeat split; auto; [lia|]. eauto.
    - destruct Hl as (k & H3 & H4). eauto.
    - destruct Hl as (H1 & [H2|H2]); split; auto.
  Qed.

  Lemma resp_fact_mono nds nds' mp mp' r :
    (forall i ok, pub_at nds mp i ok -> pub_at nds' mp' i ok) ->
    resp_fact nds mp r -> resp_fact nds' mp' r.
  Proof.
    unfold resp_fact. intros Hp. destruct (snd r); auto. intros [H|H]; auto.
  Qed.

  (** Steps that change neither the memory nor the history: only the stepping thread's local
      facts have to be re-established. *)
  Lemma fframe_step st hist t th' ln bl :
    FInvC st hist -> (t < length (fthreads st))%nat ->
    FLocal (fslots st) (fnodes st) (fmap st) (fcount st) (nth t (fhandles st) dhandle) th' ->
    FInvC (mkFState (fslots st) (fnodes st) (fmap st) (fnext st) (fcount st) (fhandles st) ln bl
                    (setn (fthreads st) t th')) hist.
  Proof.
    intros HC Ht Hl.
    constructor; cbn [fslots fnodes fmap fnext fcount fhandles flanes fbla fthreads];
      rewrite ?length_setn.
    - apply (FC_mem _ _ HC).
    - intros t0 Ht0. rewrite nth_setn.
      destruct (Nat.eqb t t0 && Nat.ltb t0 (length (fthreads st)))%bool eqn:E.
      + assert (t0 = t) by lia. subst. exact Hl.
      + apply (FC_local _ _ HC); auto.
    - apply (FC_resp _ _ HC).
  Qed.

  Lemma fframe_step_hist st hist hist' t th' ln bl :
    FInvC st hist -> (t < length (fthreads st))%nat ->
    FLocal (fslots st) (fnodes st) (fmap st) (fcount st) (nth t (fhandles st) dhandle) th' ->
    (forall r, In r hist' -> resp_fact (fnodes st) (fmap st) r) ->
    FInvC (mkFState (fslots st) (fnodes st) (fmap st) (fnext st) (fcount st) (fhandles st) ln bl
                    (setn (fthreads st) t th')) hist'.
  Proof.
    intros HC Ht Hl Hr.
    constructor; cbn [fslots fnodes fmap fnext fcount fhandles flanes fbla fthreads];
      rewrite ?length_setn; auto.
    - apply (FC_mem _ _ HC).
    - intros t0 Ht0. rewrite nth_setn.
      destruct (Nat.eqb t t0 && Nat.ltb t0 (length (fthreads st)))%bool eqn:E.
      + assert (t0 = t) by lia. subst. exact Hl.
      + apply (FC_local _ _ HC); auto.
  Qed.

  (** General re-assembly: new memory, the stepping thread's new local facts, and a frame
      condition for the others. *)
  Lemma fmem_step st hist t th' sl' nds' mp' nx' cnt' hs' ln bl :
    FInvC st hist -> (t < length (fthreads st))%nat ->
    MemOK (length (fthreads st)) sl' nds' mp' nx' cnt' hs' ->
    FLocal sl' nds' mp' cnt' (nth t hs' dhandle) th' ->
    (forall t0, t0 <> t -> nth t0 hs' dhandle = nth t0 (fhandles st) dhandle) ->
    fcount st <= cnt' ->
    (forall i ok, pub_at (fnodes st) (fmap st) i ok -> pub_at nds' mp' i ok) ->
    (forall t0 s, t0 <> t -> (t0 < length (fthreads st))%nat ->
                  hslot (nth t0 (fhandles st) dhandle) = Some s -> s < fcount st ->
                  nth (N.to_nat s) sl' None = nth (N.to_nat s) (fslots st) None) ->
    FInvC (mkFState sl' nds' mp' nx' cnt' hs' ln bl (setn (fthreads st) t th')) hist.
  Proof.
    intros HC Ht HM Hl Hh Hc Hp Hs.
    constructor; cbn [fslots fnodes fmap fnext fcount fhandles flanes fbla fthreads];
      rewrite ?length_setn; auto.
    - intros t0 Ht0. rewrite nth_setn.
      destruct (Nat.eqb t t0 && Nat.ltb t0 (length (fthreads st)))%bool eqn:E.
      + assert (t0 = t) by lia. subst. exact Hl.
      + assert (Hne : t0 <> t) by lia. rewrite (Hh t0 Hne).
        eapply FLocal_frame; [apply (FC_local _ _ HC); auto | auto | auto |].
        intros s Hsl Hsc. apply (Hs t0 s); auto.
    - intros r Hr. eapply resp_fact_mono; [exact Hp | apply (FC_resp _ _ HC); auto].
  Qed.

  Lemma nth_app_old {A} (l : list A) x d i : (i < length l)%nat -> nth i (l ++ x) d = nth i l d.
  Proof. intros. apply app_nth1. auto. Qed.

  Lemma dbl_ge fuel : forall sz next, sz <= dbl fuel sz next.
  Proof.
    induction fuel as [|f IH]; intros sz next; simpl; [lia|].
    destruct (sz <? next); [|lia]. specialize (IH (2 * sz) next). lia.
  Qed.

  Lemma map_find_some st k ex : map_find st k = Some ex ->
    In ex (fmap st) /\ ndkey (fnodes st) ex = Some k.
  Proof.
    unfold map_find. intros H. apply find_some in H as [H1 H2]. split; auto.
    unfold ndkey. destruct (fkey (nth ex (fnodes st) dfnode)); [|discriminate].
    apply N.eqb_eq in H2. congruence.
  Qed.

  Lemma map_find_none st k : map_find st k = None ->
    forall nd, In nd (fmap st) -> ndkey (fnodes st) nd <> Some k.
  Proof.
    unfold map_find. intros H nd Hnd Hk. pose proof (find_none _ _ H nd Hnd) as Hf.
    cbn beta in Hf. unfold ndkey in Hk. rewrite Hk in Hf. rewrite N.eqb_refl in Hf. discriminate.
  Qed.

  Lemma handle_some nds mp nx h s : handle_ok nds mp nx h -> hslot h = Some s ->
    exists nd, h = mkHandle (Some s) (Some nd)
      /\ (nd < length nds)%nat /\ ndval nds nd = s /\ ndkey nds nd = None /\ ~ In nd mp
      /\ lo <= s < nx /\ (forall nd', In nd' mp -> ndval nds nd' <> s).
  Proof.
    unfold handle_ok. destruct h as [[s0|] [nd|]]; cbn [hslot]; intros H E; try discriminate;
      try contradiction. inversion E; subst. exists nd. tauto.
  Qed.

  Lemma ndkey_snoc nds x nd : (nd < length nds)%nat -> ndkey (nds ++ [x]) nd = ndkey nds nd.
  Proof. intros. unfold ndkey. rewrite app_nth1; auto. Qed.
  Lemma ndval_snoc nds x nd : (nd < length nds)%nat -> ndval (nds ++ [x]) nd = ndval nds nd.
  Proof. intros. unfold ndval. rewrite app_nth1; auto. Qed.
  Lemma ndkey_setn_neq nds a x nd : a <> nd -> ndkey (setn nds a x) nd = ndkey nds nd.
  Proof. intros. unfold ndkey. rewrite nth_setn_neq; auto. Qed.
  Lemma ndval_setn_neq nds a x nd : a <> nd -> ndval (setn nds a x) nd = ndval nds nd.
  Proof. intros. unfold ndval. rewrite nth_setn_neq; auto. Qed.

  (** Slot = NextSlot++ ; Handles[H] := (Slot, node(Slot)). *)
  Lemma mem_reserve n sl nds mp nx cnt hs t :
    MemOK n sl nds mp nx cnt hs -> (t < n)%nat -> nth t hs dhandle = dhandle ->
    MemOK n sl (nds ++ [mkFNode None nx]) mp (nx + 1) cnt
          (setn hs t (mkHandle (Some nx) (Some (length nds)))).
  Proof.
    intros HM Ht Hd. destruct HM as [m1 m2 m3 m4 m5 m6 m7 m8 m9 m10 m11].
    assert (Hb : forall nd, In nd mp -> (nd < length nds)%nat) by (intros nd H; apply (m6 nd H)).
    constructor; auto.
    - rewrite length_setn. auto.
    - lia.
    - intros nd Hnd. destruct (m6 nd Hnd) as (a & b & c & d & e).
      rewrite ndkey_snoc, ndval_snoc by auto. rewrite app_length. simpl. repeat split; auto; lia.
    - rewrite (map_ext_in _ (ndkey nds)); auto. intros nd Hnd. apply ndkey_snoc. auto.
    - intros t0 Ht0. rewrite nth_setn, m3.
      destruct (Nat.eqb t t0 && Nat.ltb t0 n)%bool eqn:E.
      + cbn [handle_ok]. rewrite app_length. simpl. unfold ndval, ndkey.
        rewrite app_nth2 by lia. rewrite Nat.sub_diag. cbn. repeat split; auto; try lia.
        * intros Hi. apply Hb in Hi. lia.
        * intros nd' Hnd'. destruct (m6 nd' Hnd') as (a & b & c & d & e).
          fold (ndval (nds ++ [mkFNode None nx]) nd'). rewrite ndval_snoc by auto. lia.
      + pose proof (m8 t0 Ht0) as Hok. unfold handle_ok in *.
        destruct (nth t0 hs dhandle) as [[s0|] [nd0|]]; auto.
        destruct Hok as (a & b & c & d & e & f). rewrite app_length. simpl.
        rewrite ndkey_snoc, ndval_snoc by auto. repeat split; auto; try lia.
        intros nd' Hnd'. rewrite ndval_snoc by auto. auto.
    - intros t1 t2 Ht1 Ht2 Hne. rewrite !nth_setn, m3.
      destruct (Nat.eqb t t1 && Nat.ltb t1 n)%bool eqn:E1;
        destruct (Nat.eqb t t2 && Nat.ltb t2 n)%bool eqn:E2; try lia.
      + cbn [hslot hnode]. split; intros x Hx; inversion Hx; subst x; intros Hc.
        * destruct (handle_some _ _ _ _ _ (m8 t2 Ht2) Hc) as (nd & _ & _ & _ & _ & _ & Hr & _). lia.
        * pose proof (m8 t2 Ht2) as Hok. unfold handle_ok in Hok.
          destruct (nth t2 hs dhandle) as [[s0|] [nd0|]]; cbn [hnode] in Hc; try discriminate;
            try contradiction. inversion Hc; subst. lia.
      + cbn [hslot hnode]. split; intros x Hx Hc; inversion Hc; subst x.
        * destruct (handle_some _ _ _ _ _ (m8 t1 Ht1) Hx) as (nd & _ & _ & _ & _ & _ & Hr & _). lia.
        * pose proof (m8 t1 Ht1) as Hok. unfold handle_ok in Hok.
          destruct (nth t1 hs dhandle) as [[s0|] [nd0|]]; cbn [hnode] in Hx; try discriminate;
            try contradiction. inversion Hx; subst. lia.
      + apply m9; auto.
    - intros i nd Hi. destruct (m10 i nd Hi) as [[H1 H2]|(t0 & Ht0 & H0)].
      + left. split; auto. rewrite ndval_snoc; auto.
      + right. exists t0. split; auto. rewrite nth_setn_neq; auto. intros ->. rewrite Hd in H0.
        discriminate.
    - intros i Hi. destruct (N.eq_dec i nx) as [->|Hne].
      + right. exists t. split; auto. rewrite nth_setn_eq by lia. reflexivity.
      + destruct (m11 i ltac:(lia)) as [(nd & H1 & H2)|(t0 & Ht0 & H0)].
        * left. exists nd. split; auto. rewrite ndval_snoc; auto.
        * right. exists t0. split; auto. rewrite nth_setn_neq; auto. intros ->. rewrite Hd in H0.
          discriminate.
  Qed.

  (** The slot array grows. *)
  Lemma mem_grow n sl nds mp nx cnt hs ns :
    MemOK n sl nds mp nx cnt hs -> cnt <= ns ->
    MemOK n (sl ++ repeat None (N.to_nat ns - N.to_nat cnt)) nds mp nx ns hs.
  Proof.
    intros HM Hns. destruct HM as [m1 m2 m3 m4 m5 m6 m7 m8 m9 m10 m11].
    constructor; auto.
    - lia.
    - rewrite app_length, repeat_length. lia.
    - intros nd Hnd. destruct (m6 nd Hnd) as (a & b & c & d & e).
      repeat split; auto; try lia. rewrite app_nth1 by lia. auto.
    - intros i nd Hi. destruct (Nat.lt_ge_cases i (length sl)) as [Hl|Hl].
      + rewrite app_nth1 in Hi by auto. auto.
      + rewrite app_nth2 in Hi by auto.
        destruct (Nat.lt_ge_cases (i - length sl) (N.to_nat ns - N.to_nat cnt)) as [Hl2|Hl2].
        * rewrite nth_repeat' in Hi by auto. discriminate.
        * rewrite nth_overflow in Hi by (rewrite repeat_length; auto). discriminate.
  Qed.

  (** A store into the thread's own reserved slot. *)
  Lemma mem_write n sl nds mp nx cnt hs t s nd v :
    MemOK n sl nds mp nx cnt hs -> (t < n)%nat ->
    nth t hs dhandle = mkHandle (Some s) (Some nd) -> s < cnt -> (v = Some nd \/ v = None) ->
    MemOK n (setn sl (N.to_nat s) v) nds mp nx cnt hs.
  Proof.
    intros HM Ht Hh Hs Hv. destruct HM as [m1 m2 m3 m4 m5 m6 m7 m8 m9 m10 m11].
    pose proof (m8 t Ht) as Hok. rewrite Hh in Hok. cbn [handle_ok] in Hok.
    destruct Hok as (a & b & c & d & e & f).
    constructor; auto.
    - rewrite length_setn. auto.
    - intros nd' Hnd'. destruct (m6 nd' Hnd') as (a' & b' & c' & d' & e').
      split; [auto|]. split; [auto|]. split; [auto|]. split; [auto|].
      rewrite nth_setn_neq; auto. specialize (f nd' Hnd'). lia.
    - intros i nd0. rewrite nth_setn.
      destruct (Nat.eqb (N.to_nat s) i && Nat.ltb i (length sl))%bool eqn:E; [|apply m10].
      intros Hi. destruct Hv as [-> | ->]; [|discriminate]. inversion Hi; subst nd0.
      right. exists t. split; auto. rewrite Hh. f_equal. f_equal. lia.
  Qed.

  (** [Mapping.get] inserts the thread's node. *)
  Lemma mem_insert n sl nds mp nx cnt hs t s nd k :
    MemOK n sl nds mp nx cnt hs -> (t < n)%nat ->
    nth t hs dhandle = mkHandle (Some s) (Some nd) -> s < cnt ->
    nth (N.to_nat s) sl None = Some nd ->
    (forall nd', In nd' mp -> ndkey nds nd' <> Some k) ->
    MemOK n sl (setn nds nd (mkFNode (Some k) s)) (nd :: mp) nx cnt (setn hs t dhandle).
  Proof.
    intros HM Ht Hh Hs Hsl Hk. destruct HM as [m1 m2 m3 m4 m5 m6 m7 m8 m9 m10 m11].
    pose proof (m8 t Ht) as Hok. rewrite Hh in Hok. cbn [handle_ok] in Hok.
    destruct Hok as (a & b & c & d & e & f).
    assert (Hne : forall nd', In nd' mp -> nd <> nd') by (intros nd' H ->; auto).
    assert (Hnew : nth nd (setn nds nd (mkFNode (Some k) s)) dfnode = mkFNode (Some k) s)
      by (apply nth_setn_eq; auto).
    constructor; auto.
    - rewrite length_setn. auto.
    - constructor; auto.
    - intros nd' [<-|Hnd'].
      + rewrite length_setn. unfold ndkey, ndval. rewrite Hnew. cbn. repeat split; eauto; lia.
      + destruct (m6 nd' Hnd') as (a' & b' & c' & d' & e').
        rewrite length_setn, ndkey_setn_neq, ndval_setn_neq by auto. repeat split; auto; lia.
    - cbn [map]. constructor.
      + unfold ndkey at 1. rewrite Hnew. cbn. intros Hi. apply in_map_iff in Hi as (nd' & H1 & H2).
        rewrite ndkey_setn_neq in H1 by auto. apply (Hk nd' H2). auto.
      + rewrite (map_ext_in _ (ndkey nds)); auto. intros nd' Hnd'. apply ndkey_setn_neq. auto.
    - intros t0 Ht0. rewrite nth_setn, m3.
      destruct (Nat.eqb t t0 && Nat.ltb t0 n)%bool eqn:E; [exact I|].
      assert (Hnt : t0 <> t) by lia.
      pose proof (m8 t0 Ht0) as Hok. pose proof (m9 t0 t Ht0 Ht Hnt) as [Hd1 Hd2].
      unfold handle_ok in *. destruct (nth t0 hs dhandle) as [[s0|] [nd0|]] eqn:E0; auto.
      destruct Hok as (a0 & b0 & c0 & d0 & e0 & f0). rewrite Hh in Hd1, Hd2. cbn in Hd1, Hd2.
      assert (nd0 <> nd) by (intros ->; eapply Hd2; eauto).
      assert (s0 <> s) by (intros ->; eapply Hd1; eauto).
      rewrite length_setn, ndkey_setn_neq, ndval_setn_neq by auto.
      repeat split; auto; try lia.
      * intros [Hc|Hc]; auto.
      * intros nd' [<-|Hnd']; [unfold ndval; rewrite Hnew; cbn; auto|].
        rewrite ndval_setn_neq by auto. auto.
    - intros t1 t2 Ht1 Ht2 Hn12. rewrite !nth_setn, m3.
      destruct (Nat.eqb t t1 && Nat.ltb t1 n)%bool eqn:E1;
        destruct (Nat.eqb t t2 && Nat.ltb t2 n)%bool eqn:E2; try lia;
        cbn [dhandle hslot hnode]; try (split; intros x Hx; discriminate);
        try (split; intros x Hx Hc; discriminate).
      apply m9; auto.
    - intros i nd0 Hi. destruct (m10 i nd0 Hi) as [[H1 H2]|(t0 & Ht0 & H0)].
      + left. split; [right; auto|]. rewrite ndval_setn_neq; auto.
      + destruct (Nat.eq_dec t0 t) as [->|Hnt].
        * assert (Hq : nd0 = nd /\ N.of_nat i = s) by (rewrite Hh in H0; inversion H0; auto).
          destruct Hq as [-> Hq]. left. split; [left; auto|].
          unfold ndval. rewrite Hnew. cbn. lia.
        * right. exists t0. split; auto. rewrite nth_setn_neq; auto.
    - intros i Hi. destruct (m11 i Hi) as [(nd' & H1 & H2)|(t0 & Ht0 & H0)].
      + left. exists nd'. split; [right; auto|]. rewrite ndval_setn_neq; auto.
      + destruct (Nat.eq_dec t0 t) as [->|Hnt].
        * assert (Hq : i = s) by (rewrite Hh in H0; cbn in H0; inversion H0; auto).
          left. exists nd. split; [left; auto|].
          unfold ndval. rewrite Hnew. cbn. auto.
        * right. exists t0. split; auto. rewrite nth_setn_neq; auto.
  Qed.

  Lemma fetch_now_spec st hist i : FInvC st hist ->
    fetch_now st i = None \/ pub_at (fnodes st) (fmap st) i (fetch_now st i).
  Proof.
    intros HC. destruct (FC_mem _ _ HC) as [m1 m2 m3 m4 m5 m6 m7 m8 m9 m10 m11].
    unfold fetch_now. destruct (i <? fcount st) eqn:E; auto.
    destruct (nth (N.to_nat i) (fslots st) None) as [nd|] eqn:En; auto.
    destruct (m10 _ _ En) as [[H1 H2]|(t & Ht & H0)].
    - right. exists nd. repeat split; auto. lia.
    - left. pose proof (m8 t Ht) as Hok. rewrite H0 in Hok. cbn [handle_ok] in Hok.
      unfold ndkey in Hok. tauto.
  Qed.

  Ltac kill_mismatch Hloc :=
    try solve [exfalso; unfold FLocal, is_OIns in Hloc; cbn [ftpc ftodo hd_error] in Hloc;
               repeat match goal with
                      | H : _ /\ _ |- _ => destruct H
                      | H : exists _, _ |- _ => destruct H
                      end; congruence].

  Lemma fstep_InvC st hist t st' rs :
    FInvL st -> FInvC st hist -> fstep st t = Some (st', rs) ->
    FInvC st' (hist ++ map (pair t) rs).
  Proof.
    intros HL HC H.
    pose proof (FC_mem _ _ HC) as HM.
    fstep_cases H;
      apply (nth_error_nth_lt _ _ _ dfthread) in Hth as [Hth Ht];
      pose proof (FC_local _ _ HC t Ht) as Hloc; rewrite Hth in Hloc;
      kill_mismatch Hloc;
      unfold FLocal in Hloc; cbn [ftpc ftodo hd_error] in Hloc;
      pose proof (M_hok _ _ _ _ _ _ _ HM t Ht) as Hok;
      cbn [map app]; rewrite ?app_nil_r;
      unfold fset_thr, fset_lane, fset_bla, fset_slots;
      cbn [fslots fnodes fmap fnext fcount fhandles flanes fbla fthreads].
    - (* guard, reserved slot present *)
      apply fframe_step; auto. unfold FLocal, is_OIns. cbn [ftpc ftodo hd_error]. eauto.
    - (* guard, no reserved slot *)
      apply fframe_step; auto. unfold FLocal, is_OIns. cbn [ftpc ftodo hd_error]. split; eauto.
      unfold handle_ok in Hok. destruct (nth t (fhandles st) dhandle) as [[s0|] [nd0|]];
        cbn [hslot] in *; try discriminate; try contradiction. reflexivity.
    - (* fetch: guard *)
      apply fframe_step; auto. unfold FLocal. cbn [ftpc ftodo hd_error]. reflexivity.
    - (* reserve *)
      destruct Hloc as [Hd Hi].
      eapply fmem_step; eauto.
      + apply mem_reserve; auto.
      + unfold FLocal. cbn [ftpc ftodo hd_error]. rewrite nth_setn_eq; auto.
        rewrite (M_hlen _ _ _ _ _ _ _ HM). auto.
      + intros t0 Hne. apply nth_setn_neq. auto.
      + lia.
      + intros i ok (nd & H1 & H2 & H3). exists nd.
        destruct (M_pub _ _ _ _ _ _ _ HM nd H1) as (Hb & _).
        unfold ndval, ndkey in *. rewrite app_nth1 by auto. auto.
    - (* check: must grow *)
      apply fframe_step; auto. unfold FLocal. cbn [ftpc ftodo hd_error]. destruct Hloc. eauto.
    - (* check: slot available *)
      apply fframe_step; auto. unfold FLocal. cbn [ftpc ftodo hd_error]. destruct Hloc.
      repeat split; auto. lia.
    - apply fframe_step; auto.
    - apply fframe_step; auto.
    - apply fframe_step; auto.
    - apply fframe_step; auto.
    - apply fframe_step; auto.
    - apply fframe_step; auto.
    - (* recheck: grow *)
      apply fframe_step; auto. unfold facq_next. destruct (Nat.ltb _ _); exact Hloc.
    - (* no grow *)
      apply fframe_step; auto. destruct Hloc as [[s Hs] Hi]. unfold after_grow. rewrite Hs.
      unfold FLocal. cbn [ftpc ftodo hd_error]. auto.
    - apply fframe_step; auto. unfold facq_next. destruct (Nat.ltb _ _); exact Hloc.
    - (* grow *)
      destruct Hloc as [[s Hs] Hi].
      pose proof (dbl_ge dbl_fuel (2 * fcount st) (fnext st)) as Hge.
      eapply fmem_step; eauto.
      + apply mem_grow; auto. lia.
      + unfold FLocal. cbn [ftpc ftodo hd_error]. eauto.
      + lia.
      + intros t0 s0 Hne Ht0 Hs0 Hlt. apply app_nth1. rewrite (M_len _ _ _ _ _ _ _ HM). lia.
    - (* release BeforeLockAll *)
      apply fframe_step; auto. destruct Hloc as [[s Hs] Hi].
      unfold frel_next, after_grow. destruct (Nat.ltb _ _); [|rewrite Hs];
        unfold FLocal; cbn [ftpc ftodo hd_error]; eauto.
    - apply fframe_step; auto. destruct Hloc as [[s Hs] Hi].
      unfold frel_next, after_grow. destruct (Nat.ltb _ _); [|rewrite Hs];
        unfold FLocal; cbn [ftpc ftodo hd_error]; eauto.
    - (* write the slot *)
      destruct Hloc as (Hs & Hc & Hi).
      destruct (handle_some _ _ _ _ _ Hok Hs) as (nd & Hh & Hrest).
      eapply fmem_step; eauto.
      + eapply mem_write; eauto. rewrite Hh. cbn. auto.
      + unfold FLocal. cbn [ftpc ftodo hd_error]. repeat split; auto.
        rewrite nth_setn_eq; auto. rewrite (M_len _ _ _ _ _ _ _ HM). lia.
      + lia.
      + intros t0 s0 Hne Ht0 Hs0 Hlt. apply nth_setn_neq.
        destruct (M_hdist _ _ _ _ _ _ _ HM t t0 Ht Ht0 ltac:(auto)) as [Hd _].
        specialize (Hd s Hs). intros E. apply Hd. rewrite Hs0. f_equal. lia.
    - (* get: found *)
      destruct Hloc as (Hs & Hc & Hsl & Hi).
      apply map_find_some in Heqo as [Hf1 Hf2].
      apply fframe_step; auto. unfold FLocal. cbn [ftpc ftodo hd_error]. repeat split; auto.
      exists k. split; auto. exists n. auto.
    - (* get: inserted *)
      destruct Hloc as (Hs & Hc & Hsl & Hi).
      destruct (handle_some _ _ _ _ _ Hok Hs) as (nd & Hh & Hb & Hv & Hk & Hnm & Hr & Hu).
      assert (n = nd) by (rewrite Hh in Heqo0; cbn in Heqo0; congruence). subst n.
      assert (Hne : forall nd', In nd' (fmap st) -> nd <> nd') by (intros nd' Hx ->; auto).
      eapply fmem_step; eauto.
      + eapply mem_insert; eauto.
        * rewrite Hsl, Hh. reflexivity.
        * apply map_find_none. auto.
      + unfold FLocal. cbn [ftpc ftodo hd_error]. exists k. split; auto.
        exists nd. split; [left; auto|]. unfold ndval, ndkey. rewrite nth_setn_eq by auto. auto.
      + intros t0 Hnt. apply nth_setn_neq. auto.
      + lia.
      + intros i ok (nd' & H1 & H2 & H3). exists nd'. split; [right; auto|].
        rewrite ndval_setn_neq, ndkey_setn_neq by auto. auto.
    - (* clear the slot *)
      destruct Hloc as (Hs & Hc & k0 & Ho & Hp).
      destruct (handle_some _ _ _ _ _ Hok Hs) as (nd & Hh & Hrest).
      eapply fmem_step; eauto.
      + eapply mem_write; eauto.
      + unfold FLocal. cbn [ftpc ftodo hd_error]. eauto.
      + lia.
      + intros t0 s0 Hne Ht0 Hs0 Hlt. apply nth_setn_neq.
        destruct (M_hdist _ _ _ _ _ _ _ HM t t0 Ht Ht0 ltac:(auto)) as [Hd _].
        specialize (Hd s Hs). intros E. apply Hd. rewrite Hs0. f_equal. lia.
    - (* return from findOrInsert *)
      destruct Hloc as (k0 & Ho & Hp). inversion Ho; subst k0.
      apply fframe_step_hist with (hist := hist); auto.
      + exact I.
      + intros r Hr. apply in_app_or in Hr as [Hr|[<-|[]]]; [apply (FC_resp _ _ HC); auto|].
        exact Hp.
    - (* fetch: read *)
      apply fframe_step; auto. unfold FLocal. cbn [ftpc ftodo hd_error]. split; auto.
      destruct (fetch_now_spec st hist i HC); auto.
    - (* return from fetch *)
      destruct Hloc as (Ho & Hp).
      apply fframe_step_hist with (hist := hist); auto.
      + exact I.
      + intros r0 Hr. apply in_app_or in Hr as [Hr|[<-|[]]]; [apply (FC_resp _ _ HC); auto|].
        exact Hp.
  Qed.

  (** * Reachable states *)

  Inductive freach (cap0 : N) (progs : list (list op)) : fstate -> list (nat * fresponse) -> Prop :=
  | fr_init : freach cap0 progs (finit rf cap0 progs) []
  | fr_step st h t st' rs :
      freach cap0 progs st h -> fstep st t = Some (st', rs) ->
      freach cap0 progs st' (h ++ map (pair t) rs).

  Lemma finit_pcof cap0 progs t : fpcof (finit rf cap0 progs) t = FIdle.
  Proof.
    unfold fpcof, fpcs, finit. cbn [fthreads].
    rewrite (nth_map_default _ _ _ []) by reflexivity. reflexivity.
  Qed.

  Lemma finit_InvL cap0 progs : FInvL (finit rf cap0 progs).
  Proof.
    constructor.
    - unfold finit. cbn. rewrite !map_length. auto.
    - intros i t Hi. cbn beta. rewrite finit_pcof. cbn [fholds]. unfold finit. cbn [flanes].
      rewrite (nth_map_default _ _ _ []) by reflexivity. split; discriminate.
    - intros t. cbn beta. rewrite finit_pcof. cbn. split; discriminate.
    - intros t Ht. rewrite finit_pcof. exact I.
  Qed.

  Lemma finit_InvC cap0 progs : cap0 <> 0 -> FInvC (finit rf cap0 progs) [].
  Proof.
    intros Hnz.
    assert (Hh : forall t, nth t (map (fun _ : list op => dhandle) progs) dhandle = dhandle).
    { intros t. rewrite (nth_map_default _ _ _ []) by reflexivity. reflexivity. }
    constructor.
    - unfold finit. cbn [fslots fnodes fmap fnext fcount fhandles fthreads].
      constructor; auto.
      + apply repeat_length.
      + rewrite !map_length. auto.
      + unfold lo. destruct rf; lia.
      + constructor.
      + intros nd [].
      + constructor.
      + intros t Ht. rewrite Hh. exact I.
      + intros t t' _ _ _. rewrite !Hh. cbn. split; intros x Hx; discriminate.
      + intros i nd Hi. destruct (Nat.lt_ge_cases i (N.to_nat cap0)).
        * rewrite nth_repeat' in Hi by auto. discriminate.
        * rewrite nth_overflow in Hi by (rewrite repeat_length; auto). discriminate.
      + intros i Hi. unfold lo in Hi. destruct rf; lia.
    - intros t Ht. pose proof (finit_pcof cap0 progs t) as Hp. unfold fpcof, fpcs in Hp.
      unfold FLocal. rewrite Hp. exact I.
    - intros r [].
  Qed.

  Theorem freach_inv cap0 progs st h : cap0 <> 0 -> freach cap0 progs st h -> FInvL st /\ FInvC st h.
  Proof.
    intros Hnz Hr. induction Hr.
    - split; [apply finit_InvL | apply finit_InvC; auto].
    - destruct IHHr as [HL HC]. split; [eapply fstep_InvL; eauto | eapply fstep_InvC; eauto].
  Qed.

  Lemma fexec_reach cap0 progs sched : forall st h s out stp,
    freach cap0 progs st h -> fexec st sched = (s, out, stp) -> freach cap0 progs s (h ++ out).
  Proof.
    induction sched as [|t r IH]; intros st h s out stp Hr He; simpl in He.
    - inversion He; subst. rewrite app_nil_r. auto.
    - destruct (fstep st t) as [[st' rs]|] eqn:Es.
      + destruct (fexec st' r) as [[s1 out1] stp1] eqn:Ee. inversion He; subst.
        rewrite app_assoc. eapply IH; eauto. econstructor; eauto.
      + eapply IH; eauto.
  Qed.

  Lemma frun_reach cap0 progs sched s out :
    frun rf cap0 progs sched = (s, out) -> freach cap0 progs s out.
  Proof.
    unfold frun. intros H. destruct (fexec (finit rf cap0 progs) sched) as [[s1 out1] stp] eqn:E.
    simpl in H. inversion H; subst. change out with ([] ++ out).
    eapply fexec_reach; eauto. constructor.
  Qed.

  (** * Bijection between keys and indices *)

  (** [assigned st i]: some published node of the mapping carries index [i]. *)
  Definition assigned (st : fstate) (i : N) : Prop :=
    exists nd, In nd (fmap st) /\ ndval (fnodes st) nd = i.

  Lemma pub_at_inj st h i1 i2 k1 k2 : FInvC st h ->
    pub_at (fnodes st) (fmap st) i1 (Some k1) -> pub_at (fnodes st) (fmap st) i2 (Some k2) ->
    (k1 = k2 <-> i1 = i2).
  Proof.
    intros HC (n1 & A1 & B1 & C1) (n2 & A2 & B2 & C2).
    destruct (FC_mem _ _ HC) as [m1 m2 m3 m4 m5 m6 m7 m8 m9 m10 m11].
    split; intros E.
    - assert (n1 = n2).
      { apply (NoDup_map_inj (ndkey (fnodes st)) (fmap st)); auto. congruence. }
      congruence.
    - destruct (m6 n1 A1) as (_ & _ & _ & _ & S1). destruct (m6 n2 A2) as (_ & _ & _ & _ & S2).
      rewrite B1 in S1. rewrite B2 in S2. rewrite E in S1. congruence.
  Qed.

  Lemma pub_at_fetch st h i k : FInvC st h ->
    pub_at (fnodes st) (fmap st) i (Some k) -> fetch_now st i = Some k /\ lo <= i.
  Proof.
    intros HC (nd & A & B & C). destruct (FC_mem _ _ HC) as [m1 m2 m3 m4 m5 m6 m7 m8 m9 m10 m11].
    destruct (m6 nd A) as (a & b & c & d & e). rewrite B in *.
    unfold fetch_now. replace (i <? fcount st) with true by lia. rewrite e. split; [exact C | lia].
  Qed.

  (** [flyweight_bijection]: over the responses of any reachable state, equal keys got equal
      indices and different keys different indices; decoding an index that was handed out
      returns the key (now, hence in every later state, since histories only grow); with
      reserve-first the index 0 (nil) is never handed out; and a [fetch] that returned a key
      returned the key the table maps that index to. *)
  Theorem flyweight_bijection cap0 progs st h : cap0 <> 0 -> freach cap0 progs st h ->
    (forall t1 t2 k1 k2 i1 i2 b1 b2,
        In (t1, RIns k1 i1 b1) h -> In (t2, RIns k2 i2 b2) h -> (k1 = k2 <-> i1 = i2))
    /\ (forall t k i b, In (t, RIns k i b) h -> fetch_now st i = Some k)
    /\ (rf = true -> forall t k i b, In (t, RIns k i b) h -> i <> 0)
    /\ (forall t i k, In (t, RFetch i (Some k)) h -> fetch_now st i = Some k).
  Proof.
    intros Hnz Hr. destruct (freach_inv _ _ _ _ Hnz Hr) as [HL HC].
    split; [|split; [|split]].
    - intros t1 t2 k1 k2 i1 i2 b1 b2 H1 H2.
      apply (FC_resp _ _ HC) in H1, H2. eapply pub_at_inj; eauto.
    - intros t k i b H1. apply (FC_resp _ _ HC) in H1. eapply pub_at_fetch; eauto.
    - intros Hrf t k i b H1. apply (FC_resp _ _ HC) in H1.
      destruct (pub_at_fetch _ _ _ _ HC H1) as [_ Hlo]. unfold lo in Hlo. rewrite Hrf in Hlo. lia.
    - intros t i k H1. apply (FC_resp _ _ HC) in H1. cbn in H1.
      destruct H1 as [H1|H1]; [discriminate|]. eapply pub_at_fetch; eauto.
  Qed.

  (** * The iterator *)

  Lemma W64_facts : NONE = W64 - 1 /\ END = W64 - 2 /\ 4 < W64.
  Proof. repeat split. Qed.

  Lemma succ_mod_small s : s < NONE -> (s + 1) mod W64 = s + 1.
  Proof. intros H. destruct W64_facts as (A & B & C). apply N.mod_small. lia. Qed.

  Lemma succ_mod_none : (NONE + 1) mod W64 = 0.
  Proof.
    destruct W64_facts as (A & B & C). replace (NONE + 1) with W64 by lia.
    apply N.mod_same. lia.
  Qed.

  Definition gt_slot (s v : N) : Prop := s = NONE \/ s < v.
  Definition nxt (s : N) : N := if s =? NONE then 0 else s + 1.
  Definition resb (st : fstate) (i : N) : bool := existsb (fun h => hval h =? i) (fhandles st).
  (** Index [i] (below NextSlot) is not the reserved slot of any lane and not the nil index. *)
  Definition asg (st : fstate) (i : N) : bool := (lo <=? i) && negb (resb st i).

  Record IterPre (st : fstate) : Prop := {
    ip_end : fnext st < END;
    ip_lo : lo <= fnext st;
    ip_res : forall h, In h (fhandles st) -> hval h = NONE \/ lo <= hval h < fnext st }.

  Definition Bnd (st : fstate) (s v : N) (h : option nat) : Prop :=
    gt_slot s v /\ v <= fnext st
    /\ (forall i, gt_slot s i -> i < v -> resb st i = false)
    /\ ((h = None /\ v = fnext st)
        \/ (exists j, h = Some j /\ hval (nth j (fhandles st) dhandle) = v /\ v < fnext st)).

  Definition fn_step (slot : N) (acc : N * option nat * nat) (hd : handle) : N * option nat * nat :=
    let '(nmus, nmuh, i) := acc in
    let v := hval hd in
    if ((slot =? NONE) || (slot <? v)) && (v <? nmus) then (v, Some i, S i) else (nmus, nmuh, S i).

  Definition FI (slot : N) (pre : list handle) (acc : N * option nat * nat) : Prop :=
    let '(nmus, nmuh, idx) := acc in
    idx = length pre /\ nmus <= END
    /\ (forall h, In h pre -> gt_slot slot (hval h) -> hval h < END -> nmus <= hval h)
    /\ (nmus = END \/ exists j, nmuh = Some j /\ (j < length pre)%nat
                                /\ hval (nth j pre dhandle) = nmus /\ gt_slot slot nmus /\ nmus < END).

  Lemma gt_slot_b slot v : ((slot =? NONE) || (slot <? v)) = true <-> gt_slot slot v.
  Proof. unfold gt_slot. split; intros H; lia. Qed.

  Lemma fn_fold slot suf : forall pre acc,
    FI slot pre acc -> FI slot (pre ++ suf) (fold_left (fn_step slot) suf acc).
  Proof.
    induction suf as [|a suf IH]; intros pre acc HI; simpl.
    - rewrite app_nil_r. auto.
    - replace (pre ++ a :: suf) with ((pre ++ [a]) ++ suf) by (rewrite <- app_assoc; reflexivity).
      apply IH. destruct acc as [[nmus nmuh] idx]. destruct HI as (H1 & H2 & H3 & H4).
      unfold fn_step.
      destruct (((slot =? NONE) || (slot <? hval a)) && (hval a <? nmus)) eqn:E.
      + apply andb_true_iff in E as [E1 E2]. apply gt_slot_b in E1.
        unfold FI. rewrite app_length. simpl. split; [lia|]. split; [lia|]. split.
        * intros h Hh Hg Hl. apply in_app_or in Hh as [Hh|[<-|[]]]; [|lia].
          specialize (H3 h Hh Hg Hl). lia.
        * right. exists idx. subst idx. split; auto. split; [lia|].
          rewrite app_nth2 by lia. rewrite Nat.sub_diag. simpl. split; auto. split; auto. lia.
      + unfold FI. rewrite app_length. simpl. split; [lia|]. split; [lia|]. split.
        * intros h Hh Hg Hl. apply in_app_or in Hh as [Hh|[<-|[]]]; [auto|].
          apply gt_slot_b in Hg. rewrite Hg in E. simpl in E. lia.
        * destruct H4 as [H4|(j & J1 & J2 & J3 & J4)]; [left; auto|].
          right. exists j. split; auto. split; [lia|]. rewrite app_nth1 by auto. auto.
  Qed.

  Lemma resb_true st i : resb st i = true -> exists h, In h (fhandles st) /\ hval h = i.
  Proof.
    unfold resb. intros H. apply existsb_exists in H as (h & H1 & H2). exists h. split; auto. lia.
  Qed.

  Lemma find_next_spec st slot : IterPre st -> (slot = NONE \/ slot < fnext st) ->
    let (v, h) := find_next st slot in Bnd st slot v h.
  Proof.
    intros HP Hs. destruct HP as [p1 p2 p3]. destruct W64_facts as (A & B & C).
    unfold find_next.
    change (fold_left _ (fhandles st) (END, None, O))
      with (fold_left (fn_step slot) (fhandles st) (END, None, O)).
    pose proof (fn_fold slot (fhandles st) [] (END, None, O)) as HF. simpl in HF.
    specialize (HF ltac:(repeat split; auto; [lia | intros h []])).
    destruct (fold_left (fn_step slot) (fhandles st) (END, None, O)) as [[nmus nmuh] idx].
    destruct HF as (H1 & H2 & H3 & H4).
    destruct (nmus =? END) eqn:E.
    - assert (nmus = END) by lia. subst nmus. unfold Bnd. split; [unfold gt_slot; lia|].
      split; [lia|]. split; [|left; auto].
      intros i Hg Hi. destruct (resb st i) eqn:Er; auto. exfalso.
      apply resb_true in Er as (h & Hh & Hv). subst i. specialize (H3 h Hh Hg ltac:(lia)). lia.
    - destruct H4 as [H4|(j & J1 & J2 & J3 & J4 & J5)]; [lia|].
      assert (Hin : In (nth j (fhandles st) dhandle) (fhandles st)) by (apply nth_In; auto).
      destruct (p3 _ Hin) as [Hn|Hn]; [lia|].
      unfold Bnd. split; auto. split; [lia|]. split.
      + intros i Hg Hi. destruct (resb st i) eqn:Er; auto. exfalso.
        apply resb_true in Er as (h & Hh & Hv). subst i. specialize (H3 h Hh Hg ltac:(lia)). lia.
      + right. exists j. repeat split; auto. lia.
  Qed.

  Lemma nxt_mod st s : IterPre st -> (s = NONE \/ s < fnext st) -> (s + 1) mod W64 = nxt s.
  Proof.
    intros HP Hs. destruct HP as [p1 p2 p3]. destruct W64_facts as (A & B & C). unfold nxt.
    destruct (s =? NONE) eqn:E.
    - assert (s = NONE) by lia. subst. apply succ_mod_none.
    - apply succ_mod_small. lia.
  Qed.

  Lemma Bnd_next st s v h : IterPre st -> (s = NONE \/ s < fnext st) ->
    Bnd st s v h -> nxt s < v -> Bnd st (nxt s) v h.
  Proof.
    intros HP Hs (B1 & B2 & B3 & B4) Hlt. destruct W64_facts as (A & B & C).
    destruct HP as [p1 p2 p3].
    unfold Bnd. split; [right; auto|]. split; auto. split; auto.
    intros i Hg Hi. apply B3; auto. unfold gt_slot, nxt in *.
    destruct (s =? NONE) eqn:E; [left; lia|]. destruct Hg as [Hg|Hg]; [lia|]. right. lia.
  Qed.

  Lemma move_next_spec st fuel : forall s v h,
    IterPre st -> (s = NONE \/ s < fnext st) -> Bnd st s v h ->
    (N.to_nat (fnext st) - N.to_nat (nxt s) + 1 <= fuel)%nat ->
    let '(r, v', h') := move_next rf st fuel s v h in
    (r = END /\ forall i, nxt s <= i < fnext st -> asg st i = false)
    \/ (r < fnext st /\ nxt s <= r /\ asg st r = true
        /\ (forall i, nxt s <= i < r -> asg st i = false) /\ Bnd st r v' h').
  Proof.
    induction fuel as [|f IH]; intros s v h HP Hs HB Hf; [lia|].
    pose proof HP as [p1 p2 p3]. destruct W64_facts as (A & B & C).
    pose proof HB as (B1 & B2 & B3 & B4).
    cbn [move_next]. replace (s =? END) with false by lia.
    rewrite (nxt_mod st s HP Hs). set (s1 := nxt s) in *.
    assert (Hs1 : s1 <= fnext st).
    { unfold s1, nxt. destruct (s =? NONE) eqn:E; lia. }
    assert (Hgs1 : gt_slot s s1).
    { unfold gt_slot, s1, nxt. destruct (s =? NONE) eqn:E; lia. }
    destruct (s1 <? v) eqn:E1.
    - assert (Hr : resb st s1 = false) by (apply B3; auto; lia).
      destruct ((s1 =? 0) && rf) eqn:E2.
      + (* the reserved nil slot is skipped *)
        apply andb_true_iff in E2 as [E2 E3].
        assert (Hb' : Bnd st s1 v h) by (apply Bnd_next; auto; lia).
        assert (Ha : asg st s1 = false).
        { unfold asg, lo. rewrite E3. replace (1 <=? s1) with false by lia. reflexivity. }
        assert (Hn1 : nxt s1 = s1 + 1) by (unfold nxt; replace (s1 =? NONE) with false by lia; auto).
        specialize (IH s1 v h HP ltac:(right; lia) Hb' ltac:(lia)).
        destruct (move_next rf st f s1 v h) as [[r v'] h'].
        destruct IH as [(I1 & I2)|(I1 & I2 & I3 & I4 & I5)].
        * left. split; auto. intros i Hi. destruct (N.eq_dec i s1) as [->|Hne]; auto.
          apply I2. lia.
        * right. split; [lia|]. split; [lia|]. split; [auto|]. split; [|auto]. intros i Hi.
          destruct (N.eq_dec i s1) as [->|Hne]; auto. apply I4. lia.
      + right. split; [lia|]. split; [lia|]. split; [|split].
        * unfold asg. rewrite Hr. unfold lo. destruct rf; simpl in *; lia.
        * intros i Hi. lia.
        * apply Bnd_next; auto. lia.
    - assert (Hv : v = s1).
      { unfold gt_slot, s1, nxt in *. destruct (s =? NONE) eqn:E; lia. }
      subst v. destruct B4 as [[-> B4]|(j & -> & J1 & J2)].
      + left. split; auto. intros i Hi. lia.
      + rewrite J1. replace (s1 <? s1) with false by lia.
        assert (Ha : asg st s1 = false).
        { unfold asg. replace (resb st s1) with true; [apply andb_false_r|].
          symmetry. unfold resb. apply existsb_exists. exists (nth j (fhandles st) dhandle).
          split; [|lia]. apply nth_In.
          destruct (Nat.lt_ge_cases j (length (fhandles st))); auto.
          rewrite nth_overflow in J1 by auto. cbn in J1. lia. }
        pose proof (find_next_spec st s1 HP ltac:(right; lia)) as Hfn.
        destruct (find_next st s1) as [v' h'].
        assert (Hn1 : nxt s1 = s1 + 1) by (unfold nxt; replace (s1 =? NONE) with false by lia; auto).
        specialize (IH s1 v' h' HP ltac:(right; lia) Hfn ltac:(lia)).
        destruct (move_next rf st f s1 v' h') as [[r v''] h''].
        destruct IH as [(I1 & I2)|(I1 & I2 & I3 & I4 & I5)].
        * left. split; auto. intros i Hi. destruct (N.eq_dec i s1) as [->|Hne]; auto.
          apply I2. lia.
        * right. split; [lia|]. split; [lia|]. split; [auto|]. split; [|auto]. intros i Hi.
          destruct (N.eq_dec i s1) as [->|Hne]; auto. apply I4. lia.
  Qed.

  Definition rangeN (a n : N) : list N :=
    map N.of_nat (seq (N.to_nat a) (N.to_nat n - N.to_nat a)).

  Lemma rangeN_cons a n : a < n -> rangeN a n = a :: rangeN (a + 1) n.
  Proof.
    intros H. unfold rangeN.
    replace (N.to_nat n - N.to_nat a)%nat with (S (N.to_nat n - N.to_nat (a + 1))) by lia.
    cbn [seq map]. rewrite N2Nat.id. f_equal. f_equal. f_equal. lia.
  Qed.

  Lemma rangeN_nil a n : n <= a -> rangeN a n = [].
  Proof.
    intros H. unfold rangeN. replace (N.to_nat n - N.to_nat a)%nat with O by lia. reflexivity.
  Qed.

  Lemma in_rangeN a n i : In i (rangeN a n) <-> a <= i < n.
  Proof.
    unfold rangeN. rewrite in_map_iff. split.
    - intros (x & <- & Hx). apply in_seq in Hx. lia.
    - intros H. exists (N.to_nat i). split; [apply N2Nat.id|]. apply in_seq. lia.
  Qed.

  Lemma NoDup_map_seq len : forall st0, NoDup (map N.of_nat (seq st0 len)).
  Proof.
    induction len as [|len IH]; intros st0; simpl; constructor.
    - rewrite in_map_iff. intros (x & Hx & Hi). apply in_seq in Hi. lia.
    - apply IH.
  Qed.

  Lemma NoDup_rangeN a n : NoDup (rangeN a n).
  Proof. apply NoDup_map_seq. Qed.

  Lemma filter_none (f : N -> bool) n : forall k a, (N.to_nat n - N.to_nat a <= k)%nat ->
    (forall i, a <= i < n -> f i = false) -> filter f (rangeN a n) = [].
  Proof.
    induction k as [|k IH]; intros a Hk Hf.
    - rewrite rangeN_nil by lia. reflexivity.
    - destruct (N.lt_ge_cases a n) as [Hl|Hl]; [|rewrite rangeN_nil by lia; reflexivity].
      rewrite rangeN_cons by auto. simpl. rewrite Hf by lia. apply IH; [lia|].
      intros i Hi. apply Hf. lia.
  Qed.

  Lemma filter_skip (f : N -> bool) n r : forall k a, (N.to_nat r - N.to_nat a <= k)%nat ->
    a <= r -> r < n -> (forall i, a <= i < r -> f i = false) -> f r = true ->
    filter f (rangeN a n) = r :: filter f (rangeN (r + 1) n).
  Proof.
    induction k as [|k IH]; intros a Hk Har Hrn Hf Hr.
    - assert (a = r) by lia. subst a. rewrite rangeN_cons by auto. simpl. rewrite Hr. reflexivity.
    - destruct (N.eq_dec a r) as [->|Hne].
      + rewrite rangeN_cons by auto. simpl. rewrite Hr. reflexivity.
      + rewrite rangeN_cons by lia. simpl. rewrite Hf by lia. apply IH; auto; try lia.
        intros i Hi. apply Hf. lia.
  Qed.

  Lemma iter_loop_end st fuel fuel2 v h : iter_loop rf st fuel fuel2 END v h = [].
  Proof. destruct fuel; simpl; auto. Qed.

  Lemma iter_loop_spec st fuel2 : IterPre st -> (N.to_nat (fnext st) + 2 <= fuel2)%nat ->
    forall fuel r v h, r < fnext st -> Bnd st r v h ->
      (N.to_nat (fnext st) - N.to_nat r <= fuel)%nat ->
      iter_loop rf st fuel fuel2 r v h = r :: filter (asg st) (rangeN (r + 1) (fnext st)).
  Proof.
    intros HP Hf2. pose proof HP as [p1 p2 p3]. destruct W64_facts as (A & B & C).
    induction fuel as [|f IH]; intros r v h Hr HB Hf; [lia|].
    cbn [iter_loop]. replace (r =? END) with false by lia. f_equal.
    assert (Hn : nxt r = r + 1) by (unfold nxt; replace (r =? NONE) with false by lia; auto).
    pose proof (move_next_spec st fuel2 r v h HP ltac:(right; auto) HB ltac:(lia)) as Hm.
    destruct (move_next rf st fuel2 r v h) as [[r' v'] h'].
    rewrite Hn in Hm. destruct Hm as [(M1 & M2)|(M1 & M2 & M3 & M4 & M5)].
    - subst r'. rewrite iter_loop_end. symmetry.
      apply (filter_none _ _ (N.to_nat (fnext st))); auto. lia.
    - rewrite (IH r' v' h') by (auto; lia). symmetry.
      apply (filter_skip _ _ _ (N.to_nat r')); auto. lia.
  Qed.

  Theorem iterate_spec st : IterPre st ->
    iterate rf st = filter (asg st) (rangeN 0 (fnext st)).
  Proof.
    intros HP. pose proof HP as [p1 p2 p3]. destruct W64_facts as (A & B & C).
    unfold iterate.
    pose proof (find_next_spec st NONE HP ltac:(left; auto)) as Hfn.
    destruct (find_next st NONE) as [a b].
    assert (Hn : nxt NONE = 0) by (unfold nxt; rewrite N.eqb_refl; auto).
    set (F := (N.to_nat (fnext st) + length (fhandles st) + 3)%nat).
    pose proof (move_next_spec st F NONE a b HP ltac:(left; auto) Hfn ltac:(lia)) as Hm.
    destruct (move_next rf st F NONE a b) as [[r v'] h'].
    rewrite Hn in Hm. destruct Hm as [(M1 & M2)|(M1 & M2 & M3 & M4 & M5)].
    - subst r. rewrite iter_loop_end. symmetry.
      apply (filter_none _ _ (N.to_nat (fnext st))); auto. lia.
    - rewrite (iter_loop_spec st F HP ltac:(lia) F r v' h') by (auto; lia). symmetry.
      apply (filter_skip _ _ _ (N.to_nat r)); auto. lia.
  Qed.

  Lemma MemOK_IterPre st h : FInvC st h -> fnext st < END -> IterPre st.
  Proof.
    intros HC He. destruct (FC_mem _ _ HC) as [m1 m2 m3 m4 m5 m6 m7 m8 m9 m10 m11].
    constructor; auto.
    intros hd Hin. apply (In_nth _ _ dhandle) in Hin as (t & Ht & <-).
    rewrite m3 in Ht. pose proof (m8 t Ht) as Hok. unfold handle_ok, hval in *.
    destruct (nth t (fhandles st) dhandle) as [[s|] [nd|]]; cbn [hslot]; auto; try contradiction.
    right. tauto.
  Qed.

  Lemma asg_assigned st h i : FInvC st h -> fnext st < END ->
    (i < fnext st /\ asg st i = true) <-> assigned st i.
  Proof.
    intros HC He. destruct (FC_mem _ _ HC) as [m1 m2 m3 m4 m5 m6 m7 m8 m9 m10 m11].
    destruct W64_facts as (A & B & C). unfold asg. split.
    - intros [Hi Ha]. apply andb_true_iff in Ha as [Ha1 Ha2]. apply negb_true_iff in Ha2.
      destruct (m11 i ltac:(lia)) as [Hc|(t & Ht & Hs)]; [exact Hc|]. exfalso.
      assert (resb st i = true); [|congruence].
      unfold resb. apply existsb_exists. exists (nth t (fhandles st) dhandle). split.
      + apply nth_In. lia.
      + unfold hval. rewrite Hs. lia.
    - intros (nd & Hnd & Hv). destruct (m6 nd Hnd) as (a & b & c & d & e). rewrite Hv in *.
      split; [lia|]. apply andb_true_iff. split; [lia|]. apply negb_true_iff.
      destruct (resb st i) eqn:Er; auto. exfalso.
      apply resb_true in Er as (hd & Hin & Hh).
      apply (In_nth _ _ dhandle) in Hin as (t & Ht & <-). rewrite m3 in Ht.
      assert (Hs : hslot (nth t (fhandles st) dhandle) = Some i).
      { unfold hval in Hh. destruct (hslot (nth t (fhandles st) dhandle)); [congruence|lia]. }
      destruct (handle_some _ _ _ _ _ (m8 t Ht) Hs) as (nd' & _ & _ & _ & _ & _ & _ & Hu).
      apply (Hu nd Hnd). auto.
  Qed.

  Lemma NoDup_map_on {A B} (f : A -> B) l :
    NoDup l -> (forall x y, In x l -> In y l -> f x = f y -> x = y) -> NoDup (map f l).
  Proof.
    induction l as [|a l IH]; simpl; intros Hn Hinj; constructor.
    - inversion Hn; subst. intros Hi. apply in_map_iff in Hi as (y & Hy & Hyl).
      assert (y = a) by (apply Hinj; auto). subst. auto.
    - inversion Hn; subst. apply IH; auto.
  Qed.

  (** [iter_lists_each_once]: in a quiescent reachable state (whatever growth happened before),
      the iterator yields every assigned index exactly once, in increasing order, skipping the
      lanes' reserved-but-unused slots and the nil index; the keys it shows are pairwise distinct
      and include every key that was ever returned by a findOrInsert. *)
  Theorem iter_lists_each_once cap0 progs st h : cap0 <> 0 -> freach cap0 progs st h ->
    fnext st < END -> fquiescent st = true ->
    iterate rf st = filter (asg st) (rangeN 0 (fnext st))
    /\ NoDup (iterate rf st)
    /\ (forall i, In i (iterate rf st) <-> assigned st i)
    /\ NoDup (map (fetch_now st) (iterate rf st))
    /\ (forall t k i b, In (t, RIns k i b) h -> In i (iterate rf st) /\ fetch_now st i = Some k).
  Proof.
    intros Hnz Hr He _. destruct (freach_inv _ _ _ _ Hnz Hr) as [HL HC].
    pose proof (MemOK_IterPre _ _ HC He) as HP.
    pose proof (iterate_spec st HP) as Hit.
    assert (Hin : forall i, In i (iterate rf st) <-> assigned st i).
    { intros i. rewrite Hit, filter_In, in_rangeN. rewrite <- (asg_assigned st h i HC He).
      split; intros [H1 H2]; split; auto; lia. }
    split; [exact Hit|]. split; [|split; [exact Hin|split]].
    - rewrite Hit. apply NoDup_filter. apply NoDup_rangeN.
    - apply NoDup_map_on.
      + rewrite Hit. apply NoDup_filter. apply NoDup_rangeN.
      + intros x y Hx Hy Hf. apply Hin in Hx, Hy.
        destruct Hx as (n1 & A1 & B1). destruct Hy as (n2 & A2 & B2).
        destruct (M_pub _ _ _ _ _ _ _ (FC_mem _ _ HC) n1 A1) as (_ & [k1 K1] & _).
        destruct (M_pub _ _ _ _ _ _ _ (FC_mem _ _ HC) n2 A2) as (_ & [k2 K2] & _).
        assert (P1 : pub_at (fnodes st) (fmap st) x (Some k1)) by (exists n1; auto).
        assert (P2 : pub_at (fnodes st) (fmap st) y (Some k2)) by (exists n2; auto).
        destruct (pub_at_fetch _ _ _ _ HC P1) as [F1 _]. destruct (pub_at_fetch _ _ _ _ HC P2) as [F2 _].
        apply (pub_at_inj _ _ _ _ _ _ HC P1 P2). congruence.
    - intros t k i b Hi. apply (FC_resp _ _ HC) in Hi. cbn in Hi. split.
      + apply Hin. destruct Hi as (nd & A1 & B1 & C1). exists nd. auto.
      + eapply pub_at_fetch; eauto.
  Qed.

  (** Growth of the slot array: all other threads are outside their lanes, and the step keeps
      what every index decodes to. *)
  Theorem fgrow_preserves cap0 progs st h g : cap0 <> 0 -> freach cap0 progs st h ->
    (g < length (fthreads st))%nat -> fpcof st g = FGrow ->
    (forall t, (t < length (fthreads st))%nat -> t <> g -> foutside (fpcof st t))
    /\ exists st', fstep st g = Some (st', [])
         /\ fcount st < fcount st'
         /\ (forall i, i < fcount st -> fetch_now st' i = fetch_now st i)
         /\ fmap st' = fmap st.
  Proof.
    intros Hnz Hr Hg Hp. destruct (freach_inv _ _ _ _ Hnz Hr) as [HL HC].
    split; [intros t Ht Hne; apply (fgrow_exclusive st g HL Hg Hp t Ht Hne)|].
    pose proof (FC_local _ _ HC g Hg) as Hl. unfold fpcof, fpcs in Hp.
    destruct (nth g (fthreads st) dfthread) as [td p] eqn:Hth. cbn [ftpc] in Hp. subst p.
    unfold FLocal in Hl. cbn [ftpc ftodo] in Hl. destruct Hl as [_ [k Hk]].
    destruct td as [|o rest]; [discriminate|]. cbn in Hk. inversion Hk; subst o.
    assert (Hnth : nth_error (fthreads st) g = Some (mkFThread (OIns k :: rest) FGrow)).
    { rewrite <- Hth. apply List.nth_error_nth'. auto. }
    pose proof (dbl_ge dbl_fuel (2 * fcount st) (fnext st)) as Hge.
    pose proof (M_cnt _ _ _ _ _ _ _ (FC_mem _ _ HC)) as Hc0.
    pose proof (M_len _ _ _ _ _ _ _ (FC_mem _ _ HC)) as Hlen.
    eexists. split; [unfold fstep; rewrite Hnth; reflexivity|].
    unfold fset_thr. cbn [fslots fnodes fmap fnext fcount fhandles flanes fbla fthreads].
    split; [lia|]. split; [|reflexivity].
    intros i Hi. unfold fetch_now. cbn [fslots fnodes fcount].
    replace (i <? fcount st) with true by lia.
    replace (i <? dbl dbl_fuel (2 * fcount st) (fnext st)) with true by lia.
    rewrite app_nth1 by lia. reflexivity.
  Qed.

  (** ** The same statements for [frun], i.e. for every schedule *)

  Theorem frun_bijection cap0 progs sched : cap0 <> 0 ->
    let st := fst (frun rf cap0 progs sched) in
    let h := snd (frun rf cap0 progs sched) in
    (forall t1 t2 k1 k2 i1 i2 b1 b2,
        In (t1, RIns k1 i1 b1) h -> In (t2, RIns k2 i2 b2) h -> (k1 = k2 <-> i1 = i2))
    /\ (forall t k i b, In (t, RIns k i b) h -> fetch_now st i = Some k)
    /\ (rf = true -> forall t k i b, In (t, RIns k i b) h -> i <> 0)
    /\ (forall t i k, In (t, RFetch i (Some k)) h -> fetch_now st i = Some k).
  Proof.
    intros Hnz. destruct (frun rf cap0 progs sched) as [s out] eqn:E.
    apply frun_reach in E. cbn [fst snd]. eapply flyweight_bijection; eauto.
  Qed.

  Theorem frun_iter_lists_each_once cap0 progs sched : cap0 <> 0 ->
    let st := fst (frun rf cap0 progs sched) in
    let h := snd (frun rf cap0 progs sched) in
    fnext st < END -> fquiescent st = true ->
    iterate rf st = filter (asg st) (rangeN 0 (fnext st))
    /\ NoDup (iterate rf st)
    /\ (forall i, In i (iterate rf st) <-> assigned st i)
    /\ NoDup (map (fetch_now st) (iterate rf st))
    /\ (forall t k i b, In (t, RIns k i b) h -> In i (iterate rf st) /\ fetch_now st i = Some k).
  Proof.
    intros Hnz. destruct (frun rf cap0 progs sched) as [s out] eqn:E.
    apply frun_reach in E. cbn [fst snd]. eapply iter_lists_each_once; eauto.
  Qed.

  Theorem frun_grow_preserves cap0 progs sched g : cap0 <> 0 ->
    let st := fst (frun rf cap0 progs sched) in
    (g < length (fthreads st))%nat -> fpcof st g = FGrow ->
    (forall t, (t < length (fthreads st))%nat -> t <> g -> foutside (fpcof st t))
    /\ exists st', fstep st g = Some (st', [])
         /\ fcount st < fcount st'
         /\ (forall i, i < fcount st -> fetch_now st' i = fetch_now st i)
         /\ fmap st' = fmap st.
  Proof.
    intros Hnz. destruct (frun rf cap0 progs sched) as [s out] eqn:E.
    apply frun_reach in E. cbn [fst]. eapply fgrow_preserves; eauto.
  Qed.

  (** ** Soundness of the exhaustive exploration *)

  Lemma fdedup_in l c : In c l -> In c (fdedup l).
  Proof.
    induction l as [|a l IH]; simpl; intros Hc; [contradiction|].
    unfold finsert_new. destruct (existsb _ (fdedup l)) eqn:E.
    - destruct Hc as [<-|Hc]; auto.
      apply existsb_exists in E as (c' & Hc' & Hd). destruct (fconfig_eq_dec a c'); [subst; auto|discriminate].
    - destruct Hc as [<-|Hc]; [left; auto | right; auto].
  Qed.

  Lemma fsuccs_in st rs t st' out : fstep st t = Some (st', out) ->
    In (st', rs ++ map (pair t) out) (fsuccs (st, rs)).
  Proof.
    intros Hs. unfold fsuccs. apply in_flat_map. exists t. split.
    - apply in_seq. unfold fstep in Hs.
      destruct (nth_error (fthreads st) t) eqn:E; [|discriminate].
      assert (t < length (fthreads st))%nat by (apply nth_error_Some; congruence). lia.
    - rewrite Hs. left. reflexivity.
  Qed.

  Lemma fexplore_sound sched : forall fuel layer st rs s out stp,
    fexplore rf fuel layer = true -> In (st, rs) layer ->
    fexec st sched = (s, out, stp) ->
    fmon rf s (rs ++ out) = true /\ fstuck (s, rs ++ out) = false.
  Proof.
    induction sched as [|t r IH]; intros fuel layer st rs s out stp He Hin Hx.
    - simpl in Hx. inversion Hx; subst. rewrite app_nil_r.
      destruct fuel; simpl in He; apply andb_true_iff in He as [He _];
        rewrite forallb_forall in He; specialize (He _ Hin); cbn [fst snd] in He;
        apply andb_true_iff in He as [H1 H2]; apply negb_true_iff in H2; auto.
    - simpl in Hx. destruct (fstep st t) as [[st' rs']|] eqn:Es; [|eapply IH; eauto].
      destruct (fexec st' r) as [[s1 out1] stp1] eqn:Ee. inversion Hx; subst.
      assert (He' : exists f, fuel = S f /\ fexplore rf f (fnext_layer layer) = true).
      { destruct layer; [destruct Hin|]. destruct fuel; simpl in He; apply andb_true_iff in He as [_ He];
          [discriminate | eauto]. }
      destruct He' as (f & -> & He'). rewrite app_assoc.
      eapply IH; [exact He' | | exact Ee].
      unfold fnext_layer. apply fdedup_in. apply in_flat_map. exists (st, rs). split; auto.
      apply fsuccs_in. auto.
  Qed.

  Lemma fexplore_run progs cap0 fuel :
    fexplore rf fuel [(finit rf cap0 progs, [])] = true ->
    forall sched,
      let '(st, rs) := frun rf cap0 progs sched in
      fmon rf st rs = true /\ fstuck (st, rs) = false.
  Proof.
    intros He sched. unfold frun.
    destruct (fexec (finit rf cap0 progs) sched) as [[s out] stp] eqn:E.
    cbn [fst]. change out with ([] ++ out).
    eapply fexplore_sound; eauto. left. reflexivity.
  Qed.
End FProofs.

(** * Bounded exhaustive checks (every interleaving) and examples *)
Local Open Scope N_scope.

(** Record-table style (reserve-first), capacity 2: two lanes, each packs two records (one in
    common) and unpacks one reference; the second reservation on each lane needs a growth, so
    both lanes contend for it. Monitor: key/index bijection over all responses, decode after
    encode, nil never handed out, fetch never wrong, and at quiescence the iterator lists exactly
    the assigned indices once. Every schedule. *)
Theorem fexhaustive_2x3_reserve_first : forall sched,
  let '(st, rs) := frun true 2 [[OIns 5; OIns 9; OFetch 1]; [OIns 5; OIns 13; OFetch 2]] sched in
  fmon true st rs = true /\ fstuck (st, rs) = false.
Proof. apply (fexplore_run true _ _ 200%nat). vm_compute. reflexivity. Qed.

(** Symbol-table style (not reserve-first), capacity 1, the two lanes insert the same two keys in
    opposite orders (every insertion races with an equal key; two growths). *)
Theorem fexhaustive_2x2_symbols : forall sched,
  let '(st, rs) := frun false 1 [[OIns 5; OIns 9]; [OIns 9; OIns 5]] sched in
  fmon false st rs = true /\ fstuck (st, rs) = false.
Proof. apply (fexplore_run false _ _ 200%nat). vm_compute. reflexivity. Qed.

(** Three lanes (lockAllBut over two other lanes), capacity 1, reserve-first. *)
Theorem fexhaustive_3x1_growth : forall sched,
  let '(st, rs) := frun true 1 [[OIns 5]; [OIns 9]; [OIns 5]] sched in
  fmon true st rs = true /\ fstuck (st, rs) = false.
Proof. apply (fexplore_run true _ _ 200%nat). vm_compute. reflexivity. Qed.

Fixpoint round_robin (n : nat) : list nat :=
  match n with O => [] | S k => [0; 1]%nat ++ round_robin k end.

(** The hypotheses of the general theorems hold for a concrete run with growth: capacity 2 <> 0,
    the run is quiescent at the end and NextSlot is far below END. Lane 1 loses the race for
    key 5, keeps its reserved slot 2 and uses it for key 13; the iterator lists 1, 2, 3. *)
Example flyweight_instance :
  let r := frun true 2 [[OIns 5; OIns 9; OFetch 1]; [OIns 5; OIns 13; OFetch 2]] (round_robin 60) in
  2 <> 0 /\ fquiescent (fst r) = true /\ fnext (fst r) = 4 /\ fnext (fst r) < END
  /\ fcount (fst r) = 4
  /\ snd r = [(0%nat, RIns 5 1 true); (1%nat, RIns 5 1 false); (0%nat, RIns 9 3 true);
              (0%nat, RFetch 1 (Some 5)); (1%nat, RIns 13 2 true); (1%nat, RFetch 2 (Some 13))]
  /\ iterate true (fst r) = [1; 2; 3]
  /\ map (fetch_now (fst r)) (iterate true (fst r)) = [Some 5; Some 13; Some 9].
Proof. vm_compute. repeat split; try reflexivity. discriminate. Qed.

(** A quiescent state in which a lane still holds a reserved, unused slot (lane 1 lost the race
    for key 5 and keeps slot 2, which is below NextSlot = 3): the iterator skips it and the nil
    slot 0. *)
Example iterator_skips_reserved_slot :
  let r := frun true 4 [[OIns 5]; [OIns 5]] [0; 1; 0; 1; 0; 1; 0; 1; 0; 1; 1; 1; 0; 0; 1; 1]%nat in
  fquiescent (fst r) = true
  /\ snd r = [(1%nat, RIns 5 1 false); (0%nat, RIns 5 1 true)]
  /\ map hslot (fhandles (fst r)) = [None; Some 2] /\ fnext (fst r) = 3
  /\ iterate true (fst r) = [1].
Proof. vm_compute. repeat split; reflexivity. Qed.

(** A state where lane 0 is in the safe section of tryGrow ([fgrow_preserves] applies). *)
Example reaches_fgrow :
  let st := fst (frun false 1 [[OIns 5; OIns 9]; [OIns 13]] [0; 0; 0; 0; 0; 0; 0; 0; 0; 0; 0; 0]%nat) in
  (0 < length (fthreads st))%nat /\ fpcof st 0%nat = FGrow /\ flanes st = [Some 0%nat; Some 0%nat]
  /\ fstep st 1%nat = None.
Proof. vm_compute. repeat split; auto. Qed.

(* NOT PROVED (flyweight):
   - [Mapping.get] is one atomic step of the flyweight model; that the concrete hash map may be
     used in its place is argued (comment at the top of FlyweightDefs.v) from
     [get_unique_node], not proved as a refinement between the two models.
   - The iterator is modelled and proved only as run in a quiescent state (a pure function of the
     state); an iterator running concurrently with insertions is not modelled.
   - "exactly one findOrInsert per key reports inserted = true" is not stated for the flyweight
     (it is for the hash map).
   - Deadlock freedom only in the bounded explorations ([fstuck = false]).
   - Initial capacity 0 is excluded by hypothesis ([cap0 <> 0]); with capacity 0 the doubling
     loop of [tryGrow] never terminates in the C++ (0 << 1 = 0), see the comment at [dbl]. *)
