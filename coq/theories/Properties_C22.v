(** C22 -- Auto-increment values are unique within a run. Statements only. *)
From SV Require Import CounterDefs CounterLemmas.
Local Open Scope Z_scope.

Theorem C22_fetch_add_unique : forall c sched,
  0 <= c -> c + Z.of_nat (length sched) < 2 ^ 31 -> NoDup (values c sched).
Proof. exact fetch_add_unique. Qed.
Print Assumptions C22_fetch_add_unique.

Theorem C22_values_schedule_independent : forall c s1 s2,
  0 <= c -> c + Z.of_nat (length s1) < 2 ^ 31 -> length s1 = length s2 -> values c s1 = values c s2.
Proof. exact values_schedule_independent. Qed.
Print Assumptions C22_values_schedule_independent.
