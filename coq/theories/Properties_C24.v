(** C24 -- Every arithmetic, bitwise, logical, comparison, conversion and string operation gives, for
    every argument value in its defined domain, the documented C-like result: wrap-around unsigned
    arithmetic, truncating division, masked shifts, IEEE single-precision floats, byte-based strings.
    Only statements here; proofs are in Word32Lemmas.v and Float32Lemmas.v.
    A RamDomain bit pattern is represented by its signed reading ([in_s a = true] iff
    -2^31 <= a < 2^31); [u a] is its unsigned reading; an operation returns [None] exactly where the C++
    expression has undefined behaviour (excluded by the property).
    The models (Word32Defs.v, Float32Defs.v, DatalogDefs.range_values) mirror the expressions of
    src/interpreter/Engine.cpp (IntrinsicOperator / Constraint cases) which src/synthesiser/Synthesiser.cpp
    emits verbatim as C++ text; they are tied to both by `./check C24` (extracted model vs. interpreter vs.
    compiled program on the same argument values). *)
From Coq Require Import ZArith List Bool Reals.
From Flocq Require Import Core.
From SV Require Import Bytes NumParseDefs Word32Defs DatalogDefs Word32Lemmas Float32Defs Float32Lemmas.
Import ListNotations.
Local Open Scope Z_scope.

(** Values never leave the 32-bit domain: every defined result of every operation is a 32-bit pattern. *)
Theorem C24_results_are_32_bit : forall a b, in_s a = true -> in_s b = true ->
  (forall r, In (Some r) [sadd a b; ssub a b; smul a b; sdiv a b; smod a b; sneg a;
                          udiv a b; umod a b; sexp a b; uexp a b] -> in_s r = true) /\
  Forall (fun r => in_s r = true)
    [uadd a b; usub a b; umul a b; band a b; bor a b; bxor a b; bnot a; shl a b; shr_s a b; shr_u a b;
     land a b; lor a b; lxor a b; lnot a; smax a b; smin a b; umax a b; umin a b].
Proof. exact closure_family. Qed.
Print Assumptions C24_results_are_32_bit.

(** Reinterpretation: [wrap z] is the unique 32-bit two's-complement value congruent to z modulo 2^32,
    [u z] the unique value in [0, 2^32) congruent to z; they are inverse on the domain. *)
Theorem C24_reinterpretation : forall z,
  (- 2 ^ 31 <= wrap z < 2 ^ 31 /\ (wrap z - z) mod 2 ^ 32 = 0 /\
   forall r, - 2 ^ 31 <= r < 2 ^ 31 -> (r - z) mod 2 ^ 32 = 0 -> r = wrap z) /\
  (0 <= u z < 2 ^ 32 /\ (u z - z) mod 2 ^ 32 = 0) /\
  u (wrap z) = z mod 2 ^ 32 /\
  (- 2 ^ 31 <= z < 2 ^ 31 -> wrap (u z) = z /\ wrap z = z).
Proof. exact wrap_family. Qed.
Print Assumptions C24_reinterpretation.

(** Unsigned +, -, * are arithmetic modulo 2^32 on the unsigned readings; / and % are floor division and
    remainder of the unsigned readings, undefined exactly for a zero divisor. *)
Theorem C24_unsigned_arithmetic_wraps : forall a b,
  u (uadd a b) = (u a + u b) mod 2 ^ 32 /\
  u (usub a b) = (u a - u b) mod 2 ^ 32 /\
  u (umul a b) = (u a * u b) mod 2 ^ 32 /\
  (forall r, udiv a b = Some r <-> (u b <> 0 /\ in_s r = true /\ u r = u a / u b)) /\
  (forall r, umod a b = Some r <-> (u b <> 0 /\ in_s r = true /\ u r = u a mod u b)) /\
  (udiv a b = None <-> u b = 0) /\ (umod a b = None <-> u b = 0).
Proof. exact unsigned_arith_family. Qed.
Print Assumptions C24_unsigned_arithmetic_wraps.

(** Signed +, -, *, unary - give the exact integer result and are defined exactly when it fits; division
    truncates toward zero ([Z.quot]), the remainder has the sign of the dividend ([Z.rem]), both are
    undefined exactly for b = 0 and INT_MIN / -1; whenever the signed operation is defined the unsigned
    one yields the same bit pattern. *)
Theorem C24_signed_arithmetic_exact : forall a b, in_s a = true -> in_s b = true ->
  (forall r, sadd a b = Some r <-> (r = a + b /\ - 2 ^ 31 <= a + b < 2 ^ 31)) /\
  (forall r, ssub a b = Some r <-> (r = a - b /\ - 2 ^ 31 <= a - b < 2 ^ 31)) /\
  (forall r, smul a b = Some r <-> (r = a * b /\ - 2 ^ 31 <= a * b < 2 ^ 31)) /\
  (forall r, sneg a = Some r <-> (r = - a /\ a <> MIN_S)) /\
  (forall r, sdiv a b = Some r <-> (b <> 0 /\ ~ (a = MIN_S /\ b = -1) /\ r = Z.quot a b)) /\
  (forall r, smod a b = Some r <-> (b <> 0 /\ ~ (a = MIN_S /\ b = -1) /\ r = Z.rem a b)) /\
  (forall r, sadd a b = Some r -> uadd a b = r) /\
  (forall r, ssub a b = Some r -> usub a b = r) /\
  (forall r, smul a b = Some r -> umul a b = r).
Proof. exact signed_arith_family. Qed.
Print Assumptions C24_signed_arithmetic_exact.

(** Signed and unsigned division do differ on the same bit patterns. *)
Theorem C24_signed_unsigned_division_differ_refuted :
  exists a b r, in_s a = true /\ in_s b = true /\ sdiv a b = Some r /\ udiv a b <> Some r.
Proof. exact sdiv_udiv_differ_refuted. Qed.
Print Assumptions C24_signed_unsigned_division_differ_refuted.

(** band, bor, bxor, bnot act bit-for-bit on the 32 bits of the pattern. *)
Theorem C24_bitwise_bit_for_bit : forall a b,
  u (band a b) = Z.land (u a) (u b) /\ u (bor a b) = Z.lor (u a) (u b) /\
  u (bxor a b) = Z.lxor (u a) (u b) /\ bnot a = - a - 1 /\ u (bnot a) = 2 ^ 32 - 1 - u a /\
  forall i, 0 <= i < 32 ->
    Z.testbit (u (band a b)) i = Z.testbit (u a) i && Z.testbit (u b) i /\
    Z.testbit (u (bor a b)) i = Z.testbit (u a) i || Z.testbit (u b) i /\
    Z.testbit (u (bxor a b)) i = xorb (Z.testbit (u a) i) (Z.testbit (u b) i) /\
    Z.testbit (u (bnot a)) i = negb (Z.testbit (u a) i).
Proof. exact bitwise_family. Qed.
Print Assumptions C24_bitwise_bit_for_bit.

(** Shifts use the count modulo 32 (mask 31): << multiplies the unsigned reading by 2^k modulo 2^32,
    >> on number is the arithmetic shift (floor division by 2^k), >> on unsigned and >>> the logical one;
    any two counts congruent modulo 32 behave identically (so a count of 33 shifts by 1). *)
Theorem C24_shifts_masked : forall a b,
  let k := u b mod 32 in
  shcount b = k /\
  u (shl a b) = (u a * 2 ^ k) mod 2 ^ 32 /\
  shr_s a b = a / 2 ^ k /\
  u (shr_u a b) = u a / 2 ^ k /\
  (forall b', u b' mod 32 = k -> shl a b' = shl a b /\ shr_s a b' = shr_s a b /\ shr_u a b' = shr_u a b).
Proof. exact shift_family. Qed.
Print Assumptions C24_shifts_masked.

(** land, lor, lnot are C's &&, ||, ! with results 0/1; lxor is EvaluatorUtil.h's
    (x || y) && (!x != !y). *)
Theorem C24_logical_operators : forall a b,
  (land a b = 1 <-> (a <> 0 /\ b <> 0)) /\ (land a b = 0 \/ land a b = 1) /\
  (lor a b = 1 <-> (a <> 0 \/ b <> 0)) /\ (lor a b = 0 \/ lor a b = 1) /\
  (lnot a = 1 <-> a = 0) /\ (lnot a = 0 \/ lnot a = 1) /\
  (lxor a b = 0 \/ lxor a b = 1) /\
  lxor a b = b2z ((truthy a || truthy b) && negb (Bool.eqb (negb (truthy a)) (negb (truthy b)))).
Proof. exact logical_family. Qed.
Print Assumptions C24_logical_operators.

(** min / max: the mathematical maximum / minimum of the signed, resp. unsigned, readings; the unsigned
    ones return one of the two argument patterns. *)
Theorem C24_min_max : forall a b,
  smax a b = Z.max a b /\ smin a b = Z.min a b /\
  u (umax a b) = Z.max (u a) (u b) /\ u (umin a b) = Z.min (u a) (u b) /\
  (umax a b = a \/ umax a b = b) /\ (umin a b = a \/ umin a b = b).
Proof. exact minmax_family. Qed.
Print Assumptions C24_min_max.

(** Comparisons are those of the signed, resp. unsigned, readings; the unsigned order is a strict total
    order on bit patterns and differs from the signed one exactly when the sign bits differ. *)
Theorem C24_comparisons : forall a b, in_s a = true -> in_s b = true ->
  slt a b = (a <? b) /\ sle a b = (a <=? b) /\ ult a b = (u a <? u b) /\ ule a b = (u a <=? u b) /\
  ult a b = xorb (slt a b) (xorb (a <? 0) (b <? 0)) /\
  ult a a = false /\ (ult a b = false -> ult b a = false -> a = b) /\
  (forall c, ult a b = true -> ult b c = true -> ult a c = true).
Proof. exact compare_family. Qed.
Print Assumptions C24_comparisons.

(** Exponentiation (a cast of std::pow): a^b whenever that is an in-range integer, for negative exponents
    the rational 1/a^(-b) truncated toward zero (undefined for base 0); unsigned likewise below 2^32. *)
Theorem C24_exponentiation : forall a b,
  (0 <= b -> forall r, sexp a b = Some r <-> (r = a ^ b /\ - 2 ^ 31 <= a ^ b < 2 ^ 31)) /\
  (b < 0 -> sexp a b = if a =? 0 then None else Some (Z.quot 1 (a ^ (- b)))) /\
  (forall r, uexp a b = Some r <-> (u a ^ u b < 2 ^ 32 /\ in_s r = true /\ u r = u a ^ u b)).
Proof. exact exp_family. Qed.
Print Assumptions C24_exponentiation.

(** String comparison is the lexicographic order on unsigned bytes (first difference decides, otherwise
    the shorter string is smaller) and is a strict total order. *)
Theorem C24_string_order : forall a b c,
  (bytes_ltb a b = true <-> lex_lt a b) /\ bytes_ltb a a = false /\
  (bytes_ltb a b = true -> bytes_ltb b c = true -> bytes_ltb a c = true) /\
  (bytes_ltb a b = false -> bytes_ltb b a = false -> a = b).
Proof. exact string_order_family. Qed.
Print Assumptions C24_string_order.

(** substr(s, idx, len): the [len] bytes from offset [idx] (fewer at the end of the string; all of the
    rest when len is negative, i.e. huge as size_t); an offset outside [0, |s|] gives the empty string. *)
Theorem C24_substr : forall s idx len,
  (0 <= idx <= Z.of_nat (length s) -> 0 <= len ->
     substr s idx len = firstn (Z.to_nat len) (skipn (Z.to_nat idx) s)) /\
  (0 <= idx <= Z.of_nat (length s) -> len < 0 -> substr s idx len = skipn (Z.to_nat idx) s) /\
  (idx < 0 \/ Z.of_nat (length s) < idx -> substr s idx len = []) /\
  (length (substr s idx len) <= length s)%nat.
Proof. exact substr_family. Qed.
Print Assumptions C24_substr.

(** contains(p, s) holds exactly when p occurs in s as a contiguous block of bytes. *)
Theorem C24_contains : forall p s, has_substr p s = true <-> exists a b, s = a ++ p ++ b.
Proof. exact has_substr_spec. Qed.
Print Assumptions C24_contains.

(** to_string of a number is a complete decimal literal of that number: reading it back as a fact
    column or with to_number returns the number. *)
Theorem C24_to_string_round_trip : forall z, in_s z = true ->
  fact_signed (dec_of_Z z) = Some z /\ to_number (dec_of_Z z) = Some z.
Proof. exact to_string_family. Qed.
Print Assumptions C24_to_string_round_trip.

(** range(from, to, step), signed: for a positive step exactly from, from+step, ... below [to]; for a
    negative step the mirror image; step 0 yields [from] unless from = to; the default step is +1 when
    from <= to and -1 otherwise; all values produced are 32-bit values. *)
Theorem C24_range_positive_step : forall from to st l, 0 < st ->
  range_values TS from to (Some st) = Ok l ->
  l = map (fun k => from + Z.of_nat k * st) (seq 0 (length l)) /\
  forall x, In x l <-> exists k, 0 <= k /\ x = from + k * st /\ x < to.
Proof. exact range_values_pos_step. Qed.
Print Assumptions C24_range_positive_step.

Theorem C24_range_negative_step : forall from to st l, st < 0 ->
  range_values TS from to (Some st) = Ok l ->
  l = map (fun k => from + Z.of_nat k * st) (seq 0 (length l)) /\
  forall x, In x l <-> exists k, 0 <= k /\ x = from + k * st /\ to < x.
Proof. exact range_values_neg_step. Qed.
Print Assumptions C24_range_negative_step.

Theorem C24_range_zero_step : forall from to,
  range_values TS from to (Some 0) = Ok (if from =? to then [] else [from]).
Proof. exact range_values_zero_step. Qed.
Print Assumptions C24_range_zero_step.

Theorem C24_range_default_step : forall from to,
  range_values TS from to None = range_values TS from to (Some (if from <=? to then 1 else -1)).
Proof. exact range_values_default_step. Qed.
Print Assumptions C24_range_default_step.

Theorem C24_range_values_32_bit : forall from to st l, in_s from = true -> in_s to = true ->
  range_values TS from to st = Ok l -> Forall (fun x => in_s x = true) l.
Proof. exact range_values_in_s. Qed.
Print Assumptions C24_range_values_32_bit.

(** ** IEEE single-precision floats.
    [fval a] is the real number denoted by the bit pattern a (0 for NaN and infinities), [rnd32] is
    rounding to the nearest binary32 value, ties to even: [round radix2 (FLT_exp (-149) 24) ZnearestE].
    The float operations themselves are closed, proof-free computations (Coq's SpecFloat); the theorems that
    relate them to real numbers go through Flocq and therefore depend on the axioms of the standard
    library's real numbers (ClassicalDedekindReals.sig_not_dec, sig_forall_dec,
    FunctionalExtensionality.functional_extensionality_dep, Classical_Prop.classic) -- unavoidable for
    any statement about [R]. *)

(** Every float operation yields a 32-bit pattern. *)
Theorem C24_float_results_are_32_bit : forall a b, in_s a = true -> in_s b = true ->
  List.Forall (fun r => in_s r = true)
    (fadd a b :: fsub a b :: fmul a b :: fdiv a b :: fneg a :: i2f a :: u2f a :: fmax a b :: fmin a b :: nil) /\
  (forall r, f2i a = Some r -> in_s r = true) /\
  (forall r, f2u a = Some r -> in_s r = true).
Proof. exact float_closure_family. Qed.
Print Assumptions C24_float_results_are_32_bit.

(** +, -, *, / on finite operands: the exact real result rounded to nearest-even, whenever that is below
    2^128 (otherwise the result is an infinity, shown for +). *)
Theorem C24_float_arithmetic_is_ieee : forall a b, f_is_finite a = true -> f_is_finite b = true ->
  ((Rabs (rnd32 (fval a + fval b)) < bpow radix2 128)%R ->
     fval (fadd a b) = rnd32 (fval a + fval b) /\ f_is_finite (fadd a b) = true) /\
  ((Rabs (rnd32 (fval a - fval b)) < bpow radix2 128)%R ->
     fval (fsub a b) = rnd32 (fval a - fval b) /\ f_is_finite (fsub a b) = true) /\
  ((Rabs (rnd32 (fval a * fval b)) < bpow radix2 128)%R ->
     fval (fmul a b) = rnd32 (fval a * fval b) /\ f_is_finite (fmul a b) = true) /\
  (fval b <> 0%R -> (Rabs (rnd32 (fval a / fval b)) < bpow radix2 128)%R ->
     fval (fdiv a b) = rnd32 (fval a / fval b) /\ f_is_finite (fdiv a b) = true) /\
  ((bpow radix2 128 <= Rabs (rnd32 (fval a + fval b)))%R ->
     f_is_finite (fadd a b) = false /\ f_is_nan (fadd a b) = false).
Proof. exact float_arith_family. Qed.
Print Assumptions C24_float_arithmetic_is_ieee.

(** Float + and * are commutative on bit patterns (NaN results being canonical) ... *)
Theorem C24_float_add_mul_commutative : forall a b, fadd a b = fadd b a /\ fmul a b = fmul b a.
Proof. exact float_comm_family. Qed.
Print Assumptions C24_float_add_mul_commutative.

(** ... but + is not associative, even on finite values: the result of a float sum depends on the order
    of evaluation (relevant to `sum` aggregates evaluated in parallel). *)
Theorem C24_float_add_associative_refuted :
  exists a b c, in_s a = true /\ in_s b = true /\ in_s c = true /\
    f_is_finite a = true /\ f_is_finite b = true /\ f_is_finite c = true /\
    fadd (fadd a b) c <> fadd a (fadd b c).
Proof. exact fadd_not_associative_refuted. Qed.
Print Assumptions C24_float_add_associative_refuted.

(** Comparisons: the order of the real values on finite operands; false as soon as an operand is a NaN. *)
Theorem C24_float_comparisons : forall a b,
  (f_is_finite a = true -> f_is_finite b = true ->
     flt a b = Rlt_bool (fval a) (fval b) /\ fle a b = Rle_bool (fval a) (fval b) /\
     feq a b = Req_bool (fval a) (fval b)) /\
  (f_is_nan a = true \/ f_is_nan b = true -> flt a b = false /\ fle a b = false /\ feq a b = false).
Proof. exact float_compare_family. Qed.
Print Assumptions C24_float_comparisons.

(** max / min (std::max, std::min) return one of the arguments, never smaller (larger) than either; without
    NaNs the result does not depend on the argument order up to float equality ... *)
Theorem C24_float_min_max : forall a b,
  (fmax a b = a \/ fmax a b = b) /\ (fmin a b = a \/ fmin a b = b) /\
  (flt (fmax a b) a = false /\ flt (fmax a b) b = false) /\
  (flt a (fmin a b) = false /\ flt b (fmin a b) = false) /\
  (f_is_nan a = false -> f_is_nan b = false -> feq (fmax a b) (fmax b a) = true).
Proof. exact float_minmax_family. Qed.
Print Assumptions C24_float_min_max.

(** ... but with a NaN (and, bitwise, with +0 / -0) the argument order matters. *)
Theorem C24_float_max_order_independent_refuted :
  (exists a b, in_s a = true /\ in_s b = true /\ fmax a b <> fmax b a) /\
  (exists a b, in_s a = true /\ in_s b = true /\ f_is_nan a = false /\ f_is_nan b = false /\
               fmax a b <> fmax b a).
Proof. exact (conj fmax_nan_order_refuted fmax_signed_zero_order_refuted). Qed.
Print Assumptions C24_float_max_order_independent_refuted.

(** Negation flips the sign of the value and is an involution on non-NaN patterns. *)
Theorem C24_float_negation : forall a,
  fval (fneg a) = (- fval a)%R /\ f_is_nan (fneg a) = f_is_nan a /\ f_is_finite (fneg a) = f_is_finite a /\
  (in_s a = true -> f_is_nan a = false -> fneg (fneg a) = a).
Proof. exact float_neg_family. Qed.
Print Assumptions C24_float_negation.

(** Integer -> float: the integer rounded to nearest-even (always finite); exact up to 2^24 in magnitude,
    where converting back returns the integer ... *)
Theorem C24_int_to_float : forall z, in_s z = true ->
  fval (i2f z) = rnd32 (IZR z) /\ f_is_finite (i2f z) = true /\
  fval (u2f z) = rnd32 (IZR (u z)) /\ f_is_finite (u2f z) = true /\
  (Z.abs z <= 2 ^ 24 -> fval (i2f z) = IZR z /\ f2i (i2f z) = Some z).
Proof. exact float_of_int_family. Qed.
Print Assumptions C24_int_to_float.

(** ... and the bound 2^24 is tight. *)
Theorem C24_int_float_round_trip_refuted : exists z, in_s z = true /\ f2i (i2f z) <> Some z.
Proof. exact i2f_rounds_refuted. Qed.
Print Assumptions C24_int_float_round_trip_refuted.

(** Float -> integer: truncation toward zero, defined exactly for finite values whose truncation fits the
    destination type. *)
Theorem C24_float_to_int : forall a r,
  (f2i a = Some r <->
     (f_is_finite a = true /\ IZR r = round radix2 (FIX_exp 0) Ztrunc (fval a) /\ in_s r = true)) /\
  (f2u a = Some r <->
     exists t, f_is_finite a = true /\ IZR t = round radix2 (FIX_exp 0) Ztrunc (fval a) /\
               0 <= t < 2 ^ 32 /\ r = wrap t).
Proof. exact float_to_int_family. Qed.
Print Assumptions C24_float_to_int.
