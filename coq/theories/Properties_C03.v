(** C03 -- Results do not depend on thread count or schedule: confluence of parallel insertion.
    Only statements here; definitions and proofs are in SemiNaiveAbs.v.
    Work items [items] (tuples of the parallelised outer scan) are distributed over workers as
    [chunks] (any partition: [Permutation (concat chunks) items]); item [it] inserts the facts
    [produce st it], a function of a state [st] that is not written during the scan; worker
    [c] performs [worker_inserts produce st c = flat_map (produce st) c] in order;
    [is_interleaving ls m]: [m] is obtained by repeatedly taking the head of any non-empty list
    of [ls] (every schedule at the granularity of single inserts); [interleavings ls] enumerates
    exactly those; [insert_all eq_dec R m] inserts the facts of [m] one by one into the
    duplicate-free list [R]; [sequential eq_dec produce st items R] is the one-thread run. *)
From Coq Require Import List Permutation.
From SV Require Import SemiNaiveAbs.
Import ListNotations.

Theorem C03_par_insert_confluent :
  forall (fact : Type) (eq_dec : forall x y : fact, {x = y} + {x <> y})
         (state item : Type) (produce : state -> item -> list fact)
         (st : state) (items : list item) (chunks : list (list item)) (R m : list fact),
    Permutation (concat chunks) items ->
    is_interleaving (map (worker_inserts produce st) chunks) m ->
    forall f, In f (insert_all eq_dec R m) <-> In f (sequential eq_dec produce st items R).
Proof. exact par_insert_confluent. Qed.
Print Assumptions C03_par_insert_confluent.

Theorem C03_par_insert_confluent_enum :
  forall (fact : Type) (eq_dec : forall x y : fact, {x = y} + {x <> y})
         (state item : Type) (produce : state -> item -> list fact)
         (st : state) (items : list item) (chunks : list (list item)) (R : list fact),
    Permutation (concat chunks) items ->
    forall m, In m (interleavings (map (worker_inserts produce st) chunks)) ->
    forall f, In f (insert_all eq_dec R m) <-> In f (sequential eq_dec produce st items R).
Proof. exact par_insert_confluent_enum. Qed.
Print Assumptions C03_par_insert_confluent_enum.

(** The enumeration is exactly the set of schedules. *)
Theorem C03_interleavings_spec :
  forall (A : Type) (ls : list (list A)) (m : list A),
    In m (interleavings ls) <-> is_interleaving ls m.
Proof. exact interleavings_spec. Qed.
Print Assumptions C03_interleavings_spec.

(** The final set is R plus everything produced. *)
Theorem C03_par_insert_result :
  forall (fact : Type) (eq_dec : forall x y : fact, {x = y} + {x <> y})
         (state item : Type) (produce : state -> item -> list fact)
         (st : state) (items : list item) (chunks : list (list item)) (R m : list fact),
    Permutation (concat chunks) items ->
    is_interleaving (map (worker_inserts produce st) chunks) m ->
    forall f, In f (insert_all eq_dec R m) <->
              (In f R \/ exists it, In it items /\ In f (produce st it)).
Proof. exact par_insert_result. Qed.
Print Assumptions C03_par_insert_result.

(** As duplicate-free lists, all schedules give permutations of the sequential result. *)
Theorem C03_par_insert_same_set :
  forall (fact : Type) (eq_dec : forall x y : fact, {x = y} + {x <> y})
         (state item : Type) (produce : state -> item -> list fact)
         (st : state) (items : list item) (chunks : list (list item)) (R m : list fact),
    NoDup R -> Permutation (concat chunks) items ->
    is_interleaving (map (worker_inserts produce st) chunks) m ->
    Permutation (insert_all eq_dec R m) (sequential eq_dec produce st items R).
Proof. exact par_insert_same_set. Qed.
Print Assumptions C03_par_insert_same_set.
