(** Specifications and proofs for the contract validators of ContractDefs.v. *)
From SV Require Import DatalogDefs DatalogSem DatalogLemmas ContractDefs.
Require Import Permutation.

(** * C10: choice-domain. Declarative statements *)
Definition agree_key (k : list nat) (t1 t2 : tuple) : Prop :=
  forall i, In i k -> nth i t1 VNil = nth i t2 VNil.
(** (1) no two different tuples agree on a declared key *)
Definition functional_rel (keys : list (list nat)) (R : list tuple) : Prop :=
  forall t1 t2, In t1 R -> In t2 R -> t1 <> t2 -> forall k, In k keys -> ~ agree_key k t1 t2.
(** (2) every tuple is an instance of a rule, evaluated in the final database *)
Definition derivable_rel (d : db) (cs : list clause) (R : list tuple) : Prop :=
  forall t, In t R -> exists c, In c cs /\ fires (holds d) (holds d) c t.
(** (3) every rule instance that is absent clashes on some key with a tuple that is present *)
Definition maximal_rel (d : db) (cs : list clause) (keys : list (list nat)) (R : list tuple) : Prop :=
  forall c t, In c cs -> fires (holds d) (holds d) c t -> ~ In t R ->
  exists k t', In k keys /\ In t' R /\ agree_key k t t'.

Lemma key_agree_spec k a b : key_agree k a b = true <-> agree_key k a b.
Proof.
  unfold key_agree, agree_key. rewrite forallb_forall. split; intros H i Hi.
  - now apply value_eqb_spec, H.
  - apply value_eqb_spec. auto.
Qed.
Lemma agree_some_spec keys a b : agree_some keys a b = true <-> exists k, In k keys /\ agree_key k a b.
Proof.
  unfold agree_some. rewrite existsb_exists. split; intros (k & Hk & H); exists k; split; auto; now apply key_agree_spec.
Qed.
Lemma agree_key_sym k a b : agree_key k a b -> agree_key k b a.
Proof. intros H i Hi. symmetry. auto. Qed.
Lemma agree_some_sym keys a b : agree_some keys a b = agree_some keys b a.
Proof.
  destruct (agree_some keys a b) eqn:E, (agree_some keys b a) eqn:E'; try reflexivity.
  - apply agree_some_spec in E as (k & Hk & H). assert (agree_some keys b a = true); [|congruence].
    apply agree_some_spec. eauto using agree_key_sym.
  - apply agree_some_spec in E' as (k & Hk & H). assert (agree_some keys a b = true); [|congruence].
    apply agree_some_spec. eauto using agree_key_sym.
Qed.
Lemma tuple_eqb_false a b : tuple_eqb a b = false <-> a <> b.
Proof.
  split.
  - intros H E. apply tuple_eqb_spec in E. congruence.
  - intro H. destruct (tuple_eqb a b) eqn:E; [|reflexivity]. apply tuple_eqb_spec in E. tauto.
Qed.
Lemma not_agree_some keys a b :
  agree_some keys a b = false <-> forall k, In k keys -> ~ agree_key k a b.
Proof.
  split.
  - intros H k Hk Ha. assert (agree_some keys a b = true); [|congruence]. apply agree_some_spec. eauto.
  - intro H. destruct (agree_some keys a b) eqn:E; [|reflexivity].
    apply agree_some_spec in E as (k & Hk & Ha). exfalso. eapply H; eauto.
Qed.

Lemma find_clash_some keys l a b : find_clash keys l = Some (a, b) ->
  In a l /\ In b l /\ a <> b /\ exists k, In k keys /\ agree_key k a b.
Proof.
  induction l as [|t l IH]; simpl; [discriminate|].
  destruct (find _ l) as [t'|] eqn:F.
  - intro H. inversion H; subst. apply find_some in F as [Hin Hf].
    apply andb_true_iff in Hf as [H1 H2]. apply negb_true_iff, tuple_eqb_false in H1.
    apply agree_some_spec in H2. auto.
  - intro H. destruct (IH H) as (A & B & C). auto.
Qed.
Lemma find_clash_none keys l : find_clash keys l = None <-> functional_rel keys l.
Proof.
  induction l as [|t l IH]; simpl.
  - split; [intros _ t1 t2 []|reflexivity].
  - destruct (find _ l) as [t'|] eqn:F.
    + split; [discriminate|]. intro H. exfalso. apply find_some in F as [Hin Hf].
      apply andb_true_iff in Hf as [H1 H2]. apply negb_true_iff, tuple_eqb_false in H1.
      apply agree_some_spec in H2 as (k & Hk & Ha). apply (H t t' (or_introl eq_refl) (or_intror Hin) H1 k Hk Ha).
    + assert (Hn : forall x, In x l -> t <> x -> agree_some keys t x = false).
      { intros x Hx Hne. pose proof (find_none _ _ F x Hx) as Hf. simpl in Hf.
        apply tuple_eqb_false in Hne. rewrite Hne in Hf. exact Hf. }
      rewrite IH. split.
      * intros H t1 t2 [<-|H1] [<-|H2] Hne; try tauto.
        -- apply not_agree_some. auto.
        -- apply not_agree_some. rewrite agree_some_sym. auto.
        -- now apply H.
      * intros H t1 t2 H1 H2. apply H; simpl; auto.
Qed.

Lemma fire_all_in d cs fired :
  db_nodup d -> clauses_ok cs = true -> forallb clause_det cs = true -> fire_all d cs = Ok fired ->
  forall t, In t fired <-> exists c, In c cs /\ fires (holds d) (holds d) c t.
Proof.
  intros Hnd Hok Hdet H t. unfold fire_all in H. rewrite (flat_map_res_in _ _ _ H). split.
  - intros (c & ts & Hc & Hf & Ht). exists c. split; [exact Hc|].
    eapply fire_clause_sound; eauto using clauses_ok_in.
  - intros (c & Hc & Hf). destruct (flat_map_res_ok _ _ _ H c Hc) as (ts & Hts). exists c, ts.
    split; [exact Hc|]. split; [exact Hts|].
    eapply fire_clause_complete; eauto using clauses_ok_in, clauses_det_in.
Qed.

(** what each verdict means *)
Theorem choice_ok_iff d r cs keys res :
  db_nodup d -> clauses_ok cs = true -> forallb clause_det cs = true ->
  choice_ok d r cs keys = Ok res ->
  (res = COk <->
   functional_rel keys (rel_of d r) /\ derivable_rel d cs (rel_of d r) /\ maximal_rel d cs keys (rel_of d r)).
Proof.
  intros Hnd Hok Hdet H. unfold choice_ok in H. apply bind_ok in H as (fired & Hf & H).
  pose proof (fire_all_in d cs fired Hnd Hok Hdet Hf) as Hin. inversion H; subst; clear H.
  destruct (find_clash keys (rel_of d r)) as [[a b]|] eqn:F1.
  { split; [discriminate|]. intros (P1 & _). apply find_clash_none in P1. congruence. }
  apply find_clash_none in F1.
  destruct (find _ (rel_of d r)) as [t|] eqn:F2.
  { split; [discriminate|]. intros (_ & P2 & _). exfalso. apply find_some in F2 as [Ht Hn].
    apply negb_true_iff in Hn. destruct (P2 t Ht) as (c & Hc & Hfc).
    assert (In t fired) by (apply Hin; eauto). apply mem_tuple_spec in H. congruence. }
  assert (P2 : derivable_rel d cs (rel_of d r)).
  { intros t Ht. apply Hin. pose proof (find_none _ _ F2 t Ht) as Hn. simpl in Hn.
    apply negb_false_iff in Hn. now apply mem_tuple_spec. }
  destruct (find _ fired) as [t|] eqn:F3.
  { split; [discriminate|]. intros (_ & _ & P3). exfalso. apply find_some in F3 as [Ht Hn].
    apply andb_true_iff in Hn as [Hn1 Hn2]. apply negb_true_iff in Hn1, Hn2.
    apply Hin in Ht as (c & Hc & Hfc).
    destruct (P3 c t Hc Hfc) as (k & t' & Hk & Ht' & Ha).
    { intro Hm. apply mem_tuple_spec in Hm. congruence. }
    assert (existsb (agree_some keys t) (rel_of d r) = true); [|congruence].
    apply existsb_exists. exists t'. split; [exact Ht'|]. apply agree_some_spec. eauto. }
  split; [intros _|reflexivity]. split; [exact F1|]. split; [exact P2|].
  intros c t Hc Hfc Hnin. assert (Ht : In t fired) by (apply Hin; eauto).
  pose proof (find_none _ _ F3 t Ht) as Hn. simpl in Hn. apply andb_false_iff in Hn as [Hn|Hn].
  - apply negb_false_iff, mem_tuple_spec in Hn. tauto.
  - apply negb_false_iff, existsb_exists in Hn as (t' & Ht' & Ha).
    apply agree_some_spec in Ha as (k & Hk & Ha). eauto.
Qed.

(** the rejecting verdicts carry witnesses *)
Theorem choice_functional_witness d r cs keys t1 t2 :
  choice_ok d r cs keys = Ok (CFunctional t1 t2) ->
  In t1 (rel_of d r) /\ In t2 (rel_of d r) /\ t1 <> t2 /\ exists k, In k keys /\ agree_key k t1 t2.
Proof.
  unfold choice_ok. intro H. apply bind_ok in H as (fired & _ & H). inversion H as [H1]; clear H.
  destruct (find_clash keys (rel_of d r)) as [[a b]|] eqn:F1.
  - inversion H1; subst. now apply find_clash_some.
  - destruct (find _ (rel_of d r)); [discriminate|]. destruct (find _ fired); discriminate.
Qed.
Theorem choice_underivable_witness d r cs keys t :
  db_nodup d -> clauses_ok cs = true -> forallb clause_det cs = true ->
  choice_ok d r cs keys = Ok (CUnderivable t) ->
  In t (rel_of d r) /\ forall c, In c cs -> ~ fires (holds d) (holds d) c t.
Proof.
  intros Hnd Hok Hdet H. unfold choice_ok in H. apply bind_ok in H as (fired & Hf & H).
  pose proof (fire_all_in d cs fired Hnd Hok Hdet Hf) as Hin. inversion H as [H1]; clear H.
  destruct (find_clash keys (rel_of d r)) as [[a b]|]; [discriminate|].
  destruct (find _ (rel_of d r)) as [t'|] eqn:F2; [|destruct (find _ fired); discriminate].
  inversion H1; subst. apply find_some in F2 as [Ht Hn]. split; [exact Ht|].
  intros c Hc Hfc. apply negb_true_iff in Hn. assert (In t fired) by (apply Hin; eauto).
  apply mem_tuple_spec in H. congruence.
Qed.
Theorem choice_notmaximal_witness d r cs keys t :
  db_nodup d -> clauses_ok cs = true -> forallb clause_det cs = true ->
  choice_ok d r cs keys = Ok (CNotMaximal t) ->
  (exists c, In c cs /\ fires (holds d) (holds d) c t) /\ ~ In t (rel_of d r) /\
  forall k t', In k keys -> In t' (rel_of d r) -> ~ agree_key k t t'.
Proof.
  intros Hnd Hok Hdet H. unfold choice_ok in H. apply bind_ok in H as (fired & Hf & H).
  pose proof (fire_all_in d cs fired Hnd Hok Hdet Hf) as Hin. inversion H as [H1]; clear H.
  destruct (find_clash keys (rel_of d r)) as [[a b]|]; [discriminate|].
  destruct (find _ (rel_of d r)); [discriminate|].
  destruct (find _ fired) as [t'|] eqn:F3; [|discriminate]. inversion H1; subst.
  apply find_some in F3 as [Ht Hn]. apply andb_true_iff in Hn as [Hn1 Hn2].
  apply negb_true_iff in Hn1, Hn2. split; [now apply Hin|]. split.
  - intro Hm. apply mem_tuple_spec in Hm. congruence.
  - intros k t' Hk Ht' Ha. assert (existsb (agree_some keys t) (rel_of d r) = true); [|congruence].
    apply existsb_exists. exists t'. split; [exact Ht'|]. apply agree_some_spec. eauto.
Qed.

(** * The sequential guarded insertion (model of GuardedInsert) *)
(** maximal relative to a list of candidates *)
Definition maximal_wrt (keys : list (list nat)) (cands R : list tuple) : Prop :=
  forall t, In t cands -> ~ In t R -> exists k t', In k keys /\ In t' R /\ agree_key k t t'.

Lemma guarded_insert_spec keys acc t :
  functional_rel keys acc ->
  let acc' := guarded_insert keys acc t in
  functional_rel keys acc' /\ incl acc acc' /\ (forall x, In x acc' -> In x acc \/ x = t) /\
  (In t acc' \/ exists k t', In k keys /\ In t' acc' /\ agree_key k t t').
Proof.
  intro Hf. unfold guarded_insert. destruct (existsb (agree_some keys t) acc) eqn:E; simpl.
  - split; [exact Hf|]. split; [apply incl_refl|]. split; [auto|]. right.
    apply existsb_exists in E as (t' & Ht' & Ha). apply agree_some_spec in Ha as (k & Hk & Ha). eauto.
  - assert (Hn : forall x, In x acc -> agree_some keys t x = false).
    { intros x Hx. destruct (agree_some keys t x) eqn:Ea; [|reflexivity].
      assert (existsb (agree_some keys t) acc = true); [|congruence]. apply existsb_exists. eauto. }
    split; [|split; [|split]].
    + intros t1 t2 H1 H2 Hne. apply in_app_or in H1, H2. simpl in H1, H2.
      destruct H1 as [H1|[<-|[]]], H2 as [H2|[<-|[]]].
      * now apply Hf.
      * apply not_agree_some. rewrite agree_some_sym. auto.
      * apply not_agree_some. auto.
      * tauto.
    + intros x Hx. apply in_or_app. auto.
    + intros x Hx. apply in_app_or in Hx as [Hx|[<-|[]]]; auto.
    + left. apply in_or_app. simpl. auto.
Qed.

Lemma insert_all_spec keys cands : forall acc, functional_rel keys acc ->
  let R := insert_all keys acc cands in
  functional_rel keys R /\ incl acc R /\ (forall x, In x R -> In x acc \/ In x cands) /\
  (forall t, In t cands -> In t R \/ exists k t', In k keys /\ In t' R /\ agree_key k t t').
Proof.
  induction cands as [|t cands IH]; intros acc Hf; simpl.
  - split; [exact Hf|]. split; [apply incl_refl|]. split; [auto|]. intros t [].
  - destruct (guarded_insert_spec keys acc t Hf) as (F1 & I1 & S1 & M1).
    destruct (IH _ F1) as (F2 & I2 & S2 & M2). unfold insert_all in *.
    split; [exact F2|]. split; [eapply incl_tran; eauto|]. split.
    + intros x Hx. apply S2 in Hx as [Hx|Hx]; [|auto]. apply S1 in Hx as [Hx|Hx]; auto.
    + intros t' [<-|Ht']; [|auto]. destruct M1 as [M1|(k & t' & Hk & Ht' & Ha)].
      * left. now apply I2.
      * right. exists k, t'. auto.
Qed.

(** inserting the candidates one at a time, in ANY order, ends in a set that is functional, made
    of candidates only, and maximal with respect to the candidates. (Different orders may end in
    different sets -- see [ex_choice_orders] -- and every one of them is acceptable.) *)
Theorem sequential_guarded_insert_functional keys cands cands' :
  Permutation cands' cands ->
  let R := insert_all keys [] cands' in
  functional_rel keys R /\ incl R cands /\ maximal_wrt keys cands R.
Proof.
  intros Hp R. destruct (insert_all_spec keys cands' []) as (F & _ & S & M).
  { intros t1 t2 []. }
  split; [exact F|]. split.
  - intros x Hx. apply S in Hx as [[]|Hx]. eapply Permutation_in; eauto.
  - intros t Ht Hn. apply (Permutation_in _ (Permutation_sym Hp)) in Ht.
    destruct (M t Ht) as [H|H]; [tauto|exact H].
Qed.

(** * C11: subsumption. Declarative dominance *)
(** [t1] is dominated by [t2]: one valuation makes the first pattern denote [t1], the second
    denote [t2], and satisfies the body in the final database *)
Definition dominates (d : db) (dm : dom) (t1 t2 : tuple) : Prop :=
  exists e, Forall2 (den e) (d_pa dm) t1 /\ Forall2 (den e) (d_pb dm) t2 /\
            Forall (sat_lit (holds d) (holds d) (dom_outer dm) e) (d_body dm).
Definition dominates_any (d : db) (doms : list dom) (t1 t2 : tuple) : Prop :=
  exists dm, In dm doms /\ dominates d dm t1 t2.
(** (1) no tuple of the relation is dominated by a different tuple of the relation *)
Definition dom_free (d : db) (doms : list dom) (R : list tuple) : Prop :=
  forall t1 t2, In t1 R -> In t2 R -> t1 <> t2 -> ~ dominates_any d doms t1 t2.
(** (3) every unsubsumed tuple is present or dominated by a present tuple *)
Definition covered (d : db) (doms : list dom) (R unsub : list tuple) : Prop :=
  forall u, In u unsub -> In u R \/ exists t, In t R /\ dominates_any d doms u t.

Lemma dom_ok_parts dm : dom_ok dm = true ->
  scoped (dom_outer dm) (terms_vars (d_pa dm) ++ terms_vars (d_pb dm)) (d_body dm) = true /\
  forallb lit_det (d_body dm) = true.
Proof. unfold dom_ok. intro H. now apply andb_true_iff in H. Qed.
Lemma dom_outer_incl dm : incl (flat_map lit_outer_vars (d_body dm)) (dom_outer dm).
Proof. unfold dom_outer. apply incl_appr, incl_appr, incl_refl. Qed.

Lemma dom_env_ok dm e1 e2 :
  bound_after [] e1 (terms_vars (d_pa dm)) -> bound_after e1 e2 (terms_vars (d_pb dm)) ->
  env_ok (dom_outer dm) (terms_vars (d_pa dm) ++ terms_vars (d_pb dm)) e2.
Proof.
  intros B1 B2. split.
  - intros y Hy. apply B2. apply in_app_or in Hy as [Hy|Hy]; [left; apply B1|]; auto.
  - intros y Hy. apply B2 in Hy as [Hy|Hy].
    + apply B1 in Hy as [Hy|Hy]; [now apply bound_nil in Hy|]. unfold dom_outer. apply in_or_app. auto.
    + unfold dom_outer. apply in_or_app. right. apply in_or_app. auto.
Qed.

Theorem dominated_spec d dm t1 t2 b :
  db_nodup d -> dom_ok dm = true -> dominated d dm t1 t2 = Ok b ->
  (b = true <-> dominates d dm t1 t2).
Proof.
  intros Hnd Hok H. apply dom_ok_parts in Hok as [Hsc Hdet]. unfold dominated in H.
  apply bind_ok in H as (o1 & M1 & H). pose proof (match_terms_post _ _ _ _ M1) as P1.
  destruct o1 as [e1|].
  2:{ inversion H; subst. split; [discriminate|]. intros (e & Da & _). exfalso.
      apply (P1 e (ext_nil e)). exact Da. }
  destruct P1 as (X1 & D1 & B1 & T1 & _).
  apply bind_ok in H as (o2 & M2 & H). pose proof (match_terms_post _ _ _ _ M2) as P2.
  destruct o2 as [e2|].
  2:{ inversion H; subst. split; [discriminate|]. intros (e & Da & Db & _). exfalso.
      apply (P2 e); [|exact Db]. apply T1; [apply ext_nil|exact Da]. }
  destruct P2 as (X2 & D2 & B2 & T2 & _).
  apply bind_ok in H as (es & Hs & H). inversion H; subst; clear H.
  pose proof (dom_env_ok dm e1 e2 B1 B2) as Hen. split.
  - intro Hb. destruct es as [|e es]; [discriminate|].
    destruct (solve_sound_gen d (dom_outer dm) (d_body dm) _ [e2] (e :: es) e Hnd Hsc (dom_outer_incl dm))
      as (e0 & [<-|[]] & X & _ & Hsat); auto.
    { intros e0 [<-|[]]. exact Hen. }
    { simpl; auto. }
    exists e. split; [|split].
    + eapply dens_mono; [|exact D1]. eapply ext_trans; eauto.
    + eapply dens_mono; eauto.
    + apply Hsat. apply ext_refl.
  - intros (e & Da & Db & Hsat).
    assert (Xe : ext e2 e). { apply T2; [|exact Db]. apply T1; [apply ext_nil|exact Da]. }
    destruct (solve_complete_gen d (dom_outer dm) (d_body dm) _ [e2] es e2 e Hnd Hsc Hdet (dom_outer_incl dm) Hen Hs)
      as (e' & Hin & _); simpl; auto.
    destruct es; [destruct Hin|reflexivity].
Qed.

Lemma exists_res_spec {A} (f : A -> res bool) l b : exists_res f l = Ok b ->
  if b then exists a, In a l /\ f a = Ok true else forall a, In a l -> f a = Ok false.
Proof.
  induction l as [|a l IH]; simpl; intro H.
  - inversion H. intros a [].
  - apply bind_ok in H as (b' & Hb & H). destruct b'.
    + inversion H; subst. exists a. auto.
    + apply IH in H. destruct b.
      * destruct H as (a' & Ha' & Hf). exists a'. auto.
      * intros a' [<-|Ha']; auto.
Qed.
Lemma find_res_spec {A} (f : A -> res bool) l o : find_res f l = Ok o ->
  match o with
  | Some a => In a l /\ f a = Ok true
  | None => forall a, In a l -> f a = Ok false
  end.
Proof.
  induction l as [|a l IH]; simpl; intro H.
  - inversion H. intros a [].
  - apply bind_ok in H as (b' & Hb & H). destruct b'.
    + inversion H; subst. auto.
    + apply IH in H. destruct o as [a'|].
      * destruct H. auto.
      * intros a' [<-|Ha']; auto.
Qed.

Lemma doms_ok_in doms dm : forallb dom_ok doms = true -> In dm doms -> dom_ok dm = true.
Proof. rewrite forallb_forall. auto. Qed.

Lemma dom_any_spec d doms t1 t2 b :
  db_nodup d -> forallb dom_ok doms = true -> dom_any d doms t1 t2 = Ok b ->
  (b = true <-> dominates_any d doms t1 t2).
Proof.
  intros Hnd Hok H. unfold dom_any in H. apply exists_res_spec in H. destruct b.
  - destruct H as (dm & Hdm & Hf). split; [intros _|reflexivity]. exists dm. split; [exact Hdm|].
    eapply (dominated_spec d dm t1 t2 true); eauto using doms_ok_in.
  - split; [discriminate|]. intros (dm & Hdm & Hd). specialize (H dm Hdm).
    apply (dominated_spec d dm t1 t2 false Hnd (doms_ok_in _ _ Hok Hdm) H). exact Hd.
Qed.

Lemma find_dominated_spec d doms rel l o :
  db_nodup d -> forallb dom_ok doms = true -> find_dominated d doms rel l = Ok o ->
  match o with
  | Some (t1, t2) => In t1 l /\ In t2 rel /\ t1 <> t2 /\ dominates_any d doms t1 t2
  | None => forall t1 t2, In t1 l -> In t2 rel -> t1 <> t2 -> ~ dominates_any d doms t1 t2
  end.
Proof.
  intros Hnd Hok. induction l as [|t1 l IH]; simpl; intro H.
  - inversion H. intros t1 t2 [].
  - apply bind_ok in H as (o' & Hf & H). apply find_res_spec in Hf. destruct o' as [t2|].
    + inversion H; subst. destruct Hf as [Hin Hf]. destruct (tuple_eqb t1 t2) eqn:E; [discriminate|].
      apply tuple_eqb_false in E. split; [auto|]. split; [exact Hin|]. split; [exact E|].
      now apply (dom_any_spec d doms t1 t2 true Hnd Hok Hf).
    + apply IH in H. destruct o as [[a b]|].
      * destruct H as (A & B & C). auto.
      * intros a b [Ea|Ha] Hb Hne; [subst a|now apply H]. specialize (Hf b Hb).
        apply tuple_eqb_false in Hne. simpl in Hf. rewrite Hne in Hf. intro Hd.
        apply (dom_any_spec d doms t1 b false Hnd Hok Hf) in Hd. discriminate.
Qed.

Theorem subsume_ok_iff d r doms unsub minimal res :
  db_nodup d -> forallb dom_ok doms = true ->
  subsume_ok d r doms unsub minimal = Ok res ->
  (res = SOk <->
   dom_free d doms (rel_of d r) /\ incl (rel_of d r) unsub /\
   (minimal = true -> covered d doms (rel_of d r) unsub)).
Proof.
  intros Hnd Hok H. unfold subsume_ok in H. apply bind_ok in H as (o & Hfd & H).
  apply (find_dominated_spec d doms _ _ o Hnd Hok) in Hfd. destruct o as [[a b]|].
  { inversion H; subst. split; [discriminate|]. intros (P1 & _). exfalso.
    destruct Hfd as (A & B & C & D). exact (P1 a b A B C D). }
  destruct (find _ (rel_of d r)) as [t|] eqn:F2.
  { inversion H; subst. split; [discriminate|]. intros (_ & P2 & _). exfalso.
    apply find_some in F2 as [Ht Hn]. apply negb_true_iff in Hn. apply P2, mem_tuple_spec in Ht. congruence. }
  assert (P2 : incl (rel_of d r) unsub).
  { intros t Ht. pose proof (find_none _ _ F2 t Ht) as Hn. simpl in Hn. now apply negb_false_iff, mem_tuple_spec in Hn. }
  destruct minimal.
  2:{ inversion H; subst. split; [intros _|reflexivity]. split; [exact Hfd|]. split; [exact P2|discriminate]. }
  apply bind_ok in H as (o' & Hfr & H). inversion H; subst; clear H. apply find_res_spec in Hfr.
  destruct o' as [u|].
  - split; [discriminate|]. intros (_ & _ & P3). exfalso. destruct Hfr as [Hu Hf].
    destruct (mem_tuple u (rel_of d r)) eqn:M; [discriminate|].
    apply bind_ok in Hf as (b & Hb & Hf). inversion Hf as [Hb']. apply negb_true_iff in Hb'. subst b.
    pose proof (exists_res_spec _ _ _ Hb) as Hall. simpl in Hall.
    destruct (P3 eq_refl u Hu) as [Hin|(t & Ht & Hd)].
    + apply mem_tuple_spec in Hin. congruence.
    + apply (dom_any_spec d doms u t false Hnd Hok (Hall t Ht)) in Hd. discriminate.
  - split; [intros _|reflexivity]. split; [exact Hfd|]. split; [exact P2|]. intros _ u Hu.
    specialize (Hfr u Hu). simpl in Hfr. destruct (mem_tuple u (rel_of d r)) eqn:M.
    + left. now apply mem_tuple_spec.
    + right. apply bind_ok in Hfr as (b & Hb & Hf). inversion Hf as [Hb']. apply negb_false_iff in Hb'. subst b.
      apply exists_res_spec in Hb as (t & Ht & Hd). exists t. split; [exact Ht|].
      now apply (dom_any_spec d doms u t true Hnd Hok Hd).
Qed.

Theorem subsume_dominated_witness d r doms unsub minimal t1 t2 :
  db_nodup d -> forallb dom_ok doms = true ->
  subsume_ok d r doms unsub minimal = Ok (SDominated t1 t2) ->
  In t1 (rel_of d r) /\ In t2 (rel_of d r) /\ t1 <> t2 /\ dominates_any d doms t1 t2.
Proof.
  intros Hnd Hok H. unfold subsume_ok in H. apply bind_ok in H as (o & Hfd & H).
  apply (find_dominated_spec d doms _ _ o Hnd Hok) in Hfd. destruct o as [[a b]|].
  - inversion H; subst. exact Hfd.
  - destruct (find _ (rel_of d r)); [discriminate|]. destruct minimal; [|discriminate].
    apply bind_ok in H as (o' & _ & H). destruct o'; discriminate.
Qed.
Theorem subsume_notderivable_witness d r doms unsub minimal t :
  subsume_ok d r doms unsub minimal = Ok (SNotDerivable t) -> In t (rel_of d r) /\ ~ In t unsub.
Proof.
  intro H. unfold subsume_ok in H. apply bind_ok in H as (o & _ & H). destruct o as [[a b]|]; [discriminate|].
  destruct (find _ (rel_of d r)) as [t'|] eqn:F2.
  - inversion H; subst. apply find_some in F2 as [Ht Hn]. split; [exact Ht|].
    intro Hu. apply mem_tuple_spec in Hu. apply negb_true_iff in Hn. congruence.
  - destruct minimal; [|discriminate]. apply bind_ok in H as (o' & _ & H). destruct o'; discriminate.
Qed.
Theorem subsume_notminimal_witness d r doms unsub minimal u :
  db_nodup d -> forallb dom_ok doms = true ->
  subsume_ok d r doms unsub minimal = Ok (SNotMinimal u) ->
  In u unsub /\ ~ In u (rel_of d r) /\ forall t, In t (rel_of d r) -> ~ dominates_any d doms u t.
Proof.
  intros Hnd Hok H. unfold subsume_ok in H. apply bind_ok in H as (o & _ & H). destruct o as [[a b]|]; [discriminate|].
  destruct (find _ (rel_of d r)); [discriminate|]. destruct minimal; [|discriminate].
  apply bind_ok in H as (o' & Hfr & H). destruct o' as [u'|]; [|discriminate]. inversion H; subst.
  apply find_res_spec in Hfr as [Hu Hf]. split; [exact Hu|].
  destruct (mem_tuple u (rel_of d r)) eqn:M; [discriminate|]. split.
  - intro Hin. apply mem_tuple_spec in Hin. congruence.
  - apply bind_ok in Hf as (b & Hb & Hf). inversion Hf as [Hb']. apply negb_true_iff in Hb'. subst b.
    pose proof (exists_res_spec _ _ _ Hb) as Hall. simpl in Hall.
    intros t Ht Hd. apply (dom_any_spec d doms u t false Hnd Hok (Hall t Ht)) in Hd. discriminate.
Qed.

(** * Strict partial orders on finite lists: the non-recursive deletion keeps exactly the maximal
    elements ([lt a b] = [a] is dominated by [b]) *)
Section Order.
  Context {A : Type} (lt : A -> A -> bool).
  Definition irreflexive := forall a, lt a a = false.
  Definition transitive := forall a b c, lt a b = true -> lt b c = true -> lt a c = true.
  Definition maximal_in (l : list A) (a : A) : Prop := In a l /\ forall b, In b l -> lt a b = false.

  Lemma survivors_spec l a : In a (survivors lt l) <-> maximal_in l a.
  Proof.
    unfold survivors, maximal_in. rewrite filter_In. split; intros [H1 H2]; split; auto.
    - intros b Hb. apply negb_true_iff in H2. destruct (lt a b) eqn:E; [|reflexivity].
      assert (existsb (fun b => lt a b) l = true); [|congruence]. apply existsb_exists. eauto.
    - apply negb_true_iff. destruct (existsb (fun b => lt a b) l) eqn:E; [|reflexivity].
      apply existsb_exists in E as (b & Hb & E). rewrite (H2 b Hb) in E. discriminate.
  Qed.

  (** number of dominators inside [l]: the measure that makes the order well-founded on [l] *)
  Definition ndom (l : list A) (a : A) : nat := length (filter (fun b => lt a b) l).
  Lemma filter_length_lt (f g : A -> bool) l :
    (forall x, In x l -> f x = true -> g x = true) ->
    (exists x, In x l /\ g x = true /\ f x = false) ->
    length (filter f l) < length (filter g l).
  Proof.
    induction l as [|y l IH]; intros Hsub (x & Hx & Hg & Hf); [destruct Hx|].
    assert (Hle : forall l', (forall x, In x l' -> f x = true -> g x = true) ->
                             length (filter f l') <= length (filter g l')).
    { induction l' as [|z l' IH']; intro Hs; simpl; [lia|].
      assert (IHz : length (filter f l') <= length (filter g l')) by (apply IH'; intros; apply Hs; simpl; auto).
      destruct (f z) eqn:Fz; [rewrite (Hs z (or_introl eq_refl) Fz)|destruct (g z)]; simpl; lia. }
    simpl. destruct Hx as [<-|Hx].
    - rewrite Hg, Hf. simpl. specialize (Hle l). assert (length (filter f l) <= length (filter g l)); [|lia].
      apply Hle. intros; apply Hsub; simpl; auto.
    - assert (IHl : length (filter f l) < length (filter g l)).
      { apply IH; [intros; apply Hsub; simpl; auto|eauto]. }
      destruct (f y) eqn:Fy; [rewrite (Hsub y (or_introl eq_refl) Fy)|destruct (g y)]; simpl; lia.
  Qed.
  Lemma ndom_decreases l a b : irreflexive -> transitive -> In b l -> lt a b = true -> ndom l b < ndom l a.
  Proof.
    intros Hi Ht Hb Hab. unfold ndom. apply filter_length_lt.
    - intros x _ Hx. eapply Ht; eauto.
    - exists b. auto.
  Qed.

  (** every element is maximal or dominated by a maximal element (well-foundedness on [l]) *)
  Lemma dominated_by_maximal l : irreflexive -> transitive ->
    forall a, In a l -> maximal_in l a \/ exists s, maximal_in l s /\ lt a s = true.
  Proof.
    intros Hi Ht a. remember (ndom l a) as n eqn:En. revert a En.
    induction n as [n IH] using lt_wf_ind. intros a En Ha.
    destruct (existsb (fun b => lt a b) l) eqn:E.
    - right. apply existsb_exists in E as (b & Hb & Hab).
      assert (Hlt : ndom l b < n) by (subst n; now apply ndom_decreases).
      destruct (IH _ Hlt b eq_refl Hb) as [Hm|(s & Hs & Hbs)].
      + exists b. auto.
      + exists s. split; [exact Hs|]. eapply Ht; eauto.
    - left. split; [exact Ha|]. intros b Hb. destruct (lt a b) eqn:Eab; [|reflexivity].
      assert (existsb (fun b => lt a b) l = true); [|congruence]. apply existsb_exists. eauto.
  Qed.

  (** removing every element dominated by an element of the ORIGINAL list (necessarily a different
      one, by irreflexivity) leaves exactly the maximal elements; no survivor is dominated by
      another survivor; every removed element is dominated by a survivor *)
  Theorem nonrec_delete_maximal l : irreflexive -> transitive ->
    (forall a, In a (survivors lt l) <-> maximal_in l a) /\
    (forall a b, In a (survivors lt l) -> In b (survivors lt l) -> lt a b = false) /\
    (forall a, In a l -> ~ In a (survivors lt l) ->
               exists s, In s (survivors lt l) /\ s <> a /\ lt a s = true).
  Proof.
    intros Hi Ht. split; [apply survivors_spec|]. split.
    - intros a b Ha Hb. apply survivors_spec in Ha as [_ Ha], Hb as [Hb _]. auto.
    - intros a Ha Hn. destruct (dominated_by_maximal l Hi Ht a Ha) as [Hm|(s & Hs & Has)].
      + exfalso. apply Hn. now apply survivors_spec.
      + exists s. split; [now apply survivors_spec|]. split; [|exact Has].
        intros ->. rewrite Hi in Has. discriminate.
  Qed.

  (** the maximal elements are the only sub-collection of [l] that is dominance-free and
      dominates-or-contains every element of [l] *)
  Theorem minimal_unique l (S : list A) : transitive ->
    incl S l ->
    (forall a b, In a S -> In b S -> lt a b = false) ->
    (forall x, In x l -> In x S \/ exists s, In s S /\ lt x s = true) ->
    forall a, In a S <-> In a (survivors lt l).
  Proof.
    intros Ht Hsub Hfree Hcov a. rewrite survivors_spec. split.
    - intro Ha. split; [now apply Hsub|]. intros b Hb. destruct (lt a b) eqn:E; [|reflexivity].
      destruct (Hcov b Hb) as [Hs|(s & Hs & Hbs)].
      + rewrite (Hfree a b Ha Hs) in E. discriminate.
      + rewrite <- (Hfree a s Ha Hs). symmetry. eapply Ht; eauto.
    - intros [Ha Hm]. destruct (Hcov a Ha) as [Hs|(s & Hs & Has)]; [exact Hs|].
      rewrite (Hm s (Hsub s Hs)) in Has. discriminate.
  Qed.
End Order.

(** the accepted relation is unique when dominance is a strict partial order: any two relations
    that pass the three checks against the same unsubsumed result hold the same tuples (they are
    the non-dominated tuples of [unsub]) *)
Theorem subsume_minimal_unique d doms unsub R R' :
  (forall a, ~ dominates_any d doms a a) ->
  (forall a b c, dominates_any d doms a b -> dominates_any d doms b c -> dominates_any d doms a c) ->
  dom_free d doms R -> incl R unsub -> covered d doms R unsub ->
  dom_free d doms R' -> incl R' unsub -> covered d doms R' unsub ->
  forall t, In t R <-> In t R'.
Proof.
  intros Hi Ht.
  assert (Half : forall R R', dom_free d doms R -> incl R unsub -> covered d doms R unsub ->
                              incl R' unsub -> covered d doms R' unsub -> forall t, In t R -> In t R').
  { clear R R'. intros R R' F S C S' C' a Ha.
    destruct (C' a (S a Ha)) as [H|(s' & Hs' & Has')]; [exact H|].
    destruct (C s' (S' s' Hs')) as [Hs|(s & Hs & Hss)].
    - destruct (tuple_eq_dec a s') as [->|Hne]; [exact Hs'|]. exfalso. exact (F a s' Ha Hs Hne Has').
    - assert (Has : dominates_any d doms a s) by (eapply Ht; eauto).
      destruct (tuple_eq_dec a s) as [->|Hne]; [exfalso; exact (Hi s Has)|].
      exfalso. exact (F a s Ha Hs Hne Has). }
  intros F S C F' S' C' t. split; eapply Half; eauto.
Qed.

(** * The static side conditions computed by the driver imply the hypotheses of the theorems *)
Lemma tuples_nodup_spec l : tuples_nodup l = true -> NoDup l.
Proof.
  induction l as [|x l IH]; simpl; intro H; constructor; apply andb_true_iff in H as [H1 H2]; auto.
  intro Hin. apply mem_tuple_spec in Hin. rewrite Hin in H1. discriminate.
Qed.
Lemma db_nodup_b_spec d : db_nodup_b d = true -> db_nodup d.
Proof.
  intros H r. induction d as [|[r' ts] d IH]; simpl; [constructor|].
  simpl in H. apply andb_true_iff in H as [H1 H2]. destruct (Nat.eqb r r'); [now apply tuples_nodup_spec|auto].
Qed.
Lemma choice_hyps_spec d cs : choice_hyps d cs = true ->
  db_nodup d /\ clauses_ok cs = true /\ forallb clause_det cs = true.
Proof.
  unfold choice_hyps. intro H. apply andb_true_iff in H as [H H3]. apply andb_true_iff in H as [H1 H2].
  auto using db_nodup_b_spec.
Qed.
Lemma subsume_hyps_spec d doms : subsume_hyps d doms = true -> db_nodup d /\ forallb dom_ok doms = true.
Proof. unfold subsume_hyps. intro H. apply andb_true_iff in H as [H1 H2]. auto using db_nodup_b_spec. Qed.

(** * Examples *)
Local Open Scope Z_scope.
Definition tp (a b : Z) : tuple := [VNum a; VNum b].
(** C10:  .decl pick(x,y) choice-domain x     pick(x,y) :- cand(x,y).   (0 = cand, 1 = pick) *)
Definition ex_pick : clause := {| c_rel := 1; c_args := [TVar 0; TVar 1]; c_body := [LS (SPos 0 [TVar 0; TVar 1])] |}.
Definition ex_cand : list tuple := [tp 1 10; tp 1 11; tp 2 20].
Definition ex_cdb (pick : list tuple) : db := [(0%nat, ex_cand); (1%nat, pick)].
Example ex_choice_accept : choice_ok (ex_cdb [tp 1 10; tp 2 20]) 1 [ex_pick] [[0%nat]] = Ok COk.
Proof. vm_compute. reflexivity. Qed.
Example ex_choice_accept_other : choice_ok (ex_cdb [tp 2 20; tp 1 11]) 1 [ex_pick] [[0%nat]] = Ok COk.
Proof. vm_compute. reflexivity. Qed.
Example ex_choice_functional :
  choice_ok (ex_cdb [tp 1 10; tp 1 11; tp 2 20]) 1 [ex_pick] [[0%nat]] = Ok (CFunctional (tp 1 10) (tp 1 11)).
Proof. vm_compute. reflexivity. Qed.
Example ex_choice_underivable :
  choice_ok (ex_cdb [tp 1 12; tp 2 20]) 1 [ex_pick] [[0%nat]] = Ok (CUnderivable (tp 1 12)).
Proof. vm_compute. reflexivity. Qed.
Example ex_choice_notmaximal :
  choice_ok (ex_cdb [tp 1 10]) 1 [ex_pick] [[0%nat]] = Ok (CNotMaximal (tp 2 20)).
Proof. vm_compute. reflexivity. Qed.
Example ex_choice_hyps : choice_hyps (ex_cdb [tp 1 10; tp 2 20]) [ex_pick] = true.
Proof. vm_compute. reflexivity. Qed.
(** instance of [choice_ok_iff] *)
Example ex_choice_meaning :
  let d := ex_cdb [tp 1 10; tp 2 20] in
  functional_rel [[0%nat]] (rel_of d 1) /\ derivable_rel d [ex_pick] (rel_of d 1) /\
  maximal_rel d [ex_pick] [[0%nat]] (rel_of d 1).
Proof.
  intro d. destruct (choice_hyps_spec _ _ ex_choice_hyps) as (H1 & H2 & H3).
  apply (choice_ok_iff d 1 [ex_pick] [[0%nat]] COk H1 H2 H3 ex_choice_accept). reflexivity.
Qed.
(** two insertion orders, two different (both acceptable) results *)
Example ex_choice_orders :
  insert_all [[0%nat]] [] ex_cand = [tp 1 10; tp 2 20] /\
  insert_all [[0%nat]] [] (rev ex_cand) = [tp 2 20; tp 1 11].
Proof. vm_compute. auto. Qed.

(** C11:  best(x,c) :- cand(x,c).   best(x,c1) <= best(x,c2) :- c2 < c1.   (keep the cheapest) *)
Definition ex_dom : dom :=
  {| d_pa := [TVar 0; TVar 1]; d_pb := [TVar 0; TVar 2];
     d_body := [LS (SCmp (CLt (Some TS)) (TVar 2) (TVar 1))] |}.
Definition ex_unsub : list tuple := [tp 1 5; tp 1 3; tp 2 7].
Definition ex_sdb (best : list tuple) : db := [(0%nat, ex_unsub); (1%nat, best)].
Example ex_subsume_accept : subsume_ok (ex_sdb [tp 1 3; tp 2 7]) 1 [ex_dom] ex_unsub true = Ok SOk.
Proof. vm_compute. reflexivity. Qed.
Example ex_subsume_dominated :
  subsume_ok (ex_sdb [tp 1 5; tp 1 3; tp 2 7]) 1 [ex_dom] ex_unsub true = Ok (SDominated (tp 1 5) (tp 1 3)).
Proof. vm_compute. reflexivity. Qed.
Example ex_subsume_notderivable :
  subsume_ok (ex_sdb [tp 1 2; tp 2 7]) 1 [ex_dom] ex_unsub true = Ok (SNotDerivable (tp 1 2)).
Proof. vm_compute. reflexivity. Qed.
Example ex_subsume_notminimal :
  subsume_ok (ex_sdb [tp 1 3]) 1 [ex_dom] ex_unsub true = Ok (SNotMinimal (tp 2 7)) /\
  subsume_ok (ex_sdb [tp 1 3]) 1 [ex_dom] ex_unsub false = Ok SOk.
Proof. vm_compute. auto. Qed.
Example ex_subsume_hyps : subsume_hyps (ex_sdb [tp 1 3; tp 2 7]) [ex_dom] = true.
Proof. vm_compute. reflexivity. Qed.
Example ex_subsume_meaning :
  let d := ex_sdb [tp 1 3; tp 2 7] in
  dom_free d [ex_dom] (rel_of d 1) /\ incl (rel_of d 1) ex_unsub /\ covered d [ex_dom] (rel_of d 1) ex_unsub.
Proof.
  intro d. destruct (subsume_hyps_spec _ _ ex_subsume_hyps) as (H1 & H2).
  destruct (subsume_ok_iff d 1 [ex_dom] ex_unsub true SOk H1 H2 ex_subsume_accept) as [H _].
  destruct (H eq_refl) as (A & B & C). auto.
Qed.
(** the order theorems on an instance: cost order on numbers, survivors of [3;1;2] *)
Example ex_survivors : survivors Z.ltb [3; 1; 2] = [3] /\ irreflexive Z.ltb /\ transitive Z.ltb.
Proof.
  split; [vm_compute; reflexivity|]. split; [intro a; apply Z.ltb_irrefl|].
  intros a b c H1 H2. apply Z.ltb_lt in H1, H2. apply Z.ltb_lt. lia.
Qed.
