(** C27 -- Brie tries: insertion, membership, iteration, size, prefix ranges and partitioning agree
    with a set model.
    Only statements here; proofs are in BrieLemmas.v. The model (BrieDefs.v) is tied to
    src/include/souffle/datastructure/Brie.h by the correspondence check that runs the extracted
    model (ocaml/brie_driver.ml) and the real header on the same histories: mode `asis` against the
    unchanged header as it behaves on x86-64 (including the defect below), mode `fixed` against the
    repaired header.

    Reading guide. [run_model fx m d t h] runs the history [h] (inserts, membership tests, size(),
    full iteration, getBoundaries<k> for a prefix, partition(n)) on a Trie<d+1>; [fx = false] is the
    unchanged header, [fx = true] the repaired one; [m] says what a shift by >= 64 does
    ([UBexplicit]: no result; [X86]: count mod 64). [run_spec s h] answers the same history from a
    sorted duplicate-free list of tuples [s]; tuples are ordered lexicographically by the 64-bit
    indices of their components (non-negative keys before negative ones: the iteration order of the
    real structure). Sequential histories only (see NOT PROVED in BrieLemmas.v). *)
From SV Require Import BrieDefs BrieLemmas.
Local Open Scope N_scope.

(** Index arithmetic: for shift counts below 64 [getIndex] returns the base-2^b digits, and the part
    above the root ([i & getLevelMask(L+1)]) plus the recombined digits of levels 0..L is [i]. *)
Theorem C27_digits_roundtrip : forall b i L, 0 < b -> i < 2 ^ 64 -> b * N.of_nat L < 64 ->
  (forall l, (l <= L)%nat -> getIndex b i (N.of_nat l) = Some (digit b i (N.of_nat l))) /\
  hi b (N.of_nat L + 1) i + recomp b (digit b i) L = i.
Proof. exact digits_roundtrip. Qed.
Print Assumptions C27_digits_roundtrip.

(** Two indices under the same root (equal above level L) with equal digits on all levels are equal. *)
Theorem C27_digits_inj : forall b i j L, 0 < b -> i < 2 ^ 64 -> j < 2 ^ 64 -> b * N.of_nat L < 64 ->
  (forall l, (l <= L)%nat -> getIndex b i (N.of_nat l) = getIndex b j (N.of_nat l)) ->
  hi b (N.of_nat L + 1) i = hi b (N.of_nat L + 1) j -> i = j.
Proof. exact digits_inj. Qed.
Print Assumptions C27_digits_inj.

(** The SparseArray, generically: for a class [D] of indices satisfying [sa_good] (no shift reaches
    64 and [getIndex] computes true digits for members and for the offsets derived from them),
    [update] is the update of a finite map kept as index-sorted association list [M] ... *)
Theorem C27_sa_update_get : forall (V : Type) fx m b D Q Lmax, sa_good fx m b D Q Lmax ->
  forall (s : sa V) M i v, sa_rep b D Lmax s M -> D i ->
  exists s', sa_update fx m b s i v = Some s' /\ sa_rep b D Lmax s' (cells_put i v M) /\
             sa_get fx m b s' i = Some (Some v) /\
             forall j, Q j -> j <> i -> sa_get fx m b s' j = sa_get fx m b s j.
Proof. exact sa_update_get. Qed.
Print Assumptions C27_sa_update_get.

(** ... and iteration reports the map in ascending index order. *)
Theorem C27_sa_iter_order : forall (V : Type) fx m b D Q Lmax, sa_good fx m b D Q Lmax ->
  forall (s : sa V) M, sa_rep b D Lmax s M ->
  sa_iter fx m b s = Some M /\ Sorted.StronglySorted N.lt (map fst M).
Proof. exact sa_iter_order. Qed.
Print Assumptions C27_sa_iter_order.

(** The hypothesis [sa_good] holds for the repaired header with all int32 keys (6 bits per level, up
    to 10 levels; the bitmaps' store: 4 bits per level, up to 14 levels) ... *)
Theorem C27_sa_good_fixed : forall m, sa_good true m 6 Q6 Q6 10 /\ sa_good true m 4 Q4 Q4 14.
Proof. exact sa_good_fixed. Qed.
Print Assumptions C27_sa_good_fixed.

(** ... and for the unchanged header when the keys of the array have one sign (5 resp. 6 levels
    suffice, so no offset loses its sign bit and no shift exceeds 36). *)
Theorem C27_sa_good_asis_same_sign : forall m neg,
  sa_good false m 6 (D6s neg) Q6 5 /\ sa_good false m 4 (D4s neg) Q4 6.
Proof. exact sa_good_asis_same_sign. Qed.
Print Assumptions C27_sa_good_asis_same_sign.

(** Repaired header: every history of inserts, membership tests, size(), iteration, prefix ranges
    and partition requests over int32 tuples of the right arity gets exactly the answers of the set
    model: the trie holds the union of the inserted tuples, an insert reports "new" iff the tuple was
    not present, iteration and prefix ranges list the tuples in index order, size() counts them,
    partition(n) returns consecutive chunks covering the iteration. No hypothesis on the keys, and
    no operation is undefined (the result never is [AUndef] except partition(0) of a non-empty trie,
    a division by zero, which the set model marks the same way). *)
Theorem C27_fixed_refines_set : forall m d h, Forall (ops32 d) h ->
  run_model true m d (trie_empty d) h = run_spec [] h.
Proof. exact fixed_refines_set. Qed.
Print Assumptions C27_fixed_refines_set.

(** Unchanged header: the same, provided every column receives keys of one sign ([sg dd] = sign of
    the column followed by [dd] further columns); membership tests and prefixes are arbitrary. Under
    this hypothesis no shift by 64 or more occurs ([m] arbitrary, in particular [UBexplicit]). *)
Theorem C27_asis_refines_set_same_sign : forall m sg d h, Forall (ops_signs sg d) h ->
  run_model false m d (trie_empty d) h = run_spec [] h.
Proof. exact asis_refines_set. Qed.
Print Assumptions C27_asis_refines_set_same_sign.

(** The trie ends up with exactly the union of the inserted tuples, iterated in strictly ascending
    tuple order (repaired header, any int32 tuples): *)
Theorem C27_fixed_union_sorted : forall m d tups, Forall (tup32 d) tups ->
  exists l, last (run_model true m d (trie_empty d) (map OIns tups ++ [OIter])) AUndef = ATuples l /\
            Sorted.StronglySorted tuple_lt l /\ forall t, In t l <-> In t tups.
Proof. exact fixed_union_sorted. Qed.
Print Assumptions C27_fixed_union_sorted.

(** the same for the unchanged header when every column has one sign *)
Theorem C27_asis_union_sorted_same_sign : forall m sg d tups, Forall (tup_signs sg d) tups ->
  exists l, last (run_model false m d (trie_empty d) (map OIns tups ++ [OIter])) AUndef = ATuples l /\
            Sorted.StronglySorted tuple_lt l /\ forall t, In t l <-> In t tups.
Proof. exact asis_union_sorted. Qed.
Print Assumptions C27_asis_union_sorted_same_sign.

(** Prefix ranges and partitioning are part of the histories of the two refinement theorems above
    ([OPrefix], [OPart]); what the set model answers: a prefix range is the sub-list of the tuples
    that start with the prefix ([set_prefix] = filter), and the chunks of a partition, concatenated,
    are the whole iteration - every tuple exactly once, in order: *)
Theorem C27_partition_covers : forall s n, concat (set_partition s n) = s.
Proof. exact partition_covers. Qed.
Print Assumptions C27_partition_covers.

(** The defect of the unchanged header (F6). Trie<1>: insert -1, insert 5, then contains(-1) is false
    although the iteration lists -1; the model with undefined shifts gives the same answers, so no
    shift >= 64 is involved in this history; the set model answers true. *)
Theorem C27_trie_mixed_sign_refuted :
  run_model false X86 0 (trie_empty 0) [OIns [-1]; OIns [5]; OMem [-1]; OMem [5]; OIter]%Z
    = [ABool true; ABool true; ABool false; ABool true; ATuples [[5]; [-1]]]%Z /\
  run_model false UBexplicit 0 (trie_empty 0) [OIns [-1]; OIns [5]; OMem [-1]]%Z
    = [ABool true; ABool true; ABool false] /\
  run_spec [] [OIns [-1]; OIns [5]; OMem [-1]; OMem [5]; OIter]%Z
    = [ABool true; ABool true; ABool true; ABool true; ATuples [[5]; [-1]]]%Z.
Proof. exact trie_mixed_sign_refuted. Qed.
Print Assumptions C27_trie_mixed_sign_refuted.

(** Hence the refinement statement without the hypothesis on the signs is false of the unchanged header. *)
Theorem C27_asis_refines_set_refuted :
  exists d h, Forall (ops32 d) h /\ run_model false X86 d (trie_empty d) h <> run_spec [] h.
Proof. exact asis_refines_set_refuted. Qed.
Print Assumptions C27_asis_refines_set_refuted.

(** Trie<2> with keys of both signs in the first column, in either insertion order: stepping an
    iterator past the level-10 root evaluates a shift by 66 (undefined); on x86 the answers of the
    non-negative-first order come out right, those of the negative-first order lose (-1,1). *)
Theorem C27_trie2_mixed_sign_shift_undefined :
  run_model false UBexplicit 1 (trie_empty 1) [OIns [5; 1]; OIns [-1; 2]; OMem [-1; 2]; OIter; OSize]%Z
    = [ABool true; ABool true; ABool true; AUndef; AUndef] /\
  run_model false X86 1 (trie_empty 1) [OIns [5; 1]; OIns [-1; 2]; OMem [-1; 2]; OIter; OSize]%Z
    = [ABool true; ABool true; ABool true; ATuples [[5; 1]; [-1; 2]]; ANum 2]%Z /\
  run_model false X86 1 (trie_empty 1) [OIns [-1; 1]; OIns [5; 2]; OMem [-1; 1]; OIter; OPrefix [-1]]%Z
    = [ABool true; ABool true; ABool false; ATuples [[5; 2]; [-1; 1]]; ATuples []]%Z.
Proof. exact trie2_mixed_sign_shift_undefined. Qed.
Print Assumptions C27_trie2_mixed_sign_shift_undefined.

(** Bounded exhaustive statement (bound in the statement): for Trie<1>, all insertion sequences of
    length <= 3 over the keys -2^31, -1, 0, 5, 2^31-1, each followed by a membership test for every
    key, an iteration and size(): the x86 model of the unchanged header agrees with the set model
    iff the sequence does not start with a negative key followed later by a non-negative one. *)
Theorem C27_asis_defect_condition_bounded :
  exact_check [-2147483648; -1; 0; 5; 2147483647]%Z 3 = true.
Proof. exact asis_defect_condition_bounded. Qed.
Print Assumptions C27_asis_defect_condition_bounded.
