(** * SemiNaiveRam -- a validator for the RAM that Souffle emits for a recursive stratum (C09).

    [souffle --show=initial-ram] prints the relational-algebra program.  A translator outside Coq
    (harness/ramparse.py, trusted glue) turns every [LOOP ... END LOOP] of that text, together with
    the copy queries in front of it, into a *skeleton* (type [stratum] below).  This file defines the
    skeleton, an executable checker [stratum_check], and proves that an accepted skeleton is an
    instance of the abstract semi-naive scheme of SemiNaiveAbs.v ([version_ok], [New], [loop_run]).

    What the skeleton mirrors (all in /repo/src/ast2ram):
    - seminaive/UnitTranslator.cpp [generateRecursiveStratum]: preamble; LOOP (loop body; join sizes;
      exit sequence; table updates; loop counter); postamble.
    - [generateStratumPreamble]: per SCC relation [generateMergeRelations(rel, @delta_rel, rel)], printed
      [FOR t0 IN R  INSERT (t0.0,..) INTO @delta_R]                       -> [st_preamble].
    - [generateStratumExitSequence]: [EXIT (ISEMPTY(@new_R1) AND ...)]     -> [st_exit];
      per [.limitsize] relation [EXIT (SIZE(R) >= n)]                      -> [st_limits].
    - [generateStratumTableUpdates]: per relation merge @new into main, [SWAP (@delta_R, @new_R)],
      [CLEAR @new_R]                                                       -> [st_update].
    - [generateStratumLoopBody] / [translateRecursiveClauses] / [generateClauseVersions]: per recursive
      clause, for [version] in [0, sccAtoms.size()) one QUERY            -> [c_versions].
    - seminaive/ClauseTranslator.cpp [createRamRuleQuery]: scans in the order of [getAtomOrdering]
      ([v_scans]), [addVariableBindingConstraints] / [addConstantConstraints] equalities ([v_eqs]),
      [addBodyLiteralConstraints]: [addNegatedAtom(head)] and, for [j] in [version+1, sccAtoms.size()),
      [addNegatedDeltaAtom(sccAtoms.at(j))] ([v_negs]); [createInsertion] ([v_ins_*]).
      utility/Utils.cpp [getAtomName]: the head is @new, [sccAtoms.at(version)] is @delta, every other
      atom is the main relation.

    Deviation from "version i has its delta at the i-th SCC scan": [getAtomOrdering] does not keep the
    source order.  Without a [.plan] it asks the SIPS (utility/TranslatorContext.cpp: default
    "all-bound"; utility/SipsMetric.cpp [StaticSipsMetric::getReordering], [AllBoundSips::evaluateCosts]:
    an atom whose arguments are all bound is taken first, else the left-most), while [sccAtoms] and
    [version] stay in source order.  The order is the same for all versions of a clause (the static
    SIPS ignores the atom names), so the scans of the versions agree, but version [i] may have its
    @delta at SCC atom position [perm(i)] for a permutation [perm] of the positions (the positions of
    [scc_atoms]: the SCC scans in scan order, then the SCC atoms without a scan in the order of their
    emptiness tests; with a [.plan] for one version the scans of the versions differ and the clause
    is rejected, [RScanMismatch]).  The checker
    therefore reads [perm] off the versions ([clause_perm]), demands that it is a permutation, and
    demands the negated deltas of version [i] exactly for the positions [perm(j)], [j > i].  The facts
    handed to the abstract scheme are listed in [perm] order ([clause_facts]), which is the source
    order of the SCC atoms; for [perm] = identity and no atoms without a scan this is the order of
    the scans ([clause_facts_identity]).

    Besides the frame and the delta scheme the checker demands that the versions of a clause agree
    on everything else ([uniform]: scans, negations and emptiness tests of lower strata, equalities,
    number of other filters, insertion), as [translateRecursiveClause] translates the same clause each time; this
    is what lets one rule of the abstract scheme ([fire_clause]) stand for all versions
    ([version_emits_iff], [emitted_body_is_New], [emitted_stratum_sound]).

    Trusted, outside this file: the translator from the RAM text to the skeleton.  It takes the SCC
    to be the relations that have table-update statements, sets the three update flags without
    recording the order of the statements, and counts the filters it does not classify
    ([v_others]; among them the emptiness test [IF (NOT ISEMPTY(rel))] that [addAtomScan] puts
    directly under the scan of [rel], which the scan implies; every other [IF (NOT ISEMPTY(rel))]
    is listed in [v_tests]).  The remaining filters of a clause are a
    parameter [others_sat] of the semantics, the same for all versions of the clause.

    Relations of arity 0, atoms without a scan, heads without arguments ([addAtomScan],
    [addNegatedDeltaAtom], [addNegatedAtom], [createCondition], [createInsertion],
    UnitTranslator.cpp [generateMergeRelations]):
    - [addAtomScan] emits no scan for an atom of arity 0 or with only unnamed arguments, only
      [IF (NOT ISEMPTY(rel))] with [rel] chosen by [getAtomName] as for a scan       -> [v_tests].
      (ast/transform/PartitionBodyLiterals.cpp moves an atom [Q(_,_)] of a clause with a head of
      arity > 0 into a clause [+disconnectedN() :- Q(_,_).], so in such a clause only atoms of arity 0
      are left without a scan; in the +disconnected clause itself [Q] keeps its arity and has no
      scan.  Both occur in the RAM and both are read.)
      Semantics: the test holds iff the relation is not empty ([test_sat]); as a member of a body
      combination the atom stands for SOME tuple of its relation: the facts handed to the abstract
      scheme take it from a witness function [w] ([afact_at], [clause_facts]), and the soundness
      statements say "the filters of version [i] hold iff there is [w] with
      [version_ok R D i (clause_facts c asg w)]".  On clauses without such atoms the facts do not
      depend on [w] ([version_ok_sound_scans] is the former statement).
    - [addNegatedDeltaAtom] emits [IF ISEMPTY(@delta_r)] for an atom of arity 0       -> [v_empties].
      It says "no tuple in @delta_r", which is "the tuple of the atom is not in @delta_r" only when
      [r] holds at most one tuple.  [stratum_check] therefore demands that [r] is among the
      relations whose copy statements have the form for arity 0 ([st_nullary], [nullary_check]),
      and the theorems assume that these relations hold at most the empty tuple (typed RAM:
      [INSERT () INTO r]).  For an atom with only unnamed arguments over a relation of arity > 0
      the emitted negated delta is [IF (NOT (_,..,_) IN @delta_r)]; the translator does not produce a
      skeleton then (fails closed).  Such an atom is accepted where no negated delta is due for
      it: as the first SCC atom in source order, in particular as the only one.
    - [createCondition]: a clause with a head [H] of arity 0 starts with [IF ISEMPTY(H)], and
      [addBodyLiteralConstraints] emits no [NOT () IN H]: [ISEMPTY(H)] is the head guard
      ([has_guard], [is_guard0]), also listed in [v_empties].  A negated atom of arity 0 of a lower
      stratum is [IF ISEMPTY(L)] as well ([lower_empties], part of [fire_clause]).
    - [createInsertion] puts [IF ISEMPTY(@new_H)] in front of [INSERT () INTO @new_H], and
      [addAtomScan] puts [IF (NOT ISEMPTY(@new_H)) BREAK] under every scan ([v_breaks]).  Both only
      save work: when @new_H is not empty it already holds the empty tuple, the only tuple the
      QUERY can insert.  The checker demands that they test @new of the head relation and that the
      head has no arguments ([empty_ok], [break_ok]); the semantics of a QUERY ([version_emits]) has the
      test as a filter on @new, the loop body is the union of the QUERYs taken on empty @new
      relations ([body_emitted]), and [self_test_redundant] proves that this leaves the same
      tuples in @new as the QUERY run on the @new relations it finds.  The BREAK is not modelled.
    - Frame: the copy statements of a relation of arity 0 are [IF (NOT ISEMPTY(src)) INSERT () INTO dst]
      ([copied]); the translator lists these relations in [st_nullary].

    Not covered; the checker rejects (never accepts) such strata:
    - subsumptive clauses ([translateSubsumptiveRecursiveClauses], other exit test and table update),
      eqrel relations ([MergeExtend] instead of the copy loop), lattice relations
      ([generateStratumLubSequence]): the frame has other statements, [RFrame _].
    - [ISEMPTY(@delta_r)] for a relation without the arity-0 copy statements: [RUnsupported UWide].
    Equalities: the translator lists every [IF (X = Y)]; for float attributes [addEqualityCheck] emits
    FEQ, which is not identity of bit patterns; the soundness theorems take [sat_eqs] (identity of the
    values) as a hypothesis.

    Relation ids, tuple ids and expression numbers are [N]; component indices and positions are [nat].
    No classical axioms; no decidability hypotheses are needed here (those of SemiNaiveAbs.v enter
    when its theorems about [New] and [loop_run] are applied to the result). *)
From Coq Require Import List Arith NArith Bool Lia.
From SV Require Import SemiNaiveAbs.
Import ListNotations.

Arguments N.eqb : simpl never.

(** ** The skeleton *)
Inductive kind := KMain | KDelta | KNew.          (* R, @delta_R, @new_R *)
Inductive elem :=
| EComp (t : N) (i : nat)                          (* component i of tuple t *)
| EOther (n : N).                                  (* any other expression; equal numbers = same text *)

Record scan := mkScan { s_tup : N; s_rel : N; s_kind : kind }.
Record neg := mkNeg { n_rel : N; n_kind : kind; n_args : list elem }.
(** an emptiness test on a relation: [ISEMPTY(rel)] or its negation, depending on the list it is in *)
Record test := mkTest { e_rel : N; e_kind : kind }.
Record version := mkVersionX {
  v_scans : list scan;
  v_eqs : list (elem * elem);
  v_negs : list neg;
  v_others : N;
  v_ins_rel : N; v_ins_kind : kind; v_ins_args : list elem;
  v_tests : list test;       (* [IF (NOT ISEMPTY(rel))] of the atoms that have no scan *)
  v_empties : list test;     (* [IF ISEMPTY(rel)] *)
  v_breaks : list test }.    (* [IF (NOT ISEMPTY(rel)) BREAK] *)
(** a version without emptiness tests *)
Definition mkVersion sc eq ng ot ir ik ia : version := mkVersionX sc eq ng ot ir ik ia [] [] [].
Record clause := mkClause { c_id : N; c_versions : list version }.
Record update := mkUpdate { u_rel : N; u_merge : bool; u_swap : bool; u_clear : bool }.
Record stratum := mkStratumX {
  st_scc : list N;
  st_preamble : list N;
  st_exit : list N;
  st_limits : list (N * N);
  st_update : list update;
  st_clauses : list clause;
  st_nullary : list N }.     (* the relations whose copy statements have the form for arity 0 *)
Definition mkStratum scc pre ex lim upd cls : stratum := mkStratumX scc pre ex lim upd cls [].

(** ** Results of the checker *)
Inductive unsup := UScanKind | UNullary | UNegKind | USccNegation | UTestKind | UEmptyKind | UBreak | UWide.
Inductive frame_item := FPreamble | FExit | FUpdateSet | FUpdateDup | FUpdateFlags | FLimits | FNullary.
Inductive reason :=
| RVersionsCount (c : N)
| RScanMismatch (c : N) (v : nat)
| RVersionMismatch (c : N) (v : nat)
| RDeltaPosition (c : N) (v : nat)
| RMissingNegDelta (c : N) (v : nat) (pos : nat)
| RExtraNegDelta (c : N) (v : nat)
| RGuard (c : N) (v : nat)
| RInsertTarget (c : N) (v : nat)
| RFrame (w : frame_item) (r : N)
| RUnsupported (w : unsup) (c : N) (v : nat).
Inductive result := OkResult | Reject (r : reason).

Definition guard (b : bool) (r : reason) : result := if b then OkResult else Reject r.
Definition andr (a b : result) : result := match a with OkResult => b | Reject r => Reject r end.
Infix ";;" := andr (at level 61, left associativity).

Fixpoint check_from {A : Type} (i : nat) (f : nat -> A -> result) (l : list A) : result :=
  match l with
  | [] => OkResult
  | a :: l' => match f i a with OkResult => check_from (S i) f l' | Reject r => Reject r end
  end.
Definition check_all {A : Type} (f : nat -> A -> result) (l : list A) : result := check_from 0 f l.

Definition is_ok (r : result) : bool := match r with OkResult => true | Reject _ => false end.

(** ** Equality tests *)
Definition kind_eqb (a b : kind) : bool :=
  match a, b with
  | KMain, KMain => true | KDelta, KDelta => true | KNew, KNew => true
  | _, _ => false
  end.
Definition elem_eqb (a b : elem) : bool :=
  match a, b with
  | EComp t i, EComp t' i' => N.eqb t t' && Nat.eqb i i'
  | EOther n, EOther n' => N.eqb n n'
  | _, _ => false
  end.
Fixpoint elems_eqb (a b : list elem) : bool :=
  match a, b with
  | [], [] => true
  | x :: a', y :: b' => elem_eqb x y && elems_eqb a' b'
  | _, _ => false
  end.
Definition memN (r : N) (l : list N) : bool := existsb (N.eqb r) l.
Definition mem_elem (x : elem) (l : list elem) : bool := existsb (elem_eqb x) l.
Definition is_nil {A : Type} (l : list A) : bool := match l with [] => true | _ => false end.

(** ** Equality of elements modulo the equality filters of a version.
    Saturation: the class of [x] is grown by passes over the equalities; an equality is used when one
    side is already in the class, so [length eqs] passes reach the whole class. *)
Definition close_step (s : list elem) (p : elem * elem) : list elem :=
  if mem_elem (fst p) s then (if mem_elem (snd p) s then s else snd p :: s)
  else if mem_elem (snd p) s then fst p :: s else s.
Definition close_pass (eqs : list (elem * elem)) (s : list elem) : list elem :=
  fold_left close_step eqs s.
Fixpoint close_n (n : nat) (eqs : list (elem * elem)) (s : list elem) : list elem :=
  match n with 0 => s | S n' => close_n n' eqs (close_pass eqs s) end.
Definition equiv (eqs : list (elem * elem)) (x y : elem) : bool :=
  mem_elem y (close_n (length eqs) eqs [x]).

(** [args] is, component by component, the tuple [t] modulo [eqs] *)
Fixpoint args_match_from (eqs : list (elem * elem)) (t : N) (c : nat) (args : list elem) : bool :=
  match args with
  | [] => true
  | x :: rest => equiv eqs x (EComp t c) && args_match_from eqs t (S c) rest
  end.
Definition args_match eqs t args := args_match_from eqs t 0 args.

(** ** The checks on one version that do not depend on its number *)
Definition in_scc (scc : list N) (r : N) : bool := memN r scc.
Definition scc_scans (scc : list N) (v : version) : list scan :=
  filter (fun s => in_scc scc (s_rel s)) (v_scans v).
Definition scc_tests (scc : list N) (v : version) : list test :=
  filter (fun e => in_scc scc (e_rel e)) (v_tests v).
Definition delta_negs (v : version) : list neg :=
  filter (fun n => kind_eqb (n_kind n) KDelta) (v_negs v).
Definition delta_empties (v : version) : list test :=
  filter (fun e => kind_eqb (e_kind e) KDelta) (v_empties v).

(** The SCC atoms of a version: those with a scan (the tuple id is kept), then those without
    ([a_tup = None]).  The order is internal; the order of the facts handed to the abstract scheme is
    the order of the versions ([clause_perm]). *)
Record atom := mkAtom { a_tup : option N; a_rel : N; a_kind : kind }.
Definition atom_of_scan (s : scan) : atom := mkAtom (Some (s_tup s)) (s_rel s) (s_kind s).
Definition atom_of_test (e : test) : atom := mkAtom None (e_rel e) (e_kind e).
Definition scc_atoms (scc : list N) (v : version) : list atom :=
  map atom_of_scan (scc_scans scc v) ++ map atom_of_test (scc_tests scc v).

Definition scan_kind_ok (scc : list N) (s : scan) : bool :=
  match s_kind s with KMain => true | KDelta => in_scc scc (s_rel s) | KNew => false end.
Definition test_kind_ok (scc : list N) (e : test) : bool :=
  match e_kind e with KMain => true | KDelta => in_scc scc (e_rel e) | KNew => false end.
(** the filter [NOT (head args) IN H] of [addNegatedAtom] *)
Definition is_guard (v : version) (n : neg) : bool :=
  kind_eqb (n_kind n) KMain && N.eqb (n_rel n) (v_ins_rel v) && elems_eqb (n_args n) (v_ins_args v).
(** [r] is the head relation and the head has no arguments *)
Definition nullary_head (v : version) (r : N) : bool := N.eqb r (v_ins_rel v) && is_nil (v_ins_args v).
(** the filter [ISEMPTY(H)] of [createCondition] *)
Definition is_guard0 (v : version) (e : test) : bool :=
  kind_eqb (e_kind e) KMain && N.eqb (e_rel e) (v_ins_rel v).
Definition has_guard (v : version) : bool :=
  if is_nil (v_ins_args v) then existsb (is_guard0 v) (v_empties v) else existsb (is_guard v) (v_negs v).
(** a negation of a main SCC relation can only be the head guard (stratification) *)
Definition scc_neg_ok (scc : list N) (v : version) (n : neg) : bool :=
  if kind_eqb (n_kind n) KMain && in_scc scc (n_rel n) then is_guard v n else true.
Definition delta_neg_in_scc (scc : list N) (n : neg) : bool :=
  if kind_eqb (n_kind n) KDelta then in_scc scc (n_rel n) else true.
(** [ISEMPTY(rel)]: on a main SCC relation only the guard of a head without arguments; on @delta only
    for SCC relations (negated delta); on @new only the test in front of [INSERT () INTO @new_H] *)
Definition empty_ok (scc : list N) (v : version) (e : test) : bool :=
  match e_kind e with
  | KMain => if in_scc scc (e_rel e) then nullary_head v (e_rel e) else true
  | KDelta => in_scc scc (e_rel e)
  | KNew => nullary_head v (e_rel e)
  end.
(** [IF (NOT ISEMPTY(@new_H)) BREAK] for a head [H] without arguments *)
Definition break_ok (v : version) (e : test) : bool :=
  kind_eqb (e_kind e) KNew && nullary_head v (e_rel e).

Definition version_local (scc : list N) (cid : N) (i : nat) (v : version) : result :=
  guard (forallb (scan_kind_ok scc) (v_scans v)) (RUnsupported UScanKind cid i) ;;
  guard (kind_eqb (v_ins_kind v) KNew && in_scc scc (v_ins_rel v)) (RInsertTarget cid i) ;;
  guard (forallb (test_kind_ok scc) (v_tests v)) (RUnsupported UTestKind cid i) ;;
  guard (forallb (fun n => negb (is_nil (n_args n))) (v_negs v)) (RUnsupported UNullary cid i) ;;
  guard (forallb (fun n => negb (kind_eqb (n_kind n) KNew)) (v_negs v)) (RUnsupported UNegKind cid i) ;;
  guard (forallb (delta_neg_in_scc scc) (v_negs v)) (RExtraNegDelta cid i) ;;
  guard (forallb (scc_neg_ok scc v) (v_negs v)) (RUnsupported USccNegation cid i) ;;
  guard (has_guard v) (RGuard cid i) ;;
  guard (forallb (empty_ok scc v) (v_empties v)) (RUnsupported UEmptyKind cid i) ;;
  guard (forallb (break_ok v) (v_breaks v)) (RUnsupported UBreak cid i).

(** ** The checks on a clause *)
Fixpoint scans_same (l1 l2 : list scan) : bool :=
  match l1, l2 with
  | [], [] => true
  | a :: l1', b :: l2' => N.eqb (s_tup a) (s_tup b) && N.eqb (s_rel a) (s_rel b) && scans_same l1' l2'
  | _, _ => false
  end.
Fixpoint tests_same (l1 l2 : list test) : bool :=
  match l1, l2 with
  | [], [] => true
  | a :: l1', b :: l2' => N.eqb (e_rel a) (e_rel b) && tests_same l1' l2'
  | _, _ => false
  end.

(** Everything except the placement of the delta and the negated deltas is the same in all versions
    of a clause: the scans of lower strata, the equalities, the negations of lower strata, the
    number of other filters, the insertion, the emptiness tests on relations of lower strata. *)
Fixpoint list_eqb {A : Type} (eqb : A -> A -> bool) (l1 l2 : list A) : bool :=
  match l1, l2 with
  | [], [] => true
  | a :: l1', b :: l2' => eqb a b && list_eqb eqb l1' l2'
  | _, _ => false
  end.
Definition scan_eqb (a b : scan) : bool :=
  N.eqb (s_tup a) (s_tup b) && N.eqb (s_rel a) (s_rel b) && kind_eqb (s_kind a) (s_kind b).
Definition neg_eqb (a b : neg) : bool :=
  N.eqb (n_rel a) (n_rel b) && kind_eqb (n_kind a) (n_kind b) && elems_eqb (n_args a) (n_args b).
Definition test_eqb (a b : test) : bool :=
  N.eqb (e_rel a) (e_rel b) && kind_eqb (e_kind a) (e_kind b).
Definition eq_pair_eqb (p q : elem * elem) : bool :=
  elem_eqb (fst p) (fst q) && elem_eqb (snd p) (snd q).
Definition lower_scans (scc : list N) (v : version) : list scan :=
  filter (fun s => negb (in_scc scc (s_rel s))) (v_scans v).
Definition lower_negs (scc : list N) (v : version) : list neg :=
  filter (fun n => negb (in_scc scc (n_rel n))) (v_negs v).
Definition lower_tests (scc : list N) (v : version) : list test :=
  filter (fun e => negb (in_scc scc (e_rel e))) (v_tests v).
Definition lower_empties (scc : list N) (v : version) : list test :=
  filter (fun e => negb (in_scc scc (e_rel e))) (v_empties v).
Definition uniform (scc : list N) (v0 v : version) : bool :=
  list_eqb scan_eqb (lower_scans scc v) (lower_scans scc v0) &&
  list_eqb eq_pair_eqb (v_eqs v) (v_eqs v0) &&
  list_eqb neg_eqb (lower_negs scc v) (lower_negs scc v0) &&
  N.eqb (v_others v) (v_others v0) &&
  N.eqb (v_ins_rel v) (v_ins_rel v0) && elems_eqb (v_ins_args v) (v_ins_args v0) &&
  list_eqb test_eqb (lower_tests scc v) (lower_tests scc v0) &&
  list_eqb test_eqb (lower_empties scc v) (lower_empties scc v0).

Definition is_delta (a : atom) : bool := kind_eqb (a_kind a) KDelta.
Fixpoint dpos_from (n : nat) (l : list atom) : list nat :=
  match l with
  | [] => []
  | s :: l' => if is_delta s then n :: dpos_from (S n) l' else dpos_from (S n) l'
  end.
(** the SCC atom position that reads @delta, if there is exactly one *)
Definition delta_pos (scc : list N) (v : version) : option nat :=
  match dpos_from 0 (scc_atoms scc v) with [p] => Some p | _ => None end.
Definition is_some {A : Type} (o : option A) : bool := match o with Some _ => true | None => false end.
Definition clause_perm (scc : list N) (c : clause) : list nat :=
  map (fun v => match delta_pos scc v with Some p => p | None => 0 end) (c_versions c).

Fixpoint nodup_from (cid : N) (i : nat) (seen : list nat) (l : list nat) : result :=
  match l with
  | [] => OkResult
  | p :: l' => if existsb (Nat.eqb p) seen then Reject (RDeltaPosition cid i)
               else nodup_from cid (S i) (p :: seen) l'
  end.

(** [n] is [NOT (t_p modulo eqs) IN @delta_{R_p}] for the scanned SCC atom at position [p] *)
Definition neg_matches (scc : list N) (v : version) (p : nat) (n : neg) : bool :=
  match nth_error (scc_atoms scc v) p with
  | Some a => match a_tup a with
              | Some t => N.eqb (n_rel n) (a_rel a) && args_match (v_eqs v) t (n_args n)
              | None => false
              end
  | None => false
  end.
(** [e] is [ISEMPTY(@delta_{R_p})] for the SCC atom without a scan at position [p] *)
Definition empt_matches (scc : list N) (v : version) (p : nat) (e : test) : bool :=
  match nth_error (scc_atoms scc v) p with
  | Some a => match a_tup a with Some _ => false | None => N.eqb (e_rel e) (a_rel a) end
  | None => false
  end.
(** [later]: the positions [perm(j)], [j > i] *)
Definition negdelta_check (scc : list N) (cid : N) (i : nat) (v : version) (later : list nat) : result :=
  match find (fun p => negb (existsb (neg_matches scc v p) (delta_negs v) ||
                             existsb (empt_matches scc v p) (delta_empties v))) later with
  | Some p => Reject (RMissingNegDelta cid i p)
  | None => OkResult
  end ;;
  guard (forallb (fun n => existsb (fun p => neg_matches scc v p n) later) (delta_negs v))
        (RExtraNegDelta cid i) ;;
  guard (forallb (fun e => existsb (fun p => empt_matches scc v p e) later) (delta_empties v))
        (RExtraNegDelta cid i).

Definition clause_check (scc : list N) (c : clause) : result :=
  match c_versions c with
  | [] => Reject (RVersionsCount (c_id c))
  | v0 :: _ =>
      let vs := c_versions c in
      let perm := clause_perm scc c in
      check_all (fun i v => guard (scans_same (v_scans v) (v_scans v0) && tests_same (v_tests v) (v_tests v0))
                                  (RScanMismatch (c_id c) i)) vs ;;
      check_all (fun i v => guard (uniform scc v0 v) (RVersionMismatch (c_id c) i)) vs ;;
      check_all (version_local scc (c_id c)) vs ;;
      guard (Nat.eqb (length vs) (length (scc_atoms scc v0))) (RVersionsCount (c_id c)) ;;
      check_all (fun i v => guard (is_some (delta_pos scc v)) (RDeltaPosition (c_id c) i)) vs ;;
      nodup_from (c_id c) 0 [] perm ;;
      check_all (fun i v => negdelta_check scc (c_id c) i v (skipn (S i) perm)) vs
  end.

(** [ISEMPTY(@delta_r)] stands for a negated delta only when [r] holds at most the empty tuple:
    [r] must be among the relations whose copy statements have the form for arity 0 *)
Definition nullary_check (nul : list N) (c : clause) : result :=
  check_all (fun i v => guard (forallb (fun e => memN (e_rel e) nul) (delta_empties v))
                              (RUnsupported UWide (c_id c) i)) (c_versions c).

(** ** The frame *)
Definition first_missing (a b : list N) : option N := find (fun r => negb (memN r b)) a.
Definition same_set (w : frame_item) (a b : list N) : result :=
  match first_missing a b with
  | Some r => Reject (RFrame w r)
  | None => match first_missing b a with Some r => Reject (RFrame w r) | None => OkResult end
  end.
Fixpoint first_dup (seen : list N) (l : list N) : option N :=
  match l with
  | [] => None
  | r :: l' => if memN r seen then Some r else first_dup (r :: seen) l'
  end.
Definition flags_ok (u : update) : bool := u_merge u && u_swap u && u_clear u.

Definition frame_check (s : stratum) : result :=
  same_set FPreamble (st_scc s) (st_preamble s) ;;
  same_set FExit (st_scc s) (st_exit s) ;;
  same_set FUpdateSet (st_scc s) (map u_rel (st_update s)) ;;
  match first_dup [] (map u_rel (st_update s)) with
  | Some r => Reject (RFrame FUpdateDup r) | None => OkResult end ;;
  match find (fun u => negb (flags_ok u)) (st_update s) with
  | Some u => Reject (RFrame FUpdateFlags (u_rel u)) | None => OkResult end ;;
  match find (fun p => negb (in_scc (st_scc s) (fst p))) (st_limits s) with
  | Some p => Reject (RFrame FLimits (fst p)) | None => OkResult end ;;
  match first_missing (st_nullary s) (st_scc s) with
  | Some r => Reject (RFrame FNullary r) | None => OkResult end.

Definition stratum_check (s : stratum) : result :=
  frame_check s ;; check_all (fun _ c => clause_check (st_scc s) c) (st_clauses s) ;;
  check_all (fun _ c => nullary_check (st_nullary s) c) (st_clauses s).

Definition version_okb (scc : list N) (cid : N) (i : nat) (v : version) : bool :=
  is_ok (version_local scc cid i v).
Definition clause_ok (scc : list N) (c : clause) : bool := is_ok (clause_check scc c).
Definition stratum_ok (s : stratum) : bool := is_ok (stratum_check s).

(** ** Facts about the combinators *)
Lemma andr_ok a b : a ;; b = OkResult <-> a = OkResult /\ b = OkResult.
Proof. destruct a; simpl; split; try tauto; intros H; try discriminate; destruct H; discriminate. Qed.

Lemma guard_ok b r : guard b r = OkResult <-> b = true.
Proof. destruct b; simpl; split; auto; discriminate. Qed.

Lemma check_from_ok (A : Type) (f : nat -> A -> result) (l : list A) : forall i,
  check_from i f l = OkResult -> forall j a, nth_error l j = Some a -> f (i + j) a = OkResult.
Proof.
  induction l as [|x l IH]; intros i H j a Hj; [destruct j; discriminate|].
  simpl in H. destruct (f i x) eqn:E; [| discriminate].
  destruct j as [|j]; simpl in Hj.
  - inversion Hj; subst. rewrite Nat.add_0_r. exact E.
  - replace (i + S j) with (S i + j) by lia. eapply IH; eauto.
Qed.

Lemma check_all_ok (A : Type) (f : nat -> A -> result) (l : list A) :
  check_all f l = OkResult -> forall j a, nth_error l j = Some a -> f j a = OkResult.
Proof. intros H j a Hj. exact (check_from_ok A f l 0 H j a Hj). Qed.

Lemma kind_eqb_eq a b : kind_eqb a b = true <-> a = b.
Proof. destruct a, b; simpl; split; auto; discriminate. Qed.

Lemma elem_eqb_eq a b : elem_eqb a b = true <-> a = b.
Proof.
  destruct a as [t i | n], b as [t' i' | n']; simpl; split; intros H; try discriminate.
  - apply andb_true_iff in H as [H1 H2]. apply N.eqb_eq in H1. apply Nat.eqb_eq in H2. subst; auto.
  - inversion H; subst. rewrite N.eqb_refl, Nat.eqb_refl. reflexivity.
  - apply N.eqb_eq in H. subst; auto.
  - inversion H; subst. apply N.eqb_refl.
Qed.

Lemma elems_eqb_eq a : forall b, elems_eqb a b = true -> a = b.
Proof.
  induction a as [|x a IH]; intros [|y b] H; simpl in H; try discriminate; auto.
  apply andb_true_iff in H as [H1 H2]. apply elem_eqb_eq in H1. subst. f_equal. auto.
Qed.

Lemma memN_In r l : memN r l = true <-> In r l.
Proof.
  unfold memN. rewrite existsb_exists. split.
  - intros (x & Hin & Hx). apply N.eqb_eq in Hx. subst; auto.
  - intros H. exists r. split; auto. apply N.eqb_refl.
Qed.

Lemma mem_elem_In x l : mem_elem x l = true <-> In x l.
Proof.
  unfold mem_elem. rewrite existsb_exists. split.
  - intros (y & Hin & Hy). apply elem_eqb_eq in Hy. subst; auto.
  - intros H. exists x. split; auto. apply elem_eqb_eq. reflexivity.
Qed.

Lemma In_skipn_iff (A : Type) (l : list A) : forall n x,
  In x (skipn n l) <-> exists j, n <= j /\ nth_error l j = Some x.
Proof.
  induction l as [|a l IH]; intros n x.
  - rewrite skipn_nil. split; [intros [] | intros (j & _ & H); destruct j; discriminate].
  - destruct n as [|n]; simpl.
    + split.
      * intros [-> | Hin]; [exists 0; split; auto|].
        apply In_nth_error in Hin as [j Hj]. exists (S j). split; [lia | exact Hj].
      * intros (j & _ & Hj). destruct j as [|j]; simpl in Hj; [inversion Hj; auto|].
        right. eapply nth_error_In; eauto.
    + rewrite IH. split; intros (j & Hle & Hj).
      * exists (S j). split; [lia | exact Hj].
      * destruct j as [|j]; [lia|]. exists j. split; [lia | exact Hj].
Qed.

Lemma scans_same_sig l1 : forall l2, scans_same l1 l2 = true ->
  map (fun s => (s_tup s, s_rel s)) l1 = map (fun s => (s_tup s, s_rel s)) l2.
Proof.
  induction l1 as [|a l1 IH]; intros [|b l2] H; simpl in H; try discriminate; auto.
  apply andb_true_iff in H as [H H3]. apply andb_true_iff in H as [H1 H2].
  apply N.eqb_eq in H1, H2. simpl. rewrite H1, H2. f_equal. auto.
Qed.

Lemma sig_filter (f : N -> bool) l1 : forall l2,
  map (fun s => (s_tup s, s_rel s)) l1 = map (fun s => (s_tup s, s_rel s)) l2 ->
  map (fun s => (s_tup s, s_rel s)) (filter (fun s => f (s_rel s)) l1) =
  map (fun s => (s_tup s, s_rel s)) (filter (fun s => f (s_rel s)) l2).
Proof.
  induction l1 as [|a l1 IH]; intros [|b l2] H; simpl in H; try discriminate; auto.
  inversion H as [[H1 H2 H3]]. simpl. rewrite H2.
  destruct (f (s_rel b)); simpl; [rewrite H1, H2; f_equal|]; auto.
Qed.

Lemma dpos_from_spec l : forall n q,
  In q (dpos_from n l) <-> exists s, n <= q /\ nth_error l (q - n) = Some s /\ is_delta s = true.
Proof.
  induction l as [|a l IH]; intros n q; simpl.
  - split; [intros [] | intros (s & _ & H & _); destruct (q - n); discriminate].
  - assert (X : In q (dpos_from (S n) l) <->
                exists s, n <= q /\ nth_error (a :: l) (q - n) = Some s /\ is_delta s = true /\ q <> n).
    { rewrite IH. split.
      - intros (s & Hle & Hs & Hd). exists s. replace (q - n) with (S (q - S n)) by lia.
        simpl. repeat split; auto; lia.
      - intros (s & Hle & Hs & Hd & Hne). exists s. replace (q - n) with (S (q - S n)) in Hs by lia.
        simpl in Hs. repeat split; auto; lia. }
    destruct (is_delta a) eqn:Ea; simpl; rewrite X.
    + split.
      * intros [<- | (s & H1 & H2 & H3 & _)]; [| eauto].
        exists a. rewrite Nat.sub_diag. simpl. auto.
      * intros (s & H1 & H2 & H3). destruct (Nat.eq_dec n q) as [-> | Hne]; [left; auto|].
        right. exists s. repeat split; auto.
    + split.
      * intros (s & H1 & H2 & H3 & _). eauto.
      * intros (s & H1 & H2 & H3). exists s. repeat split; auto.
        intros ->. rewrite Nat.sub_diag in H2. simpl in H2. inversion H2; subst. congruence.
Qed.

Lemma tests_same_sig l1 : forall l2, tests_same l1 l2 = true -> map e_rel l1 = map e_rel l2.
Proof.
  induction l1 as [|a l1 IH]; intros [|b l2] H; simpl in H; try discriminate; auto.
  apply andb_true_iff in H as [H1 H2]. apply N.eqb_eq in H1. simpl. rewrite H1. f_equal. auto.
Qed.

Lemma sig_filter_tests (f : N -> bool) l1 : forall l2,
  map e_rel l1 = map e_rel l2 ->
  map e_rel (filter (fun e => f (e_rel e)) l1) = map e_rel (filter (fun e => f (e_rel e)) l2).
Proof.
  induction l1 as [|a l1 IH]; intros [|b l2] H; simpl in H; try discriminate; auto.
  inversion H as [[H1 H2]]. simpl. rewrite H1.
  destruct (f (e_rel b)); simpl; [rewrite H1; f_equal|]; auto.
Qed.

(** an SCC atom is a scan or a test of the version *)
Lemma scc_atoms_In scc v a :
  In a (scc_atoms scc v) ->
  (exists s, In s (scc_scans scc v) /\ a = atom_of_scan s) \/
  (exists e, In e (scc_tests scc v) /\ a = atom_of_test e).
Proof.
  unfold scc_atoms. intros H. apply in_app_or in H as [H | H]; apply in_map_iff in H as (x & E & Hx);
    [left | right]; exists x; auto.
Qed.

Lemma scc_atoms_rel scc v a : In a (scc_atoms scc v) -> In (a_rel a) scc.
Proof.
  intros H. destruct (scc_atoms_In scc v a H) as [(s & Hs & ->) | (e & He & ->)]; simpl;
    [apply filter_In in Hs as [_ Hs] | apply filter_In in He as [_ Hs]]; apply existsb_exists in Hs;
    destruct Hs as (x & Hx & E); apply N.eqb_eq in E; subst; exact Hx.
Qed.

Lemma delta_pos_spec scc v p :
  delta_pos scc v = Some p ->
  (exists s, nth_error (scc_atoms scc v) p = Some s /\ is_delta s = true) /\
  (forall q s, nth_error (scc_atoms scc v) q = Some s -> is_delta s = true -> q = p).
Proof.
  unfold delta_pos. intros H.
  destruct (dpos_from 0 (scc_atoms scc v)) as [|p0 [|p1 l]] eqn:E; try discriminate.
  inversion H; subst p0. split.
  - assert (Hin : In p (dpos_from 0 (scc_atoms scc v))) by (rewrite E; simpl; auto).
    apply dpos_from_spec in Hin as (s & _ & Hs & Hd). rewrite Nat.sub_0_r in Hs. eauto.
  - intros q s Hq Hd.
    assert (Hin : In q (dpos_from 0 (scc_atoms scc v))).
    { apply dpos_from_spec. exists s. rewrite Nat.sub_0_r. repeat split; auto. lia. }
    rewrite E in Hin. destruct Hin as [<- | []]. reflexivity.
Qed.

Lemma nodup_from_ok cid l : forall i seen,
  nodup_from cid i seen l = OkResult -> NoDup l /\ forall p, In p l -> ~ In p seen.
Proof.
  induction l as [|a l IH]; intros i seen H; simpl in H.
  - split; [constructor | intros p []].
  - destruct (existsb (Nat.eqb a) seen) eqn:E; [discriminate|].
    destruct (IH _ _ H) as [Hnd Hdis].
    assert (Ha : ~ In a seen).
    { intros Hin. assert (existsb (Nat.eqb a) seen = true); [| congruence].
      apply existsb_exists. exists a. split; auto. apply Nat.eqb_refl. }
    split.
    + constructor; auto. intros Hin. apply (Hdis a Hin). simpl; auto.
    + intros p [<- | Hin]; auto. intros Hs. apply (Hdis p Hin). simpl; auto.
Qed.

(** ** Semantics of the parts of a version that the scheme is about *)
Section Semantics.
  Variable val : Type.                 (* the domain of the tuple components *)
  Variable dflt : val.                 (* value of an out-of-range component; never used on typed RAM *)
  Definition tuple := list val.
  Definition fact := (N * tuple)%type. (* relation id, tuple *)
  Definition rel_interp := N -> tuple -> Prop.

  (** [asg]: the tuple bound to every tuple id by the enclosing scans;
      [kenv]: the values of the other expressions under that binding. *)
  Definition ev (asg : N -> tuple) (kenv : N -> val) (x : elem) : val :=
    match x with EComp t i => nth i (asg t) dflt | EOther n => kenv n end.
  Definition sat_eqs (asg : N -> tuple) (kenv : N -> val) (eqs : list (elem * elem)) : Prop :=
    Forall (fun p => ev asg kenv (fst p) = ev asg kenv (snd p)) eqs.

  Lemma close_step_sound asg kenv x s p :
    ev asg kenv (fst p) = ev asg kenv (snd p) ->
    (forall z, In z s -> ev asg kenv z = ev asg kenv x) ->
    forall z, In z (close_step s p) -> ev asg kenv z = ev asg kenv x.
  Proof.
    intros Hp Hs z. unfold close_step.
    destruct (mem_elem (fst p) s) eqn:E1; destruct (mem_elem (snd p) s) eqn:E2; auto.
    - apply mem_elem_In in E1. intros [<- | Hin]; auto. rewrite <- Hp. auto.
    - apply mem_elem_In in E2. intros [<- | Hin]; auto. rewrite Hp. auto.
  Qed.

  Lemma close_pass_sound asg kenv x eqs : forall s,
    sat_eqs asg kenv eqs ->
    (forall z, In z s -> ev asg kenv z = ev asg kenv x) ->
    forall z, In z (close_pass eqs s) -> ev asg kenv z = ev asg kenv x.
  Proof.
    unfold close_pass. induction eqs as [|p eqs IH]; intros s Hsat Hs; simpl; auto.
    inversion Hsat; subst. apply IH; auto. apply close_step_sound; auto.
  Qed.

  Lemma close_n_sound asg kenv x eqs n : forall s,
    sat_eqs asg kenv eqs ->
    (forall z, In z s -> ev asg kenv z = ev asg kenv x) ->
    forall z, In z (close_n n eqs s) -> ev asg kenv z = ev asg kenv x.
  Proof.
    induction n as [|n IH]; intros s Hsat Hs; simpl; auto.
    apply IH; auto. apply close_pass_sound; auto.
  Qed.

  Lemma equiv_sound asg kenv eqs x y :
    sat_eqs asg kenv eqs -> equiv eqs x y = true -> ev asg kenv x = ev asg kenv y.
  Proof.
    intros Hsat H. unfold equiv in H. apply mem_elem_In in H. symmetry.
    eapply close_n_sound; eauto. intros z [<- | []]. reflexivity.
  Qed.

  Lemma args_match_from_sound asg kenv eqs t args : forall c,
    sat_eqs asg kenv eqs -> args_match_from eqs t c args = true ->
    forall n x, nth_error args n = Some x -> ev asg kenv x = nth (c + n) (asg t) dflt.
  Proof.
    induction args as [|a args IH]; intros c Hsat H n x Hn; [destruct n; discriminate|].
    simpl in H. apply andb_true_iff in H as [H1 H2].
    destruct n as [|n]; simpl in Hn.
    - inversion Hn; subst. rewrite Nat.add_0_r.
      exact (equiv_sound asg kenv eqs x (EComp t c) Hsat H1).
    - replace (c + S n) with (S c + n) by lia. eapply IH; eauto.
  Qed.

  (** the arguments of a matching negation evaluate to the scanned tuple *)
  Lemma args_match_sound asg kenv eqs t args :
    sat_eqs asg kenv eqs -> args_match eqs t args = true -> length args = length (asg t) ->
    map (ev asg kenv) args = asg t.
  Proof.
    intros Hsat H Hlen.
    apply nth_ext with (d := ev asg kenv (EOther 0)) (d' := dflt); [rewrite map_length; exact Hlen|].
    intros n Hn. rewrite map_length in Hn. rewrite map_nth.
    rewrite (args_match_from_sound asg kenv eqs t args 0 Hsat H n (nth n args (EOther 0))); auto.
    apply nth_error_nth'. exact Hn.
  Qed.

  Variable scc : list N.
  Variables R D Nw : rel_interp.       (* contents of the main, @delta and @new relations *)

  Definition sel (k : kind) : rel_interp := match k with KMain => R | KDelta => D | KNew => Nw end.
  (** [FOR t IN rel]: the bound tuple is in the scanned relation *)
  Definition scan_sat (asg : N -> tuple) (s : scan) : Prop := sel (s_kind s) (s_rel s) (asg (s_tup s)).
  (** [IF (NOT (args) IN rel)] *)
  Definition neg_sat (asg : N -> tuple) (kenv : N -> val) (n : neg) : Prop :=
    ~ sel (n_kind n) (n_rel n) (map (ev asg kenv) (n_args n)).
  (** [IF (NOT ISEMPTY(rel))] *)
  Definition test_sat (e : test) : Prop := exists t, sel (e_kind e) (e_rel e) t.
  (** [IF ISEMPTY(rel)] *)
  Definition empt_sat (e : test) : Prop := forall t, ~ sel (e_kind e) (e_rel e) t.
  (** an SCC atom: the scanned tuple is in the relation; without a scan: the relation is not empty *)
  Definition atom_sat (asg : N -> tuple) (a : atom) : Prop :=
    match a_tup a with
    | Some t => sel (a_kind a) (a_rel a) (asg t)
    | None => exists t, sel (a_kind a) (a_rel a) t
    end.
  (** the facts of the SCC held by a relation family *)
  Definition fset_of (X : rel_interp) : fset fact := fun f => In (fst f) scc /\ X (fst f) (snd f).

  (** RAM is typed: scanned tuples and existence checks have the arity of their relation *)
  Definition typed_version (arity : N -> nat) (asg : N -> tuple) (v : version) : Prop :=
    (forall s, In s (v_scans v) -> length (asg (s_tup s)) = arity (s_rel s)) /\
    (forall n, In n (v_negs v) -> length (n_args n) = arity (n_rel n)).

  (** the fact bound at position [p] of a list of scans *)
  Definition fact_at (asg : N -> tuple) (l : list scan) (p : nat) : fact :=
    match nth_error l p with Some s => (s_rel s, asg (s_tup s)) | None => (0%N, []) end.
  (** the fact at position [p] of a list of SCC atoms; for an atom without a scan the tuple is [w p]
      (some tuple of the relation: the atom only asks for one to exist) *)
  Definition afact_at (asg : N -> tuple) (w : nat -> tuple) (l : list atom) (p : nat) : fact :=
    match nth_error l p with
    | Some a => (a_rel a, match a_tup a with Some t => asg t | None => w p end)
    | None => (0%N, [])
    end.
  (** the facts of the SCC atoms of a clause, in source order (= version order) *)
  Definition clause_facts (c : clause) (asg : N -> tuple) (w : nat -> tuple) : list fact :=
    match c_versions c with
    | [] => []
    | v0 :: _ => map (afact_at asg w (scc_atoms scc v0)) (clause_perm scc c)
    end.

  Lemma atoms_sat_iff asg v :
    Forall (atom_sat asg) (scc_atoms scc v) <->
    Forall (scan_sat asg) (scc_scans scc v) /\ Forall test_sat (scc_tests scc v).
  Proof. unfold scc_atoms. rewrite Forall_app, !Forall_map. reflexivity. Qed.

  Lemma afact_at_sig asg w l1 l2 p :
    map (fun a => (a_tup a, a_rel a)) l1 = map (fun a => (a_tup a, a_rel a)) l2 ->
    afact_at asg w l1 p = afact_at asg w l2 p.
  Proof.
    intros H. unfold afact_at.
    assert (E : nth_error (map (fun a => (a_tup a, a_rel a)) l1) p =
                nth_error (map (fun a => (a_tup a, a_rel a)) l2) p) by (rewrite H; reflexivity).
    rewrite !nth_error_map in E.
    destruct (nth_error l1 p) as [a|], (nth_error l2 p) as [b|]; simpl in E; try discriminate; auto.
    inversion E as [[E1 E2]]. rewrite E1, E2. reflexivity.
  Qed.

  Lemma afact_at_scans asg w l p : afact_at asg w (map atom_of_scan l) p = fact_at asg l p.
  Proof. unfold afact_at, fact_at. rewrite nth_error_map. destruct (nth_error l p); reflexivity. Qed.

  Lemma neg_matches_sound arity asg kenv v p n :
    typed_version arity asg v -> sat_eqs asg kenv (v_eqs v) ->
    In n (delta_negs v) -> neg_matches scc v p n = true ->
    forall w, neg_sat asg kenv n <-> ~ fset_of D (afact_at asg w (scc_atoms scc v) p).
  Proof.
    intros [Hts Htn] Hsat Hin Hm w. unfold neg_matches in Hm. unfold afact_at.
    destruct (nth_error (scc_atoms scc v) p) as [a|] eqn:Ea; [| discriminate].
    destruct (a_tup a) as [t|] eqn:Et; [| discriminate].
    apply andb_true_iff in Hm as [Hr Ha]. apply N.eqb_eq in Hr.
    apply filter_In in Hin as [Hin Hk]. apply kind_eqb_eq in Hk.
    assert (Hal : In a (scc_atoms scc v)) by (eapply nth_error_In; eauto).
    pose proof (scc_atoms_rel scc v a Hal) as Hscc.
    destruct (scc_atoms_In scc v a Hal) as [(s & Hs & Es) | (e & _ & Es)];
      [| rewrite Es in Et; discriminate].
    apply filter_In in Hs as [Hs _].
    assert (Est : s_tup s = t) by (rewrite Es in Et; simpl in Et; inversion Et; reflexivity).
    assert (Esr : s_rel s = a_rel a) by (rewrite Es; reflexivity).
    assert (E : map (ev asg kenv) (n_args n) = asg t).
    { apply args_match_sound with (eqs := v_eqs v); auto.
      rewrite (Htn n Hin), <- Est, (Hts s Hs), Hr, Esr. reflexivity. }
    unfold neg_sat, fset_of. rewrite Hk, E, Hr. simpl. tauto.
  Qed.

  (** one tuple for every position, chosen by a property that may depend on the position *)
  Lemma choose_witness (A : Type) (l : list A) : forall (P : nat -> A -> tuple -> Prop),
    (forall q a, nth_error l q = Some a -> exists t, P q a t) ->
    exists w : nat -> tuple, forall q a, nth_error l q = Some a -> P q a (w q).
  Proof.
    induction l as [|x l IH]; intros P H.
    - exists (fun _ => []). intros q a Hq. destruct q; discriminate.
    - destruct (H 0 x eq_refl) as [t0 Ht0].
      destruct (IH (fun q => P (S q)) (fun q a Hq => H (S q) a Hq)) as [w Hw].
      exists (fun q => match q with 0 => t0 | S q' => w q' end).
      intros [|q] a Hq; simpl in Hq; [inversion Hq; subst; exact Ht0 | exact (Hw q a Hq)].
  Qed.

  (** The heart: one version against the abstract [version_ok], given what the clause check
      establishes about the version ([perm]: version number -> SCC atom position of its delta).
      An atom without a scan contributes some tuple of its relation ([w]); its negated delta is
      [ISEMPTY(@delta_r)], which says the same as "that tuple is not in @delta_r" when [r] holds at most
      the empty tuple. *)
  Lemma version_core arity asg kenv v perm i pi :
    (forall a, In a (scc_atoms scc v) -> a_kind a = KMain \/ a_kind a = KDelta) ->
    nth_error perm i = Some pi ->
    (forall q a, nth_error (scc_atoms scc v) q = Some a -> (is_delta a = true <-> q = pi)) ->
    (forall q, q < length (scc_atoms scc v) -> In q perm) ->
    (forall p, In p perm -> p < length (scc_atoms scc v)) ->
    (forall j p, i < j -> nth_error perm j = Some p ->
                 (exists n, In n (delta_negs v) /\ neg_matches scc v p n = true) \/
                 (exists e, In e (delta_empties v) /\ empt_matches scc v p e = true)) ->
    (forall n, In n (delta_negs v) ->
               exists j p, i < j /\ nth_error perm j = Some p /\ neg_matches scc v p n = true) ->
    (forall e, In e (delta_empties v) ->
               exists j p, i < j /\ nth_error perm j = Some p /\ empt_matches scc v p e = true) ->
    typed_version arity asg v -> sat_eqs asg kenv (v_eqs v) ->
    (forall r t, In r scc -> D r t -> R r t) ->
    (forall e, In e (delta_empties v) -> forall t, R (e_rel e) t -> t = []) ->
    ((Forall (atom_sat asg) (scc_atoms scc v) /\ Forall (neg_sat asg kenv) (delta_negs v) /\
      Forall empt_sat (delta_empties v)) <->
     exists w, version_ok (fset_of R) (fset_of D) i (map (afact_at asg w (scc_atoms scc v)) perm)).
  Proof.
    intros Hkind Hpi Hdelta Hsurj Hrange Hmiss Hextra Hextra0 Hty Hsat HDR Hnul.
    set (l := scc_atoms scc v) in *.
    assert (Hscc : forall a, In a l -> In (a_rel a) scc) by (intros a Ha; eapply scc_atoms_rel; eauto).
    split.
    - intros (Hatoms & Hnegs & Hempt). rewrite Forall_forall in Hatoms, Hnegs, Hempt.
      destruct (choose_witness atom l
                  (fun q a t => a_tup a = None ->
                     sel (a_kind a) (a_rel a) t /\
                     (forall j, i < j -> nth_error perm j = Some q -> ~ D (a_rel a) t))) as [w Hw].
      { intros q a Hq. destruct (a_tup a) as [t|] eqn:Et; [exists []; intros E; discriminate|].
        assert (Ha : In a l) by (eapply nth_error_In; eauto).
        pose proof (Hatoms a Ha) as Hs. unfold atom_sat in Hs. rewrite Et in Hs.
        destruct Hs as [t Ht]. exists t. intros _. split; auto.
        intros j Hlt Hj. destruct (Hmiss j q Hlt Hj) as [(n & Hn & Hm) | (e & He & Hm)].
        - unfold neg_matches in Hm. fold l in Hm. rewrite Hq, Et in Hm. discriminate.
        - unfold empt_matches in Hm. fold l in Hm. rewrite Hq, Et in Hm. apply N.eqb_eq in Hm.
          pose proof (Hempt e He) as Hes. unfold empt_sat in Hes.
          apply filter_In in He as [_ Hk]. apply kind_eqb_eq in Hk. rewrite Hk, Hm in Hes. apply Hes. }
      exists w. intros j f Hj.
      rewrite nth_error_map in Hj. destruct (nth_error perm j) as [p|] eqn:Ep; [| discriminate].
      simpl in Hj. inversion Hj; subst f; clear Hj.
      assert (Hp : p < length l) by (apply Hrange; eapply nth_error_In; eauto).
      destruct (nth_error l p) as [a|] eqn:Ea; [| apply nth_error_None in Ea; lia].
      assert (Ha : In a l) by (eapply nth_error_In; eauto).
      pose proof (Hatoms a Ha) as Has. unfold atom_sat in Has.
      destruct (a_tup a) as [t|] eqn:Et.
      + assert (Ef : afact_at asg w l p = (a_rel a, asg t)) by (unfold afact_at; rewrite Ea, Et; auto).
        split; [| split].
        * rewrite Ef. split; simpl; [auto|].
          destruct (Hkind a Ha) as [Hk | Hk]; rewrite Hk in Has; simpl in Has; auto.
        * intros ->. rewrite Hpi in Ep. inversion Ep; subst p.
          assert (Hd : is_delta a = true) by (apply (Hdelta pi a Ea); reflexivity).
          unfold is_delta in Hd. apply kind_eqb_eq in Hd. rewrite Hd in Has. simpl in Has.
          rewrite Ef. split; simpl; auto.
        * intros Hlt. destruct (Hmiss j p Hlt Ep) as [(n & Hn & Hm) | (e & He & Hm)].
          -- apply (neg_matches_sound arity asg kenv v p n Hty Hsat Hn Hm w). apply Hnegs. exact Hn.
          -- unfold empt_matches in Hm. fold l in Hm. rewrite Ea, Et in Hm. discriminate.
      + assert (Ef : afact_at asg w l p = (a_rel a, w p)) by (unfold afact_at; rewrite Ea, Et; auto).
        destruct (Hw p a Ea Et) as [Hsel Hlater]. rewrite Ef. split; [| split].
        * split; simpl; [auto|].
          destruct (Hkind a Ha) as [Hk | Hk]; rewrite Hk in Hsel; simpl in Hsel; auto.
        * intros ->. rewrite Hpi in Ep. inversion Ep; subst p.
          assert (Hd : is_delta a = true) by (apply (Hdelta pi a Ea); reflexivity).
          unfold is_delta in Hd. apply kind_eqb_eq in Hd. rewrite Hd in Hsel. simpl in Hsel.
          split; simpl; auto.
        * intros Hlt [_ Hd]. simpl in Hd. exact (Hlater j Hlt Ep Hd).
    - intros [w Hv]. split; [| split]; apply Forall_forall.
      + intros a Ha0. apply In_nth_error in Ha0 as [q Hq].
        assert (Hql : q < length l) by (apply nth_error_Some; congruence).
        destruct (In_nth_error _ _ (Hsurj q Hql)) as [j Hj].
        assert (Ha : In a l) by (eapply nth_error_In; eauto).
        assert (Ef : afact_at asg w l q = (a_rel a, match a_tup a with Some t => asg t | None => w q end))
          by (unfold afact_at; rewrite Hq; auto).
        assert (Hsel : sel (a_kind a) (a_rel a) (match a_tup a with Some t => asg t | None => w q end)).
        { destruct (Hkind a Ha) as [Hk | Hk]; rewrite Hk; simpl.
          - destruct (Hv j (afact_at asg w l q)) as ([_ Hr] & _ & _).
            { rewrite nth_error_map, Hj. reflexivity. }
            rewrite Ef in Hr. exact Hr.
          - assert (q = pi). { apply (Hdelta q a Hq). unfold is_delta. rewrite Hk. reflexivity. }
            subst q. destruct (Hv i (afact_at asg w l pi)) as (_ & Hd & _).
            { rewrite nth_error_map, Hpi. reflexivity. }
            destruct (Hd eq_refl) as [_ Hd']. rewrite Ef in Hd'. exact Hd'. }
        unfold atom_sat. destruct (a_tup a); eauto.
      + intros n Hn. destruct (Hextra n Hn) as (j & p & Hlt & Hj & Hm).
        apply (neg_matches_sound arity asg kenv v p n Hty Hsat Hn Hm w).
        destruct (Hv j (afact_at asg w l p)) as (_ & _ & Hnd).
        { rewrite nth_error_map, Hj. reflexivity. }
        exact (Hnd Hlt).
      + intros e He. destruct (Hextra0 e He) as (j & p & Hlt & Hj & Hm).
        unfold empt_matches in Hm. fold l in Hm.
        destruct (nth_error l p) as [a|] eqn:Ea; [| discriminate].
        destruct (a_tup a) as [t0|] eqn:Et; [discriminate|]. apply N.eqb_eq in Hm.
        assert (Ha : In a l) by (eapply nth_error_In; eauto).
        assert (Ef : afact_at asg w l p = (a_rel a, w p)) by (unfold afact_at; rewrite Ea, Et; auto).
        destruct (Hv j (afact_at asg w l p)) as ([_ Hr] & _ & Hnd).
        { rewrite nth_error_map, Hj. reflexivity. }
        rewrite Ef in Hr, Hnd. simpl in Hr. rewrite <- Hm in Hr.
        pose proof He as He'. apply filter_In in He' as [_ Hk]. apply kind_eqb_eq in Hk.
        intros t Ht. rewrite Hk in Ht. simpl in Ht.
        assert (Hin : In (e_rel e) scc) by (rewrite Hm; apply Hscc; exact Ha).
        pose proof (Hnul e He t (HDR _ _ Hin Ht)) as Et0. pose proof (Hnul e He _ Hr) as Ew.
        apply (Hnd Hlt). split; simpl; [rewrite <- Hm; exact Hin|]. rewrite <- Hm, Ew, <- Et0. exact Ht.
  Qed.

  (** *** What an accepted clause satisfies *)
  Lemma version_local_inv cid i v :
    version_local scc cid i v = OkResult ->
    forallb (scan_kind_ok scc) (v_scans v) = true /\
    v_ins_kind v = KNew /\ In (v_ins_rel v) scc /\
    has_guard v = true /\
    forallb (test_kind_ok scc) (v_tests v) = true /\
    forallb (empty_ok scc v) (v_empties v) = true.
  Proof.
    unfold version_local. rewrite !andr_ok, !guard_ok.
    intros (((((((((H1 & H2) & H3) & _) & _) & _) & _) & H8) & H9) & _).
    apply andb_true_iff in H2 as [H2 H2']. apply kind_eqb_eq in H2. apply memN_In in H2'. auto 10.
  Qed.

  Lemma negdelta_check_inv cid i v later :
    negdelta_check scc cid i v later = OkResult ->
    (forall p, In p later -> (exists n, In n (delta_negs v) /\ neg_matches scc v p n = true) \/
                             (exists e, In e (delta_empties v) /\ empt_matches scc v p e = true)) /\
    (forall n, In n (delta_negs v) -> exists p, In p later /\ neg_matches scc v p n = true) /\
    (forall e, In e (delta_empties v) -> exists p, In p later /\ empt_matches scc v p e = true).
  Proof.
    unfold negdelta_check. rewrite !andr_ok, !guard_ok. intros [[H1 H2] H3]. split; [| split].
    - intros p Hp.
      destruct (find (fun p => negb (existsb (neg_matches scc v p) (delta_negs v) ||
                                     existsb (empt_matches scc v p) (delta_empties v))) later) eqn:E;
        [discriminate|].
      pose proof (find_none _ _ E p Hp) as Hf. simpl in Hf. apply negb_false_iff in Hf.
      apply orb_true_iff in Hf as [Hf | Hf]; apply existsb_exists in Hf; auto.
    - intros n Hn. rewrite forallb_forall in H2. specialize (H2 n Hn).
      apply existsb_exists in H2. exact H2.
    - intros e He. rewrite forallb_forall in H3. specialize (H3 e He).
      apply existsb_exists in H3. exact H3.
  Qed.

  Lemma clause_check_inv c :
    clause_check scc c = OkResult ->
    exists v0 rest, c_versions c = v0 :: rest /\
      (forall i v, nth_error (c_versions c) i = Some v ->
         (scans_same (v_scans v) (v_scans v0) = true /\ tests_same (v_tests v) (v_tests v0) = true) /\
         uniform scc v0 v = true /\
         version_local scc (c_id c) i v = OkResult /\
         (exists p, delta_pos scc v = Some p) /\
         negdelta_check scc (c_id c) i v (skipn (S i) (clause_perm scc c)) = OkResult) /\
      length (c_versions c) = length (scc_atoms scc v0) /\
      NoDup (clause_perm scc c).
  Proof.
    unfold clause_check. destruct (c_versions c) as [|v0 rest] eqn:Evs; [discriminate|].
    rewrite !andr_ok, guard_ok. intros ((((((H1 & H1') & H2) & H3) & H4) & H5) & H6).
    exists v0, rest. split; auto. split; [| split].
    - intros i v Hi.
      pose proof (check_all_ok _ _ _ H1 i v Hi) as A1. apply guard_ok in A1.
      apply andb_true_iff in A1.
      pose proof (check_all_ok _ _ _ H1' i v Hi) as A1'. apply guard_ok in A1'.
      pose proof (check_all_ok _ _ _ H2 i v Hi) as A2.
      pose proof (check_all_ok _ _ _ H4 i v Hi) as A4. apply guard_ok in A4.
      pose proof (check_all_ok _ _ _ H6 i v Hi) as A6.
      repeat split; try tauto; auto.
      destruct (delta_pos scc v) as [p|]; [eauto | discriminate].
    - apply Nat.eqb_eq. exact H3.
    - exact (proj1 (nodup_from_ok _ _ _ _ H5)).
  Qed.

  Lemma scc_atoms_sig v v0 :
    scans_same (v_scans v) (v_scans v0) = true -> tests_same (v_tests v) (v_tests v0) = true ->
    map (fun a => (a_tup a, a_rel a)) (scc_atoms scc v) =
    map (fun a => (a_tup a, a_rel a)) (scc_atoms scc v0).
  Proof.
    intros H1 H2. unfold scc_atoms. rewrite !map_app, !map_map. simpl. f_equal.
    - pose proof (sig_filter (in_scc scc) _ _ (scans_same_sig _ _ H1)) as E.
      apply (f_equal (map (fun p : N * N => (Some (fst p), snd p)))) in E.
      rewrite !map_map in E. exact E.
    - pose proof (sig_filter_tests (in_scc scc) _ _ (tests_same_sig _ _ H2)) as E.
      apply (f_equal (map (fun r : N => (@None N, r)))) in E.
      rewrite !map_map in E. exact E.
  Qed.

  Lemma clause_facts_length c asg w : length (clause_facts c asg w) = length (c_versions c).
  Proof.
    unfold clause_facts, clause_perm. destruct (c_versions c); [reflexivity|].
    rewrite !map_length. reflexivity.
  Qed.

  (** *** Soundness of the clause check: version [i] enumerates exactly the combinations that
      the abstract scheme gives to version [i].  [w] supplies the tuples that stand for the atoms
      without a scan; on a clause without such atoms the facts do not depend on it
      ([version_ok_sound_scans]). *)
  Theorem version_ok_sound arity c i v asg kenv :
    clause_check scc c = OkResult -> nth_error (c_versions c) i = Some v ->
    typed_version arity asg v -> sat_eqs asg kenv (v_eqs v) ->
    (forall r t, In r scc -> D r t -> R r t) ->
    (forall e, In e (delta_empties v) -> forall t, R (e_rel e) t -> t = []) ->
    ((Forall (atom_sat asg) (scc_atoms scc v) /\ Forall (neg_sat asg kenv) (delta_negs v) /\
      Forall empt_sat (delta_empties v)) <->
     exists w, version_ok (fset_of R) (fset_of D) i (clause_facts c asg w)).
  Proof.
    intros Hc Hi Hty Hsat HDR Hnul.
    destruct (clause_check_inv c Hc) as (v0 & rest & Evs & Hall & Hlen & Hnd).
    destruct (Hall i v Hi) as ((Hsame & Hsamet) & _ & Hloc & (pi & Hpi) & Hneg).
    assert (Hsig : forall j v', nth_error (c_versions c) j = Some v' ->
              map (fun a => (a_tup a, a_rel a)) (scc_atoms scc v') =
              map (fun a => (a_tup a, a_rel a)) (scc_atoms scc v0)).
    { intros j v' Hj. destruct (Hall j v' Hj) as ((A & B) & _). apply scc_atoms_sig; auto. }
    assert (Hlens : forall j v', nth_error (c_versions c) j = Some v' ->
              length (scc_atoms scc v') = length (c_versions c)).
    { intros j v' Hj. rewrite Hlen. pose proof (f_equal (@length _) (Hsig j v' Hj)) as E.
      rewrite !map_length in E. exact E. }
    assert (Hfacts : forall w, clause_facts c asg w =
                               map (afact_at asg w (scc_atoms scc v)) (clause_perm scc c)).
    { intros w. unfold clause_facts. rewrite Evs. apply map_ext. intros p. symmetry.
      apply afact_at_sig. apply (Hsig i v Hi). }
    assert (Hrange : forall p, In p (clause_perm scc c) -> p < length (scc_atoms scc v)).
    { intros p Hp. unfold clause_perm in Hp. apply in_map_iff in Hp as (v' & Ep & Hv').
      apply In_nth_error in Hv' as [j Hj].
      destruct (Hall j v' Hj) as (_ & _ & _ & (p' & Hp') & _). rewrite Hp' in Ep. subst p'.
      destruct (delta_pos_spec scc v' p Hp') as [(s & Hs & _) _].
      rewrite (Hlens i v Hi), <- (Hlens j v' Hj). apply nth_error_Some. congruence. }
    destruct (version_local_inv _ _ _ Hloc) as (Hkinds & _ & _ & _ & Hkindt & _).
    destruct (delta_pos_spec scc v pi Hpi) as [(spi & Hspi & Hdpi) Huniq].
    destruct (negdelta_check_inv _ _ _ _ Hneg) as (Hmiss & Hextra & Hextra0).
    assert (Hcore := version_core arity asg kenv v (clause_perm scc c) i pi).
    assert (X : (exists w, version_ok (fset_of R) (fset_of D) i (clause_facts c asg w)) <->
                (exists w, version_ok (fset_of R) (fset_of D) i
                             (map (afact_at asg w (scc_atoms scc v)) (clause_perm scc c)))).
    { split; intros [w Hw]; exists w; [rewrite <- Hfacts | rewrite Hfacts]; exact Hw. }
    rewrite X. apply Hcore; auto.
    - intros a Ha. destruct (scc_atoms_In scc v a Ha) as [(s & Hs & ->) | (e & He & ->)]; simpl.
      + apply filter_In in Hs as [Hs _].
        rewrite forallb_forall in Hkinds. specialize (Hkinds s Hs). unfold scan_kind_ok in Hkinds.
        destruct (s_kind s); auto. discriminate.
      + apply filter_In in He as [He _].
        rewrite forallb_forall in Hkindt. specialize (Hkindt e He). unfold test_kind_ok in Hkindt.
        destruct (e_kind e); auto. discriminate.
    - unfold clause_perm. rewrite nth_error_map, Hi. simpl. rewrite Hpi. reflexivity.
    - intros q s Hq. split; [apply Huniq; exact Hq|].
      intros ->. rewrite Hspi in Hq. inversion Hq; subst. exact Hdpi.
    - intros q Hq.
      apply (NoDup_length_incl Hnd (l' := seq 0 (length (scc_atoms scc v)))).
      + rewrite seq_length. unfold clause_perm. rewrite map_length, (Hlens i v Hi). lia.
      + intros p Hp. apply in_seq. specialize (Hrange p Hp). lia.
      + apply in_seq. lia.
    - intros j p Hlt Hj. apply Hmiss. apply In_skipn_iff. exists j. split; [lia | exact Hj].
    - intros n Hn. destruct (Hextra n Hn) as (p & Hp & Hm).
      apply In_skipn_iff in Hp as (j & Hle & Hj). exists j, p. repeat split; auto.
    - intros e He. destruct (Hextra0 e He) as (p & Hp & Hm).
      apply In_skipn_iff in Hp as (j & Hle & Hj). exists j, p. repeat split; auto.
  Qed.

  (** On a version whose SCC atoms all have scans this is the statement about the scans alone; the
      facts do not depend on [w]. *)
  Lemma clause_facts_scans c asg w w' v0 rest :
    c_versions c = v0 :: rest -> scc_tests scc v0 = [] -> clause_facts c asg w = clause_facts c asg w'.
  Proof.
    intros Evs Hno. unfold clause_facts. rewrite Evs. apply map_ext. intros p.
    unfold scc_atoms. rewrite Hno. simpl. rewrite app_nil_r, !afact_at_scans. reflexivity.
  Qed.

  Theorem version_ok_sound_scans arity c i v asg kenv w :
    clause_check scc c = OkResult -> nth_error (c_versions c) i = Some v ->
    scc_tests scc v = [] ->
    typed_version arity asg v -> sat_eqs asg kenv (v_eqs v) ->
    (forall r t, In r scc -> D r t -> R r t) ->
    ((Forall (scan_sat asg) (scc_scans scc v) /\ Forall (neg_sat asg kenv) (delta_negs v)) <->
     version_ok (fset_of R) (fset_of D) i (clause_facts c asg w)).
  Proof.
    intros Hc Hi Hno Hty Hsat HDR.
    destruct (clause_check_inv c Hc) as (v0 & rest & Evs & Hall & _).
    destruct (Hall i v Hi) as ((_ & Hsamet) & _ & _ & _ & Hneg).
    destruct (negdelta_check_inv _ _ _ _ Hneg) as (_ & _ & Hextra0).
    assert (Hno0 : scc_tests scc v0 = []).
    { pose proof (sig_filter_tests (in_scc scc) _ _ (tests_same_sig _ _ Hsamet)) as E.
      fold (scc_tests scc v) in E. fold (scc_tests scc v0) in E. rewrite Hno in E. simpl in E.
      symmetry in E. apply map_eq_nil in E. exact E. }
    assert (Hde : delta_empties v = []).
    { destruct (delta_empties v) as [|e l] eqn:E; [reflexivity|]. exfalso.
      destruct (Hextra0 e (or_introl eq_refl)) as (p & _ & Hm).
      unfold empt_matches, scc_atoms in Hm. rewrite Hno in Hm. simpl in Hm. rewrite app_nil_r in Hm.
      rewrite nth_error_map in Hm. destruct (nth_error (scc_scans scc v) p); simpl in Hm; discriminate. }
    pose proof (version_ok_sound arity c i v asg kenv Hc Hi Hty Hsat HDR) as Hs.
    rewrite Hde in Hs. specialize (Hs (fun e H => match H with end)).
    rewrite atoms_sat_iff, Hno in Hs. split.
    - intros [H1 H2]. destruct (proj1 Hs) as [w' Hw']; [repeat split; auto|].
      rewrite (clause_facts_scans c asg w w' v0 rest Evs Hno0). exact Hw'.
    - intros Hv. destruct (proj2 Hs (ex_intro _ w Hv)) as ((H1 & _) & H2 & _). auto.
  Qed.

  (** For the default case that the SIPS keeps the SCC atoms in order, the facts are those of the
      SCC scans in scan order. *)
  Lemma fact_at_seq asg l : forall pre,
    map (fact_at asg (pre ++ l)) (seq (length pre) (length l)) =
    map (fun s => (s_rel s, asg (s_tup s))) l.
  Proof.
    induction l as [|a l IH]; intros pre; simpl; [reflexivity|]. f_equal.
    - unfold fact_at. rewrite nth_error_app2, Nat.sub_diag by lia. reflexivity.
    - specialize (IH (pre ++ [a])). rewrite <- app_assoc, app_length in IH. simpl in IH.
      rewrite Nat.add_1_r in IH. exact IH.
  Qed.

  Lemma clause_facts_identity c asg w v0 rest :
    c_versions c = v0 :: rest -> scc_tests scc v0 = [] ->
    clause_perm scc c = seq 0 (length (scc_scans scc v0)) ->
    clause_facts c asg w = map (fun s => (s_rel s, asg (s_tup s))) (scc_scans scc v0).
  Proof.
    intros Evs Hno Hperm. unfold clause_facts. rewrite Evs, Hperm. unfold scc_atoms. rewrite Hno.
    simpl. rewrite app_nil_r. rewrite <- (fact_at_seq asg (scc_scans scc v0) []).
    apply map_ext. intros p. apply afact_at_scans.
  Qed.

  (** *** The head guard: [NOT (args) IN H], or [ISEMPTY(H)] for a head without arguments *)
  Definition head_fact (asg : N -> tuple) (kenv : N -> val) (v : version) : fact :=
    (v_ins_rel v, map (ev asg kenv) (v_ins_args v)).

  Theorem head_guard_sound c i v :
    clause_check scc c = OkResult -> nth_error (c_versions c) i = Some v ->
    v_ins_kind v = KNew /\ In (v_ins_rel v) scc /\
    forall asg kenv, Forall (neg_sat asg kenv) (v_negs v) -> Forall empt_sat (v_empties v) ->
                     ~ fset_of R (head_fact asg kenv v).
  Proof.
    intros Hc Hi. destruct (clause_check_inv c Hc) as (v0 & rest & _ & Hall & _).
    destruct (Hall i v Hi) as (_ & _ & Hloc & _).
    destruct (version_local_inv _ _ _ Hloc) as (_ & Hk & Hr & Hg & _).
    split; auto. split; auto. intros asg kenv Hnegs Hempt [_ Hin]. simpl in Hin.
    rewrite Forall_forall in Hnegs, Hempt. unfold has_guard in Hg.
    destruct (v_ins_args v) as [|x args] eqn:Eargs; simpl in Hg.
    - apply existsb_exists in Hg as (e & He & Hg). unfold is_guard0 in Hg.
      apply andb_true_iff in Hg as [Hg1 Hg2]. apply kind_eqb_eq in Hg1. apply N.eqb_eq in Hg2.
      apply (Hempt e He []). rewrite Hg1, Hg2. exact Hin.
    - apply existsb_exists in Hg as (n & Hn & Hg). apply (Hnegs n Hn). unfold neg_sat.
      unfold is_guard in Hg. apply andb_true_iff in Hg as [Hg Ha]. apply andb_true_iff in Hg as [Hg1 Hg2].
      apply kind_eqb_eq in Hg1. apply N.eqb_eq in Hg2. apply elems_eqb_eq in Ha.
      rewrite Hg1, Hg2, Ha, Eargs. exact Hin.
  Qed.
End Semantics.

Arguments ev {val}.
Arguments sat_eqs {val}.
Arguments sel {val}.
Arguments scan_sat {val}.
Arguments neg_sat {val}.
Arguments test_sat {val}.
Arguments empt_sat {val}.
Arguments atom_sat {val}.
Arguments fset_of {val}.
Arguments typed_version {val}.
Arguments fact_at {val}.
Arguments afact_at {val}.
Arguments clause_facts {val}.
Arguments head_fact {val}.

(** ** The abstract scheme respects extensional equality of the sets *)
Section AbsExt.
  Variables (fact rule : Type) (rules : list rule) (arity : rule -> nat).
  Variable fire : rule -> list fact -> fact -> Prop.

  Lemma version_ok_ext (R D R' D' : fset fact) i ts :
    (forall f, R f <-> R' f) -> (forall f, D f <-> D' f) ->
    version_ok R D i ts -> version_ok R' D' i ts.
  Proof.
    intros HR HD H j f Hj. destruct (H j f Hj) as (H1 & H2 & H3).
    split; [apply HR; exact H1 | split].
    - intros E. apply HD. auto.
    - intros Hlt Hd. apply (H3 Hlt). apply HD. exact Hd.
  Qed.

  Lemma New_ext (R D R' D' : fset fact) :
    (forall f, R f <-> R' f) -> (forall f, D f <-> D' f) ->
    forall h, New rules arity fire R D h -> New rules arity fire R' D' h.
  Proof.
    intros HR HD h [Hn (r & ts & i & Hr & Hl & Hi & Hv & Hf)]. split.
    - intros Hh. apply Hn. apply HR. exact Hh.
    - exists r, ts, i. split; [exact Hr|]. split; [exact Hl|]. split; [exact Hi|].
      split; [| exact Hf]. exact (version_ok_ext R D R' D' i ts HR HD Hv).
  Qed.

  Variable limit_hit : fset fact -> Prop.
  Hypothesis limit_ext : forall A B : fset fact, (forall f, A f <-> B f) -> limit_hit A -> limit_hit B.

  Lemma loop_run_ext (R D res : fset fact) :
    loop_run rules arity fire limit_hit R D res ->
    forall R' D' : fset fact, (forall f, R f <-> R' f) -> (forall f, D f <-> D' f) ->
    exists res', loop_run rules arity fire limit_hit R' D' res' /\ forall f, res f <-> res' f.
  Proof.
    assert (Hsym : forall A B : fset fact, (forall f, A f <-> B f) -> forall f, B f <-> A f).
    { intros A B H f. symmetry. apply H. }
    induction 1 as [R D He | R D Hl | R D res Hne Hnl _ IH]; intros R' D' HR HD.
    - exists R'. split; auto. apply run_exit_empty. intros h Hh. apply (He h).
      eapply New_ext; [apply Hsym; exact HR | apply Hsym; exact HD | exact Hh].
    - exists R'. split; auto. apply run_exit_limit. eapply limit_ext; eauto.
    - destruct (IH (fun f => R' f \/ New rules arity fire R' D' f) (New rules arity fire R' D'))
        as (res' & Hrun & Hres).
      + intros f. split; (intros [Hf | Hf]; [left; apply HR; exact Hf | right]).
        * eapply New_ext; eauto.
        * eapply New_ext; [apply Hsym; exact HR | apply Hsym; exact HD | exact Hf].
      + intros f. split; intros Hf.
        * eapply New_ext; eauto.
        * eapply New_ext; [apply Hsym; exact HR | apply Hsym; exact HD | exact Hf].
      + exists res'. split; auto. apply run_continue; auto.
        * intros Hall. apply Hne. intros h Hh. apply (Hall h). eapply New_ext; eauto.
        * intros Hl. apply Hnl. eapply limit_ext; [| exact Hl]. apply Hsym. exact HR.
  Qed.
End AbsExt.

(** ** The frame: preamble, exits, table updates *)
Lemma same_set_ok w a b : same_set w a b = OkResult -> forall r, In r a <-> In r b.
Proof.
  unfold same_set, first_missing. intros H r.
  destruct (find (fun r => negb (memN r b)) a) eqn:E1; [discriminate|].
  destruct (find (fun r => negb (memN r a)) b) eqn:E2; [discriminate|].
  split; intros Hin.
  - pose proof (find_none _ _ E1 r Hin) as Hf. simpl in Hf. apply negb_false_iff in Hf.
    apply memN_In. exact Hf.
  - pose proof (find_none _ _ E2 r Hin) as Hf. simpl in Hf. apply negb_false_iff in Hf.
    apply memN_In. exact Hf.
Qed.

Lemma first_dup_none l : forall seen,
  first_dup seen l = None -> NoDup l /\ forall r, In r l -> ~ In r seen.
Proof.
  induction l as [|a l IH]; intros seen H; simpl in H.
  - split; [constructor | intros r []].
  - destruct (memN a seen) eqn:E; [discriminate|].
    destruct (IH _ H) as [Hnd Hdis].
    assert (Ha : ~ In a seen). { intros Hin. apply memN_In in Hin. congruence. }
    split.
    + constructor; auto. intros Hin. apply (Hdis a Hin). simpl; auto.
    + intros r [<- | Hin]; auto. intros Hs. apply (Hdis r Hin). simpl; auto.
Qed.

Lemma frame_check_inv s :
  frame_check s = OkResult ->
  (forall r, In r (st_scc s) <-> In r (st_preamble s)) /\
  (forall r, In r (st_scc s) <-> In r (st_exit s)) /\
  (forall r, In r (st_scc s) <-> In r (map u_rel (st_update s))) /\
  NoDup (map u_rel (st_update s)) /\
  (forall u, In u (st_update s) -> flags_ok u = true) /\
  (forall r n, In (r, n) (st_limits s) -> In r (st_scc s)) /\
  (forall r, In r (st_nullary s) -> In r (st_scc s)).
Proof.
  unfold frame_check. rewrite !andr_ok. intros ((((((H1 & H2) & H3) & H4) & H5) & H6) & H7).
  split; [exact (same_set_ok _ _ _ H1)|]. split; [exact (same_set_ok _ _ _ H2)|].
  split; [exact (same_set_ok _ _ _ H3)|]. split; [| split; [| split]].
  - destruct (first_dup [] (map u_rel (st_update s))) eqn:E; [discriminate|].
    exact (proj1 (first_dup_none _ _ E)).
  - intros u Hu. destruct (find (fun u => negb (flags_ok u)) (st_update s)) eqn:E; [discriminate|].
    pose proof (find_none _ _ E u Hu) as Hf. simpl in Hf. apply negb_false_iff in Hf. exact Hf.
  - intros r n Hin.
    destruct (find (fun p => negb (in_scc (st_scc s) (fst p))) (st_limits s)) eqn:E; [discriminate|].
    pose proof (find_none _ _ E (r, n) Hin) as Hf. simpl in Hf. apply negb_false_iff in Hf.
    apply memN_In. exact Hf.
  - intros r Hin. unfold first_missing in H7.
    destruct (find (fun r => negb (memN r (st_scc s))) (st_nullary s)) eqn:E; [discriminate|].
    pose proof (find_none _ _ E r Hin) as Hf. simpl in Hf. apply negb_false_iff in Hf.
    apply memN_In. exact Hf.
Qed.

Section Frame.
  Variable val : Type.
  Notation relI := (rel_interp val).
  Notation factv := (fact val).

  (** the contents of all main, @delta and @new relations *)
  Record state := mkState { stR : relI; stD : relI; stN : relI }.

  (** the relations whose copy statements have the form for arity 0 ([st_nullary]) *)
  Variable nul : list N.

  (** What a copy statement of [generateMergeRelations] reads from the source [X] of relation [r]:
      [FOR t0 IN src INSERT (t0.0,..) INTO dst] copies the tuples; the form for arity 0,
      [IF (NOT ISEMPTY(src)) INSERT () INTO dst], inserts the empty tuple when [src] is not empty. *)
  Definition copied (r : N) (X : relI) (t : tuple val) : Prop :=
    if memN r nul then t = [] /\ exists t', X r t' else X r t.

  Lemma copied_iff r (X : relI) t :
    (In r nul -> forall t', X r t' -> t' = []) -> (copied r X t <-> X r t).
  Proof.
    unfold copied. destruct (memN r nul) eqn:E; [| tauto]. apply memN_In in E. intros H. split.
    - intros [-> [t' Ht']]. rewrite <- (H E t' Ht'). exact Ht'.
    - intros Ht. split; [exact (H E t Ht) | eauto].
  Qed.

  (** [FOR t0 IN @new_r INSERT t0 INTO r], or [IF (NOT ISEMPTY(@new_r)) INSERT () INTO r] *)
  Definition st_merge (r : N) (s : state) : state :=
    mkState (fun r' t => stR s r' t \/ (r' = r /\ copied r' (stN s) t)) (stD s) (stN s).
  (** [SWAP (@delta_r, @new_r)] *)
  Definition st_swap (r : N) (s : state) : state :=
    mkState (stR s)
            (fun r' t => (r' = r /\ stN s r' t) \/ (r' <> r /\ stD s r' t))
            (fun r' t => (r' = r /\ stD s r' t) \/ (r' <> r /\ stN s r' t)).
  (** [CLEAR @new_r] *)
  Definition st_clear (r : N) (s : state) : state :=
    mkState (stR s) (stD s) (fun r' t => r' <> r /\ stN s r' t).
  (** one entry of [st_update]: the statements that are present, in the order merge, swap, clear *)
  Definition run_update (s : state) (u : update) : state :=
    let s1 := if u_merge u then st_merge (u_rel u) s else s in
    let s2 := if u_swap u then st_swap (u_rel u) s1 else s1 in
    if u_clear u then st_clear (u_rel u) s2 else s2.
  Definition run_updates (us : list update) (s : state) : state := fold_left run_update us s.
  (** [FOR t0 IN r INSERT t0 INTO @delta_r], or [IF (NOT ISEMPTY(r)) INSERT () INTO @delta_r], for
      the relations of the preamble *)
  Definition run_preamble (pre : list N) (s : state) : state :=
    mkState (stR s) (fun r t => stD s r t \/ (In r pre /\ copied r (stR s) t)) (stN s).
  (** [EXIT (ISEMPTY(@new_r1) AND ...)] *)
  Definition exit_cond (exits : list N) (s : state) : Prop :=
    forall r, In r exits -> forall t, ~ stN s r t.
  (** some [EXIT (SIZE(r) >= n)] fires: the main relation [r] holds at least [n] tuples *)
  Definition limits_hit (lims : list (N * N)) (s : state) : Prop :=
    exists r n, In (r, n) lims /\
      size_ge (fun f : factv => fst f = r) (N.to_nat n) (fun f => stR s (fst f) (snd f)).

  (** the @new relations with the arity-0 statements hold at most the empty tuple *)
  Definition new_nullary (s : state) : Prop := forall r t, In r nul -> stN s r t -> t = [].

  Lemma run_update_spec s u r t :
    flags_ok u = true -> new_nullary s ->
    (r = u_rel u ->
       (stR (run_update s u) r t <-> stR s r t \/ stN s r t) /\
       (stD (run_update s u) r t <-> stN s r t) /\ ~ stN (run_update s u) r t) /\
    (r <> u_rel u ->
       (stR (run_update s u) r t <-> stR s r t) /\
       (stD (run_update s u) r t <-> stD s r t) /\
       (stN (run_update s u) r t <-> stN s r t)).
  Proof.
    unfold flags_ok, run_update. intros H Hn.
    apply andb_true_iff in H as [H H3]. apply andb_true_iff in H as [H1 H2].
    rewrite H1, H2, H3. simpl.
    pose proof (copied_iff r (stN s) t (fun Hin t' => Hn r t' Hin)) as Hc.
    split; intros E; repeat split; try tauto.
  Qed.

  Lemma run_updates_spec us : forall s,
    NoDup (map u_rel us) -> (forall u, In u us -> flags_ok u = true) -> new_nullary s ->
    forall r t,
      (In r (map u_rel us) ->
         (stR (run_updates us s) r t <-> stR s r t \/ stN s r t) /\
         (stD (run_updates us s) r t <-> stN s r t) /\ ~ stN (run_updates us s) r t) /\
      (~ In r (map u_rel us) ->
         (stR (run_updates us s) r t <-> stR s r t) /\
         (stD (run_updates us s) r t <-> stD s r t) /\
         (stN (run_updates us s) r t <-> stN s r t)).
  Proof.
    induction us as [|u us IH]; intros s Hnd Hfl Hn r t; simpl.
    - split; [tauto|]. intros _. repeat split; tauto.
    - inversion Hnd as [|? ? Hnotin Hnd']; subst.
      assert (Hu : flags_ok u = true) by (apply Hfl; simpl; auto).
      destruct (run_update_spec s u r t Hu Hn) as [Heq Hne].
      assert (Hn' : new_nullary (run_update s u)).
      { intros r' t' Hin Ht'. destruct (run_update_spec s u r' t' Hu Hn) as [Heq' Hne'].
        destruct (N.eq_dec r' (u_rel u)) as [E | E].
        - destruct (Heq' E) as (_ & _ & A). contradiction.
        - destruct (Hne' E) as (_ & _ & A). apply (Hn r' t' Hin). apply A. exact Ht'. }
      destruct (IH (run_update s u) Hnd' (fun u' H => Hfl u' (or_intror H)) Hn' r t) as [Hin Hout].
      fold (run_updates us (run_update s u)). split.
      + intros [E | Hr].
        * symmetry in E. destruct (Heq E) as (A1 & A2 & A3).
          assert (Hni : ~ In r (map u_rel us)) by (rewrite E; exact Hnotin).
          destruct (Hout Hni) as (B1 & B2 & B3). rewrite B1, B2, B3. tauto.
        * assert (Hne' : r <> u_rel u) by (intros E; apply Hnotin; rewrite <- E; exact Hr).
          destruct (Hne Hne') as (A1 & A2 & A3). destruct (Hin Hr) as (B1 & B2 & B3).
          rewrite B1, B2, A1, A3. tauto.
      + intros Hni.
        assert (Hne' : r <> u_rel u) by (intros E; apply Hni; left; auto).
        assert (Hni' : ~ In r (map u_rel us)) by (intros H; apply Hni; right; auto).
        destruct (Hne Hne') as (A1 & A2 & A3). destruct (Hout Hni') as (B1 & B2 & B3).
        rewrite B1, B2, B3. tauto.
  Qed.
End Frame.

Arguments stR {val}.
Arguments stD {val}.
Arguments stN {val}.
Arguments mkState {val}.
Arguments run_updates {val}.
Arguments run_preamble {val}.
Arguments exit_cond {val}.
Arguments limits_hit {val}.
Arguments new_nullary {val}.

Section FrameSound.
  Variable val : Type.
  Variable rule : Type.
  Variable rules : list rule.
  Variable arity : rule -> nat.
  Variable fire : rule -> list (fact val) -> fact val -> Prop.
  Variable s : stratum.
  Hypothesis frame_ok : frame_check s = OkResult.

  Notation scc := (st_scc s).
  Notation nul := (st_nullary s).
  Notation NewF := (New rules arity fire).

  (** the disjunction of the size-limit exits, on the set of SCC facts *)
  Definition limit_hit_of (A : fset (fact val)) : Prop :=
    exists r n, In (r, n) (st_limits s) /\ size_ge (fun f : fact val => fst f = r) (N.to_nat n) A.

  Lemma limit_hit_of_ext (A B : fset (fact val)) :
    (forall f, A f <-> B f) -> limit_hit_of A -> limit_hit_of B.
  Proof.
    intros H (r & n & Hin & l & Hnd & Hlen & Hl). exists r, n. split; auto.
    exists l. repeat split; auto; try (apply (Hl x H0)). apply H. apply (Hl x H0).
  Qed.

  (** after the preamble the delta relations of the SCC hold the main relations; the main
      relations with the arity-0 copy statement hold at most the empty tuple *)
  Theorem frame_preamble_sound (st : state val) :
    (forall r t, In r scc -> ~ stD st r t) ->
    (forall r t, In r nul -> stR st r t -> t = []) ->
    forall f, fset_of scc (stD (run_preamble nul (st_preamble s) st)) f <-> fset_of scc (stR st) f.
  Proof.
    destruct (frame_check_inv s frame_ok) as (Hpre & _).
    intros Hempty Hnul [r t]. unfold fset_of. simpl.
    pose proof (copied_iff val nul r (stR st) t (fun Hin t' => Hnul r t' Hin)) as Hc. split.
    - intros [Hr [Hd | [_ H]]]; [exfalso; exact (Hempty r t Hr Hd) | split; auto; apply Hc; exact H].
    - intros [Hr H]. split; auto. right. split; [apply Hpre; exact Hr | apply Hc; exact H].
  Qed.

  (** the size-limit exits read the main relations of SCC relations *)
  Lemma frame_limits_sound (st : state val) :
    limits_hit (st_limits s) st <-> limit_hit_of (fset_of scc (stR st)).
  Proof.
    destruct (frame_check_inv s frame_ok) as (_ & _ & _ & _ & _ & Hlim & _).
    split; intros (r & n & Hin & l & Hnd & Hlen & Hl); exists r, n; (split; [exact Hin|]);
      exists l; repeat split; auto; try (apply (Hl x H)).
    - rewrite (proj1 (Hl x H)). exact (Hlim r n Hin).
  Qed.

  (** One pass of the loop frame against one step of the abstract loop: if the loop body has
      filled the @new relations of the SCC with [New R D], then the emptiness exit fires iff [New]
      is empty, and the table updates leave [R \/ New R D] in the main relations, [New R D] in the
      delta relations, nothing in the @new relations; relations outside the SCC are untouched. *)
  Theorem frame_step_sound (st : state val) :
    let Rf := fset_of scc (stR st) in
    let Df := fset_of scc (stD st) in
    let st' := run_updates nul (st_update s) st in
    new_nullary nul st ->
    (forall f, fset_of scc (stN st) f <-> NewF Rf Df f) ->
    (exit_cond (st_exit s) st <-> (forall h, ~ NewF Rf Df h)) /\
    (forall f, fset_of scc (stR st') f <-> (Rf f \/ NewF Rf Df f)) /\
    (forall f, fset_of scc (stD st') f <-> NewF Rf Df f) /\
    (forall f, ~ fset_of scc (stN st') f) /\
    (forall r t, ~ In r scc -> (stR st' r t <-> stR st r t)).
  Proof.
    intros Rf Df st' Hnn Hnew.
    destruct (frame_check_inv s frame_ok) as (_ & Hexit & Hupd & Hnd & Hfl & _).
    pose proof (run_updates_spec val nul (st_update s) st Hnd Hfl Hnn) as Hspec. fold st' in Hspec.
    split; [| split; [| split; [| split]]].
    - split.
      + intros He h Hh. apply Hnew in Hh as [Hr Hn]. apply Hexit in Hr. exact (He _ Hr _ Hn).
      + intros Hall r Hr t Hn. apply (Hall (r, t)). apply Hnew. split; simpl; auto.
        apply Hexit. exact Hr.
    - intros [r t]. rewrite <- Hnew. unfold Rf, fset_of. simpl. split.
      + intros [Hr H]. destruct (Hspec r t) as [Hin _].
        destruct (Hin (proj1 (Hupd r) Hr)) as (A & _). apply A in H. tauto.
      + intros H. assert (Hr : In r scc) by tauto. split; auto.
        destruct (Hspec r t) as [Hin _]. destruct (Hin (proj1 (Hupd r) Hr)) as (A & _).
        apply A. tauto.
    - intros [r t]. rewrite <- Hnew. unfold fset_of. simpl. split; intros [Hr H]; split; auto;
        destruct (Hspec r t) as [Hin _]; destruct (Hin (proj1 (Hupd r) Hr)) as (_ & A & _);
        apply A; exact H.
    - intros [r t] [Hr H]. simpl in *. destruct (Hspec r t) as [Hin _].
      destruct (Hin (proj1 (Hupd r) Hr)) as (_ & _ & A). exact (A H).
    - intros r t Hr. destruct (Hspec r t) as [_ Hout]. apply Hout. intros H. apply Hr.
      apply Hupd. exact H.
  Qed.

  (** *** The whole loop.  [body R D] is what one execution of the loop body adds to the @new
      relations when the main and delta relations hold [R] and [D]. *)
  Variable body : rel_interp val -> rel_interp val -> rel_interp val.

  Definition run_body (st : state val) : state val :=
    mkState (stR st) (stD st) (fun r t => stN st r t \/ body (stR st) (stD st) r t).

  (** [LOOP (body; EXIT(all @new empty); EXIT(SIZE..)...; updates)]; the result is the family of
      main relations at the exit. *)
  Inductive ram_loop : state val -> rel_interp val -> Prop :=
  | rl_exit_empty st : exit_cond (st_exit s) (run_body st) -> ram_loop st (stR st)
  | rl_exit_limit st : limits_hit (st_limits s) (run_body st) -> ram_loop st (stR st)
  | rl_continue st res :
      ~ exit_cond (st_exit s) (run_body st) -> ~ limits_hit (st_limits s) (run_body st) ->
      ram_loop (run_updates nul (st_update s) (run_body st)) res -> ram_loop st res.

  (** [Good]: an invariant of the loop-head states under which the body is known to compute [New]
      (take [fun _ => True] if it does so unconditionally). *)
  Variable Good : state val -> Prop.
  Hypothesis body_spec : forall st, Good st -> forall f,
    fset_of scc (body (stR st) (stD st)) f <-> NewF (fset_of scc (stR st)) (fset_of scc (stD st)) f.
  (** the body inserts only the empty tuple into the relations with the arity-0 statements *)
  Hypothesis body_nullary : forall st, Good st -> forall r t,
    In r nul -> body (stR st) (stD st) r t -> t = [].
  Hypothesis good_step : forall st, Good st -> (forall f, ~ fset_of scc (stN st) f) ->
    Good (run_updates nul (st_update s) (run_body st)).

  Lemma run_body_new (st : state val) :
    Good st -> (forall f, ~ fset_of scc (stN st) f) ->
    forall f, fset_of scc (stN (run_body st)) f <->
              NewF (fset_of scc (stR (run_body st))) (fset_of scc (stD (run_body st))) f.
  Proof.
    intros Hg Hempty f. unfold run_body. simpl. rewrite <- (body_spec st Hg).
    pose proof (Hempty f) as He. unfold fset_of in *. simpl. tauto.
  Qed.

  Lemma run_body_nullary (st : state val) :
    Good st -> (forall f, ~ fset_of scc (stN st) f) -> new_nullary nul (run_body st).
  Proof.
    destruct (frame_check_inv s frame_ok) as (_ & _ & _ & _ & _ & _ & Hsub).
    intros Hg Hempty r t Hin [Hn | Hb]; [| exact (body_nullary st Hg r t Hin Hb)].
    exfalso. apply (Hempty (r, t)). split; simpl; auto.
  Qed.

  (** The emitted loop, started with empty @new relations, is a run of the abstract loop on the
      SCC facts; its result holds the same SCC facts. *)
  Theorem frame_loop_sound (st : state val) (res : rel_interp val) :
    ram_loop st res -> Good st -> (forall f, ~ fset_of scc (stN st) f) ->
    exists res', loop_run rules arity fire limit_hit_of (fset_of scc (stR st)) (fset_of scc (stD st)) res' /\
                 forall f, res' f <-> fset_of scc res f.
  Proof.
    induction 1 as [st He | st Hl | st res Hne Hnl _ IH]; intros Hg Hempty.
    - exists (fset_of scc (stR st)). split; [| tauto]. apply run_exit_empty.
      apply (proj1 (frame_step_sound (run_body st) (run_body_nullary st Hg Hempty)
                      (run_body_new st Hg Hempty))). exact He.
    - exists (fset_of scc (stR st)). split; [| tauto]. apply run_exit_limit.
      apply (frame_limits_sound (run_body st)). exact Hl.
    - destruct (frame_step_sound (run_body st) (run_body_nullary st Hg Hempty)
                  (run_body_new st Hg Hempty)) as (E1 & E2 & E3 & E4 & _).
      destruct (IH (good_step st Hg Hempty) E4) as (res' & Hrun & Hres).
      destruct (loop_run_ext _ _ rules arity fire limit_hit_of limit_hit_of_ext _ _ _ Hrun
                  (fun f => fset_of scc (stR st) f \/ NewF (fset_of scc (stR st)) (fset_of scc (stD st)) f)
                  (NewF (fset_of scc (stR st)) (fset_of scc (stD st))) E2 E3) as (res'' & Hrun' & Hres').
      exists res''. split.
      + apply run_continue; auto.
        * intros Hall. apply Hne. apply E1. exact Hall.
        * intros Hl. apply Hnl. apply (frame_limits_sound (run_body st)). exact Hl.
      + intros f. rewrite <- Hres'. apply Hres.
  Qed.
End FrameSound.

(** ** The loop body as a whole: the emitted versions compute [New] *)
Lemma list_eqb_eq (A : Type) (eqb : A -> A -> bool) :
  (forall a b, eqb a b = true -> a = b) -> forall l1 l2, list_eqb eqb l1 l2 = true -> l1 = l2.
Proof.
  intros H. induction l1 as [|a l1 IH]; intros [|b l2] E; simpl in E; try discriminate; auto.
  apply andb_true_iff in E as [E1 E2]. f_equal; auto.
Qed.

Lemma scan_eqb_eq a b : scan_eqb a b = true -> a = b.
Proof.
  unfold scan_eqb. intros H. apply andb_true_iff in H as [H H3]. apply andb_true_iff in H as [H1 H2].
  apply N.eqb_eq in H1, H2. apply kind_eqb_eq in H3. destruct a, b; simpl in *; subst; reflexivity.
Qed.

Lemma neg_eqb_eq a b : neg_eqb a b = true -> a = b.
Proof.
  unfold neg_eqb. intros H. apply andb_true_iff in H as [H H3]. apply andb_true_iff in H as [H1 H2].
  apply N.eqb_eq in H1. apply kind_eqb_eq in H2. apply elems_eqb_eq in H3.
  destruct a, b; simpl in *; subst; reflexivity.
Qed.

Lemma eq_pair_eqb_eq p q : eq_pair_eqb p q = true -> p = q.
Proof.
  unfold eq_pair_eqb. intros H. apply andb_true_iff in H as [H1 H2].
  apply elem_eqb_eq in H1, H2. destruct p, q; simpl in *; subst; reflexivity.
Qed.

Lemma test_eqb_eq a b : test_eqb a b = true -> a = b.
Proof.
  unfold test_eqb. intros H. apply andb_true_iff in H as [H1 H2].
  apply N.eqb_eq in H1. apply kind_eqb_eq in H2. destruct a, b; simpl in *; subst; reflexivity.
Qed.

Lemma uniform_inv scc v0 v :
  uniform scc v0 v = true ->
  lower_scans scc v = lower_scans scc v0 /\ v_eqs v = v_eqs v0 /\
  lower_negs scc v = lower_negs scc v0 /\ v_ins_rel v = v_ins_rel v0 /\ v_ins_args v = v_ins_args v0 /\
  lower_tests scc v = lower_tests scc v0 /\ lower_empties scc v = lower_empties scc v0.
Proof.
  unfold uniform. rewrite !andb_true_iff. intros (((((((H1 & H2) & H3) & _) & H5) & H6) & H7) & H8).
  split; [exact (list_eqb_eq _ _ scan_eqb_eq _ _ H1)|].
  split; [exact (list_eqb_eq _ _ eq_pair_eqb_eq _ _ H2)|].
  split; [exact (list_eqb_eq _ _ neg_eqb_eq _ _ H3)|].
  split; [apply N.eqb_eq; exact H5|]. split; [apply elems_eqb_eq; exact H6|].
  split; [exact (list_eqb_eq _ _ test_eqb_eq _ _ H7) | exact (list_eqb_eq _ _ test_eqb_eq _ _ H8)].
Qed.

Lemma nullary_head_inv v r : nullary_head v r = true -> r = v_ins_rel v /\ v_ins_args v = [].
Proof.
  unfold nullary_head. intros H. apply andb_true_iff in H as [H1 H2]. apply N.eqb_eq in H1.
  split; auto. destruct (v_ins_args v); [reflexivity | discriminate].
Qed.

Lemma version_local_inv_negs scc cid i v :
  version_local scc cid i v = OkResult ->
  (forall s, In s (v_scans v) ->
     s_kind s = KMain \/ (s_kind s = KDelta /\ In (s_rel s) scc)) /\
  (forall n, In n (v_negs v) ->
     (n_kind n = KDelta /\ In (n_rel n) scc) \/
     (n_kind n = KMain /\ In (n_rel n) scc /\ is_guard v n = true) \/
     (n_kind n = KMain /\ ~ In (n_rel n) scc)) /\
  (forall e, In e (v_tests v) ->
     e_kind e = KMain \/ (e_kind e = KDelta /\ In (e_rel e) scc)) /\
  (forall e, In e (v_empties v) ->
     (e_kind e = KDelta /\ In (e_rel e) scc) \/
     (e_kind e = KMain /\ In (e_rel e) scc /\ e_rel e = v_ins_rel v /\ v_ins_args v = []) \/
     (e_kind e = KMain /\ ~ In (e_rel e) scc) \/
     (e_kind e = KNew /\ e_rel e = v_ins_rel v /\ v_ins_args v = [])).
Proof.
  unfold version_local. rewrite !andr_ok, !guard_ok.
  intros (((((((((H1 & _) & H3) & _) & H5) & H6) & H7) & _) & H9) & _).
  rewrite forallb_forall in H1, H3, H5, H6, H7, H9. split; [| split; [| split]].
  - intros s Hs. specialize (H1 s Hs). unfold scan_kind_ok in H1.
    destruct (s_kind s); auto; [| discriminate]. right. split; auto. apply memN_In. exact H1.
  - intros n Hn. specialize (H5 n Hn). specialize (H6 n Hn). specialize (H7 n Hn).
    unfold delta_neg_in_scc in H6. unfold scc_neg_ok in H7.
    destruct (n_kind n); simpl in *.
    + destruct (in_scc scc (n_rel n)) eqn:E.
      * right. left. repeat split; auto. apply memN_In. exact E.
      * right. right. split; auto. intros Hin. apply memN_In in Hin. unfold in_scc in E. congruence.
    + left. split; auto. apply memN_In. exact H6.
    + discriminate.
  - intros e He. specialize (H3 e He). unfold test_kind_ok in H3.
    destruct (e_kind e); auto; [| discriminate]. right. split; auto. apply memN_In. exact H3.
  - intros e He. specialize (H9 e He). unfold empty_ok in H9. destruct (e_kind e).
    + destruct (in_scc scc (e_rel e)) eqn:E.
      * right. left. apply nullary_head_inv in H9 as [A B]. repeat split; auto. apply memN_In. exact E.
      * right. right. left. split; auto. intros Hin. apply memN_In in Hin. unfold in_scc in E. congruence.
    + left. split; auto. apply memN_In. exact H9.
    + right. right. right. apply nullary_head_inv in H9 as [A B]. auto.
Qed.

Lemma same_sig_In l1 : forall l2 s2,
  map (fun s => (s_tup s, s_rel s)) l1 = map (fun s => (s_tup s, s_rel s)) l2 -> In s2 l2 ->
  exists s1, In s1 l1 /\ s_tup s1 = s_tup s2 /\ s_rel s1 = s_rel s2.
Proof.
  intros l2 s2 H Hin.
  assert (Hm : In (s_tup s2, s_rel s2) (map (fun s => (s_tup s, s_rel s)) l1)).
  { rewrite H. apply (in_map (fun s => (s_tup s, s_rel s))). exact Hin. }
  apply in_map_iff in Hm as (s1 & E & H1). inversion E. eauto.
Qed.

Section Body.
  Variable val : Type.
  Variable dflt : val.
  Variable scc : list N.
  Variable arity : N -> nat.
  (** the values of the other expressions under a binding of the tuple ids *)
  Variable kv : (N -> tuple val) -> N -> val.
  (** the conjunction of the filters that the skeleton only counts ([v_others]), per clause *)
  Variable others_sat : N -> (N -> tuple val) -> Prop.
  (** the relations of lower strata; the loop does not write them *)
  Variable L : rel_interp val.

  (** arities of the existence checks and of the insertion (RAM is typed) *)
  Definition static_typed (c : clause) : Prop :=
    forall v, In v (c_versions c) ->
      (forall n, In n (v_negs v) -> length (n_args n) = arity (n_rel n)) /\
      length (v_ins_args v) = arity (v_ins_rel v).
  (** [ISEMPTY(@delta_r)] stands for a negated delta only when [r] has arity 0; [stratum_check]
      compares with the relations that have the arity-0 copy statements ([nullary_check]) *)
  Definition empties_nullary (c : clause) : Prop :=
    forall v e, In v (c_versions c) -> In e (delta_empties v) -> arity (e_rel e) = 0.

  (** the QUERY of one version inserts [h].  The [BREAK]s are not part of it: they end a scan early. *)
  Definition version_emits (R D Nw : rel_interp val) (cid : N) (v : version) (h : fact val) : Prop :=
    exists asg,
      Forall (scan_sat R D Nw asg) (v_scans v) /\ sat_eqs dflt asg (kv asg) (v_eqs v) /\
      Forall (neg_sat dflt R D Nw asg (kv asg)) (v_negs v) /\ others_sat cid asg /\
      h = head_fact dflt asg (kv asg) v /\
      Forall (test_sat R D Nw) (v_tests v) /\ Forall (empt_sat R D Nw) (v_empties v).

  (** the rule of the abstract scheme that a clause stands for: everything but the SCC atoms
      (lower-stratum scans, negations and emptiness tests, equalities, other filters), read off
      version 0; an SCC atom without a scan stands for any tuple ([w]) *)
  Definition fire_clause (c : clause) (ts : list (fact val)) (h : fact val) : Prop :=
    match c_versions c with
    | [] => False
    | v0 :: _ =>
        exists asg w,
          (forall s, In s (v_scans v0) -> length (asg (s_tup s)) = arity (s_rel s)) /\
          Forall (fun s => L (s_rel s) (asg (s_tup s))) (lower_scans scc v0) /\
          sat_eqs dflt asg (kv asg) (v_eqs v0) /\
          Forall (fun n => ~ L (n_rel n) (map (ev dflt asg (kv asg)) (n_args n))) (lower_negs scc v0) /\
          others_sat (c_id c) asg /\
          ts = clause_facts scc c asg w /\ h = head_fact dflt asg (kv asg) v0 /\
          Forall (fun e => exists t, L (e_rel e) t) (lower_tests scc v0) /\
          Forall (fun e => forall t, ~ L (e_rel e) t) (lower_empties scc v0)
    end.

  Variables R D Nw : rel_interp val.
  Hypothesis R_typed : forall r t, R r t -> length t = arity r.
  Hypothesis D_sub_R : forall r t, In r scc -> D r t -> R r t.
  Hypothesis R_lower : forall r t, ~ In r scc -> (R r t <-> L r t).

  Theorem version_emits_iff c i v h :
    clause_check scc c = OkResult -> nth_error (c_versions c) i = Some v ->
    static_typed c -> empties_nullary c ->
    (forall e, In e (v_empties v) -> e_kind e = KNew -> forall t, ~ Nw (e_rel e) t) ->
    (version_emits R D Nw (c_id c) v h <->
     ~ fset_of scc R h /\
     exists ts, version_ok (fset_of scc R) (fset_of scc D) i ts /\ fire_clause c ts h).
  Proof.
    intros Hc Hi Hst Hen HNw.
    destruct (clause_check_inv scc c Hc) as (v0 & rest & Evs & Hall & _).
    destruct (Hall i v Hi) as ((Hsame & _) & Hunif & Hloc & _).
    destruct (uniform_inv _ _ _ Hunif) as (Uls & Ueq & Uln & Uir & Uia & Ult & Ule).
    destruct (version_local_inv_negs _ _ _ _ Hloc) as (Hsk & Hnk & Htk & Hek).
    destruct (head_guard_sound val dflt scc R D Nw c i v Hc Hi) as (_ & Hins & Hguard).
    pose proof (scans_same_sig _ _ Hsame) as Hsig.
    assert (Hvin : In v (c_versions c)) by (eapply nth_error_In; eauto).
    destruct (Hst v Hvin) as (Hnty & Hity).
    assert (Hnil : forall r t, arity r = 0 -> R r t -> t = []).
    { intros r t Hr Ht. apply R_typed in Ht. rewrite Hr in Ht. destruct t; [reflexivity | discriminate]. }
    assert (Hnul : forall e, In e (delta_empties v) -> forall t, R (e_rel e) t -> t = []).
    { intros e He t Ht. exact (Hnil _ t (Hen v e Hvin He) Ht). }
    assert (Ehead : forall asg, head_fact dflt asg (kv asg) v = head_fact dflt asg (kv asg) v0).
    { intros asg. unfold head_fact. rewrite Uir, Uia. reflexivity. }
    assert (Hlow_scan : forall asg s, In s (lower_scans scc v) ->
              (scan_sat R D Nw asg s <-> L (s_rel s) (asg (s_tup s)))).
    { intros asg s Hs. apply filter_In in Hs as [Hs Hn]. apply negb_true_iff in Hn.
      assert (Hns : ~ In (s_rel s) scc) by (intros H; apply memN_In in H; unfold in_scc in Hn; congruence).
      unfold scan_sat. destruct (Hsk s Hs) as [Hk | [_ Hk]]; [| tauto].
      rewrite Hk. simpl. apply R_lower. exact Hns. }
    assert (Hlow_neg : forall asg n, In n (lower_negs scc v) ->
              (neg_sat dflt R D Nw asg (kv asg) n <->
               ~ L (n_rel n) (map (ev dflt asg (kv asg)) (n_args n)))).
    { intros asg n Hn. apply filter_In in Hn as [Hn Hns]. apply negb_true_iff in Hns.
      assert (Hns' : ~ In (n_rel n) scc) by (intros H; apply memN_In in H; unfold in_scc in Hns; congruence).
      unfold neg_sat. destruct (Hnk n Hn) as [[_ H] | [(_ & H & _) | [Hk _]]]; try tauto.
      rewrite Hk. simpl. rewrite (R_lower _ _ Hns'). tauto. }
    assert (Hlow_test : forall e, In e (lower_tests scc v) ->
              (test_sat R D Nw e <-> exists t, L (e_rel e) t)).
    { intros e He. apply filter_In in He as [He Hns]. apply negb_true_iff in Hns.
      assert (Hns' : ~ In (e_rel e) scc) by (intros H; apply memN_In in H; unfold in_scc in Hns; congruence).
      unfold test_sat. destruct (Htk e He) as [Hk | [_ Hk]]; [| tauto].
      rewrite Hk. simpl. split; intros [t Ht]; exists t; apply (R_lower _ t Hns'); exact Ht. }
    assert (Hlow_empt : forall e, In e (lower_empties scc v) ->
              (empt_sat R D Nw e <-> forall t, ~ L (e_rel e) t)).
    { intros e He. apply filter_In in He as [He Hns]. apply negb_true_iff in Hns.
      assert (Hns' : ~ In (e_rel e) scc) by (intros H; apply memN_In in H; unfold in_scc in Hns; congruence).
      unfold empt_sat.
      destruct (Hek e He) as [[_ H] | [(_ & H & _) | [[Hk _] | (_ & H & _)]]]; try tauto.
      - rewrite Hk. simpl. split; intros H t Ht; apply (H t); apply (R_lower _ t Hns'); exact Ht.
      - exfalso. apply Hns'. rewrite H. exact Hins. }
    split.
    - intros (asg & Hscans & Hsat & Hnegs & Hoth & -> & Htests & Hempt).
      rewrite Forall_forall in Hscans, Hnegs, Htests, Hempt.
      assert (Hty : typed_version arity asg v).
      { split; [| exact Hnty]. intros s Hs. specialize (Hscans s Hs). unfold scan_sat in Hscans.
        destruct (Hsk s Hs) as [Hk | [Hk Hin]]; rewrite Hk in Hscans; simpl in Hscans; auto. }
      split; [apply Hguard; apply Forall_forall; auto|].
      destruct (proj1 (version_ok_sound val dflt scc R D Nw arity c i v asg (kv asg)
                         Hc Hi Hty Hsat D_sub_R Hnul)) as [w Hw].
      { split; [| split].
        - apply atoms_sat_iff. split; apply Forall_forall.
          + intros s Hs. apply filter_In in Hs as [Hs _]. auto.
          + intros e He. apply filter_In in He as [He _]. auto.
        - apply Forall_forall. intros n Hn. apply filter_In in Hn as [Hn _]. auto.
        - apply Forall_forall. intros e He. apply filter_In in He as [He _]. auto. }
      exists (clause_facts scc c asg w). split; [exact Hw|].
      unfold fire_clause. rewrite Evs. exists asg, w.
      rewrite <- Uls, <- Ueq, <- Uln, <- Ehead, <- Ult, <- Ule.
      split; [| split; [| split; [| split; [| split; [| split; [| split; [| split]]]]]]]; auto.
      * intros s0 Hs0. destruct (same_sig_In _ _ s0 Hsig Hs0) as (s1 & H1 & <- & <-).
        apply (proj1 Hty). exact H1.
      * apply Forall_forall. intros s Hs. apply Hlow_scan; auto.
        apply Hscans. apply filter_In in Hs. tauto.
      * apply Forall_forall. intros n Hn. apply Hlow_neg; auto.
        apply Hnegs. apply filter_In in Hn. tauto.
      * apply Forall_forall. intros e He. apply Hlow_test; auto.
        apply Htests. apply filter_In in He. tauto.
      * apply Forall_forall. intros e He. apply Hlow_empt; auto.
        apply Hempt. apply filter_In in He. tauto.
    - intros (Hnot & ts & Hv & Hfire). unfold fire_clause in Hfire. rewrite Evs in Hfire.
      destruct Hfire as (asg & w & Hty0 & Hls & Hsat & Hln & Hoth & -> & -> & Hlt & Hle).
      rewrite <- Uls in Hls. rewrite <- Ueq in Hsat. rewrite <- Uln in Hln. rewrite <- Ehead in *.
      rewrite <- Ult in Hlt. rewrite <- Ule in Hle.
      rewrite Forall_forall in Hls, Hln, Hlt, Hle.
      assert (Hty : typed_version arity asg v).
      { split; [| exact Hnty]. intros s Hs.
        destruct (same_sig_In _ _ s (eq_sym Hsig) Hs) as (s0 & H0 & <- & <-). auto. }
      destruct (proj2 (version_ok_sound val dflt scc R D Nw arity c i v asg (kv asg)
                         Hc Hi Hty Hsat D_sub_R Hnul) (ex_intro _ w Hv)) as (Hat & Hdn & Hde).
      apply atoms_sat_iff in Hat as [Hss Hst'].
      rewrite Forall_forall in Hss, Hst', Hdn, Hde.
      exists asg. split; [| split; [| split; [| split; [| split; [| split]]]]]; auto.
      + apply Forall_forall. intros s Hs. destruct (in_scc scc (s_rel s)) eqn:E.
        * apply Hss. apply filter_In. auto.
        * assert (Hl : In s (lower_scans scc v)) by (apply filter_In; rewrite E; auto).
          apply Hlow_scan; auto.
      + apply Forall_forall. intros n Hn.
        destruct (Hnk n Hn) as [[Hk Hin] | [(Hk & Hin & Hg) | [Hk Hnin]]].
        * apply Hdn. apply filter_In. split; auto. apply kind_eqb_eq. exact Hk.
        * unfold neg_sat. unfold is_guard in Hg.
          apply andb_true_iff in Hg as [Hg Ha]. apply andb_true_iff in Hg as [_ Hg2].
          apply N.eqb_eq in Hg2. apply elems_eqb_eq in Ha. rewrite Hk, Hg2, Ha. simpl.
          intros HR. apply Hnot. split; simpl; auto.
        * assert (Hl : In n (lower_negs scc v)).
          { apply filter_In. split; auto. apply negb_true_iff.
            destruct (in_scc scc (n_rel n)) eqn:E; auto. apply memN_In in E. tauto. }
          apply Hlow_neg; auto.
      + apply Forall_forall. intros e He. destruct (in_scc scc (e_rel e)) eqn:E.
        * apply Hst'. apply filter_In. auto.
        * assert (Hl : In e (lower_tests scc v)) by (apply filter_In; rewrite E; auto).
          apply Hlow_test; auto.
      + apply Forall_forall. intros e He.
        destruct (Hek e He) as [[Hk Hin] | [(Hk & Hin & Hr & Ha) | [[Hk Hnin] | (Hk & Hr & Ha)]]].
        * apply Hde. apply filter_In. split; auto. apply kind_eqb_eq. exact Hk.
        * unfold empt_sat. rewrite Hk, Hr. simpl. intros t Ht. apply Hnot.
          assert (Har : arity (v_ins_rel v) = 0) by (rewrite <- Hity, Ha; reflexivity).
          rewrite (Hnil _ t Har Ht) in Ht. unfold head_fact. rewrite Ha. split; simpl; auto.
        * assert (Hl : In e (lower_empties scc v)).
          { apply filter_In. split; auto. apply negb_true_iff.
            destruct (in_scc scc (e_rel e)) eqn:E; auto. apply memN_In in E. tauto. }
          apply Hlow_empt; auto.
        * unfold empt_sat. rewrite Hk. simpl. apply HNw; auto.
  Qed.

  (** The test [IF ISEMPTY(@new_H)] in front of [INSERT () INTO @new_H] does not change what @new
      holds after the QUERY: when it fails, @new_H already holds the empty tuple, which is all the
      QUERY could insert.  ([Nw]: @new before the QUERY; emptiness of @new_H is decidable.) *)
  Theorem self_test_redundant c i v :
    clause_check scc c = OkResult -> nth_error (c_versions c) i = Some v ->
    (forall t, Nw (v_ins_rel v) t -> t = []) ->
    (exists t, Nw (v_ins_rel v) t) \/ (forall t, ~ Nw (v_ins_rel v) t) ->
    forall f, (Nw (fst f) (snd f) \/ version_emits R D Nw (c_id c) v f) <->
              (Nw (fst f) (snd f) \/ version_emits R D (fun _ _ => False) (c_id c) v f).
  Proof.
    intros Hc Hi Hnn Hdec f.
    destruct (clause_check_inv scc c Hc) as (v0 & rest & _ & Hall & _).
    destruct (Hall i v Hi) as (_ & _ & Hloc & _).
    destruct (version_local_inv_negs _ _ _ _ Hloc) as (Hsk & Hnk & Htk & Hek).
    assert (Hscan : forall N1 N2 asg s, In s (v_scans v) -> scan_sat R D N1 asg s -> scan_sat R D N2 asg s).
    { intros N1 N2 asg s Hs. unfold scan_sat. destruct (Hsk s Hs) as [Hk | [Hk _]]; rewrite Hk; auto. }
    assert (Hneg : forall N1 N2 asg n, In n (v_negs v) ->
              neg_sat dflt R D N1 asg (kv asg) n -> neg_sat dflt R D N2 asg (kv asg) n).
    { intros N1 N2 asg n Hn. unfold neg_sat.
      destruct (Hnk n Hn) as [[Hk _] | [(Hk & _) | [Hk _]]]; rewrite Hk; auto. }
    assert (Htest : forall N1 N2 e, In e (v_tests v) -> test_sat R D N1 e -> test_sat R D N2 e).
    { intros N1 N2 e He. unfold test_sat. destruct (Htk e He) as [Hk | [Hk _]]; rewrite Hk; auto. }
    split; (intros [Hn | (asg & H1 & H2 & H3 & H4 & H5 & H6 & H7)]; [left; exact Hn|]);
      rewrite Forall_forall in H1, H3, H6, H7.
    - right. exists asg. split; [| split; [| split; [| split; [| split; [| split]]]]]; auto;
        apply Forall_forall.
      + intros s Hs. eapply Hscan; eauto.
      + intros n Hn. eapply Hneg; eauto.
      + intros e He. eapply Htest; eauto.
      + intros e He. specialize (H7 e He). unfold empt_sat in *.
        destruct (Hek e He) as [[Hk _] | [(Hk & _) | [[Hk _] | (Hk & _)]]]; rewrite Hk in *; auto.
    - destruct Hdec as [[t Ht] | Hemp].
      + destruct (existsb (fun e => kind_eqb (e_kind e) KNew) (v_empties v)) eqn:Ex.
        * apply existsb_exists in Ex as (e & He & Hk). apply kind_eqb_eq in Hk.
          destruct (Hek e He) as [[Hk' _] | [(Hk' & _) | [[Hk' _] | (_ & _ & Ha)]]]; try congruence.
          left. rewrite H5. unfold head_fact. rewrite Ha. simpl.
          rewrite (Hnn t Ht) in Ht. exact Ht.
        * right. exists asg. split; [| split; [| split; [| split; [| split; [| split]]]]]; auto;
            apply Forall_forall.
          -- intros s Hs. eapply Hscan; eauto.
          -- intros n Hn. eapply Hneg; eauto.
          -- intros e He. eapply Htest; eauto.
          -- intros e He. specialize (H7 e He). unfold empt_sat in *.
             destruct (e_kind e) eqn:Hk; auto. exfalso.
             assert (existsb (fun e => kind_eqb (e_kind e) KNew) (v_empties v) = true); [| congruence].
             apply existsb_exists. exists e. rewrite Hk. auto.
      + right. exists asg. split; [| split; [| split; [| split; [| split; [| split]]]]]; auto;
          apply Forall_forall.
        * intros s Hs. eapply Hscan; eauto.
        * intros n Hn. eapply Hneg; eauto.
        * intros e He. eapply Htest; eauto.
        * intros e He. specialize (H7 e He). unfold empt_sat in *.
          destruct (Hek e He) as [[Hk _] | [(Hk & _) | [[Hk _] | (Hk & Hr & _)]]]; rewrite Hk in *; auto.
          simpl. rewrite Hr. exact Hemp.
  Qed.
End Body.

Arguments static_typed arity c : clear implicits.
Arguments empties_nullary arity c : clear implicits.
Arguments version_emits {val}.
Arguments fire_clause {val}.

(** ** The emitted stratum is a run of the abstract loop *)
Section Emitted.
  Variable val : Type.
  Variable dflt : val.
  Variable arity : N -> nat.
  Variable kv : (N -> tuple val) -> N -> val.
  Variable others_sat : N -> (N -> tuple val) -> Prop.
  Variable L : rel_interp val.
  Variable s : stratum.
  Hypothesis check_ok : stratum_check s = OkResult.
  Hypothesis typed_ok : forall c, In c (st_clauses s) -> static_typed arity c.
  (** the relations with the arity-0 copy statements ([INSERT () INTO r]) have arity 0 (RAM is typed) *)
  Hypothesis nullary_ok : forall r, In r (st_nullary s) -> arity r = 0.

  Notation scc := (st_scc s).
  Notation nul := (st_nullary s).
  Notation fireC := (fire_clause dflt scc arity kv others_sat L).

  (** the rules of the abstract scheme are the clauses; a clause has as many SCC atoms as versions *)
  Definition clause_arity (c : clause) : nat := length (c_versions c).

  (** what the QUERYs of the loop body insert into the @new relations (every QUERY taken on empty
      @new relations: see [self_test_redundant]) *)
  Definition body_emitted (R D : rel_interp val) : rel_interp val := fun r t =>
    exists c i v, In c (st_clauses s) /\ nth_error (c_versions c) i = Some v /\
                  version_emits dflt kv others_sat R D (fun _ _ => False) (c_id c) v (r, t).

  (** loop-head states: the main relations are typed, @delta is contained in the main relation
      for the SCC, the relations outside the SCC are the given lower relations *)
  Definition good (st : state val) : Prop :=
    (forall r t, stR st r t -> length t = arity r) /\
    (forall r t, In r scc -> stD st r t -> stR st r t) /\
    (forall r t, ~ In r scc -> (stR st r t <-> L r t)).

  Lemma stratum_check_inv :
    frame_check s = OkResult /\
    (forall c, In c (st_clauses s) -> clause_check scc c = OkResult) /\
    (forall c v e, In c (st_clauses s) -> In v (c_versions c) -> In e (delta_empties v) ->
                   In (e_rel e) nul).
  Proof.
    unfold stratum_check in check_ok. apply andr_ok in check_ok as [H12 H3].
    apply andr_ok in H12 as [H1 H2]. split; auto. split.
    - intros c Hc. apply In_nth_error in Hc as [j Hj]. exact (check_all_ok _ _ _ H2 j c Hj).
    - intros c v e Hc Hv He. apply In_nth_error in Hc as [j Hj]. apply In_nth_error in Hv as [k Hk].
      pose proof (check_all_ok _ _ _ H3 j c Hj) as A. unfold nullary_check in A.
      pose proof (check_all_ok _ _ _ A k v Hk) as B. apply guard_ok in B.
      rewrite forallb_forall in B. apply memN_In. exact (B e He).
  Qed.

  Lemma emitted_empties_nullary c : In c (st_clauses s) -> empties_nullary arity c.
  Proof.
    intros Hc v e Hv He. destruct stratum_check_inv as (_ & _ & Hn).
    apply nullary_ok. exact (Hn c v e Hc Hv He).
  Qed.

  Lemma fire_clause_length c ts h : fireC c ts h -> length ts = clause_arity c.
  Proof.
    unfold fire_clause, clause_arity. destruct (c_versions c) as [|v0 rest] eqn:E; [tauto|].
    intros (asg & w & _ & _ & _ & _ & _ & -> & _). rewrite clause_facts_length, E. reflexivity.
  Qed.

  Lemma fire_clause_head_typed c ts h :
    In c (st_clauses s) -> fireC c ts h -> length (snd h) = arity (fst h).
  Proof.
    intros Hc. unfold fire_clause. destruct (c_versions c) as [|v0 rest] eqn:E; [tauto|].
    intros (asg & w & _ & _ & _ & _ & _ & _ & -> & _). simpl. rewrite map_length.
    apply (typed_ok c Hc v0). rewrite E. simpl; auto.
  Qed.

  (** every clause has at least one SCC atom: the premise of [arity_pos_preamble_closed] *)
  Lemma emitted_arity_pos c : In c (st_clauses s) -> 0 < clause_arity c.
  Proof.
    intros Hc. destruct stratum_check_inv as (_ & Hcl & _).
    destruct (clause_check_inv scc c (Hcl c Hc)) as (v0 & rest & E & _).
    unfold clause_arity. rewrite E. simpl. lia.
  Qed.

  Theorem emitted_body_is_New (st : state val) :
    good st -> forall f,
    fset_of scc (body_emitted (stR st) (stD st)) f <->
    New (st_clauses s) clause_arity fireC (fset_of scc (stR st)) (fset_of scc (stD st)) f.
  Proof.
    intros (G1 & G2 & G3) [r t]. destruct stratum_check_inv as (_ & Hcl & _).
    assert (HNw : forall (v : version) e, In e (v_empties v) -> e_kind e = KNew ->
                    forall t0 : tuple val, ~ (fun (_ : N) (_ : tuple val) => False) (e_rel e) t0)
      by (intros; tauto).
    split.
    - intros [_ (c & i & v & Hc & Hi & Hem)].
      apply (version_emits_iff val dflt scc arity kv others_sat L (stR st) (stD st) (fun _ _ => False)
               G1 G2 G3 c i v (r, t) (Hcl c Hc) Hi (typed_ok c Hc) (emitted_empties_nullary c Hc) (HNw v))
        in Hem as [Hnot (ts & Hv & Hf)].
      split; auto. exists c, ts, i. pose proof (fire_clause_length c ts (r, t) Hf) as Hlen.
      split; [exact Hc|]. split; [exact Hlen|]. split; [| split; [exact Hv | exact Hf]].
      rewrite Hlen. apply nth_error_Some. unfold clause_arity. congruence.
    - intros [Hnot (c & ts & i & Hc & Hlen & Hlt & Hv & Hf)].
      rewrite Hlen in Hlt. unfold clause_arity in Hlt.
      destruct (nth_error (c_versions c) i) as [v|] eqn:Hi; [| apply nth_error_None in Hi; lia].
      assert (Hem : version_emits dflt kv others_sat (stR st) (stD st) (fun _ _ => False) (c_id c) v (r, t)).
      { apply (version_emits_iff val dflt scc arity kv others_sat L (stR st) (stD st) (fun _ _ => False)
                 G1 G2 G3 c i v (r, t) (Hcl c Hc) Hi (typed_ok c Hc) (emitted_empties_nullary c Hc) (HNw v)).
        split; eauto. }
      split.
      + destruct Hem as (asg & _ & _ & _ & _ & E & _). inversion E; subst. simpl.
        apply (head_guard_sound val dflt scc (stR st) (stD st) (fun _ _ => False) c i v (Hcl c Hc) Hi).
      + exists c, i, v. auto.
  Qed.

  (** the QUERYs insert only the empty tuple into the relations of arity 0 *)
  Lemma body_emitted_nullary (R D : rel_interp val) r t :
    In r nul -> body_emitted R D r t -> t = [].
  Proof.
    intros Hr (c & i & v & Hc & Hi & asg & _ & _ & _ & _ & E & _).
    unfold head_fact in E. inversion E; subst.
    assert (Hv : In v (c_versions c)) by (eapply nth_error_In; eauto).
    destruct (typed_ok c Hc v Hv) as [_ Hl]. rewrite (nullary_ok _ Hr) in Hl.
    destruct (v_ins_args v); [reflexivity | discriminate].
  Qed.

  Lemma good_step (st : state val) :
    good st -> (forall f, ~ fset_of scc (stN st) f) ->
    good (run_updates nul (st_update s) (run_body val body_emitted st)).
  Proof.
    intros Hg Hempty. pose proof Hg as (G1 & G2 & G3).
    destruct stratum_check_inv as (Hfr & _).
    assert (Hnew : forall f,
              fset_of scc (stN (run_body val body_emitted st)) f <->
              New (st_clauses s) clause_arity fireC
                  (fset_of scc (stR (run_body val body_emitted st)))
                  (fset_of scc (stD (run_body val body_emitted st))) f).
    { intros f. unfold run_body. simpl. rewrite <- (emitted_body_is_New st Hg).
      pose proof (Hempty f) as He. unfold fset_of in *. simpl. tauto. }
    assert (Hnn : new_nullary nul (run_body val body_emitted st)).
    { destruct (frame_check_inv s Hfr) as (_ & _ & _ & _ & _ & _ & Hsub).
      intros r t Hin [Hn | Hb]; [| exact (body_emitted_nullary _ _ r t Hin Hb)].
      exfalso. apply (Hempty (r, t)). split; simpl; auto. }
    destruct (frame_step_sound val clause (st_clauses s) clause_arity fireC s Hfr
                (run_body val body_emitted st) Hnn Hnew) as (_ & E2 & E3 & _ & E5).
    simpl in E2, E3, E5.
    assert (Hnew_typed : forall r t,
              New (st_clauses s) clause_arity fireC (fset_of scc (stR st)) (fset_of scc (stD st)) (r, t) ->
              length t = arity r).
    { intros r t [_ (c & ts & i & Hc & _ & _ & _ & Hf)].
      exact (fire_clause_head_typed c ts (r, t) Hc Hf). }
    split; [| split].
    - intros r t Hr. destruct (in_dec N.eq_dec r scc) as [Hin | Hnin].
      + destruct (proj1 (E2 (r, t))) as [[_ H] | H]; [split; auto | apply G1; exact H | auto].
      + apply G1. apply (E5 r t Hnin). exact Hr.
    - intros r t Hin Hd. apply (proj2 (E2 (r, t))). right. apply (E3 (r, t)). split; auto.
    - intros r t Hnin. rewrite (E5 r t Hnin). apply G3. exact Hnin.
  Qed.

  (** The loop of an accepted stratum, started in a good state with empty @new relations, is a run
      of [SemiNaiveAbs.loop_run] with the clauses as rules.  (The theorems C09/C20/C23 about
      [loop_run], [New], [version_ok] therefore speak about the emitted RAM.) *)
  Theorem emitted_loop_sound (st : state val) (res : rel_interp val) :
    ram_loop val s body_emitted st res -> good st -> (forall f, ~ fset_of scc (stN st) f) ->
    exists res', loop_run (st_clauses s) clause_arity fireC (limit_hit_of val s)
                          (fset_of scc (stR st)) (fset_of scc (stD st)) res' /\
                 forall f, res' f <-> fset_of scc res f.
  Proof.
    destruct stratum_check_inv as (Hfr & _).
    apply (frame_loop_sound val clause (st_clauses s) clause_arity fireC s Hfr body_emitted good).
    - intros st0 Hg f. apply emitted_body_is_New. exact Hg.
    - intros st0 _ r t Hin Hb. exact (body_emitted_nullary _ _ r t Hin Hb).
    - exact good_step.
  Qed.

  (** With the preamble in front: from main relations [R0] (the non-recursive rules have been
      evaluated), empty @delta and @new relations of the SCC. *)
  Theorem emitted_stratum_sound (st : state val) (res : rel_interp val) :
    (forall r t, stR st r t -> length t = arity r) ->
    (forall r t, ~ In r scc -> (stR st r t <-> L r t)) ->
    (forall r t, In r scc -> ~ stD st r t) -> (forall r t, In r scc -> ~ stN st r t) ->
    ram_loop val s body_emitted (run_preamble nul (st_preamble s) st) res ->
    exists res', loop_run (st_clauses s) clause_arity fireC (limit_hit_of val s)
                          (fset_of scc (stR st)) (fset_of scc (stR st)) res' /\
                 forall f, res' f <-> fset_of scc res f.
  Proof.
    intros H1 H3 HD HN Hrun. destruct stratum_check_inv as (Hfr & _).
    assert (Hnil : forall r t, In r nul -> stR st r t -> t = []).
    { intros r t Hr Ht. apply H1 in Ht. rewrite (nullary_ok r Hr) in Ht.
      destruct t; [reflexivity | discriminate]. }
    pose proof (frame_preamble_sound val s Hfr st HD Hnil) as Hpre.
    destruct (emitted_loop_sound _ _ Hrun) as (res' & Hl & Hres).
    - split; [exact H1 | split; [| exact H3]]. simpl. intros r t Hin [Hd | [_ H]].
      + exfalso. exact (HD r t Hin Hd).
      + apply (copied_iff val nul r (stR st) t (fun Hr t' => Hnil r t' Hr)). exact H.
    - intros [r t] [Hr Hn]. simpl in *. exact (HN r t Hr Hn).
    - simpl in Hl.
      destruct (loop_run_ext _ _ (st_clauses s) clause_arity fireC (limit_hit_of val s)
                  (limit_hit_of_ext val s) _ _ _ Hl (fset_of scc (stR st)) (fset_of scc (stR st)))
        as (res'' & Hl' & Hres'); [tauto | exact Hpre |].
      exists res''. split; auto. intros f. rewrite <- Hres'. apply Hres.
  Qed.
End Emitted.

(** ** The three soundness statements in terms of the extracted entry point [stratum_check] *)
Theorem stratum_version_sound (val : Type) (dflt : val) (s : stratum) (R D Nw : rel_interp val)
        (arity : N -> nat) (c : clause) (i : nat) (v : version) (asg : N -> tuple val) (kenv : N -> val) :
  stratum_check s = OkResult -> In c (st_clauses s) -> nth_error (c_versions c) i = Some v ->
  typed_version arity asg v -> sat_eqs dflt asg kenv (v_eqs v) ->
  (forall r t, In r (st_scc s) -> D r t -> R r t) ->
  (forall r t, In r (st_nullary s) -> R r t -> t = []) ->
  (forall w, i < length (clause_facts (st_scc s) c asg w)) /\
  ((Forall (atom_sat R D Nw asg) (scc_atoms (st_scc s) v) /\
    Forall (neg_sat dflt R D Nw asg kenv) (delta_negs v) /\
    Forall (empt_sat R D Nw) (delta_empties v)) <->
   exists w, version_ok (fset_of (st_scc s) R) (fset_of (st_scc s) D) i (clause_facts (st_scc s) c asg w)).
Proof.
  intros Hs Hc Hi Hty Hsat HDR Hnul. destruct (stratum_check_inv s Hs) as (_ & Hcl & Hn). split.
  - intros w. rewrite clause_facts_length. apply nth_error_Some. congruence.
  - apply (version_ok_sound val dflt (st_scc s) R D Nw arity c i v asg kenv (Hcl c Hc) Hi Hty Hsat HDR).
    intros e He t Ht. apply (Hnul (e_rel e) t); auto.
    apply (Hn c v e Hc); auto. eapply nth_error_In; eauto.
Qed.

(** the same for a version whose SCC atoms all have scans: the statement about the scans alone *)
Theorem stratum_version_sound_scans (val : Type) (dflt : val) (s : stratum) (R D Nw : rel_interp val)
        (arity : N -> nat) (c : clause) (i : nat) (v : version) (asg : N -> tuple val) (kenv : N -> val)
        (w : nat -> tuple val) :
  stratum_check s = OkResult -> In c (st_clauses s) -> nth_error (c_versions c) i = Some v ->
  scc_tests (st_scc s) v = [] ->
  typed_version arity asg v -> sat_eqs dflt asg kenv (v_eqs v) ->
  (forall r t, In r (st_scc s) -> D r t -> R r t) ->
  i < length (clause_facts (st_scc s) c asg w) /\
  ((Forall (scan_sat R D Nw asg) (scc_scans (st_scc s) v) /\
    Forall (neg_sat dflt R D Nw asg kenv) (delta_negs v)) <->
   version_ok (fset_of (st_scc s) R) (fset_of (st_scc s) D) i (clause_facts (st_scc s) c asg w)).
Proof.
  intros Hs Hc Hi Hno Hty Hsat HDR. destruct (stratum_check_inv s Hs) as (_ & Hcl & _). split.
  - rewrite clause_facts_length. apply nth_error_Some. congruence.
  - exact (version_ok_sound_scans val dflt (st_scc s) R D Nw arity c i v asg kenv w
             (Hcl c Hc) Hi Hno Hty Hsat HDR).
Qed.

Theorem stratum_head_guard_sound (val : Type) (dflt : val) (s : stratum) (R D Nw : rel_interp val)
        (c : clause) (i : nat) (v : version) :
  stratum_check s = OkResult -> In c (st_clauses s) -> nth_error (c_versions c) i = Some v ->
  v_ins_kind v = KNew /\ In (v_ins_rel v) (st_scc s) /\
  forall asg kenv, Forall (neg_sat dflt R D Nw asg kenv) (v_negs v) ->
                   Forall (empt_sat R D Nw) (v_empties v) ->
                   ~ fset_of (st_scc s) R (head_fact dflt asg kenv v).
Proof.
  intros Hs Hc Hi. destruct (stratum_check_inv s Hs) as (_ & Hcl & _).
  exact (head_guard_sound val dflt (st_scc s) R D Nw c i v (Hcl c Hc) Hi).
Qed.

Theorem frame_ok_sound (val rule : Type) (rules : list rule) (arity : rule -> nat)
        (fire : rule -> list (fact val) -> fact val -> Prop) (s : stratum) :
  stratum_check s = OkResult ->
  let scc := st_scc s in
  let nul := st_nullary s in
  let NewF := New rules arity fire in
  (* preamble: @delta = main relation, for the relations of the SCC *)
  (forall st : state val, (forall r t, In r scc -> ~ stD st r t) ->
     (forall r t, In r nul -> stR st r t -> t = []) ->
     forall f, fset_of scc (stD (run_preamble nul (st_preamble s) st)) f <-> fset_of scc (stR st) f) /\
  (* the size-limit exits are [limit_hit_of] on the SCC facts of the main relations *)
  (forall st : state val, limits_hit (st_limits s) st <-> limit_hit_of val s (fset_of scc (stR st))) /\
  (* one pass: emptiness exit and table updates against the abstract step *)
  (forall st : state val,
     let Rf := fset_of scc (stR st) in
     let Df := fset_of scc (stD st) in
     let st' := run_updates nul (st_update s) st in
     new_nullary nul st ->
     (forall f, fset_of scc (stN st) f <-> NewF Rf Df f) ->
     (exit_cond (st_exit s) st <-> (forall h, ~ NewF Rf Df h)) /\
     (forall f, fset_of scc (stR st') f <-> (Rf f \/ NewF Rf Df f)) /\
     (forall f, fset_of scc (stD st') f <-> NewF Rf Df f) /\
     (forall f, ~ fset_of scc (stN st') f) /\
     (forall r t, ~ In r scc -> (stR st' r t <-> stR st r t))) /\
  (* the loop: if the body computes [New] on the states satisfying an invariant, every run of the
     emitted loop is a run of [loop_run] *)
  (forall (body : rel_interp val -> rel_interp val -> rel_interp val) (Good : state val -> Prop),
     (forall st, Good st -> forall f,
        fset_of scc (body (stR st) (stD st)) f <-> NewF (fset_of scc (stR st)) (fset_of scc (stD st)) f) ->
     (forall st, Good st -> forall r t, In r nul -> body (stR st) (stD st) r t -> t = []) ->
     (forall st, Good st -> (forall f, ~ fset_of scc (stN st) f) ->
        Good (run_updates nul (st_update s) (run_body val body st))) ->
     forall st res, ram_loop val s body st res -> Good st -> (forall f, ~ fset_of scc (stN st) f) ->
     exists res', loop_run rules arity fire (limit_hit_of val s)
                           (fset_of scc (stR st)) (fset_of scc (stD st)) res' /\
                  forall f, res' f <-> fset_of scc res f).
Proof.
  intros Hs scc nul NewF. destruct (stratum_check_inv s Hs) as (Hfr & _).
  split; [exact (frame_preamble_sound val s Hfr)|].
  split; [exact (frame_limits_sound val s Hfr)|].
  split; [exact (frame_step_sound val rule rules arity fire s Hfr)|].
  exact (frame_loop_sound val rule rules arity fire s Hfr).
Qed.

(** ** Examples *)
Section Examples.
  Open Scope N_scope.
  Let e (t : N) (i : nat) := EComp t i.

  (** The loop of
<<
      p(x,z) :- p(x,y), q(y,z), x != z.        q(x,z) :- p(x,y), p(y,z), !e(x,z).       .limitsize q(n=10)
>>
      (relations p = 0, q = 1, e = 2), written from the output of [--show=initial-ram]:
<<
      FOR t0 IN @delta_p  FOR t1 IN q  IF (t0.1 = t1.0)  IF (NOT (t0.1,t1.1) IN @delta_q)
        IF (NOT (t0.0,t1.1) IN p)  IF (t0.0 != t1.1)  INSERT (t0.0, t1.1) INTO @new_p
      FOR t0 IN p  FOR t1 IN @delta_q  IF (t0.1 = t1.0)  IF (NOT (t0.0,t1.1) IN p) ...
      FOR t0 IN @delta_p  FOR t1 IN p  IF (t0.1 = t1.0)  IF (NOT (t0.1,t1.1) IN @delta_p)
        IF (NOT (t0.0,t1.1) IN q)  IF (NOT (t0.0,t1.1) IN e)  INSERT (t0.0, t1.1) INTO @new_q
      FOR t0 IN p  FOR t1 IN @delta_p  IF (t0.1 = t1.0)  IF (NOT (t0.0,t1.1) IN q) ...
>> *)
  Definition ex_v00 := mkVersion [mkScan 0 0 KDelta; mkScan 1 1 KMain] [(e 0 1, e 1 0)]
    [mkNeg 1 KDelta [e 0 1; e 1 1]; mkNeg 0 KMain [e 0 0; e 1 1]] 3 0 KNew [e 0 0; e 1 1].
  Definition ex_v01 := mkVersion [mkScan 0 0 KMain; mkScan 1 1 KDelta] [(e 0 1, e 1 0)]
    [mkNeg 0 KMain [e 0 0; e 1 1]] 3 0 KNew [e 0 0; e 1 1].
  Definition ex_v10 := mkVersion [mkScan 0 0 KDelta; mkScan 1 0 KMain] [(e 0 1, e 1 0)]
    [mkNeg 0 KDelta [e 0 1; e 1 1]; mkNeg 1 KMain [e 0 0; e 1 1]; mkNeg 2 KMain [e 0 0; e 1 1]]
    2 1 KNew [e 0 0; e 1 1].
  Definition ex_v11 := mkVersion [mkScan 0 0 KMain; mkScan 1 0 KDelta] [(e 0 1, e 1 0)]
    [mkNeg 1 KMain [e 0 0; e 1 1]; mkNeg 2 KMain [e 0 0; e 1 1]] 2 1 KNew [e 0 0; e 1 1].
  Definition ex_frame (cs : list clause) : stratum :=
    mkStratum [0; 1] [0; 1] [0; 1] [(1, 10)]
              [mkUpdate 0 true true true; mkUpdate 1 true true true] cs.
  Definition ex_pq := ex_frame [mkClause 0 [ex_v00; ex_v01]; mkClause 1 [ex_v10; ex_v11]].

  Example ex_pq_accepted : stratum_check ex_pq = OkResult.
  Proof. vm_compute. reflexivity. Qed.

  (** mutation 1: the negated delta of version 0 of clause 0 is dropped *)
  Example ex_drop_negdelta_rejected :
    stratum_check (ex_frame [mkClause 0 [mkVersion (v_scans ex_v00) (v_eqs ex_v00)
                                           [mkNeg 0 KMain [e 0 0; e 1 1]] 3 0 KNew [e 0 0; e 1 1];
                                         ex_v01];
                             mkClause 1 [ex_v10; ex_v11]])
    = Reject (RMissingNegDelta 0 0 1).
  Proof. vm_compute. reflexivity. Qed.

  (** mutation 2: version 1 of clause 1 has the delta on the first atom, like version 0 *)
  Example ex_wrong_delta_rejected :
    stratum_check (ex_frame [mkClause 0 [ex_v00; ex_v01];
                             mkClause 1 [ex_v10;
                                         mkVersion [mkScan 0 0 KDelta; mkScan 1 0 KMain] (v_eqs ex_v11)
                                           (v_negs ex_v11) 2 1 KNew [e 0 0; e 1 1]]])
    = Reject (RDeltaPosition 1 1).
  Proof. vm_compute. reflexivity. Qed.

  (** mutation 3: version 1 of clause 0 inserts into the main relation *)
  Example ex_insert_main_rejected :
    stratum_check (ex_frame [mkClause 0 [ex_v00;
                                         mkVersion (v_scans ex_v01) (v_eqs ex_v01) (v_negs ex_v01)
                                           3 0 KMain [e 0 0; e 1 1]];
                             mkClause 1 [ex_v10; ex_v11]])
    = Reject (RInsertTarget 0 1).
  Proof. vm_compute. reflexivity. Qed.

  (** mutation 4: version 1 of clause 1 is missing *)
  Example ex_missing_version_rejected :
    stratum_check (ex_frame [mkClause 0 [ex_v00; ex_v01]; mkClause 1 [ex_v10]])
    = Reject (RVersionsCount 1).
  Proof. vm_compute. reflexivity. Qed.

  (** further mutations: the head guard is missing; the negated delta has the wrong tuple (its
      first argument is not the first component of t1 modulo the equalities); a negated delta for
      an earlier atom; the table update lacks the swap *)
  Example ex_no_guard_rejected :
    stratum_check (ex_frame [mkClause 0 [ex_v00;
                                         mkVersion (v_scans ex_v01) (v_eqs ex_v01) []
                                           3 0 KNew [e 0 0; e 1 1]]])
    = Reject (RGuard 0 1).
  Proof. vm_compute. reflexivity. Qed.

  Example ex_wrong_negdelta_args_rejected :
    stratum_check (ex_frame [mkClause 0 [mkVersion (v_scans ex_v00) (v_eqs ex_v00)
                                           [mkNeg 1 KDelta [e 0 0; e 1 1]; mkNeg 0 KMain [e 0 0; e 1 1]]
                                           3 0 KNew [e 0 0; e 1 1];
                                         ex_v01]])
    = Reject (RMissingNegDelta 0 0 1).
  Proof. vm_compute. reflexivity. Qed.

  Example ex_extra_negdelta_rejected :
    stratum_check (ex_frame [mkClause 0 [ex_v00;
                                         mkVersion (v_scans ex_v01) (v_eqs ex_v01)
                                           [mkNeg 0 KDelta [e 0 0; e 0 1]; mkNeg 0 KMain [e 0 0; e 1 1]]
                                           3 0 KNew [e 0 0; e 1 1]]])
    = Reject (RExtraNegDelta 0 1).
  Proof. vm_compute. reflexivity. Qed.

  Example ex_no_swap_rejected :
    stratum_check (mkStratum [0; 1] [0; 1] [0; 1] []
                             [mkUpdate 0 true true true; mkUpdate 1 true false true]
                             [mkClause 0 [ex_v00; ex_v01]])
    = Reject (RFrame FUpdateFlags 1).
  Proof. vm_compute. reflexivity. Qed.

  (** The SIPS moves an atom: [p(x,v) :- p(x,y), q(u,v), p(y,x), u != x.] is scanned in the order
      t0 = p(x,y), t1 = p(y,x), t2 = q(u,v); version 1 (delta on q(u,v)) has its delta at scan
      position 2 and the negated delta for position 1; version 2 has its delta at position 1.
<<
      v0: FOR t0 IN @delta_p FOR t1 IN p FOR t2 IN q IF (t0.1 = t1.0) IF (t0.0 = t1.1)
            IF (NOT (t0.1,t0.0) IN @delta_p) IF (NOT (t2.0,t2.1) IN @delta_q) IF (NOT (t0.0,t2.1) IN p) ..
      v1: FOR t0 IN p FOR t1 IN p FOR t2 IN @delta_q .. IF (NOT (t0.1,t0.0) IN @delta_p) IF (NOT (t0.0,t2.1) IN p) ..
      v2: FOR t0 IN p FOR t1 IN @delta_p FOR t2 IN q .. IF (NOT (t0.0,t2.1) IN p) ..
>> *)
  Definition ex_perm_clause :=
    let eqs := [(e 0 1, e 1 0); (e 0 0, e 1 1)] in
    let g := mkNeg 0 KMain [e 0 0; e 2 1] in
    mkClause 0
      [mkVersion [mkScan 0 0 KDelta; mkScan 1 0 KMain; mkScan 2 1 KMain] eqs
         [mkNeg 0 KDelta [e 0 1; e 0 0]; mkNeg 1 KDelta [e 2 0; e 2 1]; g] 1 0 KNew [e 0 0; e 2 1];
       mkVersion [mkScan 0 0 KMain; mkScan 1 0 KMain; mkScan 2 1 KDelta] eqs
         [mkNeg 0 KDelta [e 0 1; e 0 0]; g] 1 0 KNew [e 0 0; e 2 1];
       mkVersion [mkScan 0 0 KMain; mkScan 1 0 KDelta; mkScan 2 1 KMain] eqs
         [g] 1 0 KNew [e 0 0; e 2 1]].
  Example ex_perm_accepted :
    clause_check [0; 1] ex_perm_clause = OkResult /\ clause_perm [0; 1] ex_perm_clause = [0; 2; 1]%nat.
  Proof. vm_compute. split; reflexivity. Qed.

  (** An instance of the hypotheses of [version_ok_sound]: version 0 of clause 0 of [ex_pq] with
      p = {(1,2)} = @delta_p, q = {(2,3)}, @delta_q = {}, t0 = (1,2), t1 = (2,3). *)
  Let exR : rel_interp N := fun r t => (r = 0 /\ t = [1; 2]) \/ (r = 1 /\ t = [2; 3]).
  Let exD : rel_interp N := fun r t => r = 0 /\ t = [1; 2].
  Let ex_asg : N -> tuple N := fun t => if N.eqb t 0 then [1; 2] else [2; 3].
  Let ex_w : nat -> tuple N := fun _ => [].

  Example version_ok_sound_instance :
    version_ok (fset_of [0; 1] exR) (fset_of [0; 1] exD) 0
               (clause_facts [0; 1] (mkClause 0 [ex_v00; ex_v01]) ex_asg ex_w).
  Proof.
    refine (proj1 (version_ok_sound_scans N 0 [0; 1] exR exD (fun _ _ => False) (fun _ => 2%nat)
                     (mkClause 0 [ex_v00; ex_v01]) 0 ex_v00 ex_asg (fun _ => 0) ex_w _ _ _ _ _ _) _).
    - vm_compute. reflexivity.
    - reflexivity.
    - reflexivity.
    - split.
      + intros s [<- | [<- | []]]; reflexivity.
      + intros n [<- | [<- | []]]; reflexivity.
    - constructor; [reflexivity | constructor].
    - intros r t _ [-> ->]. left. auto.
    - split.
      + constructor; [split; reflexivity|]. constructor; [| constructor].
        right. split; reflexivity.
      + constructor; [| constructor]. intros [H _]. discriminate.
  Qed.

  (** the head guard on the same data: the head (1,3) of version 0 is not in p *)
  Example head_guard_sound_instance :
    ~ fset_of [0; 1] exR (head_fact 0 ex_asg (fun _ => 0) ex_v00).
  Proof.
    apply (proj2 (proj2 (head_guard_sound N 0 [0; 1] exR exD (fun _ _ => False)
                           (mkClause 0 [ex_v00; ex_v01]) 0%nat ex_v00 eq_refl eq_refl))).
    - constructor; [| constructor; [| constructor]].
      + intros [H _]. discriminate.
      + intros [[_ H] | [H _]]; discriminate.
    - constructor.
  Qed.

  Example frame_check_instance : frame_check ex_pq = OkResult.
  Proof. vm_compute. reflexivity. Qed.

  Example version_ok_sound_instance_facts :
    clause_facts [0; 1] (mkClause 0 [ex_v00; ex_v01]) ex_asg ex_w = [(0, [1; 2]); (1, [2; 3])].
  Proof. reflexivity. Qed.

  (** An instance of the hypotheses of [emitted_stratum_sound] for [ex_pq]: e = {(1,2)}, p and q
      empty after the non-recursive rules (here: none), 2 the arity of every relation, no other
      filters.  The loop body finds nothing and the loop leaves at the first emptiness test. *)
  Let ex_st0 : state N := mkState (fun r t => r = 2 /\ t = [1; 2]) (fun _ _ => False) (fun _ _ => False).

  Example emitted_stratum_sound_instance :
    exists res' : fset (fact N),
      loop_run (st_clauses ex_pq) clause_arity
               (fire_clause 0 [0; 1] (fun _ => 2%nat) (fun _ _ => 0) (fun _ _ => True) (stR ex_st0))
               (limit_hit_of N ex_pq) (fset_of [0; 1] (stR ex_st0)) (fset_of [0; 1] (stR ex_st0)) res' /\
      forall f, res' f <-> fset_of [0; 1] (stR ex_st0) f.
  Proof.
    apply (emitted_stratum_sound N 0 (fun _ => 2%nat) (fun _ _ => 0) (fun _ _ => True) (stR ex_st0) ex_pq).
    - vm_compute. reflexivity.
    - intros c Hc v Hv. simpl in Hc.
      destruct Hc as [<- | [<- | []]]; simpl in Hv; destruct Hv as [<- | [<- | []]];
        (split; [| reflexivity]); intros n Hn; simpl in Hn;
        repeat (destruct Hn as [<- | Hn]; [reflexivity|]); destruct Hn.
    - intros r [].
    - intros r t [_ ->]. reflexivity.
    - intros r t _. tauto.
    - intros r t _ [].
    - intros r t _ [].
    - refine (rl_exit_empty N ex_pq _ (run_preamble [] (st_preamble ex_pq) ex_st0) _).
      intros r _ t [[] | (c & i & v & Hc & Hi & asg & Hsc & _)].
      assert (Hp : forall k, ~ scan_sat (stR (run_preamble [] [0; 1] ex_st0))
                                 (stD (run_preamble [] [0; 1] ex_st0))
                                 (fun _ _ => False) asg (mkScan 0 0 k)).
      { intros k H. destruct k; simpl in H.
        - destruct H as [H _]. discriminate.
        - destruct H as [[] | [_ [H _]]]. discriminate.
        - exact H. }
      simpl in Hc. destruct Hc as [<- | [<- | []]]; simpl in Hi;
        (destruct i as [|[|i]]; simpl in Hi; [| | destruct i; discriminate]);
        inversion Hi; subst v; inversion Hsc as [|? ? H0 _]; exact (Hp _ H0).
  Qed.

  (** *** Atoms without a scan and heads without arguments.
      Relations B = 0, P = 1, +disconnected0 = 2, T = 3 (P and +disconnected0 of arity 0).  The loop body
      that [--show=initial-ram] prints for
<<
      T(x,recursive_iteration_cnt()) :- B(x), P(), +disconnected0(), recursive_iteration_cnt() < 12.
      P() :- B(2).
>>
      (all four relations in one SCC; +disconnected0 stands for an atom with only unnamed arguments):
<<
      v0: IF (NOT ISEMPTY(P)) IF (NOT ISEMPTY(+disconnected0)) FOR t2 IN @delta_B IF (NOT ISEMPTY(@delta_B))
            IF ISEMPTY(@delta_+disconnected0) IF ISEMPTY(@delta_P) IF (NOT (t2.0,cnt) IN T) IF (cnt < 12)
            INSERT (t2.0, cnt) INTO @new_T
      v1: IF (NOT ISEMPTY(@delta_P)) IF (NOT ISEMPTY(+disconnected0)) FOR t2 IN B IF (NOT ISEMPTY(B))
            IF ISEMPTY(@delta_+disconnected0) IF (NOT (t2.0,cnt) IN T) IF (cnt < 12) INSERT ..
      v2: IF (NOT ISEMPTY(P)) IF (NOT ISEMPTY(@delta_+disconnected0)) FOR t2 IN B IF (NOT ISEMPTY(B))
            IF (NOT (t2.0,cnt) IN T) IF (cnt < 12) INSERT ..
      P:  IF ISEMPTY(P) FOR t0 IN @delta_B IF (NOT ISEMPTY(@new_P)) BREAK IF (NOT ISEMPTY(@delta_B))
            IF (t0.0 = 2) IF ISEMPTY(@new_P) INSERT () INTO @new_P
>> *)
  Let gT := mkNeg 3 KMain [e 2 0; EOther 0].
  Definition ex_n0 := mkVersionX [mkScan 2 0 KDelta] [] [gT] 2 3 KNew [e 2 0; EOther 0]
                        [mkTest 1 KMain; mkTest 2 KMain] [mkTest 2 KDelta; mkTest 1 KDelta] [].
  Definition ex_n1 := mkVersionX [mkScan 2 0 KMain] [] [gT] 2 3 KNew [e 2 0; EOther 0]
                        [mkTest 1 KDelta; mkTest 2 KMain] [mkTest 2 KDelta] [].
  Definition ex_n2 := mkVersionX [mkScan 2 0 KMain] [] [gT] 2 3 KNew [e 2 0; EOther 0]
                        [mkTest 1 KMain; mkTest 2 KDelta] [] [].
  Definition ex_nP := mkVersionX [mkScan 0 0 KDelta] [(e 0 0, EOther 1)] [] 1 1 KNew []
                        [] [mkTest 1 KMain; mkTest 1 KNew] [mkTest 1 KNew].
  Definition ex_nframe (cs : list clause) : stratum :=
    mkStratumX [0; 1; 2; 3] [0; 1; 2; 3] [0; 1; 2; 3] []
               [mkUpdate 0 true true true; mkUpdate 1 true true true; mkUpdate 2 true true true;
                mkUpdate 3 true true true] cs [1; 2].
  Definition ex_np := ex_nframe [mkClause 0 [ex_n0; ex_n1; ex_n2]; mkClause 1 [ex_nP]].

  Example ex_np_accepted : stratum_check ex_np = OkResult.
  Proof. vm_compute. reflexivity. Qed.

  (** the SCC atoms of the first clause are B (scanned), P, +disconnected0; the versions have their
      delta on B, P, +disconnected0 in this order *)
  Example ex_np_perm : clause_perm [0; 1; 2; 3] (mkClause 0 [ex_n0; ex_n1; ex_n2]) = [0; 1; 2]%nat.
  Proof. vm_compute. reflexivity. Qed.

  (** defect 1: version 0 tests [IF (NOT ISEMPTY(@delta_P))] where the negated delta
      [IF ISEMPTY(@delta_P)] belongs (combinations of a new B tuple with the old P are lost) *)
  Example ex_np_negated_delta_defect_rejected :
    stratum_check (ex_nframe [mkClause 0 [mkVersionX [mkScan 2 0 KDelta] [] [gT] 2 3 KNew [e 2 0; EOther 0]
                                            [mkTest 1 KMain; mkTest 2 KMain; mkTest 1 KDelta]
                                            [mkTest 2 KDelta] [];
                                          ex_n1; ex_n2];
                              mkClause 1 [ex_nP]])
    = Reject (RScanMismatch 0 1).
  Proof. vm_compute. reflexivity. Qed.

  (** the same defect, had the translator dropped the wrong test instead of listing it: the negated
      delta for P is missing *)
  Example ex_np_negated_delta_missing_rejected :
    stratum_check (ex_nframe [mkClause 0 [mkVersionX [mkScan 2 0 KDelta] [] [gT] 2 3 KNew [e 2 0; EOther 0]
                                            [mkTest 1 KMain; mkTest 2 KMain] [mkTest 2 KDelta] [];
                                          ex_n1; ex_n2];
                              mkClause 1 [ex_nP]])
    = Reject (RMissingNegDelta 0 0 1).
  Proof. vm_compute. reflexivity. Qed.

  (** defect 2: the existence test of the atom without a scan reads the full relation in every
      version (the combination fires again in later rounds): version 1 has no delta *)
  Example ex_np_full_relation_defect_rejected :
    stratum_check (ex_nframe [mkClause 0 [ex_n0;
                                          mkVersionX [mkScan 2 0 KMain] [] [gT] 2 3 KNew [e 2 0; EOther 0]
                                            [mkTest 1 KMain; mkTest 2 KMain] [mkTest 2 KDelta] [];
                                          mkVersionX [mkScan 2 0 KMain] [] [gT] 2 3 KNew [e 2 0; EOther 0]
                                            [mkTest 1 KMain; mkTest 2 KMain] [] []];
                              mkClause 1 [ex_nP]])
    = Reject (RDeltaPosition 0 1).
  Proof. vm_compute. reflexivity. Qed.

  (** further mutations: the guard [ISEMPTY(P)] of the head without arguments is missing; the test in
      front of the insertion reads another relation; [ISEMPTY(@delta_T)] for a relation that does not
      have the arity-0 copy statements *)
  Example ex_np_no_guard0_rejected :
    stratum_check (ex_nframe [mkClause 1 [mkVersionX [mkScan 0 0 KDelta] [(e 0 0, EOther 1)] [] 1 1 KNew []
                                            [] [mkTest 1 KNew] [mkTest 1 KNew]]])
    = Reject (RGuard 1 0).
  Proof. vm_compute. reflexivity. Qed.

  Example ex_np_foreign_new_test_rejected :
    stratum_check (ex_nframe [mkClause 1 [mkVersionX [mkScan 0 0 KDelta] [(e 0 0, EOther 1)] [] 1 1 KNew []
                                            [] [mkTest 1 KMain; mkTest 2 KNew] []]])
    = Reject (RUnsupported UEmptyKind 1 0).
  Proof. vm_compute. reflexivity. Qed.

  Example ex_np_wide_rejected :
    stratum_check (mkStratumX [0; 1; 2; 3] [0; 1; 2; 3] [0; 1; 2; 3] []
                     [mkUpdate 0 true true true; mkUpdate 1 true true true; mkUpdate 2 true true true;
                      mkUpdate 3 true true true]
                     [mkClause 0 [ex_n0; ex_n1; ex_n2]] [1])
    = Reject (RUnsupported UWide 0 0).
  Proof. vm_compute. reflexivity. Qed.

  (** An instance of the hypotheses of [version_ok_sound] with atoms without a scan: version 0 of the
      first clause with B = {(5)} = @delta_B, P = {()}, +disconnected0 = {()}, the deltas of P and
      +disconnected0 empty, t2 = (5). *)
  Let exR1 : rel_interp N := fun r t => (r = 0 /\ t = [5]) \/ ((r = 1 \/ r = 2) /\ t = []).
  Let exD1 : rel_interp N := fun r t => r = 0 /\ t = [5].
  Let ex_ar1 : N -> nat := fun r => if N.eqb r 0 then 1%nat else if N.eqb r 3 then 2%nat else 0%nat.

  Example version_ok_sound_instance_tests :
    exists w, version_ok (fset_of [0; 1; 2; 3] exR1) (fset_of [0; 1; 2; 3] exD1) 0
                         (clause_facts [0; 1; 2; 3] (mkClause 0 [ex_n0; ex_n1; ex_n2]) (fun _ => [5]) w).
  Proof.
    refine (proj1 (version_ok_sound N 0 [0; 1; 2; 3] exR1 exD1 (fun _ _ => False) ex_ar1
                     (mkClause 0 [ex_n0; ex_n1; ex_n2]) 0 ex_n0 (fun _ => [5]) (fun _ => 0) _ _ _ _ _ _) _).
    - vm_compute. reflexivity.
    - reflexivity.
    - split.
      + intros s [<- | []]. reflexivity.
      + intros n [<- | []]. reflexivity.
    - constructor.
    - intros r t _ [-> ->]. left. auto.
    - intros x [<- | [<- | []]] t [[H _] | [_ H]]; simpl in H; try discriminate; exact H.
    - split; [| split].
      + constructor; [split; reflexivity|].
        constructor; [exists []; right; auto|]. constructor; [exists []; right; auto | constructor].
      + constructor.
      + constructor; [| constructor; [| constructor]]; intros t [H _]; discriminate.
  Qed.

  Example version_ok_sound_instance_tests_facts :
    clause_facts [0; 1; 2; 3] (mkClause 0 [ex_n0; ex_n1; ex_n2]) (fun _ => [5]) (fun _ => [])
    = [(0, [5]); (1, []); (2, [])].
  Proof. reflexivity. Qed.

  (** the guard of the head without arguments on the same data, P taken out of the main relations:
      the head () of [P() :- B(2).] is not in P *)
  Let exR2 : rel_interp N := fun r t => r = 0 /\ t = [5].
  Example head_guard0_sound_instance :
    ~ fset_of [0; 1; 2; 3] exR2 (head_fact 0 (fun _ => [5]) (fun _ => 0) ex_nP).
  Proof.
    apply (proj2 (proj2 (head_guard_sound N 0 [0; 1; 2; 3] exR2 exD1 (fun _ _ => False)
                           (mkClause 1 [ex_nP]) 0%nat ex_nP eq_refl eq_refl))).
    - constructor.
    - constructor; [| constructor; [| constructor]].
      + intros t [H _]. discriminate.
      + intros t H. exact H.
  Qed.

  (** An instance of the hypotheses of [self_test_redundant]: the QUERY of [P() :- B(2).] when @new_P
      already holds the empty tuple *)
  Let exNw : rel_interp N := fun r t => r = 1 /\ t = [].
  Example self_test_redundant_instance :
    forall f : fact N,
      (exNw (fst f) (snd f) \/
       version_emits 0 (fun _ _ => 2) (fun _ _ => True) exR1 exD1 exNw 1 ex_nP f) <->
      (exNw (fst f) (snd f) \/
       version_emits 0 (fun _ _ => 2) (fun _ _ => True) exR1 exD1 (fun _ _ => False) 1 ex_nP f).
  Proof.
    apply (self_test_redundant N 0 [0; 1; 2; 3] (fun _ _ => 2) (fun _ _ => True) exR1 exD1 exNw
             (mkClause 1 [ex_nP]) 0%nat ex_nP).
    - vm_compute. reflexivity.
    - reflexivity.
    - intros t [_ H]. exact H.
    - left. exists []. split; reflexivity.
  Qed.

  (** An instance of the hypotheses of [emitted_stratum_sound] for [ex_np]: all four relations empty
      after the non-recursive rules; the scans of B find nothing and the loop leaves at the first
      emptiness test. *)
  Let ex_st1 : state N := mkState (fun _ _ => False) (fun _ _ => False) (fun _ _ => False).

  Example emitted_stratum_sound_instance_nullary :
    exists res' : fset (fact N),
      loop_run (st_clauses ex_np) clause_arity
               (fire_clause 0 [0; 1; 2; 3] ex_ar1 (fun _ _ => 0) (fun _ _ => True) (stR ex_st1))
               (limit_hit_of N ex_np) (fset_of [0; 1; 2; 3] (stR ex_st1)) (fset_of [0; 1; 2; 3] (stR ex_st1)) res' /\
      forall f, res' f <-> fset_of [0; 1; 2; 3] (stR ex_st1) f.
  Proof.
    apply (emitted_stratum_sound N 0 ex_ar1 (fun _ _ => 0) (fun _ _ => True) (stR ex_st1) ex_np).
    - vm_compute. reflexivity.
    - intros c Hc v Hv. simpl in Hc.
      destruct Hc as [<- | [<- | []]]; simpl in Hv;
        repeat (destruct Hv as [<- | Hv]; [split; [| reflexivity]; intros n Hn; simpl in Hn;
                  repeat (destruct Hn as [<- | Hn]; [reflexivity|]); destruct Hn |]); destruct Hv.
    - intros r [<- | [<- | []]]; reflexivity.
    - intros r t [].
    - intros r t _. tauto.
    - intros r t _ [].
    - intros r t _ [].
    - refine (rl_exit_empty N ex_np _ (run_preamble [1; 2] (st_preamble ex_np) ex_st1) _).
      intros r _ t [[] | (c & i & v & Hc & Hi & asg & Hsc & _)].
      assert (Hp : forall tid k, ~ scan_sat (stR (run_preamble [1; 2] [0; 1; 2; 3] ex_st1))
                                     (stD (run_preamble [1; 2] [0; 1; 2; 3] ex_st1))
                                     (fun _ _ => False) asg (mkScan tid 0 k)).
      { intros tid k H. destruct k; simpl in H.
        - exact H.
        - destruct H as [[] | [_ H]]. unfold copied in H. simpl in H. exact H.
        - exact H. }
      simpl in Hc. destruct Hc as [<- | [<- | []]]; simpl in Hi;
        repeat (destruct i as [|i]; simpl in Hi;
                [inversion Hi; subst v; inversion Hsc as [|? ? H0 _]; exact (Hp _ _ H0)|]);
        destruct i; discriminate.
  Qed.
End Examples.

(* NOT PROVED:
   - Completeness of the checker (every stratum that Souffle emits for the supported fragment is
     accepted): there is no model of the C++ translator to state it against; it is observed by
     running the extracted checker on the RAM of generated programs.  In particular [equiv] is only
     proved sound; that [length eqs] passes compute the whole equivalence closure is argued in the
     comment above [close_step], not proved.
   - The correspondence between the RAM text and the skeleton (harness/ramparse.py), including: the
     order merge, swap, clear of the table-update statements; that the uncounted filters of the
     versions of a clause are the same conditions ([others_sat]); that [=] in an equality filter is
     identity of values (FEQ on floats is not); which [IF (NOT ISEMPTY(rel))] stands for an atom
     without a scan (all except the one directly under the scan of [rel]).
   - The [BREAK]s of the versions with a head of arity 0 are not modelled (they end a scan once
     @new_H is not empty; the checker only demands that they test @new of the head);
     [self_test_redundant] covers the test [IF ISEMPTY(@new_H)] in front of the insertion.
   - [emitted_stratum_sound] has only runs that leave at the first emptiness test as its Examples;
     a run with several rounds needs decision procedures for the concrete relations.
   - An atom with only unnamed arguments over a relation of arity > 0 is covered as long as no
     negated delta is needed for it (it is the first SCC atom of its clause, in particular the only
     one, as in the clauses of the +disconnected relations); its negated delta
     [NOT (_,..,_) IN @delta_r] is not: the translator does not produce a skeleton for it.
   - Eqrel relations, subsumptive clauses, lattice relations: rejected, no model. *)
