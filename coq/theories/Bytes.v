(** Byte strings as lists of [N] (each element a byte value 0..255). All text models
    (number parsing, CSV, record text, escaping) work over this representation so that
    comparisons are [N.eqb]/[N.leb] and [lia] applies. *)
From Coq Require Export List NArith ZArith Lia Bool.
Export ListNotations.

Definition bytes := list N.

Definition is_some {A} (o : option A) : bool := match o with Some _ => true | None => false end.

Fixpoint bytes_eqb (a b : bytes) : bool :=
  match a, b with
  | [], [] => true
  | x :: a', y :: b' => N.eqb x y && bytes_eqb a' b'
  | _, _ => false
  end.

Lemma bytes_eqb_eq a b : bytes_eqb a b = true <-> a = b.
Proof.
  revert b; induction a as [|x a IH]; intros [|y b]; simpl; split; intro H; try congruence; try discriminate.
  - apply andb_true_iff in H as [H1 H2]. apply N.eqb_eq in H1. apply IH in H2. congruence.
  - inversion H; subst. rewrite N.eqb_refl. simpl. apply IH. reflexivity.
Qed.

(** [is_prefix p s]: the C++ [isPrefix(p, s)]. *)
Fixpoint is_prefix (p s : bytes) : bool :=
  match p, s with
  | [], _ => true
  | x :: p', y :: s' => N.eqb x y && is_prefix p' s'
  | _ :: _, [] => false
  end.

Lemma is_prefix_spec p s : is_prefix p s = true <-> exists r, s = p ++ r.
Proof.
  revert s; induction p as [|x p IH]; intros s; simpl.
  - split; [intros _; exists s; reflexivity | reflexivity].
  - destruct s as [|y s].
    + split; [discriminate | intros [r Hr]; discriminate].
    + rewrite andb_true_iff, N.eqb_eq, IH. split.
      * intros [-> [r ->]]. exists r. reflexivity.
      * intros [r Hr]. inversion Hr; subst. split; [reflexivity | exists r; reflexivity].
Qed.
