(** Executable model of Souffle's lock-free union-find
    (src/include/souffle/datastructure/UnionFind.h, class DisjointSet:
     findNode, updateRoot, sameSet, unionNodes, makeNode), at the granularity of one atomic
    memory access (load or compare_exchange_strong) per step, plus the specification side
    (equivalence closure of the requested unions) and a bounded state-space explorer.
    Definitions only: the proofs are in UnionFindLemmas.v.

    Shared memory: the array a_blocks of std::atomic<block_t>; a block is
    (parent << 8) | rank, modelled as the pair (parent, rank). All nodes 0..n-1 are created up
    front by makeNode (parent = itself, rank 0); concurrent makeNode is out of scope. *)
From Coq Require Export List Arith Lia Bool PeanoNat.
From Coq Require Import FMapPositive PArith NArith.
Export ListNotations.

(** * Shared memory *)
Definition block := (nat * nat)%type.        (* (parent, rank): b2p, b2r *)
Definition mem := list block.

(** get(i) used as a value: an atomic load. Out-of-range indices (never accessed by
    well-formed scripts) read as an isolated root. *)
Definition rd (m : mem) (i : nat) : block := nth i m (i, 0).

Fixpoint wr (m : mem) (i : nat) (b : block) : mem :=
  match m, i with
  | [], _ => []
  | _ :: r, O => b :: r
  | c :: r, S j => c :: wr r j b
  end.

Definition block_eqb (a b : block) : bool := (fst a =? fst b) && (snd a =? snd b).

(** get(i).compare_exchange_strong(expected, desired) *)
Definition cas (m : mem) (i : nat) (expected desired : block) : mem * bool :=
  if block_eqb (rd m i) expected then (wr m i desired, true) else (m, false).

Definition parent (m : mem) (i : nat) : nat := fst (rd m i).
Definition rank (m : mem) (i : nat) : nat := snd (rd m i).

(** makeNode, n times *)
Definition init_mem (n : nat) : mem := map (fun i => (i, 0)) (seq 0 n).

(** * Operations, responses, atomic accesses *)
Inductive op := OUnion (x y : nat) | OSame (x y : nat) | OFind (x : nat).
Inductive response := RFind (root : nat) | RSame (b : bool) | RUnion.

Inductive akind := ALoad | ACas (ok : bool).
(** one atomic access: kind, index, and the block observed in memory at that access *)
Record access := mkAcc { a_kind : akind; a_idx : nat; a_par : nat; a_rank : nat }.
Definition acc_load (i : nat) (b : block) := mkAcc ALoad i (fst b) (snd b).
Definition acc_cas (i : nat) (b : block) (ok : bool) := mkAcc (ACas ok) i (fst b) (snd b).

(** * Per-thread control state
    Which findNode call is active and what it returns to; the saved local of the caller. *)
Inductive cont :=
| KFind                 (* top-level find *)
| KSameX (y : nat)      (* sameSet:    x = findNode(x); y still to do *)
| KSameY (x : nat)      (* sameSet:    y = findNode(y); x done *)
| KUnionX (y : nat)     (* unionNodes: x = findNode(x) *)
| KUnionY (x : nat).    (* unionNodes: y = findNode(y) *)

(** Program counter = the NEXT atomic access, with the live C++ locals. *)
Inductive pcT :=
| PIdle
  (* findNode(x) *)
| PF1 (k : cont) (x : nat)                      (* loop test: load get(x) *)
| PF2 (k : cont) (x : nat)                      (* xState = get(x) *)
| PF3 (k : cont) (x xp xr : nat)                (* newParent = b2p(get(b2p(xState))); xState=(xp,xr) *)
| PF4 (k : cont) (x xp xr np : nat)             (* CAS(get(x), xState, pr2b(newParent, b2r(xState))) *)
  (* sameSet(x, y) *)
| PSame (x y : nat)                             (* if (b2p(get(x)) == x) return false *)
  (* unionNodes(x, y) *)
| PRankX (x y : nat)                            (* xrank = b2r(get(x)) *)
| PRankY (x y xrank : nat)                      (* yrank = b2r(get(y)) *)
| PLink1 (x xrank y yrank : nat)                (* updateRoot(x,xrank,y,yrank): oldState = get(x) *)
| PCas1 (x xrank y yrank osp osr : nat)         (*   CAS(get(x), oldState, pr2b(y, yrank)) *)
| PLink2 (y yrank : nat)                        (* updateRoot(y,yrank,y,yrank+1): oldState = get(y) *)
| PCas2 (y yrank osp osr : nat).                (*   CAS(get(y), oldState, pr2b(y, yrank+1)) *)

(** findNode returns r to continuation k: purely local computation up to the next access. *)
Definition find_ret (k : cont) (r : nat) : pcT * option response :=
  match k with
  | KFind => (PIdle, Some (RFind r))
  | KSameX y => (PF1 (KSameY r) y, None)
  | KSameY x => if x =? r then (PIdle, Some (RSame true)) else (PSame x r, None)
  | KUnionX y => (PF1 (KUnionY r) y, None)
  | KUnionY x => if x =? r then (PIdle, Some RUnion) else (PRankX x r, None)
  end.

(** rank_t is uint8_t: yrank + 1 is converted back to rank_t at the call of updateRoot. *)
Definition rank_succ (r : nat) : nat := (r + 1) mod 256.

Definition no_access := mkAcc ALoad 0 0 0.

(** The model has one switch. [fx = false]: the code as it is, where unionNodes links with
    [updateRoot(x, xrank, y, yrank)], i.e. the linked node's block receives the rank read for y.
    [fx = true]: the linked node keeps its own rank, [updateRoot(x, xrank, y, xrank)] (as in
    Anderson & Woll's algorithm) -- the candidate repair. Everything else is identical. *)
Section Model.
Variable fx : bool.

(** One atomic access of a thread at [pc] and all local computation up to its next access. *)
Definition pstep (m : mem) (pc : pcT) : mem * pcT * option response * access :=
  match pc with
  | PIdle => (m, PIdle, None, no_access)
  | PF1 k x =>                                   (* while (x != b2p(get(x))) *)
      let b := rd m x in
      if fst b =? x then let (pc', r) := find_ret k x in (m, pc', r, acc_load x b)
      else (m, PF2 k x, None, acc_load x b)
  | PF2 k x =>                                   (* block_t xState = get(x); *)
      let b := rd m x in (m, PF3 k x (fst b) (snd b), None, acc_load x b)
  | PF3 k x xp xr =>                             (* newParent = b2p(get(b2p(xState))); *)
      let b := rd m xp in (m, PF4 k x xp xr (fst b), None, acc_load xp b)
  | PF4 k x xp xr np =>                          (* CAS; x = newParent; *)
      let (m', ok) := cas m x (xp, xr) (np, xr) in
      (m', PF1 k np, None, acc_cas x (rd m x) ok)
  | PSame x y =>                                 (* if (b2p(get(x)) == x) return false; else loop *)
      let b := rd m x in
      if fst b =? x then (m, PIdle, Some (RSame false), acc_load x b)
      else (m, PF1 (KSameX y) x, None, acc_load x b)
  | PRankX x y =>
      let b := rd m x in (m, PRankY x y (snd b), None, acc_load x b)
  | PRankY x y xr =>
      let b := rd m y in
      let yr := snd b in
      (* if (xrank > yrank || ((xrank == yrank) && x > y)) { swap(x,y); swap(xrank,yrank); } *)
      if (yr <? xr) || ((xr =? yr) && (y <? x))
      then (m, PLink1 y yr x xr, None, acc_load y b)
      else (m, PLink1 x xr y yr, None, acc_load y b)
  | PLink1 x xr y yr =>                          (* updateRoot: load and test *)
      let b := rd m x in
      if (fst b =? x) && (snd b =? xr)
      then (m, PCas1 x xr y yr (fst b) (snd b), None, acc_load x b)
      else (m, PF1 (KUnionX y) x, None, acc_load x b)          (* return false; continue *)
  | PCas1 x xr y yr osp osr =>
      let (m', ok) := cas m x (osp, osr) (y, if fx then xr else yr) in
      if ok then
        if xr =? yr then (m', PLink2 y yr, None, acc_cas x (rd m x) ok)
        else (m', PIdle, Some RUnion, acc_cas x (rd m x) ok)   (* break *)
      else (m', PF1 (KUnionX y) x, None, acc_cas x (rd m x) ok) (* continue *)
  | PLink2 y yr =>
      let b := rd m y in
      if (fst b =? y) && (snd b =? yr)
      then (m, PCas2 y yr (fst b) (snd b), None, acc_load y b)
      else (m, PIdle, Some RUnion, acc_load y b)               (* result ignored; break *)
  | PCas2 y yr osp osr =>
      let (m', ok) := cas m y (osp, osr) (y, rank_succ yr) in
      (m', PIdle, Some RUnion, acc_cas y (rd m y) ok)
  end.

(** * Threads and global state *)
Record thread := mkT { t_ops : list op; t_cur : option op; t_pc : pcT }.

Record state := mkS {
  s_mem : mem;
  s_thr : list thread;
  s_inv : list (nat * nat)   (* ghost: unions invoked so far (a union is invoked at its first step) *)
}.

Definition begin_pc (o : op) : pcT :=
  match o with
  | OFind x => PF1 KFind x
  | OSame x y => PF1 (KSameX y) x
  | OUnion x y => PF1 (KUnionX y) x
  end.

(** The ghost list is kept sorted (with repetitions), so that it is a function of how far each
    thread has progressed and does not multiply the states seen by the explorer. *)
Definition pair_leb (p q : nat * nat) : bool :=
  (fst p <? fst q) || ((fst p =? fst q) && (snd p <=? snd q)).
Fixpoint ins_inv (p : nat * nat) (l : list (nat * nat)) : list (nat * nat) :=
  match l with
  | [] => [p]
  | q :: r => if pair_leb p q then p :: l else q :: ins_inv p r
  end.
Definition add_inv (o : op) (inv : list (nat * nat)) : list (nat * nat) :=
  match o with OUnion x y => ins_inv (x, y) inv | _ => inv end.

(** The operation the thread's next step belongs to (fetching the next one if idle). *)
Definition start (th : thread) (inv : list (nat * nat))
  : option (op * list op * pcT * list (nat * nat)) :=
  match t_cur th with
  | Some o => Some (o, t_ops th, t_pc th, inv)
  | None => match t_ops th with
            | [] => None
            | o :: r => Some (o, r, begin_pc o, add_inv o inv)
            end
  end.

Fixpoint upd {A} (l : list A) (i : nat) (a : A) : list A :=
  match l, i with
  | [], _ => []
  | _ :: r, O => a :: r
  | c :: r, S j => c :: upd r j a
  end.

Definition step_acc (st : state) (t : nat) : option (state * option response * access) :=
  match nth_error (s_thr st) t with
  | None => None
  | Some th =>
    match start th (s_inv st) with
    | None => None
    | Some (o, ops', pc0, inv') =>
        match pstep (s_mem st) pc0 with
        | (m', pc', r, a) =>
          let th' := match r with
                     | Some _ => mkT ops' None PIdle
                     | None => mkT ops' (Some o) pc'
                     end in
          Some (mkS m' (upd (s_thr st) t th') inv', r, a)
        end
    end
  end.

Definition olist {A} (o : option A) : list A := match o with Some a => [a] | None => [] end.

(** Thread [t] performs exactly one atomic access. [None]: no such thread or it has finished. *)
Definition step (st : state) (t : nat) : option (state * list response) :=
  match step_acc st t with
  | Some (st', r, _) => Some (st', olist r)
  | None => None
  end.

Definition init (n : nat) (scripts : list (list op)) : state :=
  mkS (init_mem n) (map (fun s => mkT s None PIdle) scripts) [].

Fixpoint run_from (st : state) (sched : list nat) : state * list (nat * response) :=
  match sched with
  | [] => (st, [])
  | t :: s =>
    match step st t with
    | None => run_from st s                      (* finished / unknown thread: entry skipped *)
    | Some (st', rs) => let (f, out) := run_from st' s in (f, map (pair t) rs ++ out)
    end
  end.

Definition run_v (n : nat) (scripts : list (list op)) (sched : list nat)
  : state * list (nat * response) := run_from (init n scripts) sched.

(** Hypothesis of the theorems that depend on ranks: no step of the run is taken from a state
    in which some rank has reached 255 (so that the uint8_t increment never wraps). *)
Fixpoint no_wrap (st : state) (sched : list nat) : Prop :=
  match sched with
  | [] => True
  | t :: s => match step st t with
              | None => no_wrap st s
              | Some (st', _) => (forall x, rank (s_mem st) x < 255) /\ no_wrap st' s
              end
  end.
Fixpoint no_wrapb (st : state) (sched : list nat) : bool :=
  match sched with
  | [] => true
  | t :: s => match step st t with
              | None => no_wrapb st s
              | Some (st', _) => forallb (fun b => snd b <? 255) (s_mem st) && no_wrapb st' s
              end
  end.

Definition finished (th : thread) : bool :=
  match t_cur th, t_ops th with None, [] => true | _, _ => false end.
Definition quiescent (st : state) : bool := forallb finished (s_thr st).

(** For the driver: every performed step with its response and access. *)
Fixpoint run_events_from (st : state) (sched : list nat)
  : state * list (nat * option response * access) :=
  match sched with
  | [] => (st, [])
  | t :: s =>
    match step_acc st t with
    | None => run_events_from st s
    | Some (st', r, a) => let (f, ev) := run_events_from st' s in (f, (t, r, a) :: ev)
    end
  end.

(** * Specification side *)
(** Equivalence closure, on nodes 0..n-1, of the requested unions. *)
Inductive closure (n : nat) (u : list (nat * nat)) : nat -> nat -> Prop :=
| cl_refl x : x < n -> closure n u x x
| cl_base x y : In (x, y) u -> x < n -> y < n -> closure n u x y
| cl_sym x y : closure n u x y -> closure n u y x
| cl_trans x y z : closure n u x y -> closure n u y z -> closure n u x z.

(** Executable: class labels after processing the unions one by one. *)
Fixpoint classes (n : nat) (u : list (nat * nat)) : list nat :=
  match u with
  | [] => seq 0 n
  | (a, b) :: u' =>
      let c := classes n u' in
      let la := nth a c a in
      let lb := nth b c b in
      map (fun l => if l =? la then lb else l) c
  end.
Definition same_class_tab (n : nat) (tab : list nat) (x y : nat) : bool :=
  (x <? n) && (y <? n) && (nth x tab x =? nth y tab y).
Definition same_class (n : nat) (u : list (nat * nat)) (x y : nat) : bool :=
  same_class_tab n (classes n u) x y.

Definition unions_of (s : list op) : list (nat * nat) :=
  flat_map (fun o => match o with OUnion x y => [(x, y)] | _ => [] end) s.
Definition all_unions (scripts : list (list op)) : list (nat * nat) :=
  flat_map unions_of scripts.

Definition op_wf (n : nat) (o : op) : Prop :=
  match o with OUnion x y | OSame x y => x < n /\ y < n | OFind x => x < n end.
Definition scripts_wf (n : nat) (scripts : list (list op)) : Prop :=
  Forall (Forall (op_wf n)) scripts.
Definition op_wfb (n : nat) (o : op) : bool :=
  match o with OUnion x y | OSame x y => (x <? n) && (y <? n) | OFind x => x <? n end.

(** [anc m x r]: r is reached from x by following parent links (zero or more). *)
Inductive anc (m : mem) : nat -> nat -> Prop :=
| anc_refl x : anc m x x
| anc_step x r : anc m (parent m x) r -> anc m x r.
Definition is_root (m : mem) (r : nat) : Prop := parent m r = r.
(** x and y are in the same tree: the partition represented by the memory. *)
Definition sameroot (m : mem) (x y : nat) : Prop :=
  exists r, is_root m r /\ anc m x r /\ anc m y r.

(** The operation that thread [t]'s next step belongs to. *)
Definition cur_op (st : state) (t : nat) : option op :=
  match nth_error (s_thr st) t with
  | Some th => match t_cur th with Some o => Some o | None => hd_error (t_ops th) end
  | None => None
  end.

(** Following parent links [length m] times (roots are fixed points). *)
Definition root (m : mem) (x : nat) : nat := Nat.iter (length m) (parent m) x.

(** (rank, index) lexicographic order: the order in which unionNodes links roots. *)
Definition lexlt (r1 x1 r2 x2 : nat) : Prop := r1 < r2 \/ (r1 = r2 /\ x1 < x2).
Definition lexltb (r1 x1 r2 x2 : nat) : bool := (r1 <? r2) || ((r1 =? r2) && (x1 <? x2)).

(** Every parent link is in range and strictly increasing in (rank, index). *)
Definition acyclic_b (m : mem) : bool :=
  forallb (fun x => let p := parent m x in
                    (p <? length m) &&
                    ((p =? x) || lexltb (rank m x) x (rank m p) p))
          (seq 0 (length m)).

(** No rank is about to wrap around (uint8_t). *)
Definition rank_ok (st : state) : Prop := forall x, rank (s_mem st) x < 255.
Definition rank_okb (m : mem) : bool := forallb (fun b => snd b <? 255) m.

(** * Monitor for the bounded exhaustive check
    Per thread two flags for a pending sameSet(a, b): "a and b shared a root at some instant since
    the call began" / "they had different roots at some instant since the call began". *)
Record mstate := mkM { ms_st : state; ms_fl : list (bool * bool); ms_bad : bool }.

Definition same_now (m : mem) (a b : nat) : bool := root m a =? root m b.
Definition obs (m : mem) (o : option op) : bool * bool :=
  match o with
  | Some (OSame a b) => let s := same_now m a b in (s, negb s)
  | _ => (false, false)
  end.
Definition fjoin (f g : bool * bool) : bool * bool := (fst f || fst g, snd f || snd g).

Definition resp_ok (m' : mem) (fl : bool * bool) (o : op) (r : response) : bool :=
  match o, r with
  | OUnion a b, RUnion => same_now m' a b
  | OSame a b, RSame v => if v then fst fl else snd fl
  | OFind a, RFind z => root m' a =? z
  | _, _ => false
  end.

Definition partition_ok (n : nat) (tab : list nat) (m : mem) : bool :=
  forallb (fun x => forallb (fun y => Bool.eqb (same_now m x y) (same_class_tab n tab x y))
                            (seq 0 n)) (seq 0 n).

Fixpoint map2 {A B C} (f : A -> B -> C) (l : list A) (k : list B) : list C :=
  match l, k with
  | a :: l', b :: k' => f a b :: map2 f l' k'
  | _, _ => []
  end.

(** [tab] = class table of all requested unions (for the check at quiescence). *)
Definition mon_step (n : nat) (tab : list nat) (ms : mstate) (t : nat) : option mstate :=
  let st := ms_st ms in
  match nth_error (s_thr st) t with
  | None => None
  | Some th =>
    match step_acc st t with
    | None => None
    | Some (st', r, _) =>
      let o := match t_cur th with Some o => Some o | None => hd_error (t_ops th) end in
      let f0 := match t_cur th with Some _ => nth t (ms_fl ms) (false, false) | None => (false, false) end in
      let fl1 := upd (ms_fl ms) t (fjoin f0 (obs (s_mem st) o)) in
      let thr1 := upd (s_thr st) t (mkT (t_ops th) o (t_pc th)) in
      let fl2 := map2 (fun th' f => fjoin f (obs (s_mem st') (t_cur th'))) thr1 fl1 in
      let okr := match o, r with
                 | Some o', Some r' => resp_ok (s_mem st') (nth t fl2 (false, false)) o' r'
                 | _, _ => true
                 end in
      let okq := if quiescent st' then partition_ok n tab (s_mem st') else true in
      Some (mkM st' fl2 (ms_bad ms || negb (acyclic_b (s_mem st')) || negb okr || negb okq))
    end
  end.

Definition mon_init (n : nat) (scripts : list (list op)) : mstate :=
  mkM (init n scripts) (map (fun _ => (false, false)) scripts) false.

Fixpoint mon_run_from (n : nat) (tab : list nat) (ms : mstate) (sched : list nat) : mstate :=
  match sched with
  | [] => ms
  | t :: s => match mon_step n tab ms t with
              | None => mon_run_from n tab ms s
              | Some ms' => mon_run_from n tab ms' s
              end
  end.

(** The monitor's verdict along the run of [sched]: [true] = no violation. *)
Definition mon_run (n : nat) (scripts : list (list op)) (sched : list nat) : mstate :=
  mon_run_from n (classes n (all_unions scripts)) (mon_init n scripts) sched.
Definition mon_ok (n : nat) (scripts : list (list op)) (sched : list nat) : bool :=
  negb (ms_bad (mon_run n scripts sched)).

(** * Explorer: all interleavings, with a visited map keyed by an encoding of the state.
    Phase 1 (dfs) collects a candidate set of monitored states; phase 2 (closed_ok) checks that
    the set contains the initial state, is closed under every thread's step, and that no member
    is flagged bad. Soundness (UnionFindLemmas.explore_sound) only depends on phase 2, and
    compares states structurally (the encoding need not be injective). *)
Definition op_eq_dec (a b : op) : {a = b} + {a <> b}.
Proof. repeat decide equality. Defined.
Definition pc_eq_dec (a b : pcT) : {a = b} + {a <> b}.
Proof. repeat decide equality. Defined.
Definition thread_eq_dec (a b : thread) : {a = b} + {a <> b}.
Proof. decide equality; [apply pc_eq_dec | decide equality; apply op_eq_dec | apply list_eq_dec, op_eq_dec]. Defined.
Definition mem_eq_dec (a b : mem) : {a = b} + {a <> b}.
Proof. repeat decide equality. Defined.
Definition state_eq_dec (a b : state) : {a = b} + {a <> b}.
Proof. decide equality; [repeat decide equality | apply list_eq_dec, thread_eq_dec | apply mem_eq_dec]. Defined.
Definition mstate_eq_dec (a b : mstate) : {a = b} + {a <> b}.
Proof. decide equality; [apply bool_dec | repeat decide equality | apply state_eq_dec]. Defined.

(** encoding: digits in radix 16 pushed onto a positive *)
Definition pushd (acc : positive) (d : nat) : positive :=
  match d with
  | 0 => (acc~0~0~0~0)%positive | 1 => (acc~0~0~0~1)%positive | 2 => (acc~0~0~1~0)%positive | 3 => (acc~0~0~1~1)%positive
  | 4 => (acc~0~1~0~0)%positive | 5 => (acc~0~1~0~1)%positive | 6 => (acc~0~1~1~0)%positive | 7 => (acc~0~1~1~1)%positive
  | 8 => (acc~1~0~0~0)%positive | 9 => (acc~1~0~0~1)%positive | 10 => (acc~1~0~1~0)%positive | 11 => (acc~1~0~1~1)%positive
  | 12 => (acc~1~1~0~0)%positive | 13 => (acc~1~1~0~1)%positive | 14 => (acc~1~1~1~0)%positive
  | S (S (S (S (S (S (S (S (S (S (S (S (S (S (S e)))))))))))))) =>
      (acc~1~1~1~1 * 16 + Pos.of_succ_nat e)%positive
  end.
Definition enc_cont (acc : positive) (k : cont) : positive :=
  match k with
  | KFind => pushd acc 0
  | KSameX y => pushd (pushd acc 1) y
  | KSameY x => pushd (pushd acc 2) x
  | KUnionX y => pushd (pushd acc 3) y
  | KUnionY x => pushd (pushd acc 4) x
  end.
Definition enc_pc (acc : positive) (pc : pcT) : positive :=
  match pc with
  | PIdle => pushd acc 0
  | PF1 k x => pushd (enc_cont (pushd acc 1) k) x
  | PF2 k x => pushd (enc_cont (pushd acc 2) k) x
  | PF3 k x xp xr => fold_left pushd [x; xp; xr] (enc_cont (pushd acc 3) k)
  | PF4 k x xp xr np => fold_left pushd [x; xp; xr; np] (enc_cont (pushd acc 4) k)
  | PSame x y => fold_left pushd [5; x; y] acc
  | PRankX x y => fold_left pushd [6; x; y] acc
  | PRankY x y xr => fold_left pushd [7; x; y; xr] acc
  | PLink1 x xr y yr => fold_left pushd [8; x; xr; y; yr] acc
  | PCas1 x xr y yr a b => fold_left pushd [9; x; xr; y; yr; a; b] acc
  | PLink2 y yr => fold_left pushd [10; y; yr] acc
  | PCas2 y yr a b => fold_left pushd [11; y; yr; a; b] acc
  end.
Definition b2n (b : bool) : nat := if b then 1 else 0.
Definition enc_thread (acc : positive) (thf : thread * (bool * bool)) : positive :=
  let (th, f) := thf in
  let acc := pushd acc (length (t_ops th)) in
  let acc := pushd acc (match t_cur th with Some _ => 1 | None => 0 end) in
  let acc := pushd acc (b2n (fst f) + 2 * b2n (snd f)) in
  enc_pc acc (t_pc th).
Definition enc (ms : mstate) : positive :=
  let acc := fold_left (fun a b => pushd (pushd a (fst b)) (snd b)) (s_mem (ms_st ms)) 1%positive in
  let acc := pushd acc (b2n (ms_bad ms)) in
  fold_left enc_thread (combine (s_thr (ms_st ms)) (ms_fl ms)) acc.

Definition succs (n : nat) (tab : list nat) (k : nat) (ms : mstate) : list mstate :=
  flat_map (fun t => olist (mon_step n tab ms t)) (seq 0 k).

Fixpoint dfs (n : nat) (tab : list nat) (k : nat) (fuel : nat) (stack : list mstate)
             (seen : PositiveMap.t mstate) : PositiveMap.t mstate :=
  match fuel with
  | O => seen
  | S fuel' =>
    match stack with
    | [] => seen
    | ms :: rest =>
      let key := enc ms in
      match PositiveMap.find key seen with
      | Some _ => dfs n tab k fuel' rest seen
      | None => dfs n tab k fuel' (succs n tab k ms ++ rest) (PositiveMap.add key ms seen)
      end
    end
  end.

Definition in_seen (seen : PositiveMap.t mstate) (ms : mstate) : bool :=
  match PositiveMap.find (enc ms) seen with
  | Some ms' => if mstate_eq_dec ms ms' then true else false
  | None => false
  end.

Definition closed_ok (n : nat) (tab : list nat) (k : nat) (i : mstate) (seen : PositiveMap.t mstate) : bool :=
  in_seen seen i &&
  forallb (fun kv => let ms := snd kv in
                     negb (ms_bad ms) && rank_okb (s_mem (ms_st ms)) &&
                     forallb (in_seen seen) (succs n tab k ms))
          (PositiveMap.elements seen).

(** All interleavings of [scripts] over [n] nodes pass the monitor (and never reach rank 255). *)
Definition explore (fuel : nat) (n : nat) (scripts : list (list op)) : bool :=
  let tab := classes n (all_unions scripts) in
  let k := length scripts in
  let i := mon_init n scripts in
  forallb (forallb (op_wfb n)) scripts &&
  closed_ok n tab k i (dfs n tab k fuel [i] (PositiveMap.empty mstate)).

Definition explore_count (fuel : nat) (n : nat) (scripts : list (list op)) : N :=
  let tab := classes n (all_unions scripts) in
  N.of_nat (PositiveMap.cardinal (dfs n tab (length scripts) fuel [mon_init n scripts] (PositiveMap.empty mstate))).

End Model.

(** The code as it is, and the candidate repair. *)
Definition run := run_v false.
Definition run_fixed := run_v true.
