(** Proofs about the optimistic read/write lock model (LockDefs.v): arbitrary number of clients,
    arbitrary scripts, arbitrary schedules at the granularity of single atomic operations. *)
From SV Require Import LockDefs.
Require Import Lia ZifyBool ZifyNat.
Local Open Scope Z_scope.
Arguments Z.pow : simpl never.
Arguments Z.lor : simpl never.
Arguments Z.land : simpl never.
Arguments Z.odd : simpl never.
Arguments Z.eqb : simpl never.
Arguments wrap32 : simpl never.

(** ** 32-bit arithmetic *)

Lemma land1_mod2 v : Z.land v 1 = v mod 2.
Proof. exact (Z.land_ones v 1 ltac:(lia)). Qed.

Lemma low_bit_odd v : low_bit v = Z.odd v.
Proof.
  unfold low_bit. rewrite land1_mod2, Zmod_odd. destruct (Z.odd v); reflexivity.
Qed.

Lemma lor1 v : Z.lor v 1 = if Z.odd v then v else v + 1.
Proof.
  destruct (Z.odd v) eqn:E.
  - assert (H : Z.land v 1 = 1) by (rewrite land1_mod2, Zmod_odd, E; reflexivity).
    rewrite <- (Z.lor_ldiff_and v 1) at 1. rewrite H, <- Z.lor_assoc, Z.lor_diag.
    rewrite <- H at 2. apply Z.lor_ldiff_and.
  - assert (H : Z.land v 1 = 0) by (rewrite land1_mod2, Zmod_odd, E; reflexivity).
    rewrite <- (Z.lxor_lor _ _ H). symmetry. apply Z.add_nocarry_lxor, H.
Qed.

Lemma wrap32_id v : in_range32 v -> wrap32 v = v.
Proof. unfold in_range32, wrap32. intro H. rewrite Z.mod_small; lia. Qed.

Lemma wrap32_range z : in_range32 (wrap32 z).
Proof.
  unfold in_range32, wrap32. pose proof (Z.mod_pos_bound (z + 2 ^ 31) (2 ^ 32) ltac:(lia)). lia.
Qed.

Lemma wrap32_odd z : Z.odd (wrap32 z) = Z.odd z.
Proof.
  unfold wrap32. rewrite Z.mod_eq by lia.
  replace (z + 2 ^ 31 - 2 ^ 32 * ((z + 2 ^ 31) / 2 ^ 32) - 2 ^ 31)
    with (z + 2 * (- (2 ^ 31 * ((z + 2 ^ 31) / 2 ^ 32)))) by lia.
  apply Z.odd_add_mul_2.
Qed.

Lemma wrap32_add_l x y : wrap32 (wrap32 x + y) = wrap32 (x + y).
Proof.
  unfold wrap32.
  replace ((x + 2 ^ 31) mod 2 ^ 32 - 2 ^ 31 + y + 2 ^ 31) with ((x + 2 ^ 31) mod 2 ^ 32 + y) by lia.
  rewrite Zplus_mod_idemp_l. f_equal. f_equal. lia.
Qed.

(** The arithmetic heart of [validate_sound]: fewer than 2^31 increments by 2 cannot bring a
    32-bit counter back to the same value. *)
Lemma wrap32_no_return l k :
  in_range32 l -> 0 <= k < 2 ^ 31 -> wrap32 (l + 2 * k) = l -> k = 0.
Proof.
  unfold in_range32, wrap32. intros Hl Hk H. Z.div_mod_to_equations. lia.
Qed.

(** ... and exactly 2^31 of them do: the hypothesis of [validate_sound] cannot be dropped. *)
Lemma wrap32_returns l : in_range32 l -> wrap32 (l + 2 * 2 ^ 31) = l.
Proof.
  unfold in_range32, wrap32. intros Hl. Z.div_mod_to_equations. lia.
Qed.

Lemma odd_split v : Z.odd v = true -> exists k, v = 2 * k + 1.
Proof. intro H. apply Z.odd_spec in H. destruct H as [k ->]. exists k. lia. Qed.
Lemma even_split v : Z.odd v = false -> exists k, v = 2 * k.
Proof.
  intro H. rewrite <- Z.negb_even in H. apply negb_false_iff, Z.even_spec in H.
  destruct H as [k ->]. exists k. lia.
Qed.

(** The version with the "write in progress" bit cleared. *)
Definition base (v : Z) : Z := if Z.odd v then v - 1 else v.

(** ** Lists *)

Lemma nth_error_set_nth_eq {A} (l : list A) t x c :
  nth_error l t = Some c -> nth_error (set_nth t x l) t = Some x.
Proof.
  revert t; induction l as [|y l IH]; intros [|t]; simpl; intro H; try discriminate; auto.
Qed.

Lemma nth_error_set_nth_neq {A} (l : list A) t t' x :
  t <> t' -> nth_error (set_nth t x l) t' = nth_error l t'.
Proof.
  revert t t'; induction l as [|y l IH]; intros [|t] [|t'] H; simpl; auto; try congruence.
Qed.

Lemma length_set_nth {A} (l : list A) t x : length (set_nth t x l) = length l.
Proof. revert t; induction l as [|y l IH]; intros [|t]; simpl; auto. Qed.

Definition b2n (b : bool) : nat := if b then 1%nat else 0%nat.

Lemma count_writing_set_nth l t c c' :
  nth_error l t = Some c ->
  (count_writing (set_nth t c' l) + b2n (is_writing c) = count_writing l + b2n (is_writing c'))%nat.
Proof.
  revert t; induction l as [|y l IH]; intros [|t]; simpl; intro H; try discriminate.
  - injection H as ->. unfold b2n. destruct (is_writing c), (is_writing c'); lia.
  - specialize (IH _ H). lia.
Qed.

Lemma count_writing_ge1 l t c :
  nth_error l t = Some c -> is_writing c = true -> (1 <= count_writing l)%nat.
Proof.
  revert t; induction l as [|y l IH]; intros [|t]; simpl; intros H W; try discriminate.
  - injection H as ->. rewrite W. lia.
  - specialize (IH _ H W). lia.
Qed.

Lemma count_writing_ge2 l t1 t2 c1 c2 :
  t1 <> t2 ->
  nth_error l t1 = Some c1 -> is_writing c1 = true ->
  nth_error l t2 = Some c2 -> is_writing c2 = true -> (2 <= count_writing l)%nat.
Proof.
  revert t1 t2; induction l as [|y l IH]; intros [|t1] [|t2] N H1 W1 H2 W2; simpl in *;
    try discriminate; try congruence.
  - injection H1 as ->. rewrite W1. pose proof (count_writing_ge1 _ _ _ H2 W2). lia.
  - injection H2 as ->. rewrite W2. pose proof (count_writing_ge1 _ _ _ H1 W1). lia.
  - assert (t1 <> t2) by congruence. specialize (IH _ _ H H1 W1 H2 W2). lia.
Qed.

Lemma count_writing_pos_ex l :
  (1 <= count_writing l)%nat -> exists t c, nth_error l t = Some c /\ is_writing c = true.
Proof.
  induction l as [|y l IH]; simpl; intro H; [lia|].
  destruct (is_writing y) eqn:W.
  - exists 0%nat, y. auto.
  - destruct IH as (t & c & Ht & Hc); [lia|]. exists (S t), c. auto.
Qed.

Lemma is_writing_phase c : is_writing c = true <-> c_phase c = Writing.
Proof. unfold is_writing. destruct (c_phase c); split; congruence. Qed.

(** ** One step, analysed once *)

(** Everything the proofs below need to know about a step [st --t--> st'] that completed the
    calls [rs]: [c]/[c'] the client before/after, [a] the atomic operation, [old] its result. *)
Record step_facts (st : state) (t : nat) (st' : state) (rs : list reply)
                  (c c' : client) (a : atomic) : Prop := {
  sf_client : client_at st t = Some c;
  sf_clients : s_clients st' = set_nth t c' (s_clients st);
  sf_atomic : step_atomic st t = Some a;
  sf_version : s_version st' = apply_atomic a (s_version st);
  sf_writing :
    match a with
    | ALoad => is_writing c = false /\ is_writing c' = false
    | AFetchOr => is_writing c = false /\ is_writing c' = negb (Z.odd (s_version st))
    | _ => is_writing c = true /\ is_writing c' = false
    end;
  sf_count : count_end_write (tag t rs) = match a with AFetchAdd => 1 | _ => 0 end;
  sf_lease :
    c_lease c' = c_lease c \/
    (a = ALoad /\ Z.odd (s_version st) = false /\ c_lease c' = s_version st /\
     rs = [(MStartRead, RLease (s_version st))]);
  sf_start_read : forall l, In (MStartRead, RLease l) rs ->
    a = ALoad /\ l = s_version st /\ Z.odd l = false /\ c_lease c' = l;
  sf_valid : forall m, In (m, RBool true) rs ->
    m = MValidate \/ m = MEndRead \/ m = MTryUpgrade -> c_lease c = s_version st;
  sf_spin : c' = c -> Z.odd (s_version st) = true /\ is_writing c = false /\ rs = [];
  sf_progress : Z.odd (s_version st) = false \/ is_writing c = true ->
    (client_measure c' < client_measure c)%nat /\
    (rs <> [] \/ exists e rest, c' = mkClient (BUpg e :: rest) 3 (c_lease c))
}.

Lemma is_writing_fresh rest l : is_writing (mkClient rest 0 l) = false.
Proof. destruct rest as [|[]]; reflexivity. Qed.

Ltac in_cases H := repeat (destruct H as [H|H]); try contradiction.

Lemma step_inv st t st' rs :
  step st t = Some (st', rs) -> exists c c' a, step_facts st t st' rs c c' a.
Proof.
  unfold step. destruct (client_at st t) as [c|] eqn:Hc; [|discriminate].
  destruct c as [[|b rest] pc lease]; cbn [c_script c_pc c_lease]; [discriminate|].
  destruct (advance b rest pc lease (s_version st)) as [c' rs0] eqn:Hadv.
  intro H. injection H as <- <-.
  exists (mkClient (b :: rest) pc lease), c', (next_atomic b pc).
  assert (Hat : step_atomic st t = Some (next_atomic b pc)) by (unfold step_atomic; rewrite Hc; reflexivity).
  destruct b as [|e|e|e]; destruct pc as [|[|[|pc]]];
    cbn [advance adv_start_read adv_release] in Hadv; unfold adv_start_read, adv_release in Hadv;
    rewrite ?low_bit_odd in Hadv;
    try (destruct (Z.odd (s_version st)) eqn:Eo); try (destruct (lease =? s_version st) eqn:El);
    injection Hadv as <- <-;
    try (destruct e);
    (constructor; cbn -[Z.odd Z.eqb];
     [ assumption | reflexivity | assumption | reflexivity
     | rewrite ?is_writing_fresh, ?Eo; auto
     | reflexivity
     | auto
     | (intros l H; in_cases H; try discriminate H; injection H as <-; auto)
     | (intros m H Hm; in_cases H; try discriminate H; injection H; intros; subst;
        try (destruct Hm as [Hm|[Hm|Hm]]; discriminate Hm); apply Z.eqb_eq; assumption)
     | (intro H; try discriminate H; try (injection H; intros; lia);
        try (exfalso; apply (f_equal (fun c => length (c_script c))) in H; cbn in H; lia); auto)
     | (intros [H|H]; try congruence;
        (split; [lia | first [left; discriminate | right; eauto]])) ]).
Qed.

(** ** The invariant: version in range, and odd exactly when one client is in a write phase *)

Definition Inv (st : state) : Prop :=
  in_range32 (s_version st) /\ writers st = b2n (Z.odd (s_version st)).

Lemma writer_odd st t c :
  Inv st -> client_at st t = Some c -> is_writing c = true -> Z.odd (s_version st) = true.
Proof.
  intros [_ Hw] Hc W. pose proof (count_writing_ge1 _ _ _ Hc W) as H.
  unfold writers in Hw. destruct (Z.odd (s_version st)); [reflexivity|]. simpl in Hw. lia.
Qed.

Lemma step_Inv st t st' rs : Inv st -> step st t = Some (st', rs) -> Inv st'.
Proof.
  intros HI H. destruct (step_inv _ _ _ _ H) as (c & c' & a & F).
  destruct F as [Fc Fcl Fa Fv Fw _ _ _ _ _ _].
  pose proof (count_writing_set_nth _ _ _ c' Fc) as Hcw.
  pose proof (writer_odd _ _ _ HI Fc) as Hodd.
  destruct HI as [Hr Hw]. unfold Inv, writers in *. rewrite Fcl, Fv.
  destruct a; cbn [apply_atomic]; destruct Fw as [W W']; rewrite W, W' in Hcw.
  - split; [exact Hr|]. simpl in Hcw. lia.
  - rewrite lor1. destruct (Z.odd (s_version st)) eqn:E.
    + rewrite E. split; [exact Hr|]. simpl in *. lia.
    + destruct (even_split _ E) as [k Hk]. split.
      * unfold in_range32 in *. lia.
      * rewrite Z.odd_add, E. simpl in *. lia.
  - specialize (Hodd W). split; [apply wrap32_range|].
    rewrite wrap32_odd, Z.odd_add, Hodd. rewrite Hw, Hodd in Hcw. simpl in *. lia.
  - specialize (Hodd W). split; [apply wrap32_range|].
    rewrite wrap32_odd, Z.odd_sub, Hodd. rewrite Hw, Hodd in Hcw. simpl in *. lia.
Qed.

Lemma exec_Inv st sched : Inv st -> Inv (fst (exec st sched)).
Proof.
  revert st; induction sched as [|t r IH]; intros st H; cbn [exec]; [exact H|].
  destruct (step st t) as [[st' rs]|] eqn:E; [|apply IH, H].
  specialize (IH st' (step_Inv _ _ _ _ H E)). destruct (exec st' r). exact IH.
Qed.

Lemma init_Inv v0 scripts : in_range32 v0 -> Z.odd v0 = false -> Inv (init v0 scripts).
Proof.
  intros Hr He. split; [exact Hr|]. unfold writers, init. cbn [s_clients s_version]. rewrite He.
  induction scripts as [|s r IH]; [reflexivity|]. cbn [map count_writing].
  rewrite is_writing_fresh, IH. reflexivity.
Qed.

Lemma reachable_Inv v0 st : in_range32 v0 -> Z.odd v0 = false -> reachable_from v0 st -> Inv st.
Proof. intros Hr He (scripts & sched & ->). apply exec_Inv, init_Inv; assumption. Qed.

Lemma reachable_reachable_from st : reachable st <-> reachable_from 0 st.
Proof. reflexivity. Qed.

Lemma phase_of_writing st t :
  phase_of st t = Writing <-> exists c, client_at st t = Some c /\ is_writing c = true.
Proof.
  unfold phase_of. destruct (client_at st t) as [c|].
  - rewrite <- is_writing_phase. split; [eauto|]. intros (c0 & H & W). congruence.
  - split; [discriminate|]. intros (c0 & H & _). discriminate.
Qed.

(** *** At most one writer *)
Theorem at_most_one_writer v0 st :
  in_range32 v0 -> Z.odd v0 = false -> reachable_from v0 st ->
  (Z.odd (s_version st) = true <-> writers st = 1%nat) /\
  (Z.odd (s_version st) = true <-> exists t, phase_of st t = Writing) /\
  (writers st <= 1)%nat /\
  (forall t1 t2, phase_of st t1 = Writing -> phase_of st t2 = Writing -> t1 = t2).
Proof.
  intros Hr He Hre. pose proof (reachable_Inv _ _ Hr He Hre) as HI.
  destruct HI as [Hv Hw]. repeat split.
  - intro H. rewrite Hw, H. reflexivity.
  - intro H. rewrite Hw in H. destruct (Z.odd (s_version st)); [reflexivity|discriminate].
  - intro H. destruct (count_writing_pos_ex (s_clients st)) as (t & c & Hc & W).
    { unfold writers in Hw. rewrite Hw, H. simpl. lia. }
    exists t. apply phase_of_writing. eauto.
  - intros (t & H). apply phase_of_writing in H as (c & Hc & W).
    eapply writer_odd; eauto. split; assumption.
  - rewrite Hw. destruct (Z.odd (s_version st)); simpl; lia.
  - intros t1 t2 H1 H2. apply phase_of_writing in H1 as (c1 & Hc1 & W1).
    apply phase_of_writing in H2 as (c2 & Hc2 & W2).
    destruct (Nat.eq_dec t1 t2) as [|N]; [assumption|exfalso].
    pose proof (count_writing_ge2 _ _ _ _ _ N Hc1 W1 Hc2 W2) as H.
    unfold writers in Hw. rewrite Hw in H. destruct (Z.odd (s_version st)); simpl in H; lia.
Qed.

(** *** Running schedules *)

Lemma exec_app st s1 s2 :
  exec st (s1 ++ s2) =
  let (st1, e1) := exec st s1 in let (st2, e2) := exec st1 s2 in (st2, e1 ++ e2).
Proof.
  revert st; induction s1 as [|t r IH]; intro st; cbn [exec app].
  - destruct (exec st s2). reflexivity.
  - destruct (step st t) as [[st' rs]|]; [|apply IH].
    rewrite IH. destruct (exec st' r) as [st1 e1]. destruct (exec st1 s2) as [st2 e2].
    rewrite app_assoc. reflexivity.
Qed.

Lemma count_end_write_app a b : count_end_write (a ++ b) = count_end_write a + count_end_write b.
Proof. induction a as [|x a IH]; cbn [count_end_write app]; lia. Qed.

Lemma count_end_write_nonneg evs : 0 <= count_end_write evs.
Proof. induction evs as [|x a IH]; cbn [count_end_write]; [lia|]. destruct (is_end_write x); lia. Qed.

Lemma base_range v : in_range32 v -> in_range32 (base v).
Proof.
  unfold base, in_range32. intro H. destruct (Z.odd v) eqn:E; [|exact H].
  destruct (odd_split _ E) as [k ->]. lia.
Qed.

(** The stable part of the version moves by exactly 2 per completed end_write (mod 2^32). *)
Lemma step_base st t st' rs :
  Inv st -> step st t = Some (st', rs) ->
  base (s_version st') = wrap32 (base (s_version st) + 2 * count_end_write (tag t rs)).
Proof.
  intros HI H. destruct (step_inv _ _ _ _ H) as (c & c' & a & F).
  destruct F as [Fc Fcl Fa Fv Fw Fn _ _ _ _ _].
  pose proof (writer_odd _ _ _ HI Fc) as Hodd. destruct HI as [Hr Hw].
  rewrite Fn, Fv. pose proof (base_range _ Hr) as Hb.
  destruct a; cbn [apply_atomic]; destruct Fw as [W W'].
  - rewrite Z.add_0_r, wrap32_id; auto.
  - rewrite Z.add_0_r, wrap32_id by auto. rewrite lor1. unfold base.
    destruct (Z.odd (s_version st)) eqn:E; [rewrite E; reflexivity|].
    rewrite Z.odd_add, E. simpl. lia.
  - specialize (Hodd W). unfold base at 1. rewrite wrap32_odd, Z.odd_add, Hodd. simpl.
    unfold base. rewrite Hodd. f_equal. lia.
  - specialize (Hodd W). unfold base at 1. rewrite wrap32_odd, Z.odd_sub, Hodd. simpl.
    rewrite Z.add_0_r. unfold base in *. rewrite Hodd in *. rewrite !wrap32_id; auto.
Qed.

Lemma exec_base st sched st' evs :
  Inv st -> exec st sched = (st', evs) ->
  base (s_version st') = wrap32 (base (s_version st) + 2 * count_end_write evs).
Proof.
  revert st st' evs; induction sched as [|t r IH]; intros st st' evs HI; cbn [exec].
  - intro H. injection H as <- <-. cbn [count_end_write]. rewrite Z.add_0_r, wrap32_id; auto.
    apply base_range, HI.
  - destruct (step st t) as [[st1 rs]|] eqn:E; [|apply IH, HI].
    destruct (exec st1 r) as [st2 e2] eqn:E2. intro H. injection H as <- <-.
    rewrite (IH _ _ _ (step_Inv _ _ _ _ HI E) E2), (step_base _ _ _ _ HI E).
    rewrite wrap32_add_l, count_end_write_app. f_equal. lia.
Qed.

(** *** Leases change only through start_read *)

Lemma client_at_step_same st t st' rs c c' a :
  step_facts st t st' rs c c' a -> client_at st' t = Some c'.
Proof.
  intros F. unfold client_at. rewrite (sf_clients _ _ _ _ _ _ _ F).
  eapply nth_error_set_nth_eq. exact (sf_client _ _ _ _ _ _ _ F).
Qed.

Lemma client_at_step_other st t st' rs t' :
  step st t = Some (st', rs) -> t <> t' -> client_at st' t' = client_at st t'.
Proof.
  intros H N. destruct (step_inv _ _ _ _ H) as (c & c' & a & F).
  unfold client_at. rewrite (sf_clients _ _ _ _ _ _ _ F). apply nth_error_set_nth_neq, N.
Qed.

Lemma step_lease st t0 st' rs t :
  step st t0 = Some (st', rs) -> existsb (is_start_read_of t) (tag t0 rs) = false ->
  lease_of st' t = lease_of st t.
Proof.
  intros H Hn. destruct (Nat.eq_dec t0 t) as [->|N].
  - destruct (step_inv _ _ _ _ H) as (c & c' & a & F). unfold lease_of.
    rewrite (client_at_step_same _ _ _ _ _ _ _ F), (sf_client _ _ _ _ _ _ _ F).
    destruct (sf_lease _ _ _ _ _ _ _ F) as [E|(_ & _ & _ & E)]; [exact E|].
    rewrite E in Hn. cbn in Hn. rewrite Nat.eqb_refl in Hn. discriminate.
  - unfold lease_of. rewrite (client_at_step_other _ _ _ _ _ H N). reflexivity.
Qed.

Lemma exec_lease st sched st' evs t :
  exec st sched = (st', evs) -> existsb (is_start_read_of t) evs = false ->
  lease_of st' t = lease_of st t.
Proof.
  revert st st' evs; induction sched as [|t0 r IH]; intros st st' evs; cbn [exec].
  - intro H. injection H as <- <-. reflexivity.
  - destruct (step st t0) as [[st1 rs]|] eqn:E; [|apply IH].
    destruct (exec st1 r) as [st2 e2] eqn:E2. intro H. injection H as <- <-.
    rewrite existsb_app. intro Hn. apply orb_false_iff in Hn as [Hn1 Hn2].
    rewrite (IH _ _ _ E2 Hn2). eapply step_lease; eauto.
Qed.

Lemma no_start_read_existsb t evs :
  (forall l, ~ In (t, MStartRead, RLease l) evs) -> existsb (is_start_read_of t) evs = false.
Proof.
  intro H. destruct (existsb (is_start_read_of t) evs) eqn:E; [exfalso|reflexivity].
  apply existsb_exists in E as ([[t' m] r] & Hin & Hx). cbn in Hx.
  destruct m; try discriminate. destruct r as [l| |]; try discriminate.
  apply Nat.eqb_eq in Hx. subst t'. exact (H l Hin).
Qed.

(** *** A successful validation was not overlapped by a write phase *)
Theorem validate_sound v0 scripts s1 t s2 st_i st_i' r_i l st_j evs st_j' r_j m :
  in_range32 v0 -> Z.odd v0 = false ->
  st_i = fst (run_from v0 scripts s1) ->
  step st_i t = Some (st_i', r_i) -> In (MStartRead, RLease l) r_i ->
  exec st_i' s2 = (st_j, evs) ->
  (forall l', ~ In (t, MStartRead, RLease l') evs) ->
  step st_j t = Some (st_j', r_j) -> In (m, RBool true) r_j ->
  m = MValidate \/ m = MEndRead \/ m = MTryUpgrade ->
  count_end_write evs < 2 ^ 31 ->
  count_end_write evs = 0 /\ writers st_j = 0%nat /\ s_version st_j = l /\
  (forall p q, s2 = p ++ q -> let v := s_version (fst (exec st_i' p)) in v = l \/ v = l + 1).
Proof.
  intros Hr He -> Hi Hl Hex Hns Hj Hm Hmm Hlt.
  assert (HI : Inv (fst (run_from v0 scripts s1))) by (apply exec_Inv, init_Inv; assumption).
  destruct (step_inv _ _ _ _ Hi) as (c & c' & a & F).
  destruct (sf_start_read _ _ _ _ _ _ _ F l Hl) as (-> & Hlv & Hlo & Hcl).
  pose proof (step_Inv _ _ _ _ HI Hi) as HI'.
  assert (Hv' : s_version st_i' = l).
  { rewrite (sf_version _ _ _ _ _ _ _ F). cbn. auto. }
  assert (Hlease' : lease_of st_i' t = l).
  { unfold lease_of. rewrite (client_at_step_same _ _ _ _ _ _ _ F). exact Hcl. }
  assert (Hbl : base l = l) by (unfold base; rewrite Hlo; reflexivity).
  assert (Hlr : in_range32 l) by (rewrite <- Hv'; apply HI').
  pose proof (exec_base _ _ _ _ HI' Hex) as Hb. rewrite Hv', Hbl in Hb.
  pose proof (exec_lease _ _ _ _ t Hex (no_start_read_existsb _ _ Hns)) as Hlj. rewrite Hlease' in Hlj.
  assert (HIj : Inv st_j). { replace st_j with (fst (exec st_i' s2)) by (rewrite Hex; reflexivity). apply exec_Inv, HI'. }
  destruct (step_inv _ _ _ _ Hj) as (cj & cj' & aj & Fj).
  pose proof (sf_valid _ _ _ _ _ _ _ Fj m Hm Hmm) as Hval.
  assert (Hvj : s_version st_j = l).
  { rewrite <- Hval, <- Hlj. unfold lease_of. rewrite (sf_client _ _ _ _ _ _ _ Fj). reflexivity. }
  assert (Hc0 : count_end_write evs = 0).
  { apply (wrap32_no_return l); auto.
    - pose proof (count_end_write_nonneg evs). lia.
    - rewrite <- Hb, Hvj. exact Hbl. }
  repeat split; auto.
  - destruct HIj as [_ Hw]. rewrite Hw, Hvj, Hlo. reflexivity.
  - intros p q ->. rewrite exec_app in Hex.
    destruct (exec st_i' p) as [stp ep] eqn:Ep. destruct (exec stp q) as [stq eq_] eqn:Eq.
    injection Hex as <- <-. rewrite count_end_write_app in Hc0.
    pose proof (count_end_write_nonneg ep). pose proof (count_end_write_nonneg eq_).
    pose proof (exec_base _ _ _ _ HI' Ep) as Hbp. rewrite Hv', Hbl in Hbp.
    replace (count_end_write ep) with 0 in Hbp by lia. rewrite Z.add_0_r, wrap32_id in Hbp by auto.
    cbn [fst]. unfold base in Hbp. destruct (Z.odd (s_version stp)); lia.
Qed.

(** *** The phase tag [Writing] is the write phase of the atomic-operation trace *)

Definition is_w (st : state) (t : nat) : bool :=
  match client_at st t with Some c => is_writing c | None => false end.

Lemma step_holds st t0 st' rs a t :
  step st t0 = Some (st', rs) -> step_atomic st t0 = Some a ->
  holds_after t (is_w st t) (t0, a, s_version st) = is_w st' t.
Proof.
  intros H Ha. unfold holds_after. destruct (Nat.eqb_spec t t0) as [->|N].
  - destruct (step_inv _ _ _ _ H) as (c & c' & a' & F).
    assert (a' = a) by (pose proof (sf_atomic _ _ _ _ _ _ _ F); congruence). subst a'.
    unfold is_w. rewrite (client_at_step_same _ _ _ _ _ _ _ F), (sf_client _ _ _ _ _ _ _ F).
    pose proof (sf_writing _ _ _ _ _ _ _ F) as Fw.
    destruct a; destruct Fw as [W W']; rewrite ?W, W'; reflexivity.
  - unfold is_w. rewrite (client_at_step_other _ _ _ _ _ H (not_eq_sym N)). reflexivity.
Qed.

Lemma exec_holds st sched t :
  fold_left (holds_after t) (exec_ops st sched) (is_w st t) = is_w (fst (exec st sched)) t.
Proof.
  revert st; induction sched as [|t0 r IH]; intro st; cbn [exec exec_ops]; [reflexivity|].
  destruct (step st t0) as [[st' rs]|] eqn:E; [|apply IH].
  destruct (step_inv _ _ _ _ E) as (c & c' & a & F). rewrite (sf_atomic _ _ _ _ _ _ _ F).
  cbn [fold_left]. rewrite (step_holds _ _ _ _ _ t E (sf_atomic _ _ _ _ _ _ _ F)), IH.
  destruct (exec st' r). reflexivity.
Qed.

Theorem write_phase_spec v0 scripts sched t :
  phase_of (fst (run_from v0 scripts sched)) t = Writing <->
  holds_write t (exec_ops (init v0 scripts) sched) = true.
Proof.
  unfold holds_write, run_from.
  assert (H0 : is_w (init v0 scripts) t = false).
  { unfold is_w, client_at, init. cbn [s_clients]. rewrite nth_error_map.
    destruct (nth_error scripts t); [apply is_writing_fresh|reflexivity]. }
  rewrite <- H0, exec_holds, phase_of_writing. unfold is_w.
  destruct (client_at (fst (exec (init v0 scripts) sched)) t) as [c|].
  - split; [intros (c0 & E & W); congruence | eauto].
  - split; [intros (c0 & E & _); discriminate | discriminate].
Qed.

(** *** While a client is in its write phase nobody else changes version or leases *)

Lemma other_not_writing st t t' c c' :
  Inv st -> t <> t' -> client_at st t = Some c -> is_writing c = true ->
  client_at st t' = Some c' -> is_writing c' = false.
Proof.
  intros [_ Hw] N Hc W Hc'. destruct (is_writing c') eqn:W'; [exfalso|reflexivity].
  pose proof (count_writing_ge2 _ _ _ _ _ N Hc W Hc' W') as H.
  unfold writers in Hw. rewrite Hw in H. destruct (Z.odd (s_version st)); simpl in H; lia.
Qed.

Lemma step_under_writer st t c t0 st' rs :
  Inv st -> client_at st t = Some c -> is_writing c = true -> t0 <> t ->
  step st t0 = Some (st', rs) ->
  s_version st' = s_version st /\ client_at st' t = Some c /\
  (forall t', lease_of st' t' = lease_of st t').
Proof.
  intros HI Hc W N H. destruct (step_inv _ _ _ _ H) as (c0 & c0' & a & F).
  pose proof (other_not_writing _ _ _ _ _ HI (not_eq_sym N) Hc W (sf_client _ _ _ _ _ _ _ F)) as W0.
  pose proof (writer_odd _ _ _ HI Hc W) as Hodd.
  pose proof (sf_writing _ _ _ _ _ _ _ F) as Fw.
  assert (Ha : a = ALoad \/ a = AFetchOr).
  { destruct a; auto; destruct Fw; congruence. }
  repeat split.
  - rewrite (sf_version _ _ _ _ _ _ _ F). destruct Ha as [-> | ->]; cbn [apply_atomic]; [reflexivity|].
    rewrite lor1, Hodd. reflexivity.
  - rewrite (client_at_step_other _ _ _ _ _ H N). exact Hc.
  - intro t'. destruct (Nat.eq_dec t0 t') as [<-|N'].
    + unfold lease_of. rewrite (client_at_step_same _ _ _ _ _ _ _ F), (sf_client _ _ _ _ _ _ _ F).
      destruct (sf_lease _ _ _ _ _ _ _ F) as [E|(_ & E & _)]; [exact E|congruence].
    + unfold lease_of. rewrite (client_at_step_other _ _ _ _ _ H N'). reflexivity.
Qed.

Lemma exec_under_writer st t c s :
  Inv st -> client_at st t = Some c -> is_writing c = true -> ~ In t s ->
  s_version (fst (exec st s)) = s_version st /\ client_at (fst (exec st s)) t = Some c /\
  (forall t', lease_of (fst (exec st s)) t' = lease_of st t').
Proof.
  revert st; induction s as [|t0 r IH]; intros st HI Hc W Hn; cbn [exec].
  - auto.
  - assert (N : t0 <> t) by (intro; apply Hn; left; assumption).
    assert (Hn' : ~ In t r) by (intro; apply Hn; right; assumption).
    destruct (step st t0) as [[st' rs]|] eqn:E; [|apply IH; auto].
    destruct (step_under_writer _ _ _ _ _ _ HI Hc W N E) as (Hv & Hc' & Hl).
    destruct (IH st' (step_Inv _ _ _ _ HI E) Hc' W Hn') as (Hv2 & Hc2 & Hl2).
    destruct (exec st' r) as [stf evs]. cbn [fst] in *.
    repeat split; [congruence | assumption | intro t'; rewrite Hl2; apply Hl].
Qed.

(** *** abort_write restores the version every outstanding lease was taken from *)
Theorem abort_restores v0 scripts s1 t s2 st0 st1 r1 st2 st3 r3 :
  in_range32 v0 -> Z.odd v0 = false ->
  st0 = fst (run_from v0 scripts s1) ->
  step st0 t = Some (st1, r1) -> phase_of st0 t <> Writing -> phase_of st1 t = Writing ->
  ~ In t s2 -> st2 = fst (exec st1 s2) ->
  step st2 t = Some (st3, r3) -> step_atomic st2 t = Some AFetchSub ->
  s_version st1 = s_version st0 + 1 /\ s_version st2 = s_version st0 + 1 /\
  s_version st3 = s_version st0 /\
  (forall t', lease_of st3 t' = lease_of st0 t') /\
  (forall t', lease_of st0 t' = s_version st0 -> lease_of st3 t' = s_version st3).
Proof.
  intros Hr He -> H1 Hp0 Hp1 Hn -> H3 Ha3.
  assert (HI : Inv (fst (run_from v0 scripts s1))) by (apply exec_Inv, init_Inv; assumption).
  set (st0 := fst (run_from v0 scripts s1)) in *.
  destruct (step_inv _ _ _ _ H1) as (c & c' & a & F).
  pose proof (client_at_step_same _ _ _ _ _ _ _ F) as Hc1.
  assert (W0 : is_writing c = false).
  { destruct (is_writing c) eqn:W; [exfalso|reflexivity]. apply Hp0, phase_of_writing.
    exists c. split; [exact (sf_client _ _ _ _ _ _ _ F)|exact W]. }
  assert (W1 : is_writing c' = true).
  { apply phase_of_writing in Hp1 as (c1 & Hc1' & W). congruence. }
  pose proof (sf_writing _ _ _ _ _ _ _ F) as Fw.
  assert (Ha : a = AFetchOr /\ Z.odd (s_version st0) = false).
  { destruct a; destruct Fw as [Wa Wb]; try congruence. split; [reflexivity|].
    rewrite W1 in Wb. destruct (Z.odd (s_version st0)); [discriminate|reflexivity]. }
  destruct Ha as [-> Hev].
  assert (Hv1 : s_version st1 = s_version st0 + 1).
  { rewrite (sf_version _ _ _ _ _ _ _ F). cbn [apply_atomic]. rewrite lor1, Hev. reflexivity. }
  assert (Hl1 : forall t', lease_of st1 t' = lease_of st0 t').
  { intro t'. destruct (Nat.eq_dec t t') as [<-|N'].
    - unfold lease_of. rewrite Hc1, (sf_client _ _ _ _ _ _ _ F).
      destruct (sf_lease _ _ _ _ _ _ _ F) as [E|(E & _)]; [exact E|discriminate].
    - unfold lease_of. rewrite (client_at_step_other _ _ _ _ _ H1 N'). reflexivity. }
  pose proof (step_Inv _ _ _ _ HI H1) as HI1.
  destruct (exec_under_writer _ _ _ _ HI1 Hc1 W1 Hn) as (Hv2 & Hc2 & Hl2).
  set (st2 := fst (exec st1 s2)) in *.
  destruct (step_inv _ _ _ _ H3) as (c3 & c3' & a3 & F3).
  assert (a3 = AFetchSub) by (pose proof (sf_atomic _ _ _ _ _ _ _ F3); congruence). subst a3.
  assert (Hv3 : s_version st3 = s_version st0).
  { rewrite (sf_version _ _ _ _ _ _ _ F3). cbn [apply_atomic]. rewrite Hv2, Hv1.
    replace (s_version st0 + 1 - 1) with (s_version st0) by lia. apply wrap32_id, HI. }
  assert (Hl3 : forall t', lease_of st3 t' = lease_of st0 t').
  { intro t'. rewrite <- Hl1, <- Hl2. destruct (Nat.eq_dec t t') as [<-|N'].
    - unfold lease_of. rewrite (client_at_step_same _ _ _ _ _ _ _ F3), (sf_client _ _ _ _ _ _ _ F3).
      destruct (sf_lease _ _ _ _ _ _ _ F3) as [E|(E & _)]; [exact E|discriminate].
    - unfold lease_of. rewrite (client_at_step_other _ _ _ _ _ H3 N'). reflexivity. }
  repeat split; auto; try congruence.
Qed.

(** *** No spinning without a writer *)

Lemma client_measure_bound c : (client_measure c <= 5 * length (c_script c))%nat.
Proof. unfold client_measure. lia. Qed.

(** A step that leaves the client where it was (a spin of start_read / start_write) happens
    only while version is odd, i.e. while some *other* client is in its write phase. *)
Theorem spin_only_under_writer v0 st t st' rs :
  in_range32 v0 -> Z.odd v0 = false -> reachable_from v0 st ->
  step st t = Some (st', rs) -> client_at st' t = client_at st t ->
  rs = [] /\ Z.odd (s_version st) = true /\ exists t', t' <> t /\ phase_of st t' = Writing.
Proof.
  intros Hr He Hre H Hsame. pose proof (reachable_Inv _ _ Hr He Hre) as HI.
  destruct (step_inv _ _ _ _ H) as (c & c' & a & F).
  rewrite (client_at_step_same _ _ _ _ _ _ _ F), (sf_client _ _ _ _ _ _ _ F) in Hsame.
  injection Hsame as Hsame. destruct (sf_spin _ _ _ _ _ _ _ F Hsame) as (Hodd & W & Hrs).
  repeat split; auto.
  destruct (count_writing_pos_ex (s_clients st)) as (t' & cw & Hcw & Ww).
  { destruct HI as [_ Hw]. unfold writers in Hw. rewrite Hw, Hodd. simpl. lia. }
  exists t'. split.
  - intros ->. pose proof (sf_client _ _ _ _ _ _ _ F) as Hc. unfold client_at in Hc. congruence.
  - apply phase_of_writing. exists cw. auto.
Qed.

(** If no other client is in a write phase, every step of [t] makes progress (the measure, at
    most 5 per block of the script, strictly decreases) and completes a method call in one
    attempt -- the only step that does not complete a call is the fetch_or of
    try_upgrade_to_write with a stale lease, after which [t] itself holds the write bit and its
    next step (the fetch_sub of the internal abort_write) completes the call unconditionally. *)
Theorem no_spin_without_writer v0 st t st' rs :
  in_range32 v0 -> Z.odd v0 = false -> reachable_from v0 st ->
  (forall t', t' <> t -> phase_of st t' <> Writing) ->
  step st t = Some (st', rs) ->
  exists c c', client_at st t = Some c /\ client_at st' t = Some c' /\
    (client_measure c' < client_measure c)%nat /\
    (rs <> [] \/
     (phase_of st' t = Writing /\ step_atomic st' t = Some AFetchSub /\
      forall st2 st3 rs3, client_at st2 t = Some c' -> step st2 t = Some (st3, rs3) ->
                          rs3 = [(MTryUpgrade, RBool false)])).
Proof.
  intros Hr He Hre Hno H. pose proof (reachable_Inv _ _ Hr He Hre) as HI.
  destruct (step_inv _ _ _ _ H) as (c & c' & a & F).
  pose proof (client_at_step_same _ _ _ _ _ _ _ F) as Hc'.
  exists c, c'. split; [exact (sf_client _ _ _ _ _ _ _ F)|]. split; [exact Hc'|].
  assert (Hpre : Z.odd (s_version st) = false \/ is_writing c = true).
  { destruct (Z.odd (s_version st)) eqn:Hodd; [right|left; reflexivity].
    destruct (count_writing_pos_ex (s_clients st)) as (t' & cw & Hcw & Ww).
    { destruct HI as [_ Hw]. unfold writers in Hw. rewrite Hw, Hodd. simpl. lia. }
    destruct (Nat.eq_dec t' t) as [->|N].
    - pose proof (sf_client _ _ _ _ _ _ _ F) as Hc. unfold client_at in Hc. congruence.
    - exfalso. apply (Hno t' N). apply phase_of_writing. exists cw. auto. }
  destruct (sf_progress _ _ _ _ _ _ _ F Hpre) as [Hm [Hrs|(e & rest & Ec)]].
  - split; [exact Hm|left; exact Hrs].
  - split; [exact Hm|right]. subst c'. repeat split.
    + unfold phase_of. rewrite Hc'. reflexivity.
    + unfold step_atomic. rewrite Hc'. reflexivity.
    + intros st2 st3 rs3 Hc2 H2. unfold step in H2. rewrite Hc2 in H2. cbn in H2.
      injection H2 as _ <-. reflexivity.
Qed.

(** ** Soundness of the explorer's closure check *)

Lemma list_eqb_sound {A} (eqb : A -> A -> bool) :
  (forall x y, eqb x y = true -> x = y) -> forall a b, list_eqb eqb a b = true -> a = b.
Proof.
  intros He a; induction a as [|x a IH]; intros [|y b]; cbn [list_eqb]; intro H; try discriminate; auto.
  apply andb_true_iff in H as [H1 H2]. f_equal; auto.
Qed.

Lemma block_eqb_sound a b : block_eqb a b = true -> a = b.
Proof.
  destruct a, b; cbn; intro H; try discriminate; auto; apply eqb_prop in H; congruence.
Qed.

Lemma client_eqb_sound a b : client_eqb a b = true -> a = b.
Proof.
  destruct a as [s1 p1 l1], b as [s2 p2 l2]. unfold client_eqb. cbn [c_script c_pc c_lease].
  rewrite !andb_true_iff. intros [[H1 H2] H3].
  apply Nat.eqb_eq in H1. apply Z.eqb_eq in H2. apply (list_eqb_sound _ block_eqb_sound) in H3.
  congruence.
Qed.

Lemma state_eqb_sound a b : state_eqb a b = true -> a = b.
Proof.
  destruct a as [v1 c1], b as [v2 c2]. unfold state_eqb. cbn [s_version s_clients].
  rewrite andb_true_iff. intros [H1 H2].
  apply Z.eqb_eq in H1. apply (list_eqb_sound _ client_eqb_sound) in H2. congruence.
Qed.

Lemma mon_eqb_sound a b : mon_eqb a b = true -> a = b.
Proof.
  destruct a as [d1 s1], b as [d2 s2]. unfold mon_eqb. cbn [m_done m_snap].
  rewrite andb_true_iff. intros [H1 H2].
  apply Z.eqb_eq in H1. apply (list_eqb_sound Z.eqb (fun x y => proj1 (Z.eqb_eq x y))) in H2. congruence.
Qed.

Lemma xmem_In x V : xmem x V = true -> In x V.
Proof.
  unfold xmem. intro H. apply existsb_exists in H as (y & Hin & He).
  unfold xstate_eqb in He. apply andb_true_iff in He as [H1 H2].
  apply state_eqb_sound in H1. apply mon_eqb_sound in H2.
  destruct x, y. cbn [fst snd] in *. subst. exact Hin.
Qed.

Lemma step_tid_bound st t st' rs : step st t = Some (st', rs) -> (t < length (s_clients st))%nat.
Proof.
  unfold step, client_at. intro H. apply nth_error_Some. destruct (nth_error (s_clients st) t); congruence.
Qed.

Lemma xsuccs_complete st m t st' rs :
  step st t = Some (st', rs) ->
  In ((st', fst (mon_step st m t st' rs)), snd (mon_step st m t st' rs)) (xsuccs (st, m)).
Proof.
  intro H. unfold xsuccs. apply in_flat_map. exists t. split.
  - apply in_seq. pose proof (step_tid_bound _ _ _ _ H). cbn [fst]. lia.
  - cbn [fst snd]. rewrite H. unfold mon_step. left. reflexivity.
Qed.

(** If [V] passes the closure check, the monitor accepts every schedule from every node of [V]. *)
Lemma closed_check_sound V :
  closed_check V = true -> forall sched st m, In (st, m) V -> mon_exec st m sched = true.
Proof.
  intros HC. induction sched as [|t r IH]; intros st m Hin; cbn [mon_exec]; [reflexivity|].
  destruct (step st t) as [[st' rs]|] eqn:E; [|auto].
  pose proof (xsuccs_complete st m t st' rs E) as Hs.
  unfold closed_check in HC. rewrite forallb_forall in HC. specialize (HC _ Hin).
  rewrite forallb_forall in HC. specialize (HC _ Hs). cbn [fst snd] in HC.
  apply andb_true_iff in HC as [Hok Hmem].
  destruct (mon_step st m t st' rs) as [m' ok]. cbn [fst snd] in *. subst ok.
  apply xmem_In in Hmem. cbn [andb]. auto.
Qed.

Lemma explore_ok_sound fuel v0 scripts :
  explore_ok fuel v0 scripts = true -> forall sched, mon_ok v0 scripts sched = true.
Proof.
  unfold explore_ok, mon_ok. cbn [fst]. intros H sched.
  apply andb_true_iff in H as [H0 H]. rewrite H0. cbn [andb].
  destruct (explore_loop fuel _ _) as [V|]; [|discriminate].
  apply andb_true_iff in H as [Hm Hc]. apply (closed_check_sound V Hc). apply xmem_In, Hm.
Qed.

(** What the monitor's verdict says about the states of the run. *)
Lemma state_ok_spec st :
  state_ok st = true <->
  (writers st <= 1)%nat /\ (Z.odd (s_version st) = true <-> writers st = 1%nat).
Proof.
  unfold state_ok. rewrite andb_true_iff, Nat.leb_le, eqb_true_iff.
  destruct (Z.odd (s_version st)); destruct (Nat.eqb_spec (writers st) 1); intuition congruence.
Qed.

Lemma mon_exec_states st m sched :
  mon_exec st m sched = true -> state_ok st = true ->
  forall p q, sched = p ++ q -> state_ok (fst (exec st p)) = true.
Proof.
  revert st m; induction sched as [|t r IH]; intros st m H H0 p q E.
  - destruct p; [exact H0|discriminate].
  - destruct p as [|t' p]; [exact H0|]. cbn [app] in E. injection E as <- ->.
    cbn [mon_exec exec] in *. destruct (step st t) as [[st' rs]|]; [|eauto].
    unfold mon_step in H. apply andb_true_iff in H as [H1 H2]. apply andb_true_iff in H1 as [_ H1].
    specialize (IH _ _ H2 H1 p q eq_refl). destruct (exec st' p). exact IH.
Qed.

Lemma mon_ok_states v0 scripts sched :
  mon_ok v0 scripts sched = true ->
  forall p q, sched = p ++ q ->
    let st := fst (run_from v0 scripts p) in
    (writers st <= 1)%nat /\ (Z.odd (s_version st) = true <-> writers st = 1%nat).
Proof.
  unfold mon_ok. intro H. apply andb_true_iff in H as [H0 H]. intros p q E.
  apply state_ok_spec. eapply mon_exec_states; eauto.
Qed.

Lemma all_blocks_complete b : In b all_blocks.
Proof. destruct b as [|[]|[]|[]]; cbn; tauto. Qed.

Lemma configs3_complete b0 b1 b2 : In [[b0]; [b1]; [b2]] configs3.
Proof.
  unfold configs3. apply in_flat_map. exists b0. split; [apply all_blocks_complete|].
  apply in_flat_map. exists b1. split; [apply all_blocks_complete|].
  apply in_map_iff. exists b2. split; [reflexivity|apply all_blocks_complete].
Qed.

Lemma configs2x2_complete a0 a1 b0 b1 : In [[a0; a1]; [b0; b1]] configs2x2.
Proof.
  assert (H : forall x y, In [x; y] scripts2).
  { intros x y. unfold scripts2. apply in_flat_map. exists x. split; [apply all_blocks_complete|].
    apply in_map_iff. exists y. split; [reflexivity|apply all_blocks_complete]. }
  unfold configs2x2. apply in_flat_map. exists [a0; a1]. split; [apply H|].
  apply in_map_iff. exists [b0; b1]. split; [reflexivity|apply H].
Qed.

(** *** Bounded exhaustive check: 3 clients x 1 block each (all 7^3 choices of blocks), from
    version 0, from 2^31-2 (the version wraps to -2^31 during the run) and from -2; ALL
    schedules (of any length, spinning included). *)
Lemma explore_configs3 :
  forallb (fun v0 => forallb (explore_ok explore_fuel v0) configs3) [0; 2 ^ 31 - 2; -2] = true.
Proof. vm_cast_no_check (eq_refl true). Qed.

Theorem lock_bounded_exhaustive :
  forall (v0 : Z) (b0 b1 b2 : block) (sched : list nat),
    In v0 [0; 2 ^ 31 - 2; -2] ->
    mon_ok v0 [[b0]; [b1]; [b2]] sched = true.
Proof.
  intros v0 b0 b1 b2 sched Hv. pose proof explore_configs3 as H.
  rewrite forallb_forall in H. specialize (H _ Hv). rewrite forallb_forall in H.
  apply (explore_ok_sound explore_fuel), H, configs3_complete.
Qed.

(** ... and 2 clients x 2 blocks each (all 7^4 choices), from version 0, all schedules. *)
Lemma explore_configs2x2 : forallb (explore_ok explore_fuel 0) configs2x2 = true.
Proof. vm_cast_no_check (eq_refl true). Qed.

Theorem lock_bounded_exhaustive_2x2 :
  forall (a0 a1 b0 b1 : block) (sched : list nat),
    mon_ok 0 [[a0; a1]; [b0; b1]] sched = true.
Proof.
  intros. pose proof explore_configs2x2 as H. rewrite forallb_forall in H.
  apply (explore_ok_sound explore_fuel), H, configs2x2_complete.
Qed.

(** ** The monitor accepts every run (unbounded clients, scripts and schedules) *)

Lemma c_phase_fresh rest l : c_phase (mkClient rest 0 l) = Idle.
Proof. destruct rest as [|[]]; reflexivity. Qed.

(** Further facts about one step, needed only for the monitor. *)
Record step_facts2 (st : state) (t : nat) (st' : state) (rs : list reply)
                   (c c' : client) (a : atomic) : Prop := {
  sg_client : client_at st t = Some c;
  sg_clients : s_clients st' = set_nth t c' (s_clients st);
  sg_atomic : step_atomic st t = Some a;
  sg_valid_reading : forall m, In (m, RBool true) rs ->
    m = MValidate \/ m = MEndRead \/ m = MTryUpgrade -> c_phase c = Reading;
  sg_reading : c_phase c' = Reading ->
    (c_phase c = Reading /\ c_lease c' = c_lease c) \/ rs = [(MStartRead, RLease (s_version st))];
  sg_shape : rs = [] \/ exists mth r, rs = [(mth, r)] /\
    (mth = MEndWrite <-> a = AFetchAdd) /\
    (mth = MStartRead -> r = RLease (s_version st) /\ Z.odd (s_version st) = false /\
                         c_lease c' = s_version st /\ c_phase c <> Reading)
}.

Lemma step_inv2 st t st' rs :
  step st t = Some (st', rs) -> exists c c' a, step_facts2 st t st' rs c c' a.
Proof.
  unfold step. destruct (client_at st t) as [c|] eqn:Hc; [|discriminate].
  destruct c as [[|b rest] pc lease]; cbn [c_script c_pc c_lease]; [discriminate|].
  destruct (advance b rest pc lease (s_version st)) as [c' rs0] eqn:Hadv.
  intro H. injection H as <- <-.
  exists (mkClient (b :: rest) pc lease), c', (next_atomic b pc).
  assert (Hat : step_atomic st t = Some (next_atomic b pc)) by (unfold step_atomic; rewrite Hc; reflexivity).
  destruct b as [|e|e|e]; destruct pc as [|[|[|pc]]];
    cbn [advance adv_start_read adv_release] in Hadv; unfold adv_start_read, adv_release in Hadv;
    rewrite ?low_bit_odd in Hadv;
    try (destruct (Z.odd (s_version st)) eqn:Eo); try (destruct (lease =? s_version st) eqn:El);
    injection Hadv as <- <-;
    try (destruct e);
    (constructor; rewrite ?c_phase_fresh; cbn -[Z.odd Z.eqb];
     [ assumption | reflexivity | assumption
     | (intros m H Hm; in_cases H; try discriminate H; injection H; intros; subst;
        try (destruct Hm as [Hm|[Hm|Hm]]; discriminate Hm); reflexivity)
     | (intro H; first [discriminate H | left; split; reflexivity | right; reflexivity])
     | first [ left; reflexivity
             | right; do 2 eexists; split; [reflexivity|]; split;
               [ split; intro X; first [discriminate X | reflexivity]
               | intro X; first [discriminate X | repeat split; auto; discriminate] ] ] ]).
Qed.

Lemma nth_set_nth_eq {A} (l : list A) t x d : (t < length l)%nat -> nth t (set_nth t x l) d = x.
Proof. revert t; induction l as [|y l IH]; intros [|t] H; simpl in *; try lia; auto. apply IH. lia. Qed.

Lemma nth_set_nth_neq {A} (l : list A) t t' x d : t <> t' -> nth t' (set_nth t x l) d = nth t' l d.
Proof.
  revert t t'; induction l as [|y l IH]; intros [|t] [|t'] H; simpl; auto; try congruence.
Qed.

Lemma wrap32_inj_bounded a x y :
  0 <= x <= y -> y < 2 ^ 31 -> wrap32 (a + 2 * x) = wrap32 (a + 2 * y) -> x = y.
Proof. unfold wrap32. intros Hx Hy H. Z.div_mod_to_equations. lia. Qed.

Lemma wrap32_even_offset v0 k : Z.odd (wrap32 (v0 + 2 * k)) = Z.odd v0.
Proof. rewrite wrap32_odd. apply Z.odd_add_mul_2. Qed.

Lemma Inv_state_ok st : Inv st -> state_ok st = true.
Proof.
  intros [_ Hw]. apply state_ok_spec. rewrite Hw. destruct (Z.odd (s_version st)); simpl; split; try lia;
    split; congruence.
Qed.

Definition snap_of (m : mon) (t : nat) : Z := nth t (m_snap m) (-1).

(** Invariant tying the monitor's counters to the model state: the stable part of version is
    [v0 + 2 * m_done] (mod 2^32) and every lease in use is [v0 + 2 * snapshot] (mod 2^32). *)
Definition MInv (v0 : Z) (st : state) (m : mon) : Prop :=
  Inv st /\ 0 <= m_done m /\
  base (s_version st) = wrap32 (v0 + 2 * m_done m) /\
  length (m_snap m) = length (s_clients st) /\
  forall t c, client_at st t = Some c -> c_phase c = Reading ->
    0 <= snap_of m t <= m_done m /\ c_lease c = wrap32 (v0 + 2 * snap_of m t).

Lemma facts_agree st t st' rs c c' a d d' a2 :
  step_facts st t st' rs c c' a -> step_facts2 st t st' rs d d' a2 -> d = c /\ d' = c' /\ a2 = a.
Proof.
  intros F G. pose proof (sf_client _ _ _ _ _ _ _ F) as H1. pose proof (sg_client _ _ _ _ _ _ _ G) as H2.
  pose proof (sf_atomic _ _ _ _ _ _ _ F) as H3. pose proof (sg_atomic _ _ _ _ _ _ _ G) as H4.
  pose proof (client_at_step_same _ _ _ _ _ _ _ F) as H5.
  assert (H6 : client_at st' t = Some d').
  { unfold client_at. rewrite (sg_clients _ _ _ _ _ _ _ G). eapply nth_error_set_nth_eq. exact H2. }
  repeat split; congruence.
Qed.

Lemma MInv_step v0 st m t st' rs c c' a m' :
  Z.odd v0 = false -> MInv v0 st m -> step st t = Some (st', rs) ->
  step_facts st t st' rs c c' a -> step_facts2 st t st' rs c c' a ->
  m_done m' = m_done m + count_end_write (tag t rs) ->
  length (m_snap m') = length (m_snap m) ->
  (forall t', t' <> t -> snap_of m' t' = snap_of m t') ->
  (snap_of m' t = snap_of m t /\ rs <> [(MStartRead, RLease (s_version st))]) \/
  (rs = [(MStartRead, RLease (s_version st))] /\ snap_of m' t = m_done m /\
   Z.odd (s_version st) = false /\ c_lease c' = s_version st) ->
  MInv v0 st' m'.
Proof.
  intros He (HI & Hd & Hb & Hlen & Hs) H F G Hdone Hl Hother Hself.
  pose proof (count_end_write_nonneg (tag t rs)) as Hcnt.
  split; [exact (step_Inv _ _ _ _ HI H)|]. split; [lia|]. split; [|split].
  - rewrite (step_base _ _ _ _ HI H), Hb, wrap32_add_l, Hdone. f_equal. lia.
  - rewrite Hl, Hlen, (sf_clients _ _ _ _ _ _ _ F), length_set_nth. reflexivity.
  - intros t2 c2 Hc2 Hr2. destruct (Nat.eq_dec t2 t) as [->|N].
    + rewrite (client_at_step_same _ _ _ _ _ _ _ F) in Hc2. injection Hc2 as <-.
      destruct Hself as [[Hsn Hnsr]|(Hrs & Hsn & Hev & Hle)].
      * destruct (sg_reading _ _ _ _ _ _ _ G Hr2) as [[Hrc Hlc]|Hrs]; [|contradiction].
        destruct (Hs _ _ (sf_client _ _ _ _ _ _ _ F) Hrc) as [Hb1 Hb2].
        rewrite Hsn, Hlc. split; [lia|exact Hb2].
      * rewrite Hsn, Hle. split; [rewrite Hrs in Hdone; cbn in Hdone; lia|].
        rewrite <- Hb. unfold base. rewrite Hev. reflexivity.
    + rewrite (client_at_step_other _ _ _ _ _ H (not_eq_sym N)) in Hc2.
      destruct (Hs _ _ Hc2 Hr2) as [Hb1 Hb2]. rewrite (Hother _ N). split; [lia|exact Hb2].
Qed.

Lemma reply_ok_default st m t mth r :
  (r <> RBool true \/ (mth <> MValidate /\ mth <> MEndRead /\ mth <> MTryUpgrade)) ->
  reply_ok st m t (mth, r) = true.
Proof.
  intros [H|(H1 & H2 & H3)].
  - destruct mth, r as [l|[]|]; try reflexivity; congruence.
  - destruct mth, r as [l|[]|]; try reflexivity; congruence.
Qed.


Lemma response_eq_true r : r = RBool true \/ r <> RBool true.
Proof. destruct r as [l|[]|]; auto; right; discriminate. Qed.

Lemma method_validating mth :
  (mth = MValidate \/ mth = MEndRead \/ mth = MTryUpgrade) \/
  (mth <> MValidate /\ mth <> MEndRead /\ mth <> MTryUpgrade).
Proof. destruct mth; auto; right; repeat split; discriminate. Qed.

Definition method_is_end_write (mth : method) : bool :=
  match mth with MEndWrite => true | _ => false end.

Lemma mon_step_ok v0 st m t st' rs :
  Z.odd v0 = false -> MInv v0 st m -> step st t = Some (st', rs) ->
  m_done m + count_end_write (tag t rs) < 2 ^ 31 ->
  snd (mon_step st m t st' rs) = true /\ MInv v0 st' (fst (mon_step st m t st' rs)) /\
  m_done (fst (mon_step st m t st' rs)) = m_done m + count_end_write (tag t rs).
Proof.
  intros He HM H Hlt.
  destruct (step_inv _ _ _ _ H) as (c & c' & a & F). destruct (step_inv2 _ _ _ _ H) as (d & d' & a2 & G).
  destruct (facts_agree _ _ _ _ _ _ _ _ _ _ F G) as (-> & -> & ->).
  pose proof (count_end_write_nonneg (tag t rs)) as Hcnt.
  pose proof HM as (HI & Hd & Hb & Hlen & Hs).
  unfold mon_step. cbn [fst snd]. split; [|].
  { (* verdict *)
    apply andb_true_iff. split; [|apply Inv_state_ok, (step_Inv _ _ _ _ HI H)].
    apply forallb_forall. intros [mth r] Hin.
    destruct (response_eq_true r) as [->|Hr]; [|apply reply_ok_default; left; exact Hr].
    destruct (method_validating mth) as [Hm|Hm]; [|apply reply_ok_default; right; exact Hm].
    pose proof (sg_valid_reading _ _ _ _ _ _ _ G mth Hin Hm) as Hrc.
    pose proof (sf_valid _ _ _ _ _ _ _ F mth Hin Hm) as Hlv.
    destruct (Hs _ _ (sf_client _ _ _ _ _ _ _ F) Hrc) as [Hb1 Hb2].
    assert (Hev : Z.odd (s_version st) = false).
    { rewrite <- Hlv, Hb2, wrap32_even_offset. exact He. }
    assert (Hsd : snap_of m t = m_done m).
    { apply (wrap32_inj_bounded v0); [lia|lia|]. rewrite <- Hb2, <- Hb, Hlv. unfold base. rewrite Hev. reflexivity. }
    assert (Hw0 : writers st = 0%nat). { destruct HI as [_ Hw]. rewrite Hw, Hev. reflexivity. }
    assert (E : reply_ok st m t (mth, RBool true) = ((snap_of m t =? m_done m) && (writers st =? 0)%nat)).
    { destruct Hm as [->|[->| ->]]; reflexivity. }
    rewrite E, Hsd, Hw0, Z.eqb_refl. reflexivity. }
  assert (Htl : (t < length (m_snap m))%nat).
  { rewrite Hlen. exact (step_tid_bound _ _ _ _ H). }
  destruct (sg_shape _ _ _ _ _ _ _ G) as [->|(mth & r & -> & Hew & Hsr)].
  { (* no call completed *)
    cbn [fold_left tag map count_end_write]. split; [|lia].
    eapply MInv_step; eauto; try (cbn; lia). left. split; [reflexivity|discriminate]. }
  cbn [fold_left].
  assert (Hc : count_end_write (tag t [(mth, r)]) = if method_is_end_write mth then 1 else 0).
  { destruct mth; reflexivity. }
  destruct mth; cbn [mon_update method_is_end_write] in *;
    try (split; [eapply MInv_step; eauto; try (rewrite Hc; lia);
                 left; split; [reflexivity|discriminate] | rewrite Hc; lia]).
  - (* start_read *)
    destruct (Hsr eq_refl) as (-> & Hev & Hle & Hnr).
    split; [|cbn [m_done]; rewrite Hc; lia].
    eapply MInv_step; eauto.
    + cbn [m_done]. rewrite Hc. lia.
    + cbn [m_snap]. apply length_set_nth.
    + intros t' N. unfold snap_of. cbn [m_snap]. apply nth_set_nth_neq. congruence.
    + right. repeat split; auto. unfold snap_of. cbn [m_snap m_done]. apply nth_set_nth_eq, Htl.
  - (* end_write *)
    split; [|cbn [m_done]; rewrite Hc; lia].
    eapply MInv_step; eauto. left. split; [reflexivity|discriminate].
Qed.

Lemma mon_exec_ok v0 sched : forall st m,
  Z.odd v0 = false -> MInv v0 st m ->
  m_done m + count_end_write (snd (exec st sched)) < 2 ^ 31 ->
  mon_exec st m sched = true.
Proof.
  induction sched as [|t r IH]; intros st m He HM Hlt; cbn [mon_exec exec] in *; [reflexivity|].
  destruct (step st t) as [[st' rs]|] eqn:E; [|apply IH; assumption].
  destruct (exec st' r) as [stf evs] eqn:Ex. cbn [snd] in Hlt. rewrite count_end_write_app in Hlt.
  pose proof (count_end_write_nonneg evs) as Hnn.
  destruct (mon_step_ok v0 _ _ _ _ _ He HM E) as (Hok & HM' & Hd'); [lia|].
  destruct (mon_step st m t st' rs) as [m' ok]. cbn [fst snd] in *. subst ok. cbn [andb].
  apply IH; auto. rewrite Ex. cbn [snd]. lia.
Qed.

Lemma MInv_init v0 scripts :
  in_range32 v0 -> Z.odd v0 = false -> MInv v0 (init v0 scripts) (mon_init (length scripts)).
Proof.
  intros Hr He. split; [apply init_Inv; assumption|]. cbn [mon_init m_done m_snap]. split; [lia|].
  split; [|split].
  - cbn [init s_version]. unfold base. rewrite He, Z.add_0_r, wrap32_id; auto.
  - cbn [init s_clients]. rewrite repeat_length, map_length. reflexivity.
  - intros t c Hc Hp. unfold client_at, init in Hc. cbn [s_clients] in Hc.
    rewrite nth_error_map in Hc. destruct (nth_error scripts t); [|discriminate].
    injection Hc as <-. rewrite c_phase_fresh in Hp. discriminate.
Qed.

(** The monitor (the one evaluated by the driver and by the bounded exhaustive check) accepts
    every run of the model in which fewer than 2^31 end_write calls complete. *)
Theorem monitor_accepts_all_runs v0 scripts sched :
  in_range32 v0 -> Z.odd v0 = false ->
  count_end_write (snd (run_from v0 scripts sched)) < 2 ^ 31 ->
  mon_ok v0 scripts sched = true.
Proof.
  intros Hr He Hlt. unfold mon_ok. rewrite (Inv_state_ok _ (init_Inv _ _ Hr He)). cbn [andb].
  apply (mon_exec_ok v0); auto. apply MInv_init; assumption.
Qed.

(** ** Without the bound on completed writes the validation clause is false (ABA) *)

(** Client 1 performs [n] complete write phases back to back. *)
Definition writes (n : nat) : script := repeat (BWrite true) n.
Fixpoint sched_writes (n : nat) : list nat :=
  match n with O => [] | S k => 1%nat :: 1%nat :: sched_writes k end.

Lemma step_start_write_even v c0 rest l :
  Z.odd v = false ->
  step (mkState v [c0; mkClient (BWrite true :: rest) 0 l]) 1 =
  Some (mkState (v + 1) [c0; mkClient (BWrite true :: rest) 1 l], [(MStartWrite, RUnit)]).
Proof.
  intro H. unfold step, client_at.
  cbn [s_clients nth_error c_script c_pc c_lease s_version advance next_atomic apply_atomic].
  rewrite low_bit_odd, H, lor1, H. reflexivity.
Qed.

Lemma step_end_write w c0 rest l :
  step (mkState w [c0; mkClient (BWrite true :: rest) 1 l]) 1 =
  Some (mkState (wrap32 (w + 1)) [c0; mkClient rest 0 l], [(MEndWrite, RUnit)]).
Proof. reflexivity. Qed.

Lemma exec_writes n : forall v c0 l,
  in_range32 v -> Z.odd v = false ->
  exists evs,
    exec (mkState v [c0; mkClient (writes n) 0 l]) (sched_writes n) =
      (mkState (wrap32 (v + 2 * Z.of_nat n)) [c0; mkClient [] 0 l], evs) /\
    count_end_write evs = Z.of_nat n /\
    (forall l', ~ In (0%nat, MStartRead, RLease l') evs).
Proof.
  induction n as [|n IH]; intros v c0 l Hr He.
  - exists []. cbn [exec writes repeat sched_writes count_end_write].
    replace (v + 2 * Z.of_nat 0) with v by lia. rewrite wrap32_id by exact Hr. auto.
  - unfold writes. cbn [repeat sched_writes exec]. fold (writes n).
    rewrite (step_start_write_even _ _ _ _ He). cbn [exec]. rewrite step_end_write.
    destruct (IH (wrap32 (v + 1 + 1)) c0 l) as (evs & E & Hc & Hn).
    { apply wrap32_range. }
    { rewrite wrap32_odd, !Z.odd_add, He. reflexivity. }
    rewrite E. eexists. split; [|split].
    + f_equal. f_equal. rewrite wrap32_add_l. f_equal. lia.
    + cbn [count_end_write tag map app is_end_write fst snd]. rewrite Hc, Nat2Z.inj_succ. lia.
    + intros l' H. cbn in H. destruct H as [H|[H|H]]; try discriminate H. exact (Hn l' H).
Qed.

Lemma aba_run n :
  wrap32 (2 * Z.of_nat n) = 0 ->
  exists st_i' st_j evs st_j',
    step (fst (run [[BRead]; writes n] [])) 0 = Some (st_i', [(MStartRead, RLease 0)]) /\
    exec st_i' (sched_writes n) = (st_j, evs) /\
    (forall l', ~ In (0%nat, MStartRead, RLease l') evs) /\
    step st_j 0 = Some (st_j', [(MValidate, RBool true)]) /\
    count_end_write evs = Z.of_nat n.
Proof.
  intro Hw.
  destruct (exec_writes n 0 (mkClient [BRead] 1 0) 0) as (evs & E & Hc & Hn).
  { unfold in_range32. lia. } { reflexivity. }
  exists (mkState 0 [mkClient [BRead] 1 0; mkClient (writes n) 0 0]).
  exists (mkState (wrap32 (0 + 2 * Z.of_nat n)) [mkClient [BRead] 1 0; mkClient [] 0 0]), evs.
  exists (mkState (wrap32 (0 + 2 * Z.of_nat n)) [mkClient [BRead] 2 0; mkClient [] 0 0]).
  split; [reflexivity|]. split; [exact E|]. split; [exact Hn|]. split; [|exact Hc].
  unfold step, client_at.
  cbn [s_clients nth_error c_script c_pc c_lease s_version advance next_atomic apply_atomic set_nth].
  rewrite Z.add_0_l, Hw. reflexivity.
Qed.

(** A validation succeeds although 2^31 write phases completed (by end_write) between the
    start_read that produced the lease and the validate: the 32-bit version is back at the
    lease's value. So the bound in [validate_sound] is necessary, and the unqualified sentence
    "validation succeeds only if no write phase overlapped the read phase" is false of the
    code as written (it needs 2^31 writes during one read phase, so it is of no practical
    concern). *)
Theorem validate_unbounded_refuted :
  exists scripts s1 t s2 st_i' l st_j evs st_j',
    step (fst (run scripts s1)) t = Some (st_i', [(MStartRead, RLease l)]) /\
    exec st_i' s2 = (st_j, evs) /\
    (forall l', ~ In (t, MStartRead, RLease l') evs) /\
    step st_j t = Some (st_j', [(MValidate, RBool true)]) /\
    count_end_write evs = 2 ^ 31.
Proof.
  assert (Hw : wrap32 (2 * Z.of_nat (Z.to_nat (2 ^ 31))) = 0).
  { rewrite Z2Nat.id by lia. apply (wrap32_returns 0). unfold in_range32. lia. }
  destruct (aba_run _ Hw) as (st_i' & st_j & evs & st_j' & H1 & H2 & H3 & H4 & H5).
  rewrite Z2Nat.id in H5 by lia.
  exists [[BRead]; writes (Z.to_nat (2 ^ 31))], [], 0%nat, (sched_writes (Z.to_nat (2 ^ 31))).
  exists st_i', 0, st_j, evs, st_j'. auto.
Qed.

(** ** Concrete runs (non-vacuity) *)

(** A reader whose read phase is overlapped by a complete write phase: validation fails. *)
Example ex_validate_fails_on_overlap :
  run [[BRead]; [BWrite true]] [0; 1; 1; 0; 0]%nat =
  (mkState 2 [mkClient [] 0 0; mkClient [] 0 0],
   [(0%nat, MStartRead, RLease 0); (1%nat, MStartWrite, RUnit); (1%nat, MEndWrite, RUnit);
    (0%nat, MValidate, RBool false); (0%nat, MEndRead, RBool false)]).
Proof. vm_compute. reflexivity. Qed.

(** The same schedule with an aborted write: the lease stays valid. While the writer holds the
    lock (third entry of the schedule) the reader's validate fails. *)
Example ex_abort_keeps_lease_valid :
  run [[BRead]; [BWrite false]] [0; 1; 0; 1; 0]%nat =
  (mkState 0 [mkClient [] 0 0; mkClient [] 0 0],
   [(0%nat, MStartRead, RLease 0); (1%nat, MStartWrite, RUnit); (0%nat, MValidate, RBool false);
    (1%nat, MAbortWrite, RUnit); (0%nat, MEndRead, RBool true)]).
Proof. vm_compute. reflexivity. Qed.

(** try_upgrade_to_write with a stale lease: two atomic steps (fetch_or 2->3, fetch_sub 3->2). *)
Example ex_upgrade_stale_lease :
  run [[BUpg true]; [BWrite true]] [0; 1; 1; 0; 0]%nat =
  (mkState 2 [mkClient [] 0 0; mkClient [] 0 0],
   [(0%nat, MStartRead, RLease 0); (1%nat, MStartWrite, RUnit); (1%nat, MEndWrite, RUnit);
    (0%nat, MTryUpgrade, RBool false)]) /\
  s_version (fst (run [[BUpg true]; [BWrite true]] [0; 1; 1; 0]%nat)) = 3 /\
  phase_of (fst (run [[BUpg true]; [BWrite true]] [0; 1; 1; 0]%nat)) 0 = Writing.
Proof. vm_compute. auto. Qed.

(** A spinning start_read: client 1 stays where it is while client 0 writes. *)
Example ex_spin :
  let st := fst (run [[BWrite true]; [BRead]] [0]%nat) in
  exists st', step st 1 = Some (st', []) /\ client_at st' 1 = client_at st 1 /\
              phase_of st 0 = Writing.
Proof. eexists. vm_compute. auto. Qed.

(** fetch_add wraps: from 2^31-2 a complete write ends at -2^31. *)
Example ex_wrap :
  s_version (fst (run_from (2 ^ 31 - 2) [[BWrite true]] [0; 0]%nat)) = - 2 ^ 31.
Proof. vm_compute. reflexivity. Qed.

(** The hypotheses of [validate_sound] are satisfiable (reader 0, an aborted write of client 1
    in between; conclusion: no end_write in between, version = lease = 0 at the validation). *)
Example ex_validate_sound_hyps :
  let st_i := fst (run_from 0 [[BRead]; [BWrite false]] []) in
  exists st_i' st_j st_j' evs,
    step st_i 0 = Some (st_i', [(MStartRead, RLease 0)]) /\
    exec st_i' [1; 1]%nat = (st_j, evs) /\
    (forall l', ~ In (0%nat, MStartRead, RLease l') evs) /\
    step st_j 0 = Some (st_j', [(MValidate, RBool true)]) /\
    count_end_write evs < 2 ^ 31.
Proof.
  do 4 eexists. split; [vm_compute; reflexivity|]. split; [vm_compute; reflexivity|].
  split; [|split; [vm_compute; reflexivity|vm_compute; reflexivity]].
  intros l' H. repeat (destruct H as [H|H]; [discriminate H|]). exact H.
Qed.

(** The hypotheses of [abort_restores] are satisfiable: client 0 holds lease 0, client 1 starts
    a write (s1 = [0], t = 1), client 0 validates meanwhile (s2 = [0]), client 1 aborts. *)
Example ex_abort_restores_hyps :
  let st0 := fst (run_from 0 [[BRead]; [BWrite false]] [0]%nat) in
  exists st1 r1 st3 r3,
    step st0 1 = Some (st1, r1) /\ phase_of st0 1 <> Writing /\ phase_of st1 1 = Writing /\
    ~ In 1%nat [0]%nat /\
    step (fst (exec st1 [0]%nat)) 1 = Some (st3, r3) /\
    step_atomic (fst (exec st1 [0]%nat)) 1 = Some AFetchSub /\
    lease_of st0 0 = s_version st0 /\ lease_of st3 0 = s_version st3.
Proof.
  do 4 eexists. split; [vm_compute; reflexivity|].
  repeat split; try (vm_compute; reflexivity); try (vm_compute; discriminate).
  intros [H|[]]; discriminate.
Qed.

(** ... and for the abort_write that try_upgrade_to_write performs itself. *)
Example ex_abort_restores_upgrade_hyps :
  let st0 := fst (run_from 0 [[BUpg true]; [BWrite true]] [0; 1; 1]%nat) in
  exists st1 st3,
    step st0 0 = Some (st1, []) /\ phase_of st0 0 <> Writing /\ phase_of st1 0 = Writing /\
    step st1 0 = Some (st3, [(MTryUpgrade, RBool false)]) /\
    step_atomic st1 0 = Some AFetchSub /\ s_version st0 = 2 /\ s_version st1 = 3 /\ s_version st3 = 2.
Proof.
  do 2 eexists. split; [vm_compute; reflexivity|].
  repeat split; try (vm_compute; reflexivity); try (vm_compute; discriminate).
Qed.

(** The monitor does reject runs of a broken lock: started from an odd version (a state no run
    reaches) the check "odd <-> one writer" fails at once. *)
Example ex_monitor_rejects : mon_ok 1 [[BRead]] [] = false.
Proof. vm_compute. reflexivity. Qed.

(* NOT PROVED: nothing of the C30 plan is left open in this file. Outside the model (hence outside
   every theorem here): the C++ memory orders (acquire / release / relaxed and the fence in
   validate) -- the model interleaves atomic operations sequentially consistently; the Waiter
   back-off inside the spin loops (no effect on [version]); the obligation on callers that an
   aborted write has not modified the protected data; fairness of the scheduler (a spinning
   client makes progress only if the writer is eventually scheduled: its next step always
   releases the lock, see no_spin_without_writer). *)
