(** 32-bit RamDomain values and Souffle's intrinsic integer / string operations, as executed by
    src/interpreter/Engine.cpp (IntrinsicOperator, BINARY_OP_* macros), src/synthesiser/Synthesiser.cpp
    and src/include/souffle/utility/EvaluatorUtil.h. A RamDomain bit pattern is represented by its
    *signed* reading, an integer in [-2^31, 2^31); [u] gives the unsigned reading.
    Each operation returns [None] exactly where the C++ expression has undefined behaviour
    (signed overflow, division by zero, INT_MIN / -1, out-of-range pow) -- the properties exclude
    those inputs. Definitions only. *)
From SV Require Export Bytes.
From SV Require Import NumParseDefs.
Local Open Scope Z_scope.

Definition MIN_S : Z := - 2 ^ 31.
Definition MAX_S : Z := 2 ^ 31 - 1.
Definition in_s (z : Z) : bool := (MIN_S <=? z) && (z <=? MAX_S).
(** reinterpretation of an arbitrary integer as a 32-bit two's-complement value *)
Definition wrap (z : Z) : Z := (z + 2 ^ 31) mod 2 ^ 32 - 2 ^ 31.
(** unsigned reading of a signed representative *)
Definition u (z : Z) : Z := z mod 2 ^ 32.
Definition chk (z : Z) : option Z := if in_s z then Some z else None.
Definition b2z (b : bool) : Z := if b then 1 else 0.

(** signed arithmetic: C++ [int] semantics, UB = None *)
Definition sadd a b := chk (a + b).
Definition ssub a b := chk (a - b).
Definition smul a b := chk (a * b).
Definition sneg a := chk (- a).
Definition sdiv a b := if b =? 0 then None else chk (Z.quot a b).
Definition smod a b := if b =? 0 then None else if (a =? MIN_S) && (b =? -1) then None else Some (Z.rem a b).
(** unsigned arithmetic: wraps *)
Definition uadd a b := wrap (u a + u b).
Definition usub a b := wrap (u a - u b).
Definition umul a b := wrap (u a * u b).
Definition udiv a b := if u b =? 0 then None else Some (wrap (u a / u b)).
Definition umod a b := if u b =? 0 then None else Some (wrap (u a mod u b)).
(** bitwise (same bit pattern for both readings) *)
Definition band a b := Z.land a b.
Definition bor a b := Z.lor a b.
Definition bxor a b := Z.lxor a b.
Definition bnot a := Z.lnot a.
(** shifts: the shift count is masked with RAM_BIT_SHIFT_MASK = 31; << is done on the unsigned
    reading for both types; >> is arithmetic for number, logical for unsigned; >>> always logical *)
Definition shcount b := Z.land (u b) 31.
Definition shl a b := wrap (u a * 2 ^ shcount b).
Definition shr_s a b := Z.shiftr a (shcount b).
Definition shr_u a b := wrap (Z.shiftr (u a) (shcount b)).
(** logical *)
Definition land a b := b2z (negb (a =? 0) && negb (b =? 0)).
Definition lor a b := b2z (negb (a =? 0) || negb (b =? 0)).
Definition lxor a b := b2z (xorb (negb (a =? 0)) (negb (b =? 0))).
Definition lnot a := b2z (a =? 0).
(** min / max *)
Definition smax a b := Z.max a b.
Definition smin a b := Z.min a b.
Definition umax a b := if u a <? u b then b else a.
Definition umin a b := if u b <? u a then b else a.
(** exponent: static_cast<int>(std::pow(double a, double b)); defined (and exact) when the
    mathematical result is an integer in range; negative exponents truncate towards zero *)
Definition sexp a b : option Z :=
  if 0 <=? b then chk (a ^ b)
  else if a =? 1 then Some 1
  else if a =? -1 then Some (if Z.even b then 1 else -1)
  else if a =? 0 then None
  else Some 0.
Definition uexp a b : option Z :=
  let r := u a ^ u b in if r <? 2 ^ 32 then Some (wrap r) else None.
(** comparisons *)
Definition slt a b := a <? b.
Definition sle a b := a <=? b.
Definition ult a b := u a <? u b.
Definition ule a b := u a <=? u b.
(** conversions between number and unsigned keep the bit pattern *)

(** strings are byte strings; comparison is bytewise (std::string::compare) *)
Fixpoint bytes_ltb (a b : bytes) : bool :=
  match a, b with
  | [], [] => false
  | [], _ :: _ => true
  | _ :: _, [] => false
  | x :: a', y :: b' => if (x <? y)%N then true else if (y <? x)%N then false else bytes_ltb a' b'
  end.
Definition bytes_leb a b := negb (bytes_ltb b a).

(** str.substr(idx, len) with idx, len converted from RamDomain to size_t: a negative idx is out of
    range (warning, empty result); a negative len means "to the end" *)
Definition substr (s : bytes) (idx len : Z) : bytes :=
  if (idx <? 0) || (Z.of_nat (length s) <? idx) then []
  else let r := skipn (Z.to_nat idx) s in
       if len <? 0 then r else firstn (Z.to_nat len) r.

(** bytes contain [p] as a contiguous substring (the `contains` constraint: contains(p, s)) *)
Fixpoint has_substr (p s : bytes) : bool :=
  is_prefix p s || match s with [] => false | _ :: s' => has_substr p s' end.

(** std::to_string(int) *)
Fixpoint digits_of_pos (fuel : nat) (n : Z) (acc : bytes) : bytes :=
  match fuel with
  | O => acc
  | S f => let acc' := Z.to_N (48 + n mod 10) :: acc in
           if n / 10 =? 0 then acc' else digits_of_pos f (n / 10) acc'
  end.
Definition dec_of_Z (z : Z) : bytes :=
  if z <? 0 then 45%N :: digits_of_pos 12 (- z) [] else digits_of_pos 12 z [].

(** to_number: RamSignedFromString(src, nullptr, 0) -- no completeness check; failure aborts the run *)
Definition to_number (s : bytes) : option Z :=
  match ram_signed_auto s with POk v _ => Some v | _ => None end.
