(** Proofs about the union-find model of UnionFindDefs.v (src/include/souffle/datastructure/UnionFind.h).
    Unbounded in threads, nodes and steps unless a bound is written in the statement. *)
From SV Require Import UnionFindDefs.
From Coq Require Import FMapPositive PArith NArith.

(** * Memory and list basics *)
Lemma block_eqb_eq a b : block_eqb a b = true <-> a = b.
Proof.
  destruct a, b; unfold block_eqb; cbn [fst snd].
  rewrite andb_true_iff, !Nat.eqb_eq. split; [intros []; congruence | intros H; inversion H; auto].
Qed.

Lemma length_wr m i b : length (wr m i b) = length m.
Proof. revert i; induction m; intros [|i]; cbn; auto. Qed.

Lemma rd_wr_eq m i b : i < length m -> rd (wr m i b) i = b.
Proof.
  unfold rd. revert i; induction m; intros [|i] H; cbn in *; try lia; auto.
  rewrite <- (IHm i) at 2 by lia. apply nth_indep. rewrite length_wr. lia.
Qed.

Lemma nth_wr_neq m i j b d : i <> j -> nth j (wr m i b) d = nth j m d.
Proof. revert i j; induction m; intros [|i] [|j] H; cbn; auto; try lia. Qed.

Lemma rd_wr_neq m i j b : i <> j -> rd (wr m i b) j = rd m j.
Proof. intros; unfold rd; now apply nth_wr_neq. Qed.

Lemma rd_out m i : length m <= i -> rd m i = (i, 0).
Proof. intros; unfold rd; now apply nth_overflow. Qed.

Lemma wr_out m i b : length m <= i -> wr m i b = m.
Proof. revert i; induction m; intros [|i] H; cbn in *; auto; try lia. f_equal. apply IHm. lia. Qed.

Lemma cas_spec m i e d m' ok :
  cas m i e d = (m', ok) ->
  (ok = true /\ rd m i = e /\ m' = wr m i d) \/ (ok = false /\ m' = m).
Proof.
  unfold cas. destruct (block_eqb (rd m i) e) eqn:E; intros H; inversion H; subst.
  - left. apply block_eqb_eq in E. auto.
  - right. auto.
Qed.

Lemma length_upd {A} (l : list A) i a : length (upd l i a) = length l.
Proof. revert i; induction l; intros [|i]; cbn; auto. Qed.

Lemma nth_error_upd_eq {A} (l : list A) i a : i < length l -> nth_error (upd l i a) i = Some a.
Proof. revert i; induction l; intros [|i] H; cbn in *; try lia; auto. apply IHl. lia. Qed.

Lemma nth_error_upd_neq {A} (l : list A) i j a : i <> j -> nth_error (upd l i a) j = nth_error l j.
Proof. revert i j; induction l; intros [|i] [|j] H; cbn; auto; try lia. Qed.

Lemma In_upd {A} (l : list A) i a x : In x (upd l i a) -> x = a \/ In x l.
Proof.
  revert i; induction l; intros [|i]; cbn; auto.
  - intros [H|H]; auto.
  - intros [H|H]; auto. apply IHl in H. tauto.
Qed.

Lemma Forall_upd {A} (P : A -> Prop) l i a : Forall P l -> P a -> Forall P (upd l i a).
Proof.
  intros H Ha. apply Forall_forall. intros x Hx. apply In_upd in Hx as [->|Hx]; auto.
  rewrite Forall_forall in H; auto.
Qed.

Lemma nth_error_lt {A} (l : list A) i a : nth_error l i = Some a -> i < length l.
Proof. intros H. apply nth_error_Some. congruence. Qed.

Lemma nth_map_seq {A} (f : nat -> A) s n x d : x < n -> nth x (map f (seq s n)) d = f (s + x).
Proof.
  revert s x; induction n; intros s [|x] H; cbn; try lia.
  - now rewrite Nat.add_0_r.
  - rewrite IHn by lia. f_equal. lia.
Qed.

Lemma rd_init n x : rd (init_mem n) x = (x, 0).
Proof.
  unfold rd, init_mem. destruct (Nat.lt_ge_cases x n).
  - now rewrite nth_map_seq.
  - rewrite nth_overflow; auto. rewrite map_length, seq_length; auto.
Qed.

Lemma parent_init n x : parent (init_mem n) x = x.
Proof. unfold parent. now rewrite rd_init. Qed.

Lemma rank_init n x : rank (init_mem n) x = 0.
Proof. unfold rank. now rewrite rd_init. Qed.

Lemma length_init n : length (init_mem n) = n.
Proof. unfold init_mem. now rewrite map_length, seq_length. Qed.

(** * Closure *)
Lemma closure_lt n u x y : closure n u x y -> x < n /\ y < n.
Proof. induction 1; tauto. Qed.

Lemma closure_mono n u u' x y : incl u u' -> closure n u x y -> closure n u' x y.
Proof.
  intros Hi. induction 1.
  - now apply cl_refl.
  - apply cl_base; auto.
  - now apply cl_sym.
  - eapply cl_trans; eauto.
Qed.

Lemma In_ins_inv p q l : In p (ins_inv q l) <-> p = q \/ In p l.
Proof.
  induction l as [|r l IH]; cbn.
  - intuition auto.
  - destruct (pair_leb q r); cbn; rewrite ?IH; intuition auto.
Qed.

Lemma incl_add_inv o inv : incl inv (add_inv o inv).
Proof. destruct o; cbn; try apply incl_refl. intros p Hp. apply In_ins_inv. auto. Qed.

(** * Control flow of one step, independent of what is known about memory.
    [NX]/[NY]: what is known about the nodes held in "x-side"/"y-side" locals. *)
Definition side_x (k : cont) : bool :=
  match k with KFind | KSameX _ | KUnionX _ => true | _ => false end.
Definition kside (NX NY : nat -> Prop) (k : cont) : nat -> Prop := if side_x k then NX else NY.
Definition ksaved (NX NY : nat -> Prop) (k : cont) : Prop :=
  match k with
  | KFind => True
  | KSameX y | KUnionX y => NY y
  | KSameY x | KUnionY x => NX x
  end.
Definition pcnodes (NX NY : nat -> Prop) (pc : pcT) : Prop :=
  match pc with
  | PIdle => True
  | PF1 k x | PF2 k x => kside NX NY k x /\ ksaved NX NY k
  | PF3 k x xp _ => kside NX NY k x /\ kside NX NY k xp /\ ksaved NX NY k
  | PF4 k x xp _ np => kside NX NY k x /\ kside NX NY k xp /\ kside NX NY k np /\ ksaved NX NY k
  | PSame x y | PRankX x y | PRankY x y _ => NX x /\ NY y
  | PLink1 x _ y _ | PCas1 x _ y _ _ _ => NX x /\ NY y
  | PLink2 y _ | PCas2 y _ _ _ => NY y
  end.

(** What a response tells, in terms of the same predicates. [late] = the union had already
    linked (the response comes from the CAS of the first updateRoot or from the second one). *)
Definition resp_nodes (NX NY : nat -> Prop) (pc : pcT) (r : response) : Prop :=
  match r with
  | RFind z => NX z
  | RSame true => exists z, NX z /\ NY z
  | RSame false => True
  | RUnion => (exists z, NX z /\ NY z) \/
              match pc with PCas1 _ _ _ _ _ _ | PLink2 _ _ | PCas2 _ _ _ _ => True | _ => False end
  end.

(** The only place where the roles of x and y are exchanged: the swap in unionNodes. *)
Definition swaps (m : mem) (pc : pcT) : bool :=
  match pc with
  | PRankY x y xr => (snd (rd m y) <? xr) || ((xr =? snd (rd m y)) && (y <? x))
  | _ => false
  end.

Lemma pstep_nodes fx (NX NY : nat -> Prop) m pc m' pc' r a :
  (forall z, NX z -> NX (parent m z)) ->
  (forall z, NY z -> NY (parent m z)) ->
  pcnodes NX NY pc ->
  pstep fx m pc = (m', pc', r, a) ->
  match r with
  | None => if swaps m pc then pcnodes NY NX pc' else pcnodes NX NY pc'
  | Some r => resp_nodes NX NY pc r
  end.
Proof.
  intros HX HY H E.
  destruct pc; cbn [pstep] in E; cbn [swaps].
  - inversion E; subst. exact I.
  - (* PF1 *) destruct H as [H1 H2]. destruct (fst (rd m x) =? x) eqn:Ex.
    + destruct k; cbn [find_ret] in E.
      * inversion E; subst. exact H1.
      * inversion E; subst. cbn in *. auto.
      * destruct (x0 =? x) eqn:E0.
        -- inversion E; subst. apply Nat.eqb_eq in E0; subst. cbn in *. eauto.
        -- inversion E; subst. cbn in *. auto.
      * inversion E; subst. cbn in *. auto.
      * destruct (x0 =? x) eqn:E0.
        -- inversion E; subst. apply Nat.eqb_eq in E0; subst. cbn in *. left. eauto.
        -- inversion E; subst. cbn in *. auto.
    + inversion E; subst. cbn. auto.
  - (* PF2 *) destruct H as [H1 H2]. inversion E; subst. cbn. repeat split; auto.
    unfold kside in *. destruct (side_x k); [apply HX | apply HY]; auto.
  - (* PF3 *) destruct H as [H1 [H2 H3]]. inversion E; subst. cbn. repeat split; auto.
    unfold kside in *. destruct (side_x k); [apply HX | apply HY]; auto.
  - (* PF4 *) destruct H as [H1 [H2 [H3 H4]]]. destruct (cas m x (xp, xr) (np, xr)) as [m1 ok].
    inversion E; subst. cbn. auto.
  - (* PSame *) destruct H as [H1 H2]. destruct (fst (rd m x) =? x); inversion E; subst.
    + exact I.
    + cbn. auto.
  - (* PRankX *) inversion E; subst. exact H.
  - (* PRankY *) destruct H as [H1 H2].
    destruct ((snd (rd m y) <? xrank) || ((xrank =? snd (rd m y)) && (y <? x))); inversion E; subst.
    + cbn. auto.
    + cbn. auto.
  - (* PLink1 *) destruct H as [H1 H2].
    destruct ((fst (rd m x) =? x) && (snd (rd m x) =? xrank)); inversion E; subst; cbn; auto.
  - (* PCas1 *) destruct H as [H1 H2].
    destruct (cas m x (osp, osr) (y, if fx then xrank else yrank)) as [m1 ok].
    destruct ok.
    + destruct (xrank =? yrank); inversion E; subst.
      * cbn. auto.
      * right. exact I.
    + inversion E; subst. cbn. auto.
  - (* PLink2 *)
    destruct ((fst (rd m y) =? y) && (snd (rd m y) =? yrank)); inversion E; subst.
    + exact H.
    + right. exact I.
  - (* PCas2 *) destruct (cas m y (osp, osr) (y, rank_succ yrank)) as [m1 ok].
    inversion E; subst. right. exact I.
Qed.

Lemma pcnodes_impl (NX NY NX' NY' : nat -> Prop) pc :
  (forall z, NX z -> NX' z) -> (forall z, NY z -> NY' z) ->
  pcnodes NX NY pc -> pcnodes NX' NY' pc.
Proof.
  intros HX HY.
  assert (HK : forall k z, kside NX NY k z -> kside NX' NY' k z)
    by (intros k z; unfold kside; destruct (side_x k); auto).
  assert (HS : forall k, ksaved NX NY k -> ksaved NX' NY' k) by (intros []; cbn; auto).
  destruct pc; cbn; intuition auto.
Qed.

(** What memory can become in one step. *)
Inductive effect (fx : bool) (m : mem) (pc : pcT) : mem -> Prop :=
| eff_none : effect fx m pc m
| eff_halve k x xp xr np : pc = PF4 k x xp xr np -> rd m x = (xp, xr) ->
    effect fx m pc (wr m x (np, xr))
| eff_link x xr y yr : pc = PCas1 x xr y yr (fst (rd m x)) (snd (rd m x)) ->
    effect fx m pc (wr m x (y, if fx then xr else yr))
| eff_bump y yr : pc = PCas2 y yr (fst (rd m y)) (snd (rd m y)) ->
    effect fx m pc (wr m y (y, rank_succ yr)).

Lemma pstep_effect fx m pc m' pc' r a : pstep fx m pc = (m', pc', r, a) -> effect fx m pc m'.
Proof.
  intros E. destruct pc; cbn [pstep] in E;
  repeat match type of E with
  | (if ?c then _ else _) = _ => destruct c eqn:?
  | (let (_, _) := find_ret ?k ?x in _) = _ => destruct (find_ret k x)
  end; try (inversion E; subst; apply eff_none).
  - destruct (cas m x (xp, xr) (np, xr)) as [m1 ok] eqn:C. inversion E; subst.
    apply cas_spec in C as [[_ [C1 ->]]|[_ ->]]; [eapply eff_halve; eauto | apply eff_none].
  - destruct (cas m x (osp, osr) (y, if fx then xrank else yrank)) as [m1 ok] eqn:C.
    assert (m' = m1) by (destruct ok; [destruct (xrank =? yrank)|]; inversion E; auto). subst m1.
    apply cas_spec in C as [[_ [C1 ->]]|[_ ->]]; [|apply eff_none].
    eapply eff_link. rewrite C1. reflexivity.
  - destruct (cas m y (osp, osr) (y, rank_succ yrank)) as [m1 ok] eqn:C. inversion E; subst.
    apply cas_spec in C as [[_ [C1 ->]]|[_ ->]]; [|apply eff_none].
    eapply eff_bump. rewrite C1. reflexivity.
Qed.

(** * Which operation a program counter belongs to *)
Definition kkind (k : cont) : nat :=
  match k with KFind => 0 | KSameX _ | KSameY _ => 1 | KUnionX _ | KUnionY _ => 2 end.
Definition pckind (pc : pcT) : option nat :=
  match pc with
  | PIdle => None
  | PF1 k _ | PF2 k _ | PF3 k _ _ _ | PF4 k _ _ _ _ => Some (kkind k)
  | PSame _ _ => Some 1
  | _ => Some 2
  end.
Definition opkind (o : op) : nat := match o with OFind _ => 0 | OSame _ _ => 1 | OUnion _ _ => 2 end.
Definition respkind (r : response) : nat := match r with RFind _ => 0 | RSame _ => 1 | RUnion => 2 end.

Lemma pstep_kind fx m pc m' pc' r a c :
  pckind pc = Some c -> pstep fx m pc = (m', pc', r, a) ->
  match r with None => pckind pc' = Some c | Some resp => respkind resp = c end.
Proof.
  intros K E. destruct pc; cbn [pstep] in E; cbn in K; try discriminate;
  repeat match type of E with
  | (if ?c then _ else _) = _ => destruct c eqn:?
  | (let (_, _) := cas ?m ?x ?e ?d in _) = _ => destruct (cas m x e d) as [? []]
  end; try (inversion E; subst; cbn; congruence).
  destruct k; cbn [find_ret] in E;
  repeat match type of E with context [if ?c then _ else _] => destruct c eqn:? end;
  inversion E; subst; cbn in *; congruence.
Qed.

Lemma begin_kind o : pckind (begin_pc o) = Some (opkind o).
Proof. destruct o; reflexivity. Qed.

(** * Soundness invariant (both variants of the model) *)
Definition anchors (inv : list (nat * nat)) (o : op) (A B : nat) : Prop :=
  match o with
  | OFind a => A = a /\ B = a
  | OSame a b => (A = a /\ B = b) \/ (A = b /\ B = a)
  | OUnion a b => In (a, b) inv /\ ((A = a /\ B = b) \/ (A = b /\ B = a))
  end.

Lemma anchors_sym inv o A B : anchors inv o A B -> anchors inv o B A.
Proof. destruct o; cbn; intuition auto. Qed.

Lemma anchors_mono inv inv' o A B : incl inv inv' -> anchors inv o A B -> anchors inv' o A B.
Proof. intros Hi. destruct o; cbn; intuition auto. Qed.

Definition tinv_s (n : nat) (inv : list (nat * nat)) (th : thread) : Prop :=
  Forall (op_wf n) (t_ops th) /\
  match t_cur th with
  | None => True
  | Some o => op_wf n o /\ pckind (t_pc th) = Some (opkind o) /\
              exists A B, anchors inv o A B /\
                          pcnodes (closure n inv A) (closure n inv B) (t_pc th)
  end.

Definition sinv (n : nat) (st : state) : Prop :=
  length (s_mem st) = n /\
  (forall x, x < n -> closure n (s_inv st) x (parent (s_mem st) x)) /\
  Forall (tinv_s n (s_inv st)) (s_thr st).

Lemma tinv_s_mono n inv inv' th : incl inv inv' -> tinv_s n inv th -> tinv_s n inv' th.
Proof.
  intros Hi [H1 H2]. split; auto. destruct (t_cur th); auto.
  destruct H2 as [W [K [A [B [HA HN]]]]]. repeat split; auto.
  exists A, B. split; [eapply anchors_mono; eauto|].
  eapply pcnodes_impl; [| |exact HN]; intros z; apply closure_mono; auto.
Qed.

Lemma start_spec th inv o ops' pc0 inv' :
  start th inv = Some (o, ops', pc0, inv') ->
  (t_cur th = Some o /\ ops' = t_ops th /\ pc0 = t_pc th /\ inv' = inv) \/
  (t_cur th = None /\ t_ops th = o :: ops' /\ pc0 = begin_pc o /\ inv' = add_inv o inv).
Proof.
  unfold start. destruct (t_cur th).
  - intros H; inversion H; subst. left; auto.
  - destruct (t_ops th); intros H; inversion H; subst. right; auto.
Qed.

Lemma start_incl th inv o ops' pc0 inv' :
  start th inv = Some (o, ops', pc0, inv') -> incl inv inv'.
Proof.
  intros H. apply start_spec in H as [[_ [_ [_ ->]]]|[_ [_ [_ ->]]]].
  - apply incl_refl.
  - apply incl_add_inv.
Qed.

Lemma start_tinv_s n th inv o ops' pc0 inv' :
  start th inv = Some (o, ops', pc0, inv') -> tinv_s n inv th ->
  tinv_s n inv' (mkT ops' (Some o) pc0).
Proof.
  intros H T. pose proof (start_incl _ _ _ _ _ _ H) as Hi.
  apply start_spec in H as [[C [-> [-> ->]]]|[C [O [-> ->]]]].
  - destruct T as [T1 T2]. rewrite C in T2. split; auto.
  - destruct T as [T1 _]. rewrite O in T1. inversion T1; subst. split; auto. cbn [t_cur t_pc].
    split; auto. split; [apply begin_kind|].
    destruct o; cbn in *.
    + exists x, y. split. { split; [apply In_ins_inv; auto | auto]. }
      split; apply cl_refl; tauto.
    + exists x, y. split; auto. split; apply cl_refl; tauto.
    + exists x, x. split; auto. split; [apply cl_refl; auto | exact I].
Qed.

Lemma anchors_closure n inv o A B : op_wf n o -> opkind o = 2 -> anchors inv o A B -> closure n inv A B.
Proof.
  destruct o; cbn; try discriminate. intros [Hx Hy] _ [Hin [[-> ->]|[-> ->]]].
  - apply cl_base; auto.
  - apply cl_sym, cl_base; auto.
Qed.

Lemma closure_join n inv A z w : closure n inv A z -> closure n inv A w -> closure n inv z w.
Proof. intros. eapply cl_trans; [apply cl_sym|]; eauto. Qed.

Lemma kside_same (NX NY : nat -> Prop) k z w :
  kside NX NY k z -> kside NX NY k w -> (NX z /\ NX w) \/ (NY z /\ NY w).
Proof. unfold kside. destruct (side_x k); auto. Qed.

(** Memory part of the invariant across one step of a thread whose locals satisfy [pcnodes]. *)
Lemma effect_sound fx n inv m pc m' A B :
  length m = n ->
  (forall x, x < n -> closure n inv x (parent m x)) ->
  pcnodes (closure n inv A) (closure n inv B) pc ->
  (pckind pc = Some 2 -> closure n inv A B) ->
  effect fx m pc m' ->
  length m' = n /\ forall x, x < n -> closure n inv x (parent m' x).
Proof.
  intros L G N K E. destruct E as [|k x xp xr np -> R|x xr y yr ->|y yr ->].
  - auto.
  - rewrite length_wr. split; auto. intros z Hz. unfold parent.
    destruct (Nat.eq_dec x z) as [->|Hn].
    + rewrite rd_wr_eq by lia. cbn [fst].
      destruct N as [N1 [_ [N3 _]]].
      destruct (kside_same _ _ _ _ _ N1 N3) as [[? ?]|[? ?]]; eapply closure_join; eauto.
    + rewrite rd_wr_neq by auto. apply G; auto.
  - rewrite length_wr. split; auto. intros z Hz. unfold parent.
    destruct (Nat.eq_dec x z) as [->|Hn].
    + rewrite rd_wr_eq by lia. cbn [fst]. destruct N as [N1 N2].
      specialize (K eq_refl).
      eapply cl_trans; [apply cl_sym; exact N1|]. eapply cl_trans; eauto.
    + rewrite rd_wr_neq by auto. apply G; auto.
  - rewrite length_wr. split; auto. intros z Hz. unfold parent.
    destruct (Nat.eq_dec y z) as [->|Hn].
    + rewrite rd_wr_eq by lia. cbn [fst]. apply cl_refl; auto.
    + rewrite rd_wr_neq by auto. apply G; auto.
Qed.

(** One step preserves the invariant; a [true] answer of sameSet is justified by the closure. *)
Lemma step_acc_sound fx n st t st' r a :
  sinv n st -> step_acc fx st t = Some (st', r, a) ->
  sinv n st' /\ incl (s_inv st) (s_inv st') /\
  forall resp, r = Some resp ->
    exists o, cur_op st t = Some o /\ respkind resp = opkind o /\
      match o, resp with
      | OSame x y, RSame true => closure n (s_inv st') x y
      | OFind x, RFind z => closure n (s_inv st') x z
      | _, _ => True
      end.
Proof.
  intros [L [G T]] E. unfold step_acc in E.
  destruct (nth_error (s_thr st) t) as [th|] eqn:Eth; [|discriminate].
  destruct (start th (s_inv st)) as [[[[o ops'] pc0] inv']|] eqn:Es; [|discriminate].
  destruct (pstep fx (s_mem st) pc0) as [[[m' pc'] r'] a'] eqn:Ep.
  inversion E; subst st' r' a'; clear E.
  pose proof (start_incl _ _ _ _ _ _ Es) as Hi.
  assert (Tth : tinv_s n (s_inv st) th).
  { rewrite Forall_forall in T. apply T. eapply nth_error_In; eauto. }
  pose proof (start_tinv_s n _ _ _ _ _ _ Es Tth) as [T1 T2]. cbn [t_ops t_cur t_pc] in T1, T2.
  destruct T2 as [W [K [A [B [HA HN]]]]].
  assert (G' : forall x, x < n -> closure n inv' x (parent (s_mem st) x)).
  { intros x Hx. eapply closure_mono; eauto. }
  assert (HP : forall C z, closure n inv' C z -> closure n inv' C (parent (s_mem st) z)).
  { intros C z Hz. eapply cl_trans; eauto. apply G'. apply closure_lt in Hz. tauto. }
  pose proof (pstep_nodes fx _ _ _ _ _ _ _ _ (HP A) (HP B) HN Ep) as PN.
  pose proof (pstep_kind fx _ _ _ _ _ _ _ K Ep) as PK.
  pose proof (pstep_effect fx _ _ _ _ _ _ Ep) as PE.
  assert (KAB : pckind pc0 = Some 2 -> closure n inv' A B).
  { intros K2. eapply anchors_closure; eauto. congruence. }
  destruct (effect_sound fx n inv' _ _ _ A B L G' HN KAB PE) as [L' G''].
  cbn [s_inv s_mem s_thr].
  assert (CO : cur_op st t = Some o).
  { unfold cur_op. rewrite Eth. apply start_spec in Es as [[C _]|[C [O _]]]; rewrite C; auto.
    rewrite O. reflexivity. }
  split; [|split; auto].
  - split; [exact L'|]. split; [exact G''|]. cbn [s_thr].
    apply Forall_upd.
    + eapply Forall_impl; [|exact T]. intros th0. apply tinv_s_mono; auto.
    + destruct r as [resp|]; split; cbn [t_ops t_cur t_pc]; auto.
      split; auto. split; auto.
      destruct (swaps (s_mem st) pc0); [exists B, A | exists A, B]; split; auto using anchors_sym.
  - intros resp ->. exists o. split; auto. split; [congruence|].
    destruct o as [x y|x y|x]; destruct resp as [z|[]|]; auto; cbn in HA, PN.
    + destruct PN as [z [Z1 Z2]].
      destruct HA as [[-> ->]|[-> ->]].
      * eapply cl_trans; [|apply cl_sym]; eauto.
      * eapply cl_trans; [|apply cl_sym]; eauto.
    + destruct HA as [-> ->]. exact PN.
Qed.

Lemma sinv_init n scripts : scripts_wf n scripts -> sinv n (init n scripts).
Proof.
  intros W. split; [apply length_init|]. split.
  - intros x Hx. cbn. rewrite parent_init. now apply cl_refl.
  - cbn. apply Forall_forall. intros th Hth. apply in_map_iff in Hth as [s [<- Hs]].
    split; cbn; auto. unfold scripts_wf in W. rewrite Forall_forall in W. auto.
Qed.

(** Induction along a run. *)
Lemma run_from_ind fx (P : state -> Prop) :
  (forall st t st' r a, P st -> step_acc fx st t = Some (st', r, a) -> P st') ->
  forall sched st, P st -> P (fst (run_from fx st sched)).
Proof.
  intros HS. induction sched as [|t s IH]; intros st H; cbn; auto.
  unfold step. destruct (step_acc fx st t) as [[[st' r] a]|] eqn:E; auto.
  specialize (IH st' (HS _ _ _ _ _ H E)).
  destruct (run_from fx st' s); auto.
Qed.

Lemma sinv_run fx n scripts sched :
  scripts_wf n scripts -> sinv n (fst (run_v fx n scripts sched)).
Proof.
  intros W. unfold run_v. apply run_from_ind.
  - intros st t st' r a H E. eapply step_acc_sound; eauto.
  - now apply sinv_init.
Qed.

Lemma anc_closure n inv m x r :
  (forall x, x < n -> closure n inv x (parent m x)) ->
  anc m x r -> x < n -> closure n inv x r.
Proof.
  intros G. induction 1; intros Hx.
  - now apply cl_refl.
  - eapply cl_trans; [apply G; auto|]. apply IHanc. specialize (G x Hx). apply closure_lt in G. tauto.
Qed.

(** (b) Two nodes in the same tree are related by the closure of the unions invoked so far. *)
Theorem uf_sound fx n scripts sched x y :
  scripts_wf n scripts ->
  let st := fst (run_v fx n scripts sched) in
  x < n -> y < n -> sameroot (s_mem st) x y -> closure n (s_inv st) x y.
Proof.
  intros W st Hx Hy [r [_ [A1 A2]]].
  destruct (sinv_run fx n scripts sched W) as [_ [G _]]. fold st in G.
  eapply cl_trans; [|apply cl_sym]; eapply anc_closure; eauto.
Qed.

(** (d) sameSet answers [true] only for nodes related by the unions invoked before the return;
    and find only returns a node related to its argument. *)
Theorem sameset_true_correct fx n scripts sched t st' rs :
  scripts_wf n scripts ->
  let st := fst (run_v fx n scripts sched) in
  step fx st t = Some (st', rs) ->
  forall resp, In resp rs ->
    exists o, cur_op st t = Some o /\
      match o, resp with
      | OSame x y, RSame b => b = true -> closure n (s_inv st') x y
      | OFind x, RFind z => closure n (s_inv st') x z
      | OUnion _ _, RUnion => True
      | _, _ => False
      end.
Proof.
  intros W st E resp Hin. unfold step in E.
  destruct (step_acc fx st t) as [[[st1 r] a]|] eqn:Ea; [|discriminate].
  inversion E; subst st1 rs; clear E.
  destruct r as [r|]; [|destruct Hin]. destruct Hin as [->|[]].
  destruct (step_acc_sound fx n st t st' (Some resp) a (sinv_run fx n scripts sched W) Ea)
    as [_ [_ H]].
  destruct (H resp eq_refl) as [o [CO [K M]]]. exists o. split; auto.
  destruct o, resp as [z|b|]; cbn in K; try discriminate; auto.
  intros ->. exact M.
Qed.

(** * Trees: ancestors, roots, the (rank, index) order *)
Lemma anc_trans m x y z : anc m x y -> anc m y z -> anc m x z.
Proof. induction 1; auto. intros. apply anc_step. auto. Qed.

Lemma anc_root m r z : is_root m r -> anc m r z -> z = r.
Proof. intros R H. induction H; auto. rewrite R in *. auto. Qed.

Lemma anc_chain m x a b : anc m x a -> anc m x b -> anc m a b \/ anc m b a.
Proof.
  induction 1; intros Hb; auto.
  inversion Hb; subst.
  - right. apply anc_step. auto.
  - auto.
Qed.

Lemma root_unique m x r1 r2 :
  is_root m r1 -> is_root m r2 -> anc m x r1 -> anc m x r2 -> r1 = r2.
Proof.
  intros R1 R2 A1 A2. destruct (anc_chain _ _ _ _ A1 A2) as [H|H].
  - symmetry. eapply anc_root; eauto.
  - eapply anc_root; eauto.
Qed.

Lemma anc_parent m x r : is_root m r -> anc m x r -> anc m (parent m x) r.
Proof. intros R H. inversion H; subst; auto. rewrite R. apply anc_refl. Qed.

Lemma anc_ext m m' a r : (forall z, parent m' z = parent m z) -> anc m a r -> anc m' a r.
Proof. intros He. induction 1; [apply anc_refl|]. apply anc_step. now rewrite He. Qed.

Lemma sameroot_sym m x y : sameroot m x y -> sameroot m y x.
Proof. intros [r [R [A B]]]. exists r; auto. Qed.

Lemma sameroot_trans m x y z : sameroot m x y -> sameroot m y z -> sameroot m x z.
Proof.
  intros [r [R [A B]]] [r' [R' [A' B']]].
  assert (r = r') by (eapply root_unique; eauto). subst. exists r'; auto.
Qed.

Lemma sameroot_parent m c x : sameroot m c x -> sameroot m c (parent m x).
Proof. intros [r [R [A B]]]. exists r. repeat split; auto. now apply anc_parent. Qed.

Lemma sameroot_join m c z w : sameroot m c z -> sameroot m c w -> sameroot m z w.
Proof. intros. eapply sameroot_trans; [apply sameroot_sym|]; eauto. Qed.

Definition minv (n : nat) (m : mem) : Prop :=
  length m = n /\
  forall x, x < n ->
    parent m x < n /\
    (parent m x <> x -> lexlt (rank m x) x (rank m (parent m x)) (parent m x)).

(** Ranks never decrease; a non-root stays a non-root and keeps its rank. *)
Definition mle (m m' : mem) : Prop :=
  forall x, rank m x <= rank m' x /\
            (parent m x <> x -> parent m' x <> x /\ rank m' x = rank m x).

Lemma mle_refl m : mle m m.
Proof. intros x. split; auto. Qed.

Lemma lexlt_trans r1 x1 r2 x2 r3 x3 : lexlt r1 x1 r2 x2 -> lexlt r2 x2 r3 x3 -> lexlt r1 x1 r3 x3.
Proof. unfold lexlt. lia. Qed.

Lemma lexltb_spec r1 x1 r2 x2 : lexltb r1 x1 r2 x2 = true <-> lexlt r1 x1 r2 x2.
Proof.
  unfold lexltb, lexlt. rewrite orb_true_iff, andb_true_iff, !Nat.ltb_lt, Nat.eqb_eq. tauto.
Qed.

Lemma minv_out n m x : minv n m -> n <= x -> parent m x = x /\ rank m x = 0.
Proof. intros [L _] H. unfold parent, rank. rewrite rd_out by lia. auto. Qed.

Lemma anc_lt n m x r : minv n m -> anc m x r -> x < n -> r < n.
Proof. intros M. induction 1; auto. intros Hx. apply IHanc. apply M; auto. Qed.

Lemma anc_lex n m x r :
  minv n m -> anc m x r -> x < n -> x = r \/ lexlt (rank m x) x (rank m r) r.
Proof.
  intros M. induction 1; auto. intros Hx.
  destruct (proj2 M x Hx) as [Hp Hl].
  destruct (Nat.eq_dec (parent m x) x) as [E|E].
  - rewrite E in *. auto.
  - right. destruct (IHanc Hp) as [<-|H']; auto. eapply lexlt_trans; eauto.
Qed.

(** Number of nodes above x in the order: decreases along parent links. *)
Definition above (n : nat) (m : mem) (x : nat) : nat :=
  length (filter (fun y => lexltb (rank m x) x (rank m y) y) (seq 0 n)).

Lemma filter_length_lt {A} (f g : A -> bool) l y :
  (forall z, f z = true -> g z = true) -> In y l -> g y = true -> f y = false ->
  length (filter f l) < length (filter g l).
Proof.
  intros Hfg. induction l as [|z l IH]; cbn; [tauto|].
  assert (Hle : length (filter f l) <= length (filter g l)).
  { clear IH. induction l as [|w l IH]; cbn; auto.
    destruct (f w) eqn:Fw; [rewrite (Hfg _ Fw); cbn; lia|]. destruct (g w); cbn; lia. }
  intros [->|Hy] Gy Fy.
  - rewrite Gy, Fy. cbn. lia.
  - specialize (IH Hy Gy Fy). destruct (f z) eqn:Fz; [rewrite (Hfg _ Fz); cbn; lia|].
    destruct (g z); cbn; lia.
Qed.

Lemma above_lt n m x p :
  p < n -> lexlt (rank m x) x (rank m p) p -> above n m p < above n m x.
Proof.
  intros Hp Hl. unfold above. apply filter_length_lt with (y := p).
  - intros z Hz. apply lexltb_spec in Hz. apply lexltb_spec. eapply lexlt_trans; eauto.
  - apply in_seq. lia.
  - now apply lexltb_spec.
  - destruct (lexltb (rank m p) p (rank m p) p) eqn:E; auto.
    apply lexltb_spec in E. unfold lexlt in E. lia.
Qed.

Lemma filter_len_le {A} (f : A -> bool) l : length (filter f l) <= length l.
Proof. induction l; cbn; auto. destruct (f a); cbn; lia. Qed.

Lemma above_le n m x : above n m x <= n.
Proof. unfold above. rewrite <- (seq_length n 0) at 2. apply filter_len_le. Qed.

Lemma iter_S {A} k (f : A -> A) x : Nat.iter (S k) f x = f (Nat.iter k f x).
Proof. reflexivity. Qed.

Lemma iter_plus {A} j k (f : A -> A) x : Nat.iter (j + k) f x = Nat.iter j f (Nat.iter k f x).
Proof. induction j; [reflexivity|]. rewrite Nat.add_succ_l, !iter_S. now rewrite IHj. Qed.

Lemma iter_parent_root m r k : is_root m r -> Nat.iter k (parent m) r = r.
Proof. intros R. induction k; [reflexivity|]. rewrite iter_S, IHk. exact R. Qed.

Lemma iter_shift {A} (f : A -> A) k x : Nat.iter k f (f x) = f (Nat.iter k f x).
Proof. induction k; [reflexivity|]. rewrite !iter_S. now rewrite IHk. Qed.

Lemma anc_iter m x k : anc m x (Nat.iter k (parent m) x).
Proof.
  revert x; induction k; intros x; [apply anc_refl|].
  rewrite iter_S, <- iter_shift. apply anc_step. apply IHk.
Qed.

(** Following parent links from any node reaches a root within [above] <= n steps. *)
Lemma reach_root n m : minv n m ->
  forall x, exists k, k <= above n m x /\ is_root m (Nat.iter k (parent m) x).
Proof.
  intros M x. remember (above n m x) as d eqn:Ed.
  revert x Ed. induction d as [d IH] using lt_wf_ind. intros x Ed.
  destruct (Nat.eq_dec (parent m x) x) as [E|E].
  - exists 0. split; [lia|exact E].
  - destruct (Nat.lt_ge_cases x n) as [Hx|Hx].
    + destruct (proj2 M x Hx) as [Hp Hl]. specialize (Hl E).
      pose proof (above_lt n m x _ Hp Hl) as Hlt.
      destruct (IH (above n m (parent m x)) ltac:(lia) (parent m x) eq_refl) as [k [Hk Rk]].
      exists (S k). split; [lia|]. rewrite iter_S, <- iter_shift. exact Rk.
    + destruct (minv_out n m x M Hx). congruence.
Qed.

Lemma root_is_root n m x : minv n m -> is_root m (root m x) /\ anc m x (root m x).
Proof.
  intros M. split; [|apply anc_iter].
  destruct (reach_root n m M x) as [k [Hk Rk]].
  pose proof (above_le n m x). destruct M as [L _].
  unfold root. rewrite L. replace n with ((n - k) + k) by lia.
  rewrite iter_plus. now rewrite iter_parent_root.
Qed.

Lemma has_root n m x : minv n m -> exists r, is_root m r /\ anc m x r.
Proof. intros M. exists (root m x). eapply root_is_root; eauto. Qed.

Lemma sameroot_refl n m x : minv n m -> sameroot m x x.
Proof. intros M. destruct (has_root n m x M) as [r [R A]]. exists r; auto. Qed.

Lemma sameroot_root n m x y : minv n m -> (sameroot m x y <-> root m x = root m y).
Proof.
  intros M. destruct (root_is_root n m x M) as [Rx Ax]. destruct (root_is_root n m y M) as [Ry Ay].
  split.
  - intros [r [R [A B]]]. transitivity r; [|symmetry]; eapply root_unique; eauto.
  - intros E. exists (root m x). rewrite E at 3. auto.
Qed.

(** No cycle other than a root's self-loop. *)
Lemma no_cycle n m x k : minv n m -> Nat.iter (S k) (parent m) x = x -> parent m x = x.
Proof.
  intros M H. destruct (Nat.eq_dec (parent m x) x) as [E|E]; auto. exfalso.
  destruct (Nat.lt_ge_cases x n) as [Hx|Hx]; [|destruct (minv_out n m x M Hx); congruence].
  destruct (proj2 M x Hx) as [Hp Hl]. specialize (Hl E).
  rewrite iter_S, <- iter_shift in H.
  pose proof (anc_iter m (parent m x) k) as A. rewrite H in A.
  destruct (anc_lex n m _ _ M A Hp) as [E'|L']; [congruence|].
  unfold lexlt in *. lia.
Qed.

(** * How the three kinds of writes change the forest (repaired linking, [fx = true]) *)
Definition mext (m m' : mem) : Prop :=
  mle m m' /\ forall a b, sameroot m a b -> sameroot m' a b.

Lemma mext_refl m : mext m m.
Proof. split; [apply mle_refl|auto]. Qed.

Lemma parent_wr_eq m x p r : x < length m -> parent (wr m x (p, r)) x = p.
Proof. intros. unfold parent. now rewrite rd_wr_eq. Qed.
Lemma rank_wr_eq m x p r : x < length m -> rank (wr m x (p, r)) x = r.
Proof. intros. unfold rank. now rewrite rd_wr_eq. Qed.
Lemma parent_wr_neq m x z b : x <> z -> parent (wr m x b) z = parent m z.
Proof. intros. unfold parent. now rewrite rd_wr_neq. Qed.
Lemma rank_wr_neq m x z b : x <> z -> rank (wr m x b) z = rank m z.
Proof. intros. unfold rank. now rewrite rd_wr_neq. Qed.

(** A write at x that keeps x's rank and gives it a parent above it in the order. *)
Lemma minv_repoint n m x p :
  minv n m -> x < n -> p < n -> lexlt (rank m x) x (rank m p) p ->
  minv n (wr m x (p, rank m x)) /\
  (parent m x <> x \/ p <> x -> mle m (wr m x (p, rank m x))).
Proof.
  intros [L M] Hx Hp Hl.
  assert (Rk : forall z, rank (wr m x (p, rank m x)) z = rank m z).
  { intros z. destruct (Nat.eq_dec x z) as [->|E]; [apply rank_wr_eq; lia | now apply rank_wr_neq]. }
  split.
  - split; [now rewrite length_wr|]. intros z Hz.
    destruct (Nat.eq_dec x z) as [->|E].
    + rewrite parent_wr_eq by lia. split; auto. intros _. rewrite !Rk. auto.
    + rewrite parent_wr_neq by auto. rewrite !Rk. apply M; auto.
  - intros Hne z. rewrite Rk. split; auto. intros Hz. split; auto.
    destruct (Nat.eq_dec x z) as [->|E].
    + rewrite parent_wr_eq by lia. intros Ep. rewrite Ep in Hl. unfold lexlt in Hl. lia.
    + rewrite parent_wr_neq by auto. auto.
Qed.

(** Paths that stay above x are not affected by a write at x. *)
Lemma anc_above n m x b c r :
  minv n m -> anc m c r -> c < n -> lexlt (rank m x) x (rank m c) c ->
  anc (wr m x b) c r.
Proof.
  intros M. induction 1; intros Hc Hl; [apply anc_refl|].
  assert (x <> x0) by (intros ->; unfold lexlt in Hl; lia).
  apply anc_step. rewrite parent_wr_neq by auto.
  destruct (proj2 M x0 Hc) as [Hp Hq].
  destruct (Nat.eq_dec (parent m x0) x0) as [E|E].
  - rewrite E in *. auto.
  - apply IHanc; auto. eapply lexlt_trans; eauto.
Qed.

(** Path halving: x (a non-root) is re-pointed to a node of its own tree above it. *)
Lemma halve_ok n m x xp xr np :
  minv n m -> x < n -> rd m x = (xp, xr) -> xp <> x -> np < n ->
  lexlt xr x (rank m np) np -> sameroot m x np ->
  minv n (wr m x (np, xr)) /\ mext m (wr m x (np, xr)).
Proof.
  intros M Hx R Hne Hnp Hl SR.
  assert (Pm : parent m x = xp) by (unfold parent; now rewrite R).
  assert (Rm : rank m x = xr) by (unfold rank; now rewrite R).
  rewrite <- Rm in *.
  destruct (minv_repoint n m x np M Hx Hnp Hl) as [M' Le].
  split; auto. split; [apply Le; left; congruence|].
  assert (L : length m = n) by apply M.
  assert (K : forall a r, is_root m r -> anc m a r ->
                          is_root (wr m x (np, rank m x)) r /\ anc (wr m x (np, rank m x)) a r).
  { intros a r Rr A. assert (Hxr : x <> r) by (intros ->; unfold is_root in Rr; congruence).
    split; [unfold is_root; now rewrite parent_wr_neq|].
    induction A as [a|a r A IH]; [apply anc_refl|].
    specialize (IH Rr Hxr).
    destruct (Nat.eq_dec x a) as [<-|E].
    - apply anc_step. rewrite parent_wr_eq by lia.
      destruct SR as [r' [R' [A1 A2]]].
      assert (r' = r) by (apply (root_unique m x r' r); auto; apply anc_step; auto). subst r'.
      eapply anc_above; eauto.
    - apply anc_step. now rewrite parent_wr_neq. }
  intros a b [r [Rr [A B]]]. exists r.
  destruct (K a r Rr A), (K b r Rr B). auto.
Qed.

(** Linking: the root x (rank xr) is hung under y, which is above it; x keeps its rank. *)
Lemma link_ok n m x xr y :
  minv n m -> x < n -> y < n -> rd m x = (x, xr) -> lexlt xr x (rank m y) y ->
  minv n (wr m x (y, xr)) /\ mext m (wr m x (y, xr)) /\ sameroot (wr m x (y, xr)) x y.
Proof.
  intros M Hx Hy R Hl.
  assert (Pm : parent m x = x) by (unfold parent; now rewrite R).
  assert (Rm : rank m x = xr) by (unfold rank; now rewrite R).
  rewrite <- Rm in *.
  assert (Hxy : y <> x) by (intros ->; unfold lexlt in Hl; lia).
  destruct (minv_repoint n m x y M Hx Hy Hl) as [M' Le].
  assert (L : length m = n) by apply M.
  set (m' := wr m x (y, rank m x)) in *.
  destruct (has_root n m y M) as [ry [Rry Ay]].
  assert (Hry : ry <> x).
  { intros ->. destruct (anc_lex n m y x M Ay Hy) as [E|E]; [congruence|].
    unfold lexlt in *. lia. }
  (* paths that do not end in x avoid x altogether, since x is a root of m *)
  assert (Av : forall c r, anc m c r -> r <> x -> anc m' c r).
  { induction 1 as [c|c r A IH]; intros Hr; [apply anc_refl|].
    destruct (Nat.eq_dec x c) as [<-|E].
    - exfalso. apply Hr. eapply anc_root; [exact Pm|]. apply anc_step; auto.
    - apply anc_step. unfold m'. rewrite parent_wr_neq by auto. auto. }
  assert (Rt : forall r, is_root m r -> r <> x -> is_root m' r).
  { intros r Rr Hr. unfold is_root, m'. rewrite parent_wr_neq by auto. auto. }
  assert (Axy : anc m' x ry).
  { apply anc_step. unfold m'. rewrite parent_wr_eq by lia. apply Av; auto. }
  assert (K : forall a r, is_root m r -> anc m a r ->
              exists r', is_root m' r' /\ anc m' a r' /\ r' = (if Nat.eq_dec r x then ry else r)).
  { assert (Ax : forall a r, anc m a r -> r = x -> anc m' a ry).
    { induction 1 as [a|a r A IH]; intros Er.
      - subst a. exact Axy.
      - destruct (Nat.eq_dec x a) as [<-|E]; auto.
        apply anc_step. unfold m'. rewrite parent_wr_neq by auto. auto. }
    intros a r Rr A. destruct (Nat.eq_dec r x) as [Er|Hr].
    - exists ry. repeat split; auto. eapply Ax; eauto.
    - exists r. repeat split; auto. }
  split; auto. split; [split|].
  - apply Le. auto.
  - intros a b [r [Rr [A B]]].
    destruct (K a r Rr A) as [ra [R1 [A1 E1]]]. destruct (K b r Rr B) as [rb [R2 [A2 E2]]].
    exists ra. subst ra rb. auto.
  - exists ry. repeat split; auto.
Qed.

(** Raising the rank of a root. *)
Lemma bump_ok n m y yr :
  minv n m -> y < n -> rd m y = (y, yr) ->
  minv n (wr m y (y, S yr)) /\ mext m (wr m y (y, S yr)).
Proof.
  intros M Hy R.
  assert (Pm : parent m y = y) by (unfold parent; now rewrite R).
  assert (Rm : rank m y = yr) by (unfold rank; now rewrite R).
  assert (L : length m = n) by apply M.
  set (m' := wr m y (y, S yr)).
  assert (Pe : forall z, parent m' z = parent m z).
  { intros z. unfold m'. destruct (Nat.eq_dec y z) as [<-|E];
      [rewrite parent_wr_eq by lia; auto | now apply parent_wr_neq]. }
  assert (Rk : forall z, rank m z <= rank m' z /\ (z <> y -> rank m' z = rank m z)).
  { intros z. unfold m'. destruct (Nat.eq_dec y z) as [<-|E].
    - rewrite rank_wr_eq by lia. split; [lia|congruence].
    - rewrite rank_wr_neq by auto. auto. }
  split; [|split].
  - split; [unfold m'; now rewrite length_wr|]. intros z Hz. rewrite Pe.
    destruct (proj2 M z Hz) as [Hp Hq]. split; auto. intros Hne. specialize (Hq Hne).
    assert (z <> y) by congruence.
    rewrite (proj2 (Rk z)) by auto.
    pose proof (proj1 (Rk (parent m z))). unfold lexlt in *. lia.
  - intros z. split; [apply Rk|]. intros Hne. rewrite Pe. split; auto.
    apply Rk. congruence.
  - intros a b [r [Rr [A B]]]. exists r. unfold is_root. rewrite Pe.
    repeat split; auto; eapply anc_ext; eauto.
Qed.

(** * The full invariant (repaired linking, [fx = true]) *)
Definition NR (n : nat) (m : mem) (c z : nat) : Prop := z < n /\ sameroot m c z.

Definition pcrank (n : nat) (m : mem) (A B : nat) (pc : pcT) : Prop :=
  match pc with
  | PF2 _ x => parent m x <> x
  | PF3 _ x xp _ => parent m x <> x /\ lexlt (rank m x) x (rank m xp) xp
  | PF4 _ x _ _ np => parent m x <> x /\ lexlt (rank m x) x (rank m np) np
  | PRankX x y => x <> y
  | PRankY x y xr => x <> y /\ xr <= rank m x
  | PLink1 x xr y yr => x <> y /\ lexlt xr x yr y /\ yr <= rank m y
  | PCas1 x xr y yr osp osr => x <> y /\ lexlt xr x yr y /\ yr <= rank m y /\ osp = x /\ osr = xr
  | PLink2 y yr => sameroot m A B
  | PCas2 y yr osp osr => sameroot m A B /\ osp = y /\ osr = yr
  | _ => True
  end.

Lemma NR_mono n m m' c z : mext m m' -> NR n m c z -> NR n m' c z.
Proof. intros [_ H] [H1 H2]. split; auto. Qed.

Lemma pcrank_mono n m m' A B pc : mext m m' -> pcrank n m A B pc -> pcrank n m' A B pc.
Proof.
  intros [Le Sr] H. destruct pc; cbn in *; auto.
  - apply Le; auto.
  - destruct H as [H1 H2]. destruct (proj2 (Le x) H1) as [H3 H4]. split; auto.
    pose proof (proj1 (Le xp)). unfold lexlt in *. lia.
  - destruct H as [H1 H2]. destruct (proj2 (Le x) H1) as [H3 H4]. split; auto.
    pose proof (proj1 (Le np)). unfold lexlt in *. lia.
  - destruct H as [H1 H2]. split; auto. pose proof (proj1 (Le x)). lia.
  - destruct H as [H1 [H2 H3]]. repeat split; auto. pose proof (proj1 (Le y)). lia.
  - destruct H as [H1 [H2 [H3 H4]]]. repeat split; try tauto. pose proof (proj1 (Le y)). lia.
  - destruct H as [H1 H2]. split; auto.
Qed.

Definition resp_full (m' : mem) (A B : nat) (r : response) : Prop :=
  match r with
  | RFind z => sameroot m' A z /\ is_root m' z
  | RSame true => sameroot m' A B
  | RSame false => True
  | RUnion => sameroot m' A B
  end.

Lemma NR_parent n m c z : minv n m -> NR n m c z -> NR n m c (parent m z).
Proof. intros M [H1 H2]. split; [apply M; auto | now apply sameroot_parent]. Qed.

Lemma kside_NR n m A B k z w :
  kside (NR n m A) (NR n m B) k z -> kside (NR n m A) (NR n m B) k w ->
  z < n /\ w < n /\ sameroot m z w.
Proof.
  intros H1 H2. destruct (kside_same _ _ _ _ _ H1 H2) as [[[? ?] [? ?]]|[[? ?] [? ?]]];
  repeat split; auto; eapply sameroot_join; eauto.
Qed.

Lemma kside_lt n m A B k z : kside (NR n m A) (NR n m B) k z -> z < n.
Proof. unfold kside. destruct (side_x k); intros []; auto. Qed.

(** One step of a thread whose locals satisfy the invariant. *)
Ltac inv4 E := injection E as <- <- <- <-.
Ltac ldone LD :=
  let L1 := fresh "L1" in let L2 := fresh "L2" in
  destruct (LD eq_refl) as [L1 L2]; split; [exact L1 | split; [exact L2|]].

Lemma pstep_full n m A B pc m' pc' r a :
  minv n m -> (forall x, rank m x < 255) ->
  pcnodes (NR n m A) (NR n m B) pc -> pcrank n m A B pc ->
  pstep true m pc = (m', pc', r, a) ->
  minv n m' /\ mext m m' /\
  match r with
  | None => if swaps m pc
            then pcnodes (NR n m' B) (NR n m' A) pc' /\ pcrank n m' B A pc'
            else pcnodes (NR n m' A) (NR n m' B) pc' /\ pcrank n m' A B pc'
  | Some resp => resp_full m' A B resp
  end.
Proof.
  intros M RK N Q E.
  pose proof (pstep_nodes true _ _ m pc m' pc' r a
                (fun z => NR_parent n m A z M) (fun z => NR_parent n m B z M) N E) as PN.
  assert (LD : m' = m -> minv n m' /\ mext m m') by (intros ->; split; [auto | apply mext_refl]).
  destruct pc; cbn [pstep] in E; cbn [swaps] in *.
  - (* PIdle *) inv4 E. ldone LD. split; exact I.
  - (* PF1 *) destruct (fst (rd m x) =? x) eqn:Ex.
    + apply Nat.eqb_eq in Ex. destruct N as [N1 N2].
      destruct k; cbn [find_ret] in E.
      * inv4 E. ldone LD. split; [apply N1 | exact Ex].
      * inv4 E. ldone LD. split; [exact PN | exact I].
      * destruct (x0 =? x) eqn:E0; inv4 E; ldone LD.
        -- apply Nat.eqb_eq in E0. subst x0. cbn in N1, N2.
           eapply sameroot_trans; [apply N2 | apply sameroot_sym; apply N1].
        -- split; [exact PN | exact I].
      * inv4 E. ldone LD. split; [exact PN | exact I].
      * destruct (x0 =? x) eqn:E0; inv4 E; ldone LD.
        -- apply Nat.eqb_eq in E0. subst x0. cbn in N1, N2.
           eapply sameroot_trans; [apply N2 | apply sameroot_sym; apply N1].
        -- split; [exact PN|]. cbn. apply Nat.eqb_neq in E0. auto.
    + inv4 E. ldone LD. split; [exact PN|].
      cbn. apply Nat.eqb_neq in Ex. exact Ex.
  - (* PF2 *) inv4 E. ldone LD. split; [exact PN|].
    cbn in Q |- *. destruct N as [N1 _]. apply kside_lt in N1.
    split; auto. apply M; auto.
  - (* PF3 *) inv4 E. ldone LD. split; [exact PN|].
    cbn in Q |- *. destruct Q as [Q1 Q2]. split; auto.
    destruct N as [_ [N2 _]]. apply kside_lt in N2.
    destruct (proj2 M xp N2) as [Hp Hq]. fold (parent m xp).
    destruct (Nat.eq_dec (parent m xp) xp) as [Ee|Ee]; [rewrite Ee; auto|].
    eapply lexlt_trans; eauto.
  - (* PF4 *) destruct (cas m x (xp, xr) (np, xr)) as [m1 ok] eqn:C. inversion E; subst m1 pc' r a.
    cbn in PN. destruct N as [N1 [N2 [N3 N4]]]. destruct Q as [Q1 Q2].
    apply cas_spec in C as [[_ [C1 ->]]|[_ ->]].
    + destruct (kside_NR _ _ _ _ _ _ _ N1 N3) as [Hx [Hnp SR]].
      assert (Pm : parent m x = xp) by (unfold parent; now rewrite C1).
      assert (Rm : rank m x = xr) by (unfold rank; now rewrite C1).
      destruct (halve_ok n m x xp xr np M Hx C1 ltac:(congruence) Hnp ltac:(congruence) SR) as [M' X].
      split; auto. split; auto. split; [|exact I].
      eapply pcnodes_impl; [| |exact PN]; intros z; apply NR_mono; auto.
    + ldone LD. split; [exact PN | exact I].
  - (* PSame *) destruct (fst (rd m x) =? x); inv4 E; ldone LD.
    + exact I.
    + split; [exact PN | exact I].
  - (* PRankX *) inv4 E. ldone LD. split; [exact PN|]. cbn in Q |- *. auto.
  - (* PRankY *) destruct Q as [Q1 Q2]. fold (rank m y) in *.
    destruct ((rank m y <? xrank) || ((xrank =? rank m y) && (y <? x))) eqn:T;
      inv4 E; ldone LD; (split; [exact PN|]); cbn.
    + apply orb_true_iff in T. rewrite andb_true_iff, !Nat.ltb_lt, Nat.eqb_eq in T.
      unfold lexlt. lia.
    + apply orb_false_iff in T. rewrite andb_false_iff, !Nat.ltb_ge, Nat.eqb_neq in T.
      unfold lexlt. lia.
  - (* PLink1 *) destruct Q as [Q1 [Q2 Q3]].
    destruct ((fst (rd m x) =? x) && (snd (rd m x) =? xrank)) eqn:T;
      inv4 E; ldone LD; (split; [exact PN|]); cbn; auto.
    apply andb_true_iff in T. rewrite !Nat.eqb_eq in T. tauto.
  - (* PCas1 *) destruct Q as [Q1 [Q2 [Q3 [-> ->]]]]. destruct N as [[Hx NA] [Hy NB]].
    destruct (cas m x (x, xrank) (y, xrank)) as [m1 ok] eqn:C.
    apply cas_spec in C as [[-> [C1 ->]]|[-> ->]].
    + assert (Hl : lexlt xrank x (rank m y) y) by (unfold lexlt in *; lia).
      destruct (link_ok n m x xrank y M Hx Hy C1 Hl) as [M' [X SR]].
      assert (SAB : sameroot (wr m x (y, xrank)) A B).
      { eapply sameroot_trans; [apply X, NA|]. eapply sameroot_trans; [exact SR|].
        apply sameroot_sym, X, NB. }
      destruct (xrank =? yrank); inv4 E; split; auto; split; auto.
      split; [|exact SAB]. cbn. apply (NR_mono n m); auto.
    + inv4 E. ldone LD. split; [exact PN | exact I].
  - (* PLink2 *) cbn in Q.
    destruct ((fst (rd m y) =? y) && (snd (rd m y) =? yrank)) eqn:T;
      inv4 E; ldone LD; [|exact Q].
    split; [exact PN|]. cbn. apply andb_true_iff in T. rewrite !Nat.eqb_eq in T. tauto.
  - (* PCas2 *) destruct Q as [Q1 [-> ->]]. destruct N as [Hy NB].
    destruct (cas m y (y, yrank) (y, rank_succ yrank)) as [m1 ok] eqn:C.
    inversion E; subst m1 pc' r a.
    apply cas_spec in C as [[_ [C1 ->]]|[_ ->]].
    + assert (Hr : rank_succ yrank = S yrank).
      { specialize (RK y). unfold rank in RK. rewrite C1 in RK. cbn in RK.
        unfold rank_succ. rewrite Nat.mod_small; lia. }
      rewrite Hr. destruct (bump_ok n m y yrank M Hy C1) as [M' X].
      split; auto. split; auto. apply X. exact Q1.
    + ldone LD. exact Q1.
Qed.

Definition anch (o : op) (A B : nat) : Prop :=
  match o with
  | OFind a => A = a /\ B = a
  | OSame a b | OUnion a b => (A = a /\ B = b) \/ (A = b /\ B = a)
  end.

Lemma anch_sym o A B : anch o A B -> anch o B A.
Proof. destruct o; cbn; intuition auto. Qed.

Definition tinv_f (n : nat) (m : mem) (th : thread) : Prop :=
  Forall (op_wf n) (t_ops th) /\
  match t_cur th with
  | None => True
  | Some o => op_wf n o /\ pckind (t_pc th) = Some (opkind o) /\
              exists A B, anch o A B /\ pcnodes (NR n m A) (NR n m B) (t_pc th) /\
                          pcrank n m A B (t_pc th)
  end.

(** Every invoked union has either taken effect or is still being executed. *)
Definition pending_ok (st : state) : Prop :=
  forall a b, In (a, b) (s_inv st) ->
    sameroot (s_mem st) a b \/
    exists i th, nth_error (s_thr st) i = Some th /\ t_cur th = Some (OUnion a b).

Definition finv (n : nat) (st : state) : Prop :=
  minv n (s_mem st) /\ Forall (tinv_f n (s_mem st)) (s_thr st) /\ pending_ok st.

Lemma tinv_f_mono n m m' th : mext m m' -> tinv_f n m th -> tinv_f n m' th.
Proof.
  intros X [H1 H2]. split; auto. destruct (t_cur th); auto.
  destruct H2 as [W [K [A [B [HA [HN HQ]]]]]]. repeat split; auto.
  exists A, B. repeat split; auto.
  - eapply pcnodes_impl; [| |exact HN]; intros z; apply NR_mono; auto.
  - eapply pcrank_mono; eauto.
Qed.

Lemma start_tinv_f n m th inv o ops' pc0 inv' :
  minv n m -> start th inv = Some (o, ops', pc0, inv') -> tinv_f n m th ->
  tinv_f n m (mkT ops' (Some o) pc0).
Proof.
  intros M H T.
  apply start_spec in H as [[C [-> [-> ->]]]|[C [O [-> ->]]]].
  - destruct T as [T1 T2]. rewrite C in T2. split; auto.
  - destruct T as [T1 _]. rewrite O in T1. inversion T1; subst. split; auto. cbn [t_cur t_pc].
    split; auto. split; [apply begin_kind|].
    assert (SR : forall z, sameroot m z z) by (intros z; eapply sameroot_refl; eauto).
    destruct o; cbn in *.
    + exists x, y. unfold NR. intuition auto.
    + exists x, y. unfold NR. intuition auto.
    + exists x, x. unfold NR. intuition auto.
Qed.

Lemma respkind_union r : respkind r = 2 -> r = RUnion.
Proof. destruct r; cbn; congruence. Qed.

Lemma step_acc_full n st t st' r a :
  finv n st -> (forall x, rank (s_mem st) x < 255) ->
  step_acc true st t = Some (st', r, a) ->
  finv n st' /\ mext (s_mem st) (s_mem st') /\
  forall resp, r = Some resp ->
    exists o, cur_op st t = Some o /\ respkind resp = opkind o /\
      match o, resp with
      | OUnion x y, RUnion => sameroot (s_mem st') x y
      | OSame x y, RSame true => sameroot (s_mem st') x y
      | OFind x, RFind z => sameroot (s_mem st') x z /\ is_root (s_mem st') z
      | _, _ => True
      end.
Proof.
  intros [M [T P]] RK E. unfold step_acc in E.
  destruct (nth_error (s_thr st) t) as [th|] eqn:Eth; [|discriminate].
  destruct (start th (s_inv st)) as [[[[o ops'] pc0] inv']|] eqn:Es; [|discriminate].
  destruct (pstep true (s_mem st) pc0) as [[[m' pc'] r'] a'] eqn:Ep.
  inversion E; subst st' r' a'; clear E.
  assert (Tth : tinv_f n (s_mem st) th).
  { rewrite Forall_forall in T. apply T. eapply nth_error_In; eauto. }
  pose proof (start_tinv_f n _ _ _ _ _ _ _ M Es Tth) as [T1 T2]. cbn [t_ops t_cur t_pc] in T1, T2.
  destruct T2 as [W [K [A [B [HA [HN HQ]]]]]].
  destruct (pstep_full n _ A B _ _ _ _ _ M RK HN HQ Ep) as [M' [X PF]].
  pose proof (pstep_kind true _ _ _ _ _ _ _ K Ep) as PK.
  cbn [s_inv s_mem s_thr].
  assert (CO : cur_op st t = Some o).
  { unfold cur_op. rewrite Eth. apply start_spec in Es as [[C _]|[C [O _]]]; rewrite C; auto.
    rewrite O. reflexivity. }
  assert (Ht : t < length (s_thr st)) by (eapply nth_error_lt; eauto).
  (* the fate of the acting thread's operation if it is a union *)
  assert (FU : forall x y, o = OUnion x y ->
               sameroot m' x y \/ (r = None /\
                 nth_error (upd (s_thr st) t (mkT ops' (Some o) pc')) t = Some (mkT ops' (Some o) pc'))).
  { intros x y ->. destruct r as [resp|].
    - left. cbn in PK. apply respkind_union in PK. subst resp. cbn in PF.
      destruct HA as [[-> ->]|[-> ->]]; auto using sameroot_sym.
    - right. split; auto. now apply nth_error_upd_eq. }
  split; [|split; auto].
  - split; [exact M'|]. split.
    + apply Forall_upd.
      * eapply Forall_impl; [|exact T]. intros th0. apply tinv_f_mono; auto.
      * destruct r as [resp|]; split; cbn [t_ops t_cur t_pc]; auto.
        split; auto. split; auto.
        destruct (swaps (s_mem st) pc0); [exists B, A | exists A, B];
          destruct PF; repeat split; auto using anch_sym.
    + intros x y Hin. cbn [s_inv s_mem s_thr] in *.
      assert (Hc : In (x, y) (s_inv st) \/ o = OUnion x y).
      { apply start_spec in Es as [[_ [_ [_ ->]]]|[_ [_ [_ ->]]]]; auto.
        destruct o; cbn in Hin; auto. apply In_ins_inv in Hin as [Hq|Hq]; auto.
        inversion Hq; subst. auto. }
      assert (Hact : o = OUnion x y ->
        sameroot m' x y \/
        exists i th0, nth_error (upd (s_thr st) t
           match r with Some _ => mkT ops' None PIdle | None => mkT ops' (Some o) pc' end) i = Some th0 /\
           t_cur th0 = Some (OUnion x y)).
      { intros Eo. destruct (FU x y Eo) as [S|[-> Hn]]; auto.
        right. exists t, (mkT ops' (Some o) pc'). split; auto. cbn. congruence. }
      destruct Hc as [Hc|Hc]; auto.
      destruct (P x y Hc) as [S|[i [th0 [Hi Hcur]]]].
      * left. apply X. exact S.
      * destruct (Nat.eq_dec t i) as [<-|Hne].
        -- rewrite Eth in Hi. inversion Hi; subst th0.
           apply Hact. apply start_spec in Es as [[C _]|[C _]]; congruence.
        -- right. exists i, th0. split; auto. rewrite nth_error_upd_neq; auto.
  - intros resp ->. exists o. split; auto. split; [congruence|].
    cbn in PK, PF.
    destruct o as [x y|x y|x]; destruct resp as [z|[]|]; auto; cbn in HA, PF, PK; try discriminate.
    + destruct HA as [[-> ->]|[-> ->]]; auto using sameroot_sym.
    + destruct HA as [[-> ->]|[-> ->]]; auto using sameroot_sym.
    + destruct HA as [-> ->]. exact PF.
Qed.

Lemma minv_init n : minv n (init_mem n).
Proof.
  split; [apply length_init|]. intros x Hx. rewrite parent_init. split; auto. congruence.
Qed.

Lemma finv_init n scripts : scripts_wf n scripts -> finv n (init n scripts).
Proof.
  intros W. split; [apply minv_init|]. split.
  - cbn. apply Forall_forall. intros th Hth. apply in_map_iff in Hth as [s [<- Hs]].
    split; cbn; auto. unfold scripts_wf in W. rewrite Forall_forall in W. auto.
  - intros a b []. 
Qed.

(** Induction along a run that never wraps a rank. *)
Lemma run_from_ind_nw (P : state -> Prop) :
  (forall st t st' r a, P st -> (forall x, rank (s_mem st) x < 255) ->
                        step_acc true st t = Some (st', r, a) -> P st') ->
  forall sched st, P st -> no_wrap true st sched -> P (fst (run_from true st sched)).
Proof.
  intros HS. induction sched as [|t s IH]; intros st H NW; cbn in *; auto.
  unfold step in *. destruct (step_acc true st t) as [[[st' r] a]|] eqn:E; auto.
  destruct NW as [RK NW].
  specialize (IH st' (HS _ _ _ _ _ H RK E) NW).
  destruct (run_from true st' s); auto.
Qed.

Lemma finv_run n scripts sched :
  scripts_wf n scripts -> no_wrap true (init n scripts) sched ->
  finv n (fst (run_fixed n scripts sched)).
Proof.
  intros W NW. unfold run_fixed, run_v. apply run_from_ind_nw; auto.
  - intros st t st' r a H RK E. eapply step_acc_full; eauto.
  - now apply finv_init.
Qed.

(** * Bookkeeping: which unions have been invoked *)
Lemma in_unions_of a b s : In (a, b) (unions_of s) <-> In (OUnion a b) s.
Proof.
  unfold unions_of. rewrite in_flat_map. split.
  - intros [o [Ho Hin]]. destruct o; cbn in Hin; try tauto. destruct Hin as [Hin|[]].
    inversion Hin; subst. auto.
  - intros H. exists (OUnion a b). cbn. auto.
Qed.

Lemma in_all_unions a b scripts :
  In (a, b) (all_unions scripts) <-> exists s, In s scripts /\ In (OUnion a b) s.
Proof.
  unfold all_unions. rewrite in_flat_map. split; intros [s [H1 H2]]; exists s; split; auto;
  apply in_unions_of; auto.
Qed.

Definition hinv (scripts : list (list op)) (st : state) : Prop :=
  (forall p, In p (s_inv st) -> In p (all_unions scripts)) /\
  (forall i th, nth_error (s_thr st) i = Some th ->
     forall o, In o (t_ops th) -> exists s, In s scripts /\ In o s) /\
  (forall a b, In (a, b) (all_unions scripts) ->
     In (a, b) (s_inv st) \/
     exists i th, nth_error (s_thr st) i = Some th /\ In (OUnion a b) (t_ops th)).

Lemma hinv_init n scripts : hinv scripts (init n scripts).
Proof.
  split; [intros p []|]. split.
  - intros i th H o Ho. cbn in H. apply nth_error_In in H. apply in_map_iff in H as [s [<- Hs]].
    exists s. auto.
  - intros a b H. right. apply in_all_unions in H as [s [Hs Ho]].
    apply In_nth_error in Hs as [i Hi]. exists i, (mkT s None PIdle). split; auto.
    cbn. now rewrite nth_error_map, Hi.
Qed.

Lemma hinv_step fx scripts st t st' r a :
  hinv scripts st -> step_acc fx st t = Some (st', r, a) -> hinv scripts st'.
Proof.
  intros [H1 [H2 H3]] E. unfold step_acc in E.
  destruct (nth_error (s_thr st) t) as [th|] eqn:Eth; [|discriminate].
  destruct (start th (s_inv st)) as [[[[o ops'] pc0] inv']|] eqn:Es; [|discriminate].
  destruct (pstep fx (s_mem st) pc0) as [[[m' pc'] r'] a'] eqn:Ep.
  inversion E; subst st' r' a'; clear E. unfold hinv. cbn [s_inv s_thr s_mem].
  assert (Ht : t < length (s_thr st)) by (eapply nth_error_lt; eauto).
  set (th' := match r with Some _ => mkT ops' None PIdle | None => mkT ops' (Some o) pc' end).
  assert (Ops : t_ops th' = ops') by (unfold th'; destruct r; auto).
  assert (Sub : forall o', In o' ops' -> In o' (t_ops th)).
  { apply start_spec in Es as [[_ [-> _]]|[_ [-> _]]]; cbn; auto. }
  split; [|split].
  - intros p Hp. apply start_spec in Es as [[_ [_ [_ ->]]]|[_ [O [_ ->]]]]; auto.
    destruct o; cbn in Hp; auto. apply In_ins_inv in Hp as [->|Hp]; auto.
    apply in_all_unions. apply (H2 t th Eth). rewrite O. left; auto.
  - intros i th0 Hi o' Ho'. destruct (Nat.eq_dec t i) as [<-|Hne].
    + rewrite nth_error_upd_eq in Hi by auto. inversion Hi; subst th0.
      rewrite Ops in Ho'. apply (H2 t th Eth). auto.
    + rewrite nth_error_upd_neq in Hi by auto. eapply H2; eauto.
  - intros x y Hxy. destruct (H3 x y Hxy) as [Hin|[i [th0 [Hi Ho]]]].
    + left. eapply start_incl; eauto.
    + destruct (Nat.eq_dec t i) as [<-|Hne].
      * rewrite Eth in Hi. inversion Hi; subst th0.
        apply start_spec in Es as [[_ [-> [_ ->]]]|[_ [O [_ ->]]]].
        -- right. exists t, th'. split; [now apply nth_error_upd_eq | now rewrite Ops].
        -- rewrite O in Ho. destruct Ho as [->|Ho].
           ++ left. cbn. apply In_ins_inv. auto.
           ++ right. exists t, th'. split; [now apply nth_error_upd_eq | now rewrite Ops].
      * right. exists i, th0. split; auto. now rewrite nth_error_upd_neq.
Qed.

Lemma hinv_run fx n scripts sched : hinv scripts (fst (run_v fx n scripts sched)).
Proof.
  unfold run_v. apply run_from_ind.
  - intros st t st' r a H E. eapply hinv_step; eauto.
  - apply hinv_init.
Qed.

(** * Runs in two parts *)
Lemma run_from_app fx st s1 s2 :
  fst (run_from fx st (s1 ++ s2)) = fst (run_from fx (fst (run_from fx st s1)) s2).
Proof.
  revert st; induction s1 as [|t s IH]; intros st; cbn; auto.
  destruct (step fx st t) as [[st' rs]|]; auto.
  specialize (IH st'). destruct (run_from fx st' (s ++ s2)), (run_from fx st' s). cbn in *. auto.
Qed.

Lemma no_wrap_app fx st s1 s2 :
  no_wrap fx st (s1 ++ s2) <-> no_wrap fx st s1 /\ no_wrap fx (fst (run_from fx st s1)) s2.
Proof.
  revert st; induction s1 as [|t s IH]; intros st; cbn; [tauto|].
  destruct (step fx st t) as [[st' rs]|]; auto.
  rewrite IH. destruct (run_from fx st' s). cbn. tauto.
Qed.

Lemma no_wrap_last fx st s t st' rs :
  no_wrap fx st (s ++ [t]) -> step fx (fst (run_from fx st s)) t = Some (st', rs) ->
  forall x, rank (s_mem (fst (run_from fx st s))) x < 255.
Proof.
  intros NW E. apply no_wrap_app in NW as [_ NW]. cbn in NW. rewrite E in NW. tauto.
Qed.

Lemma mle_trans m1 m2 m3 : mle m1 m2 -> mle m2 m3 -> mle m1 m3.
Proof.
  intros H1 H2 x. destruct (H1 x) as [A1 B1], (H2 x) as [A2 B2]. split; [lia|].
  intros Hne. destruct (B1 Hne) as [C1 D1]. destruct (B2 C1) as [C2 D2]. split; auto. lia.
Qed.

Lemma mext_trans m1 m2 m3 : mext m1 m2 -> mext m2 m3 -> mext m1 m3.
Proof. intros [L1 S1] [L2 S2]. split; [eapply mle_trans; eauto | auto]. Qed.

Lemma step_of_acc fx st t st' rs :
  step fx st t = Some (st', rs) -> exists r a, step_acc fx st t = Some (st', r, a) /\ rs = olist r.
Proof.
  unfold step. destruct (step_acc fx st t) as [[[s r] a]|]; [|discriminate].
  intros H; inversion H; subst. eauto.
Qed.

(** * The theorems for the repaired linking *)
(** (a) Every parent link strictly increases (rank, index); hence no cycle except a root's
    self-loop, and a root is reached from every node within n links. *)
Theorem uf_acyclic n scripts sched :
  scripts_wf n scripts -> no_wrap true (init n scripts) sched ->
  let m := s_mem (fst (run_fixed n scripts sched)) in
  (forall x, x < n -> parent m x < n /\
     (parent m x <> x -> lexlt (rank m x) x (rank m (parent m x)) (parent m x))) /\
  (forall x k, Nat.iter (S k) (parent m) x = x -> parent m x = x) /\
  (forall x, exists k, k <= n /\ is_root m (Nat.iter k (parent m) x)).
Proof.
  intros W NW m. destruct (finv_run n scripts sched W NW) as [M _]. fold m in M.
  split; [apply M|]. split.
  - intros x k. eapply no_cycle; eauto.
  - intros x. destruct (reach_root n m M x) as [k [Hk R]]. exists k. split; auto.
    pose proof (above_le n m x). lia.
Qed.

(** (a, continued) Ranks never decrease; a non-root stays a non-root and keeps its rank. *)
Theorem uf_ranks_monotone n scripts sched t st' rs :
  scripts_wf n scripts -> no_wrap true (init n scripts) (sched ++ [t]) ->
  let st := fst (run_fixed n scripts sched) in
  step true st t = Some (st', rs) ->
  forall x, rank (s_mem st) x <= rank (s_mem st') x /\
            (parent (s_mem st) x <> x ->
             parent (s_mem st') x <> x /\ rank (s_mem st') x = rank (s_mem st) x).
Proof.
  intros W NW st E.
  pose proof (no_wrap_last _ _ _ _ _ _ NW E) as RK.
  apply no_wrap_app in NW as [NW _].
  apply step_of_acc in E as [r [a [E _]]].
  destruct (step_acc_full n st t st' r a (finv_run n scripts sched W NW) RK E) as [_ [[Le _] _]].
  exact Le.
Qed.

(** (c) When unionNodes x y returns, x and y are in the same tree. *)
Theorem uf_union_returns n scripts sched t st' rs :
  scripts_wf n scripts -> no_wrap true (init n scripts) (sched ++ [t]) ->
  let st := fst (run_fixed n scripts sched) in
  step true st t = Some (st', rs) -> In RUnion rs ->
  exists x y, cur_op st t = Some (OUnion x y) /\ sameroot (s_mem st') x y.
Proof.
  intros W NW st E Hin.
  pose proof (no_wrap_last _ _ _ _ _ _ NW E) as RK.
  apply no_wrap_app in NW as [NW _].
  apply step_of_acc in E as [r [a [E ->]]].
  destruct r as [resp|]; [|destruct Hin]. destruct Hin as [->|[]].
  destruct (step_acc_full n st t st' _ a (finv_run n scripts sched W NW) RK E) as [_ [_ H]].
  destruct (H RUnion eq_refl) as [o [CO [K S]]].
  destruct o as [x y|x y|x]; cbn in K; try discriminate. eauto.
Qed.

(** (c) Classes never split: being in the same tree is preserved by every continuation. *)
Theorem uf_classes_never_split n scripts sched sched' x y :
  scripts_wf n scripts -> no_wrap true (init n scripts) (sched ++ sched') ->
  sameroot (s_mem (fst (run_fixed n scripts sched))) x y ->
  sameroot (s_mem (fst (run_fixed n scripts (sched ++ sched')))) x y.
Proof.
  intros W NW S. apply no_wrap_app in NW as [NW1 NW2].
  unfold run_fixed, run_v in *. rewrite run_from_app.
  set (st0 := fst (run_from true (init n scripts) sched)) in *.
  assert (H : finv n (fst (run_from true st0 sched')) /\
              mext (s_mem st0) (s_mem (fst (run_from true st0 sched')))).
  { apply (run_from_ind_nw (fun s => finv n s /\ mext (s_mem st0) (s_mem s))); auto.
    - intros st t st' r a [F X] RK E.
      destruct (step_acc_full n st t st' r a F RK E) as [F' [X' _]].
      split; auto. eapply mext_trans; eauto.
    - split; [apply (finv_run n scripts sched W NW1) | apply mext_refl]. }
  apply H. exact S.
Qed.

Lemma quiescent_spec st : quiescent st = true ->
  forall i th, nth_error (s_thr st) i = Some th -> t_cur th = None /\ t_ops th = [].
Proof.
  unfold quiescent. rewrite forallb_forall. intros H i th Hi.
  specialize (H th (nth_error_In _ _ Hi)). unfold finished in H.
  destruct (t_cur th), (t_ops th); try discriminate; auto.
Qed.

(** (c) At quiescence the partition into trees is exactly the closure of the requested unions. *)
Theorem uf_union_complete n scripts sched :
  scripts_wf n scripts -> no_wrap true (init n scripts) sched ->
  let st := fst (run_fixed n scripts sched) in
  quiescent st = true ->
  forall x y, x < n -> y < n ->
    (sameroot (s_mem st) x y <-> closure n (all_unions scripts) x y).
Proof.
  intros W NW st Q x y Hx Hy.
  destruct (finv_run n scripts sched W NW) as [M [_ P]]. fold st in M, P.
  destruct (hinv_run true n scripts sched) as [H1 [_ H3]]. fold (run_fixed n scripts sched) in H1, H3.
  fold st in H1, H3.
  split.
  - intros S. eapply closure_mono; [exact H1|]. apply (uf_sound true n scripts sched); auto.
  - intros C. clear Hx Hy. induction C as [x Hx|x y Hin Hx Hy|x y C IH|x y z C1 IH1 C2 IH2].
    + eapply sameroot_refl; eauto.
    + destruct (H3 x y Hin) as [Hi|[i [th [Hi Ho]]]].
      * destruct (P x y Hi) as [S|[i [th [Hi' Hc]]]]; auto.
        destruct (quiescent_spec st Q i th Hi'). congruence.
      * destruct (quiescent_spec st Q i th Hi) as [_ E]. rewrite E in Ho. destruct Ho.
    + now apply sameroot_sym.
    + eapply sameroot_trans; eauto.
Qed.

(** The same statement with the executable root function. *)
Corollary uf_union_complete_root n scripts sched :
  scripts_wf n scripts -> no_wrap true (init n scripts) sched ->
  let st := fst (run_fixed n scripts sched) in
  quiescent st = true ->
  forall x y, x < n -> y < n ->
    (root (s_mem st) x = root (s_mem st) y <-> closure n (all_unions scripts) x y).
Proof.
  intros W NW st Q x y Hx Hy.
  destruct (finv_run n scripts sched W NW) as [M _]. fold st in M.
  rewrite <- (sameroot_root n (s_mem st) x y M). now apply uf_union_complete.
Qed.

(** * Soundness of the explorer with respect to [mon_run] / [run_v] *)
Lemma rank_okb_sound m : rank_okb m = true -> forall x, rank m x < 255.
Proof.
  unfold rank_okb. rewrite forallb_forall. intros H x. unfold rank, rd.
  destruct (Nat.lt_ge_cases x (length m)) as [Hx|Hx].
  - apply Nat.ltb_lt. apply H. now apply nth_In.
  - rewrite nth_overflow by auto. cbn. lia.
Qed.

Lemma no_wrapb_sound fx sched : forall st, no_wrapb fx st sched = true -> no_wrap fx st sched.
Proof.
  induction sched as [|t s IH]; intros st H; cbn in *; auto.
  destruct (step fx st t) as [[st' rs]|]; auto.
  apply andb_true_iff in H as [H1 H2]. split; auto. now apply rank_okb_sound.
Qed.

Lemma mon_step_some fx n tab ms t ms' :
  mon_step fx n tab ms t = Some ms' ->
  exists r a, step_acc fx (ms_st ms) t = Some (ms_st ms', r, a).
Proof.
  unfold mon_step. destruct (nth_error (s_thr (ms_st ms)) t); [|discriminate].
  destruct (step_acc fx (ms_st ms) t) as [[[st' r] a]|]; [|discriminate].
  intros H; inversion H; subst; cbn. eauto.
Qed.

Lemma step_acc_thr fx st t st' r a :
  step_acc fx st t = Some (st', r, a) ->
  t < length (s_thr st) /\ length (s_thr st') = length (s_thr st).
Proof.
  unfold step_acc. destruct (nth_error (s_thr st) t) as [th|] eqn:E; [|discriminate].
  destruct (start th (s_inv st)) as [[[[o ops'] pc0] inv']|]; [|discriminate].
  destruct (pstep fx (s_mem st) pc0) as [[[m' pc'] r'] a'].
  intros H; inversion H; subst; cbn. rewrite length_upd. split; auto. eapply nth_error_lt; eauto.
Qed.

Lemma mon_step_none fx n tab ms t :
  mon_step fx n tab ms t = None -> step_acc fx (ms_st ms) t = None.
Proof.
  unfold mon_step. destruct (nth_error (s_thr (ms_st ms)) t) eqn:E.
  - destruct (step_acc fx (ms_st ms) t) as [[[st' r] a]|]; [discriminate|auto].
  - intros _. unfold step_acc. now rewrite E.
Qed.

Lemma in_seen_find seen ms : in_seen seen ms = true -> exists key, PositiveMap.find key seen = Some ms.
Proof.
  unfold in_seen. destruct (PositiveMap.find (enc ms) seen) as [ms'|] eqn:E; [|discriminate].
  destruct (mstate_eq_dec ms ms'); [|discriminate]. subst. eauto.
Qed.

Section Explorer.
Variables (fx : bool) (n : nat) (tab : list nat) (k : nat) (i : mstate) (seen : PositiveMap.t mstate).
Hypothesis Hc : closed_ok fx n tab k i seen = true.

Definition einv (ms : mstate) : Prop :=
  in_seen seen ms = true /\ length (s_thr (ms_st ms)) = k.

Lemma einv_checked ms : einv ms ->
  ms_bad ms = false /\ rank_okb (s_mem (ms_st ms)) = true /\
  forallb (in_seen seen) (succs fx n tab k ms) = true.
Proof.
  intros [H _]. apply in_seen_find in H as [key Hk].
  apply PositiveMap.elements_correct in Hk.
  unfold closed_ok in Hc. apply andb_true_iff in Hc as [_ Hc'].
  rewrite forallb_forall in Hc'. specialize (Hc' _ Hk). cbn in Hc'.
  apply andb_true_iff in Hc' as [Hc' H3]. apply andb_true_iff in Hc' as [H1 H2].
  apply negb_true_iff in H1. auto.
Qed.

Lemma einv_step ms t ms' : einv ms -> mon_step fx n tab ms t = Some ms' -> einv ms'.
Proof.
  intros I E. destruct (einv_checked ms I) as [_ [_ H]]. destruct I as [_ L].
  destruct (mon_step_some _ _ _ _ _ _ E) as [r [a Ea]].
  destruct (step_acc_thr _ _ _ _ _ _ Ea) as [Ht Hl].
  split; [|congruence].
  rewrite forallb_forall in H. apply H. unfold succs. apply in_flat_map.
  exists t. split; [apply in_seq; lia|]. rewrite E. cbn. auto.
Qed.

Lemma einv_run sched : forall ms, einv ms -> einv (mon_run_from fx n tab ms sched).
Proof.
  induction sched as [|t s IH]; intros ms I; cbn; auto.
  destruct (mon_step fx n tab ms t) eqn:E; auto. apply IH. eapply einv_step; eauto.
Qed.

Lemma einv_no_wrap sched : forall ms, einv ms -> no_wrap fx (ms_st ms) sched.
Proof.
  induction sched as [|t s IH]; intros ms I; cbn; auto.
  unfold step. destruct (mon_step fx n tab ms t) as [ms'|] eqn:E.
  - destruct (mon_step_some _ _ _ _ _ _ E) as [r [a Ea]]. rewrite Ea.
    split; [|apply IH; eapply einv_step; eauto].
    apply rank_okb_sound. apply (einv_checked ms I).
  - rewrite (mon_step_none _ _ _ _ _ E). auto.
Qed.
End Explorer.

Theorem explore_sound fx fuel n scripts :
  explore fx fuel n scripts = true ->
  scripts_wf n scripts /\
  forall sched, mon_ok fx n scripts sched = true /\ no_wrap fx (init n scripts) sched.
Proof.
  unfold explore. intros H. apply andb_true_iff in H as [W H].
  split.
  { unfold scripts_wf. apply Forall_forall. intros s Hs. apply Forall_forall. intros o Ho.
    rewrite forallb_forall in W. specialize (W s Hs). rewrite forallb_forall in W.
    specialize (W o Ho). destruct o; unfold op_wfb, op_wf in *;
      rewrite ?andb_true_iff, ?Nat.ltb_lt in W; auto. }
  set (tab := classes n (all_unions scripts)) in *.
  set (seen := dfs fx n tab (length scripts) fuel [mon_init n scripts] (PositiveMap.empty mstate)) in *.
  assert (I0 : einv (length scripts) seen (mon_init n scripts)).
  { split; [|cbn; now rewrite map_length]. unfold closed_ok in H. apply andb_true_iff in H. tauto. }
  intros sched. split.
  - unfold mon_ok, mon_run. fold tab.
    destruct (einv_checked fx n tab _ _ seen H _ (einv_run fx n tab _ _ seen H sched _ I0)) as [B _].
    now rewrite B.
  - apply (einv_no_wrap fx n tab _ _ seen H sched _ I0).
Qed.

(** What a good verdict of the monitor means for the run itself. *)
Lemma mon_run_from_st fx n tab sched : forall ms,
  ms_st (mon_run_from fx n tab ms sched) = fst (run_from fx (ms_st ms) sched).
Proof.
  induction sched as [|t s IH]; intros ms; cbn; auto.
  unfold step. destruct (mon_step fx n tab ms t) as [ms'|] eqn:E.
  - destruct (mon_step_some _ _ _ _ _ _ E) as [r [a Ea]]. rewrite Ea, IH.
    destruct (run_from fx (ms_st ms') s); auto.
  - rewrite (mon_step_none _ _ _ _ _ E). auto.
Qed.

Lemma mon_bad_sticky fx n tab sched : forall ms,
  ms_bad ms = true -> ms_bad (mon_run_from fx n tab ms sched) = true.
Proof.
  induction sched as [|t s IH]; intros ms B; cbn; auto.
  destruct (mon_step fx n tab ms t) as [ms'|] eqn:E; auto. apply IH.
  unfold mon_step in E. destruct (nth_error (s_thr (ms_st ms)) t); [|discriminate].
  destruct (step_acc fx (ms_st ms) t) as [[[st' r] a]|]; [|discriminate].
  inversion E; subst; cbn. now rewrite B.
Qed.

(** If the monitor accepts every schedule then in particular: after every schedule that performs
    at least one step the memory is acyclic, and at quiescence the partition is the closure. *)
Lemma mon_ok_last fx n scripts sched t :
  mon_ok fx n scripts (sched ++ [t]) = true ->
  let st := fst (run_v fx n scripts sched) in
  forall st' r a, step_acc fx st t = Some (st', r, a) ->
    acyclic_b (s_mem st') = true /\
    (quiescent st' = true -> partition_ok n (classes n (all_unions scripts)) (s_mem st') = true).
Proof.
  unfold mon_ok, mon_run. set (tab := classes n (all_unions scripts)).
  intros H st' r a E. set (st := fst (run_v fx n scripts sched)) in *. apply negb_true_iff in H.
  assert (Happ : forall s1 s2 ms, mon_run_from fx n tab ms (s1 ++ s2) =
                                  mon_run_from fx n tab (mon_run_from fx n tab ms s1) s2).
  { induction s1 as [|u s1 IH]; intros s2 ms; cbn; auto. destruct (mon_step fx n tab ms u); auto. }
  rewrite Happ in H. set (ms := mon_run_from fx n tab (mon_init n scripts) sched) in *.
  assert (Est : ms_st ms = st) by (unfold ms, st, run_v; now rewrite mon_run_from_st).
  cbn in H. unfold mon_step in H. rewrite Est in H.
  destruct (step_acc_thr _ _ _ _ _ _ E) as [Ht _].
  destruct (nth_error (s_thr st) t) as [th|] eqn:Eth; [|apply nth_error_None in Eth; lia].
  rewrite E in H. cbn in H.
  apply orb_false_iff in H as [H Hq]. apply orb_false_iff in H as [H Hr].
  apply orb_false_iff in H as [_ Ha].
  apply negb_false_iff in Ha, Hq. split; auto.
  intros Q. rewrite Q in Hq. exact Hq.
Qed.

(** * Ranks stay small: with fewer than 255 nodes no rank ever reaches 255
    (every rank increment is paid for by a link, and every link removes a root). *)
Definition nroots (n : nat) (m : mem) : nat :=
  length (filter (fun x => parent m x =? x) (seq 0 n)).
Definition pendb (pc : pcT) : bool :=
  match pc with PLink2 _ _ | PCas2 _ _ _ _ => true | _ => false end.
Definition pend_th (th : thread) : bool :=
  match t_cur th with None => false | Some _ => pendb (t_pc th) end.
Definition npend (thr : list thread) : nat := length (filter pend_th thr).

Lemma count_change (f f' : nat -> bool) n x : forall s,
  s <= x < s + n -> (forall z, z <> x -> f' z = f z) ->
  length (filter f' (seq s n)) + b2n (f x) = length (filter f (seq s n)) + b2n (f' x).
Proof.
  induction n as [|n IH]; intros s Hx Hz; [lia|]. cbn [seq filter].
  destruct (Nat.eq_dec s x) as [->|Hne].
  - assert (E : filter f' (seq (S x) n) = filter f (seq (S x) n)).
    { apply filter_ext_in. intros z Hin. apply in_seq in Hin. apply Hz. lia. }
    rewrite E. destruct (f x), (f' x); cbn; lia.
  - rewrite (Hz s Hne). specialize (IH (S s) ltac:(lia) Hz). destruct (f s); cbn; lia.
Qed.

Lemma nroots_wr n m x p r : length m = n -> x < n ->
  nroots n (wr m x (p, r)) + b2n (parent m x =? x) = nroots n m + b2n (p =? x).
Proof.
  intros L Hx. unfold nroots.
  rewrite (count_change (fun z => parent m z =? z) (fun z => parent (wr m x (p, r)) z =? z) n x 0)
    by (try lia; intros z Hz; now rewrite parent_wr_neq by auto).
  rewrite parent_wr_eq by lia. reflexivity.
Qed.

Lemma npend_upd thr t th th' : nth_error thr t = Some th ->
  npend (upd thr t th') + b2n (pend_th th) = npend thr + b2n (pend_th th').
Proof.
  unfold npend. revert t; induction thr as [|c thr IH]; intros [|t] H; cbn in *; try discriminate.
  - inversion H; subst. destruct (pend_th th), (pend_th th'); cbn; lia.
  - specialize (IH t H). destruct (pend_th c); cbn; lia.
Qed.

Lemma pstep_cnt n m A B pc m' pc' r a K :
  minv n m -> (forall x, rank m x < 255) ->
  pcnodes (NR n m A) (NR n m B) pc -> pcrank n m A B pc ->
  pstep true m pc = (m', pc', r, a) ->
  (forall x, rank m x + nroots n m + b2n (pendb pc) <= K) ->
  (forall x, rank m' x + nroots n m' +
             b2n (pendb (match r with Some _ => PIdle | None => pc' end)) <= K).
Proof.
  intros M RK N Q E H. assert (L : length m = n) by apply M.
  destruct pc; cbn [pstep] in E;
  repeat match type of E with
  | (if ?c then _ else _) = _ => destruct c eqn:?
  | (let (_, _) := find_ret ?k ?x in _) = _ => destruct (find_ret k x) as [? []] eqn:?
  end;
  try (inv4 E; intros z; specialize (H z); cbn [pendb b2n] in *; lia);
  try (inv4 E; intros z; specialize (H z); destruct k; cbn in *;
       repeat match goal with H : context [if ?c then _ else _] |- _ => destruct c end;
       match goal with H : (_, _) = (_, _) |- _ => inversion H; subst end; cbn; lia).
  - (* PF4 *) destruct (cas m x (xp, xr) (np, xr)) as [m1 ok] eqn:C. inv4 E.
    apply cas_spec in C as [[_ [C1 ->]]|[_ ->]]; [|intros z; specialize (H z); cbn in *; lia].
    destruct N as [N1 [_ [N3 _]]]. destruct Q as [Q1 Q2].
    destruct (kside_NR _ _ _ _ _ _ _ N1 N3) as [Hx [Hnp _]].
    assert (Rm : rank m x = xr) by (unfold rank; now rewrite C1).
    pose proof (nroots_wr n m x np xr L Hx) as NRW.
    assert (E1 : (parent m x =? x) = false) by now apply Nat.eqb_neq.
    assert (E2 : (np =? x) = false).
    { apply Nat.eqb_neq. intros ->. unfold lexlt in Q2. lia. }
    rewrite E1, E2 in NRW. cbn in NRW.
    intros z. specialize (H z). cbn [pendb b2n] in *.
    destruct (Nat.eq_dec x z) as [<-|Hz];
      [rewrite rank_wr_eq by lia | rewrite rank_wr_neq by auto]; lia.
  - (* PCas1 *) destruct Q as [Q1 [Q2 [Q3 [-> ->]]]]. destruct N as [[Hx _] _].
    destruct (cas m x (x, xrank) (y, xrank)) as [m1 ok] eqn:C.
    apply cas_spec in C as [[-> [C1 ->]]|[-> ->]].
    + assert (Rm : rank m x = xrank) by (unfold rank; now rewrite C1).
      assert (Pm : parent m x = x) by (unfold parent; now rewrite C1).
      pose proof (nroots_wr n m x y xrank L Hx) as NRW.
      rewrite Pm, Nat.eqb_refl in NRW.
      assert (E2 : (y =? x) = false) by (apply Nat.eqb_neq; congruence).
      rewrite E2 in NRW. cbn in NRW.
      assert (forall z, rank (wr m x (y, xrank)) z = rank m z).
      { intros z. destruct (Nat.eq_dec x z) as [<-|Hz];
          [rewrite rank_wr_eq by lia | rewrite rank_wr_neq by auto]; auto. }
      destruct (xrank =? yrank); inv4 E; intros z; specialize (H z); cbn [pendb b2n] in *;
        rewrite H0; lia.
    + inv4 E. intros z; specialize (H z); cbn [pendb b2n] in *; lia.
  - (* PCas2 *) destruct Q as [Q1 [-> ->]]. destruct N as [Hy _].
    destruct (cas m y (y, yrank) (y, rank_succ yrank)) as [m1 ok] eqn:C. inv4 E.
    apply cas_spec in C as [[_ [C1 ->]]|[_ ->]]; [|intros z; specialize (H z); cbn in *; lia].
    assert (Rm : rank m y = yrank) by (unfold rank; now rewrite C1).
    assert (Pm : parent m y = y) by (unfold parent; now rewrite C1).
    assert (Hr : rank_succ yrank = S yrank).
    { specialize (RK y). unfold rank_succ. rewrite Nat.mod_small; lia. }
    rewrite Hr in *.
    pose proof (nroots_wr n m y y (S yrank) L Hy) as NRW.
    rewrite Pm, Nat.eqb_refl in NRW. cbn [b2n] in NRW.
    intros z. pose proof (H z). pose proof (H y). cbn [pendb b2n] in *.
    destruct (Nat.eq_dec y z) as [<-|Hz];
      [rewrite rank_wr_eq by lia | rewrite rank_wr_neq by auto]; lia.
Qed.

Definition cinv (n : nat) (st : state) : Prop :=
  forall x, rank (s_mem st) x + nroots n (s_mem st) + npend (s_thr st) <= n.

Lemma step_acc_cnt n st t st' r a :
  n < 255 -> finv n st -> cinv n st -> step_acc true st t = Some (st', r, a) -> cinv n st'.
Proof.
  intros Hn [M [T P]] C E. unfold step_acc in E.
  destruct (nth_error (s_thr st) t) as [th|] eqn:Eth; [|discriminate].
  destruct (start th (s_inv st)) as [[[[o ops'] pc0] inv']|] eqn:Es; [|discriminate].
  destruct (pstep true (s_mem st) pc0) as [[[m' pc'] r'] a'] eqn:Ep.
  inversion E; subst st' r' a'; clear E.
  assert (Tth : tinv_f n (s_mem st) th).
  { rewrite Forall_forall in T. apply T. eapply nth_error_In; eauto. }
  pose proof (start_tinv_f n _ _ _ _ _ _ _ M Es Tth) as [T1 T2]. cbn [t_ops t_cur t_pc] in T1, T2.
  destruct T2 as [W [K [A [B [HA [HN HQ]]]]]].
  assert (RK : forall x, rank (s_mem st) x < 255) by (intros x; specialize (C x); lia).
  assert (Pold : pend_th th = pendb pc0).
  { unfold pend_th. apply start_spec in Es as [[Cu [_ [-> _]]]|[Cu [_ [-> _]]]]; rewrite Cu; auto.
    destruct o; reflexivity. }
  set (th' := match r with Some _ => mkT ops' None PIdle | None => mkT ops' (Some o) pc' end).
  assert (Pnew : pend_th th' = pendb (match r with Some _ => PIdle | None => pc' end)).
  { unfold th'. destruct r; reflexivity. }
  pose proof (npend_upd _ t th th' Eth) as U1.
  pose proof (npend_upd _ t th (mkT [] None PIdle) Eth) as U2.
  change (pend_th (mkT [] None PIdle)) with false in U2. cbn [b2n] in U2.
  set (others := npend (upd (s_thr st) t (mkT [] None PIdle))) in *.
  rewrite Pold in U1, U2. rewrite Pnew in U1.
  assert (H : forall x, rank (s_mem st) x + nroots n (s_mem st) + b2n (pendb pc0) <= n - others).
  { intros x. specialize (C x). lia. }
  pose proof (pstep_cnt n _ A B _ _ _ _ _ _ M RK HN HQ Ep H) as H'.
  intros x. cbn [s_mem s_thr]. fold th'. specialize (H' x). specialize (C x). lia.
Qed.

Lemma filter_all {A} (f : A -> bool) l : (forall x, In x l -> f x = true) -> filter f l = l.
Proof.
  induction l as [|a l IH]; cbn; auto. intros H. rewrite (H a) by auto. f_equal. apply IH. auto.
Qed.

Lemma cinv_init n scripts : cinv n (init n scripts).
Proof.
  intros x. cbn [init s_mem s_thr]. rewrite rank_init.
  assert (E1 : nroots n (init_mem n) = n).
  { unfold nroots. rewrite filter_all, seq_length; auto.
    intros z _. rewrite parent_init. apply Nat.eqb_refl. }
  assert (E2 : npend (map (fun s => mkT s None PIdle) scripts) = 0).
  { unfold npend. induction scripts; cbn; auto. }
  lia.
Qed.

Lemma no_wrap_from n sched : n < 255 ->
  forall st, finv n st -> cinv n st -> no_wrap true st sched.
Proof.
  intros Hn. induction sched as [|t s IH]; intros st F C; cbn; auto.
  unfold step. destruct (step_acc true st t) as [[[st' r] a]|] eqn:E; auto.
  assert (RK : forall x, rank (s_mem st) x < 255) by (intros x; specialize (C x); lia).
  split; auto. apply IH.
  - eapply step_acc_full; eauto.
  - eapply step_acc_cnt; eauto.
Qed.

(** With fewer than 255 nodes the hypothesis [no_wrap] of the theorems below always holds. *)
Theorem no_wrap_small n scripts sched :
  scripts_wf n scripts -> n < 255 -> no_wrap true (init n scripts) sched.
Proof.
  intros W Hn. apply (no_wrap_from n); auto; [now apply finv_init | apply cinv_init].
Qed.

(** * The executable class table agrees with the closure *)
Lemma length_classes n u : length (classes n u) = n.
Proof.
  induction u as [|[a b] u IH]; cbn; [apply seq_length|]. now rewrite map_length.
Qed.

Definition lab (n : nat) (u : list (nat * nat)) (x : nat) : nat := nth x (classes n u) x.

Lemma lab_nil n x : x < n -> lab n [] x = x.
Proof. intros H. unfold lab. cbn. rewrite seq_nth; auto. Qed.

Lemma lab_cons n a b u x : x < n ->
  lab n ((a, b) :: u) x = if lab n u x =? lab n u a then lab n u b else lab n u x.
Proof.
  intros H. unfold lab. cbn [classes].
  set (c := classes n u). set (f := fun l => if l =? nth a c a then nth b c b else l).
  rewrite nth_indep with (d' := f x) by (rewrite map_length; unfold c; now rewrite length_classes).
  rewrite map_nth. reflexivity.
Qed.

Lemma closure_nil n x y : closure n [] x y -> x = y.
Proof. induction 1; auto; try congruence. destruct H. Qed.

Lemma classes_closure n u :
  Forall (fun p => fst p < n /\ snd p < n) u ->
  forall x y, x < n -> y < n -> (lab n u x = lab n u y <-> closure n u x y).
Proof.
  induction u as [|[a b] u IH]; intros W x y Hx Hy.
  - rewrite !lab_nil by auto. split; [intros ->; now apply cl_refl | apply closure_nil].
  - inversion W as [|p l [Ha Hb] W']; subst. cbn in Ha, Hb. specialize (IH W').
    assert (Mono : forall z w, closure n u z w -> closure n ((a, b) :: u) z w).
    { intros z w. apply closure_mono. intros p Hp. now right. }
    assert (AB : closure n ((a, b) :: u) a b) by (apply cl_base; cbn; auto).
    split.
    + rewrite !lab_cons by auto. intros E.
      destruct (lab n u x =? lab n u a) eqn:Ex; destruct (lab n u y =? lab n u a) eqn:Ey.
      * apply Nat.eqb_eq in Ex, Ey. apply Mono, IH; auto. congruence.
      * apply Nat.eqb_eq in Ex. apply IH in Ex; auto. apply IH in E; auto.
        eapply cl_trans; [apply Mono; exact Ex|]. eapply cl_trans; [exact AB|]. now apply Mono.
      * apply Nat.eqb_eq in Ey. apply IH in Ey; auto. symmetry in E. apply IH in E; auto.
        apply cl_sym. eapply cl_trans; [apply Mono; exact Ey|]. eapply cl_trans; [exact AB|].
        now apply Mono.
      * apply Mono, IH; auto.
    + intros C. clear Hx Hy.
      induction C as [x Hx|x y Hin Hx Hy|x y C IHC|x y z C1 IH1 C2 IH2]; auto; try congruence.
      rewrite !lab_cons by auto. destruct Hin as [Hin|Hin].
      * inversion Hin; subst. rewrite Nat.eqb_refl.
        destruct (lab n u y =? lab n u x); auto.
      * assert (E : lab n u x = lab n u y) by (apply IH; auto; now apply cl_base).
        now rewrite E.
Qed.

(** [same_class] decides the closure (for well-formed unions). *)
Theorem same_class_spec n u x y :
  Forall (fun p => fst p < n /\ snd p < n) u ->
  (same_class n u x y = true <-> closure n u x y).
Proof.
  intros W. unfold same_class, same_class_tab. fold (lab n u x) (lab n u y).
  rewrite !andb_true_iff, !Nat.ltb_lt, Nat.eqb_eq. split.
  - intros [[Hx Hy] E]. apply classes_closure; auto.
  - intros C. destruct (closure_lt _ _ _ _ C) as [Hx Hy]. repeat split; auto.
    apply classes_closure; auto.
Qed.

(** * (e) Bounded exhaustive check of the repaired linking: ALL interleavings *)
Definition explore_fuel : nat := 4000 * 1000.

(** Family: 3 threads x 2 operations and 2 threads x 3 operations over 3 or 4 nodes, mixing
    union / sameSet / find with contention on the same roots. For every schedule (of any length;
    entries of finished threads are skipped) the monitor of UnionFindDefs.mon_step accepts: the
    memory is acyclic after every step, when a union returns its arguments share a root, every
    find returns the root its argument has at the return, every sameSet answer equals the
    true answer at some instant between its first and last step, and at quiescence the
    partition is the closure of the requested unions. No rank ever reaches 255. *)
Theorem uf_linearizable_bounded :
  forall cfg, In cfg
    [ (4, [[OUnion 0 1; OUnion 2 3]; [OUnion 1 2; OSame 0 3]; [OUnion 3 0; OFind 1]]);
      (3, [[OUnion 0 1; OSame 1 2]; [OUnion 1 2; OFind 0]; [OUnion 2 0; OSame 0 1]]);
      (3, [[OUnion 0 1; OUnion 1 2]; [OUnion 1 2; OUnion 2 0]; [OUnion 2 0; OUnion 0 1]]);
      (3, [[OUnion 0 1; OUnion 1 2]; [OUnion 2 1]; [OFind 2]]);
      (4, [[OUnion 0 1; OUnion 2 3; OSame 0 3]; [OUnion 1 2; OFind 0; OUnion 3 0]]);
      (3, [[OUnion 0 1; OUnion 1 2; OSame 0 2]; [OUnion 2 1; OFind 2; OSame 1 0]]) ] ->
  scripts_wf (fst cfg) (snd cfg) /\
  forall sched, mon_ok true (fst cfg) (snd cfg) sched = true /\
                no_wrap true (init (fst cfg) (snd cfg)) sched.
Proof.
  intros cfg H. apply (explore_sound true explore_fuel). revert cfg H. apply Forall_forall.
  repeat (apply Forall_cons; [cbn [fst snd]; vm_cast_no_check (eq_refl true)|]).
  apply Forall_nil.
Qed.

(** A second family member: three threads each doing a union and then a sameSet on 4 nodes. *)
Theorem uf_linearizable_bounded_2 :
  let n := 4 in
  let scripts := [[OUnion 0 1; OSame 2 3]; [OUnion 2 3; OSame 0 1]; [OUnion 1 2; OSame 0 3]] in
  scripts_wf n scripts /\
  forall sched, mon_ok true n scripts sched = true /\ no_wrap true (init n scripts) sched.
Proof.
  intros n scripts. apply (explore_sound true explore_fuel). vm_cast_no_check (eq_refl true).
Qed.

(** * The code as it is ([fx = false]): refutations by a concrete interleaving.
    T0 runs union(0,1), then findNode(1), findNode(2) of union(1,2); T1 runs union(2,1) completely
    (2 is linked under 1 and its block receives rank 1); T0 resumes, reads rank 1 for both, does not
    swap since 1 < 2, and its updateRoot(1,1,2,1) succeeds: 1 -> 2 and 2 -> 1. Then two concurrent
    path halvings turn both 1 and 2 into roots: the union is lost. *)
Definition bad_scripts : list (list op) :=
  [[OUnion 0 1; OUnion 1 2; OFind 1]; [OUnion 2 1; OFind 2]; [OSame 1 2]].
Definition bad_sched_cycle : list nat :=
  [0;0;0;0;0;0;0;0; 0;0; 1;1;1;1;1;1; 0;0;0;0].
Definition bad_sched_split : list nat :=
  bad_sched_cycle ++ [0; 0;0;0; 1;1;1;1;1; 0;0] ++ [2;2;2;2;2;2;2;2].

Lemma bad_scripts_wf : scripts_wf 3 bad_scripts.
Proof. repeat constructor. Qed.

(** (a) fails: parent links form a cycle between two distinct nodes. *)
Theorem uf_acyclic_refuted :
  exists scripts sched, scripts_wf 3 scripts /\ no_wrap false (init 3 scripts) sched /\
    let m := s_mem (fst (run 3 scripts sched)) in parent m 1 = 2 /\ parent m 2 = 1.
Proof.
  exists bad_scripts, bad_sched_cycle. split; [apply bad_scripts_wf|]. split.
  - apply no_wrapb_sound. vm_compute. reflexivity.
  - vm_compute. auto.
Qed.

(** (c) fails: all threads have finished, union(1,2) and union(2,1) have both returned, yet 1 and 2
    are in different trees, and a sameSet(1,2) that ran after everything else answered false. *)
Theorem uf_union_complete_refuted :
  exists scripts sched, scripts_wf 3 scripts /\ no_wrap false (init 3 scripts) sched /\
    let r := run 3 scripts sched in
    quiescent (fst r) = true /\
    closure 3 (all_unions scripts) 1 2 /\
    ~ sameroot (s_mem (fst r)) 1 2 /\
    snd r = [(0, RUnion); (1, RUnion); (0, RUnion); (1, RFind 2); (0, RFind 1); (2, RSame false)].
Proof.
  exists bad_scripts, bad_sched_split. split; [apply bad_scripts_wf|]. split.
  - apply no_wrapb_sound. vm_compute. reflexivity.
  - assert (E : run 3 bad_scripts bad_sched_split =
      (mkS [(1, 0); (1, 1); (2, 1)]
           [mkT [] None PIdle; mkT [] None PIdle; mkT [] None PIdle]
           [(0, 1); (1, 2); (2, 1)],
       [(0, RUnion); (1, RUnion); (0, RUnion); (1, RFind 2); (0, RFind 1); (2, RSame false)]))
      by (vm_compute; reflexivity).
    rewrite E. cbn [fst snd s_mem]. split; [reflexivity|]. split; [|split; [|reflexivity]].
    + apply cl_base; cbn; auto.
    + intros [r [R [A1 A2]]].
      assert (r = 1) by (eapply anc_root; [|exact A1]; reflexivity).
      assert (r = 2) by (eapply anc_root; [|exact A2]; reflexivity).
      congruence.
Qed.

(** The monitor of the bounded check rejects these interleavings of the code as it is. *)
Theorem uf_linearizable_bounded_refuted :
  exists scripts sched, scripts_wf 3 scripts /\ mon_ok false 3 scripts sched = false.
Proof.
  exists bad_scripts, bad_sched_split. split; [apply bad_scripts_wf | vm_compute; reflexivity].
Qed.

(** With the repaired linking the same schedule is harmless. *)
Example bad_sched_fixed :
  let r := run_fixed 3 bad_scripts bad_sched_split in
  s_mem (fst r) = [(1, 0); (1, 1); (1, 0)] /\ In (2, RSame true) (snd r) /\
  mon_ok true 3 bad_scripts bad_sched_split = true.
Proof. vm_compute. auto 10. Qed.

(** * (f) Non-vacuity *)
(** A CAS in updateRoot fails and the union retries: both threads try to link root 0. *)
Example ex_cas_fails_and_retries :
  let scripts := [[OUnion 0 1]; [OUnion 0 2]] in
  let sched := [0;0;0;0;0; 1;1;1;1;1; 1; 0; 1;1; 0;0;0;0;0;0;0;0;0;0] in
  let r := run_events_from true (init 3 scripts) sched in
  In (1, None, mkAcc (ACas true) 0 0 0) (snd r) /\        (* T1 links 0 under 2 *)
  In (0, None, mkAcc (ACas false) 0 2 0) (snd r) /\       (* T0's CAS on 0 fails: it sees (2,0) *)
  In (0, Some RUnion, mkAcc (ACas true) 1 1 0) (snd r) /\ (* T0 retries and links 1 under 2 *)
  s_mem (fst r) = [(2, 0); (2, 0); (2, 1)] /\ quiescent (fst r) = true /\
  no_wrap true (init 3 scripts) sched /\ scripts_wf 3 scripts.
Proof.
  cbv zeta.
  split; [vm_compute; repeat (first [left; reflexivity | right])|].
  split; [vm_compute; repeat (first [left; reflexivity | right])|].
  split; [vm_compute; repeat (first [left; reflexivity | right])|].
  split; [vm_compute; reflexivity|]. split; [vm_compute; reflexivity|].
  split; [apply no_wrapb_sound; vm_compute; reflexivity | repeat constructor].
Qed.

(** Path halving (T1's find 0 re-points 0 from 1 to 3) between the link and the rank increment
    of T0's union(1,3). *)
Example ex_halving_inside_union :
  let scripts := [[OUnion 0 1; OUnion 2 3; OUnion 1 3]; [OFind 0]] in
  let sched := [0;0;0;0;0;0;0;0; 0;0;0;0;0;0;0;0; 0;0;0;0;0;0; 1;1;1;1; 0;0; 1;1;1] in
  let r := run_events_from true (init 4 scripts) sched in
  exists pre mid post,
    snd r = pre ++ [(0, None, mkAcc (ACas true) 1 1 1)] ++ mid ++
                   [(0, Some RUnion, mkAcc (ACas true) 3 3 1)] ++ post /\
    In (1, None, mkAcc (ACas true) 0 1 0) mid /\
    s_mem (fst r) = [(3, 0); (3, 1); (3, 0); (3, 2)] /\
    no_wrap true (init 4 scripts) sched /\ scripts_wf 4 scripts /\
    quiescent (fst r) = true.
Proof.
  cbv zeta.
  set (r := run_events_from true (init 4 [[OUnion 0 1; OUnion 2 3; OUnion 1 3]; [OFind 0]])
              [0;0;0;0;0;0;0;0; 0;0;0;0;0;0;0;0; 0;0;0;0;0;0; 1;1;1;1; 0;0; 1;1;1]).
  exists (firstn 21 (snd r)), (firstn 5 (skipn 22 (snd r))), (skipn 28 (snd r)).
  split; [vm_compute; reflexivity|].
  split; [vm_compute; repeat (first [left; reflexivity | right])|].
  split; [vm_compute; reflexivity|].
  split; [apply no_wrapb_sound; vm_compute; reflexivity|].
  split; [repeat constructor | vm_compute; reflexivity].
Qed.

(** * The unbounded theorems for fewer than 255 nodes, without the [no_wrap] hypothesis *)
Theorem uf_acyclic_small n scripts sched :
  scripts_wf n scripts -> n < 255 ->
  let m := s_mem (fst (run_fixed n scripts sched)) in
  (forall x, x < n -> parent m x < n /\
     (parent m x <> x -> lexlt (rank m x) x (rank m (parent m x)) (parent m x))) /\
  (forall x k, Nat.iter (S k) (parent m) x = x -> parent m x = x) /\
  (forall x, exists k, k <= n /\ is_root m (Nat.iter k (parent m) x)).
Proof. intros W Hn. apply uf_acyclic; auto. now apply no_wrap_small. Qed.

Theorem uf_ranks_monotone_small n scripts sched t st' rs :
  scripts_wf n scripts -> n < 255 ->
  let st := fst (run_fixed n scripts sched) in
  step true st t = Some (st', rs) ->
  forall x, rank (s_mem st) x <= rank (s_mem st') x /\
            (parent (s_mem st) x <> x ->
             parent (s_mem st') x <> x /\ rank (s_mem st') x = rank (s_mem st) x).
Proof. intros W Hn. apply uf_ranks_monotone; auto. now apply no_wrap_small. Qed.

Theorem uf_union_returns_small n scripts sched t st' rs :
  scripts_wf n scripts -> n < 255 ->
  let st := fst (run_fixed n scripts sched) in
  step true st t = Some (st', rs) -> In RUnion rs ->
  exists x y, cur_op st t = Some (OUnion x y) /\ sameroot (s_mem st') x y.
Proof. intros W Hn. apply uf_union_returns; auto. now apply no_wrap_small. Qed.

Theorem uf_classes_never_split_small n scripts sched sched' x y :
  scripts_wf n scripts -> n < 255 ->
  sameroot (s_mem (fst (run_fixed n scripts sched))) x y ->
  sameroot (s_mem (fst (run_fixed n scripts (sched ++ sched')))) x y.
Proof. intros W Hn. apply uf_classes_never_split; auto. now apply no_wrap_small. Qed.

Theorem uf_union_complete_small n scripts sched :
  scripts_wf n scripts -> n < 255 ->
  let st := fst (run_fixed n scripts sched) in
  quiescent st = true ->
  forall x y, x < n -> y < n ->
    (sameroot (s_mem st) x y <-> closure n (all_unions scripts) x y) /\
    (root (s_mem st) x = root (s_mem st) y <-> closure n (all_unions scripts) x y).
Proof.
  intros W Hn st Q x y Hx Hy. pose proof (no_wrap_small n scripts sched W Hn) as NW. split.
  - now apply uf_union_complete.
  - now apply uf_union_complete_root.
Qed.

(** Non-vacuity of the hypotheses of the unbounded theorems: well-formed scripts over 3 nodes, a
    schedule after which all threads have finished, a step that returns from a union. *)
Example ex_hypotheses :
  let scripts := [[OUnion 0 1; OUnion 1 2; OFind 1]; [OUnion 2 1; OFind 2]; [OSame 1 2]] in
  scripts_wf 3 scripts /\ 3 < 255 /\
  quiescent (fst (run_fixed 3 scripts bad_sched_split)) = true /\
  (exists st' , step true (fst (run_fixed 3 scripts [0;0;0;0;0;0;0])) 0 = Some (st', [RUnion])) /\
  (exists st' , step false (fst (run 3 scripts (bad_sched_split))) 2 = None /\
                step false (fst (run 3 scripts (firstn 33 bad_sched_split))) 2 = Some (st', [RSame false])).
Proof.
  cbv zeta. split; [repeat constructor|]. split; [lia|]. split; [vm_compute; reflexivity|].
  split; eexists; vm_compute; [reflexivity | split; reflexivity].
Qed.

(* NOT PROVED:
   - The property C29 as stated does not hold of the code as it is (model switch fx = false):
     see uf_acyclic_refuted, uf_union_complete_refuted, uf_linearizable_bounded_refuted above
     (the interleaving was replayed by hand against the real UnionFind.h with the same final
     memory 1:0 1:1 2:1). uf_acyclic / uf_union_* are therefore proved for the repaired linking
     only (fx = true: updateRoot(x, xrank, y, xrank) in unionNodes); uf_sound and
     sameset_true_correct hold for both.
   - sameSet answering [false] ("correct at some instant during the call") has no unbounded
     proof, for either variant; it is covered only by the bounded exhaustive theorems
     uf_linearizable_bounded(_2) through the monitor. Likewise "find returns the root its
     argument has at the instant of the return" is unbounded only in the weaker form
     [sameroot x z /\ is_root z] inside step_acc_full (not exported as a theorem).
   - Ranks: the theorems are stated for runs with n < 255 nodes (no_wrap_small) or under the
     explicit run hypothesis [no_wrap]; the sharper fact "rank r needs 2^r nodes", which would
     give n < 2^255, is not proved.
   - Concurrent makeNode (PiggyList growth) is outside the model.
   - Termination (lock-freedom) of the retry loops is not addressed; the model steps are total
     but a schedule can starve a thread. *)
