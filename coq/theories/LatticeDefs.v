(** C12: validator for relations with a lattice-typed last attribute (`.lattice` / `<lattice>`
    attribute types; ast2ram translates updates of such a relation into "join with the stored value
    of the same key"). Run on the FINAL database printed by Souffle. Definitions only;
    specification and proofs in LatticeLemmas.v. *)
From SV Require Export DatalogDefs DatalogSem ContractDefs.
Local Open Scope Z_scope.

(** the three intrinsic join families; the lattice value is a record with one number field *)
Inductive jkind := JMax | JMin | JBor.
Definition jop (j : jkind) (a b : Z) : Z :=
  match j with JMax => smax a b | JMin => smin a b | JBor => bor a b end.
Definition lat (x : Z) : value := VRec [VNum x].
Definition lat_val (v : value) : option Z := match v with VRec [VNum x] => Some x | _ => None end.
Definition join (j : jkind) (a b : value) : res value :=
  match lat_val a, lat_val b with
  | Some x, Some y => Ok (lat (jop j x y))
  | _, _ => Stuck
  end.
(** join of a non-empty list of values (the first one is joined with itself so that a single
    malformed value is reported, not accepted) *)
Fixpoint fold_join_from (j : jkind) (acc : value) (vs : list value) : res value :=
  match vs with
  | [] => Ok acc
  | w :: vs' => bind (join j acc w) (fun x => fold_join_from j x vs')
  end.
Definition fold_join (j : jkind) (v0 : value) (vs : list value) : res value :=
  bind (join j v0 v0) (fun x => fold_join_from j x vs).

(** the last column is the lattice value, the others are the key *)
Definition key_of (t : tuple) : tuple := removelast t.
Definition lat_of (t : tuple) : value := last t VNil.
Definition same_key (a b : tuple) : bool := tuple_eqb (key_of a) (key_of b).

Inductive lresult :=
| LOk
| LDuplicateKey (t1 t2 : tuple)                      (* two different tuples with the same key *)
| LNotJoin (key : tuple) (expected actual : value)   (* stored value is not the join of the derivable ones *)
| LMissingKey (key : tuple)                          (* a key with a derivable value has no tuple *)
| LUnderivable (t : tuple).                          (* no rule derives any value for this tuple's key *)

Fixpoint find_dupkey (l : list tuple) : option (tuple * tuple) :=
  match l with
  | [] => None
  | t :: l' =>
      match find (fun t' => negb (tuple_eqb t t') && same_key t t') l' with
      | Some t' => Some (t, t')
      | None => find_dupkey l'
      end
  end.

(** for every candidate: the stored tuple of its key carries the join of all candidate values of
    that key *)
Fixpoint check_keys (j : jkind) (rel cands todo : list tuple) : res lresult :=
  match todo with
  | [] => Ok LOk
  | c :: todo' =>
      match filter (same_key c) cands with
      | [] => check_keys j rel cands todo'
      | c0 :: grp =>
          bind (fold_join j (lat_of c0) (map lat_of grp)) (fun expected =>
          match find (same_key c) rel with
          | None => Ok (LMissingKey (key_of c))
          | Some t => if value_eqb (lat_of t) expected then check_keys j rel cands todo'
                      else Ok (LNotJoin (key_of c) expected (lat_of t))
          end)
      end
  end.

Definition lattice_ok (d : db) (r : nat) (cs : list clause) (j : jkind) : res lresult :=
  let rel := rel_of d r in
  bind (fire_all d cs) (fun cands =>
  match find_dupkey rel with
  | Some (a, b) => Ok (LDuplicateKey a b)
  | None =>
    match find (fun t => negb (existsb (same_key t) cands)) rel with
    | Some t => Ok (LUnderivable t)
    | None => check_keys j rel cands cands
    end
  end).

(** the abstract update loop: a batch of new values is merged into the stored value by the join;
    the result replaces the stored value only if it differs *)
Definition merge_batch {A} (op : A -> A -> A) (eqb : A -> A -> bool) (s : A) (batch : list A) : A :=
  let m := fold_left op batch s in if eqb m s then s else m.
Definition run_batches {A} (op : A -> A -> A) (eqb : A -> A -> bool) (s : A) (batches : list (list A)) : A :=
  fold_left (merge_batch op eqb) batches s.
