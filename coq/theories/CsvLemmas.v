(** Proofs about the fact-file writer / reader model (CsvDefs.v): writing a relation and
    reading the file back with the same options gives the same tuples, for every value the
    format can represent ([representable], [representable_row], [cfg_ok]).

    Plan of the file:
    - decimal printing against the number parsers of NumParseDefs;
    - [read_value_render]: the record / ADT reader on the text of a nested value;
    - lines ([file_lines]) and std::string::find;
    - one lemma per way nextElement finds a field: [field_mid_plain]/[field_last_plain] (find),
      [quoted_roundtrip] (rfc4180 quoted fields, multi-line), [bscan_balanced]/[bscan_tight]
      (the bracket-counting loop when the delimiter contains ',');
    - [field_facts], [read_fields_good], [read_rows_good] and the theorems [tuple_roundtrip],
      [file_roundtrip], [file_roundtrip_hdr];
    - readable special cases (default format, rfc4180, flat columns), examples, and witnesses
      for what the formats cannot represent. *)
From SV Require Import NumParseDefs NumParseLemmas CsvDefs.
From SV Require Word32Defs.
Require Import Lia ZifyBool ZifyNat ZifyN.
Local Open Scope N_scope.
Arguments N.eqb : simpl never.
Arguments N.leb : simpl never.
Arguments N.ltb : simpl never.
Arguments N.sub : simpl never.
Arguments N.mul : simpl never.
Arguments N.add : simpl never.
Arguments Z.pow : simpl never.
Arguments Z.mul : simpl never.
Arguments Z.add : simpl never.
Arguments Z.sub : simpl never.
Arguments Z.eqb : simpl never.
Arguments Z.ltb : simpl never.
Arguments Z.leb : simpl never.

(** * Decimal printing and the number parsers *)

Definition is_digit (c : N) : bool := (48 <=? c) && (c <=? 57).

Lemma digit_in_10 c : digit_in 10 c = if is_digit c then Some (c - 48) else None.
Proof.
  unfold digit_in, digit_val, is_digit.
  destruct ((48 <=? c) && (c <=? 57)) eqn:E1.
  - destruct (c - 48 <? 10) eqn:E; [reflexivity | lia].
  - destruct ((97 <=? c) && (c <=? 122)) eqn:E2.
    + destruct (c - 87 <? 10) eqn:E; [lia | reflexivity].
    + destruct ((65 <=? c) && (c <=? 90)) eqn:E3; [|reflexivity].
      destruct (c - 55 <? 10) eqn:E; [lia | reflexivity].
Qed.

(** [rest] does not continue a number. *)
Definition no_digit_head (rest : bytes) : bool :=
  match rest with c :: _ => negb (is_digit c) | [] => true end.

Lemma take_digits_app ds rest acc k m :
  digits_value 10 ds acc = Some m -> no_digit_head rest = true ->
  take_digits 10 (ds ++ rest) acc k = (m, (k + length ds)%nat).
Proof.
  revert acc k. induction ds as [|c ds IH]; intros acc k Hv Hr; simpl in *.
  - inversion Hv; subst. destruct rest as [|c r]; simpl.
    + f_equal. lia.
    + rewrite digit_in_10. unfold no_digit_head in Hr. destruct (is_digit c); [discriminate|]. f_equal. lia.
  - destruct (digit_in 10 c) as [d|]; [|discriminate].
    rewrite (IH _ (S k) Hv Hr). f_equal. lia.
Qed.

Lemma digits_value_app ds1 ds2 acc m :
  digits_value 10 ds1 acc = Some m -> digits_value 10 (ds1 ++ ds2) acc = digits_value 10 ds2 m.
Proof.
  revert acc. induction ds1 as [|c ds IH]; intros acc H; simpl in *.
  - inversion H. reflexivity.
  - destruct (digit_in 10 c); [auto | discriminate].
Qed.

Local Open Scope Z_scope.

Lemma digits_of_pos_spec f : forall n acc,
  0 < n < 10 ^ Z.of_nat f ->
  exists ds w, Word32Defs.digits_of_pos f n acc = ds ++ acc /\ ds <> [] /\ forallb is_digit ds = true /\
    forall a, exists m, digits_value 10 ds a = Some m /\ Z.of_N m = Z.of_N a * w + n.
Proof.
  induction f as [|f IH]; intros n acc Hn.
  - simpl in Hn. lia.
  - cbn [Word32Defs.digits_of_pos].
    assert (Hd : 0 <= n mod 10 < 10) by (apply Z.mod_pos_bound; lia).
    set (d0 := Z.to_N (48 + n mod 10)).
    assert (Hd0 : is_digit d0 = true) by (unfold is_digit, d0; lia).
    assert (Hdv : digit_in 10 d0 = Some (Z.to_N (n mod 10))).
    { rewrite digit_in_10, Hd0. f_equal. unfold d0. lia. }
    destruct (n / 10 =? 0) eqn:E.
    + exists [d0], 10. repeat split; [discriminate | simpl; rewrite Hd0; reflexivity |].
      intros a. simpl. rewrite Hdv. eexists; split; [reflexivity|].
      assert (n / 10 = 0) by lia. pose proof (Z.div_mod n 10). lia.
    + assert (Hq : 0 < n / 10 < 10 ^ Z.of_nat f).
      { split.
        - assert (0 <= n / 10) by (apply Z.div_pos; lia). lia.
        - apply Z.div_lt_upper_bound; [lia|]. rewrite Nat2Z.inj_succ, Z.pow_succ_r in Hn; lia. }
      destruct (IH (n / 10) (d0 :: acc) Hq) as (ds & w & Heq & Hne & Hall & Hval).
      exists (ds ++ [d0]), (w * 10). repeat split.
      * rewrite Heq, <- app_assoc. reflexivity.
      * destruct ds; discriminate.
      * rewrite forallb_app, Hall. simpl. rewrite Hd0. reflexivity.
      * intros a. destruct (Hval a) as (m & Hm & Hmz).
        rewrite (digits_value_app _ _ _ _ Hm). simpl. rewrite Hdv.
        eexists; split; [reflexivity|]. pose proof (Z.div_mod n 10). lia.
Qed.

(** The shape of [dec z]: an optional minus and a non-empty digit string denoting |z|. *)
Lemma dec_shape z :
  - 2 ^ 32 < z < 2 ^ 32 ->
  exists ds m, dec z = (if z <? 0 then [45%N] else []) ++ ds /\ ds <> [] /\ forallb is_digit ds = true /\
    digits_value 10 ds 0 = Some m /\ Z.of_N m = Z.abs z.
Proof.
  intros Hz. unfold dec, Word32Defs.dec_of_Z.
  assert (H12 : 2 ^ 32 < 10 ^ Z.of_nat 12) by (vm_compute; reflexivity).
  destruct (z <? 0) eqn:E.
  - destruct (digits_of_pos_spec 12 (- z) [] ltac:(lia)) as (ds & w & Heq & Hne & Hall & Hval).
    destruct (Hval 0%N) as (m & Hm & Hmz).
    exists ds, m. rewrite Heq, app_nil_r. repeat split; auto. lia.
  - destruct (Z.eq_dec z 0) as [-> | Hnz].
    + exists [48%N], 0%N. vm_compute. repeat split; discriminate.
    + destruct (digits_of_pos_spec 12 z [] ltac:(lia)) as (ds & w & Heq & Hne & Hall & Hval).
      destruct (Hval 0%N) as (m & Hm & Hmz).
      exists ds, m. rewrite Heq, app_nil_r. repeat split; auto. lia.
Qed.

Lemma is_digit_not_space c : is_digit c = true -> isspace c = false.
Proof. unfold is_digit, isspace. lia. Qed.

Local Open Scope Z_scope.

(** strtol's scan of [sign digits rest]. *)
Lemma strto_scan_dec (neg : bool) ds rest m :
  ds <> [] -> forallb is_digit ds = true -> digits_value 10 ds 0 = Some m -> no_digit_head rest = true ->
  strto_scan 10 ((if neg then [45%N] else []) ++ ds ++ rest) =
  {| sc_any := true; sc_neg := neg; sc_mag := m; sc_used := ((if neg then 1 else 0) + length ds)%nat |}.
Proof.
  intros Hne Hall Hv Hr. destruct ds as [|d0 ds]; [congruence|].
  simpl in Hall. apply andb_true_iff in Hall as [Hd0 Hall].
  assert (Hs0 : isspace d0 = false) by (apply is_digit_not_space; assumption).
  assert (H45 : (d0 =? 45)%N = false) by (unfold is_digit in Hd0; lia).
  assert (H43 : (d0 =? 43)%N = false) by (unfold is_digit in Hd0; lia).
  unfold strto_scan. destruct neg.
  - cbn [app skip_ws]. change (isspace 45) with false. cbv iota.
    cbn [scan_sign]. change (45 =? 45)%N with true. cbv iota.
    unfold scan_prefix. change (10 =? 16)%N with false. cbv iota.
    change (d0 :: ds ++ rest) with ((d0 :: ds) ++ rest).
    rewrite (take_digits_app (d0 :: ds) rest 0%N 0%nat m Hv Hr). cbn [length Nat.add]. reflexivity.
  - cbn [app skip_ws]. rewrite Hs0.
    cbn [scan_sign]. rewrite H45, H43.
    unfold scan_prefix. change (10 =? 16)%N with false. cbv iota.
    change (d0 :: ds ++ rest) with ((d0 :: ds) ++ rest).
    rewrite (take_digits_app (d0 :: ds) rest 0%N 0%nat m Hv Hr). cbn [length Nat.add]. reflexivity.
Qed.

Lemma dec_length z ds : dec z = (if z <? 0 then [45%N] else []) ++ ds ->
  length (dec z) = ((if (z <? 0)%Z then 1 else 0) + length ds)%nat.
Proof. intros ->. rewrite app_length. destruct (z <? 0); reflexivity. Qed.

(** RamSignedFromString on a printed number followed by something that is not a digit. *)
Lemma ram_signed_dec z rest :
  - 2 ^ 31 <= z < 2 ^ 31 -> no_digit_head rest = true ->
  ram_signed_base 10 (dec z ++ rest) = POk z (length (dec z)).
Proof.
  intros Hz Hr. destruct (dec_shape z ltac:(lia)) as (ds & m & Hdec & Hne & Hall & Hv & Hm).
  rewrite (dec_length z ds Hdec), Hdec, <- app_assoc.
  unfold ram_signed_base. change (10 =? 2)%N with false. cbv iota.
  unfold stoi. rewrite (strto_scan_dec (z <? 0) ds rest m Hne Hall Hv Hr).
  cbn [sc_any sc_neg sc_mag sc_used negb].
  destruct (z <? 0) eqn:E.
  - destruct (Z.of_N m >? 2 ^ 63) eqn:E1; [lia|].
    destruct ((- Z.of_N m <? - 2 ^ 31) || (- Z.of_N m >? 2 ^ 31 - 1)) eqn:E2; [lia|].
    f_equal. lia.
  - destruct (Z.of_N m >? 2 ^ 63 - 1) eqn:E1; [lia|].
    destruct ((Z.of_N m <? - 2 ^ 31) || (Z.of_N m >? 2 ^ 31 - 1)) eqn:E2; [lia|].
    f_equal. lia.
Qed.

Lemma dec_nonneg_head z : 0 <= z < 2 ^ 32 ->
  exists d0 r, dec z = d0 :: r /\ is_digit d0 = true /\ forallb is_digit r = true.
Proof.
  intros Hz. destruct (dec_shape z ltac:(lia)) as (ds & m & Hdec & Hne & Hall & _).
  assert (E : (z <? 0) = false) by lia. rewrite E in Hdec. simpl in Hdec.
  destruct ds as [|d0 r]; [congruence|]. simpl in Hall. apply andb_true_iff in Hall as [H1 H2].
  exists d0, r. auto.
Qed.

(** RamUnsignedFromString on a printed unsigned number. *)
Lemma ram_unsigned_dec z rest :
  0 <= z < 2 ^ 32 -> no_digit_head rest = true ->
  ram_unsigned_base 10 (dec z ++ rest) = POk z (length (dec z)).
Proof.
  intros Hz Hr. destruct (dec_shape z ltac:(lia)) as (ds & m & Hdec & Hne & Hall & Hv & Hm).
  assert (E : (z <? 0) = false) by lia.
  pose proof (dec_length z ds Hdec) as Hlen. rewrite E in Hdec, Hlen. simpl in Hdec, Hlen.
  rewrite Hlen, Hdec.
  destruct ds as [|d0 r]; [congruence|].
  pose proof Hall as Hall'. simpl in Hall'. apply andb_true_iff in Hall' as [Hd0 _].
  assert (H45 : (d0 =? 45)%N = false) by (unfold is_digit in Hd0; lia).
  unfold ram_unsigned_base. cbn [app is_prefix B_MINUS]. rewrite (N.eqb_sym 45 d0), H45. cbn [andb].
  change (10 =? 2)%N with false. cbn [andb]. cbv iota.
  unfold minus_after_ws. cbn [skip_ws]. rewrite (is_digit_not_space d0 Hd0). cbn [snd]. rewrite H45.
  unfold stoul.
  pose proof (strto_scan_dec false (d0 :: r) rest m Hne Hall Hv Hr) as Hsc. cbn [app] in Hsc.
  cbn [app]. rewrite Hsc. cbn [sc_any sc_neg sc_mag sc_used negb Nat.add].
  destruct (Z.of_N m >? 2 ^ 64 - 1) eqn:E1; [lia|].
  destruct (Z.of_N m >? 2 ^ 32 - 1) eqn:E2; [lia|].
  f_equal. lia.
Qed.

Lemma fact_signed_dec z : - 2 ^ 31 <= z < 2 ^ 31 -> fact_signed (dec z) = Some z.
Proof.
  intros Hz. unfold fact_signed. pose proof (ram_signed_dec z [] Hz eq_refl) as H.
  rewrite app_nil_r in H. rewrite H. unfold complete. rewrite Nat.eqb_refl. reflexivity.
Qed.

Lemma fact_unsigned_dec z : 0 <= z < 2 ^ 32 -> fact_unsigned (dec z) = Some z.
Proof.
  intros Hz. unfold fact_unsigned, read_ram_unsigned.
  destruct (dec_nonneg_head z Hz) as (d0 & r & Hd & Hd0 & Hr).
  assert (P1 : is_prefix B_0b (dec z) = false).
  { rewrite Hd. unfold B_0b. cbn [is_prefix]. destruct r as [|c r']; [rewrite andb_false_r; reflexivity|].
    simpl in Hr. apply andb_true_iff in Hr as [Hc _]. unfold is_digit in Hc.
    assert ((98 =? c)%N = false) by lia. rewrite H. cbn [andb]. rewrite andb_false_r. reflexivity. }
  assert (P2 : is_prefix B_0x (dec z) = false).
  { rewrite Hd. unfold B_0x. cbn [is_prefix]. destruct r as [|c r']; [rewrite andb_false_r; reflexivity|].
    simpl in Hr. apply andb_true_iff in Hr as [Hc _]. unfold is_digit in Hc.
    assert ((120 =? c)%N = false) by lia. rewrite H. cbn [andb]. rewrite andb_false_r. reflexivity. }
  rewrite P1, P2. pose proof (ram_unsigned_dec z [] Hz eq_refl) as H.
  rewrite app_nil_r in H. rewrite H. unfold complete. rewrite Nat.eqb_refl. reflexivity.
Qed.

(** Every byte of a printed number is '-' or a digit. *)
Definition is_numchar (c : N) : bool := is_digit c || (c =? 45)%N.

Lemma dec_chars z : - 2 ^ 32 < z < 2 ^ 32 -> dec z <> [] /\ forallb is_numchar (dec z) = true.
Proof.
  intros Hz. destruct (dec_shape z Hz) as (ds & m & Hdec & Hne & Hall & _).
  rewrite Hdec. split.
  - destruct (z <? 0); [discriminate|]. simpl. assumption.
  - rewrite forallb_app. apply andb_true_iff. split.
    + destruct (z <? 0); reflexivity.
    + rewrite forallb_forall in *. intros x Hx. unfold is_numchar. rewrite (Hall x Hx). reflexivity.
Qed.

Local Open Scope N_scope.

(** * Induction over nested values *)
Lemma cval_ind' (P : cval -> Prop) :
  (forall z, P (CNum z)) -> (forall z, P (CUns z)) -> (forall s, P (CSym s)) -> P CNil ->
  (forall fs, Forall P fs -> P (CRec fs)) -> (forall b fs, Forall P fs -> P (CAdt b fs)) ->
  forall v, P v.
Proof.
  intros H1 H2 H3 H4 H5 H6. fix IH 1. intros [z|z|s| |fs|b fs].
  - apply H1.
  - apply H2.
  - apply H3.
  - apply H4.
  - apply H5. induction fs as [|x fs IHfs]; constructor; [apply IH | exact IHfs].
  - apply H6. induction fs as [|x fs IHfs]; constructor; [apply IH | exact IHfs].
Qed.

(** * The text of a nested value as the record reader sees it *)

(** Symbols nested in records under rfc4180, after the field has been unquoted: DQUOTE, the
    symbol with every DQUOTE and every backslash preceded by a backslash, DQUOTE. *)
Fixpoint esc_bs (s : bytes) : bytes :=
  match s with
  | [] => []
  | c :: r => (if (c =? 34) || (c =? 92) then [92] else []) ++ c :: esc_bs r
  end.

Definition render_sym (q : bool) (s : bytes) : bytes := if q then 34 :: esc_bs s ++ [34] else s.

Fixpoint render (q : bool) (v : cval) : bytes :=
  match v with
  | CNum z => dec z
  | CUns z => dec z
  | CSym s => render_sym q s
  | CNil => B_NIL
  | CRec fs => 91 :: join B_SEP (map (render q) fs) ++ [93]
  | CAdt b fs =>
      36 :: b ++
      match fs with
      | [] => []
      | _ => 40 :: join B_SEP (map (render q) fs) ++ [41]
      end
  end.

Lemma map_ext_Forall {A B} (f g : A -> B) l : Forall (fun x => f x = g x) l -> map f l = map g l.
Proof. induction 1; simpl; congruence. Qed.

Lemma write_value_plain v : write_value false v = render false v.
Proof.
  induction v as [z|z|s| |fs IH|b fs IH] using cval_ind'; try reflexivity.
  - cbn [write_value render]. rewrite (map_ext_Forall _ _ _ IH). reflexivity.
  - cbn [write_value render]. rewrite (map_ext_Forall _ _ _ IH). reflexivity.
Qed.

(** * Small facts about white space, spans and the consume functions *)
Definition head_ns (s : bytes) : bool := match s with c :: _ => negb (isspace c) | [] => true end.

Lemma ws_skip_ns s : head_ns s = true -> ws_skip s = s.
Proof.
  unfold ws_skip. destruct s as [|c s]; simpl; [reflexivity|].
  intros H. destruct (isspace c); [discriminate | reflexivity].
Qed.

Lemma ws_skip_space c s : isspace c = true -> ws_skip (c :: s) = ws_skip s.
Proof. unfold ws_skip. simpl. intros ->. destruct (skip_ws s). reflexivity. Qed.

Lemma consume_char_hit c s : isspace c = false -> consume_char c (c :: s) = Some s.
Proof.
  intros H. unfold consume_char. rewrite ws_skip_ns by (simpl; rewrite H; reflexivity).
  cbv iota. rewrite N.eqb_refl. reflexivity.
Qed.

Lemma span_all p a b :
  forallb p a = true -> match b with c :: _ => p c = false | [] => True end -> span p (a ++ b) = (a, b).
Proof.
  induction a as [|x a IH]; simpl; intros Ha Hb.
  - destruct b as [|c b]; [reflexivity|]. simpl. rewrite Hb. reflexivity.
  - apply andb_true_iff in Ha as [Hx Ha]. rewrite Hx, IH; auto.
Qed.

(** * Reading back a nested value *)

(** What may follow the text of a value. *)
Definition follows (closer : N) (v : cval) (rest : bytes) : bool :=
  match v with
  | CNum _ | CUns _ => no_digit_head rest
  | CSym _ => match rest with x :: _ => (x =? 44) || (x =? closer) | [] => false end
  | CNil | CRec _ => true
  | CAdt _ [] => match rest with x :: _ => negb (is_ident x) | [] => true end
  | CAdt _ _ => true
  end.

Definition is_closer (c : N) : Prop := c = 93 \/ c = 41.

Lemma follows_sep closer v r : is_closer closer -> follows closer v (44 :: r) = true.
Proof. intros _. destruct v as [ | | | | |b [|x fs]]; reflexivity. Qed.

Lemma follows_closer closer v r : is_closer closer -> follows closer v (closer :: r) = true.
Proof.
  intros [-> | ->]; destruct v as [ | | | | |b [|x fs]]; try reflexivity.
Qed.

Lemma memb_false_forallb c s : memb c s = false <-> forallb (fun x => negb (x =? c)) s = true.
Proof.
  unfold memb. induction s as [|x s IH]; simpl; [tauto|].
  rewrite orb_false_iff, andb_true_iff, IH, (N.eqb_sym c x), negb_true_iff. tauto.
Qed.

Lemma read_quoted_esc s rest : read_quoted (esc_bs s ++ 34 :: rest) = Some (s, rest).
Proof.
  induction s as [|c s IH].
  - reflexivity.
  - cbn [esc_bs]. destruct (c =? 34) eqn:E; [|destruct (c =? 92) eqn:E2]; cbn [orb].
    + cbn [app read_quoted]. change (92 =? 34) with false. change (92 =? 92) with true. cbv iota.
      rewrite IH. reflexivity.
    + cbn [app read_quoted]. change (92 =? 34) with false. change (92 =? 92) with true. cbv iota.
      rewrite IH. reflexivity.
    + cbn [app read_quoted]. rewrite E, E2, IH. reflexivity.
Qed.

Lemma read_symbol_render q closer s rest :
  (34 =? closer) = false ->
  nested_sym_ok q closer s = true ->
  (q = true \/ match rest with x :: _ => (x =? 44) || (x =? closer) = true | [] => False end) ->
  read_symbol closer (render_sym q s ++ rest) = Some (s, rest).
Proof.
  unfold nested_sym_ok, render_sym. destruct q.
  - intros _ _ _. cbn [app read_symbol]. change (34 =? 34) with true. cbv iota.
    rewrite <- app_assoc. cbn [app]. apply read_quoted_esc.
  - intros Hc34 H [Hq | Hr]; [discriminate|].
    apply andb_true_iff in H as [H H3]. apply andb_true_iff in H as [H1 H2].
    rewrite negb_true_iff in H1, H2.
    assert (Hspan : span (fun c => negb ((c =? 44) || (c =? closer))) (s ++ rest) = (s, rest)).
    { apply span_all.
      - apply memb_false_forallb in H1, H2. rewrite forallb_forall in *. intros x Hx.
        specialize (H1 x Hx). specialize (H2 x Hx). rewrite negb_true_iff in *. rewrite H1, H2. reflexivity.
      - destruct rest as [|x r]; [exact I|]. rewrite Hr. reflexivity. }
    assert (Hru : read_until closer (s ++ rest) = Some (s, rest)).
    { unfold read_until. rewrite Hspan. destruct rest; [contradiction | reflexivity]. }
    destruct s as [|c s'].
    + cbn [app]. destruct rest as [|x r]; [contradiction|]. cbn [read_symbol].
      destruct (x =? 34) eqn:E; [|exact Hru].
      apply N.eqb_eq in E. subst x. rewrite Hc34 in Hr. discriminate.
    + apply andb_true_iff in H3 as [_ H34]. rewrite negb_true_iff in H34.
      cbn [app read_symbol]. rewrite H34. exact Hru.
Qed.

(** Unfolding equations for [read_value]. *)
Definition read_branch (closer : N) (name : bytes) (tys : list cty) (s2 : bytes) : option (cval * bytes) :=
  match tys with
  | [] => Some (CAdt name [], s2)
  | _ =>
      match consume_char 40 s2 with
      | None => None
      | Some s3 =>
          match read_args (read_value 41) tys true s3 with
          | None => None
          | Some (vs, s4) =>
              match consume_char 41 s4 with
              | None => None
              | Some s5 => Some (CAdt name vs, s5)
              end
          end
      end
  end.

Fixpoint pick_branch (name : bytes) (s2 : bytes) (brs : list (bytes * list cty)) : option (cval * bytes) :=
  match brs with
  | [] => None
  | (nm, tys) :: brs' => if bytes_eqb nm name then read_branch 41 name tys s2 else pick_branch name s2 brs'
  end.

Lemma read_value_adt_eq closer brs s :
  read_value closer (TyAdt brs) s =
  match consume_char 36 s with
  | None => None
  | Some s1 =>
      match read_qname s1 with
      | None => None
      | Some (name, s2) => pick_branch name s2 brs
      end
  end.
Proof.
  cbn [read_value]. destruct (consume_char 36 s) as [s1|]; [|reflexivity].
  destruct (read_qname s1) as [[name s2]|]; [|reflexivity].
  induction brs as [|[nm tys] brs IH]; [reflexivity|].
  cbn [pick_branch]. destruct (bytes_eqb nm name); [|exact IH].
  unfold read_branch. destruct tys; reflexivity.
Qed.

Lemma pick_branch_lookup name s2 brs :
  pick_branch name s2 brs =
  match lookup_branch name brs with Some tys => read_branch 41 name tys s2 | None => None end.
Proof.
  induction brs as [|[nm tys] brs IH]; [reflexivity|].
  cbn [pick_branch lookup_branch]. destruct (bytes_eqb nm name); [reflexivity | exact IH].
Qed.

Lemma read_value_rec_eq closer tys s :
  read_value closer (TyRec tys) s =
  let s0 := ws_skip s in
  if is_prefix B_NIL s0 then Some (CNil, skipn 3 s0)
  else match consume_char 91 s with
       | None => None
       | Some s1 =>
           match read_args (read_value 93) tys true s1 with
           | None => None
           | Some (vs, s2) =>
               match consume_char 93 s2 with
               | None => None
               | Some s3 => Some (CRec vs, s3)
               end
           end
       end.
Proof. reflexivity. Qed.

(** The text of a well-formed value does not begin with white space. *)
Lemma dec_head z : (- 2 ^ 32 < z < 2 ^ 32)%Z -> exists c r, dec z = c :: r /\ is_numchar c = true.
Proof.
  intros Hz. destruct (dec_chars z Hz) as [Hne Hall]. destruct (dec z) as [|c r]; [congruence|].
  simpl in Hall. apply andb_true_iff in Hall as [Hc _]. eauto.
Qed.

Lemma numchar_not_space c : is_numchar c = true -> isspace c = false.
Proof. unfold is_numchar, is_digit, isspace. lia. Qed.

Lemma render_head_ns q closer ty v R :
  nested_ok q closer ty v = true -> head_ns R = true -> head_ns (render q v ++ R) = true.
Proof.
  intros Hok HR. destruct v as [z|z|s| |fs|b fs]; destruct ty; try discriminate; cbn [nested_ok] in Hok.
  - cbn [render]. destruct (dec_head z ltac:(lia)) as (c & r & -> & Hc). cbn [app head_ns].
    rewrite (numchar_not_space c Hc). reflexivity.
  - cbn [render]. destruct (dec_head z ltac:(lia)) as (c & r & -> & Hc). cbn [app head_ns].
    rewrite (numchar_not_space c Hc). reflexivity.
  - cbn [render]. unfold render_sym, nested_sym_ok in *. destruct q; [reflexivity|].
    destruct s as [|c s]; [exact HR|]. cbn [app head_ns].
    apply andb_true_iff in Hok as [_ Hok]. apply andb_true_iff in Hok as [Hok _]. exact Hok.
  - reflexivity.
  - reflexivity.
  - reflexivity.
Qed.

(** The argument loop on the text [x0, x1, ...] followed by the closing character. *)
Section Args.
  Variable q : bool.
  Variable closer : N.
  Hypothesis Hcl : is_closer closer.

  Definition elem_reads (v : cval) : Prop :=
    forall ty rest, nested_ok q closer ty v = true -> follows closer v rest = true ->
                    read_value closer ty (render q v ++ rest) = Some (v, rest).

  Lemma closer_ns : isspace closer = false.
  Proof. destruct Hcl as [-> | ->]; reflexivity. Qed.

  Lemma read_args_tail fs : Forall elem_reads fs -> forall tys rest,
    forallb2 (nested_ok q closer) tys fs = true ->
    read_args (read_value closer) tys false
      (flat_map (fun y => B_SEP ++ y) (map (render q) fs) ++ closer :: rest) = Some (fs, closer :: rest).
  Proof.
    induction 1 as [|v fs Hv Hfs IH]; intros tys rest Hok.
    - destruct tys; [reflexivity | discriminate].
    - destruct tys as [|t tys]; [discriminate|]. cbn [forallb2] in Hok.
      apply andb_true_iff in Hok as [Hv_ok Hfs_ok].
      cbn [map flat_map]. unfold B_SEP at 1. cbn [app]. rewrite <- !app_assoc.
      set (R := flat_map (fun y => B_SEP ++ y) (map (render q) fs) ++ closer :: rest).
      assert (HR : head_ns R = true /\ follows closer v R = true).
      { unfold R. destruct fs as [|v' fs'].
        - cbn [map flat_map app]. split; [simpl; rewrite closer_ns; reflexivity | apply follows_closer; exact Hcl].
        - cbn [map flat_map]. unfold B_SEP at 1. cbn [app]. split; [reflexivity | apply follows_sep; exact Hcl]. }
      destruct HR as [HR1 HR2].
      cbn [read_args]. rewrite consume_char_hit by reflexivity.
      rewrite ws_skip_space by reflexivity.
      rewrite ws_skip_ns by (eapply render_head_ns; eauto).
      rewrite (Hv t R Hv_ok HR2). fold (read_args (read_value closer)).
      unfold R. rewrite (IH tys rest Hfs_ok). reflexivity.
  Qed.

  Lemma read_args_first fs : Forall elem_reads fs -> forall tys rest,
    forallb2 (nested_ok q closer) tys fs = true ->
    read_args (read_value closer) tys true
      (join B_SEP (map (render q) fs) ++ closer :: rest) = Some (fs, closer :: rest).
  Proof.
    intros Hall tys rest Hok. destruct Hall as [|v fs Hv Hfs].
    - destruct tys; [reflexivity | discriminate].
    - destruct tys as [|t tys]; [discriminate|]. cbn [forallb2] in Hok.
      apply andb_true_iff in Hok as [Hv_ok Hfs_ok].
      cbn [map join]. rewrite <- !app_assoc.
      set (R := flat_map (fun y => B_SEP ++ y) (map (render q) fs) ++ closer :: rest).
      assert (HR : head_ns R = true /\ follows closer v R = true).
      { unfold R. destruct fs as [|v' fs'].
        - cbn [map flat_map app]. split; [simpl; rewrite closer_ns; reflexivity | apply follows_closer; exact Hcl].
        - cbn [map flat_map]. unfold B_SEP at 1. cbn [app]. split; [reflexivity | apply follows_sep; exact Hcl]. }
      destruct HR as [HR1 HR2].
      cbn [read_args].
      rewrite ws_skip_ns by (eapply render_head_ns; eauto).
      rewrite (Hv t R Hv_ok HR2). fold (read_args (read_value closer)).
      unfold R. rewrite (read_args_tail fs Hfs tys rest Hfs_ok). reflexivity.
  Qed.
End Args.

Lemma skipn_length_app {A} (a b : list A) : skipn (length a) (a ++ b) = b.
Proof. induction a; simpl; auto. Qed.

Lemma firstn_length_app {A} (a b : list A) : firstn (length a) (a ++ b) = a.
Proof. induction a; simpl; congruence. Qed.

Lemma ident_not_space c : is_ident c = true -> isspace c = false.
Proof. unfold is_ident, isspace. lia. Qed.

Lemma forallb2_nil_r {A B} (p : A -> B -> bool) la : forallb2 p la [] = true -> la = [].
Proof. destruct la; [reflexivity | discriminate]. Qed.

Lemma closer_not_quote closer : is_closer closer -> (34 =? closer) = false.
Proof. intros [-> | ->]; reflexivity. Qed.

(** Reading the text of a nested value gives the value back and stops right after it. *)
Theorem read_value_render q v : forall closer ty rest,
  (34 =? closer) = false ->
  nested_ok q closer ty v = true -> follows closer v rest = true ->
  read_value closer ty (render q v ++ rest) = Some (v, rest).
Proof.
  induction v as [z|z|s| |fs IH|b fs IH] using cval_ind'; intros closer ty rest Hc Hok Hf;
    destruct ty as [| | |tys|brs]; try discriminate; cbn [nested_ok] in Hok.
  - (* signed *)
    cbn [render read_value follows] in *. rewrite ram_signed_dec by (assumption || lia).
    cbn [of_pres]. rewrite skipn_length_app. reflexivity.
  - (* unsigned *)
    cbn [render read_value follows] in *. rewrite ram_unsigned_dec by (assumption || lia).
    cbn [of_pres]. rewrite skipn_length_app. reflexivity.
  - (* symbol *)
    cbn [render read_value follows] in *.
    rewrite (read_symbol_render q closer s rest Hc Hok); [reflexivity|].
    right. destruct rest; [discriminate | exact Hf].
  - (* nil *)
    cbn [render]. rewrite read_value_rec_eq. cbv zeta.
    rewrite ws_skip_ns by reflexivity. reflexivity.
  - (* record *)
    cbn [render]. rewrite read_value_rec_eq. cbv zeta. cbn [app].
    rewrite ws_skip_ns by reflexivity.
    change (is_prefix B_NIL (91 :: (join B_SEP (map (render q) fs) ++ [93]) ++ rest)) with false. cbv iota.
    rewrite consume_char_hit by reflexivity. rewrite <- app_assoc. cbn [app].
    rewrite (read_args_first q 93 (or_introl eq_refl) fs); [| |exact Hok].
    + rewrite consume_char_hit by reflexivity. reflexivity.
    + eapply Forall_impl; [|exact IH]. intros v Hv ty rest'. apply Hv. reflexivity.
  - (* ADT *)
    apply andb_true_iff in Hok as [Hname Hok].
    destruct (lookup_branch b brs) as [tys|] eqn:Hlk; [|discriminate].
    unfold name_ok in Hname. apply andb_true_iff in Hname as [Hne Hid].
    destruct b as [|b0 b']; [discriminate|]. clear Hne.
    pose proof Hid as Hid'. cbn [forallb] in Hid'. apply andb_true_iff in Hid' as [Hb0 _].
    cbn [render]. rewrite read_value_adt_eq. cbn [app].
    rewrite consume_char_hit by reflexivity. rewrite <- app_assoc.
    set (R := (match fs with [] => [] | _ :: _ => 40 :: join B_SEP (map (render q) fs) ++ [41] end) ++ rest).
    assert (Hq : read_qname (b0 :: b' ++ R) = Some (b0 :: b', R)).
    { unfold read_qname. rewrite ws_skip_ns by (cbn [head_ns]; rewrite (ident_not_space b0 Hb0); reflexivity).
      cbv iota. change (b0 :: b' ++ R) with ((b0 :: b') ++ R). rewrite span_all; [reflexivity | exact Hid |].
      unfold R. destruct fs as [|x fs'].
      - cbn [app]. cbn [follows] in Hf. destruct rest as [|c r]; [exact I|]. rewrite negb_true_iff in Hf. exact Hf.
      - reflexivity. }
    rewrite Hq, pick_branch_lookup, Hlk. unfold read_branch, R.
    destruct fs as [|x fs'].
    + rewrite (forallb2_nil_r _ _ Hok). reflexivity.
    + destruct tys as [|t tys']; [discriminate|].
      cbn [app]. rewrite consume_char_hit by reflexivity. rewrite <- app_assoc. cbn [app].
      rewrite (read_args_first q 41 (or_intror eq_refl) (x :: fs')); [| |exact Hok].
      * rewrite consume_char_hit by reflexivity. reflexivity.
      * eapply Forall_impl; [|exact IH]. intros v Hv ty rest'. apply Hv. reflexivity.
Qed.

(** * Lines *)
Lemma memb_app c a b : memb c (a ++ b) = memb c a || memb c b.
Proof. unfold memb. apply existsb_app. Qed.

Lemma memb_cons c x a : memb c (x :: a) = (c =? x) || memb c a.
Proof. reflexivity. Qed.

Lemma split_lines_app_nl a more : memb 10 a = false -> split_lines (a ++ 10 :: more) = a :: split_lines more.
Proof.
  induction a as [|x a IH]; intros H.
  - reflexivity.
  - rewrite memb_cons in H. apply orb_false_iff in H as [Hx Ha].
    cbn [app split_lines]. rewrite N.eqb_sym in Hx. rewrite Hx, (IH Ha). reflexivity.
Qed.

Lemma split_lines_app a raw l0 ls : memb 10 a = false -> split_lines raw = l0 :: ls ->
  split_lines (a ++ raw) = (a ++ l0) :: ls.
Proof.
  induction a as [|x a IH]; intros H Hr.
  - exact Hr.
  - rewrite memb_cons in H. apply orb_false_iff in H as [Hx Ha].
    cbn [app split_lines]. rewrite N.eqb_sym in Hx. rewrite Hx, (IH Ha Hr). reflexivity.
Qed.

Lemma strip_cr_no a : ends_cr a = false -> strip_cr a = (a, false).
Proof.
  unfold ends_cr. induction a as [|x a IH]; [reflexivity|].
  cbn [strip_cr]. destruct a as [|y a'].
  - destruct (x =? 13); [discriminate | reflexivity].
  - destruct (strip_cr (y :: a')) as [r' f] eqn:E. cbn [snd] in *. intros ->.
    specialize (IH eq_refl). inversion IH. reflexivity.
Qed.

Lemma strip_cr_app a l0 : l0 <> [] -> strip_cr (a ++ l0) = (a ++ fst (strip_cr l0), snd (strip_cr l0)).
Proof.
  intros Hne. induction a as [|x a IH].
  - cbn [app]. destruct (strip_cr l0); reflexivity.
  - cbn [app strip_cr]. destruct (a ++ l0) as [|y r] eqn:E.
    + destruct a; [cbn [app] in E; congruence | discriminate].
    + rewrite IH. reflexivity.
Qed.

Lemma ends_cr_app a b : b <> [] -> ends_cr (a ++ b) = ends_cr b.
Proof. intros Hb. unfold ends_cr. rewrite strip_cr_app by assumption. reflexivity. Qed.

Lemma file_lines_app_nl a more : memb 10 a = false -> ends_cr a = false ->
  file_lines (a ++ 10 :: more) = (a, false) :: file_lines more.
Proof.
  intros H1 H2. unfold file_lines. rewrite split_lines_app_nl by assumption.
  cbn [map]. rewrite strip_cr_no by assumption. reflexivity.
Qed.

Lemma file_lines_app a raw l f rest : memb 10 a = false -> ends_cr a = false ->
  file_lines raw = (l, f) :: rest -> file_lines (a ++ raw) = (a ++ l, f) :: rest.
Proof.
  intros H1 H2. unfold file_lines. destruct (split_lines raw) as [|l0 ls] eqn:E; [discriminate|].
  cbn [map]. intros H. inversion H as [[Hs Hr]]. rewrite (split_lines_app a raw l0 ls H1 E). cbn [map].
  f_equal. destruct l0 as [|y l0'].
  - rewrite app_nil_r, strip_cr_no by assumption. cbn [strip_cr] in Hs. inversion Hs. rewrite app_nil_r. reflexivity.
  - rewrite strip_cr_app by discriminate. rewrite Hs. reflexivity.
Qed.

Lemma file_lines_nl raw : file_lines (10 :: raw) = ([], false) :: file_lines raw.
Proof. reflexivity. Qed.

Lemma file_lines_crnl raw : file_lines (13 :: 10 :: raw) = ([], true) :: file_lines raw.
Proof. reflexivity. Qed.

(** Prefixing a byte that is not a newline (and not a '\r' directly in front of a newline). *)
Lemma file_lines_cons c raw l f rest :
  (c =? 10) = false -> file_lines raw = (l, f) :: rest ->
  ((c =? 13) = false \/ exists x r, raw = x :: r /\ (x =? 10) = false) ->
  file_lines (c :: raw) = (c :: l, f) :: rest.
Proof.
  intros Hc H Hor. unfold file_lines in *. cbn [split_lines]. rewrite Hc.
  destruct (split_lines raw) as [|l0 ls] eqn:E; [discriminate|].
  cbn [map] in *. inversion H as [[Hs Hr]]. f_equal.
  cbn [strip_cr]. destruct l0 as [|y l0'].
  - cbn [strip_cr] in Hs. inversion Hs; subst. destruct Hor as [H13 | (x & r & -> & Hx)].
    + rewrite H13. reflexivity.
    + cbn [split_lines] in E. rewrite Hx in E. destruct (split_lines r); discriminate.
  - rewrite Hs. reflexivity.
Qed.

Lemma file_lines_head tail c lt ft restt :
  file_lines tail = (c :: lt, ft) :: restt -> exists r, tail = c :: r.
Proof.
  unfold file_lines. destruct tail as [|x r]; [discriminate|]. cbn [split_lines].
  destruct (x =? 10) eqn:Ex.
  - cbn [map strip_cr]. discriminate.
  - destruct (split_lines r) as [|l0 ls].
    + cbn [map strip_cr]. destruct (x =? 13); [discriminate|]. intros H. inversion H. eauto.
    + cbn [map strip_cr]. destruct l0 as [|y l0'].
      * destruct (x =? 13); [discriminate|]. intros H. inversion H. eauto.
      * destruct (strip_cr (y :: l0')). intros H. inversion H. eauto.
Qed.

(** * std::string::find *)
Lemma is_prefix_app_r d u r : is_prefix d u = true -> is_prefix d (u ++ r) = true.
Proof.
  revert u. induction d as [|x d IH]; intros u H; [reflexivity|].
  destruct u as [|y u]; [discriminate|]. cbn [app is_prefix] in *.
  apply andb_true_iff in H as [H1 H2]. rewrite H1, (IH u H2). reflexivity.
Qed.

Lemma is_prefix_app_long d u r : (length d <= length u)%nat -> is_prefix d (u ++ r) = is_prefix d u.
Proof.
  revert u. induction d as [|x d IH]; intros u H; [reflexivity|].
  destruct u as [|y u]; [simpl in H; lia|]. cbn [app is_prefix]. rewrite IH; [reflexivity | simpl in H; lia].
Qed.

Lemma is_prefix_self d r : is_prefix d (d ++ r) = true.
Proof. induction d; simpl; [reflexivity|]. rewrite N.eqb_refl. assumption. Qed.

Lemma find_prefix d s : is_prefix d s = true -> find d s = Some 0%nat.
Proof. intros H. destruct s; cbn [find]; rewrite H; reflexivity. Qed.

Lemma find_fits_tail d t r : find d (t ++ d) = Some (length t) -> find d (t ++ d ++ r) = Some (length t).
Proof.
  induction t as [|x t IH]; intros H.
  - cbn [app length]. apply find_prefix, is_prefix_self.
  - cbn [app length find] in *.
    destruct (is_prefix d (x :: t ++ d)) eqn:E; [discriminate|].
    change (x :: t ++ d ++ r) with ((x :: t) ++ d ++ r).
    rewrite app_assoc, is_prefix_app_long by (rewrite app_length; simpl; lia).
    cbn [app]. rewrite E.
    destruct (find d (t ++ d)) as [k|] eqn:Ef; [|discriminate]. cbn [option_map] in H.
    inversion H; subst k. rewrite (IH eq_refl). reflexivity.
Qed.

Lemma find_fits_none d t : d <> [] -> find d (t ++ d) = Some (length t) -> find d t = None.
Proof.
  intros Hd. induction t as [|x t IH]; intros H.
  - destruct d; [congruence | reflexivity].
  - cbn [app length find] in *.
    destruct (is_prefix d (x :: t ++ d)) eqn:E; [discriminate|].
    destruct (is_prefix d (x :: t)) eqn:E2.
    + change (x :: t ++ d) with ((x :: t) ++ d) in E. rewrite is_prefix_app_r in E by assumption. discriminate.
    + destruct (find d (t ++ d)) as [k|] eqn:Ef; [|discriminate]. cbn [option_map] in H.
      inversion H; subst k. rewrite (IH eq_refl). reflexivity.
Qed.

Lemma find_le d a r : exists j, find d (a ++ d ++ r) = Some j /\ (j <= length a)%nat.
Proof.
  induction a as [|x a IH].
  - cbn [app]. exists 0%nat. split; [|simpl; lia]. apply find_prefix, is_prefix_self.
  - cbn [app find]. destruct (is_prefix d (x :: a ++ d ++ r)).
    + exists 0%nat. split; [reflexivity | simpl; lia].
    + destruct IH as (j & Hj & Hle). rewrite Hj. exists (S j). split; [reflexivity | simpl; lia].
Qed.

Lemma advance_self d l : advance d (d ++ l) = Some l.
Proof.
  unfold advance. rewrite app_length.
  destruct (Nat.leb (length d) (length d + length l)) eqn:E; [|apply Nat.leb_gt in E; lia].
  rewrite skipn_length_app. reflexivity.
Qed.

Lemma advance_nil d : d <> [] -> advance d [] = None.
Proof. destruct d; [congruence | reflexivity]. Qed.

(** * What one field contributes to reading a tuple *)
Definition mk_state (p : option bytes) (f : bool) (ls : list (bytes * bool)) : rstate :=
  {| rs_pos := p; rs_crlf := f; rs_lines := ls |}.

(** The written field [W] followed by the delimiter and more text: nextElement yields [E] and
    leaves the reader at the start of what follows the delimiter. *)
Definition field_mid (c : cfg) (W E : bytes) : Prop :=
  forall raw' l' f' rest', file_lines raw' = (l', f') :: rest' ->
  exists l f rest, file_lines (W ++ delim c ++ raw') = (l, f) :: rest /\
    next_element c (mk_state (Some l) f rest) = Some (E, mk_state (Some l') f' rest').

(** The written field [W] followed by the end of the tuple's line. *)
Definition field_last (c : cfg) (W E : bytes) : Prop :=
  forall more, exists l f rest f'', file_lines (W ++ 10 :: more) = (l, f) :: rest /\
    next_element c (mk_state (Some l) f rest) = Some (E, mk_state None f'' (file_lines more)).

Definition head_not_quote (W : bytes) : bool := match W with c :: _ => negb (c =? 34) | [] => false end.

Lemma cfg_ok_parts c : cfg_ok c = true ->
  delim c <> [] /\ memb 10 (delim c) = false /\ ends_cr (delim c) = false /\
  (rfc4180 c = true -> memb 34 (delim c) = false).
Proof.
  unfold cfg_ok, cfg_accepted. intros H.
  apply andb_true_iff in H as [H H4]. apply andb_true_iff in H as [H H3]. apply andb_true_iff in H as [H1 H2].
  rewrite negb_true_iff in *. repeat split; auto.
  - destruct (delim c); [discriminate | congruence].
  - intros Hr. rewrite Hr in H4. simpl in H4. exact H4.
Qed.

(** Fields found by `line.find(delimiter, start)`: every plain format without ',' in the
    delimiter, and unquoted fields under rfc4180. *)
Section Plain.
  Variable c : cfg.
  Hypothesis Hcfg : cfg_ok c = true.
  Variable W : bytes.
  Hypothesis Hmode : (rfc4180 c = false /\ memb 44 (delim c) = false) \/ (rfc4180 c = true /\ head_not_quote W = true).
  Hypothesis Hnl : memb 10 W = false.
  Hypothesis Hfit : delim_fits (delim c) W = true.

  Lemma fits_find : find (delim c) (W ++ delim c) = Some (length W).
  Proof.
    unfold delim_fits in Hfit. destruct (find (delim c) (W ++ delim c)) as [k|]; [|discriminate].
    apply Nat.eqb_eq in Hfit. congruence.
  Qed.

  Lemma next_element_plain_eq l f rest :
    (rfc4180 c = true -> head_not_quote l = true) ->
    next_element c (mk_state (Some l) f rest) =
    let (e, p) := elem_plain (delim c) l in Some (e, mk_state p f rest).
  Proof.
    intros Hh. unfold next_element, mk_state. cbn [rs_pos rs_crlf rs_lines].
    destruct Hmode as [[Hr Hc] | [Hr _]]; rewrite Hr.
    - rewrite Hc. reflexivity.
    - specialize (Hh Hr). destruct l as [|q l1]; [discriminate|]. cbn [head_not_quote] in Hh.
      rewrite negb_true_iff in Hh. rewrite Hh. reflexivity.
  Qed.

  Lemma field_mid_plain : field_mid c W W.
  Proof.
    destruct (cfg_ok_parts c Hcfg) as (Hd & Hd10 & Hdcr & _).
    intros raw' l' f' rest' Hraw.
    exists ((W ++ delim c) ++ l'), f', rest'. split.
    - rewrite app_assoc. apply file_lines_app; [| |exact Hraw].
      + rewrite memb_app, Hnl, Hd10. reflexivity.
      + rewrite ends_cr_app by assumption. exact Hdcr.
    - rewrite next_element_plain_eq.
      + unfold elem_plain. rewrite <- app_assoc, (find_fits_tail _ _ _ fits_find).
        rewrite firstn_length_app, skipn_length_app, advance_self. reflexivity.
      + intros Hr. destruct Hmode as [[Hr' _] | [_ Hq]]; [congruence|].
        destruct W; [discriminate | exact Hq].
  Qed.

  Lemma field_last_plain : ends_cr W = false -> field_last c W W.
  Proof.
    destruct (cfg_ok_parts c Hcfg) as (Hd & Hd10 & Hdcr & _).
    intros Hcr more. exists W, false, (file_lines more), false. split.
    - apply file_lines_app_nl; assumption.
    - rewrite next_element_plain_eq.
      + unfold elem_plain. rewrite (find_fits_none _ _ Hd fits_find), advance_nil by assumption. reflexivity.
      + intros Hr. destruct Hmode as [[Hr' _] | [_ Hq]]; [congruence | exact Hq].
  Qed.
End Plain.

(** * Quoted rfc4180 fields *)
Lemma quoted_nil lines crlf :
  quoted lines [] crlf =
  match lines with
  | [] => None
  | (l, f) :: lines' => cons_elem ((if crlf then [13] else []) ++ [10]) (quoted lines' l f)
  end.
Proof. destruct lines as [|[l f] lines']; reflexivity. Qed.

Lemma quoted_cons lines c ls' crlf :
  quoted lines (c :: ls') crlf =
  if c =? 34 then
    match ls' with
    | c2 :: ls'' => if c2 =? 34 then cons_elem [34] (quoted lines ls'' crlf) else Some ([], (ls', crlf, lines))
    | [] => Some ([], ([], crlf, lines))
    end
  else cons_elem [c] (quoted lines ls' crlf).
Proof. destruct lines as [|[l f] lines']; reflexivity. Qed.

Definition dq (s : bytes) : bytes := esc_quotes true s.

Lemma dq_cons c s : dq (c :: s) = (if c =? 34 then [34] else []) ++ c :: dq s.
Proof. unfold dq. cbn [esc_quotes negb]. rewrite andb_false_r. reflexivity. Qed.

Definition head_is (c : N) (s : bytes) : bool := match s with x :: _ => x =? c | [] => false end.

(** The loop of nextElement on [dq s], the closing quote and a tail that does not start with a quote. *)
Lemma quoted_roundtrip n : forall s tail lt ft restt,
  (length s <= n)%nat ->
  file_lines tail = (lt, ft) :: restt -> head_is 34 tail = false ->
  exists l f rest, file_lines (dq s ++ 34 :: tail) = (l, f) :: rest /\
                   quoted rest l f = Some (s, (lt, ft, restt)).
Proof.
  induction n as [|n IH]; intros s tail lt ft restt Hlen Htail Hhd.
  - destruct s; [|simpl in Hlen; lia]. clear Hlen.
    (* s = [] *)
    exists (34 :: lt), ft, restt. split.
    + cbn [dq esc_quotes app]. apply file_lines_cons; [reflexivity | exact Htail | left; reflexivity].
    + rewrite quoted_cons. change (34 =? 34) with true. cbv iota.
      destruct lt as [|c2 lt']; [reflexivity|].
      destruct (file_lines_head _ _ _ _ _ Htail) as [r ->]. cbn [head_is] in Hhd. rewrite Hhd. reflexivity.
  - destruct s as [|c s'].
    { apply (IH [] tail lt ft restt); [simpl; lia | assumption | assumption]. }
    cbn [length] in Hlen.
    (* the text that follows the first byte of the symbol *)
    assert (Hrest : forall s0, (length s0 <= n)%nat ->
              exists l f rest, file_lines (dq s0 ++ 34 :: tail) = (l, f) :: rest /\
                               quoted rest l f = Some (s0, (lt, ft, restt))).
    { intros s0 H0. apply IH; assumption. }
    destruct (c =? 34) eqn:E34.
    { (* a quote: written twice *)
      destruct (Hrest s' ltac:(lia)) as (l & f & rest & Hfl & Hq).
      exists (34 :: 34 :: l), f, rest. apply N.eqb_eq in E34. subst c. split.
      - rewrite dq_cons. change (34 =? 34) with true. cbn [app].
        apply file_lines_cons; [reflexivity | | left; reflexivity].
        apply file_lines_cons; [reflexivity | exact Hfl | left; reflexivity].
      - rewrite quoted_cons. change (34 =? 34) with true. cbv iota. rewrite Hq. reflexivity. }
    rewrite dq_cons, E34. cbn [app].
    destruct (c =? 10) eqn:E10.
    { (* newline: the loop fetches the next line *)
      destruct (Hrest s' ltac:(lia)) as (l & f & rest & Hfl & Hq).
      apply N.eqb_eq in E10. subst c.
      exists [], false, ((l, f) :: rest). split.
      - rewrite file_lines_nl, Hfl. reflexivity.
      - rewrite quoted_nil, Hq. reflexivity. }
    destruct (c =? 13) eqn:E13.
    2:{ (* any other byte *)
      destruct (Hrest s' ltac:(lia)) as (l & f & rest & Hfl & Hq).
      exists (c :: l), f, rest. split.
      - apply file_lines_cons; [exact E10 | exact Hfl | left; exact E13].
      - rewrite quoted_cons, E34, Hq. reflexivity. }
    apply N.eqb_eq in E13. subst c.
    destruct s' as [|c1 s''].
    { (* '\r' is the last byte of the symbol *)
      destruct (Hrest [] ltac:(simpl; lia)) as (l & f & rest & Hfl & Hq).
      exists (13 :: l), f, rest. split.
      - apply file_lines_cons; [reflexivity | exact Hfl |]. right. cbn [dq esc_quotes app]. eauto.
      - rewrite quoted_cons. change (13 =? 34) with false. cbv iota. rewrite Hq. reflexivity. }
    destruct (c1 =? 10) eqn:E1.
    { (* "\r\n": the stripped '\r' is put back by the loop *)
      apply N.eqb_eq in E1. subst c1. cbn [length] in Hlen.
      destruct (Hrest s'' ltac:(lia)) as (l & f & rest & Hfl & Hq).
      exists [], true, ((l, f) :: rest). split.
      - rewrite dq_cons. change (10 =? 34) with false. cbn [app]. rewrite file_lines_crnl, Hfl. reflexivity.
      - rewrite quoted_nil, Hq. reflexivity. }
    (* '\r' followed by something else *)
    destruct (Hrest (c1 :: s'') ltac:(simpl in *; lia)) as (l & f & rest & Hfl & Hq).
    exists (13 :: l), f, rest. split.
    + apply file_lines_cons; [reflexivity | exact Hfl |]. right.
      rewrite dq_cons. destruct (c1 =? 34) eqn:E2.
      * cbn [app]. eauto.
      * cbn [app]. eauto.
    + rewrite quoted_cons. change (13 =? 34) with false. cbv iota. rewrite Hq. reflexivity.
Qed.

Section Quoted.
  Variable c : cfg.
  Hypothesis Hcfg : cfg_ok c = true.
  Hypothesis Hrfc : rfc4180 c = true.
  Variable E : bytes.

  Lemma delim_head_not_quote r : head_is 34 (delim c ++ r) = false.
  Proof.
    destruct (cfg_ok_parts c Hcfg) as (Hd & _ & _ & Hq). specialize (Hq Hrfc).
    destruct (delim c) as [|x d]; [congruence|]. rewrite memb_cons in Hq.
    apply orb_false_iff in Hq as [Hx _]. cbn [app head_is]. rewrite N.eqb_sym. exact Hx.
  Qed.

  Lemma field_mid_quoted : field_mid c (34 :: dq E ++ [34]) E.
  Proof.
    destruct (cfg_ok_parts c Hcfg) as (Hd & Hd10 & Hdcr & _).
    intros raw' l' f' rest' Hraw.
    assert (Htail : file_lines (delim c ++ raw') = (delim c ++ l', f') :: rest').
    { apply file_lines_app; assumption. }
    destruct (quoted_roundtrip (length E) E _ _ _ _ (le_n _) Htail (delim_head_not_quote raw'))
      as (l & f & rest & Hfl & Hq).
    exists (34 :: l), f, rest. split.
    - cbn [app]. rewrite <- app_assoc. cbn [app].
      apply file_lines_cons; [reflexivity | exact Hfl | left; reflexivity].
    - unfold next_element, mk_state. cbn [rs_pos rs_crlf rs_lines]. rewrite Hrfc.
      change (34 =? 34) with true. cbv iota. rewrite Hq.
      rewrite is_prefix_self, orb_true_r, advance_self. reflexivity.
  Qed.

  Lemma field_last_quoted : field_last c (34 :: dq E ++ [34]) E.
  Proof.
    destruct (cfg_ok_parts c Hcfg) as (Hd & Hd10 & Hdcr & _).
    intros more.
    destruct (quoted_roundtrip (length E) E (10 :: more) _ _ _ (le_n _) (file_lines_nl more) eq_refl)
      as (l & f & rest & Hfl & Hq).
    exists (34 :: l), f, rest, false. split.
    - cbn [app]. rewrite <- app_assoc. cbn [app].
      apply file_lines_cons; [reflexivity | exact Hfl | left; reflexivity].
    - unfold next_element, mk_state. cbn [rs_pos rs_crlf rs_lines]. rewrite Hrfc.
      change (34 =? 34) with true. cbv iota. rewrite Hq.
      cbn [is_nil orb]. rewrite advance_nil by assumption. reflexivity.
  Qed.
End Quoted.

(** * The bracket-counting loop (delimiter contains ',') *)

(** The tail after the field: the end of the line, or the delimiter and more. *)
Definition tail_ok (d T : bytes) : Prop := T = [] \/ exists r, T = d ++ r.

(** Balanced text in which the delimiter does not occur early: the loop runs to the
    delimiter (or the end of the line) and stops there with count 0. *)
Lemma bscan_balanced d T : d <> [] -> forall t2 e p nd,
  balanced_from t2 p = true ->
  ((T = [] /\ nd = None) \/ (exists r, T = d ++ r) /\ nd = Some (e + length t2)%nat) ->
  bscan d (t2 ++ T) e p nd = Some (e + length t2)%nat.
Proof.
  intros Hd. induction t2 as [|x t2 IH]; intros e p nd Hb HT.
  - cbn [balanced_from] in Hb. cbn [app length]. rewrite Nat.add_0_r in *.
    destruct HT as [[-> ->] | [[r ->] ->]].
    + cbn [bscan]. rewrite Hb. reflexivity.
    + destruct d as [|y d']; [congruence|]. cbn [app bscan].
      rewrite Nat.ltb_irrefl, Hb. reflexivity.
  - cbn [balanced_from] in Hb. apply andb_true_iff in Hb as [Hp' Hb].
    cbn [app bscan length].
    assert (Hcond : (match nd with Some k => Nat.ltb e k | None => true end) = true).
    { destruct HT as [[_ ->] | [_ ->]]; [reflexivity|]. apply Nat.ltb_lt. simpl. lia. }
    rewrite Hcond. cbn [orb].
    destruct (upd_parens x p <? 0)%Z eqn:Eneg; [lia|].
    assert (Hnd : (if (match nd with Some k => Nat.eqb (S e) k | None => false end) && negb (upd_parens x p =? 0)%Z
                   then option_map (Nat.add (S e)) (find d (t2 ++ T)) else nd) = nd).
    { destruct HT as [[_ ->] | [_ ->]]; [reflexivity|].
      destruct t2 as [|y t2'].
      - cbn [balanced_from] in Hb. rewrite Hb. rewrite andb_false_r. reflexivity.
      - replace (Nat.eqb (S e) (e + length (x :: y :: t2'))) with false; [reflexivity|].
        symmetry. apply Nat.eqb_neq. simpl. lia. }
    rewrite Hnd. rewrite IH; [f_equal; lia | exact Hb |].
    destruct HT as [[-> ->] | [Hr ->]]; [left; auto | right; split; [exact Hr | f_equal; simpl; lia]].
Qed.

(** One bracket group: the loop cannot stop before its last byte. *)
Lemma bscan_tight d T : forall t2 e p nd,
  tight_from t2 p = true ->
  ((0 < p)%Z \/ (p = 0%Z /\ match nd with Some k => (e < k)%nat | None => True end)) ->
  (T = [] \/ (exists r, T = d ++ r) /\ exists k, nd = Some k /\ (k <= e + length t2)%nat) ->
  bscan d (t2 ++ T) e p nd = Some (e + length t2)%nat.
Proof.
  induction t2 as [|x t2 IH]; intros e p nd Ht Hp HT; [discriminate|].
  cbn [tight_from] in Ht. cbn [app bscan length].
  assert (Hcond : (match nd with Some k => Nat.ltb e k | None => true end) || negb (p =? 0)%Z = true).
  { destruct Hp as [Hp | [-> Hnd]].
    - assert ((p =? 0)%Z = false) by lia. rewrite H. apply orb_true_r.
    - destruct nd as [k|]; [|reflexivity]. apply Nat.ltb_lt in Hnd. rewrite Hnd. reflexivity. }
  rewrite Hcond.
  set (p' := upd_parens x p) in *.
  destruct t2 as [|y t2'].
  - (* the last byte of the group: the count returns to 0 *)
    assert (Hp0 : p' = 0%Z) by lia. rewrite Hp0. change (0 <? 0)%Z with false. cbv iota.
    change (0 =? 0)%Z with true. rewrite andb_false_r. cbn [app length].
    destruct HT as [-> | [[r ->] (k & -> & Hk)]].
    + cbn [bscan]. change (0 =? 0)%Z with true. cbv iota. f_equal. lia.
    + destruct d as [|z d'].
      * cbn [app]. destruct r as [|z r']; cbn [bscan]; change (0 =? 0)%Z with true; cbv iota.
        -- f_equal. lia.
        -- assert (Hlt : Nat.ltb (S e) k = false) by (apply Nat.ltb_ge; simpl in Hk; lia).
           rewrite Hlt. cbn [orb negb]. f_equal. lia.
      * cbn [app bscan]. change (0 =? 0)%Z with true.
        assert (Hlt : Nat.ltb (S e) k = false) by (apply Nat.ltb_ge; simpl in Hk; lia).
        rewrite Hlt. cbn [orb negb]. f_equal. lia.
  - apply andb_true_iff in Ht as [Hp' Ht].
    destruct (p' <? 0)%Z eqn:Eneg; [lia|].
    rewrite IH; [f_equal; simpl; lia | exact Ht | left; lia |].
    destruct HT as [-> | [[r ->] (k & -> & Hk)]]; [left; reflexivity|]. right. split; [eauto|].
    destruct (Nat.eqb (S e) k && negb (p' =? 0)%Z).
    + destruct (find_le d (y :: t2') r) as (j & Hj & Hle). rewrite Hj. cbn [option_map].
      eexists; split; [reflexivity|]. simpl in *. lia.
    + eexists; split; [reflexivity|]. simpl in *. lia.
Qed.

Lemma find_not_zero d s : is_prefix d s = false -> match find d s with Some k => (0 < k)%nat | None => True end.
Proof.
  intros H. destruct s as [|x s]; cbn [find]; rewrite H.
  - exact I.
  - destruct (find d s); cbn [option_map]; [lia | exact I].
Qed.

Section Comma.
  Variable c : cfg.
  Hypothesis Hcfg : cfg_ok c = true.
  Hypothesis Hrfc : rfc4180 c = false.
  Hypothesis Hcomma : memb 44 (delim c) = true.
  Variable W : bytes.
  Hypothesis Hnl : memb 10 W = false.
  Hypothesis Hshape :
    (balanced_from W 0 && delim_fits (delim c) W) || (tight_from W 0 && negb (is_prefix (delim c) (W ++ delim c))) = true.

  Lemma next_element_comma_eq l f rest :
    next_element c (mk_state (Some l) f rest) =
    match elem_comma (delim c) l with
    | Some (e, p) => Some (e, mk_state p f rest)
    | None => None
    end.
  Proof.
    unfold next_element, mk_state. cbn [rs_pos rs_crlf rs_lines]. rewrite Hrfc, Hcomma. reflexivity.
  Qed.

  Lemma bscan_field T : tail_ok (delim c) T ->
    bscan (delim c) (W ++ T) 0%nat 0%Z (find (delim c) (W ++ T)) = Some (length W).
  Proof.
    destruct (cfg_ok_parts c Hcfg) as (Hd & _ & _ & _).
    intros HT. apply orb_true_iff in Hshape as [H | H]; apply andb_true_iff in H as [H1 H2].
    - (* balanced, delimiter only at the end *)
      assert (Hfind : find (delim c) (W ++ delim c) = Some (length W)).
      { unfold delim_fits in H2. destruct (find (delim c) (W ++ delim c)) as [k|]; [|discriminate].
        apply Nat.eqb_eq in H2. congruence. }
      rewrite (bscan_balanced (delim c) T Hd W 0%nat 0%Z); [reflexivity | exact H1 |].
      destruct HT as [-> | [r ->]].
      + left. rewrite app_nil_r. split; [reflexivity | apply find_fits_none; assumption].
      + right. split; [eauto|]. rewrite find_fits_tail by assumption. reflexivity.
    - (* one bracket group *)
      rewrite negb_true_iff in H2.
      rewrite (bscan_tight (delim c) T W 0%nat 0%Z); [reflexivity | exact H1 | |].
      + right. split; [reflexivity|].
        assert (Hp : is_prefix (delim c) (W ++ T) = false).
        { destruct HT as [-> | [r ->]].
          - rewrite app_nil_r. destruct (is_prefix (delim c) W) eqn:E; [|reflexivity].
            rewrite is_prefix_app_r in H2 by assumption. discriminate.
          - rewrite app_assoc, is_prefix_app_long by (rewrite app_length; lia). exact H2. }
        pose proof (find_not_zero _ _ Hp) as Hnz. destruct (find (delim c) (W ++ T)); [lia | exact I].
      + destruct HT as [-> | [r ->]]; [left; reflexivity|]. right. split; [eauto|].
        destruct (find_le (delim c) W r) as (j & Hj & Hle). exists j. split; [exact Hj | lia].
  Qed.

  Lemma field_mid_comma : field_mid c W W.
  Proof.
    destruct (cfg_ok_parts c Hcfg) as (Hd & Hd10 & Hdcr & _).
    intros raw' l' f' rest' Hraw.
    exists ((W ++ delim c) ++ l'), f', rest'. split.
    - rewrite app_assoc. apply file_lines_app; [| |exact Hraw].
      + rewrite memb_app, Hnl, Hd10. reflexivity.
      + rewrite ends_cr_app by assumption. exact Hdcr.
    - rewrite next_element_comma_eq. unfold elem_comma. rewrite <- app_assoc.
      rewrite (bscan_field (delim c ++ l')) by (right; eauto).
      rewrite firstn_length_app, skipn_length_app, advance_self. reflexivity.
  Qed.

  Lemma field_last_comma : ends_cr W = false -> field_last c W W.
  Proof.
    destruct (cfg_ok_parts c Hcfg) as (Hd & Hd10 & Hdcr & _).
    intros Hcr more. exists W, false, (file_lines more), false. split.
    - apply file_lines_app_nl; assumption.
    - rewrite next_element_comma_eq. unfold elem_comma.
      pose proof (bscan_field [] (or_introl eq_refl)) as Hb. rewrite app_nil_r in Hb. rewrite Hb.
      rewrite firstn_all, skipn_all, advance_nil by assumption. reflexivity.
  Qed.
End Comma.

(** * The rfc4180 writer doubles every quote of the text the record reader will see *)
Lemma dq_app a b : dq (a ++ b) = dq a ++ dq b.
Proof.
  unfold dq. induction a as [|x a IH]; [reflexivity|].
  cbn [app esc_quotes]. rewrite IH, <- app_assoc. reflexivity.
Qed.

Lemma dq_id s : memb 34 s = false -> dq s = s.
Proof.
  induction s as [|x s IH]; [reflexivity|]. rewrite memb_cons. intros H.
  apply orb_false_iff in H as [Hx Hs]. rewrite dq_cons. rewrite N.eqb_sym in Hx. rewrite Hx, (IH Hs). reflexivity.
Qed.

Lemma forallb_memb (p : N -> bool) c s : forallb p s = true -> p c = false -> memb c s = false.
Proof.
  intros Hall Hc. induction s as [|x s IH]; [reflexivity|].
  cbn [forallb] in Hall. apply andb_true_iff in Hall as [Hx Hs]. rewrite memb_cons, (IH Hs), orb_false_r.
  destruct (c =? x) eqn:E; [|reflexivity]. apply N.eqb_eq in E. congruence.
Qed.

Lemma dec_memb z c : (- 2 ^ 32 < z < 2 ^ 32)%Z -> is_numchar c = false -> memb c (dec z) = false.
Proof. intros Hz Hc. destruct (dec_chars z Hz) as [_ Hall]. eapply forallb_memb; eauto. Qed.

Lemma dq_esc_bs s : dq (esc_bs s) = esc_quotes false s.
Proof.
  induction s as [|x s IH]; [reflexivity|].
  cbn [esc_bs esc_quotes]. destruct (x =? 34) eqn:E; [|destruct (x =? 92) eqn:E2]; cbn [orb andb negb].
  - cbn [app]. rewrite !dq_cons. change (92 =? 34) with false. rewrite E, IH. reflexivity.
  - cbn [app]. rewrite !dq_cons. change (92 =? 34) with false. rewrite E, IH. reflexivity.
  - cbn [app]. rewrite dq_cons, E, IH. reflexivity.
Qed.

Lemma dq_flat_sep l : dq (flat_map (fun y => B_SEP ++ y) l) = flat_map (fun y => B_SEP ++ y) (map dq l).
Proof.
  induction l as [|x l IH]; [reflexivity|].
  cbn [flat_map map]. rewrite !dq_app, IH. reflexivity.
Qed.

Lemma dq_join l : dq (join B_SEP l) = join B_SEP (map dq l).
Proof. destruct l as [|x l]; [reflexivity|]. cbn [join map]. rewrite dq_app, dq_flat_sep. reflexivity. Qed.

Lemma forallb2_map_eq {A B C} (p : A -> B -> bool) (f g : B -> C) lb :
  Forall (fun b => forall a, p a b = true -> f b = g b) lb ->
  forall la, forallb2 p la lb = true -> map f lb = map g lb.
Proof.
  induction 1 as [|b lb Hb Hlb IH]; intros la H; [reflexivity|].
  destruct la as [|a la]; [discriminate|]. cbn [forallb2] in H. apply andb_true_iff in H as [H1 H2].
  cbn [map]. rewrite (Hb a H1), (IH la H2). reflexivity.
Qed.

Lemma write_value_rfc v : forall closer ty, nested_ok true closer ty v = true ->
  write_value true v = dq (render true v).
Proof.
  induction v as [z|z|s| |fs IH|b fs IH] using cval_ind'; intros closer ty Hok;
    destruct ty as [| | |tys|brs]; try discriminate; cbn [nested_ok] in Hok.
  - cbn [write_value render]. rewrite dq_id; [reflexivity|]. apply dec_memb; [lia | reflexivity].
  - cbn [write_value render]. rewrite dq_id; [reflexivity|]. apply dec_memb; [lia | reflexivity].
  - cbn [write_value render]. unfold output_symbol, render_sym.
    rewrite dq_cons. change (34 =? 34) with true. rewrite dq_app, dq_esc_bs. cbn [app].
    reflexivity.
  - reflexivity.
  - cbn [write_value render]. rewrite dq_cons. change (91 =? 34) with false. cbn [app].
    rewrite dq_app, dq_join, map_map. f_equal. f_equal. f_equal.
    eapply (forallb2_map_eq (nested_ok true 93)); [|exact Hok].
    eapply Forall_impl; [|exact IH]. intros v Hv t Ht. eapply Hv; exact Ht.
  - apply andb_true_iff in Hok as [Hname Hok].
    destruct (lookup_branch b brs) as [tys|]; [|discriminate].
    unfold name_ok in Hname. apply andb_true_iff in Hname as [_ Hid].
    assert (Hb : dq b = b) by (apply dq_id; eapply forallb_memb; [exact Hid | reflexivity]).
    cbn [write_value render]. rewrite dq_cons. change (36 =? 34) with false. cbn [app].
    rewrite dq_app, Hb. f_equal. f_equal.
    destruct fs as [|x fs']; [reflexivity|].
    rewrite dq_cons. change (40 =? 34) with false. cbn [app].
    rewrite dq_app, dq_join, map_map. f_equal. f_equal. f_equal.
    eapply (forallb2_map_eq (nested_ok true 41)); [|exact Hok].
    eapply Forall_impl; [|exact IH]. intros v Hv t Ht. eapply Hv; exact Ht.
Qed.

(** * One field: what the reader extracts and converts *)
Definition value_ok (c : cfg) (ty : cty) (v : cval) : bool :=
  match ty, v with
  | TySym, CSym _ => true
  | TySym, _ => false
  | _, _ => nested_ok (rfc4180 c) 0 ty v
  end.

Lemma representable_eq c ty v : representable c ty v = value_ok c ty v && text_ok c ty (write_field c ty v).
Proof. reflexivity. Qed.

(** The element nextElement hands to the type switch. *)
Definition elem_text (c : cfg) (ty : cty) (v : cval) : bytes :=
  match ty with
  | TySym => match v with CSym s => s | _ => [] end
  | TyNum | TyUns => render false v
  | _ => render (rfc4180 c) v
  end.

Definition is_quoted_ty (ty : cty) : bool := match ty with TyNum | TyUns => false | _ => true end.

Lemma read_field_elem c ty v : value_ok c ty v = true -> read_field ty (elem_text c ty v) = Some v.
Proof.
  unfold value_ok. intros H. destruct ty as [| | |tys|brs].
  - destruct v; try discriminate. cbn [nested_ok] in H. cbn [elem_text render read_field].
    rewrite fact_signed_dec by lia. reflexivity.
  - destruct v; try discriminate. cbn [nested_ok] in H. cbn [elem_text render read_field].
    rewrite fact_unsigned_dec by lia. reflexivity.
  - destruct v; try discriminate. reflexivity.
  - cbn [elem_text read_field]. destruct v as [ | | | |fs| ]; try discriminate.
    + reflexivity.
    + cbn [render]. rewrite ws_skip_ns by reflexivity.
      change (is_prefix B_NIL (91 :: join B_SEP (map (render (rfc4180 c)) fs) ++ [93])) with false. cbv iota.
      change (91 :: join B_SEP (map (render (rfc4180 c)) fs) ++ [93]) with (render (rfc4180 c) (CRec fs)).
      rewrite <- (app_nil_r (render (rfc4180 c) (CRec fs))).
      rewrite (read_value_render _ _ 0 (TyRec tys) [] eq_refl H eq_refl). reflexivity.
  - cbn [elem_text read_field]. destruct v as [ | | | | |b fs]; try discriminate.
    rewrite <- (app_nil_r (render (rfc4180 c) (CAdt b fs))).
    rewrite (read_value_render _ _ 0 (TyAdt brs) [] eq_refl H); [reflexivity|].
    destruct fs; reflexivity.
Qed.

Lemma write_field_shape c ty v : value_ok c ty v = true ->
  write_field c ty v =
  if rfc4180 c && is_quoted_ty ty then 34 :: dq (elem_text c ty v) ++ [34] else elem_text c ty v.
Proof.
  unfold value_ok. intros H. destruct ty as [| | |tys|brs].
  - destruct v; try discriminate. rewrite andb_false_r. destruct (rfc4180 c); reflexivity.
  - destruct v; try discriminate. rewrite andb_false_r. destruct (rfc4180 c); reflexivity.
  - destruct v; try discriminate. cbn [write_field elem_text is_quoted_ty]. rewrite andb_true_r.
    unfold output_symbol. destruct (rfc4180 c); reflexivity.
  - cbn [write_field elem_text is_quoted_ty]. rewrite andb_true_r. destruct (rfc4180 c).
    + rewrite (write_value_rfc v 0 _ H). reflexivity.
    + apply write_value_plain.
  - cbn [write_field elem_text is_quoted_ty]. rewrite andb_true_r. destruct (rfc4180 c).
    + rewrite (write_value_rfc v 0 _ H). reflexivity.
    + apply write_value_plain.
Qed.

Lemma forallb_ends_cr (p : N -> bool) s : forallb p s = true -> p 13 = false -> ends_cr s = false.
Proof.
  intros Hall H13. unfold ends_cr. induction s as [|x s IH]; [reflexivity|].
  cbn [forallb] in Hall. apply andb_true_iff in Hall as [Hx Hs]. cbn [strip_cr].
  destruct s as [|y s'].
  - destruct (x =? 13) eqn:E; [|reflexivity]. apply N.eqb_eq in E. congruence.
  - specialize (IH Hs). destruct (strip_cr (y :: s')). exact IH.
Qed.

Lemma numeric_elem c ty v : value_ok c ty v = true -> is_quoted_ty ty = false ->
  exists z, elem_text c ty v = dec z /\ (- 2 ^ 32 < z < 2 ^ 32)%Z.
Proof.
  unfold value_ok. destruct ty; try discriminate; intros H _; destruct v; try discriminate;
    cbn [nested_ok] in H; eexists; (split; [reflexivity | lia]).
Qed.

(** Everything a representable field provides for the tuple loop. *)
Lemma field_facts c ty v : cfg_ok c = true -> representable c ty v = true ->
  let W := write_field c ty v in
  let E := elem_text c ty v in
  read_field ty E = Some v /\ field_mid c W E /\
  (rfc4180 c = true \/ ends_cr W = false -> field_last c W E).
Proof.
  intros Hcfg Hrep W E. rewrite representable_eq in Hrep. apply andb_true_iff in Hrep as [Hv Ht].
  split; [apply read_field_elem; exact Hv|].
  pose proof (write_field_shape c ty v Hv) as HW. fold W E in HW.
  unfold text_ok in Ht. fold W in Ht.
  destruct (rfc4180 c) eqn:Hrfc.
  - (* rfc4180 *)
    destruct (is_quoted_ty ty) eqn:Hq; cbn [andb] in HW.
    + rewrite HW. split; [apply field_mid_quoted; assumption | intros _; apply field_last_quoted; assumption].
    + destruct (numeric_elem c ty v Hv Hq) as (z & Hz & Hr). fold E in Hz.
      assert (Hfit : delim_fits (delim c) W = true) by (destruct ty; try discriminate; exact Ht).
      rewrite HW in *. rewrite Hz in *.
      destruct (dec_head z Hr) as (c0 & r0 & Hd & Hc0).
      assert (Hhq : head_not_quote (dec z) = true).
      { rewrite Hd. cbn [head_not_quote]. unfold is_numchar, is_digit in Hc0. lia. }
      assert (Hnl : memb 10 (dec z) = false) by (apply dec_memb; [exact Hr | reflexivity]).
      split.
      * apply field_mid_plain; auto.
      * intros _. apply field_last_plain; auto.
        destruct (dec_chars z Hr) as [_ Hall]. eapply forallb_ends_cr; [exact Hall | reflexivity].
  - (* no quoting *)
    cbn [andb] in HW. rewrite HW in *. apply andb_true_iff in Ht as [Hnl Ht]. rewrite negb_true_iff in Hnl.
    destruct (memb 44 (delim c)) eqn:Hcomma.
    + split.
      * apply field_mid_comma; auto.
      * intros [Hx | Hcr]; [discriminate|]. apply field_last_comma; auto.
    + split.
      * apply field_mid_plain; auto.
      * intros [Hx | Hcr]; [discriminate|]. apply field_last_plain; auto.
Qed.

(** * Tuples *)
Inductive row_good (c : cfg) : list cty -> list cval -> Prop :=
| rg_last ty v :
    read_field ty (elem_text c ty v) = Some v ->
    field_last c (write_field c ty v) (elem_text c ty v) ->
    row_good c [ty] [v]
| rg_cons ty v tys vs :
    read_field ty (elem_text c ty v) = Some v ->
    field_mid c (write_field c ty v) (elem_text c ty v) ->
    row_good c tys vs ->
    row_good c (ty :: tys) (v :: vs).

Lemma row_good_nonempty c tys vs : row_good c tys vs -> write_fields c tys vs <> [].
Proof. destruct 1; discriminate. Qed.

Lemma join_cons sep x l : l <> [] -> join sep (x :: l) = x ++ sep ++ join sep l.
Proof. destruct l as [|y l]; [congruence|]. intros _. cbn [join flat_map]. rewrite <- app_assoc. reflexivity. Qed.

Lemma read_fields_good c tys vs : row_good c tys vs -> forall more,
  exists l f rest stf,
    file_lines (join (delim c) (write_fields c tys vs) ++ 10 :: more) = (l, f) :: rest /\
    read_fields c tys (mk_state (Some l) f rest) = Some (vs, stf) /\
    rs_lines stf = file_lines more.
Proof.
  induction 1 as [ty v Hrd Hlast | ty v tys vs Hrd Hmid Hrow IH]; intros more.
  - destruct (Hlast more) as (l & f & rest & f'' & Hfl & Hne).
    exists l, f, rest, (mk_state None f'' (file_lines more)). split; [|split].
    + unfold write_fields. cbn [combine map join flat_map fst snd]. rewrite app_nil_r. exact Hfl.
    + cbn [read_fields]. rewrite Hne, Hrd. reflexivity.
    + reflexivity.
  - destruct (IH more) as (l' & f' & rest' & stf & Hfl' & Hrf & Hlines).
    destruct (Hmid _ _ _ _ Hfl') as (l & f & rest & Hfl & Hne).
    exists l, f, rest, stf. split; [|split].
    + change (write_fields c (ty :: tys) (v :: vs)) with (write_field c ty v :: write_fields c tys vs).
      rewrite join_cons by (eapply row_good_nonempty; eassumption).
      rewrite <- !app_assoc. exact Hfl.
    + cbn [read_fields]. rewrite Hne, Hrd, Hrf. reflexivity.
    + exact Hlines.
Qed.

Lemma row_good_of_representable c : cfg_ok c = true -> forall tys vs,
  tys <> [] -> forallb2 (representable c) tys vs = true ->
  (rfc4180 c = true \/ ends_cr (last (write_fields c tys vs) []) = false) ->
  row_good c tys vs.
Proof.
  intros Hcfg. induction tys as [|ty tys IH]; intros vs Hne Hall Hlast; [congruence|].
  destruct vs as [|v vs]; [discriminate|]. cbn [forallb2] in Hall. apply andb_true_iff in Hall as [Hv Hall].
  destruct (field_facts c ty v Hcfg Hv) as (Hrd & Hmid & Hl).
  destruct tys as [|ty2 tys'].
  - destruct vs; [|discriminate]. apply rg_last; [exact Hrd|]. apply Hl. exact Hlast.
  - destruct vs as [|v2 vs']; [discriminate|].
    apply rg_cons; [exact Hrd | exact Hmid |]. apply IH; [discriminate | exact Hall | exact Hlast].
Qed.

Lemma representable_row_good c tys vs : cfg_ok c = true -> representable_row c tys vs = true -> row_good c tys vs.
Proof.
  intros Hcfg H. unfold representable_row in H.
  apply andb_true_iff in H as [H H3]. apply andb_true_iff in H as [H1 H2].
  apply row_good_of_representable; auto.
  - destruct tys; [discriminate | congruence].
  - apply orb_true_iff in H3 as [H3 | H3]; [left; exact H3 | right; rewrite negb_true_iff in H3; exact H3].
Qed.

(** * Files *)
Lemma split_lines_length_app a b : (length (split_lines b) <= length (split_lines (a ++ b)))%nat.
Proof.
  induction a as [|x a IH]; [cbn [app]; lia|].
  cbn [app split_lines]. destruct (x =? 10); [cbn [length]; lia|].
  destruct (split_lines (a ++ b)); cbn [length] in *; lia.
Qed.

Lemma file_lines_length_nl a more :
  (S (length (file_lines more)) <= length (file_lines (a ++ 10%N :: more)))%nat.
Proof.
  unfold file_lines. rewrite !map_length.
  pose proof (split_lines_length_app a (10 :: more)) as H. cbn [split_lines] in H.
  change (10 =? 10) with true in H. cbn [length] in H. exact H.
Qed.

Lemma read_rows_good c tys rows : Forall (row_good c tys) rows -> forall fuel,
  (length (file_lines (write_file c tys rows)) < fuel)%nat ->
  read_rows fuel c tys (file_lines (write_file c tys rows)) = Some rows.
Proof.
  induction 1 as [|r rows Hr Hrows IH]; intros fuel Hfuel.
  - destruct fuel; [cbn in Hfuel; lia | reflexivity].
  - unfold write_file in *. cbn [flat_map] in *. fold (write_file c tys rows) in *.
    unfold write_tuple in *. rewrite <- app_assoc in *. cbn [app] in *.
    destruct (read_fields_good c tys r Hr (write_file c tys rows)) as (l & f & rest & stf & Hfl & Hrf & Hlines).
    pose proof (file_lines_length_nl (join (delim c) (write_fields c tys r)) (write_file c tys rows)) as Hlen.
    destruct fuel as [|fuel]; [lia|].
    rewrite Hfl. cbn [read_rows]. unfold mk_state in Hrf. rewrite Hrf, Hlines.
    unfold write_file in IH. rewrite IH; [reflexivity|]. unfold write_file in *. lia.
Qed.

(** ** The round-trip theorems *)

(** Any configuration covered by [cfg_ok], any column types, any tuples the format can represent. *)
Theorem file_roundtrip c tys rows :
  cfg_ok c = true -> Forall (fun r => representable_row c tys r = true) rows ->
  read_file c tys (write_file c tys rows) = Some rows.
Proof.
  intros Hcfg Hall. unfold read_file. apply read_rows_good; [|lia].
  eapply Forall_impl; [|exact Hall]. intros r Hr. apply representable_row_good; assumption.
Qed.

Theorem tuple_roundtrip c tys vs :
  cfg_ok c = true -> representable_row c tys vs = true ->
  read_tuple c tys (write_tuple c tys vs) = Some vs.
Proof.
  intros Hcfg Hr. unfold read_tuple, write_tuple.
  destruct (read_fields_good c tys vs (representable_row_good c tys vs Hcfg Hr) [])
    as (l & f & rest & stf & Hfl & Hrf & _).
  rewrite Hfl. unfold mk_state in Hrf. rewrite Hrf. reflexivity.
Qed.

Lemma drop_line_app h rest : memb 10 h = false -> drop_line (h ++ 10 :: rest) = rest.
Proof.
  induction h as [|x h IH]; intros H; [reflexivity|].
  rewrite memb_cons in H. apply orb_false_iff in H as [Hx Hh]. rewrite N.eqb_sym in Hx.
  cbn [app drop_line]. rewrite Hx. apply IH. exact Hh.
Qed.

(** With a header line (headers=true on both sides). *)
Theorem file_roundtrip_hdr c hdr tys rows :
  cfg_ok c = true -> memb 10 hdr = false -> Forall (fun r => representable_row c tys r = true) rows ->
  read_file_hdr c tys (write_file_hdr c hdr tys rows) = Some rows.
Proof.
  intros Hcfg Hh Hall. unfold read_file_hdr, write_file_hdr. rewrite drop_line_app by assumption.
  apply file_roundtrip; assumption.
Qed.

(** * Readable special cases *)

(** A one-byte delimiter fits a text iff it does not occur in it. *)
Lemma delim_fits_single x t : delim_fits [x] t = negb (memb x t).
Proof.
  unfold delim_fits. induction t as [|y t IH].
  - cbn [app find is_prefix]. rewrite N.eqb_refl. reflexivity.
  - cbn [app find is_prefix length]. rewrite memb_cons. destruct (x =? y) eqn:E.
    + cbn [andb orb negb]. destruct (t ++ [x]); reflexivity.
    + cbn [andb orb]. destruct (find [x] (t ++ [x])) as [k|]; cbn [option_map]; [|exact IH].
      exact IH.
  Qed.

(** Flat values: 32-bit numbers and symbols accepted by [sym_ok]. *)
Definition flat_ok (sym_ok : bytes -> bool) (ty : cty) (v : cval) : bool :=
  match ty, v with
  | TyNum, CNum z => ((- 2 ^ 31 <=? z) && (z <? 2 ^ 31))%Z
  | TyUns, CUns z => ((0 <=? z) && (z <? 2 ^ 32))%Z
  | TySym, CSym s => sym_ok s
  | _, _ => false
  end.

(** Symbols of the formats without quoting: no delimiter byte, no newline. *)
Definition plain_sym_ok (x : N) (s : bytes) : bool := negb (memb x s) && negb (memb 10 s).

(** The last value, if it is a symbol, does not end in '\r'. *)
Definition last_sym_no_cr (vs : list cval) : bool :=
  match last vs CNil with CSym s => negb (ends_cr s) | _ => true end.

(** One-byte delimiters that cannot be confused with anything the writer emits around fields. *)
Definition simple_delim (x : N) : bool :=
  negb (is_numchar x) && negb (x =? 10) && negb (x =? 13) && negb (x =? 44) && negb (x =? 34).

Definition plain1 (x : N) : cfg := {| rfc4180 := false; delim := [x] |}.
Definition rfc1 (x : N) : cfg := {| rfc4180 := true; delim := [x] |}.

Lemma flat_value_range c ty v so : flat_ok so ty v = true -> value_ok c ty v = true.
Proof. destruct ty, v; try discriminate; intros H; exact H || reflexivity. Qed.

Lemma flat_numeric_text c ty v so : flat_ok so ty v = true -> is_quoted_ty ty = false ->
  exists z, write_field c ty v = dec z /\ (- 2 ^ 32 < z < 2 ^ 32)%Z.
Proof.
  destruct ty, v; try discriminate; intros H _; cbn [flat_ok] in H;
    eexists; (split; [destruct (rfc4180 c); reflexivity | lia]).
Qed.

Lemma flat_representable_plain x ty v : simple_delim x = true ->
  flat_ok (plain_sym_ok x) ty v = true -> representable (plain1 x) ty v = true.
Proof.
  intros Hx H. rewrite representable_eq, (flat_value_range _ _ _ _ H). cbn [andb].
  unfold simple_delim in Hx. repeat (apply andb_true_iff in Hx as [Hx ?]). rewrite negb_true_iff in *.
  unfold text_ok, plain1. cbn [rfc4180 delim]. unfold memb at 2. cbn [existsb]. rewrite orb_false_r.
  rewrite (N.eqb_sym 44 x), H1, delim_fits_single.
  destruct (is_quoted_ty ty) eqn:Hq.
  - destruct ty, v; try discriminate. cbn [write_field output_symbol rfc4180].
    unfold plain_sym_ok in H. cbn [flat_ok] in H. apply andb_true_iff in H as [Ha Hb]. rewrite Ha, Hb. reflexivity.
  - destruct (flat_numeric_text {| rfc4180 := false; delim := [x] |} ty v _ H Hq) as (z & -> & Hz).
    rewrite !dec_memb by (assumption || reflexivity). reflexivity.
Qed.

Lemma flat_representable_rfc x ty v : simple_delim x = true \/ x = 44 ->
  flat_ok (fun _ => true) ty v = true -> representable (rfc1 x) ty v = true.
Proof.
  intros Hx H. rewrite representable_eq, (flat_value_range _ _ _ _ H). cbn [andb].
  unfold text_ok, rfc1. cbn [rfc4180 delim].
  destruct (is_quoted_ty ty) eqn:Hq.
  - destruct ty; try discriminate; reflexivity.
  - destruct (flat_numeric_text {| rfc4180 := true; delim := [x] |} ty v _ H Hq) as (z & -> & Hz).
    assert (Hn : is_numchar x = false).
    { destruct Hx as [Hx | ->]; [|reflexivity]. unfold simple_delim in Hx.
      repeat (apply andb_true_iff in Hx as [Hx ?]). rewrite negb_true_iff in *. assumption. }
    destruct ty; try discriminate; rewrite delim_fits_single, dec_memb by assumption; reflexivity.
Qed.

Lemma forallb2_impl {A B} (p q : A -> B -> bool) la lb :
  (forall a b, p a b = true -> q a b = true) -> forallb2 p la lb = true -> forallb2 q la lb = true.
Proof.
  intros Hpq. revert la. induction lb as [|b lb IH]; intros [|a la] H; try discriminate; [reflexivity|].
  cbn [forallb2] in *. apply andb_true_iff in H as [H1 H2]. rewrite (Hpq _ _ H1), (IH _ H2). reflexivity.
Qed.

(** The last written field is the written last value. *)
Lemma last_write_fields c (p : cty -> cval -> bool) tys vs :
  tys <> [] -> forallb2 p tys vs = true ->
  exists ty, last (write_fields c tys vs) [] = write_field c ty (last vs CNil) /\ p ty (last vs CNil) = true.
Proof.
  revert vs. induction tys as [|ty tys IH]; intros vs Hne H; [congruence|].
  destruct vs as [|v vs]; [discriminate|]. cbn [forallb2] in H. apply andb_true_iff in H as [H1 H2].
  destruct tys as [|ty2 tys'].
  - destruct vs; [|discriminate]. exists ty. split; [reflexivity | exact H1].
  - destruct vs as [|v2 vs']; [discriminate|].
    destruct (IH (v2 :: vs') ltac:(discriminate) H2) as (ty' & Hl & Hp).
    exists ty'. split; [|exact Hp].
    change (write_fields c (ty :: ty2 :: tys') (v :: v2 :: vs'))
      with (write_field c ty v :: write_fields c (ty2 :: tys') (v2 :: vs')).
    change (write_fields c (ty2 :: tys') (v2 :: vs'))
      with (write_field c ty2 v2 :: write_fields c tys' vs') in *.
    exact Hl.
Qed.

Lemma flat_last_no_cr x so tys vs :
  tys <> [] -> forallb2 (flat_ok so) tys vs = true -> last_sym_no_cr vs = true ->
  ends_cr (last (write_fields (plain1 x) tys vs) []) = false.
Proof.
  intros Hne Hall Hl. destruct (last_write_fields (plain1 x) _ tys vs Hne Hall) as (ty & -> & Hp).
  unfold last_sym_no_cr in Hl. destruct (is_quoted_ty ty) eqn:Hq.
  - destruct ty, (last vs CNil); try discriminate. cbn [write_field output_symbol plain1 rfc4180].
    rewrite negb_true_iff in Hl. exact Hl.
  - destruct (flat_numeric_text (plain1 x) ty _ _ Hp Hq) as (z & -> & Hz).
    destruct (dec_chars z Hz) as [_ Hc]. eapply forallb_ends_cr; [exact Hc | reflexivity].
Qed.

Lemma cfg_ok_plain1 x : simple_delim x = true -> cfg_ok (plain1 x) = true.
Proof.
  unfold simple_delim. intros Hx. repeat (apply andb_true_iff in Hx as [Hx ?]). rewrite negb_true_iff in *.
  unfold cfg_ok, cfg_accepted, plain1, ends_cr, memb. cbn [delim rfc4180 is_nil negb andb existsb strip_cr orb].
  rewrite (N.eqb_sym 10 x), H2, H1. reflexivity.
Qed.

Lemma cfg_ok_rfc1 x : simple_delim x = true \/ x = 44 -> cfg_ok (rfc1 x) = true.
Proof.
  intros [Hx | ->]; [|reflexivity].
  unfold simple_delim in Hx. repeat (apply andb_true_iff in Hx as [Hx ?]). rewrite negb_true_iff in *.
  unfold cfg_ok, cfg_accepted, rfc1, ends_cr, memb. cbn [delim rfc4180 is_nil negb andb existsb strip_cr orb].
  rewrite (N.eqb_sym 10 x), (N.eqb_sym 34 x), H2, H1, H. reflexivity.
Qed.

Lemma flat_row_plain x tys vs : simple_delim x = true ->
  tys <> [] -> forallb2 (flat_ok (plain_sym_ok x)) tys vs = true -> last_sym_no_cr vs = true ->
  representable_row (plain1 x) tys vs = true.
Proof.
  intros Hx Hne Hall Hl. unfold representable_row.
  rewrite (forallb2_impl _ _ _ _ (fun a b => flat_representable_plain x a b Hx) Hall).
  rewrite (flat_last_no_cr x _ tys vs Hne Hall Hl). destruct tys; [congruence | reflexivity].
Qed.

Lemma flat_row_rfc x tys vs : simple_delim x = true \/ x = 44 ->
  tys <> [] -> forallb2 (flat_ok (fun _ => true)) tys vs = true ->
  representable_row (rfc1 x) tys vs = true.
Proof.
  intros Hx Hne Hall. unfold representable_row.
  rewrite (forallb2_impl _ _ _ _ (fun a b => flat_representable_rfc x a b Hx) Hall).
  destruct tys; [congruence | reflexivity].
Qed.

(** (a) Flat columns, one-byte delimiter, no quoting (the default format is [x = 9]). *)
Theorem flat_roundtrip_plain x tys rows :
  simple_delim x = true -> tys <> [] ->
  Forall (fun vs => forallb2 (flat_ok (plain_sym_ok x)) tys vs = true /\ last_sym_no_cr vs = true) rows ->
  read_file (plain1 x) tys (write_file (plain1 x) tys rows) = Some rows.
Proof.
  intros Hx Hne Hall. apply file_roundtrip; [apply cfg_ok_plain1; exact Hx|].
  eapply Forall_impl; [|exact Hall]. intros vs [H1 H2]. apply flat_row_plain; assumption.
Qed.

Theorem field_roundtrip_plain tys vs :
  tys <> [] -> forallb2 (flat_ok (plain_sym_ok 9)) tys vs = true -> last_sym_no_cr vs = true ->
  read_tuple default_cfg tys (write_tuple default_cfg tys vs) = Some vs.
Proof.
  intros Hne Hall Hl. apply (tuple_roundtrip (plain1 9)); [reflexivity|].
  apply flat_row_plain; [reflexivity | assumption..].
Qed.

Theorem file_roundtrip_plain tys rows :
  tys <> [] ->
  Forall (fun vs => forallb2 (flat_ok (plain_sym_ok 9)) tys vs = true /\ last_sym_no_cr vs = true) rows ->
  read_file default_cfg tys (write_file default_cfg tys rows) = Some rows.
Proof. intros Hne Hall. apply (flat_roundtrip_plain 9); [reflexivity | assumption..]. Qed.

(** (b) rfc4180, flat columns: symbols are arbitrary byte strings. *)
Theorem flat_roundtrip_rfc x tys rows :
  simple_delim x = true \/ x = 44 -> tys <> [] ->
  Forall (fun vs => forallb2 (flat_ok (fun _ => true)) tys vs = true) rows ->
  read_file (rfc1 x) tys (write_file (rfc1 x) tys rows) = Some rows.
Proof.
  intros Hx Hne Hall. apply file_roundtrip; [apply cfg_ok_rfc1; exact Hx|].
  eapply Forall_impl; [|exact Hall]. intros vs H. apply flat_row_rfc; assumption.
Qed.

Theorem file_roundtrip_rfc4180 tys rows :
  tys <> [] ->
  Forall (fun vs => forallb2 (flat_ok (fun _ => true)) tys vs = true) rows ->
  read_file rfc_cfg tys (write_file rfc_cfg tys rows) = Some rows.
Proof. intros Hne Hall. apply (flat_roundtrip_rfc 44); [right; reflexivity | assumption..]. Qed.

(** (c) Records and ADTs in the default format: [representable] spelled out. *)
Lemma representable_default ty v :
  representable default_cfg ty v =
  value_ok default_cfg ty v &&
  (negb (memb 10 (write_field default_cfg ty v)) && negb (memb 9 (write_field default_cfg ty v))).
Proof.
  rewrite representable_eq. unfold text_ok, default_cfg. cbn [rfc4180 delim].
  change (memb 44 [9]) with false. cbv iota. rewrite delim_fits_single. reflexivity.
Qed.

(** A field of the default format: well-typed with acceptable nested symbols, and its text
    contains neither a newline nor a tab. *)
Definition default_field_ok (ty : cty) (v : cval) : bool :=
  value_ok default_cfg ty v &&
  (negb (memb 10 (write_field default_cfg ty v)) && negb (memb 9 (write_field default_cfg ty v))).

Theorem file_roundtrip_default_nested tys rows :
  tys <> [] ->
  Forall (fun vs => forallb2 default_field_ok tys vs = true /\
                    ends_cr (last (write_fields default_cfg tys vs) []) = false) rows ->
  read_file default_cfg tys (write_file default_cfg tys rows) = Some rows.
Proof.
  intros Hne Hall. apply file_roundtrip; [reflexivity|].
  eapply Forall_impl; [|exact Hall]. intros vs [H1 H2]. unfold representable_row.
  rewrite (forallb2_impl default_field_ok (representable default_cfg) tys vs); [| |exact H1].
  - rewrite H2. destruct tys; [congruence | reflexivity].
  - intros a b Hab. rewrite representable_default. exact Hab.
Qed.

(** * Examples: tricky values that the formats represent, with the round trip computed *)

(** rfc4180: a symbol with quote, delimiter, newline and CRLF; the empty symbol; a symbol that
    is only quotes; a lone '\r' in the last column; extreme numbers. *)
Definition ex_rfc_tys : list cty := [TyNum; TySym; TySym].
Definition ex_rfc_rows : list (list cval) :=
  [ [CNum (-2147483648); CSym [97; 34; 98; 44; 99; 10; 100; 13; 10; 101]; CSym []];
    [CNum 2147483647; CSym [34; 34]; CSym [13]] ].

Example ex_rfc_flat :
  Forall (fun vs => forallb2 (flat_ok (fun _ => true)) ex_rfc_tys vs = true) ex_rfc_rows /\
  Forall (fun vs => representable_row rfc_cfg ex_rfc_tys vs = true) ex_rfc_rows /\
  read_file rfc_cfg ex_rfc_tys (write_file rfc_cfg ex_rfc_tys ex_rfc_rows) = Some ex_rfc_rows.
Proof. repeat split; repeat constructor; vm_compute; reflexivity. Qed.

(** Default format, flat: symbols with spaces, quotes, brackets, backslashes, '\r' inside. *)
Definition ex_plain_tys : list cty := [TySym; TyUns; TyNum; TySym].
Definition ex_plain_rows : list (list cval) :=
  [ [CSym [97; 34; 98; 44; 93; 13; 32; 99; 92]; CUns 4294967295; CNum (-2147483648); CSym []];
    [CSym []; CUns 0; CNum 2147483647; CSym [91; 97; 44; 32; 98; 93]] ].

Example ex_plain_flat :
  Forall (fun vs => forallb2 (flat_ok (plain_sym_ok 9)) ex_plain_tys vs = true /\ last_sym_no_cr vs = true) ex_plain_rows /\
  read_file default_cfg ex_plain_tys (write_file default_cfg ex_plain_tys ex_plain_rows) = Some ex_plain_rows.
Proof. repeat split; repeat constructor; vm_compute; reflexivity. Qed.

(** Default format: nested record with nil, ADT with arguments, enum-like ADT branch, extremes. *)
Definition ex_nested_tys : list cty := [ty_Q; ty_A; ty_E; TyUns].
Definition ex_nested_rows : list (list cval) :=
  [ [CRec [CNil; CUns 4294967295];
     CAdt [89] [CSym [120; 32; 121]; CRec [CNum (-2147483648); CSym [112; 91; 113]]];
     CAdt [71] []; CUns 0];
    [CNil; CAdt [88] [CNum 7]; CAdt [66] []; CUns 4294967295];
    [CRec [CRec [CNum 1; CSym []]; CUns 5]; CAdt [89] [CSym []; CNil]; CAdt [82] []; CUns 1] ].

Example ex_nested_default :
  cfg_ok default_cfg = true /\
  Forall (fun vs => representable_row default_cfg ex_nested_tys vs = true) ex_nested_rows /\
  read_file default_cfg ex_nested_tys (write_file default_cfg ex_nested_tys ex_nested_rows) = Some ex_nested_rows.
Proof. repeat split; repeat constructor; vm_compute; reflexivity. Qed.

Example ex_nested_default_fields :
  Forall (fun vs => forallb2 default_field_ok ex_nested_tys vs = true /\
                    ends_cr (last (write_fields default_cfg ex_nested_tys vs) []) = false) ex_nested_rows.
Proof. repeat constructor; vm_compute; reflexivity. Qed.

(** rfc4180: nested symbols with quote, comma, closing bracket / parenthesis, newline, leading
    blank, backslashes. *)
Definition ex_rfc_nested_tys : list cty := [ty_P; ty_A].
Definition ex_rfc_nested_rows : list (list cval) :=
  [ [CRec [CNum 2; CSym [97; 34; 98; 44; 93; 10; 32; 99]]; CAdt [89] [CSym [32; 108; 101; 97; 100; 41]; CNil]];
    [CNil; CAdt [88] [CNum (-1)]];
    (* backslashes: a\b, a trailing backslash, backslash next to quotes *)
    [CRec [CNum 3; CSym [97; 92; 98]]; CAdt [89] [CSym [97; 92]; CRec [CNum 4; CSym [92; 34; 92; 34; 92]]]];
    [CRec [CNum 5; CSym [92; 92]]; CAdt [89] [CSym [34; 92; 110]; CRec [CNum 6; CSym [92]]]] ].

Example ex_nested_rfc :
  cfg_ok rfc_cfg = true /\
  Forall (fun vs => representable_row rfc_cfg ex_rfc_nested_tys vs = true) ex_rfc_nested_rows /\
  read_file rfc_cfg ex_rfc_nested_tys (write_file rfc_cfg ex_rfc_nested_tys ex_rfc_nested_rows) = Some ex_rfc_nested_rows.
Proof. repeat split; repeat constructor; vm_compute; reflexivity. Qed.

(** Custom delimiters: ", " (the bracket-counting loop; a record, a symbol that is one bracket
    group containing the delimiter), ",," with an ADT, and the two-byte "ab" next to symbols
    that end in 'a' / are "b". *)
Definition cfg_cs : cfg := {| rfc4180 := false; delim := [44; 32] |}.
Definition cfg_cc : cfg := {| rfc4180 := false; delim := [44; 44] |}.
Definition cfg_ab : cfg := {| rfc4180 := false; delim := [97; 98] |}.

Example ex_custom_delims :
  (cfg_ok cfg_cs = true /\
   representable_row cfg_cs [ty_P; TySym; TyNum] [CRec [CNum 1; CSym [120]]; CSym [91; 97; 44; 32; 98; 93]; CNum 3] = true /\
   read_tuple cfg_cs [ty_P; TySym; TyNum]
     (write_tuple cfg_cs [ty_P; TySym; TyNum] [CRec [CNum 1; CSym [120]]; CSym [91; 97; 44; 32; 98; 93]; CNum 3])
   = Some [CRec [CNum 1; CSym [120]]; CSym [91; 97; 44; 32; 98; 93]; CNum 3]) /\
  (cfg_ok cfg_cc = true /\
   representable_row cfg_cc [ty_A; ty_Q] [CAdt [89] [CSym [97; 98; 99]; CRec [CNum 1; CSym [120]]]; CRec [CNil; CUns 9]] = true /\
   read_tuple cfg_cc [ty_A; ty_Q]
     (write_tuple cfg_cc [ty_A; ty_Q] [CAdt [89] [CSym [97; 98; 99]; CRec [CNum 1; CSym [120]]]; CRec [CNil; CUns 9]])
   = Some [CAdt [89] [CSym [97; 98; 99]; CRec [CNum 1; CSym [120]]]; CRec [CNil; CUns 9]]) /\
  (cfg_ok cfg_ab = true /\
   representable_row cfg_ab [TySym; TySym] [CSym [120; 97]; CSym [98]] = true /\
   read_tuple cfg_ab [TySym; TySym] (write_tuple cfg_ab [TySym; TySym] [CSym [120; 97]; CSym [98]])
   = Some [CSym [120; 97]; CSym [98]]).
Proof. repeat split; vm_compute; reflexivity. Qed.

(** With a header line. *)
Example ex_headers :
  memb 10 [99; 48; 9; 99; 49] = false /\
  read_file_hdr rfc_cfg [TyNum; TySym]
    (write_file_hdr rfc_cfg [99; 48; 9; 99; 49] [TyNum; TySym] [[CNum 1; CSym [97; 10; 98]]])
  = Some [[CNum 1; CSym [97; 10; 98]]].
Proof. split; vm_compute; reflexivity. Qed.

Example ex_simple_delims :
  simple_delim 9 = true /\ simple_delim 124 = true /\ simple_delim 59 = true /\ simple_delim 32 = true /\
  simple_delim 44 = false /\ simple_delim 49 = false /\ simple_delim 13 = false.
Proof. repeat split; vm_compute; reflexivity. Qed.

(** The number lemmas at the extremes. *)
Example ex_numbers :
  fact_signed (dec (-2147483648)) = Some (-2147483648)%Z /\ fact_unsigned (dec 4294967295) = Some 4294967295%Z /\
  ram_signed_base 10 (dec (-2147483648) ++ [44; 32]) = POk (-2147483648) 11 /\
  follows 93 (CSym [120]) [93] = true /\ nested_ok false 93 TySym (CSym [120]) = true.
Proof. repeat split; vm_compute; reflexivity. Qed.

(** * What the formats cannot represent: the predicate is not too strict *)

(** The writer before the repair put a backslash in front of the doubled quote of a top-level
    symbol; the reader knows no backslash escape there. *)
Theorem rfc4180_backslash_writer_refuted :
  exists s, representable_row rfc_cfg [TySym] [CSym s] = true /\
            read_tuple rfc_cfg [TySym] (write_tuple_old rfc_cfg [TySym] [CSym s]) = Some [CSym [97; 92; 34; 98]] /\
            read_tuple rfc_cfg [TySym] (write_tuple_old rfc_cfg [TySym] [CSym s]) <> Some [CSym s].
Proof. exists [97; 34; 98]. repeat split; try (vm_compute; reflexivity). vm_compute. discriminate. Qed.

(** Before the second repair the writer escaped the quotes of a symbol nested in a record with
    a backslash but left the backslashes of the symbol alone, while the reader of a quoted
    symbol removes one level of backslashes: [a\b] came back as [ab], [a\] was an error. *)
Theorem rfc4180_nested_backslash_before_fix_refuted :
  exists s, representable_row rfc_cfg [ty_P] [CRec [CNum 2; CSym s]] = true /\
            read_tuple rfc_cfg [ty_P] (write_tuple_nested_old rfc_cfg [ty_P] [CRec [CNum 2; CSym s]])
            = Some [CRec [CNum 2; CSym [97; 98]]] /\ s <> [97; 98].
Proof. exists [97; 92; 98]. repeat split; try (vm_compute; reflexivity). discriminate. Qed.

Theorem rfc4180_nested_trailing_backslash_before_fix_refuted :
  representable_row rfc_cfg [ty_P] [CRec [CNum 2; CSym [97; 92]]] = true /\
  read_tuple rfc_cfg [ty_P] (write_tuple_nested_old rfc_cfg [ty_P] [CRec [CNum 2; CSym [97; 92]]]) = None.
Proof. split; vm_compute; reflexivity. Qed.

(** The old nested writer and the present one agree on symbols without backslash. *)
Lemma esc_quotes_old_eq s : memb 92 s = false -> esc_quotes_old s = esc_quotes false s.
Proof.
  induction s as [|c s IH]; [reflexivity|]. rewrite memb_cons. intros H.
  apply orb_false_iff in H as [Hc Hs]. rewrite N.eqb_sym in Hc.
  cbn [esc_quotes_old esc_quotes]. rewrite Hc, (IH Hs). reflexivity.
Qed.

(** Default format: a tab inside a symbol splits the field. *)
Theorem default_tab_symbol_refuted :
  exists vs, representable_row default_cfg [TySym; TySym] vs = false /\
             read_tuple default_cfg [TySym; TySym] (write_tuple default_cfg [TySym; TySym] vs)
             = Some [CSym [97]; CSym [98]] /\
             Some [CSym [97]; CSym [98]] <> Some vs.
Proof. exists [CSym [97; 9; 98]; CSym [99]]. repeat split; try (vm_compute; reflexivity). discriminate. Qed.

(** Default format: a '\r' at the end of the last symbol is taken for a Windows line ending. *)
Theorem default_trailing_cr_refuted :
  exists vs, representable_row default_cfg [TySym; TySym] vs = false /\
             read_tuple default_cfg [TySym; TySym] (write_tuple default_cfg [TySym; TySym] vs)
             = Some [CSym [97]; CSym [98]] /\
             Some [CSym [97]; CSym [98]] <> Some vs.
Proof. exists [CSym [97]; CSym [98; 13]]. repeat split; try (vm_compute; reflexivity). discriminate. Qed.

(** Default format: a newline inside a symbol ends the tuple. *)
Theorem default_newline_symbol_refuted :
  read_file default_cfg [TySym] (write_file default_cfg [TySym] [[CSym [97; 10; 98]]]) = Some [[CSym [97]]; [CSym [98]]].
Proof. vm_compute. reflexivity. Qed.

(** Default format, symbols nested in a record: ',' and ']' end the symbol, leading white
    space is skipped, a leading quote starts a quoted symbol. *)
Theorem default_record_symbol_refuted :
  read_tuple default_cfg [ty_P] (write_tuple default_cfg [ty_P] [CRec [CNum 1; CSym [97; 44; 98]]]) = None /\
  read_tuple default_cfg [ty_P] (write_tuple default_cfg [ty_P] [CRec [CNum 1; CSym [97; 93; 98]]]) = None /\
  read_tuple default_cfg [ty_P] (write_tuple default_cfg [ty_P] [CRec [CNum 1; CSym [32; 120]]])
    = Some [CRec [CNum 1; CSym [120]]] /\
  read_tuple default_cfg [ty_P] (write_tuple default_cfg [ty_P] [CRec [CNum 1; CSym [34; 113; 34]]])
    = Some [CRec [CNum 1; CSym [113]]] /\
  nested_sym_ok false 93 [97; 44; 98] = false /\ nested_sym_ok false 93 [97; 93; 98] = false /\
  nested_sym_ok false 93 [32; 120] = false /\ nested_sym_ok false 93 [34; 113; 34] = false.
Proof. repeat split; vm_compute; reflexivity. Qed.

(** Delimiter ",": an ADT with two arguments is cut at its own ", " (only square brackets are
    counted), and a symbol with an unmatched ']' or '[' is the error "Unbalanced record
    parenthesis". *)
Theorem comma_delimiter_refuted :
  let c := {| rfc4180 := false; delim := [44] |} in
  read_tuple c [ty_A] (write_tuple c [ty_A] [CAdt [89] [CSym [97; 98; 99]; CRec [CNum 1; CSym [120]]]]) = None /\
  read_tuple c [TySym; TyNum] (write_tuple c [TySym; TyNum] [CSym [97; 93; 98]; CNum 3]) = None /\
  read_tuple c [TySym; TyNum] (write_tuple c [TySym; TyNum] [CSym [97; 91; 98]; CNum 3]) = None.
Proof. repeat split; vm_compute; reflexivity. Qed.

(** A multi-byte delimiter can straddle the end of a symbol. *)
Theorem overlapping_delimiter_refuted :
  let c := {| rfc4180 := false; delim := [97; 97] |} in
  representable_row c [TySym; TySym] [CSym [97]; CSym [98]] = false /\
  read_tuple c [TySym; TySym] (write_tuple c [TySym; TySym] [CSym [97]; CSym [98]]) = Some [CSym []; CSym [97; 98]].
Proof. split; vm_compute; reflexivity. Qed.

(* NOT PROVED:
   - Float columns ('f') are not in the model (their text goes through operator<< with
     max_digits10 and std::stof; finding F8: denormals do not read back).
   - Delimiters that contain '\n', end in '\r', or are empty are excluded by [cfg_ok] (a '\r'
     elsewhere in the delimiter is covered); no statement is made for them.
   - Recursive record types: [cty] is a finite tree.
   - [representable] is sufficient, not necessary, for the round trip when the delimiter
     contains ',': e.g. a text that is several bracket groups with the delimiter inside a later
     group is rejected by the predicate although some such texts do read back. For delimiters
     without ',' and for rfc4180 no counterexample to necessity is known, but necessity is not
     proved; tightness is shown by the ..._refuted witnesses only.
   - The input column map ("columns" option), gzip, arity 0 ("()"), stdin/stdout variants. *)
