(** Proofs about the Brie model (BrieDefs.v), property C27.

    Contents
      A  bit arithmetic: [getIndex] = base-2^b digit, [getLevelMask] = rounding down ([hi])
      B  sorted association lists under a monotone change of keys; positions
      C  SparseArray refines a finite map, generically in the class of indices ([sa_good]):
         [rep_locate]/[rep_update], [rep_get_any], [find_any]
      D  its iterator walks the map in index order: [next_spec], [begin_spec], [iter_spec], [its_spec]
      E  the index classes of a Trie satisfy [sa_good]: repaired header - all int32 keys
         ([sa_good_fixed6/4]); unchanged header - keys of one sign ([sa_good_asis6/4])
      F,G words/bits, SparseBitMap, canonical bitmap iterator states
      H  keys/indices, order facts about [tuple_ltb]
      I  Trie<Dim>: [insert_spec], [contains_spec], [iter_trie_spec], [size_spec], [content_sorted],
         canonical cores ([inc_canon]), [prefix_spec] (getBoundaries), [partition_spec], [run_refines]
      J  the two instantiations: [fixed_refines_set] (no hypothesis on the keys),
         [asis_refines_set] (one sign per column)
      K  [digits_roundtrip], [digits_inj]
      L  the defect: [trie_mixed_sign_refuted], [asis_refines_set_refuted],
         [trie2_mixed_sign_shift_undefined]
      M  [asis_defect_condition_bounded]; examples; the repair; NOT PROVED *)
From SV Require Import BrieDefs.
Require Import Lia ZifyBool ZifyNat ZifyN Sorted.
Local Open Scope N_scope.
Arguments N.eqb : simpl never.
Arguments N.leb : simpl never.
Arguments N.ltb : simpl never.
Arguments N.sub : simpl never.
Arguments N.mul : simpl never.
Arguments N.add : simpl never.
Arguments N.pow : simpl never.
Arguments N.div : simpl never.
Arguments N.modulo : simpl never.
Arguments N.land : simpl never.
Arguments N.lor : simpl never.
Arguments N.ldiff : simpl never.
Arguments N.shiftl : simpl never.
Arguments N.shiftr : simpl never.
Arguments N.ones : simpl never.
Arguments Z.pow : simpl never.

(** ** Part A: bit arithmetic *)
Definition digit (b i l : N) : N := (i / 2 ^ (b * l)) mod 2 ^ b.
(** the part of [i] above level [l]: [i & getLevelMask(l)] *)
Definition hi (b l i : N) : N := (i / 2 ^ (b * l)) * 2 ^ (b * l).

Lemma W64_eq : W64 = 2 ^ 64. Proof. reflexivity. Qed.
Global Opaque W64.

Lemma pow2_pos n : 0 < 2 ^ n.
Proof. apply N.neq_0_lt_0, N.pow_nonzero. lia. Qed.

Lemma lt_pow2_bits a n : a < 2 ^ n -> forall k, n <= k -> N.testbit a k = false.
Proof.
  intros H k Hk. destruct (N.eq_dec a 0) as [->|Ha]; [apply N.bits_0|].
  apply N.bits_above_log2. apply N.log2_lt_pow2 in H; lia.
Qed.

Lemma shl64_ones_bits c s k : s < 64 ->
  N.testbit (shl64 (N.ones c) s) k = (s <=? k) && (k <? s + c) && (k <? 64).
Proof.
  intros Hs. unfold shl64. rewrite W64_eq.
  destruct (N.ltb_spec k 64) as [Hk|Hk].
  - rewrite N.mod_pow2_bits_low by lia.
    destruct (N.leb_spec s k) as [Hsk|Hsk].
    + rewrite N.shiftl_spec_high' by lia.
      destruct (N.ltb_spec k (s + c)).
      * rewrite N.ones_spec_low by lia. reflexivity.
      * rewrite N.ones_spec_high by lia. reflexivity.
    + rewrite N.shiftl_spec_low by lia. reflexivity.
  - rewrite N.mod_pow2_bits_high by lia. rewrite andb_false_r. reflexivity.
Qed.

(** [getIndex] computes the base-2^b digit, for every shift count below 64 *)
Lemma getIndex_at_digit b a s : a < 2 ^ 64 -> s < 64 ->
  getIndex_at b a s = (a / 2 ^ s) mod 2 ^ b.
Proof.
  intros Ha Hs. unfold getIndex_at, index_mask. apply N.bits_inj. intro k.
  rewrite N.shiftr_spec', N.land_spec, shl64_ones_bits by lia.
  destruct (N.ltb_spec k b) as [Hk|Hk].
  - rewrite N.mod_pow2_bits_low by lia. rewrite <- N.shiftr_div_pow2, N.shiftr_spec'.
    destruct (N.ltb_spec (k + s) 64) as [H64|H64].
    + replace (s <=? k + s) with true by lia. replace (k + s <? s + b) with true by lia.
      rewrite andb_true_r. reflexivity.
    + rewrite (lt_pow2_bits a 64) by lia. reflexivity.
  - rewrite N.mod_pow2_bits_high by lia.
    replace (k + s <? s + b) with false by lia. rewrite andb_false_r, andb_false_l, andb_false_r. reflexivity.
Qed.

Lemma land_mask_hi i s : i < 2 ^ 64 -> s < 64 ->
  N.land i (shl64 (N.ones 64) s) = (i / 2 ^ s) * 2 ^ s.
Proof.
  intros Hi Hs. rewrite <- N.shiftr_div_pow2, <- N.shiftl_mul_pow2. apply N.bits_inj. intro k.
  rewrite N.land_spec, shl64_ones_bits by lia.
  destruct (N.leb_spec s k) as [Hsk|Hsk].
  - rewrite N.shiftl_spec_high' by lia. rewrite N.shiftr_spec'. replace (k - s + s) with k by lia.
    destruct (N.ltb_spec k 64).
    + replace (k <? s + 64) with true by lia. rewrite andb_true_r. reflexivity.
    + rewrite (lt_pow2_bits i 64) by lia. reflexivity.
  - rewrite N.shiftl_spec_low by lia. rewrite andb_false_l, andb_false_r. reflexivity.
Qed.

Lemma getLevelMask_hi m b l i : 0 < b -> i < 2 ^ 64 -> (b * l < 64 \/ 64 / b < l) ->
  exists mk, getLevelMaskM m b l = Some mk /\ N.land i mk = hi b l i.
Proof.
  intros Hb Hi H. unfold getLevelMaskM, hi.
  destruct (N.ltb_spec (64 / b) l) as [Hl|Hl].
  - exists 0. split; [reflexivity|]. rewrite N.land_0_r.
    assert (64 < b * l).
    { pose proof (N.mul_succ_div_gt 64 b ltac:(lia)). nia. }
    rewrite N.div_small; [reflexivity|].
    eapply N.lt_trans; [exact Hi|]. apply N.pow_lt_mono_r; lia.
  - destruct H as [H|H]; [|lia]. unfold shcount. replace (l * b <? 64) with true by lia.
    cbn [option_map]. eexists; split; [reflexivity|]. rewrite land_mask_hi by lia.
    replace (l * b) with (b * l) by lia. reflexivity.
Qed.

Lemma digit_lt b i l : digit b i l < 2 ^ b.
Proof. apply N.mod_lt, N.pow_nonzero. lia. Qed.

(** splitting off the top digit *)
Lemma mod_pow_succ b i l :
  i mod 2 ^ (b * (l + 1)) = digit b i l * 2 ^ (b * l) + i mod 2 ^ (b * l).
Proof.
  unfold digit. replace (b * (l + 1)) with (b * l + b) by lia. rewrite N.pow_add_r.
  rewrite N.mod_mul_r by (apply N.pow_nonzero; lia). lia.
Qed.

Lemma hi_split b l i : i = hi b l i + i mod 2 ^ (b * l).
Proof. unfold hi. pose proof (N.div_mod i (2 ^ (b * l)) ltac:(apply N.pow_nonzero; lia)). lia. Qed.

Lemma hi_le b l i : hi b l i <= i.
Proof. pose proof (hi_split b l i). lia. Qed.

Lemma hi_succ_digit b l i : hi b l i = hi b (l + 1) i + digit b i l * 2 ^ (b * l).
Proof.
  pose proof (hi_split b l i). pose proof (hi_split b (l + 1) i). pose proof (mod_pow_succ b i l). lia.
Qed.

(** repaired [getIndex]: the digit at every level *)
Lemma gi_fx_digit m b i l : 0 < b -> i < 2 ^ 64 -> gi true m b i l = Some (digit b i l).
Proof.
  intros Hb Hi. unfold gi, getIndex_fx, digit. f_equal.
  destruct (N.leb_spec 64 (l * b)) as [H|H].
  - rewrite N.div_small; [rewrite N.mod_0_l; [reflexivity|apply N.pow_nonzero; lia]|].
    eapply N.lt_le_trans; [exact Hi|]. apply N.pow_le_mono_r; lia.
  - rewrite getIndex_at_digit by lia. replace (l * b) with (b * l) by lia. reflexivity.
Qed.

(** unchanged [getIndex(brie_element_type(i), l)]: the digit of the narrowed and re-extended index,
    defined only below 64 *)
Lemma gi_asis_digit m b i l : l * b < 64 -> cast32 i < 2 ^ 64 ->
  gi false m b i l = Some (digit b (cast32 i) l).
Proof.
  intros H Hc. unfold gi, getIndexM, shcount. replace (l * b <? 64) with true by lia. cbn [option_map].
  rewrite getIndex_at_digit by lia. unfold digit. replace (l * b) with (b * l) by lia. reflexivity.
Qed.

Lemma land_index_mask b i : N.land i (index_mask b) = i mod 2 ^ b.
Proof. apply N.land_ones. Qed.
Lemma ldiff_index_mask b i : N.ldiff i (index_mask b) = hi b 1 i.
Proof.
  unfold index_mask, hi. rewrite N.ldiff_ones_r, N.shiftl_mul_pow2, N.shiftr_div_pow2, N.mul_1_r. reflexivity.
Qed.

(** ** Part B: sorted association lists under a monotone change of keys *)
Section KeyMap.
  Context {V : Type}.
  Definition keys (M : list (N * V)) : list N := map fst M.
  Definition map_keys (f : N -> N) (M : list (N * V)) : list (N * V) := map (fun e => (f (fst e), snd e)) M.
  Definition ksorted (M : list (N * V)) : Prop := StronglySorted N.lt (keys M).

  Lemma cells_get_map_keys f i (M : list (N * V)) :
    (forall j, In j (keys M) -> f j = f i -> j = i) ->
    cells_get (f i) (map_keys f M) = cells_get i M.
  Proof.
    induction M as [|[q v] M IH]; intros Hinj; [reflexivity|]. cbn [map_keys map cells_get fst snd].
    destruct (N.eqb_spec q i) as [->|Hq].
    - rewrite N.eqb_refl. reflexivity.
    - destruct (N.eqb_spec (f q) (f i)) as [E|E].
      + exfalso. apply Hq, Hinj; [left; reflexivity|exact E].
      + apply IH. intros j Hj. apply Hinj. right; exact Hj.
  Qed.

  Lemma cells_put_map_keys f i v (M : list (N * V)) :
    (forall j, In j (keys M) -> (i < j <-> f i < f j) /\ (f j = f i -> j = i)) ->
    cells_put (f i) v (map_keys f M) = map_keys f (cells_put i v M).
  Proof.
    induction M as [|[q w] M IH]; intros H; [reflexivity|].
    cbn [map_keys map cells_put fst snd].
    destruct (H q ltac:(left; reflexivity)) as [Hlt Hinj].
    destruct (N.ltb_spec i q) as [Hiq|Hiq].
    - replace (f i <? f q) with true by (symmetry; apply N.ltb_lt, Hlt, Hiq). reflexivity.
    - replace (f i <? f q) with false by (symmetry; apply N.ltb_ge; destruct (N.lt_ge_cases (f i) (f q)) as [C|C]; [apply Hlt in C; lia|exact C]).
      destruct (N.eqb_spec q i) as [->|Hq].
      + rewrite N.eqb_refl. reflexivity.
      + destruct (N.eqb_spec (f q) (f i)) as [E|E]; [exfalso; apply Hq, Hinj, E|].
        cbn [map fst snd]. f_equal. apply IH. intros j Hj. apply H. right; exact Hj.
  Qed.

  Lemma cells_put_keys i v (M : list (N * V)) j :
    In j (keys (cells_put i v M)) <-> j = i \/ In j (keys M).
  Proof.
    induction M as [|[q w] M IH]; cbn [cells_put keys map fst In].
    - intuition.
    - destruct (i <? q); [cbn; intuition|]. destruct (N.eqb_spec q i) as [->|Hq]; cbn [keys map fst In].
      + intuition.
      + unfold keys in IH. rewrite IH. intuition.
  Qed.

  Lemma cells_put_sorted i v (M : list (N * V)) : ksorted M -> ksorted (cells_put i v M).
  Proof.
    unfold ksorted. induction M as [|[q w] M IH]; intros HS; cbn [cells_put keys map fst].
    - constructor; constructor.
    - inversion HS as [|? ? HS' HF]; subst.
      destruct (N.ltb_spec i q) as [Hiq|Hiq].
      + constructor; [exact HS|]. constructor; [exact Hiq|].
        eapply Forall_impl; [|exact HF]. cbn. intros; lia.
      + destruct (N.eqb_spec q i) as [->|Hq]; [exact HS|].
        cbn [keys map fst]. constructor; [apply IH, HS'|].
        apply Forall_forall. intros j Hj. apply (cells_put_keys i v M j) in Hj. destruct Hj as [->|Hj]; [lia|].
        rewrite Forall_forall in HF. apply HF, Hj.
  Qed.

  Lemma cells_get_put_same i v (M : list (N * V)) : cells_get i (cells_put i v M) = Some v.
  Proof.
    induction M as [|[q w] M IH]; cbn [cells_put cells_get]; [rewrite N.eqb_refl; reflexivity|].
    destruct (N.ltb_spec i q); [cbn [cells_get]; rewrite N.eqb_refl; reflexivity|].
    destruct (N.eqb_spec q i) as [->|Hq]; cbn [cells_get]; [rewrite N.eqb_refl; reflexivity|].
    replace (q =? i) with false by lia. exact IH.
  Qed.

  Lemma cells_get_put_other i j v (M : list (N * V)) : j <> i -> cells_get j (cells_put i v M) = cells_get j M.
  Proof.
    intros Hji. induction M as [|[q w] M IH]; cbn [cells_put cells_get].
    - replace (i =? j) with false by lia. reflexivity.
    - destruct (N.ltb_spec i q); [cbn [cells_get]; replace (i =? j) with false by lia; reflexivity|].
      destruct (N.eqb_spec q i) as [->|Hq]; cbn [cells_get].
      + replace (i =? j) with false by lia. reflexivity.
      + destruct (q =? j); [reflexivity|exact IH].
  Qed.

  Lemma cells_get_In i (M : list (N * V)) v : cells_get i M = Some v -> In (i, v) M.
  Proof.
    induction M as [|[q w] M IH]; cbn [cells_get]; [discriminate|].
    destruct (N.eqb_spec q i) as [->|]; [intros [= ->]; left; reflexivity|intros; right; auto].
  Qed.

  Lemma cells_get_None i (M : list (N * V)) : cells_get i M = None <-> ~ In i (keys M).
  Proof.
    induction M as [|[q w] M IH]; cbn [cells_get keys map fst In]; [intuition|].
    destruct (N.eqb_spec q i) as [->|Hq]; [split; [discriminate|intuition]|].
    unfold keys in IH. rewrite IH. intuition.
  Qed.

  Lemma cells_get_sorted_In i v (M : list (N * V)) : ksorted M -> In (i, v) M -> cells_get i M = Some v.
  Proof.
    unfold ksorted. induction M as [|[q w] M IH]; intros HS HI; [destruct HI|].
    inversion HS as [|? ? HS' HF]; subst. cbn [cells_get].
    destruct HI as [[= -> ->]|HI]; [rewrite N.eqb_refl; reflexivity|].
    destruct (N.eqb_spec q i) as [->|Hq]; [|apply IH; assumption].
    exfalso. rewrite Forall_forall in HF. specialize (HF i (in_map fst _ _ HI)). cbn in HF. lia.
  Qed.
End KeyMap.

(** ** more on [hi] / positions *)
Lemma hi_mono b l i j : i <= j -> hi b l i <= hi b l j.
Proof. intros H. unfold hi. apply N.mul_le_mono_r, N.div_le_mono; [apply N.pow_nonzero; lia|exact H]. Qed.

Lemma hi_hi b l i : hi b (l + 1) (hi b l i) = hi b (l + 1) i.
Proof.
  unfold hi. f_equal. replace (b * (l + 1)) with (b * l + b) by lia. rewrite N.pow_add_r.
  rewrite <- !N.div_div by (apply N.pow_nonzero; lia). rewrite N.div_mul by (apply N.pow_nonzero; lia). reflexivity.
Qed.

Lemma hi_lt_pow b l i n : i < 2 ^ n -> hi b l i < 2 ^ n.
Proof. pose proof (hi_le b l i). lia. Qed.

Definition posof (b : N) (L : nat) (i : N) : N := i mod 2 ^ (b * (N.of_nat L + 1)).

Lemma posof_split b L i : i = hi b (N.of_nat L + 1) i + posof b L i.
Proof. apply hi_split. Qed.

Lemma posof_lt_iff b L i j : hi b (N.of_nat L + 1) i = hi b (N.of_nat L + 1) j ->
  (i < j <-> posof b L i < posof b L j).
Proof. intros H. pose proof (posof_split b L i). pose proof (posof_split b L j). lia. Qed.

Lemma posof_inj b L i j : hi b (N.of_nat L + 1) i = hi b (N.of_nat L + 1) j ->
  posof b L i = posof b L j -> i = j.
Proof. intros H E. pose proof (posof_split b L i). pose proof (posof_split b L j). lia. Qed.

Lemma posof_succ b L i :
  posof b (S L) i = digit b i (N.of_nat L + 1) * 2 ^ (b * (N.of_nat L + 1)) + posof b L i.
Proof.
  unfold posof. replace (N.of_nat (S L) + 1) with (N.of_nat L + 1 + 1) by lia. apply mod_pow_succ.
Qed.

Lemma posof_0 b i : posof b 0 i = i mod 2 ^ b.
Proof. unfold posof. cbn [N.of_nat]. replace (b * (0 + 1)) with b by lia. reflexivity. Qed.

(** the leaf node of a position *)
Lemma posof_leaf b L i : 0 < b -> posof b L i / 2 ^ b = (i / 2 ^ b) mod 2 ^ (b * N.of_nat L).
Proof.
  intros Hb. unfold posof. replace (b * (N.of_nat L + 1)) with (b + b * N.of_nat L) by lia.
  rewrite N.pow_add_r. rewrite N.mod_mul_r by (apply N.pow_nonzero; lia).
  rewrite N.mul_comm, N.div_add by (apply N.pow_nonzero; lia).
  rewrite (N.div_small (i mod 2 ^ b)) by (apply N.mod_lt, N.pow_nonzero; lia). lia.
Qed.

Lemma hi1_div b i : hi b 1 i = (i / 2 ^ b) * 2 ^ b.
Proof. unfold hi. rewrite N.mul_1_r. reflexivity. Qed.

Lemma same_leaf_iff b L i j : 0 < b -> hi b (N.of_nat L + 1) i = hi b (N.of_nat L + 1) j ->
  (posof b L i / 2 ^ b = posof b L j / 2 ^ b <-> hi b 1 i = hi b 1 j).
Proof.
  intros Hb H. rewrite !hi1_div.
  assert (P : 2 ^ b <> 0) by (apply N.pow_nonzero; lia).
  assert (Hdiv : forall k, k / 2 ^ b = hi b (N.of_nat L + 1) k / 2 ^ b + posof b L k / 2 ^ b).
  { intro k. rewrite (posof_split b L k) at 1. unfold hi.
    replace (b * (N.of_nat L + 1)) with (b * N.of_nat L + b) by lia. rewrite N.pow_add_r, N.mul_assoc.
    rewrite N.div_mul by exact P.
    rewrite N.add_comm, N.div_add by exact P. lia. }
  rewrite (Hdiv i), (Hdiv j), H. split; intro E; [rewrite E; reflexivity|].
  apply N.mul_cancel_r in E; [lia|exact P].
Qed.

Lemma posof_mod_cells b L i : 0 < b -> posof b L i mod 2 ^ b = i mod 2 ^ b.
Proof.
  intros Hb. unfold posof. replace (b * (N.of_nat L + 1)) with (b + b * N.of_nat L) by lia.
  rewrite N.pow_add_r. rewrite N.mod_mul_r by (apply N.pow_nonzero; lia).
  rewrite (N.mul_comm (2 ^ b)), N.mod_add by (apply N.pow_nonzero; lia). apply N.mod_mod, N.pow_nonzero. lia.
Qed.

(** ** Part D: the iterator of the SparseArray walks the map in index order *)
Lemma div_pow_succ b p l : 0 < b -> p / 2 ^ (b * l) = p / 2 ^ (b * (l + 1)) * 2 ^ b + digit b p l.
Proof.
  intros Hb. unfold digit. replace (b * (l + 1)) with (b * l + b) by lia. rewrite N.pow_add_r.
  rewrite <- N.div_div by (apply N.pow_nonzero; lia).
  pose proof (N.div_mod (p / 2 ^ (b * l)) (2 ^ b) ltac:(apply N.pow_nonzero; lia)). lia.
Qed.

Lemma digit_posof b L i l : 0 < b -> l <= N.of_nat L -> digit b (posof b L i) l = digit b i l.
Proof.
  intros Hb Hl. unfold digit, posof.
  assert (E : N.of_nat L = l + (N.of_nat L - l)) by lia. set (k := N.of_nat L - l) in *. rewrite E.
  replace (b * (l + k + 1)) with (b * l + (b + b * k)) by ring.
  rewrite N.pow_add_r. rewrite N.mod_mul_r by (apply N.pow_nonzero; lia).
  rewrite (N.mul_comm (2 ^ (b * l))), N.div_add by (apply N.pow_nonzero; lia).
  rewrite (N.div_small (i mod 2 ^ (b * l))) by (apply N.mod_lt, N.pow_nonzero; lia). rewrite N.add_0_l.
  rewrite N.pow_add_r. rewrite N.mod_mul_r by (apply N.pow_nonzero; lia).
  rewrite (N.mul_comm (2 ^ b)), N.mod_add by (apply N.pow_nonzero; lia). apply N.mod_mod, N.pow_nonzero. lia.
Qed.

Lemma posof_lt b L i : posof b L i < 2 ^ (b * (N.of_nat L + 1)).
Proof. apply N.mod_lt, N.pow_nonzero. lia. Qed.

(** [hi] at a level inside the root = the root's offset + the part of the position *)
Lemma hi_posof b L i l : l <= N.of_nat L + 1 ->
  hi b l i = hi b (N.of_nat L + 1) i + hi b l (posof b L i).
Proof.
  intros Hl. assert (E : N.of_nat L + 1 = (N.of_nat L + 1 - l) + l) by lia.
  set (k := N.of_nat L + 1 - l) in *. set (p := posof b L i).
  assert (Ei : i = (i / 2 ^ (b * (k + l))) * 2 ^ (b * k) * 2 ^ (b * l) + p).
  { pose proof (posof_split b L i) as Hs. fold p in Hs. unfold hi in Hs. rewrite E in Hs.
    rewrite <- N.mul_assoc, <- N.pow_add_r. replace (b * k + b * l) with (b * (k + l)) by ring. exact Hs. }
  unfold hi at 1. rewrite Ei at 1. rewrite N.div_add_l by (apply N.pow_nonzero; lia).
  unfold hi. rewrite E. rewrite N.mul_add_distr_r. f_equal.
  rewrite <- N.mul_assoc, <- N.pow_add_r. replace (b * k + b * l) with (b * (k + l)) by ring. reflexivity.
Qed.

Lemma sorted_app_mid (l1 l2 : list N) x : StronglySorted N.lt (l1 ++ x :: l2) ->
  Forall (fun y => y < x) l1 /\ Forall (fun y => x < y) l2.
Proof.
  induction l1 as [|a l1 IH]; cbn [app]; intros H; inversion H as [|? ? H' HF]; subst.
  - split; [constructor|exact HF].
  - destruct (IH H') as [H1 H2]. split; [|exact H2]. constructor; [|exact H1].
    rewrite Forall_forall in HF. apply HF. apply in_or_app. right; left; reflexivity.
Qed.

Section CellsFrom.
  Context {V : Type}.
  Lemma cells_from_split (l1 l2 : list (N * V)) lo :
    (forall e, In e l1 -> fst e < lo) ->
    match l2 with [] => True | e :: _ => lo <= fst e end ->
    cells_from lo (l1 ++ l2) = hd_error l2.
  Proof.
    induction l1 as [|[q v] l1 IH]; cbn [app]; intros H1 H2.
    - destruct l2 as [|[q v] l2]; [reflexivity|]. cbn [cells_from hd_error fst] in *.
      replace (lo <=? q) with true by lia. reflexivity.
    - cbn [cells_from]. pose proof (H1 (q, v) ltac:(left; reflexivity)) as Hq. cbn [fst] in Hq.
      replace (lo <=? q) with false by lia. apply IH; [|exact H2]. intros e He. apply H1. right; exact He.
  Qed.
End CellsFrom.

Lemma hi_eq_digit b l i j : hi b l i = hi b l j -> digit b i l = digit b j l.
Proof.
  unfold hi, digit. intros H. apply N.mul_cancel_r in H; [rewrite H; reflexivity|apply N.pow_nonzero; lia].
Qed.

Lemma hi_idem b l i : hi b l (hi b l i) = hi b l i.
Proof. unfold hi. rewrite N.div_mul by (apply N.pow_nonzero; lia). reflexivity. Qed.

Lemma div_le_bound b x : 0 < b -> b * x < 64 -> x <= 64 / b.
Proof. intros Hb H. apply N.div_le_lower_bound; lia. Qed.

Lemma odd_hi_lt b i : 0 < b -> i < 2 ^ 64 -> hi b 1 i < W64 - 1.
Proof.
  intros Hb Hi. rewrite W64_eq. pose proof (hi_split b 1 i) as Hs. rewrite N.mul_1_r in Hs.
  destruct (N.eq_dec i (2 ^ 64 - 1)) as [->|Hne]; [|lia].
  assert (N.testbit ((2 ^ 64 - 1) mod 2 ^ b) 0 = true).
  { rewrite N.mod_pow2_bits_low by lia. reflexivity. }
  destruct ((2 ^ 64 - 1) mod 2 ^ b) eqn:E; [discriminate|]. lia.
Qed.

Lemma lor_mul_pow2 A n c : c < 2 ^ n -> N.lor (A * 2 ^ n) c = A * 2 ^ n + c.
Proof.
  intros Hc. rewrite N.add_nocarry_lxor, N.lxor_lor; try reflexivity;
  apply N.bits_inj; intro k; rewrite N.land_spec, N.bits_0;
  (destruct (N.lt_ge_cases k n); [rewrite N.mul_pow2_bits_low by lia; reflexivity|
   rewrite (lt_pow2_bits c n) by lia; apply andb_false_r]).
Qed.

(** ** Part C: SparseArray refines a finite map, generically in the class [D] of indices used *)
(** what the proofs need of the class [D] of indices stored in one array (and of the larger class
    [Q] of indices it may be asked about): up to [Lmax] levels suffice for [D], no shift reaches 64
    on the way, and the digits [getIndex] computes for members of [D] and for the offsets derived
    from them are their true base-2^b digits. *)
Record sa_good (fx : bool) (m : shmode) (b : N) (D Q : N -> Prop) (Lmax : nat) : Prop := {
  g_b : 0 < b;
  g_bL : b * N.of_nat Lmax < 64;
  g_mask : forall l, (l <= Lmax + 1)%nat -> b * N.of_nat l < 64 \/ 64 / b < N.of_nat l;
  g_lt : forall i, D i -> i < 2 ^ 64;
  g_gi : forall i l, D i -> (1 <= l <= Lmax)%nat ->
    gi fx m b i (N.of_nat l) = Some (digit b i (N.of_nat l));
  g_off : forall i l, D i -> (1 <= l <= Lmax)%nat ->
    gi fx m b (hi b (N.of_nat l) i) (N.of_nat l) = Some (digit b i (N.of_nat l));
  g_top : forall i l, D i -> (l <= Lmax + 1)%nat -> exists x, gi fx m b i (N.of_nat l) = Some x;
  g_fit : forall i j, D i -> D j ->
    hi b (N.of_nat Lmax + 1) i = hi b (N.of_nat Lmax + 1) j;
  g_sep : forall i, Q i -> D i \/
    (i < 2 ^ 64 /\ forall j l, D j -> (l <= Lmax + 1)%nat -> hi b (N.of_nat l) j <> hi b (N.of_nat l) i) }.

Section SARefine.
  Context {V : Type}.
  Variable fx : bool.
  Variable m : shmode.
  Variable b : N.
  Variable D Q : N -> Prop.
  Variable Lmax : nat.
  Hypothesis G : sa_good fx m b D Q Lmax.
  Let Hb := g_b _ _ _ _ _ _ G.
  Let HbL := g_bL _ _ _ _ _ _ G.
  Let Hmask := g_mask _ _ _ _ _ _ G.
  Let HD_lt := g_lt _ _ _ _ _ _ G.
  Let HD_gi := g_gi _ _ _ _ _ _ G.
  Let HD_off := g_off _ _ _ _ _ _ G.
  Let HD_top := g_top _ _ _ _ _ _ G.
  Let HD_fit := g_fit _ _ _ _ _ _ G.
  Let HD_sep := g_sep _ _ _ _ _ _ G.

  Let C := 2 ^ b.

  Record sa_rep (s : sa V) (M : list (N * V)) : Prop := {
    rep_L : (sa_levels s <= Lmax)%nat;
    rep_cells : sa_cells s = map_keys (posof b (sa_levels s)) M;
    rep_sorted : ksorted M;
    rep_dom : forall i, In i (keys M) -> D i /\ hi b (N.of_nat (sa_levels s) + 1) i = sa_offset s;
    rep_first : match M with
                | [] => sa_levels s = 0%nat /\ sa_firstOffset s = W64 - 1
                | e :: _ => sa_first s = posof b (sa_levels s) (fst e) / 2 ^ b /\
                            sa_firstOffset s = hi b 1 (fst e)
                end }.

  Lemma rep_empty : sa_rep sa_empty [].
  Proof. constructor; cbn; try lia; try reflexivity; try constructor; try tauto; reflexivity. Qed.

  Lemma mask_at l i : (l <= Lmax + 1)%nat -> i < 2 ^ 64 ->
    exists mk, getLevelMaskM m b (N.of_nat l) = Some mk /\ N.land i mk = hi b (N.of_nat l) i.
  Proof. intros Hl Hi. apply getLevelMask_hi; auto. Qed.

  Lemma inb_spec (s : sa V) i : (sa_levels s <= Lmax)%nat -> i < 2 ^ 64 ->
    sa_inb m b s i = Some (hi b (N.of_nat (sa_levels s) + 1) i =? sa_offset s).
  Proof.
    intros HL Hi. unfold sa_inb.
    destruct (mask_at (S (sa_levels s)) i ltac:(lia) Hi) as (mk & E & Hmk).
    replace (N.of_nat (S (sa_levels s))) with (N.of_nat (sa_levels s) + 1) in * by lia.
    rewrite E, Hmk. reflexivity.
  Qed.

  Lemma map_keys_shift (M : list (N * V)) L x :
    (forall i, In i (keys M) -> digit b i (N.of_nat L + 1) = x) ->
    cells_shift (x * 2 ^ (b * (N.of_nat L + 1))) (map_keys (posof b L) M) = map_keys (posof b (S L)) M.
  Proof.
    intros H. unfold cells_shift, map_keys. rewrite map_map. apply map_ext_in. intros [i v] Hin.
    cbn [fst snd]. rewrite posof_succ. rewrite (H i). f_equal; lia.
    apply (in_map fst) in Hin. exact Hin.
  Qed.

  Lemma rep_raise (s : sa V) M : sa_rep s M -> M <> [] -> (sa_levels s < Lmax)%nat ->
    exists s', sa_raise fx m b s = Some s' /\ sa_rep s' M /\ sa_levels s' = S (sa_levels s).
  Proof.
    intros R HM HL. destruct M as [|[i0 v0] M']; [congruence|]. clear HM.
    destruct R as [RL Rc Rs Rd Rf]. set (L := sa_levels s) in *.
    destruct (Rd i0 ltac:(left; reflexivity)) as [Di0 Hoff].
    unfold sa_raise. fold L.
    pose proof (div_le_bound b (N.of_nat Lmax) Hb HbL) as Hq.
    replace (64 / b + 1 <=? N.of_nat L) with false by lia.
    rewrite <- Hoff.
    pose proof (HD_off i0 (S L) Di0 ltac:(lia)) as Hgi.
    replace (N.of_nat (S L)) with (N.of_nat L + 1) in Hgi by lia. rewrite Hgi.
    assert (Ho64 : hi b (N.of_nat L + 1) i0 < 2 ^ 64) by (apply hi_lt_pow, HD_lt, Di0).
    destruct (mask_at (S (S L)) _ ltac:(lia) Ho64) as (mk & E & Hmk).
    replace (N.of_nat (S (S L))) with (N.of_nat L + 2) in * by lia. rewrite E.
    eexists; split; [reflexivity|]. split; [|reflexivity].
    assert (Hdig : forall i, In i (keys ((i0, v0) :: M')) -> digit b i (N.of_nat L + 1) = digit b i0 (N.of_nat L + 1)).
    { intros i Hi. apply hi_eq_digit. destruct (Rd i Hi) as [_ ->]. symmetry; exact Hoff. }
    constructor; cbn [sa_levels sa_offset sa_cells sa_first sa_firstOffset].
    - lia.
    - rewrite Rc. apply map_keys_shift. exact Hdig.
    - exact Rs.
    - intros i Hi. destruct (Rd i Hi) as [Di Hi']. split; [exact Di|].
      rewrite Hmk. replace (N.of_nat L + 2) with (N.of_nat L + 1 + 1) by lia. rewrite hi_hi.
      replace (N.of_nat (S L) + 1) with (N.of_nat L + 1 + 1) by lia.
      rewrite <- (hi_hi b (N.of_nat L + 1) i), <- (hi_hi b (N.of_nat L + 1) i0). rewrite Hi', Hoff. reflexivity.
    - cbn [fst] in *. destruct Rf as [Rf1 Rf2]. split; [|exact Rf2]. rewrite Rf1, posof_succ.
      replace (b * (N.of_nat L + 1)) with (b * N.of_nat L + b) by lia. rewrite N.pow_add_r, N.mul_assoc.
      rewrite N.div_add_l by (apply N.pow_nonzero; lia). lia.
  Qed.

  Lemma rep_raise_loop fuel : forall (s : sa V) M i, sa_rep s M -> M <> [] -> D i ->
    (Lmax - sa_levels s < fuel)%nat ->
    exists s1, sa_raise_loop fx m b fuel s i = Some s1 /\ sa_rep s1 M /\
               hi b (N.of_nat (sa_levels s1) + 1) i = sa_offset s1.
  Proof.
    induction fuel as [|f IH]; intros s M i R HM Di Hf; [lia|].
    cbn [sa_raise_loop]. rewrite inb_spec by (try apply R; apply HD_lt, Di).
    destruct (N.eqb_spec (hi b (N.of_nat (sa_levels s) + 1) i) (sa_offset s)) as [E|E].
    - exists s. auto.
    - assert (HL : (sa_levels s < Lmax)%nat).
      { destruct (Nat.lt_ge_cases (sa_levels s) Lmax) as [|Hge]; [assumption|exfalso].
        pose proof (rep_L _ _ R). assert (EL : sa_levels s = Lmax) by lia.
        destruct M as [|[i0 v0] M']; [congruence|].
        destruct (rep_dom _ _ R i0 ltac:(left; reflexivity)) as [Di0 Ho].
        apply E. rewrite <- Ho, EL. apply HD_fit; assumption. }
      destruct (rep_raise s M R HM HL) as (s' & Er & R' & EL').
      rewrite Er. apply IH; auto. lia.
  Qed.

  Lemma nav_spec i : D i -> forall L, (L <= Lmax)%nat -> sa_nav fx m b i L = Some (posof b L i).
  Proof.
    intros Di. induction L as [|L IH]; intros HL.
    - cbn [sa_nav]. rewrite land_index_mask, posof_0. reflexivity.
    - cbn [sa_nav]. rewrite (HD_gi i (S L) Di ltac:(lia)). rewrite IH by lia.
      rewrite posof_succ. replace (N.of_nat (S L)) with (N.of_nat L + 1) by lia. reflexivity.
  Qed.

  Lemma rep_key_inj (s : sa V) M i : sa_rep s M -> hi b (N.of_nat (sa_levels s) + 1) i = sa_offset s ->
    forall j, In j (keys M) ->
      (i < j <-> posof b (sa_levels s) i < posof b (sa_levels s) j) /\
      (posof b (sa_levels s) j = posof b (sa_levels s) i -> j = i).
  Proof.
    intros R Hi j Hj. destruct (rep_dom _ _ R j Hj) as [_ Hj'].
    split; [apply posof_lt_iff; congruence|apply posof_inj; congruence].
  Qed.

  Lemma sorted_head_le (M : list (N * V)) e : ksorted (e :: M) -> forall j, In j (keys (e :: M)) -> fst e <= j.
  Proof.
    intros HS j [<-|Hj]; [lia|]. inversion HS as [|? ? _ HF]; subst. rewrite Forall_forall in HF.
    specialize (HF j Hj). lia.
  Qed.

  Lemma cells_put_head i v (e : N * V) M :
    exists w M'', cells_put i v (e :: M) = (N.min i (fst e), w) :: M''.
  Proof.
    destruct e as [q w]. cbn [cells_put fst]. destruct (N.ltb_spec i q).
    - do 2 eexists. replace (N.min i q) with i by lia. reflexivity.
    - destruct (N.eqb_spec q i) as [->|]; do 2 eexists; [replace (N.min i i) with i by lia|replace (N.min i q) with q by lia]; reflexivity.
  Qed.

  (** [getLeaf]: the cell found holds what the map holds, and storing there is the map update *)
  Lemma rep_locate (s : sa V) M i : sa_rep s M -> D i ->
    exists s1 pos, sa_locate fx m b s i = Some (s1, pos) /\
      cells_get pos (sa_cells s1) = cells_get i M /\
      (forall v, sa_rep (sa_put s1 pos v) (cells_put i v M)) /\
      (cells_get i M <> None -> sa_rep s1 M).
  Proof.
    intros R Di. pose proof (HD_lt i Di) as Hi64. unfold sa_locate.
    destruct M as [|[i0 v0] M'].
    - rewrite (rep_cells _ _ R). cbn [map_keys map].
      destruct (rep_first _ _ R) as [EL Efo]. rewrite Efo, ldiff_index_mask, land_index_mask.
      replace (hi b 1 i <? W64 - 1) with true by (symmetry; apply N.ltb_lt, odd_hi_lt; assumption).
      do 2 eexists. split; [reflexivity|]. split; [reflexivity|]. split; [|cbn; congruence]. intro v.
      constructor; cbn [sa_put sa_levels sa_offset sa_cells sa_first sa_firstOffset cells_put]; rewrite ?EL.
      + lia.
      + cbn. rewrite posof_0. reflexivity.
      + repeat constructor.
      + intros j [<-|[]]. cbn. auto.
      + cbn [fst]. rewrite posof_0. split; [|reflexivity].
        rewrite N.div_small; [reflexivity|apply N.mod_lt, N.pow_nonzero; lia].
    - assert (Hne : (i0, v0) :: M' <> []) by discriminate.
      rewrite (rep_cells _ _ R). cbn [map_keys map]. fold (map_keys (posof b (sa_levels s)) M').
      destruct (rep_raise_loop (N.to_nat (64 / b) + 3) s _ i R Hne Di) as (s1 & Er & R1 & Hin).
      { pose proof (div_le_bound b (N.of_nat Lmax) Hb HbL). lia. }
      rewrite Er. rewrite (nav_spec i Di) by apply R1.
      set (L := sa_levels s1) in *. set (M := (i0, v0) :: M') in *.
      pose proof (rep_key_inj s1 M i R1 Hin) as Hinj.
      do 2 eexists. split; [reflexivity|]. cbn [sa_cells]. split.
      + rewrite (rep_cells _ _ R1). apply cells_get_map_keys. intros j Hj. apply Hinj, Hj.
      + split; [|intros Hsome;
          assert (Hex : leaf_exists b (posof b L i / num_cells b) (sa_cells s1) = true);
          [destruct (cells_get i M) as [v|] eqn:Eg; [|congruence]; apply cells_get_In in Eg;
           unfold leaf_exists; apply existsb_exists; exists (posof b L i, v); split;
           [rewrite (rep_cells _ _ R1); apply in_map_iff; exists (i, v); split; [reflexivity|exact Eg]|cbn [fst]; apply N.eqb_refl]
          |rewrite Hex; cbn [negb andb]; destruct s1; exact R1]].
        intro v. destruct (rep_first _ _ R1) as [Rf1 Rf2]. cbn [fst] in Rf1, Rf2.
        pose proof (rep_sorted _ _ R1) as RS.
        constructor; cbn [sa_put sa_levels sa_offset sa_cells sa_first sa_firstOffset]; fold L.
        * apply R1.
        * rewrite (rep_cells _ _ R1). apply cells_put_map_keys. exact Hinj.
        * apply cells_put_sorted, RS.
        * intros j Hj. apply cells_put_keys in Hj. destruct Hj as [->|Hj]; [auto|apply (rep_dom _ _ R1), Hj].
        * destruct (cells_put_head i v (i0, v0) M') as (w & M'' & EP). fold M in EP. rewrite EP. cbn [fst].
          rewrite ldiff_index_mask, Rf2.
          destruct (N.ltb_spec (hi b 1 i) (hi b 1 i0)) as [Hlt|Hge].
          -- (* strictly smaller leaf offset: the leaf is new *)
             assert (Hii0 : i < i0).
             { destruct (N.lt_ge_cases i i0); [assumption|]. pose proof (hi_mono b 1 i0 i ltac:(lia)). lia. }
             replace (N.min i i0) with i by lia.
             assert (Hnew : leaf_exists b (posof b L i / num_cells b) (sa_cells s1) = false).
             { apply not_true_is_false. intro Hex. unfold leaf_exists in Hex. apply existsb_exists in Hex.
               destruct Hex as ([p w'] & Hin' & Hp). rewrite (rep_cells _ _ R1) in Hin'.
               apply in_map_iff in Hin'. destruct Hin' as ([j w''] & [= <- <-] & Hj). cbn [fst] in Hp.
               apply N.eqb_eq in Hp. apply (in_map fst) in Hj. cbn [fst] in Hj.
               destruct (rep_dom _ _ R1 j Hj) as [_ Hjo].
               apply (same_leaf_iff b L j i Hb) in Hp; [|transitivity (sa_offset s1); [exact Hjo|symmetry; exact Hin]].
               pose proof (sorted_head_le M' (i0, v0) RS j Hj) as Hle. cbn [fst] in Hle.
               pose proof (hi_mono b 1 i0 j Hle). lia. }
             rewrite Hnew. cbn [negb andb]. split; reflexivity.
          -- rewrite andb_false_r.
             destruct (N.lt_ge_cases i i0) as [Hii0|Hii0].
             ++ replace (N.min i i0) with i by lia. pose proof (hi_mono b 1 i i0 ltac:(lia)) as Hm.
                assert (E1 : hi b 1 i = hi b 1 i0) by lia. split; [|symmetry; exact E1].
                rewrite Rf1. apply (same_leaf_iff b L i0 i Hb); [|symmetry; exact E1].
                destruct (rep_dom _ _ R1 i0 ltac:(left; reflexivity)) as [_ Ho0].
                transitivity (sa_offset s1); [exact Ho0|symmetry; exact Hin].
             ++ replace (N.min i i0) with i0 by lia. split; [exact Rf1|reflexivity].
  Qed.

  Lemma rep_update (s : sa V) M i v : sa_rep s M -> D i ->
    exists s', sa_update fx m b s i v = Some s' /\ sa_rep s' (cells_put i v M).
  Proof.
    intros R Di. destruct (rep_locate s M i R Di) as (s1 & pos & E & _ & H & _).
    unfold sa_update. rewrite E. eexists; split; [reflexivity|apply H].
  Qed.

  (** [lookup] *)
  Lemma sa_get_nonempty (s : sa V) i : sa_cells s <> [] ->
    sa_get fx m b s i = (do inb <- sa_inb m b s i;
                         if inb then do pos <- sa_nav fx m b i (sa_levels s); Some (cells_get pos (sa_cells s))
                         else Some None).
  Proof. unfold sa_get. destruct (sa_cells s); [congruence|reflexivity]. Qed.

  Lemma rep_cells_nonempty (s : sa V) e M : sa_rep s (e :: M) -> sa_cells s <> [].
  Proof. intros R. rewrite (rep_cells _ _ R). discriminate. Qed.

  Lemma rep_get (s : sa V) M i : sa_rep s M -> D i -> sa_get fx m b s i = Some (cells_get i M).
  Proof.
    intros R Di. destruct M as [|e M'].
    - unfold sa_get. rewrite (rep_cells _ _ R). reflexivity.
    - rewrite sa_get_nonempty by (eapply rep_cells_nonempty, R).
      rewrite inb_spec by (try apply R; apply HD_lt, Di).
      destruct (N.eqb_spec (hi b (N.of_nat (sa_levels s) + 1) i) (sa_offset s)) as [E|E].
      + rewrite (nav_spec i Di) by apply R. f_equal. rewrite (rep_cells _ _ R). apply cells_get_map_keys.
        intros j Hj. apply (rep_key_inj s _ i R E j Hj).
      + f_equal. symmetry. apply cells_get_None. intro Hj. apply E, (rep_dom _ _ R i Hj).
  Qed.

  (** a query outside the root's range *)
  Lemma rep_get_out (s : sa V) M i : sa_rep s M -> i < 2 ^ 64 ->
    (forall j, In j (keys M) -> hi b (N.of_nat (sa_levels s) + 1) j <> hi b (N.of_nat (sa_levels s) + 1) i) ->
    sa_get fx m b s i = Some None.
  Proof.
    intros R Hi H. destruct M as [|e M'].
    - unfold sa_get. rewrite (rep_cells _ _ R). reflexivity.
    - rewrite sa_get_nonempty by (eapply rep_cells_nonempty, R).
      rewrite inb_spec by (try apply R; assumption).
      destruct (N.eqb_spec (hi b (N.of_nat (sa_levels s) + 1) i) (sa_offset s)) as [E|E]; [|reflexivity].
      exfalso. apply (H (fst e)); [left; reflexivity|].
      destruct (rep_dom _ _ R (fst e) ltac:(left; reflexivity)) as [_ ->]. symmetry; exact E.
  Qed.

  (** *** iteration *)
  Definition it_at (L : nat) (e : N * V) : sait V := Some (posof b L (fst e) / 2 ^ b, fst e, snd e).
  Definition it_hd (L : nat) (M : list (N * V)) : sait V :=
    match M with [] => None | e :: _ => it_at L e end.

  Lemma down_exact j L : D j -> (L <= Lmax)%nat -> forall l, (l <= L)%nat ->
    sa_down m b (posof b L j) l (hi b (N.of_nat l + 1) j) = Some j.
  Proof.
    intros Dj HL. pose proof (HD_lt j Dj) as Hj. induction l as [|l IH]; intros Hl.
    - cbn [sa_down N.of_nat]. replace (0 + 1) with 1 by lia. unfold num_cells.
      rewrite posof_mod_cells by exact Hb. f_equal. rewrite hi1_div, lor_mul_pow2 by (apply N.mod_lt, N.pow_nonzero; lia).
      pose proof (N.div_mod j (2 ^ b) ltac:(apply N.pow_nonzero; lia)). lia.
    - cbn [sa_down].
      assert (H64 : hi b (N.of_nat (S l) + 1) j < 2 ^ 64) by (apply hi_lt_pow, Hj).
      destruct (mask_at (S (S l)) _ ltac:(lia) H64) as (mk & E & Hmk).
      replace (N.of_nat (S (S l))) with (N.of_nat (S l) + 1) in * by lia. rewrite E, Hmk, hi_idem.
      unfold shcount. replace (b * N.of_nat (S l) <? 64) with true by nia.
      unfold num_cells. fold (digit b (posof b L j) (N.of_nat (S l))).
      rewrite digit_posof by (try exact Hb; lia).
      assert (Hd : hi b (N.of_nat (S l)) j = hi b (N.of_nat (S l) + 1) j + digit b j (N.of_nat (S l)) * 2 ^ (b * N.of_nat (S l)))
        by apply hi_succ_digit.
      assert (Hsmall : digit b j (N.of_nat (S l)) * 2 ^ (b * N.of_nat (S l)) < 2 ^ 64).
      { pose proof (hi_le b (N.of_nat (S l)) j). lia. }
      unfold shl64. rewrite N.shiftl_mul_pow2, W64_eq, N.mod_small by exact Hsmall.
      unfold hi at 1. rewrite lor_mul_pow2.
      2:{ replace (b * (N.of_nat (S l) + 1)) with (b * N.of_nat (S l) + b) by lia. rewrite N.pow_add_r.
          rewrite (N.mul_comm (2 ^ (b * N.of_nat (S l)))).
          apply N.mul_lt_mono_pos_r; [apply pow2_pos|apply digit_lt]. }
      fold (hi b (N.of_nat (S l) + 1) j). rewrite <- Hd.
      replace (N.of_nat (S l)) with (N.of_nat l + 1) by lia. apply IH. lia.
  Qed.

  (** going down from a value whose upper part already agrees with the target *)
  Lemma down_spec j L l vf : D j -> (L <= Lmax)%nat -> (l <= L)%nat -> vf < 2 ^ 64 ->
    hi b (N.of_nat (S l) + 1) vf = hi b (N.of_nat (S l) + 1) j -> (S l <= L)%nat ->
    sa_down m b (posof b L j) (S l) vf = Some j.
  Proof.
    intros Dj HL Hl Hvf Hh HSl. pose proof (HD_lt j Dj) as Hj.
    pose proof (down_exact j L Dj HL (S l) HSl) as Hex. cbn [sa_down] in Hex |- *.
    destruct (mask_at (S (S l)) vf ltac:(lia) Hvf) as (mk & E & Hmk).
    assert (H64 : hi b (N.of_nat (S l) + 1) j < 2 ^ 64) by (apply hi_lt_pow, Hj).
    destruct (mask_at (S (S l)) _ ltac:(lia) H64) as (mk' & E' & Hmk').
    replace (N.of_nat (S (S l))) with (N.of_nat (S l) + 1) in * by lia.
    rewrite E in *. injection E' as <-. rewrite Hmk. rewrite Hmk', hi_idem in Hex. rewrite Hh. exact Hex.
  Qed.

  Lemma split_keys_facts (M1 M2 : list (N * V)) i v : ksorted (M1 ++ (i, v) :: M2) ->
    (forall e, In e M1 -> fst e < i) /\ (forall e, In e M2 -> i < fst e).
  Proof.
    unfold ksorted, keys. rewrite map_app. cbn [map fst]. intros H. apply sorted_app_mid in H as [H1 H2].
    rewrite Forall_forall in H1, H2. split; intros e He; [apply H1|apply H2]; apply in_map, He.
  Qed.

  Lemma up_spec (s : sa V) M1 i v M2 : sa_rep s (M1 ++ (i, v) :: M2) ->
    let L := sa_levels s in
    forall fuel l x, (1 <= l <= L + 1)%nat -> (L + 2 - l < fuel)%nat ->
      ((l <= L)%nat -> x = digit b i (N.of_nat l) + 1) ->
      match M2 with [] => True
      | e :: _ => posof b L i / 2 ^ (b * N.of_nat l) < posof b L (fst e) / 2 ^ (b * N.of_nat l) end ->
      sa_up fx m b s fuel l (posof b L i / 2 ^ (b * (N.of_nat l + 1))) x i = Some (it_hd L M2).
  Proof.
    intros R L. pose proof (rep_L _ _ R) as HL. fold L in HL.
    pose proof (split_keys_facts M1 M2 i v (rep_sorted _ _ R)) as [HM1 HM2].
    assert (Di : D i) by (apply (rep_dom _ _ R); unfold keys; rewrite map_app; apply in_or_app; right; left; reflexivity).
    assert (Hoi : hi b (N.of_nat L + 1) i = sa_offset s).
    { apply (rep_dom _ _ R); unfold keys; rewrite map_app; apply in_or_app; right; left; reflexivity. }
    assert (Hdom2 : forall e, In e M2 -> D (fst e) /\ hi b (N.of_nat L + 1) (fst e) = sa_offset s).
    { intros e He. apply (rep_dom _ _ R). unfold keys. rewrite map_app. apply in_or_app. right. right. apply in_map, He. }
    induction fuel as [|f IH]; intros l x Hl Hf Hx Hgap; [lia|].
    cbn [sa_up]. fold L.
    destruct (Nat.ltb_spec L l) as [HLl|HLl].
    - (* above the root *)
      destruct M2 as [|e M2']; [reflexivity|exfalso].
      assert (l = S L) by lia. subst l.
      replace (N.of_nat (S L)) with (N.of_nat L + 1) in Hgap by lia.
      rewrite !N.div_small in Hgap by apply posof_lt. lia.
    - set (u := 2 ^ (b * N.of_nat l)) in *.
      assert (Hu : u <> 0) by (apply N.pow_nonzero; lia).
      specialize (Hx HLl). subst x.
      (* the continuation of "going up" *)
      assert (Hupgo :
        (match M2 with [] => True | e :: _ =>
           posof b L i / 2 ^ (b * N.of_nat (S l)) < posof b L (fst e) / 2 ^ (b * N.of_nat (S l)) end) ->
        (do xn <- gi fx m b i (N.of_nat l + 1);
         sa_up fx m b s f (S l) (posof b L i / 2 ^ (b * (N.of_nat l + 1)) / num_cells b) (xn + 1) i) = Some (it_hd L M2)).
      { intros Hg.
        assert (exists xn, gi fx m b i (N.of_nat l + 1) = Some xn /\ ((S l <= L)%nat -> xn = digit b i (N.of_nat (S l)))) as (xn & Exn & Hxn).
        { destruct (Nat.le_gt_cases (S l) L) as [Hc|Hc].
          - exists (digit b i (N.of_nat (S l))). split; [|auto].
            replace (N.of_nat l + 1) with (N.of_nat (S l)) by lia. apply HD_gi; [exact Di|lia].
          - destruct (HD_top i (S l) Di ltac:(lia)) as (xn & Exn). exists xn. split; [|lia].
            replace (N.of_nat l + 1) with (N.of_nat (S l)) by lia. exact Exn. }
        rewrite Exn. unfold num_cells. rewrite N.div_div by (try apply N.pow_nonzero; lia).
        rewrite <- N.pow_add_r. replace (b * (N.of_nat l + 1) + b) with (b * (N.of_nat (S l) + 1)) by lia.
        apply IH; [lia|lia| |exact Hg]. intros Hc. rewrite (Hxn Hc). reflexivity. }
      assert (Hpos_i : posof b L i / u = posof b L i / 2 ^ (b * (N.of_nat l + 1)) * 2 ^ b + digit b i (N.of_nat l)).
      { unfold u. rewrite (div_pow_succ b (posof b L i) (N.of_nat l) Hb). rewrite digit_posof by (try exact Hb; lia). reflexivity. }
      set (pn := posof b L i / 2 ^ (b * (N.of_nat l + 1))) in *.
      assert (Hlo : (pn * num_cells b + (digit b i (N.of_nat l) + 1)) * u = (posof b L i / u + 1) * u).
      { unfold num_cells. rewrite Hpos_i. f_equal. lia. }
      rewrite Hlo.
      (* the next entry, if any, is the first one at or after lo *)
      assert (Hfrom : cells_from ((posof b L i / u + 1) * u) (sa_cells s) = hd_error (map_keys (posof b L) M2)).
      { rewrite (rep_cells _ _ R). fold L. unfold map_keys. rewrite map_app. cbn [map].
        change ((posof b L (fst (i, v)), snd (i, v)) :: map (fun e => (posof b L (fst e), snd e)) M2)
          with ([(posof b L i, v)] ++ map (fun e => (posof b L (fst e), snd e)) M2).
        rewrite app_assoc. apply cells_from_split.
        - intros e He. apply in_app_or in He.
          assert (Hle : fst e <= posof b L i).
          { destruct He as [He|[<-|[]]]; [|cbn; lia]. apply in_map_iff in He. destruct He as (e' & <- & He'). cbn [fst].
            pose proof (HM1 e' He') as Hlt.
            assert (Ho' : hi b (N.of_nat L + 1) (fst e') = sa_offset s).
            { apply (rep_dom _ _ R). unfold keys. rewrite map_app. apply in_or_app. left. apply in_map, He'. }
            apply (posof_lt_iff b L (fst e') i) in Hlt; [lia|congruence]. }
          pose proof (N.mul_succ_div_gt (posof b L i) u Hu). nia.
        - destruct M2 as [|e2 M2']; [exact I|]. cbn [map fst].
          pose proof (N.mul_div_le (posof b L (fst e2)) u Hu). nia. }
      assert (Hdl : digit b i (N.of_nat l) < 2 ^ b) by apply digit_lt.
      destruct (N.ltb_spec (digit b i (N.of_nat l) + 1) (num_cells b)) as [Hxc|Hxc].
      + rewrite Hfrom. destruct M2 as [|[j w] M2']; cbn [map_keys map hd_error fst snd].
        * apply Hupgo. exact I.
        * cbn [fst] in Hgap. destruct (Hdom2 (j, w) ltac:(left; reflexivity)) as [Dj Hoj]. cbn [fst] in Dj, Hoj.
          pose proof (HM2 (j, w) ltac:(left; reflexivity)) as Hij. cbn [fst] in Hij.
          assert (Hpij : posof b L i < posof b L j) by (apply (posof_lt_iff b L i j); [congruence|exact Hij]).
          unfold num_cells. fold u. replace (u * 2 ^ b) with (2 ^ (b * (N.of_nat l + 1))).
          2:{ unfold u. rewrite <- N.pow_add_r. f_equal. lia. }
          destruct (N.eqb_spec (posof b L j / 2 ^ (b * (N.of_nat l + 1))) pn) as [Epn|Epn].
          -- (* same node: go down to j *)
             destruct l as [|l']; [lia|].
             rewrite (down_spec j L l' i Dj HL ltac:(lia) (HD_lt i Di)); [reflexivity| |lia].
             replace (N.of_nat (S l') + 1) with (N.of_nat (S l') + 1) by reflexivity.
             rewrite (hi_posof b L i (N.of_nat (S l') + 1)) by lia.
             rewrite (hi_posof b L j (N.of_nat (S l') + 1)) by lia.
             unfold hi at 2 4. fold pn. rewrite Epn. f_equal. congruence.
          -- apply Hupgo. cbn [fst].
             replace (N.of_nat (S l)) with (N.of_nat l + 1) by lia. fold pn.
             pose proof (N.div_le_mono (posof b L i) (posof b L j) (2 ^ (b * (N.of_nat l + 1))) ltac:(apply N.pow_nonzero; lia) ltac:(lia)).
             fold pn in H. lia.
      + (* the last cell of the node: go up *)
        apply Hupgo. destruct M2 as [|[j w] M2']; [exact I|]. cbn [fst] in *.
        replace (N.of_nat (S l)) with (N.of_nat l + 1) by lia. fold pn.
        unfold num_cells in Hxc.
        assert (Hj : posof b L j / u = posof b L j / 2 ^ (b * (N.of_nat l + 1)) * 2 ^ b + digit b (posof b L j) (N.of_nat l)).
        { unfold u. apply div_pow_succ, Hb. }
        pose proof (digit_lt b (posof b L j) (N.of_nat l)). nia.
  Qed.

  Lemma in_mid (M1 M2 : list (N * V)) e : In (fst e) (keys (M1 ++ e :: M2)).
  Proof. unfold keys. rewrite map_app. apply in_or_app. right; left; reflexivity. Qed.

  Lemma idx_rebuild i j : hi b 1 i = hi b 1 j -> N.lor (N.ldiff i (index_mask b)) (j mod 2 ^ b) = j.
  Proof.
    intros H. rewrite ldiff_index_mask, H, hi1_div, lor_mul_pow2 by (apply N.mod_lt, N.pow_nonzero; lia).
    pose proof (N.div_mod j (2 ^ b) ltac:(apply N.pow_nonzero; lia)). lia.
  Qed.

  (** [operator++] at an entry yields the next entry in index order *)
  Lemma next_spec (s : sa V) M1 i v M2 : sa_rep s (M1 ++ (i, v) :: M2) ->
    sa_next fx m b s (posof b (sa_levels s) i / 2 ^ b) i = Some (it_hd (sa_levels s) M2).
  Proof.
    intros R. set (L := sa_levels s). pose proof (rep_L _ _ R) as HL. fold L in HL.
    pose proof (split_keys_facts M1 M2 i v (rep_sorted _ _ R)) as [HM1 HM2].
    destruct (rep_dom _ _ R i (in_mid M1 M2 (i, v))) as [Di Hoi]. fold L in Hoi.
    assert (Hdom : forall e, In e (M1 ++ (i, v) :: M2) -> hi b (N.of_nat L + 1) (fst e) = sa_offset s).
    { intros e He. apply (rep_dom _ _ R). apply in_map, He. }
    unfold sa_next. rewrite land_index_mask. unfold num_cells.
    assert (Epos : posof b L i / 2 ^ b * 2 ^ b + i mod 2 ^ b = posof b L i).
    { rewrite <- (posof_mod_cells b L i Hb).
      pose proof (N.div_mod (posof b L i) (2 ^ b) ltac:(apply N.pow_nonzero; lia)). lia. }
    rewrite Epos.
    assert (Hfrom : cells_from (posof b L i + 1) (sa_cells s) = hd_error (map_keys (posof b L) M2)).
    { rewrite (rep_cells _ _ R). fold L. unfold map_keys. rewrite map_app. cbn [map].
      change ((posof b L (fst (i, v)), snd (i, v)) :: map (fun e => (posof b L (fst e), snd e)) M2)
        with ([(posof b L i, v)] ++ map (fun e => (posof b L (fst e), snd e)) M2).
      rewrite app_assoc. apply cells_from_split.
      - intros e He. apply in_app_or in He. destruct He as [He|[<-|[]]]; [|cbn; lia].
        apply in_map_iff in He. destruct He as (e' & <- & He'). cbn [fst].
        pose proof (HM1 e' He') as Hlt.
        apply (posof_lt_iff b L (fst e') i) in Hlt; [lia|].
        rewrite Hoi. apply Hdom. apply in_or_app. left; exact He'.
      - destruct M2 as [|e2 M2']; [exact I|]. cbn [map fst].
        pose proof (HM2 e2 ltac:(left; reflexivity)) as Hlt.
        apply (posof_lt_iff b L i (fst e2)) in Hlt; [lia|].
        rewrite Hoi. symmetry. apply Hdom. apply in_or_app. right; right; left; reflexivity. }
    rewrite Hfrom.
    assert (Hup : forall x1, gi fx m b i 1 = Some x1 ->
              ((1 <= L)%nat -> x1 = digit b i 1) ->
              match M2 with [] => True | e :: _ => posof b L i / 2 ^ b < posof b L (fst e) / 2 ^ b end ->
              sa_up fx m b s (L + 3) 1 (posof b L i / 2 ^ b / 2 ^ b) (x1 + 1) i = Some (it_hd L M2)).
    { intros x1 _ Hx1 Hgap. rewrite N.div_div by (try apply N.pow_nonzero; lia). rewrite <- N.pow_add_r.
      replace (b + b) with (b * (N.of_nat 1 + 1)) by lia.
      apply (up_spec s M1 i v M2 R); [lia|lia| |].
      - intros H1. change (N.of_nat 1) with 1. rewrite Hx1 by exact H1. reflexivity.
      - change (N.of_nat 1) with 1. replace (b * 1) with b by lia. exact Hgap. }
    assert (Hgi1 : exists x1, gi fx m b i 1 = Some x1 /\ ((1 <= L)%nat -> x1 = digit b i 1)).
    { destruct (Nat.le_gt_cases 1 L) as [Hc|Hc].
      - exists (digit b i 1). split; [|auto]. apply (HD_gi i 1 Di). lia.
      - destruct (HD_top i 1 Di ltac:(lia)) as (x1 & E1). exists x1. split; [exact E1|lia]. }
    destruct Hgi1 as (x1 & Egi & Hx1).
    destruct M2 as [|[j w] M2']; cbn [map_keys map hd_error fst snd].
    - rewrite Egi. apply Hup; auto.
    - pose proof (HM2 (j, w) ltac:(left; reflexivity)) as Hij. cbn [fst] in Hij.
      assert (Hoj : hi b (N.of_nat L + 1) j = sa_offset s).
      { apply (Hdom (j, w)). apply in_or_app. right; right; left; reflexivity. }
      destruct (N.eqb_spec (posof b L j / 2 ^ b) (posof b L i / 2 ^ b)) as [E|E].
      + unfold it_hd, it_at. cbn [fst snd]. rewrite E. do 4 f_equal.
        rewrite posof_mod_cells by exact Hb. apply idx_rebuild.
        apply (same_leaf_iff b L i j Hb); congruence.
      + rewrite Egi. apply Hup; auto. cbn [fst].
        assert (posof b L i < posof b L j) by (apply (posof_lt_iff b L i j); [congruence|exact Hij]).
        pose proof (N.div_le_mono (posof b L i) (posof b L j) (2 ^ b) ltac:(apply N.pow_nonzero; lia) ltac:(lia)). lia.
  Qed.

  (** [begin()] is the iterator at the smallest index *)
  Lemma begin_spec (s : sa V) M : sa_rep s M -> sa_begin fx m b s = Some (it_hd (sa_levels s) M).
  Proof.
    intros R. unfold sa_begin. destruct M as [|[i0 v0] M'].
    - rewrite (rep_cells _ _ R). reflexivity.
    - pose proof (rep_cells_nonempty s _ _ R) as Hne.
      destruct (sa_cells s) as [|c cs] eqn:Ec; [congruence|]. rewrite <- Ec. clear c cs Ec Hne.
      destruct (rep_first _ _ R) as [Rf1 Rf2]. cbn [fst] in Rf1, Rf2. set (L := sa_levels s) in *.
      destruct (rep_dom _ _ R i0 ltac:(left; reflexivity)) as [Di0 Ho0]. fold L in Ho0.
      rewrite Rf1, Rf2. unfold num_cells.
      pose proof (N.div_mod (posof b L i0) (2 ^ b) ltac:(apply N.pow_nonzero; lia)) as Hdm.
      rewrite (posof_mod_cells b L i0 Hb) in Hdm.
      destruct (N.eq_dec (i0 mod 2 ^ b) 0) as [Ez|Enz].
      + (* the first entry sits in cell 0 *)
        replace (posof b L i0 / 2 ^ b * 2 ^ b) with (posof b L i0) by lia.
        rewrite (rep_cells _ _ R). fold L. cbn [map_keys map cells_get fst snd]. rewrite N.eqb_refl.
        unfold it_hd, it_at. cbn [fst snd]. do 4 f_equal.
        rewrite hi1_div. pose proof (N.div_mod i0 (2 ^ b) ltac:(apply N.pow_nonzero; lia)). lia.
      + assert (Hnone : cells_get (posof b L i0 / 2 ^ b * 2 ^ b) (sa_cells s) = None).
        { apply cells_get_None. intro Hin. rewrite (rep_cells _ _ R) in Hin. fold L in Hin.
          unfold keys, map_keys in Hin. rewrite map_map in Hin. cbn [fst] in Hin.
          apply in_map_iff in Hin. destruct Hin as (e & Ee & He).
          pose proof (sorted_head_le M' (i0, v0) (rep_sorted _ _ R) (fst e) (in_map fst _ _ He)) as Hle. cbn [fst] in Hle.
          destruct (rep_dom _ _ R (fst e) (in_map fst _ _ He)) as [_ Hoe]. fold L in Hoe.
          destruct (N.eq_dec (fst e) i0) as [E0|E0]; [rewrite E0 in Ee; lia|].
          assert (i0 < fst e) by lia.
          apply (posof_lt_iff b L i0 (fst e)) in H; [lia|congruence]. }
        rewrite Hnone.
        (* ++ from (first, firstOffset): same leaf, next non-empty cell *)
        unfold sa_next. rewrite land_index_mask. unfold num_cells.
        assert (Ehi0 : hi b 1 i0 mod 2 ^ b = 0).
        { rewrite hi1_div. apply N.mod_mul, N.pow_nonzero. lia. }
        rewrite Ehi0, N.add_0_r.
        assert (Hfrom : cells_from (posof b L i0 / 2 ^ b * 2 ^ b + 1) (sa_cells s) = Some (posof b L i0, v0)).
        { rewrite (rep_cells _ _ R). fold L. cbn [map_keys map cells_from fst snd].
          replace (posof b L i0 / 2 ^ b * 2 ^ b + 1 <=? posof b L i0) with true by lia. reflexivity. }
        rewrite Hfrom, N.eqb_refl. unfold it_hd, it_at. cbn [fst snd]. do 4 f_equal.
        rewrite posof_mod_cells by exact Hb. apply idx_rebuild. apply hi_idem.
  Qed.

  Lemma iter_loop_spec (s : sa V) M1 : forall M2 fuel, sa_rep s (M1 ++ M2) -> (length M2 < fuel)%nat ->
    sa_iter_loop fx m b s fuel (it_hd (sa_levels s) M2) = Some M2.
  Proof.
    intros M2. revert M1. induction M2 as [|[i v] M2 IH]; intros M1 fuel R Hf.
    - destruct fuel; reflexivity.
    - destruct fuel as [|f]; [cbn in Hf; lia|]. cbn [it_hd it_at sa_iter_loop fst snd].
      rewrite (next_spec s M1 i v M2 R).
      rewrite (IH (M1 ++ [(i, v)]) f); [reflexivity| |cbn in Hf; lia].
      rewrite <- app_assoc. exact R.
  Qed.

  (** iteration reports exactly the map, in index order *)
  Lemma iter_spec (s : sa V) M : sa_rep s M -> sa_iter fx m b s = Some M.
  Proof.
    intros R. unfold sa_iter. rewrite (begin_spec s M R).
    apply (iter_loop_spec s [] M); [exact R|].
    rewrite (rep_cells _ _ R). unfold map_keys. rewrite map_length. lia.
  Qed.

  (** [find] *)
  Lemma find_spec (s : sa V) M i : sa_rep s M -> D i ->
    sa_find fx m b s i = Some (match cells_get i M with
                               | Some v => it_at (sa_levels s) (i, v) | None => None end).
  Proof.
    intros R Di. destruct M as [|e M'].
    - unfold sa_find. rewrite (rep_cells _ _ R). reflexivity.
    - unfold sa_find. pose proof (rep_cells_nonempty s _ _ R) as Hne.
      destruct (sa_cells s) as [|c cs] eqn:Ec; [congruence|]. rewrite <- Ec. clear c cs Ec Hne.
      rewrite inb_spec by (try apply R; apply HD_lt, Di).
      destruct (N.eqb_spec (hi b (N.of_nat (sa_levels s) + 1) i) (sa_offset s)) as [E|E].
      + rewrite (nav_spec i Di) by apply R. f_equal. rewrite (rep_cells _ _ R).
        rewrite cells_get_map_keys by (intros j Hj; apply (rep_key_inj s _ i R E j Hj)).
        destruct (cells_get i (e :: M')); reflexivity.
      + f_equal. replace (cells_get i (e :: M')) with (@None V); [reflexivity|].
        symmetry. apply cells_get_None. intro Hj. apply E, (rep_dom _ _ R i Hj).
  Qed.

  Lemma find_out (s : sa V) M i : sa_rep s M -> i < 2 ^ 64 ->
    (forall j, In j (keys M) -> hi b (N.of_nat (sa_levels s) + 1) j <> hi b (N.of_nat (sa_levels s) + 1) i) ->
    sa_find fx m b s i = Some None.
  Proof.
    intros R Hi H. destruct M as [|e M'].
    - unfold sa_find. rewrite (rep_cells _ _ R). reflexivity.
    - unfold sa_find. pose proof (rep_cells_nonempty s _ _ R) as Hne.
      destruct (sa_cells s) as [|c cs] eqn:Ec; [congruence|]. rewrite <- Ec. clear c cs Ec Hne.
      rewrite inb_spec by (try apply R; assumption).
      destruct (N.eqb_spec (hi b (N.of_nat (sa_levels s) + 1) i) (sa_offset s)) as [E|E]; [|reflexivity].
      exfalso. apply (H (fst e)); [left; reflexivity|].
      destruct (rep_dom _ _ R (fst e) ltac:(left; reflexivity)) as [_ ->]. symmetry; exact E.
  Qed.

  (** queries for any index of the class [Q] *)
  Lemma rep_get_any (s : sa V) M i : sa_rep s M -> Q i -> sa_get fx m b s i = Some (cells_get i M).
  Proof.
    intros R Qi. destruct (HD_sep i Qi) as [Di|[Hi Hsep]]; [apply rep_get; assumption|].
    rewrite (rep_get_out s M i R Hi).
    - f_equal. symmetry. apply cells_get_None. intro Hin.
      destruct (rep_dom _ _ R i Hin) as [Di _]. apply (Hsep i 0%nat Di ltac:(lia)). reflexivity.
    - intros j Hj. destruct (rep_dom _ _ R j Hj) as [Dj _].
      pose proof (Hsep j (S (sa_levels s)) Dj ltac:(pose proof (rep_L _ _ R); lia)) as H.
      replace (N.of_nat (S (sa_levels s))) with (N.of_nat (sa_levels s) + 1) in H by lia. exact H.
  Qed.

  Lemma find_any (s : sa V) M i : sa_rep s M -> Q i ->
    sa_find fx m b s i = Some (match cells_get i M with
                               | Some v => it_at (sa_levels s) (i, v) | None => None end).
  Proof.
    intros R Qi. destruct (HD_sep i Qi) as [Di|[Hi Hsep]]; [apply find_spec; assumption|].
    rewrite (find_out s M i R Hi).
    - replace (cells_get i M) with (@None V); [reflexivity|].
      symmetry. apply cells_get_None. intro Hin.
      destruct (rep_dom _ _ R i Hin) as [Di _]. apply (Hsep i 0%nat Di ltac:(lia)). reflexivity.
    - intros j Hj. destruct (rep_dom _ _ R j Hj) as [Dj _].
      pose proof (Hsep j (S (sa_levels s)) Dj ltac:(pose proof (rep_L _ _ R); lia)) as H.
      replace (N.of_nat (S (sa_levels s))) with (N.of_nat (sa_levels s) + 1) in H by lia. exact H.
  Qed.

  (** the map is determined by the representation: entry = (offset + position, value) *)
  Definition sa_entries (s : sa V) : list (N * V) := map (fun e => (sa_offset s + fst e, snd e)) (sa_cells s).

  Lemma rep_entries (s : sa V) M : sa_rep s M -> sa_entries s = M.
  Proof.
    intros R. unfold sa_entries. rewrite (rep_cells _ _ R). unfold map_keys. rewrite map_map.
    rewrite <- (map_id M) at 2. apply map_ext_in. intros [i v] Hin. cbn [fst snd]. f_equal.
    destruct (rep_dom _ _ R i (in_map fst _ _ Hin)) as [_ <-]. symmetry. apply posof_split.
  Qed.

  Lemma its_loop_spec (s : sa V) M1 : forall M2 fuel, sa_rep s (M1 ++ M2) -> (length M2 < fuel)%nat ->
    sa_its_loop fx m b s fuel (it_hd (sa_levels s) M2) =
      Some (map (fun e => (posof b (sa_levels s) (fst e) / 2 ^ b, fst e, snd e)) M2).
  Proof.
    intros M2. revert M1. induction M2 as [|[i v] M2 IH]; intros M1 fuel R Hf.
    - destruct fuel; reflexivity.
    - destruct fuel as [|f]; [cbn in Hf; lia|]. cbn [it_hd it_at sa_its_loop fst snd map].
      rewrite (next_spec s M1 i v M2 R).
      rewrite (IH (M1 ++ [(i, v)]) f); [reflexivity| |cbn in Hf; lia].
      rewrite <- app_assoc. exact R.
  Qed.

  (** the iterators of a full iteration *)
  Lemma its_spec (s : sa V) M : sa_rep s M ->
    sa_its fx m b s = Some (map (fun e => (posof b (sa_levels s) (fst e) / 2 ^ b, fst e, snd e)) M).
  Proof.
    intros R. unfold sa_its. rewrite (begin_spec s M R).
    apply (its_loop_spec s [] M); [exact R|].
    rewrite (rep_cells _ _ R). unfold map_keys. rewrite map_length. lia.
  Qed.
End SARefine.

(** ** Part E: the classes of indices of the Trie instantiate [sa_good] *)
(** indices of int32 keys (sign-extended), and the words of the leaf bitmaps (index >> 6) *)
Definition Q6 (i : N) : Prop := i < 2 ^ 31 \/ (2 ^ 64 - 2 ^ 31 <= i /\ i < 2 ^ 64).
Definition Q4 (w : N) : Prop := w < 2 ^ 25 \/ (2 ^ 58 - 2 ^ 25 <= w /\ w < 2 ^ 58).
(** ... of one sign *)
Definition D6s (neg : bool) (i : N) : Prop :=
  if neg then 2 ^ 64 - 2 ^ 31 <= i /\ i < 2 ^ 64 else i < 2 ^ 31.
Definition D4s (neg : bool) (w : N) : Prop :=
  if neg then 2 ^ 58 - 2 ^ 25 <= w /\ w < 2 ^ 58 else w < 2 ^ 25.

Lemma cast32_eq i :
  cast32 i = if i mod 2 ^ 32 <? 2 ^ 31 then i mod 2 ^ 32 else 2 ^ 64 - 2 ^ 32 + i mod 2 ^ 32.
Proof.
  unfold cast32, key_of_idx, idx_of_key. set (r := i mod 2 ^ 32).
  assert (Hr : r < 2 ^ 32) by (apply N.mod_lt; lia).
  destruct (N.ltb_spec r (2 ^ 31)) as [H|H].
  - replace (Z.of_N r <? 2 ^ 31)%Z with true by lia.
    rewrite Z.mod_small by lia. lia.
  - replace (Z.of_N r <? 2 ^ 31)%Z with false by lia.
    replace ((Z.of_N r - 2 ^ 32) mod 2 ^ 64)%Z with (Z.of_N r - 2 ^ 32 + 2 ^ 64)%Z; [lia|].
    symmetry. rewrite <- (Z.mod_add _ 1) by lia. rewrite Z.mod_small; lia.
Qed.

Lemma cast32_lt i : cast32 i < 2 ^ 64.
Proof.
  rewrite cast32_eq. pose proof (N.mod_lt i (2 ^ 32) ltac:(lia)).
  destruct (i mod 2 ^ 32 <? 2 ^ 31); lia.
Qed.

Lemma cast32_mod i : cast32 i mod 2 ^ 32 = i mod 2 ^ 32.
Proof.
  rewrite cast32_eq. pose proof (N.mod_lt i (2 ^ 32) ltac:(lia)).
  destruct (i mod 2 ^ 32 <? 2 ^ 31); [apply N.mod_mod; lia|].
  replace (2 ^ 64 - 2 ^ 32 + i mod 2 ^ 32) with (i mod 2 ^ 32 + (2 ^ 32 - 1) * 2 ^ 32) by lia.
  rewrite N.mod_add by lia. apply N.mod_mod. lia.
Qed.

Lemma cast32_id i : Q6 i -> cast32 i = i.
Proof.
  intros [H|[H1 H2]]; rewrite cast32_eq.
  - rewrite N.mod_small by lia. replace (i <? 2 ^ 31) with true by lia. reflexivity.
  - assert (E : i mod 2 ^ 32 = i - (2 ^ 64 - 2 ^ 32)).
    { replace i with ((i - (2 ^ 64 - 2 ^ 32)) + (2 ^ 32 - 1) * 2 ^ 32) at 1 by lia.
      rewrite N.mod_add by lia. apply N.mod_small. lia. }
    rewrite E. replace (i - (2 ^ 64 - 2 ^ 32) <? 2 ^ 31) with false by lia. lia.
Qed.

Lemma digit_low b x l : digit b x l = (x mod 2 ^ (b * (l + 1))) / 2 ^ (b * l).
Proof.
  rewrite mod_pow_succ. rewrite N.div_add_l by (apply N.pow_nonzero; lia).
  rewrite (N.div_small (x mod 2 ^ (b * l))) by (apply N.mod_lt, N.pow_nonzero; lia). lia.
Qed.

Lemma digit_mod_eq b x y l n : x mod 2 ^ n = y mod 2 ^ n -> b * (l + 1) <= n -> digit b x l = digit b y l.
Proof.
  intros E Hn. rewrite !digit_low.
  assert (forall z, z mod 2 ^ (b * (l + 1)) = (z mod 2 ^ n) mod 2 ^ (b * (l + 1))) as Hz.
  { intro z. replace n with (b * (l + 1) + (n - b * (l + 1))) by lia. rewrite N.pow_add_r.
    rewrite N.mod_mul_r by (apply N.pow_nonzero; lia).
    rewrite (N.mul_comm (2 ^ (b * (l + 1)))), N.mod_add by (apply N.pow_nonzero; lia).
    symmetry. apply N.mod_mod, N.pow_nonzero. lia. }
  rewrite (Hz x), (Hz y), E. reflexivity.
Qed.

Lemma digit_hi b i l : digit b (hi b l i) l = digit b i l.
Proof. unfold digit, hi. rewrite N.div_mul by (apply N.pow_nonzero; lia). reflexivity. Qed.

Lemma hi_gt b l i : i < hi b l i + 2 ^ (b * l).
Proof. pose proof (hi_split b l i). pose proof (N.mod_lt i (2 ^ (b * l)) ltac:(apply N.pow_nonzero; lia)). lia. Qed.

Lemma pow2_le_mono a c : a <= c -> 2 ^ a <= 2 ^ c.
Proof. intros. apply N.pow_le_mono_r; lia. Qed.

(** repaired header, 6 bits per level, all indices of int32 keys; 10 levels above the leaves *)
Lemma sa_good_fixed6 m : sa_good true m 6 Q6 Q6 10.
Proof.
  assert (HQ : forall i, Q6 i -> i < 2 ^ 64) by (unfold Q6; intros; lia).
  constructor.
  - lia.
  - cbn; lia.
  - intros l Hl. destruct (Nat.le_gt_cases l 10); [left; lia|right]. change (64 / 6) with 10. lia.
  - exact HQ.
  - intros i l Hi _. apply gi_fx_digit; [lia|auto].
  - intros i l Hi _. rewrite <- (digit_hi 6 i (N.of_nat l)). apply gi_fx_digit; [lia|]. apply hi_lt_pow; auto.
  - intros i l Hi _. eexists. reflexivity.
  - intros i j Hi Hj. unfold hi. cbn [N.of_nat]. rewrite !N.div_small; [reflexivity| |].
    + eapply N.lt_trans; [apply HQ, Hj|]. apply N.pow_lt_mono_r; lia.
    + eapply N.lt_trans; [apply HQ, Hi|]. apply N.pow_lt_mono_r; lia.
  - auto.
Qed.

(** repaired header, the bitmap's store: 4 bits per level, words of int32 keys; 14 levels *)
Lemma sa_good_fixed4 m : sa_good true m 4 Q4 Q4 14.
Proof.
  assert (HQ : forall i, Q4 i -> i < 2 ^ 58) by (unfold Q4; intros; lia).
  constructor.
  - lia.
  - cbn; lia.
  - intros l Hl. left. lia.
  - intros i Hi. specialize (HQ i Hi). lia.
  - intros i l Hi _. apply gi_fx_digit; [lia|]. specialize (HQ i Hi). lia.
  - intros i l Hi _. rewrite <- (digit_hi 4 i (N.of_nat l)). apply gi_fx_digit; [lia|]. apply hi_lt_pow. specialize (HQ i Hi). lia.
  - intros i l Hi _. eexists. reflexivity.
  - intros i j Hi Hj. unfold hi. cbn [N.of_nat]. rewrite !N.div_small; [reflexivity| |].
    + eapply N.lt_le_trans; [apply HQ, Hj|]. apply pow2_le_mono. lia.
    + eapply N.lt_le_trans; [apply HQ, Hi|]. apply pow2_le_mono. lia.
  - auto.
Qed.

Lemma D6s_Q6 neg i : D6s neg i -> Q6 i.
Proof. unfold D6s, Q6. destruct neg; lia. Qed.
Lemma D4s_Q4 neg i : D4s neg i -> Q4 i.
Proof. unfold D4s, Q4. destruct neg; lia. Qed.

Lemma hi_D6s neg i l : (l <= 5)%nat -> D6s neg i -> D6s neg (hi 6 (N.of_nat l) i).
Proof.
  intros Hl H. pose proof (hi_le 6 (N.of_nat l) i). destruct neg; unfold D6s in *; [|lia].
  split; [|lia]. pose proof (hi_mono 6 (N.of_nat l) (2 ^ 64 - 2 ^ 31) i ltac:(lia)) as Hm.
  replace (hi 6 (N.of_nat l) (2 ^ 64 - 2 ^ 31)) with (2 ^ 64 - 2 ^ 31) in Hm; [exact Hm|].
  unfold hi. do 6 (destruct l as [|l]; [vm_compute; reflexivity|]). lia.
Qed.

(** unchanged header, 6 bits per level, keys of one sign: 5 levels suffice, shifts stay below 36 *)
Lemma sa_good_asis6 m neg : sa_good false m 6 (D6s neg) Q6 5.
Proof.
  assert (HQ : forall i, D6s neg i -> i < 2 ^ 64) by (unfold D6s; destruct neg; intros; lia).
  constructor.
  - lia.
  - cbn; lia.
  - intros l Hl. left. lia.
  - exact HQ.
  - intros i l Hi Hl. rewrite gi_asis_digit by (try apply cast32_lt; lia).
    rewrite cast32_id by (eapply D6s_Q6, Hi). reflexivity.
  - intros i l Hi Hl. rewrite gi_asis_digit by (try apply cast32_lt; lia).
    rewrite cast32_id by (eapply D6s_Q6, hi_D6s; [lia|exact Hi]). rewrite digit_hi. reflexivity.
  - intros i l Hi Hl. rewrite gi_asis_digit by (try apply cast32_lt; lia). eexists; reflexivity.
  - intros i j Hi Hj. unfold hi. change (6 * (N.of_nat 5 + 1)) with 36. f_equal.
    destruct neg; unfold D6s in *.
    + assert (forall k, 2 ^ 64 - 2 ^ 31 <= k < 2 ^ 64 -> k / 2 ^ 36 = 2 ^ 28 - 1) as Hk.
      { intros k Hk. symmetry. apply (N.div_unique k (2 ^ 36) (2 ^ 28 - 1) (k - (2 ^ 28 - 1) * 2 ^ 36)); lia. }
      rewrite (Hk i), (Hk j) by lia. reflexivity.
    + rewrite !N.div_small by lia. reflexivity.
  - intros i Qi. destruct neg; unfold D6s, Q6 in *.
    + destruct Qi as [Hp|Hn]; [right|left; exact Hn]. split; [lia|]. intros j l Hj Hl.
      pose proof (hi_gt 6 (N.of_nat l) j). pose proof (hi_le 6 (N.of_nat l) i).
      pose proof (pow2_le_mono (6 * N.of_nat l) 36 ltac:(lia)). lia.
    + destruct Qi as [Hp|Hn]; [left; exact Hp|right]. split; [lia|]. intros j l Hj Hl.
      pose proof (hi_gt 6 (N.of_nat l) i). pose proof (hi_le 6 (N.of_nat l) j).
      pose proof (pow2_le_mono (6 * N.of_nat l) 36 ltac:(lia)). lia.
Qed.

(** unchanged header, the bitmap's store, keys of one sign: 6 levels *)
Lemma sa_good_asis4 m neg : sa_good false m 4 (D4s neg) Q4 6.
Proof.
  assert (HQ : forall i, D4s neg i -> i < 2 ^ 58) by (unfold D4s; destruct neg; intros; lia).
  constructor.
  - lia.
  - cbn; lia.
  - intros l Hl. left. lia.
  - intros i Hi. specialize (HQ i Hi). lia.
  - intros i l Hi Hl. rewrite gi_asis_digit by (try apply cast32_lt; lia). f_equal.
    apply (digit_mod_eq 4 _ _ _ 32); [apply cast32_mod|lia].
  - intros i l Hi Hl. rewrite gi_asis_digit by (try apply cast32_lt; lia). f_equal.
    rewrite <- (digit_hi 4 i (N.of_nat l)). apply (digit_mod_eq 4 _ _ _ 32); [apply cast32_mod|lia].
  - intros i l Hi Hl. rewrite gi_asis_digit by (try apply cast32_lt; lia). eexists; reflexivity.
  - intros i j Hi Hj. unfold hi. change (4 * (N.of_nat 6 + 1)) with 28. f_equal.
    destruct neg; unfold D4s in *.
    + assert (forall k, 2 ^ 58 - 2 ^ 25 <= k < 2 ^ 58 -> k / 2 ^ 28 = 2 ^ 30 - 1) as Hk.
      { intros k Hk. symmetry. apply (N.div_unique k (2 ^ 28) (2 ^ 30 - 1) (k - (2 ^ 30 - 1) * 2 ^ 28)); lia. }
      rewrite (Hk i), (Hk j) by lia. reflexivity.
    + rewrite !N.div_small by lia. reflexivity.
  - intros i Qi. destruct neg; unfold D4s, Q4 in *.
    + destruct Qi as [Hp|Hn]; [right|left; exact Hn]. split; [lia|]. intros j l Hj Hl.
      pose proof (hi_gt 4 (N.of_nat l) j). pose proof (hi_le 4 (N.of_nat l) i).
      pose proof (pow2_le_mono (4 * N.of_nat l) 28 ltac:(lia)). lia.
    + destruct Qi as [Hp|Hn]; [left; exact Hp|right]. split; [lia|]. intros j l Hj Hl.
      pose proof (hi_gt 4 (N.of_nat l) i). pose proof (hi_le 4 (N.of_nat l) j).
      pose proof (pow2_le_mono (4 * N.of_nat l) 28 ltac:(lia)). lia.
Qed.

(** ** Part F: words and their bits *)
Fixpoint pos_bits (p : positive) (k : N) : list N :=
  match p with
  | xH => [k]
  | xO q => pos_bits q (k + 1)
  | xI q => k :: pos_bits q (k + 1)
  end.
(** the set bits of [x], counted from [k], ascending *)
Definition bits_from (x k : N) : list N := match x with N0 => [] | Npos p => pos_bits p k end.
Definition bits_list (x : N) : list N := bits_from x 0.

Lemma bits_from_double x k : bits_from (2 * x) k = bits_from x (k + 1).
Proof. destruct x; reflexivity. Qed.
Lemma bits_from_succ_double x k : bits_from (2 * x + 1) k = k :: bits_from x (k + 1).
Proof. destruct x; reflexivity. Qed.

Lemma pos_bits_In p : forall k q, In q (pos_bits p k) <-> (k <= q /\ N.testbit (Npos p) (q - k) = true).
Proof.
  induction p as [p IH|p IH|]; intros k q; cbn [pos_bits].
  - cbn [In]. rewrite IH. destruct (N.eq_dec q k) as [->|Hne].
    + replace (k - k) with 0 by lia. cbn. intuition lia.
    + split.
      * intros [->|[H1 H2]]; [lia|]. split; [lia|]. replace (q - k) with (N.succ (q - (k + 1))) by lia.
        change (N.pos p~1) with (2 * N.pos p + 1). rewrite N.testbit_odd_succ by lia. exact H2.
      * intros [H1 H2]. right. split; [lia|]. replace (q - k) with (N.succ (q - (k + 1))) in H2 by lia.
        change (N.pos p~1) with (2 * N.pos p + 1) in H2. rewrite N.testbit_odd_succ in H2 by lia. exact H2.
  - rewrite IH. destruct (N.eq_dec q k) as [->|Hne].
    + replace (k - k) with 0 by lia. cbn. intuition (try lia; try discriminate).
    + split.
      * intros [H1 H2]. split; [lia|]. replace (q - k) with (N.succ (q - (k + 1))) by lia.
        change (N.pos p~0) with (2 * N.pos p). rewrite N.testbit_even_succ by lia. exact H2.
      * intros [H1 H2]. split; [lia|]. replace (q - k) with (N.succ (q - (k + 1))) in H2 by lia.
        change (N.pos p~0) with (2 * N.pos p) in H2. rewrite N.testbit_even_succ in H2 by lia. exact H2.
  - cbn [In]. split.
    + intros [<-|[]]. replace (k - k) with 0 by lia. split; [lia|reflexivity].
    + intros [H1 H2]. left. destruct (N.eq_dec q k) as [->|Hne]; [reflexivity|].
      replace (q - k) with (N.succ (q - k - 1)) in H2 by lia. cbn in H2. destruct (N.succ (q - k - 1)) eqn:E; [lia|discriminate].
Qed.

Lemma bits_list_In x q : In q (bits_list x) <-> N.testbit x q = true.
Proof.
  unfold bits_list, bits_from. destruct x as [|p]; [cbn; intuition discriminate|].
  rewrite pos_bits_In. replace (q - 0) with q by lia. intuition lia.
Qed.

Lemma pos_bits_sorted p : forall k, StronglySorted N.lt (pos_bits p k) /\ Forall (fun q => k <= q) (pos_bits p k).
Proof.
  induction p as [p IH|p IH|]; intros k; cbn [pos_bits].
  - destruct (IH (k + 1)) as [H1 H2]. split.
    + constructor; [exact H1|]. eapply Forall_impl; [|exact H2]. cbn. intros; lia.
    + constructor; [lia|]. eapply Forall_impl; [|exact H2]. cbn. intros; lia.
  - destruct (IH (k + 1)) as [H1 H2]. split; [exact H1|]. eapply Forall_impl; [|exact H2]. cbn. intros; lia.
  - split; repeat constructor. lia.
Qed.

Lemma bits_list_sorted x : StronglySorted N.lt (bits_list x).
Proof. unfold bits_list, bits_from. destruct x; [constructor|apply pos_bits_sorted]. Qed.

Lemma pos_bits_length p k : N.of_nat (length (pos_bits p k)) = pos_popcount p.
Proof. revert k. induction p as [p IH|p IH|]; intro k; cbn [pos_bits pos_popcount length]; try rewrite <- (IH (k + 1)); lia. Qed.

Lemma bits_list_length x : N.of_nat (length (bits_list x)) = popcount x.
Proof. unfold bits_list, bits_from, popcount. destruct x; [reflexivity|apply pos_bits_length]. Qed.

Lemma ldiff_double a c : N.ldiff (2 * a) (2 * c) = 2 * N.ldiff a c.
Proof.
  apply N.bits_inj. intro k. rewrite N.ldiff_spec. destruct k as [|k] using N.peano_ind.
  - rewrite !N.testbit_even_0. reflexivity.
  - rewrite !N.testbit_even_succ by lia. rewrite N.ldiff_spec. reflexivity.
Qed.

(** taking the lowest set bit = [moveToNextInMask] *)
Lemma pos_bits_ctz p : forall k,
  pos_bits p k = (k + pos_ctz p) :: bits_from (N.ldiff (Npos p) (2 ^ pos_ctz p)) k.
Proof.
  induction p as [p IH|p IH|]; intro k; cbn [pos_bits pos_ctz].
  - rewrite N.add_0_r. f_equal.
  - rewrite IH. f_equal; [lia|].
    change (N.pos p~0) with (2 * N.pos p). replace (2 ^ (1 + pos_ctz p)) with (2 * 2 ^ pos_ctz p).
    2:{ rewrite N.pow_add_r. reflexivity. }
    rewrite ldiff_double, bits_from_double. reflexivity.
  - rewrite N.add_0_r. reflexivity.
Qed.

Lemma bits_list_ctz x : x <> 0 -> bits_list x = ctz x :: bits_list (N.ldiff x (2 ^ ctz x)).
Proof.
  intros Hx. destruct x as [|p]; [congruence|]. unfold bits_list, bits_from at 1, ctz.
  rewrite pos_bits_ctz. reflexivity.
Qed.

Lemma bits_list_nil x : bits_list x = [] <-> x = 0.
Proof.
  split; [|intros ->; reflexivity]. destruct x as [|p]; [reflexivity|]. unfold bits_list, bits_from.
  rewrite pos_bits_ctz. discriminate.
Qed.

Lemma bits_list_lt64 x q : x < 2 ^ 64 -> In q (bits_list x) -> q < 64.
Proof.
  intros Hx Hq. apply bits_list_In in Hq. destruct (N.lt_ge_cases q 64) as [|Hge]; [assumption|].
  rewrite (lt_pow2_bits x 64 Hx q Hge) in Hq. discriminate.
Qed.

Lemma land_pow2 x p : N.land x (2 ^ p) = if N.testbit x p then 2 ^ p else 0.
Proof.
  apply N.bits_inj. intro q. rewrite N.land_spec, N.pow2_bits_eqb.
  destruct (N.eqb_spec p q) as [->|Hne].
  - destruct (N.testbit x q); [rewrite N.pow2_bits_true; reflexivity|rewrite N.bits_0; reflexivity].
  - rewrite andb_false_r. destruct (N.testbit x p); [rewrite N.pow2_bits_false by exact Hne; reflexivity|rewrite N.bits_0; reflexivity].
Qed.

(** ** general facts about strongly sorted lists *)
Lemma SS_unique {A} (R : A -> A -> Prop) (Hirr : forall x, ~ R x x) (Hasym : forall x y, R x y -> R y x -> False) :
  forall l1 l2, StronglySorted R l1 -> StronglySorted R l2 -> (forall x, In x l1 <-> In x l2) -> l1 = l2.
Proof.
  induction l1 as [|a l1 IH]; intros [|c l2] H1 H2 H.
  - reflexivity.
  - exfalso. apply (H c). left; reflexivity.
  - exfalso. apply (H a). left; reflexivity.
  - inversion H1 as [|? ? H1' HF1]; subst. inversion H2 as [|? ? H2' HF2]; subst.
    rewrite Forall_forall in HF1, HF2.
    assert (E : a = c).
    { destruct (proj1 (H a) ltac:(left; reflexivity)) as [->|Ha]; [reflexivity|].
      destruct (proj2 (H c) ltac:(left; reflexivity)) as [->|Hc]; [reflexivity|].
      exfalso. apply (Hasym a c); [apply HF1, Hc|apply HF2, Ha]. }
    subst c. f_equal. apply IH; auto. intro x. split; intro Hx.
    + destruct (proj1 (H x) ltac:(right; exact Hx)) as [->|Hx']; [|exact Hx'].
      exfalso. apply (Hirr x), HF1, Hx.
    + destruct (proj2 (H x) ltac:(right; exact Hx)) as [->|Hx']; [|exact Hx'].
      exfalso. apply (Hirr x), HF2, Hx.
Qed.


Lemma SS_app {A} (R : A -> A -> Prop) l1 l2 : StronglySorted R l1 -> StronglySorted R l2 ->
  (forall x y, In x l1 -> In y l2 -> R x y) -> StronglySorted R (l1 ++ l2).
Proof.
  induction l1 as [|a l1 IH]; intros H1 H2 H; [exact H2|]. inversion H1 as [|? ? H1' HF]; subst.
  cbn [app]. constructor.
  - apply IH; auto. intros x y Hx Hy. apply H; [right; exact Hx|exact Hy].
  - apply Forall_forall. intros y Hy. apply in_app_or in Hy. destruct Hy as [Hy|Hy].
    + rewrite Forall_forall in HF. apply HF, Hy.
    + apply H; [left; reflexivity|exact Hy].
Qed.

Lemma SS_map {A B} (R : A -> A -> Prop) (R' : B -> B -> Prop) (f : A -> B) l :
  StronglySorted R l -> (forall x y, In x l -> In y l -> R x y -> R' (f x) (f y)) -> StronglySorted R' (map f l).
Proof.
  induction l as [|a l IH]; intros HS H; [constructor|]. inversion HS as [|? ? HS' HF]; subst. cbn [map]. constructor.
  - apply IH; [exact HS'|]. intros x y Hx Hy. apply H; right; assumption.
  - apply Forall_forall. intros y Hy. apply in_map_iff in Hy. destruct Hy as (x & <- & Hx).
    rewrite Forall_forall in HF. apply H; [left; reflexivity|right; exact Hx|apply HF, Hx].
Qed.


Lemma ldiff_lt_pow2 a c n : a < 2 ^ n -> N.ldiff a c < 2 ^ n.
Proof.
  intros Ha. destruct (N.eq_dec (N.ldiff a c) 0) as [->|Hne]; [apply pow2_pos|].
  apply N.log2_lt_pow2; [lia|]. destruct (N.lt_ge_cases (N.log2 (N.ldiff a c)) n) as [|Hge]; [assumption|exfalso].
  pose proof (N.bit_log2 _ Hne) as Hb. rewrite N.ldiff_spec in Hb.
  rewrite (lt_pow2_bits a n Ha _ Hge) in Hb. discriminate.
Qed.


Lemma lor_lt_pow2 a c n : a < 2 ^ n -> c < 2 ^ n -> N.lor a c < 2 ^ n.
Proof.
  intros Ha Hc.
  destruct (N.eq_dec a 0) as [->|Ha0]; [rewrite N.lor_0_l; exact Hc|].
  destruct (N.eq_dec c 0) as [->|Hc0]; [rewrite N.lor_0_r; exact Ha|].
  assert (Hne : N.lor a c <> 0) by (intro E; apply N.lor_eq_0_iff in E; lia).
  apply N.log2_lt_pow2; [lia|]. rewrite N.log2_lor.
  apply N.max_lub_lt; apply N.log2_lt_pow2; lia.
Qed.

Lemma shiftr6 i : N.shiftr i 6 = i / 64.
Proof. rewrite N.shiftr_div_pow2. reflexivity. Qed.
Lemma land63 i : N.land i 63 = i mod 64.
Proof. change 63 with (N.ones 6). rewrite N.land_ones. reflexivity. Qed.
Lemma shiftl1 p : N.shiftl 1 p = 2 ^ p.
Proof. rewrite N.shiftl_mul_pow2. lia. Qed.
Lemma ldiff63 v : N.ldiff v 63 = v / 64 * 64.
Proof. change 63 with (N.ones 6). rewrite N.ldiff_ones_r, N.shiftl_mul_pow2, N.shiftr_div_pow2. reflexivity. Qed.

(** ** Part G: SparseBitMap *)
Definition wf_words (M : list (N * N)) : Prop := Forall (fun e => snd e <> 0 /\ snd e < 2 ^ 64) M.
Definition word_at (M : list (N * N)) (w : N) : N := match cells_get w M with Some x => x | None => 0 end.
Definition bm_mem (M : list (N * N)) (i : N) : bool := N.testbit (word_at M (i / 64)) (i mod 64).
Definition bm_add (M : list (N * N)) (i : N) : list (N * N) :=
  cells_put (i / 64) (N.lor (word_at M (i / 64)) (2 ^ (i mod 64))) M.
(** the indices of the set bits, ascending *)
Definition bits_of (M : list (N * N)) : list N :=
  flat_map (fun e => map (fun p => fst e * 64 + p) (bits_list (snd e))) M.

Lemma word_at_lt M w : wf_words M -> word_at M w < 2 ^ 64.
Proof.
  intros H. unfold word_at. destruct (cells_get w M) as [x|] eqn:E; [|lia].
  apply cells_get_In in E. unfold wf_words in H. rewrite Forall_forall in H. apply (H (w, x) E).
Qed.

Lemma bm_mem_add M i j : bm_mem (bm_add M i) j = (j =? i) || bm_mem M j.
Proof.
  unfold bm_mem, bm_add, word_at. destruct (N.eq_dec (j / 64) (i / 64)) as [E|E].
  - rewrite E, cells_get_put_same. rewrite N.lor_spec, N.pow2_bits_eqb.
    pose proof (N.div_mod i 64 ltac:(lia)). pose proof (N.div_mod j 64 ltac:(lia)).
    destruct (N.eqb_spec (i mod 64) (j mod 64)); destruct (N.eqb_spec j i); try lia;
      destruct (N.testbit (word_at M (i / 64)) (j mod 64)); reflexivity.
  - rewrite cells_get_put_other by exact E. destruct (N.eqb_spec j i) as [->|]; [congruence|reflexivity].
Qed.

Lemma cells_put_In {V} p (v : V) M e : In e (cells_put p v M) -> e = (p, v) \/ In e M.
Proof.
  induction M as [|[q w] M IH]; cbn [cells_put].
  - intros [<-|[]]. left; reflexivity.
  - destruct (p <? q); [intros [<-|H]; [left; reflexivity|right; exact H]|].
    destruct (q =? p); [intros [<-|H]; [left; reflexivity|right; right; exact H]|].
    intros [<-|H]; [right; left; reflexivity|]. destruct (IH H) as [->|H']; [left; reflexivity|right; right; exact H'].
Qed.

Lemma wf_words_add M i : wf_words M -> wf_words (bm_add M i).
Proof.
  intros H. unfold wf_words. rewrite Forall_forall. intros e Hin.
  apply cells_put_In in Hin. destruct Hin as [->|Hin].
  - cbn [snd]. pose proof (word_at_lt M (i / 64) H) as Hw.
    assert (Hp : 2 ^ (i mod 64) < 2 ^ 64) by (apply N.pow_lt_mono_r; [lia|apply N.mod_lt; lia]).
    split; [|apply lor_lt_pow2; assumption].
    intro E. apply N.lor_eq_0_iff in E as [_ E]. pose proof (pow2_pos (i mod 64)). lia.
  - unfold wf_words in H. rewrite Forall_forall in H. apply H, Hin.
Qed.

Lemma popcount_sum M :
  fold_right (fun (e : N * N) acc => popcount (snd e) + acc) 0 M = N.of_nat (length (bits_of M)).
Proof.
  unfold bits_of. induction M as [|e M IH]; [reflexivity|]. cbn [fold_right flat_map].
  rewrite app_length, map_length, IH. rewrite Nat2N.inj_add, bits_list_length. reflexivity.
Qed.


(** facts about the lists of set bits *)
Lemma bits_list_inj a c : bits_list a = bits_list c -> a = c.
Proof.
  intros H. apply N.bits_inj. intro q. apply eq_true_iff_eq. rewrite <- !bits_list_In, H. reflexivity.
Qed.

Lemma SS_lt_unique (l1 l2 : list N) : StronglySorted N.lt l1 -> StronglySorted N.lt l2 ->
  (forall x, In x l1 <-> In x l2) -> l1 = l2.
Proof. apply (SS_unique N.lt); intros; lia. Qed.

Lemma SS_app_inv {A} (R : A -> A -> Prop) l1 l2 : StronglySorted R (l1 ++ l2) ->
  StronglySorted R l1 /\ StronglySorted R l2 /\ (forall x y, In x l1 -> In y l2 -> R x y).
Proof.
  induction l1 as [|a l1 IH]; cbn [app]; intros H.
  - split; [constructor|]. split; [exact H|]. intros x y [].
  - inversion H as [|? ? H' HF]; subst. destruct (IH H') as (H1 & H2 & H3). rewrite Forall_forall in HF.
    split; [constructor; [exact H1|]; apply Forall_forall; intros y Hy; apply HF, in_or_app; left; exact Hy|].
    split; [exact H2|]. intros x y [<-|Hx] Hy; [apply HF, in_or_app; right; exact Hy|apply H3; assumption].
Qed.

(** the bits above position p *)
Lemma bits_list_above x B1 p B2 : bits_list x = B1 ++ p :: B2 ->
  bits_list (N.ldiff x (N.ones (p + 1))) = B2.
Proof.
  intros H. pose proof (bits_list_sorted x) as HS. rewrite H in HS.
  apply SS_app_inv in HS as (HS1 & HS2 & H12). inversion HS2 as [|? ? HS2' HF2]; subst.
  apply SS_lt_unique; [apply bits_list_sorted|exact HS2'|].
  intro q. rewrite bits_list_In, N.ldiff_spec. rewrite Forall_forall in HF2.
  assert (Hq : N.testbit x q = true <-> In q (B1 ++ p :: B2)) by (rewrite <- H; symmetry; apply bits_list_In).
  destruct (N.lt_ge_cases q (p + 1)) as [Hlt|Hge].
  - rewrite N.ones_spec_low by exact Hlt. rewrite andb_false_r. split; [discriminate|].
    intros Hin. specialize (HF2 q Hin). lia.
  - rewrite N.ones_spec_high by exact Hge. rewrite andb_true_r. rewrite Hq. split.
    + intros Hin. apply in_app_or in Hin. destruct Hin as [Hin|[->|Hin]]; [|lia|exact Hin].
      specialize (H12 q p Hin ltac:(left; reflexivity)). lia.
    + intros Hin. apply in_or_app. right; right; exact Hin.
Qed.


Section BMRefine.
  Variable fx : bool.
  Variable m : shmode.
  Variable D4 Q4x : N -> Prop.
  Variable L4 : nat.
  Hypothesis G4 : sa_good fx m BM_BITS D4 Q4x L4.
  Hypothesis HD58 : forall w, D4 w -> w < 2 ^ 58.

  Notation rep4 := (sa_rep BM_BITS D4 L4).

  Lemma bm_set_spec (t : sa N) M i : rep4 t M -> wf_words M -> D4 (i / 64) ->
    exists t', bm_set fx m t i = Some (t', negb (bm_mem M i)) /\
               rep4 t' (if bm_mem M i then M else bm_add M i).
  Proof.
    intros R Hwf Di. unfold bm_set. rewrite shiftr6, land63, shiftl1.
    destruct (rep_locate fx m BM_BITS D4 Q4x L4 G4 t M (i / 64) R Di) as (s1 & pos & E & Eg & Hput & Hsame).
    rewrite E, Eg. fold (word_at M (i / 64)). rewrite land_pow2. unfold bm_mem.
    destruct (N.testbit (word_at M (i / 64)) (i mod 64)) eqn:Eb.
    - replace (2 ^ (i mod 64) =? 0) with false by (pose proof (pow2_pos (i mod 64)); lia).
      eexists; split; [reflexivity|]. apply Hsame. unfold word_at in Eb.
      destruct (cells_get (i / 64) M); [discriminate|]. rewrite N.bits_0 in Eb. discriminate.
    - rewrite N.eqb_refl. eexists; split; [reflexivity|]. apply Hput.
  Qed.

  Lemma bm_test_spec (t : sa N) M i : rep4 t M -> Q4x (i / 64) -> bm_test fx m t i = Some (bm_mem M i).
  Proof.
    intros R Qi. unfold bm_test. rewrite shiftr6, land63, shiftl1.
    rewrite (rep_get_any fx m BM_BITS D4 Q4x L4 G4 t M (i / 64) R Qi). f_equal.
    unfold bm_mem, word_at. destruct (cells_get (i / 64) M) as [x|]; [|rewrite N.bits_0; reflexivity].
    rewrite land_pow2. destruct (N.testbit x (i mod 64)); [|reflexivity].
    replace (2 ^ (i mod 64) =? 0) with false by (pose proof (pow2_pos (i mod 64)); lia). reflexivity.
  Qed.

  (** *** the bitmap iterator *)
  Lemma word_pos_lt (w p : N) : w < 2 ^ 58 -> p < 64 -> w * 64 + p < 2 ^ 64.
  Proof. intros. lia. Qed.

  Lemma value_rebuild w p p' : p < 64 -> p' < 64 -> N.lor (N.ldiff (w * 64 + p) 63) p' = w * 64 + p'.
  Proof.
    intros Hp Hp'. rewrite ldiff63. replace ((w * 64 + p) / 64) with w.
    2:{ apply (N.div_unique _ 64 w p); lia. }
    change 64 with (2 ^ 6). apply lor_mul_pow2. exact Hp'.
  Qed.

  Lemma bm_move_spec mask value : mask <> 0 ->
    bm_move mask value = Some (N.ldiff mask (2 ^ ctz mask), N.lor (N.ldiff value 63) (ctz mask)).
  Proof. intros H. unfold bm_move. replace (mask =? 0) with false by lia. rewrite shiftl1. reflexivity. Qed.

  Lemma ctz_lt64 x : x <> 0 -> x < 2 ^ 64 -> ctz x < 64.
  Proof.
    intros Hx Hlt. apply (bits_list_lt64 x _ Hlt). rewrite (bits_list_ctz x Hx). left; reflexivity.
  Qed.

  (** the iterator state at bit [p] of word [e], the bits in [mask] still to come *)
  Definition bm_st (L : nat) (e : N * N) (mask p : N) : bmit := (it_at BM_BITS L e, mask, fst e * 64 + p).
  (** the state at the first bit of a word *)
  Definition bm_first (L : nat) (e : N * N) : bmit :=
    bm_st L e (N.ldiff (snd e) (2 ^ ctz (snd e))) (ctz (snd e)).

  Lemma bm_of_sait_spec L e : snd e <> 0 -> snd e < 2 ^ 64 -> fst e < 2 ^ 58 ->
    bm_of_sait (it_at BM_BITS L e) = bm_first L e.
  Proof.
    intros Hx Hlt Hw. unfold bm_of_sait, it_at, bm_first, bm_st. rewrite bm_move_spec by exact Hx.
    unfold shl64. rewrite N.shiftl_mul_pow2, W64_eq, N.mod_small by (change (2 ^ 6) with 64; lia).
    change (2 ^ 6) with 64. replace (fst e * 64) with (fst e * 64 + 0) at 1 by lia.
    rewrite value_rebuild by (try apply ctz_lt64; try assumption; lia). reflexivity.
  Qed.

  Lemma bm_begin_spec (t : sa N) M : rep4 t M -> wf_words M ->
    bm_begin fx m t = Some (match M with [] => bmit_end | e :: _ => bm_first (sa_levels t) e end).
  Proof.
    intros R Hwf. unfold bm_begin. rewrite (begin_spec fx m BM_BITS D4 Q4x L4 G4 t M R).
    destruct M as [|e M']; [reflexivity|]. cbn [it_hd]. f_equal.
    inversion Hwf as [|? ? [H1 H2] _]; subst. apply bm_of_sait_spec; try assumption.
    apply HD58. apply (rep_dom _ _ _ _ _ R). left; reflexivity.
  Qed.

  (** [++] inside a word *)
  Lemma bm_next_in_word (t : sa N) L e mask p p' B : bits_list mask = p' :: B -> mask < 2 ^ 64 -> p < 64 ->
    bm_next fx m t (bm_st L e mask p) = Some (bm_st L e (N.ldiff mask (2 ^ p')) p') /\
    bits_list (N.ldiff mask (2 ^ p')) = B /\ p' < 64.
  Proof.
    intros HB Hlt Hp. assert (Hne : mask <> 0) by (intros ->; discriminate).
    pose proof (bits_list_ctz mask Hne) as Hc. rewrite HB in Hc. injection Hc as Hp' HB'.
    assert (Hp64 : p' < 64) by (rewrite Hp'; apply ctz_lt64; assumption).
    unfold bm_next, bm_st. rewrite bm_move_spec by exact Hne. rewrite <- Hp'.
    rewrite value_rebuild by assumption. subst p' B. auto.
  Qed.

  (** [++] at the last bit of a word *)
  Lemma bm_next_word_end (t : sa N) M1 e M2 p : rep4 t (M1 ++ e :: M2) -> wf_words (M1 ++ e :: M2) ->
    bm_next fx m t (bm_st (sa_levels t) e 0 p) =
      Some (match M2 with
            | [] => (None, 0, fst e * 64 + p)
            | e' :: _ => bm_first (sa_levels t) e' end).
  Proof.
    intros R Hwf. unfold bm_next, bm_st.
    replace (bm_move 0 (fst e * 64 + p)) with (@None (N * N)) by reflexivity.
    destruct e as [w x]. unfold it_at at 1. cbn [fst snd].
    rewrite (next_spec fx m BM_BITS D4 Q4x L4 G4 t M1 w x M2 R).
    destruct M2 as [|e' M2']; [reflexivity|]. cbn [it_hd].
    assert (Hin : In e' (M1 ++ (w, x) :: e' :: M2')) by (apply in_or_app; right; right; left; reflexivity).
    unfold wf_words in Hwf. rewrite Forall_forall in Hwf. destruct (Hwf e' Hin) as [H1 H2].
    assert (Hw : fst e' < 2 ^ 58) by (apply HD58, (rep_dom _ _ _ _ _ R), in_map, Hin).
    pose proof (bm_of_sait_spec (sa_levels t) e' H1 H2 Hw) as Hs. unfold bm_of_sait in Hs.
    unfold it_at in *. destruct e' as [w' x']. cbn [fst snd] in *.
    destruct (bm_move x' (shl64 w' 6)) as [[mk v']|] eqn:Em; f_equal; exact Hs.
  Qed.

  Lemma bm_size_spec (t : sa N) M : rep4 t M -> bm_size fx m t = Some (N.of_nat (length (bits_of M))).
  Proof.
    intros R. unfold bm_size. rewrite (iter_spec fx m BM_BITS D4 Q4x L4 G4 t M R). f_equal. apply popcount_sum.
  Qed.

  (** *** canonical iterator states: the state in which the iterator shows a given bit *)
  Definition bm_canon (L : nat) (e : N * N) (p : N) : bmit :=
    bm_st L e (N.ldiff (snd e) (N.ones (p + 1))) p.

  Lemma bm_first_canon L e : snd e <> 0 -> bm_first L e = bm_canon L e (ctz (snd e)).
  Proof.
    intros Hx. unfold bm_first, bm_canon. f_equal. apply bits_list_inj.
    pose proof (bits_list_ctz (snd e) Hx) as Hc. rewrite (bits_list_above (snd e) [] (ctz (snd e)) _ Hc).
    reflexivity.
  Qed.

  Lemma bm_next_canon (t : sa N) M1 e M2 B1 p B2 : rep4 t (M1 ++ e :: M2) -> wf_words (M1 ++ e :: M2) ->
    bits_list (snd e) = B1 ++ p :: B2 ->
    bm_next fx m t (bm_canon (sa_levels t) e p) =
      Some (match B2 with
            | p' :: _ => bm_canon (sa_levels t) e p'
            | [] => match M2 with
                    | [] => (None, 0, fst e * 64 + p)
                    | e' :: _ => bm_canon (sa_levels t) e' (ctz (snd e')) end
            end).
  Proof.
    intros R Hwf HB. pose proof (bits_list_above _ _ _ _ HB) as Hab.
    assert (Hin : In e (M1 ++ e :: M2)) by (apply in_or_app; right; left; reflexivity).
    pose proof Hwf as Hwf'. unfold wf_words in Hwf'. rewrite Forall_forall in Hwf'. destruct (Hwf' e Hin) as [Hx1 Hx2].
    assert (Hp : p < 64).
    { apply (bits_list_lt64 (snd e) p Hx2). rewrite HB. apply in_or_app. right; left; reflexivity. }
    unfold bm_canon at 1. destruct B2 as [|p' B2'].
    - apply bits_list_nil in Hab. rewrite Hab.
      rewrite (bm_next_word_end t M1 e M2 p R Hwf). destruct M2 as [|e' M2']; [reflexivity|].
      f_equal. apply bm_first_canon.
      assert (Hin' : In e' (M1 ++ e :: e' :: M2')) by (apply in_or_app; right; right; left; reflexivity).
      apply (Hwf' e' Hin').
    - destruct (bm_next_in_word t (sa_levels t) e _ p p' B2' Hab (ldiff_lt_pow2 _ _ _ Hx2) Hp) as (En & HB' & Hp').
      rewrite En. f_equal. unfold bm_canon. f_equal. apply bits_list_inj. rewrite HB'.
      symmetry. apply (bits_list_above (snd e) (B1 ++ [p]) p' B2'). rewrite <- app_assoc. exact HB.
  Qed.

  (** [find(i)] *)
  Lemma bm_find_spec (t : sa N) M i : rep4 t M -> Q4x (i / 64) ->
    bm_find fx m t i =
      Some (if bm_mem M i
            then (it_at BM_BITS (sa_levels t) (i / 64, word_at M (i / 64)),
                  N.land (word_at M (i / 64)) (2 ^ (i mod 64) - 1), i)
            else bmit_end).
  Proof.
    intros R Qi. unfold bm_find. rewrite shiftr6, land63, shiftl1.
    rewrite (find_any fx m BM_BITS D4 Q4x L4 G4 t M (i / 64) R Qi). unfold bm_mem, word_at.
    destruct (cells_get (i / 64) M) as [w|]; [|rewrite N.bits_0; reflexivity].
    cbn [it_at fst snd]. rewrite land_pow2. destruct (N.testbit w (i mod 64)); [|rewrite N.eqb_refl; reflexivity].
    replace (2 ^ (i mod 64) =? 0) with false by (pose proof (pow2_pos (i mod 64)); lia). reflexivity.
  Qed.

  (** [++] of an iterator that sits on word (w0, w) with any remaining mask: it is defined, the
      result differs from the iterator, and it is the end iterator iff its store iterator is *)
  Lemma bm_next_found (t : sa N) M1 w0 w M2 mask v : rep4 t (M1 ++ (w0, w) :: M2) ->
    exists nx, bm_next fx m t (it_at BM_BITS (sa_levels t) (w0, w), mask, v) = Some nx /\
      bmit_eqb (it_at BM_BITS (sa_levels t) (w0, w), mask, v) nx = false /\
      bmit_eqb nx bmit_end = match fst (fst nx) with None => true | Some _ => false end.
  Proof.
    intros R. unfold bm_next. destruct (N.eq_dec mask 0) as [->|Em].
    - replace (bm_move 0 v) with (@None (N * N)) by reflexivity. unfold it_at at 1. cbn [fst snd].
      rewrite (next_spec fx m BM_BITS D4 Q4x L4 G4 t M1 w0 w M2 R).
      destruct M2 as [|[w' x'] M2']; cbn [it_hd].
      + eexists. split; [reflexivity|]. split; reflexivity.
      + assert (Hlt : w0 < w').
        { pose proof (split_keys_facts M1 ((w', x') :: M2') w0 w (rep_sorted _ _ _ _ _ R)) as [_ H2].
          apply (H2 (w', x')). left; reflexivity. }
        unfold it_at at 1. cbn [fst snd].
        destruct (bm_move x' (shl64 w' 6)) as [[mk v']|]; eexists; (split; [reflexivity|]);
          (split; [|reflexivity]); unfold bmit_eqb, it_at; cbn [fst snd sait_eqb];
          replace (w0 =? w') with false by lia; rewrite andb_false_r; reflexivity.
    - rewrite (bm_move_spec mask v Em). eexists. split; [reflexivity|]. split; [|reflexivity].
      unfold bmit_eqb, it_at. cbn [fst snd sait_eqb]. rewrite !N.eqb_refl. cbn [andb].
      apply N.eqb_neq. intro E. apply (f_equal (fun z => N.testbit z (ctz mask))) in E.
      assert (Hb : N.testbit mask (ctz mask) = true).
      { apply bits_list_In. rewrite (bits_list_ctz mask Em). left; reflexivity. }
      rewrite N.ldiff_spec, Hb, N.pow2_bits_true in E. discriminate.
  Qed.

  (** all iterator states of a full iteration over the bits, from a canonical state on *)
  Definition word_canons (L : nat) (e : N * N) (B : list N) : list bmit := map (bm_canon L e) B.
  Definition bm_canons (L : nat) (M : list (N * N)) : list bmit :=
    flat_map (fun e => word_canons L e (bits_list (snd e))) M.

  Lemma bm_canons_length L M : length (bm_canons L M) = length (bits_of M).
  Proof.
    unfold bm_canons, bits_of, word_canons. induction M as [|e M IH]; [reflexivity|]. cbn [flat_map].
    rewrite !app_length, !map_length, IH. reflexivity.
  Qed.

  Lemma bm_its_loop_spec (t : sa N) : forall M2 M1 e B1 p B2 fuel,
    rep4 t (M1 ++ e :: M2) -> wf_words (M1 ++ e :: M2) -> bits_list (snd e) = B1 ++ p :: B2 ->
    (length (p :: B2) + length (bm_canons (sa_levels t) M2) <= fuel)%nat ->
    bm_its_loop fx m t fuel (bm_canon (sa_levels t) e p) =
      Some (word_canons (sa_levels t) e (p :: B2) ++ bm_canons (sa_levels t) M2).
  Proof.
    induction M2 as [|e' M2' IHM]; intros M1 e B1 p B2.
    - revert B1 p. induction B2 as [|p' B2' IHB]; intros B1 p fuel R Hwf HB Hf.
      + destruct fuel as [|f]; [cbn in Hf; lia|]. cbn [bm_its_loop bm_canon bm_st it_at fst snd].
        fold (bm_canon (sa_levels t) e p).
        rewrite (bm_next_canon t M1 e [] B1 p [] R Hwf HB). destruct f; reflexivity.
      + destruct fuel as [|f]; [cbn in Hf; lia|]. cbn [bm_its_loop bm_canon bm_st it_at fst snd].
        fold (bm_canon (sa_levels t) e p).
        rewrite (bm_next_canon t M1 e [] B1 p (p' :: B2') R Hwf HB).
        rewrite (IHB (B1 ++ [p]) p' f R Hwf); [reflexivity|rewrite <- app_assoc; exact HB|cbn in Hf |- *; lia].
    - revert B1 p. induction B2 as [|p' B2' IHB]; intros B1 p fuel R Hwf HB Hf.
      + destruct fuel as [|f]; [cbn in Hf; lia|]. cbn [bm_its_loop bm_canon bm_st it_at fst snd].
        fold (bm_canon (sa_levels t) e p).
        rewrite (bm_next_canon t M1 e (e' :: M2') B1 p [] R Hwf HB).
        assert (Hin : In e' (M1 ++ e :: e' :: M2')) by (apply in_or_app; right; right; left; reflexivity).
        pose proof Hwf as Hwf'. unfold wf_words in Hwf'. rewrite Forall_forall in Hwf'. destruct (Hwf' e' Hin) as [Hx1 _].
        pose proof (bits_list_ctz (snd e') Hx1) as Hc.
        rewrite (IHM (M1 ++ [e]) e' [] (ctz (snd e')) (bits_list (N.ldiff (snd e') (2 ^ ctz (snd e')))) f); [| | |exact Hc|].
        * cbn [bm_canons flat_map word_canons map app]. rewrite Hc. reflexivity.
        * rewrite <- app_assoc. exact R.
        * rewrite <- app_assoc. exact Hwf.
        * assert (Hlen : length (bm_canons (sa_levels t) (e' :: M2')) =
                         (length (bits_list (snd e')) + length (bm_canons (sa_levels t) M2'))%nat).
          { unfold bm_canons at 1. cbn [flat_map]. unfold word_canons. rewrite app_length, map_length. reflexivity. }
          rewrite Hlen in Hf. rewrite Hc in Hf at 1. cbn [length] in Hf |- *. lia.
      + destruct fuel as [|f]; [cbn in Hf; lia|]. cbn [bm_its_loop bm_canon bm_st it_at fst snd].
        fold (bm_canon (sa_levels t) e p).
        rewrite (bm_next_canon t M1 e (e' :: M2') B1 p (p' :: B2') R Hwf HB).
        rewrite (IHB (B1 ++ [p]) p' f R Hwf); [reflexivity|rewrite <- app_assoc; exact HB|cbn in Hf |- *; lia].
  Qed.
End BMRefine.

(** ** Part H: keys and indices *)
Definition key32 (k : Z) : Prop := (- 2 ^ 31 <= k < 2 ^ 31)%Z.

Lemma idx_of_key_eq k : key32 k ->
  idx_of_key k = if (k <? 0)%Z then Z.to_N (k + 2 ^ 64) else Z.to_N k.
Proof.
  unfold key32, idx_of_key. intros H. destruct (Z.ltb_spec k 0).
  - f_equal. rewrite <- (Z.mod_add k 1) by lia. apply Z.mod_small. lia.
  - f_equal. apply Z.mod_small. lia.
Qed.

Lemma idx_of_key_Q6 k : key32 k -> Q6 (idx_of_key k).
Proof. intros H. rewrite idx_of_key_eq by exact H. unfold key32, Q6 in *. destruct (Z.ltb_spec k 0); lia. Qed.

Lemma key_of_idx_32 i : key32 (key_of_idx i).
Proof.
  unfold key32, key_of_idx. pose proof (N.mod_lt i (2 ^ 32) ltac:(lia)).
  destruct (Z.ltb_spec (Z.of_N (i mod 2 ^ 32)) (2 ^ 31)); lia.
Qed.

Lemma key_of_idx_of_key k : key32 k -> key_of_idx (idx_of_key k) = k.
Proof.
  intros H. rewrite idx_of_key_eq by exact H. unfold key32, key_of_idx in *.
  destruct (Z.ltb_spec k 0).
  - replace (Z.to_N (k + 2 ^ 64) mod 2 ^ 32) with (Z.to_N (k + 2 ^ 32)).
    2:{ replace (Z.to_N (k + 2 ^ 64)) with (Z.to_N (k + 2 ^ 32) + (2 ^ 32 - 1) * 2 ^ 32) by lia.
        rewrite N.mod_add by lia. symmetry. apply N.mod_small. lia. }
    destruct (Z.ltb_spec (Z.of_N (Z.to_N (k + 2 ^ 32))) (2 ^ 31)); lia.
  - rewrite N.mod_small by lia. destruct (Z.ltb_spec (Z.of_N (Z.to_N k)) (2 ^ 31)); lia.
Qed.

Lemma idx_of_key_of_idx i : Q6 i -> idx_of_key (key_of_idx i) = i.
Proof. apply cast32_id. Qed.

Lemma Q6_Q4 i : Q6 i -> Q4 (i / 64).
Proof.
  unfold Q6, Q4. intros [H|[H1 H2]].
  - left. apply N.div_lt_upper_bound; lia.
  - right. split.
    + apply N.div_le_lower_bound; lia.
    + apply N.div_lt_upper_bound; lia.
Qed.

Lemma tuple_eqb_eq a c : tuple_eqb a c = true <-> a = c.
Proof.
  revert c. induction a as [|x a IH]; intros [|y c]; cbn [tuple_eqb]; try (intuition congruence).
  rewrite andb_true_iff, Z.eqb_eq, IH. intuition congruence.
Qed.

Lemma set_mem_In t s : set_mem t s = true <-> In t s.
Proof.
  unfold set_mem. rewrite existsb_exists. split.
  - intros (u & Hu & E). apply tuple_eqb_eq in E. subst. exact Hu.
  - intros H. exists t. split; [exact H|apply tuple_eqb_eq; reflexivity].
Qed.

Lemma set_mem_app t s1 s2 : set_mem t (s1 ++ s2) = set_mem t s1 || set_mem t s2.
Proof. unfold set_mem. apply existsb_app. Qed.

Lemma set_mem_map_cons k r x (l : list (list Z)) :
  set_mem (k :: r) (map (cons x) l) = Z.eqb k x && set_mem r l.
Proof.
  unfold set_mem. induction l as [|u l IH]; cbn [map existsb]; [rewrite andb_false_r; reflexivity|].
  rewrite IH. change (tuple_eqb (k :: r) (x :: u)) with (Z.eqb k x && tuple_eqb r u).
  destruct (Z.eqb k x); cbn [andb]; reflexivity.
Qed.

Lemma Q4_Q6 w p : Q4 w -> p < 64 -> Q6 (w * 64 + p).
Proof. unfold Q4, Q6. intros [H|[H1 H2]] Hp; [left|right]; lia. Qed.

Lemma bits_of_In M i : ksorted M -> wf_words M -> (In i (bits_of M) <-> bm_mem M i = true).
Proof.
  intros HS Hwf. unfold bits_of, bm_mem, word_at. rewrite in_flat_map. split.
  - intros ([w x] & Hin & Hi). cbn [fst snd] in Hi. apply in_map_iff in Hi. destruct Hi as (p & <- & Hp).
    unfold wf_words in Hwf. rewrite Forall_forall in Hwf. destruct (Hwf _ Hin) as [_ Hx]. cbn [snd] in Hx.
    pose proof (bits_list_lt64 x p Hx Hp) as Hp64.
    replace ((w * 64 + p) / 64) with w by (apply (N.div_unique _ 64 w p); lia).
    replace ((w * 64 + p) mod 64) with p by (apply (N.mod_unique _ 64 w p); lia).
    rewrite (cells_get_sorted_In w x M HS Hin). apply bits_list_In, Hp.
  - intros H. destruct (cells_get (i / 64) M) as [x|] eqn:E; [|rewrite N.bits_0 in H; discriminate].
    exists (i / 64, x). split; [apply cells_get_In, E|]. cbn [fst snd]. apply in_map_iff.
    exists (i mod 64). split; [|apply bits_list_In, H]. pose proof (N.div_mod i 64 ltac:(lia)). lia.
Qed.

Lemma opt_case {A B} (o : option A) (f : A -> option B) (g : A -> B) (d : B) :
  (forall a, o = Some a -> f a = Some (g a)) ->
  match o with Some a => f a | None => Some d end = Some (match o with Some a => g a | None => d end).
Proof. intros H. destruct o; [apply H; reflexivity|reflexivity]. Qed.

(** well-formed tuples of arity d+1 (any int32 keys) *)
Fixpoint tup32 (d : nat) (tup : list Z) : Prop :=
  match d, tup with
  | O, [k] => key32 k
  | S d', k :: r => key32 k /\ tup32 d' r
  | _, _ => False
  end.


(** ** order facts about [tuple_ltb] *)
Lemma tuple_ltb_irrefl a : tuple_ltb a a = false.
Proof. induction a as [|x a IH]; [reflexivity|]. cbn [tuple_ltb]. rewrite N.ltb_irrefl, N.eqb_refl. exact IH. Qed.

Lemma tuple_ltb_asym a : forall c, tuple_ltb a c = true -> tuple_ltb c a = false.
Proof.
  induction a as [|x a IH]; intros [|y c]; cbn [tuple_ltb]; try congruence.
  destruct (N.ltb_spec (idx_of_key x) (idx_of_key y)) as [Hlt|Hge].
  - intros _. replace (idx_of_key y <? idx_of_key x) with false by lia.
    replace (idx_of_key y =? idx_of_key x) with false by lia. reflexivity.
  - destruct (N.eqb_spec (idx_of_key x) (idx_of_key y)) as [E|E]; [|discriminate].
    intros H'. rewrite E, N.ltb_irrefl, N.eqb_refl. apply IH, H'.
Qed.

Lemma tuple_ltb_trans a : forall c e, tuple_ltb a c = true -> tuple_ltb c e = true -> tuple_ltb a e = true.
Proof.
  induction a as [|x a IH]; intros [|y c] [|z e]; cbn [tuple_ltb]; try congruence.
  destruct (N.ltb_spec (idx_of_key x) (idx_of_key y)); destruct (N.ltb_spec (idx_of_key y) (idx_of_key z));
    destruct (N.eqb_spec (idx_of_key x) (idx_of_key y)); destruct (N.eqb_spec (idx_of_key y) (idx_of_key z));
    try discriminate; intros Ha Hc;
    try (replace (idx_of_key x <? idx_of_key z) with true by lia; reflexivity).
  replace (idx_of_key x <? idx_of_key z) with false by lia.
  replace (idx_of_key x =? idx_of_key z) with true by lia. eapply IH; eassumption.
Qed.

Lemma idx_of_key_inj x y : key32 x -> key32 y -> idx_of_key x = idx_of_key y -> x = y.
Proof. intros Hx Hy E. rewrite <- (key_of_idx_of_key x Hx), <- (key_of_idx_of_key y Hy), E. reflexivity. Qed.

Lemma tuple_trichotomy d : forall a c, tup32 d a -> tup32 d c ->
  tuple_ltb a c = false -> tuple_eqb a c = false -> tuple_ltb c a = true.
Proof.
  induction d as [|d' IH]; intros a c Ha Hc.
  - destruct a as [|x [|? ?]]; try (cbn in Ha; contradiction).
    destruct c as [|y [|? ?]]; try (cbn in Hc; contradiction).
    cbn [tup32] in Ha, Hc. cbn [tuple_ltb tuple_eqb]. rewrite andb_true_r.
    destruct (N.ltb_spec (idx_of_key x) (idx_of_key y)) as [Hlt|Hge]; [discriminate|].
    destruct (N.eqb_spec (idx_of_key x) (idx_of_key y)) as [E|E].
    + apply idx_of_key_inj in E; auto. subst. rewrite Z.eqb_refl. discriminate.
    + intros _ _. replace (idx_of_key y <? idx_of_key x) with true by lia. reflexivity.
  - destruct a as [|x a]; [cbn in Ha; contradiction|]. destruct c as [|y c]; [cbn in Hc; contradiction|].
    destruct Ha as [Hx Ha]. destruct Hc as [Hy Hc]. cbn [tuple_ltb tuple_eqb].
    destruct (N.ltb_spec (idx_of_key x) (idx_of_key y)) as [Hlt|Hge]; [discriminate|].
    destruct (N.eqb_spec (idx_of_key x) (idx_of_key y)) as [E|E].
    + apply idx_of_key_inj in E; auto. subst. rewrite Z.eqb_refl, N.ltb_irrefl, N.eqb_refl. cbn [andb].
      apply (IH a c); assumption.
    + intros _ _. replace (idx_of_key y <? idx_of_key x) with true by lia. reflexivity.
Qed.

Lemma set_insert_In t s x : In x (set_insert t s) <-> x = t \/ In x s.
Proof.
  induction s as [|u r IH]; cbn [set_insert In]; [intuition|].
  destruct (tuple_ltb t u); [cbn [In]; intuition|].
  destruct (tuple_eqb t u) eqn:E; [apply tuple_eqb_eq in E; subst; cbn [In]; intuition|].
  cbn [In]. rewrite IH. intuition.
Qed.

Lemma set_insert_sorted d t s : tup32 d t -> Forall (tup32 d) s ->
  StronglySorted (fun a c => tuple_ltb a c = true) s ->
  StronglySorted (fun a c => tuple_ltb a c = true) (set_insert t s).
Proof.
  intros Ht. induction s as [|u r IH]; intros Hwf HS; cbn [set_insert]; [repeat constructor|].
  inversion HS as [|? ? HS' HF]; subst. inversion Hwf as [|? ? Hu Hwf']; subst.
  destruct (tuple_ltb t u) eqn:E1.
  - constructor; [exact HS|]. constructor; [exact E1|]. rewrite Forall_forall in *. intros y Hy.
    eapply tuple_ltb_trans; [exact E1|apply HF, Hy].
  - destruct (tuple_eqb t u) eqn:E2; [exact HS|]. constructor; [apply IH; assumption|].
    apply Forall_forall. intros y Hy. apply set_insert_In in Hy. destruct Hy as [->|Hy].
    + apply (tuple_trichotomy d t u); assumption.
    + rewrite Forall_forall in HF. apply HF, Hy.
Qed.

(** ** Part I: the Trie *)
Section TrieRefine.
  Variable fx : bool.
  Variable m : shmode.
  Variable Dk : nat -> N -> Prop.   (* the indices admitted in the column at depth d (d = columns that follow) *)
  Variable D4 : N -> Prop.          (* the words of the leaf bitmaps *)
  Variable L6 L4 : nat.
  Hypothesis G6 : forall d, sa_good fx m SA_BITS (Dk (S d)) Q6 L6.
  Hypothesis G4 : sa_good fx m BM_BITS D4 Q4 L4.
  Hypothesis HD0 : forall i, Dk 0%nat i -> D4 (i / 64).
  Hypothesis HDQ : forall d i, Dk d i -> Q6 i.
  Hypothesis HD4Q : forall w, D4 w -> Q4 w.

  Lemma HD58 : forall w, D4 w -> w < 2 ^ 58.
  Proof. intros w H. apply HD4Q in H. unfold Q4 in H. lia. Qed.

  (** tuples that may be inserted / asked for *)
  Fixpoint tup_ok (d : nat) (tup : list Z) : Prop :=
    match d, tup with
    | O, [k] => key32 k /\ Dk 0%nat (idx_of_key k)
    | S d', k :: r => key32 k /\ Dk (S d') (idx_of_key k) /\ tup_ok d' r
    | _, _ => False
    end.
  (** the set of tuples a trie represents, in iteration order *)
  Fixpoint content (d : nat) : trie d -> list (list Z) :=
    match d return trie d -> list (list Z) with
    | O => fun t => map (fun i => [key_of_idx i]) (bits_of (sa_entries t))
    | S d' => fun t => flat_map (fun e => map (cons (key_of_idx (fst e))) (content d' (snd e))) (sa_entries t)
    end.

  Fixpoint trie_ok (d : nat) : trie d -> Prop :=
    match d return trie d -> Prop with
    | O => fun t => sa_rep BM_BITS D4 L4 t (sa_entries t) /\ wf_words (sa_entries t)
    | S d' => fun t => sa_rep SA_BITS (Dk (S d')) L6 t (sa_entries t) /\
                       Forall (fun e => trie_ok d' (snd e) /\ content d' (snd e) <> []) (sa_entries t)
    end.

  Lemma entries_empty V : @sa_entries V sa_empty = [].
  Proof. reflexivity. Qed.

  Lemma trie_ok_empty d : trie_ok d (trie_empty d) /\ content d (trie_empty d) = [].
  Proof.
    destruct d; cbn [trie_ok trie_empty content]; rewrite entries_empty.
    - split; [split; [apply (rep_empty fx m _ _ _ _ G4)|constructor]|reflexivity].
    - split; [split; [apply (rep_empty fx m _ _ _ _ (G6 d))|constructor]|reflexivity].
  Qed.

  Lemma set_mem_content0 (M : list (N * N)) k : ksorted M -> wf_words M -> (forall w, In w (keys M) -> Q4 w) ->
    key32 k -> set_mem [k] (map (fun i => [key_of_idx i]) (bits_of M)) = bm_mem M (idx_of_key k).
  Proof.
    intros HS Hwf HQ Hk. apply eq_true_iff_eq. rewrite set_mem_In, <- (bits_of_In M _ HS Hwf). rewrite in_map_iff. split.
    - intros (i & E & Hi). injection E as E. replace (idx_of_key k) with i; [exact Hi|].
      rewrite <- E. symmetry. apply idx_of_key_of_idx.
      unfold bits_of in Hi. apply in_flat_map in Hi. destruct Hi as ([w x] & Hin & Hp). cbn [fst snd] in Hp.
      apply in_map_iff in Hp. destruct Hp as (p & <- & Hp). apply Q4_Q6.
      + apply HQ. apply (in_map fst) in Hin. exact Hin.
      + unfold wf_words in Hwf. rewrite Forall_forall in Hwf. destruct (Hwf _ Hin) as [_ Hx]. apply (bits_list_lt64 x p Hx Hp).
    - intros Hi. exists (idx_of_key k). split; [|exact Hi]. rewrite key_of_idx_of_key by exact Hk. reflexivity.
  Qed.

  Lemma key_eqb_idx k i : key32 k -> Q6 i -> Z.eqb k (key_of_idx i) = (i =? idx_of_key k).
  Proof.
    intros Hk Hi. apply eq_true_iff_eq. rewrite Z.eqb_eq, N.eqb_eq. split.
    - intros ->. symmetry. apply idx_of_key_of_idx, Hi.
    - intros ->. symmetry. apply key_of_idx_of_key, Hk.
  Qed.

  Lemma set_mem_contentS d' (M : list (N * trie d')) k r : ksorted M -> (forall i, In i (keys M) -> Q6 i) -> key32 k ->
    set_mem (k :: r) (flat_map (fun e => map (cons (key_of_idx (fst e))) (content d' (snd e))) M) =
    match cells_get (idx_of_key k) M with Some n => set_mem r (content d' n) | None => false end.
  Proof.
    intros HS HQ Hk. induction M as [|[i0 n0] M IH]; [reflexivity|].
    cbn [flat_map cells_get fst snd]. rewrite set_mem_app, set_mem_map_cons.
    rewrite (key_eqb_idx k i0 Hk) by (apply HQ; left; reflexivity).
    inversion HS as [|? ? HS' HF]; subst.
    rewrite IH by (try exact HS'; intros i Hi; apply HQ; right; exact Hi).
    destruct (N.eqb_spec i0 (idx_of_key k)) as [E|E]; cbn [andb orb]; [|reflexivity].
    replace (cells_get (idx_of_key k) M) with (@None (trie d')); [apply orb_false_r|].
    symmetry. apply cells_get_None. intro Hin. rewrite Forall_forall in HF. specialize (HF _ Hin). lia.
  Qed.

  Lemma ok_entries_Q6 d' (t : trie (S d')) : trie_ok (S d') t -> forall i, In i (keys (sa_entries t)) -> Q6 i.
  Proof. intros [R _] i Hi. apply (HDQ (S d')). apply (rep_dom _ _ _ _ _ R i Hi). Qed.

  (** [insert] adds the tuple to the represented set and reports whether it was new *)
  Lemma insert_spec d : forall (t : trie d) tup, trie_ok d t -> tup_ok d tup ->
    exists t', trie_insert fx m d t tup = Some (t', negb (set_mem tup (content d t))) /\
      trie_ok d t' /\ content d t' <> [] /\
      forall q, tup32 d q -> set_mem q (content d t') = tuple_eqb q tup || set_mem q (content d t).
  Proof.
    induction d as [|d' IH]; intros t tup Hok Htup.
    - destruct tup as [|k [|? ?]]; try contradiction. destruct Htup as [Hk HDk].
      destruct Hok as [R Hwf]. cbn [trie_insert content].
      destruct (bm_set_spec fx m D4 Q4 L4 G4 HD58 t _ (idx_of_key k) R Hwf (HD0 _ HDk)) as (t' & E & R').
      assert (HQw : forall w, In w (keys (sa_entries t)) -> Q4 w) by (intros w Hw; apply HD4Q, (rep_dom _ _ _ _ _ R w Hw)).
      rewrite E. rewrite (set_mem_content0 _ k (rep_sorted _ _ _ _ _ R) Hwf HQw Hk).
      eexists; split; [reflexivity|].
      set (M' := if bm_mem (sa_entries t) (idx_of_key k) then sa_entries t else bm_add (sa_entries t) (idx_of_key k)) in *.
      assert (Hwf' : wf_words M') by (unfold M'; destruct (bm_mem _ _); [exact Hwf|apply wf_words_add, Hwf]).
      assert (Hmem' : forall j, bm_mem M' j = (j =? idx_of_key k) || bm_mem (sa_entries t) j).
      { intro j. unfold M'. destruct (bm_mem (sa_entries t) (idx_of_key k)) eqn:Eb; [|apply bm_mem_add].
        destruct (N.eqb_spec j (idx_of_key k)) as [->|]; [rewrite Eb|]; reflexivity. }
      pose proof (rep_entries _ _ _ _ _ R') as Ee.
      assert (HQw' : forall w, In w (keys M') -> Q4 w) by (intros w Hw; apply HD4Q, (rep_dom _ _ _ _ _ R' w Hw)).
      split; [cbn [trie_ok]; rewrite Ee; split; assumption|]. cbn [content]. rewrite Ee. split.
      + intro En. apply map_eq_nil in En.
        assert (Hin : In (idx_of_key k) (bits_of M')).
        { apply (bits_of_In M' _ (rep_sorted _ _ _ _ _ R') Hwf'). rewrite Hmem', N.eqb_refl. reflexivity. }
        rewrite En in Hin. destruct Hin.
      + intros q Hq. destruct q as [|k' [|? ?]]; try contradiction. cbn [tup32] in Hq.
        rewrite (set_mem_content0 M' k' (rep_sorted _ _ _ _ _ R') Hwf' HQw' Hq).
        rewrite (set_mem_content0 _ k' (rep_sorted _ _ _ _ _ R) Hwf HQw Hq). rewrite Hmem'. f_equal.
        cbn [tuple_eqb]. rewrite andb_true_r. apply eq_true_iff_eq. rewrite N.eqb_eq, Z.eqb_eq. split.
        * intros E'. rewrite <- (key_of_idx_of_key k' Hq), <- (key_of_idx_of_key k Hk), E'. reflexivity.
        * intros ->. reflexivity.
    - destruct tup as [|k rest]; [contradiction|]. destruct Htup as (Hk & HDk & Hrest).
      pose proof Hok as [R HF]. cbn [trie_insert].
      destruct (rep_locate fx m SA_BITS (Dk (S d')) Q6 L6 (G6 d') t _ (idx_of_key k) R HDk)
        as (s1 & pos & E & Eg & Hput & _).
      rewrite E, Eg.
      set (M := sa_entries t) in *.
      set (nested := match cells_get (idx_of_key k) M with Some n => n | None => trie_empty d' end).
      assert (Hnok : trie_ok d' nested).
      { unfold nested. destruct (cells_get (idx_of_key k) M) as [n|] eqn:En; [|apply trie_ok_empty].
        apply cells_get_In in En. rewrite Forall_forall in HF. apply (HF _ En). }
      destruct (IH nested rest Hnok Hrest) as (n' & En' & Hn'ok & Hn'ne & Hn'mem).
      assert (Hmem_nested : forall r', set_mem r' (content d' nested) =
                match cells_get (idx_of_key k) M with Some n => set_mem r' (content d' n) | None => false end).
      { intro r'. unfold nested. destruct (cells_get (idx_of_key k) M); [reflexivity|].
        destruct (trie_ok_empty d') as [_ ->]. reflexivity. }
      rewrite En'. eexists; split.
      { f_equal. f_equal. f_equal. cbn [content]. fold M.
        rewrite (set_mem_contentS d' M k rest (rep_sorted _ _ _ _ _ R) (ok_entries_Q6 d' t Hok) Hk).
        exact (Hmem_nested rest). }
      pose proof (Hput n') as R'.
      pose proof (rep_entries _ _ _ _ _ R') as Ee.
      assert (Hok' : trie_ok (S d') (sa_put s1 pos n')).
      { cbn [trie_ok]. rewrite Ee. split; [exact R'|]. apply Forall_forall. intros e He.
        apply cells_put_In in He. destruct He as [->|He]; [cbn [snd]; auto|].
        rewrite Forall_forall in HF. apply HF, He. }
      split; [exact Hok'|]. cbn [content]. rewrite Ee. split.
      + intro En. assert (Hin : In (idx_of_key k, n') (cells_put (idx_of_key k) n' M)).
        { apply cells_get_In, cells_get_put_same. }
        destruct (content d' n') as [|c0 cs] eqn:Ec; [congruence|].
        assert (H : In (key_of_idx (idx_of_key k) :: c0) []); [|destruct H].
        rewrite <- En. apply in_flat_map. exists (idx_of_key k, n'). split; [exact Hin|].
        cbn [fst snd]. rewrite Ec. left; reflexivity.
      + intros q Hq. destruct q as [|k' r']; [contradiction|]. destruct Hq as [Hk' Hr'].
        rewrite (set_mem_contentS d' _ k' r' (rep_sorted _ _ _ _ _ R') (fun i Hi => HDQ _ _ (proj1 (rep_dom _ _ _ _ _ R' i Hi))) Hk').
        fold M. rewrite (set_mem_contentS d' M k' r' (rep_sorted _ _ _ _ _ R) (ok_entries_Q6 d' t Hok) Hk').
        cbn [tuple_eqb].
        destruct (Z.eqb_spec k' k) as [->|Hne].
        * rewrite cells_get_put_same, Hn'mem by exact Hr'. cbn [andb]. f_equal.
          exact (Hmem_nested r').
        * rewrite cells_get_put_other; [reflexivity|]. intro E'. apply Hne.
          rewrite <- (key_of_idx_of_key k' Hk'), <- (key_of_idx_of_key k Hk), E'. reflexivity.
  Qed.

  (** [contains] is membership in the represented set *)
  Lemma contains_spec d : forall (t : trie d) q, trie_ok d t -> tup32 d q ->
    trie_contains fx m d t q = Some (set_mem q (content d t)).
  Proof.
    induction d as [|d' IH]; intros t q Hok Hq.
    - destruct q as [|k [|? ?]]; try contradiction. cbn [tup32] in Hq. destruct Hok as [R Hwf].
      cbn [trie_contains content].
      rewrite (bm_test_spec fx m D4 Q4 L4 G4 HD58 t _ (idx_of_key k) R (Q6_Q4 _ (idx_of_key_Q6 k Hq))).
      rewrite (set_mem_content0 _ k (rep_sorted _ _ _ _ _ R) Hwf); auto.
      intros w Hw. apply HD4Q, (rep_dom _ _ _ _ _ R w Hw).
    - destruct q as [|k r]; [contradiction|]. destruct Hq as [Hk Hr]. pose proof Hok as [R HF].
      cbn [trie_contains content].
      rewrite (rep_get_any fx m SA_BITS (Dk (S d')) Q6 L6 (G6 d') t _ (idx_of_key k) R (idx_of_key_Q6 k Hk)).
      rewrite (set_mem_contentS d' _ k r (rep_sorted _ _ _ _ _ R) (ok_entries_Q6 d' t Hok) Hk).
      apply (opt_case (cells_get (idx_of_key k) (sa_entries t)) (fun n => trie_contains fx m d' n r)
               (fun n => set_mem r (content d' n)) false).
      intros n En. apply IH; [|exact Hr]. apply cells_get_In in En. rewrite Forall_forall in HF. apply (HF _ En).
  Qed.

  (** *** iteration *)
  Fixpoint steps (d : nat) (t : trie d) (vs : list Z) (c : core d) (l : list (list Z)) : Prop :=
    match l with
    | [] => False
    | x :: r => vs = x /\ core_eqb d c (core_end d) = false /\
        match r with
        | [] => exists vs' c', core_inc fx m d t vs c = Some (false, vs', c') /\
                               core_eqb d c' (core_end d) = true
        | y :: _ => exists c', core_inc fx m d t vs c = Some (true, y, c') /\ steps d t y c' r
        end
    end.

  Lemma range_loop_steps d (t : trie d) l : forall vs c fuel, steps d t vs c l -> (length l <= fuel)%nat ->
    range_loop fx m d t fuel vs c (core_end d) = Some l.
  Proof.
    induction l as [|x r IH]; intros vs c fuel Hs Hf; [destruct Hs|].
    destruct Hs as (-> & Hne & Hr). destruct fuel as [|f]; [cbn in Hf; lia|].
    cbn [range_loop]. rewrite Hne. destruct r as [|y r'].
    - destruct Hr as (vs' & c' & E & He). rewrite E. destruct f; cbn [range_loop]; rewrite He; reflexivity.
    - destruct Hr as (c' & E & Hs'). rewrite E. rewrite (IH y c' f Hs') by (cbn in Hf |- *; lia). reflexivity.
  Qed.

  Notation f0 := (fun i : N => [key_of_idx i]).

  (** the bitmap level *)
  Lemma bm_steps (t : trie 0) : forall M2 M1 e mask p B,
    sa_rep BM_BITS D4 L4 t (M1 ++ e :: M2) -> wf_words (M1 ++ e :: M2) ->
    bits_list mask = B -> mask < 2 ^ 64 -> p < 64 ->
    steps 0 t [key_of_idx (fst e * 64 + p)] (bm_st (sa_levels t) e mask p)
      (map f0 ((fst e * 64 + p) :: map (fun q => fst e * 64 + q) B ++ bits_of M2)).
  Proof.
    induction M2 as [|e' M2' IHM]; intros M1 e mask p B R Hwf HB Hmask Hp.
    - revert mask p HB Hmask Hp. induction B as [|p' B' IHB]; intros mask p HB Hmask Hp.
      + apply bits_list_nil in HB. subst mask. cbn [map app bits_of flat_map steps]. split; [reflexivity|].
        split; [reflexivity|]. cbn [core_inc].
        rewrite (bm_next_word_end fx m D4 Q4 L4 G4 HD58 t M1 e [] p R Hwf). cbn.
        do 2 eexists. split; reflexivity.
      + destruct (bm_next_in_word fx m D4 HD58 t (sa_levels t) e mask p p' B' HB Hmask Hp) as (En & HB' & Hp').
        cbn [map app steps]. split; [reflexivity|]. split; [reflexivity|].
        cbn [core_inc]. rewrite En. cbn. eexists. split; [reflexivity|].
        apply (IHB (N.ldiff mask (2 ^ p')) p' HB' (ldiff_lt_pow2 _ _ _ Hmask) Hp').
    - revert mask p HB Hmask Hp. induction B as [|p' B' IHB]; intros mask p HB Hmask Hp.
      + apply bits_list_nil in HB. subst mask.
        assert (Hin : In e' (M1 ++ e :: e' :: M2')) by (apply in_or_app; right; right; left; reflexivity).
        pose proof Hwf as Hwf'. unfold wf_words in Hwf'. rewrite Forall_forall in Hwf'. destruct (Hwf' e' Hin) as [Hx1 Hx2].
        pose proof (bits_list_ctz (snd e') Hx1) as Hc.
        cbn [map app]. unfold bits_of at 1. cbn [flat_map]. fold (bits_of M2'). rewrite Hc. cbn [map app steps].
        split; [reflexivity|]. split; [reflexivity|]. cbn [core_inc].
        rewrite (bm_next_word_end fx m D4 Q4 L4 G4 HD58 t M1 e (e' :: M2') p R Hwf). cbn.
        eexists. split; [reflexivity|]. unfold bm_first.
        change (steps 0 t [key_of_idx (fst e' * 64 + ctz (snd e'))]
                  (bm_st (sa_levels t) e' (N.ldiff (snd e') (2 ^ ctz (snd e'))) (ctz (snd e')))
                  (map f0 ((fst e' * 64 + ctz (snd e')) ::
                           map (fun q => fst e' * 64 + q) (bits_list (N.ldiff (snd e') (2 ^ ctz (snd e')))) ++ bits_of M2'))).
        apply (IHM (M1 ++ [e]) e' (N.ldiff (snd e') (2 ^ ctz (snd e'))) (ctz (snd e')) _).
        * rewrite <- app_assoc. exact R.
        * rewrite <- app_assoc. exact Hwf.
        * reflexivity.
        * apply ldiff_lt_pow2, Hx2.
        * apply ctz_lt64; assumption.
      + destruct (bm_next_in_word fx m D4 HD58 t (sa_levels t) e mask p p' B' HB Hmask Hp) as (En & HB' & Hp').
        cbn [map app steps]. split; [reflexivity|]. split; [reflexivity|].
        cbn [core_inc]. rewrite En. cbn. eexists. split; [reflexivity|].
        apply (IHB (N.ldiff mask (2 ^ p')) p' HB' (ldiff_lt_pow2 _ _ _ Hmask) Hp').
  Qed.

  Notation gS d' := (fun e : N * trie d' => map (cons (key_of_idx (fst e))) (content d' (snd e))).

  Lemma steps_nonempty d (t : trie d) vs c l : steps d t vs c l -> exists r, l = vs :: r.
  Proof. destruct l as [|x r]; [intros []|intros (-> & _)]. eexists; reflexivity. Qed.

  (** one SparseArray level on top of a level for which the claim holds *)
  Lemma sa_steps d' (t : trie (S d'))
    (IHfirst : forall n : trie d', trie_ok d' n -> content d' n <> [] ->
       exists vs c, iter_first fx m d' n = Some (vs, c) /\ steps d' n vs c (content d' n)) :
    forall M2 M1 (e : N * trie d') vs c r,
    sa_rep SA_BITS (Dk (S d')) L6 t (M1 ++ e :: M2) ->
    Forall (fun e => trie_ok d' (snd e) /\ content d' (snd e) <> []) M2 ->
    steps d' (snd e) vs c r ->
    steps (S d') t (key_of_idx (fst e) :: vs) (it_at SA_BITS (sa_levels t) e, c)
      (map (cons (key_of_idx (fst e))) r ++ flat_map (gS d') M2).
  Proof.
    induction M2 as [|e' M2' IHM]; intros M1 e vs c r R HF.
    - revert vs c. induction r as [|x r' IHr]; intros vs c Hs; [destruct Hs|].
      destruct Hs as (-> & Hne & Hr). destruct e as [i n]. cbn [fst snd] in *.
      cbn [map app flat_map]. rewrite app_nil_r. cbn [steps]. split; [reflexivity|].
      split; [cbn [core_eqb fst snd it_at sait_eqb core_end]; apply andb_false_r|].
      destruct r' as [|y r''].
      + destruct Hr as (vs' & c' & E & He). cbn [map].
        exists (key_of_idx i :: x), (None, c'). cbn [core_inc it_at fst snd tl hd]. rewrite E.
        rewrite (next_spec fx m SA_BITS (Dk (S d')) Q6 L6 (G6 d') t M1 i n [] R). cbn [it_hd].
        split; [reflexivity|]. cbn [core_eqb fst snd core_end sait_eqb]. rewrite He. reflexivity.
      + destruct Hr as (c' & E & Hs'). cbn [map]. exists (it_at SA_BITS (sa_levels t) (i, n), c').
        cbn [core_inc it_at fst snd tl hd]. rewrite E. split; [reflexivity|].
        specialize (IHr y c' Hs'). cbn [map app flat_map] in IHr. rewrite app_nil_r in IHr. exact IHr.
    - inversion HF as [|? ? [Hok' Hne'] HF']; subst.
      destruct (IHfirst (snd e') Hok' Hne') as (vs1 & c1 & Ef & Hs1).
      destruct (steps_nonempty _ _ _ _ _ Hs1) as (r1 & Er1).
      revert vs c. induction r as [|x r' IHr]; intros vs c Hs; [destruct Hs|].
      destruct Hs as (-> & Hne & Hr). destruct e as [i n]. cbn [fst snd] in *.
      cbn [map app]. cbn [steps]. split; [reflexivity|].
      split; [cbn [core_eqb fst snd it_at sait_eqb core_end]; apply andb_false_r|].
      destruct r' as [|y r''].
      + destruct Hr as (vs' & c' & E & He). cbn [map app flat_map]. rewrite Er1. cbn [map app].
        exists (it_at SA_BITS (sa_levels t) e', c1). cbn [core_inc it_at fst snd tl hd]. rewrite E.
        rewrite (next_spec fx m SA_BITS (Dk (S d')) Q6 L6 (G6 d') t M1 i n (e' :: M2') R). cbn [it_hd it_at].
        destruct e' as [i' n']. cbn [fst snd] in *. rewrite Ef. split; [reflexivity|].
        specialize (IHM (M1 ++ [(i, n)]) (i', n') vs1 c1 (content d' n')).
        cbn [fst snd] in IHM. rewrite Er1 in IHM. cbn [map app] in IHM. apply IHM.
        * rewrite <- app_assoc. exact R.
        * exact HF'.
        * rewrite <- Er1. exact Hs1.
      + destruct Hr as (c' & E & Hs'). cbn [map app]. exists (it_at SA_BITS (sa_levels t) (i, n), c').
        cbn [core_inc it_at fst snd tl hd]. rewrite E. split; [reflexivity|].
        specialize (IHr y c' Hs'). cbn [map app] in IHr. exact IHr.
  Qed.

  Lemma content0_nonempty (t : trie 0) : content 0 t <> [] -> sa_entries t <> [].
  Proof. cbn [content]. intros H E. rewrite E in H. apply H. reflexivity. Qed.

  (** the iterator placed at the first element walks through [content] and then reaches the end *)
  Lemma first_steps d : forall t : trie d, trie_ok d t -> content d t <> [] ->
    exists vs c, iter_first fx m d t = Some (vs, c) /\ steps d t vs c (content d t).
  Proof.
    induction d as [|d' IH]; intros t Hok Hne.
    - destruct Hok as [R Hwf]. pose proof (content0_nonempty t Hne) as HM.
      cbn [iter_first content]. rewrite (bm_begin_spec fx m D4 Q4 L4 G4 HD58 t _ R Hwf).
      destruct (sa_entries t) as [|e M'] eqn:EM; [congruence|].
      inversion Hwf as [|? ? [Hx1 Hx2] _]; subst.
      do 2 eexists. split; [reflexivity|]. unfold bm_first. cbn [snd bm_st].
      unfold bits_of. cbn [flat_map]. fold (bits_of M'). rewrite (bits_list_ctz (snd e) Hx1). cbn [map app].
      apply (bm_steps t M' [] e (N.ldiff (snd e) (2 ^ ctz (snd e))) (ctz (snd e)) _); try assumption; try reflexivity.
      + apply ldiff_lt_pow2, Hx2.
      + apply ctz_lt64; assumption.
    - destruct Hok as [R HF]. cbn [iter_first content] in *.
      rewrite (begin_spec fx m SA_BITS (Dk (S d')) Q6 L6 (G6 d') t _ R).
      destruct (sa_entries t) as [|[i0 n0] M'] eqn:EM; [cbn in Hne; congruence|].
      inversion HF as [|? ? [Hok0 Hne0] HF']; subst. cbn [fst snd] in *.
      destruct (IH n0 Hok0 Hne0) as (vs0 & c0 & Ef & Hs0).
      cbn [it_hd it_at fst snd]. rewrite Ef. do 2 eexists. split; [reflexivity|].
      cbn [flat_map fst snd].
      apply (sa_steps d' t IH M' [] (i0, n0) vs0 c0 (content d' n0)); assumption.
  Qed.

  (** the fuel of [trie_iter] is the number of tuples *)
  Lemma weight_spec d : forall t : trie d, trie_ok d t -> trie_weight d t = length (content d t).
  Proof.
    induction d as [|d' IH]; intros t Hok.
    - destruct Hok as [R _]. cbn [trie_weight content]. rewrite map_length.
      pose proof (popcount_sum (sa_entries t)) as Hp.
      assert (E : fold_right (fun (e : N * N) acc => (N.to_nat (popcount (snd e)) + acc)%nat) 0%nat (sa_cells t)
                  = N.to_nat (fold_right (fun (e : N * N) acc => popcount (snd e) + acc) 0 (sa_entries t))).
      { unfold sa_entries. induction (sa_cells t) as [|c cs IHc]; [reflexivity|]. cbn [fold_right map snd]. rewrite IHc. lia. }
      rewrite E, Hp. lia.
    - destruct Hok as [R HF]. cbn [trie_weight content].
      assert (E : fold_right (fun (e : N * trie d') acc => (trie_weight d' (snd e) + acc)%nat) 0%nat (sa_cells t)
                  = fold_right (fun (e : N * trie d') acc => (trie_weight d' (snd e) + acc)%nat) 0%nat (sa_entries t)).
      { unfold sa_entries. induction (sa_cells t) as [|c cs IHc]; [reflexivity|]. cbn [fold_right map snd]. rewrite IHc. reflexivity. }
      rewrite E. clear E R. induction (sa_entries t) as [|e M IHM]; [reflexivity|].
      inversion HF as [|? ? [Hok0 _] HF']; subst. cbn [fold_right flat_map]. rewrite app_length, map_length.
      rewrite (IH _ Hok0), (IHM HF'). reflexivity.
  Qed.

  Lemma core_eqb_end d : core_eqb d (core_end d) (core_end d) = true.
  Proof. induction d as [|d' IH]; [reflexivity|]. cbn [core_eqb core_end fst snd]. rewrite IH. reflexivity. Qed.

  Lemma ok_empty_iff d (t : trie d) : trie_ok d t -> (trie_is_empty d t = true <-> content d t = []).
  Proof.
    destruct d as [|d']; intros Hok; cbn [trie_is_empty content].
    - destruct Hok as [R Hwf]. unfold sa_entries. destruct (sa_cells t) as [|c cs] eqn:Ec.
      + cbn. intuition.
      + split; [discriminate|]. intro E. exfalso.
        assert (HM : sa_entries t <> []) by (unfold sa_entries; rewrite Ec; discriminate).
        unfold sa_entries in HM, Hwf. rewrite Ec in HM, Hwf. cbn [map] in *.
        inversion Hwf as [|? ? [Hx1 Hx2] _]; subst. cbn [snd] in Hx1.
        unfold bits_of in E. cbn [flat_map fst snd] in E. rewrite (bits_list_ctz _ Hx1) in E. discriminate.
    - destruct Hok as [R HF]. unfold sa_entries in *. destruct (sa_cells t) as [|c cs] eqn:Ec.
      + cbn. intuition.
      + split; [discriminate|]. intro E. exfalso. cbn [map flat_map fst snd] in *.
        inversion HF as [|? ? [_ Hne] _]; subst. cbn [snd] in Hne.
        destruct (content d' (snd c)); [congruence|discriminate].
  Qed.

  (** full iteration lists the represented set *)
  Lemma iter_trie_spec d (t : trie d) : trie_ok d t -> trie_iter fx m d t = Some (content d t).
  Proof.
    intros Hok. unfold trie_iter, trie_begin. pose proof (ok_empty_iff d t Hok) as He.
    destruct (trie_is_empty d t) eqn:Eemp.
    - rewrite (proj1 He eq_refl).
      destruct (2 * trie_weight d t + 2)%nat; cbn [range_loop]; rewrite core_eqb_end; reflexivity.
    - assert (Hne : content d t <> []) by (intro E; apply He in E; congruence).
      destruct (first_steps d t Hok Hne) as (vs & c & Ef & Hs). rewrite Ef.
      apply range_loop_steps; [exact Hs|]. rewrite (weight_spec d t Hok). lia.
  Qed.

  (** [size()] *)
  Lemma size_spec d : forall t : trie d, trie_ok d t -> trie_size fx m d t = Some (N.of_nat (length (content d t))).
  Proof.
    induction d as [|d' IH]; intros t Hok.
    - destruct Hok as [R _]. cbn [trie_size content]. rewrite map_length.
      apply (bm_size_spec fx m D4 Q4 L4 G4 t _ R).
    - destruct Hok as [R HF]. cbn [trie_size content].
      rewrite (iter_spec fx m SA_BITS (Dk (S d')) Q6 L6 (G6 d') t _ R). clear R.
      induction (sa_entries t) as [|e M IHM]; [reflexivity|].
      inversion HF as [|? ? [Hok0 _] HF']; subst. cbn [fold_right flat_map]. rewrite (IHM HF').
      rewrite (IH _ Hok0). rewrite app_length, map_length. f_equal. lia.
  Qed.

  (** *** the represented list is the sorted duplicate-free list of the set model *)
  Definition tlt (a c : list Z) : Prop := tuple_ltb a c = true.

  Lemma content_wf d : forall t : trie d, Forall (tup32 d) (content d t).
  Proof.
    induction d as [|d' IH]; intro t; cbn [content]; apply Forall_forall; intros x Hx.
    - apply in_map_iff in Hx. destruct Hx as (i & <- & _). cbn [tup32]. apply key_of_idx_32.
    - apply in_flat_map in Hx. destruct Hx as (e & _ & Hx). apply in_map_iff in Hx.
      destruct Hx as (r & <- & Hr). cbn [tup32]. split; [apply key_of_idx_32|].
      pose proof (IH (snd e)) as H. rewrite Forall_forall in H. apply H, Hr.
  Qed.

  Lemma tup_ok_q d : forall tup, tup_ok d tup -> tup32 d tup.
  Proof.
    induction d as [|d' IH]; intros [|k [|k' r]]; cbn [tup_ok tup32]; try tauto.
    - intros (H1 & _ & H3). split; [exact H1|apply IH, H3].
    - intros (H1 & _ & H3). split; [exact H1|apply IH, H3].
  Qed.

  Lemma bits_of_sorted M : ksorted M -> wf_words M -> StronglySorted N.lt (bits_of M).
  Proof.
    unfold ksorted, bits_of. induction M as [|[w x] M IH]; intros HS Hwf; [constructor|].
    inversion HS as [|? ? HS' HF]; subst. inversion Hwf as [|? ? [_ Hx] Hwf']; subst. cbn [flat_map fst snd] in *.
    apply SS_app.
    - apply (SS_map N.lt N.lt); [apply bits_list_sorted|]. intros; lia.
    - apply IH; assumption.
    - intros a c Ha Hc. apply in_map_iff in Ha. destruct Ha as (p & <- & Hp).
      apply in_flat_map in Hc. destruct Hc as ([w' x'] & Hin & Hc). cbn [fst snd] in Hc.
      apply in_map_iff in Hc. destruct Hc as (p' & <- & _).
      pose proof (bits_list_lt64 x p Hx Hp). rewrite Forall_forall in HF.
      specialize (HF w' (in_map fst _ _ Hin)). cbn [fst] in HF. lia.
  Qed.

  Lemma tlt_cons_same k a c : tuple_ltb (k :: a) (k :: c) = tuple_ltb a c.
  Proof. cbn [tuple_ltb]. rewrite N.ltb_irrefl, N.eqb_refl. reflexivity. Qed.

  Lemma tlt_cons_lt i j a c : Q6 i -> Q6 j -> i < j -> tuple_ltb (key_of_idx i :: a) (key_of_idx j :: c) = true.
  Proof.
    intros Hi Hj H. cbn [tuple_ltb]. rewrite !idx_of_key_of_idx by assumption.
    replace (i <? j) with true by lia. reflexivity.
  Qed.

  Lemma flat_sorted d' (M : list (N * trie d')) : ksorted M -> (forall i, In i (keys M) -> Q6 i) ->
    Forall (fun e => StronglySorted tlt (content d' (snd e))) M ->
    StronglySorted tlt (flat_map (fun e => map (cons (key_of_idx (fst e))) (content d' (snd e))) M).
  Proof.
    unfold ksorted. induction M as [|[i n] M IHM]; intros HS HQ HF; [constructor|].
    inversion HS as [|? ? HS' HFk]; subst. inversion HF as [|? ? Hs0 HF']; subst. cbn [flat_map fst snd] in *.
    apply SS_app.
    - apply (SS_map tlt tlt); [exact Hs0|]. intros a c _ _ H. unfold tlt. rewrite tlt_cons_same. exact H.
    - apply IHM; auto. intros j Hj. apply HQ. right; exact Hj.
    - intros a c Ha Hc. apply in_map_iff in Ha. destruct Ha as (a' & <- & _).
      apply in_flat_map in Hc. destruct Hc as ([j n'] & Hin & Hc). cbn [fst snd] in Hc.
      apply in_map_iff in Hc. destruct Hc as (c' & <- & _). unfold tlt. apply tlt_cons_lt.
      + apply HQ. left; reflexivity.
      + apply HQ. right. apply (in_map fst) in Hin. exact Hin.
      + rewrite Forall_forall in HFk. apply (HFk j). apply (in_map fst) in Hin. exact Hin.
  Qed.

  Lemma content_sorted d : forall t : trie d, trie_ok d t -> StronglySorted tlt (content d t).
  Proof.
    induction d as [|d' IH]; intros t Hok.
    - destruct Hok as [R Hwf]. cbn [content].
      apply (SS_map N.lt tlt); [apply bits_of_sorted; [apply (rep_sorted _ _ _ _ _ R)|exact Hwf]|].
      intros i j Hi Hj Hlt.
      assert (HQ : forall i, In i (bits_of (sa_entries t)) -> Q6 i).
      { intros i' Hi'. unfold bits_of in Hi'. apply in_flat_map in Hi'. destruct Hi' as ([w x] & Hin & Hp).
        cbn [fst snd] in Hp. apply in_map_iff in Hp. destruct Hp as (p & <- & Hp). apply Q4_Q6.
        - apply HD4Q, (rep_dom _ _ _ _ _ R w). apply (in_map fst) in Hin. exact Hin.
        - unfold wf_words in Hwf. rewrite Forall_forall in Hwf. destruct (Hwf _ Hin) as [_ Hx]. apply (bits_list_lt64 x p Hx Hp). }
      unfold tlt. apply (tlt_cons_lt i j [] []); auto.
    - pose proof (ok_entries_Q6 d' t Hok) as HQ. destruct Hok as [R HF]. cbn [content].
      apply flat_sorted; [apply (rep_sorted _ _ _ _ _ R)|exact HQ|].
      eapply Forall_impl; [|exact HF]. intros e [He _]. apply IH, He.
  Qed.

  (** *** canonical cores: the iterator state that shows a given stored tuple *)
  Fixpoint canon (d : nat) : trie d -> list Z -> core d :=
    match d return trie d -> list Z -> core d with
    | O => fun t x =>
        match x with
        | [k] => let i := idx_of_key k in
                 bm_canon (sa_levels t) (i / 64, word_at (sa_entries t) (i / 64)) (i mod 64)
        | _ => core_end 0
        end
    | S d' => fun t x =>
        match x with
        | k :: r => match cells_get (idx_of_key k) (sa_entries t) with
                    | Some n => (it_at SA_BITS (sa_levels t) (idx_of_key k, n), canon d' n r)
                    | None => core_end (S d')
                    end
        | [] => core_end (S d')
        end
    end.

  Lemma canon_S_eq d' (t : trie (S d')) i n r : trie_ok (S d') t -> In (i, n) (sa_entries t) ->
    canon (S d') t (key_of_idx i :: r) = (it_at SA_BITS (sa_levels t) (i, n), canon d' n r).
  Proof.
    intros Hok Hin. pose proof (ok_entries_Q6 d' t Hok i (in_map fst _ _ Hin)) as HQ. destruct Hok as [R _].
    cbn [canon]. rewrite idx_of_key_of_idx by exact HQ.
    rewrite (cells_get_sorted_In i n _ (rep_sorted _ _ _ _ _ R) Hin). reflexivity.
  Qed.

  Lemma canon_0_eq (t : trie 0) e p : trie_ok 0 t -> In e (sa_entries t) -> In p (bits_list (snd e)) ->
    canon 0 t [key_of_idx (fst e * 64 + p)] = bm_canon (sa_levels t) e p.
  Proof.
    intros [R Hwf] Hin Hp. pose proof Hwf as Hwf'. unfold wf_words in Hwf'. rewrite Forall_forall in Hwf'.
    destruct (Hwf' e Hin) as [_ Hx]. pose proof (bits_list_lt64 _ _ Hx Hp) as Hp64.
    assert (HQ : Q6 (fst e * 64 + p)).
    { apply Q4_Q6; [|exact Hp64]. apply HD4Q, (rep_dom _ _ _ _ _ R). apply in_map, Hin. }
    cbn [canon]. rewrite idx_of_key_of_idx by exact HQ.
    replace ((fst e * 64 + p) / 64) with (fst e) by (apply (N.div_unique _ 64 (fst e) p); lia).
    replace ((fst e * 64 + p) mod 64) with p by (apply (N.mod_unique _ 64 (fst e) p); lia).
    unfold word_at. destruct e as [w x]. cbn [fst snd] in *.
    rewrite (cells_get_sorted_In w x _ (rep_sorted _ _ _ _ _ R) Hin). reflexivity.
  Qed.

  Lemma flat_map_split {A B} (f : A -> list B) l : forall pre x post, flat_map f l = pre ++ x :: post ->
    exists l1 a l2 p1 p2, l = l1 ++ a :: l2 /\ f a = p1 ++ x :: p2 /\
      pre = flat_map f l1 ++ p1 /\ post = p2 ++ flat_map f l2.
  Proof.
    induction l as [|a l IH]; intros pre x post H; [destruct pre; discriminate|].
    cbn [flat_map] in H. apply app_eq_app in H. destruct H as (u & [[H1 H2]|[H1 H2]]).
    - (* f a = pre ++ u, x :: post = u ++ rest *)
      destruct u as [|u0 u].
      + cbn [app] in H2. rewrite app_nil_r in H1. symmetry in H2.
        destruct (IH [] x post H2) as (l1 & a' & l2 & p1 & p2 & -> & Hf & Hp & ->).
        exists (a :: l1), a', l2, p1, p2. split; [reflexivity|]. split; [exact Hf|]. split; [|reflexivity].
        cbn [flat_map]. rewrite <- H1. symmetry in Hp. apply app_eq_nil in Hp. destruct Hp as [-> ->]. rewrite !app_nil_r. reflexivity.
      + injection H2 as <- ->. exists [], a, l, pre, u. cbn [app flat_map]. auto.
    - (* pre = f a ++ u *)
      destruct (IH u x post H2) as (l1 & a' & l2 & p1 & p2 & -> & Hf & -> & ->).
      exists (a :: l1), a', l2, p1, p2. split; [reflexivity|]. split; [exact Hf|]. split; [|reflexivity].
      cbn [flat_map]. rewrite H1, app_assoc. reflexivity.
  Qed.

  Lemma map_split {A B} (f : A -> B) l : forall pre y post, map f l = pre ++ y :: post ->
    exists l1 a l2, l = l1 ++ a :: l2 /\ pre = map f l1 /\ y = f a /\ post = map f l2.
  Proof.
    intros pre y post H. apply map_eq_app in H. destruct H as (l1 & l' & -> & <- & H).
    destruct l' as [|a l2]; [discriminate|]. injection H as <- <-.
    exists l1, a, l2. auto.
  Qed.

  (** the iterator constructed for a non-empty store is the canonical one of the first tuple *)
  Lemma first_canon d : forall (t : trie d) x rest, trie_ok d t -> content d t = x :: rest ->
    iter_first fx m d t = Some (x, canon d t x).
  Proof.
    induction d as [|d' IH]; intros t x rest Hok Hc.
    - pose proof Hok as [R Hwf]. cbn [iter_first content] in *.
      rewrite (bm_begin_spec fx m D4 Q4 L4 G4 HD58 t _ R Hwf).
      destruct (sa_entries t) as [|e M'] eqn:EM; [discriminate|].
      inversion Hwf as [|? ? [Hx1 Hx2] _]; subst.
      unfold bits_of in Hc. cbn [flat_map] in Hc. rewrite (bits_list_ctz _ Hx1) in Hc. cbn [map app] in Hc.
      injection Hc as <- _. rewrite (bm_first_canon _ _ Hx1).
      rewrite (canon_0_eq t e (ctz (snd e)) Hok); [reflexivity|rewrite EM; left; reflexivity|].
      rewrite (bits_list_ctz _ Hx1). left; reflexivity.
    - pose proof Hok as [R HF]. cbn [iter_first content] in *.
      rewrite (begin_spec fx m SA_BITS (Dk (S d')) Q6 L6 (G6 d') t _ R).
      destruct (sa_entries t) as [|[i0 n0] M'] eqn:EM; [discriminate|].
      inversion HF as [|? ? [Hok0 Hne0] HF']; subst. cbn [fst snd flat_map] in *.
      destruct (content d' n0) as [|y ys] eqn:Ec0; [congruence|]. cbn [map app] in Hc. injection Hc as <- _.
      cbn [it_hd it_at fst snd]. rewrite (IH n0 y ys Hok0 Ec0). f_equal. f_equal.
      symmetry. apply (canon_S_eq d' t i0 n0 y Hok). rewrite EM. left; reflexivity.
  Qed.

  (** [++] from the canonical state of a stored tuple leads to the canonical state of the next one *)
  Lemma inc_canon d : forall (t : trie d) pre x post, trie_ok d t -> content d t = pre ++ x :: post ->
    exists cfin, core_inc fx m d t x (canon d t x) =
      Some (match post with y :: _ => (true, y, canon d t y) | [] => (false, x, cfin) end) /\
      core_eqb d cfin (core_end d) = true.
  Proof.
    induction d as [|d' IH]; intros t pre x post Hok Hc.
    - pose proof Hok as [R Hwf]. cbn [content] in Hc.
      apply map_split in Hc. destruct Hc as (preN & i & postN & HcN & -> & -> & ->).
      unfold bits_of in HcN. apply flat_map_split in HcN.
      destruct HcN as (M1 & e & M2 & p1 & p2 & EM & Hfe & -> & ->).
      apply map_split in Hfe. destruct Hfe as (B1 & p & B2 & HB & -> & -> & ->).
      assert (Hin : In e (sa_entries t)) by (rewrite EM; apply in_or_app; right; left; reflexivity).
      assert (Hp : In p (bits_list (snd e))) by (rewrite HB; apply in_or_app; right; left; reflexivity).
      rewrite (canon_0_eq t e p Hok Hin Hp). cbn [core_inc].
      rewrite EM in R, Hwf. rewrite (bm_next_canon fx m D4 Q4 L4 G4 HD58 t M1 e M2 B1 p B2 R Hwf HB).
      destruct B2 as [|p' B2'].
      + destruct M2 as [|e' M2'].
        * exists (None, 0, fst e * 64 + p). cbn. split; reflexivity.
        * exists bmit_end. split; [|reflexivity]. cbn [map app flat_map fst snd bm_canon bm_st it_at].
          assert (Hin' : In e' (sa_entries t)) by (rewrite EM; apply in_or_app; right; right; left; reflexivity).
          pose proof Hwf as Hwf'. unfold wf_words in Hwf'. rewrite Forall_forall in Hwf'.
          destruct (Hwf' e' ltac:(apply in_or_app; right; right; left; reflexivity)) as [Hx1 _].
          rewrite (bits_list_ctz _ Hx1). cbn [map app]. f_equal. f_equal.
          symmetry. apply canon_0_eq; [exact Hok|exact Hin'|]. rewrite (bits_list_ctz _ Hx1). left; reflexivity.
      + exists bmit_end. split; [|reflexivity]. cbn [map app fst snd bm_canon bm_st it_at]. f_equal. f_equal.
        symmetry. apply canon_0_eq; [exact Hok|exact Hin|]. rewrite HB. apply in_or_app. right; right; left; reflexivity.
    - pose proof Hok as [R HF]. cbn [content] in Hc. apply flat_map_split in Hc.
      destruct Hc as (M1 & [i n] & M2 & p1 & p2 & EM & Hfe & -> & ->). cbn [fst snd] in Hfe.
      apply map_split in Hfe. destruct Hfe as (pre_n & r & post_n & Hcn & -> & -> & ->).
      assert (Hin : In (i, n) (sa_entries t)) by (rewrite EM; apply in_or_app; right; left; reflexivity).
      rewrite Forall_forall in HF. destruct (HF _ Hin) as [Hokn _]. cbn [snd] in Hokn.
      rewrite (canon_S_eq d' t i n r Hok Hin).
      destruct (IH n pre_n r post_n Hokn Hcn) as (cfin_n & En & Hfin).
      cbn [core_inc it_at fst snd tl hd]. rewrite En.
      destruct post_n as [|y post_n'].
      + rewrite EM in R. rewrite (next_spec fx m SA_BITS (Dk (S d')) Q6 L6 (G6 d') t M1 i n M2 R).
        destruct M2 as [|[i' n'] M2'].
        * exists (None, cfin_n). cbn [it_hd map app flat_map]. split; [reflexivity|].
          cbn [core_eqb core_end fst snd sait_eqb]. rewrite Hfin. reflexivity.
        * exists (core_end (S d')). split; [|apply core_eqb_end].
          assert (Hin' : In (i', n') (sa_entries t)) by (rewrite EM; apply in_or_app; right; right; left; reflexivity).
          destruct (HF _ Hin') as [Hokn' Hnen']. cbn [snd] in *.
          destruct (content d' n') as [|y' ys'] eqn:Ec'; [congruence|].
          cbn [it_hd it_at fst snd map app flat_map]. rewrite (first_canon d' n' y' ys' Hokn' Ec'). rewrite Ec'.
          cbn [map app]. f_equal. f_equal. symmetry. apply (canon_S_eq d' t i' n' y' Hok Hin').
      + exists (core_end (S d')). split; [|apply core_eqb_end]. cbn [map app]. f_equal. f_equal.
        symmetry. apply (canon_S_eq d' t i n y Hok Hin).
  Qed.

  (** *** cores: equality test *)
  Definition ended (d : nat) (c : core d) : Prop := core_eqb d c (core_end d) = true.

  Lemma ended_at_end d (c : core d) : ended d c -> core_at_end d c = true.
  Proof.
    destruct d as [|d']; unfold ended; cbn [core_eqb core_end core_at_end]; [auto|].
    intros H. apply andb_true_iff in H. apply H.
  Qed.

  Lemma sait_eqb_none_r {V} (a : sait V) : sait_eqb a None = true -> a = None.
  Proof. destruct a as [[[? ?] ?]|]; [discriminate|reflexivity]. Qed.

  Lemma ended_eqb d : forall c e : core d, ended d c -> ended d e -> core_eqb d c e = true.
  Proof.
    unfold ended. induction d as [|d' IH]; intros c e Hc He.
    - cbn [core_eqb core_end] in *. destruct c as [[ic mc] vc]. destruct e as [[ie me] ve].
      unfold bmit_eqb, bmit_end in *. apply andb_true_iff in Hc as [Hc1 Hc2]. apply andb_true_iff in He as [He1 He2].
      apply sait_eqb_none_r in Hc1, He1. subst. apply N.eqb_eq in Hc2, He2. subst. reflexivity.
    - cbn [core_eqb core_end fst snd] in *. apply andb_true_iff in Hc as [Hc1 Hc2]. apply andb_true_iff in He as [He1 He2].
      apply sait_eqb_none_r in Hc2, He2. rewrite Hc2, He2, (IH _ _ Hc1 He1). reflexivity.
  Qed.

  Lemma core_eqb_refl d : forall c : core d, core_eqb d c c = true.
  Proof.
    induction d as [|d' IH]; intro c.
    - destruct c as [[[[[q f] v]|] mk] vl]; cbn; rewrite ?N.eqb_refl; reflexivity.
    - destruct c as [[[[q f] v]|] c']; cbn [core_eqb fst snd sait_eqb]; rewrite IH, ?N.eqb_refl; reflexivity.
  Qed.

  (** a canonical core differs from every core whose top-level iterator is at the end *)
  Lemma canon_not_at_end d (t : trie d) x (e : core d) : trie_ok d t -> In x (content d t) ->
    core_at_end d e = true -> core_eqb d (canon d t x) e = false /\ core_at_end d (canon d t x) = false.
  Proof.
    intros Hok Hx He. destruct d as [|d'].
    - cbn [content] in Hx. apply in_map_iff in Hx. destruct Hx as (i & <- & Hi).
      unfold bits_of in Hi. apply in_flat_map in Hi. destruct Hi as (w & Hw & Hi).
      apply in_map_iff in Hi. destruct Hi as (p & <- & Hp). rewrite (canon_0_eq t w p Hok Hw Hp).
      cbn [core_at_end core_eqb] in *. destruct e as [[ie me] ve]. unfold bmit_eqb, bmit_end in He.
      apply andb_true_iff in He as [He _]. apply sait_eqb_none_r in He. subst. split; reflexivity.
    - cbn [content] in Hx. apply in_flat_map in Hx. destruct Hx as ([i n] & Hin & Hx). cbn [fst snd] in Hx.
      apply in_map_iff in Hx. destruct Hx as (r & <- & Hr). rewrite (canon_S_eq d' t i n r Hok Hin).
      cbn [core_at_end core_eqb fst snd] in *. apply sait_eqb_none_r in He. rewrite He.
      split; [apply andb_false_r|reflexivity].
  Qed.

  Lemma mask_above_neq x p p' : p < p' -> N.testbit x p' = true ->
    N.ldiff x (N.ones (p + 1)) <> N.ldiff x (N.ones (p' + 1)).
  Proof.
    intros Hlt Hb E. apply (f_equal (fun z => N.testbit z p')) in E. rewrite !N.ldiff_spec, Hb in E.
    rewrite N.ones_spec_high in E by lia. rewrite N.ones_spec_low in E by lia. discriminate.
  Qed.

  (** canonical cores of different stored tuples are told apart by [==] *)
  Lemma canon_neq d : forall (t : trie d) x y, trie_ok d t -> In x (content d t) -> In y (content d t) ->
    x <> y -> core_eqb d (canon d t x) (canon d t y) = false.
  Proof.
    induction d as [|d' IH]; intros t x y Hok Hx Hy Hne.
    - cbn [content] in Hx, Hy. apply in_map_iff in Hx. destruct Hx as (i & <- & Hi).
      apply in_map_iff in Hy. destruct Hy as (j & <- & Hj).
      unfold bits_of in Hi, Hj. apply in_flat_map in Hi. destruct Hi as ([w a] & Hw & Hi).
      apply in_flat_map in Hj. destruct Hj as ([w' a'] & Hw' & Hj). cbn [fst snd] in Hi, Hj.
      apply in_map_iff in Hi. destruct Hi as (p & <- & Hp). apply in_map_iff in Hj. destruct Hj as (p' & <- & Hp').
      pose proof (canon_0_eq t (w, a) p Hok Hw Hp) as E1. pose proof (canon_0_eq t (w', a') p' Hok Hw' Hp') as E2.
      cbn [fst snd] in E1, E2. rewrite E1, E2. clear E1 E2.
      cbn [core_eqb]. unfold bmit_eqb, bm_canon, bm_st, it_at. cbn [fst snd sait_eqb].
      destruct (N.eqb_spec w w') as [->|Hww]; [|rewrite andb_false_r; reflexivity].
      destruct Hok as [R _]. pose proof (rep_sorted _ _ _ _ _ R) as HS.
      assert (a = a').
      { pose proof (cells_get_sorted_In w' a _ HS Hw) as E1. pose proof (cells_get_sorted_In w' a' _ HS Hw') as E2. congruence. }
      subst a'. assert (Hpp : p <> p') by (intro; subst; apply Hne; reflexivity).
      apply bits_list_In in Hp, Hp'.
      replace (N.ldiff a (N.ones (p + 1)) =? N.ldiff a (N.ones (p' + 1))) with false; [apply andb_false_r|].
      symmetry. apply N.eqb_neq. destruct (N.lt_ge_cases p p').
      + apply mask_above_neq; assumption.
      + intro E. symmetry in E. revert E. apply mask_above_neq; [lia|assumption].
    - cbn [content] in Hx, Hy. apply in_flat_map in Hx. destruct Hx as ([i n] & Hin & Hx).
      apply in_flat_map in Hy. destruct Hy as ([j n'] & Hjn & Hy). cbn [fst snd] in Hx, Hy.
      apply in_map_iff in Hx. destruct Hx as (r & <- & Hr). apply in_map_iff in Hy. destruct Hy as (r' & <- & Hr').
      rewrite (canon_S_eq d' t i n r Hok Hin), (canon_S_eq d' t j n' r' Hok Hjn).
      cbn [core_eqb fst snd it_at sait_eqb].
      destruct (N.eqb_spec i j) as [->|Hij]; [|rewrite andb_false_r, andb_false_r; reflexivity].
      pose proof Hok as [R HF]. pose proof (rep_sorted _ _ _ _ _ R) as HS.
      assert (n = n').
      { pose proof (cells_get_sorted_In j n _ HS Hin) as E1. pose proof (cells_get_sorted_In j n' _ HS Hjn) as E2. congruence. }
      subst n'. rewrite Forall_forall in HF. destruct (HF _ Hin) as [Hokn _]. cbn [snd] in Hokn.
      rewrite (IH n r r' Hokn Hr Hr'); [reflexivity|]. intro E. apply Hne. rewrite E. reflexivity.
  Qed.

  Lemma content_NoDup d (t : trie d) : trie_ok d t -> NoDup (content d t).
  Proof.
    intros Hok. pose proof (content_sorted d t Hok) as HS. induction HS as [|a l HS IH HF]; constructor; [|exact IH].
    intro Hin. rewrite Forall_forall in HF. specialize (HF a Hin). unfold tlt in HF. rewrite tuple_ltb_irrefl in HF. discriminate.
  Qed.

  (** iterating from the canonical core of the first tuple of a block of consecutive tuples up to
      a core that is equal to what follows the block yields the block *)
  Lemma range_block d (t : trie d) (Hok : trie_ok d t) (ec : core d) post :
    match post with y :: _ => ec = canon d t y | [] => ended d ec end ->
    forall block pre fuel, content d t = pre ++ block ++ post -> block <> [] -> (length block <= fuel)%nat ->
    range_loop fx m d t fuel (hd [] block) (canon d t (hd [] block)) ec = Some block.
  Proof.
    intros Hec. pose proof (content_NoDup d t Hok) as Hnd.
    assert (Hdiff : forall pre x rest, content d t = pre ++ (x :: rest) ++ post -> core_eqb d (canon d t x) ec = false).
    { intros pre x rest Hc. assert (Hx : In x (content d t)) by (rewrite Hc; apply in_or_app; right; left; reflexivity).
      destruct post as [|y post'].
      - apply (canon_not_at_end d t x ec Hok Hx). apply ended_at_end, Hec.
      - subst ec. apply (canon_neq d t x y Hok Hx).
        + rewrite Hc. apply in_or_app. right. apply in_or_app. right. left; reflexivity.
        + intros ->. rewrite Hc in Hnd. apply NoDup_remove_2 in Hnd. apply Hnd.
          apply in_or_app. right. apply in_or_app. right. left; reflexivity. }
    induction block as [|x block' IH]; intros pre fuel Hc Hne Hf; [congruence|]. clear Hne.
    cbn [hd]. destruct fuel as [|f]; [cbn in Hf; lia|]. cbn [range_loop].
    rewrite (Hdiff pre x block' Hc).
    destruct (inc_canon d t pre x (block' ++ post) Hok) as (cfin & Einc & Hfin).
    { rewrite Hc. cbn [app]. reflexivity. }
    rewrite Einc. destruct block' as [|y block''].
    - cbn [app]. destruct post as [|y post'].
      + assert (E : core_eqb d cfin ec = true) by (apply ended_eqb; assumption).
        destruct f; cbn [range_loop]; rewrite E; reflexivity.
      + subst ec. destruct f; cbn [range_loop]; rewrite core_eqb_refl; reflexivity.
    - cbn [app]. specialize (IH (pre ++ [x]) f). cbn [hd] in IH. rewrite IH; [reflexivity| |discriminate|cbn in Hf |- *; lia].
      rewrite Hc, <- app_assoc. reflexivity.
  Qed.

  (** *** [getBoundaries<k>] *)
  Lemma filter_prefix_nil (l : list (list Z)) : filter (is_prefix []) l = l.
  Proof.
    induction l as [|a l IH]; [reflexivity|]. cbn [filter]. change (is_prefix [] a) with true. cbv iota.
    rewrite IH. reflexivity.
  Qed.

  Lemma filter_map_cons_prefix k P' x (l : list (list Z)) :
    filter (is_prefix (k :: P')) (map (cons x) l) =
    if Z.eqb k x then map (cons x) (filter (is_prefix P') l) else [].
  Proof.
    induction l as [|a l IH]; [cbn [map filter]; destruct (Z.eqb k x); reflexivity|].
    cbn [map filter]. change (is_prefix (k :: P') (x :: a)) with (Z.eqb k x && is_prefix P' a).
    rewrite IH. destruct (Z.eqb k x); cbn [andb]; [|reflexivity]. destruct (is_prefix P' a); reflexivity.
  Qed.

  Lemma filter_prefix_S d' (M : list (N * trie d')) k P' : ksorted M -> (forall i, In i (keys M) -> Q6 i) -> key32 k ->
    filter (is_prefix (k :: P')) (flat_map (gS d') M) =
    match cells_get (idx_of_key k) M with
    | Some n => map (cons k) (filter (is_prefix P') (content d' n))
    | None => []
    end.
  Proof.
    intros HS HQ Hk. induction M as [|[i n] M IH]; [reflexivity|].
    inversion HS as [|? ? HS' HF]; subst. cbn [flat_map fst snd cells_get].
    rewrite filter_app, filter_map_cons_prefix. rewrite (key_eqb_idx k i Hk) by (apply HQ; left; reflexivity).
    rewrite IH by (try exact HS'; intros j Hj; apply HQ; right; exact Hj).
    destruct (N.eqb_spec i (idx_of_key k)) as [E|E]; [|reflexivity].
    replace (cells_get (idx_of_key k) M) with (@None (trie d')).
    - rewrite app_nil_r. subst i. rewrite key_of_idx_of_key by exact Hk. reflexivity.
    - symmetry. apply cells_get_None. intro Hin. rewrite Forall_forall in HF. specialize (HF _ Hin). lia.
  Qed.

  Lemma canon_at_end_false d (t : trie d) x : trie_ok d t -> In x (content d t) -> core_at_end d (canon d t x) = false.
  Proof.
    intros Hok Hx. apply (canon_not_at_end d t x (core_end d) Hok Hx). apply ended_at_end. apply core_eqb_end.
  Qed.

  (** prefix shorter than the arity: begin = the canonical core of the first matching tuple,
      end = the canonical core of the tuple after the block (or an end core) *)
  Lemma fb_B d : forall (t : trie d) P, (length P <= d)%nat -> Forall key32 P -> trie_ok d t ->
    (P = [] -> content d t <> []) ->
    match filter (is_prefix P) (content d t) with
    | [] => fix_binding fx m d (length P) t P = Some None
    | x :: blk => exists pre post ec, content d t = pre ++ (x :: blk) ++ post /\
        fix_binding fx m d (length P) t P = Some (Some (x, canon d t x, ec)) /\
        match post with y :: _ => ec = canon d t y | [] => ended d ec end
    end.
  Proof.
    induction d as [|d' IH]; intros t P Hlen HP Hok Hne.
    - destruct P as [|? ?]; [|cbn in Hlen; lia]. rewrite filter_prefix_nil. specialize (Hne eq_refl).
      destruct (content 0 t) as [|x rest] eqn:Ec; [congruence|].
      pose proof (first_canon 0 t x rest Hok Ec) as Hf. cbn [iter_first] in Hf.
      destruct (bm_begin fx m t) as [a|] eqn:Ea; [|discriminate]. injection Hf as Hx Ha.
      exists [], [], bmit_end. split; [rewrite app_nil_r; reflexivity|]. split; [|apply (core_eqb_end 0)].
      cbn [fix_binding length]. rewrite Ea, Hx, Ha. reflexivity.
    - destruct P as [|k P'].
      + rewrite filter_prefix_nil. specialize (Hne eq_refl).
        destruct (content (S d') t) as [|x rest] eqn:Ec; [congruence|].
        pose proof (first_canon (S d') t x rest Hok Ec) as Hf.
        exists [], [], (core_end (S d')). split; [rewrite app_nil_r; reflexivity|]. split; [|apply core_eqb_end].
        cbn [fix_binding length]. rewrite Hf. reflexivity.
      + clear Hne. inversion HP as [|? ? Hk HP']; subst. cbn [length] in *.
        pose proof Hok as [R HF]. pose proof (rep_sorted _ _ _ _ _ R) as HS.
        cbn [content]. rewrite (filter_prefix_S d' _ k P' HS (ok_entries_Q6 d' t Hok) Hk).
        cbn [fix_binding hd tl].
        rewrite (find_any fx m SA_BITS (Dk (S d')) Q6 L6 (G6 d') t _ (idx_of_key k) R (idx_of_key_Q6 k Hk)).
        destruct (cells_get (idx_of_key k) (sa_entries t)) as [n|] eqn:Eg;
          [repeat match goal with |- context [@cells_get ?V ?i ?M] =>
                    replace (@cells_get V i M) with (Some n) by (symmetry; exact Eg) end
          |repeat match goal with |- context [@cells_get ?V ?i ?M] =>
                    replace (@cells_get V i M) with (@None V) by (symmetry; exact Eg) end; reflexivity].
        pose proof (cells_get_In _ _ _ Eg) as Hin. apply in_split in Hin. destruct Hin as (M1 & M2 & EM).
        assert (Hin : In (idx_of_key k, n) (sa_entries t)) by (apply cells_get_In, Eg).
        rewrite Forall_forall in HF. destruct (HF _ Hin) as [Hokn Hnen]. cbn [snd] in Hokn, Hnen.
        specialize (IH n P' ltac:(lia) HP' Hokn (fun _ => Hnen)).
        cbn [it_at fst snd].
        destruct (filter (is_prefix P') (content d' n)) as [|xn blkn] eqn:Ef.
        * rewrite IH. reflexivity.
        * destruct IH as (pre_n & post_n & ec_n & Hcn & Efb & Hecn). rewrite Efb. cbn [map].
          assert (Hcan : forall y, canon (S d') t (k :: y) = (it_at SA_BITS (sa_levels t) (idx_of_key k, n), canon d' n y)).
          { intro y. rewrite <- (key_of_idx_of_key k Hk) at 1. apply (canon_S_eq d' t _ n y Hok Hin). }
          assert (Hcont : flat_map (gS d') (sa_entries t) =
                    (flat_map (gS d') M1 ++ map (cons k) pre_n) ++ map (cons k) (xn :: blkn) ++
                    (map (cons k) post_n ++ flat_map (gS d') M2)).
          { rewrite EM, flat_map_app. cbn [flat_map fst snd]. rewrite key_of_idx_of_key by exact Hk.
            rewrite Hcn, !map_app, <- !app_assoc. reflexivity. }
          destruct post_n as [|yn post_n'].
          -- (* the nested block ends the nested trie: step to the next entry of this level *)
             rewrite (ended_at_end d' ec_n Hecn).
             pose proof R as R'. rewrite EM in R'.
             rewrite (next_spec fx m SA_BITS (Dk (S d')) Q6 L6 (G6 d') t M1 (idx_of_key k) n M2 R').
             destruct M2 as [|[i' n'] M2'].
             ++ exists (flat_map (gS d') M1 ++ map (cons k) pre_n), [], (None, ec_n).
                split; [rewrite Hcont; cbn [map flat_map app]; rewrite !app_nil_r; reflexivity|].
                split; [cbn [it_hd]; rewrite Hcan; reflexivity|].
                unfold ended. cbn [core_eqb core_end fst snd sait_eqb]. rewrite Hecn. reflexivity.
             ++ assert (Hin' : In (i', n') (sa_entries t)) by (rewrite EM; apply in_or_app; right; right; left; reflexivity).
                destruct (HF _ Hin') as [Hokn' Hnen']. cbn [snd] in *.
                destruct (content d' n') as [|y' ys'] eqn:Ec'; [congruence|].
                cbn [it_hd it_at fst snd]. rewrite (first_canon d' n' y' ys' Hokn' Ec').
                exists (flat_map (gS d') M1 ++ map (cons k) pre_n),
                       (map (cons (key_of_idx i')) (y' :: ys') ++ flat_map (gS d') M2'),
                       (it_at SA_BITS (sa_levels t) (i', n'), canon d' n' y').
                split; [rewrite Hcont; cbn [map flat_map app fst snd]; rewrite Ec'; reflexivity|].
                split; [rewrite Hcan; reflexivity|]. cbn [map app].
                symmetry. apply (canon_S_eq d' t i' n' y' Hok Hin').
          -- (* the nested block is followed by more tuples with the same first component *)
             subst ec_n.
             assert (Hyn : In yn (content d' n)).
             { rewrite Hcn. apply in_or_app. right. apply in_or_app. right. left; reflexivity. }
             rewrite (canon_at_end_false d' n yn Hokn Hyn).
             exists (flat_map (gS d') M1 ++ map (cons k) pre_n),
                    (map (cons k) (yn :: post_n') ++ flat_map (gS d') M2),
                    (it_at SA_BITS (sa_levels t) (idx_of_key k, n), canon d' n yn).
             split; [exact Hcont|]. split; [rewrite Hcan; reflexivity|]. cbn [map app]. symmetry. apply Hcan.
  Qed.

  Lemma filter_prefix_0 (M : list (N * N)) k : ksorted M -> wf_words M -> (forall w, In w (keys M) -> Q4 w) -> key32 k ->
    filter (is_prefix [k]) (map f0 (bits_of M)) = if bm_mem M (idx_of_key k) then [[k]] else [].
  Proof.
    intros HS Hwf HQ Hk.
    assert (HQ6 : forall i, In i (bits_of M) -> Q6 i).
    { intros i Hi. unfold bits_of in Hi. apply in_flat_map in Hi. destruct Hi as ([w x] & Hin & Hp). cbn [fst snd] in Hp.
      apply in_map_iff in Hp. destruct Hp as (p & <- & Hp). apply Q4_Q6; [apply HQ, (in_map fst _ _ Hin)|].
      unfold wf_words in Hwf. rewrite Forall_forall in Hwf. destruct (Hwf _ Hin) as [_ Hx]. apply (bits_list_lt64 x p Hx Hp). }
    assert (Hmem : bm_mem M (idx_of_key k) = true <-> In (idx_of_key k) (bits_of M)) by (symmetry; apply bits_of_In; assumption).
    pose proof (bits_of_sorted M HS Hwf) as Hsort. revert HQ6 Hmem Hsort. generalize (bits_of M). intros l HQ6 Hmem Hsort.
    assert (Hgen : forall l : list N, (forall i, In i l -> Q6 i) -> StronglySorted N.lt l ->
              filter (is_prefix [k]) (map f0 l) = if existsb (N.eqb (idx_of_key k)) l then [[k]] else []).
    { clear - Hk. intros l. induction l as [|i l IH]; intros HQ6 Hs; [reflexivity|]. inversion Hs as [|? ? Hs' HF]; subst.
      cbn [map filter existsb]. change (is_prefix [k] [key_of_idx i]) with (Z.eqb k (key_of_idx i) && true).
      rewrite andb_true_r. rewrite IH by (try exact Hs'; intros j Hj; apply HQ6; right; exact Hj).
      destruct (Z.eqb_spec k (key_of_idx i)) as [E|E].
      - assert (Ei : idx_of_key k = i) by (rewrite E; apply idx_of_key_of_idx, HQ6; left; reflexivity).
        rewrite Ei, N.eqb_refl. cbn [orb]. rewrite <- E.
        replace (existsb (N.eqb i) l) with false; [reflexivity|]. symmetry. apply not_true_is_false. intro Hex.
        apply existsb_exists in Hex. destruct Hex as (j & Hj & Ej). apply N.eqb_eq in Ej. subst j.
        rewrite Forall_forall in HF. specialize (HF i Hj). lia.
      - replace (idx_of_key k =? i) with false; [reflexivity|]. symmetry. apply N.eqb_neq. intro Ei. apply E.
        rewrite <- Ei. symmetry. apply key_of_idx_of_key. exact Hk. }
    rewrite (Hgen l HQ6 Hsort). destruct (bm_mem M (idx_of_key k)) eqn:Eb.
    - replace (existsb (N.eqb (idx_of_key k)) l) with true; [reflexivity|]. symmetry. apply existsb_exists.
      exists (idx_of_key k). split; [apply Hmem; reflexivity|apply N.eqb_refl].
    - replace (existsb (N.eqb (idx_of_key k)) l) with false; [reflexivity|]. symmetry. apply not_true_is_false. intro Hex.
      apply existsb_exists in Hex. destruct Hex as (j & Hj & Ej). apply N.eqb_eq in Ej. subst j.
      apply Hmem in Hj. congruence.
  Qed.

  (** prefix of full length: the range is the tuple itself (if stored); the end iterator is the
      begin iterator incremented once *)
  Lemma fb_A d : forall (t : trie d) P, length P = S d -> Forall key32 P -> trie_ok d t ->
    match filter (is_prefix P) (content d t) with
    | [] => fix_binding fx m d (S d) t P = Some None
    | x :: rest => x = P /\ rest = [] /\ exists bc ec b vs',
        fix_binding fx m d (S d) t P = Some (Some (P, bc, ec)) /\
        core_inc fx m d t P bc = Some (b, vs', ec) /\ b = negb (core_at_end d ec) /\
        core_eqb d bc ec = false
    end.
  Proof.
    induction d as [|d' IH]; intros t P Hlen HP Hok.
    - destruct P as [|k [|? ?]]; try discriminate. inversion HP as [|? ? Hk _]; subst.
      pose proof Hok as [R Hwf]. pose proof (rep_sorted _ _ _ _ _ R) as HS.
      assert (HQw : forall w, In w (keys (sa_entries t)) -> Q4 w) by (intros w Hw; apply HD4Q, (rep_dom _ _ _ _ _ R w Hw)).
      cbn [content]. rewrite (filter_prefix_0 _ k HS Hwf HQw Hk).
      cbn [fix_binding hd]. set (i := idx_of_key k) in *.
      rewrite (bm_find_spec fx m D4 Q4 L4 G4 HD58 t _ i R (Q6_Q4 _ (idx_of_key_Q6 k Hk))).
      destruct (bm_mem (sa_entries t) i) eqn:Eb; [|reflexivity].
      split; [reflexivity|]. split; [reflexivity|].
      assert (Hw : exists w, cells_get (i / 64) (sa_entries t) = Some w).
      { unfold bm_mem, word_at in Eb. destruct (cells_get (i / 64) (sa_entries t)) as [w|]; [eauto|].
        rewrite N.bits_0 in Eb. discriminate. }
      destruct Hw as (w & Eg). unfold word_at. rewrite Eg.
      pose proof (cells_get_In _ _ _ Eg) as Hin. apply in_split in Hin. destruct Hin as (M1 & M2 & EM).
      pose proof R as R'. rewrite EM in R'.
      destruct (bm_next_found fx m D4 Q4 L4 G4 HD58 t M1 (i / 64) w M2 (N.land w (2 ^ (i mod 64) - 1)) i R')
        as (nx & Enx & Hneq & Hend).
      change (bmit_eqb (it_at BM_BITS (sa_levels t) (i / 64, w), N.land w (2 ^ (i mod 64) - 1), i) bmit_end) with false.
      cbv iota. rewrite Enx.
      exists (it_at BM_BITS (sa_levels t) (i / 64, w), N.land w (2 ^ (i mod 64) - 1), i), nx.
      destruct (fst (fst nx)) eqn:Et.
      + exists true, [key_of_idx (snd nx)]. split; [reflexivity|].
        split; [cbn [core_inc]; rewrite Enx, Et; reflexivity|].
        split; [cbn [core_at_end]; rewrite Hend; reflexivity|exact Hneq].
      + exists false, [k]. split; [reflexivity|].
        split; [cbn [core_inc]; rewrite Enx, Et; reflexivity|].
        split; [cbn [core_at_end]; rewrite Hend; reflexivity|exact Hneq].
    - destruct P as [|k P']; [discriminate|]. injection Hlen as Hlen. inversion HP as [|? ? Hk HP']; subst.
      pose proof Hok as [R HF]. pose proof (rep_sorted _ _ _ _ _ R) as HS.
      cbn [content]. rewrite (filter_prefix_S d' _ k P' HS (ok_entries_Q6 d' t Hok) Hk).
      cbn [fix_binding hd tl].
      rewrite (find_any fx m SA_BITS (Dk (S d')) Q6 L6 (G6 d') t _ (idx_of_key k) R (idx_of_key_Q6 k Hk)).
      destruct (cells_get (idx_of_key k) (sa_entries t)) as [n|] eqn:Eg;
        [repeat match goal with |- context [@cells_get ?V ?i ?M] =>
                  replace (@cells_get V i M) with (Some n) by (symmetry; exact Eg) end
        |repeat match goal with |- context [@cells_get ?V ?i ?M] =>
                  replace (@cells_get V i M) with (@None V) by (symmetry; exact Eg) end; reflexivity].
      pose proof (cells_get_In _ _ _ Eg) as Hin. pose proof Hin as Hin2. apply in_split in Hin2. destruct Hin2 as (M1 & M2 & EM).
      rewrite Forall_forall in HF. destruct (HF _ Hin) as [Hokn Hnen]. cbn [snd] in Hokn, Hnen.
      specialize (IH n P' Hlen HP' Hokn). cbn [it_at fst snd].
      destruct (filter (is_prefix P') (content d' n)) as [|xn restn] eqn:Ef.
      + rewrite IH. reflexivity.
      + destruct IH as (-> & -> & bc_n & ec_n & b_n & vs_n & Efb & Einc & Hb & Hneq). rewrite Efb. cbn [map].
        split; [reflexivity|]. split; [reflexivity|].
        pose proof R as R'. rewrite EM in R'.
        pose proof (next_spec fx m SA_BITS (Dk (S d')) Q6 L6 (G6 d') t M1 (idx_of_key k) n M2 R') as Hnext.
        destruct (core_at_end d' ec_n) eqn:Eend; cbn [negb] in Hb; subst b_n.
        * rewrite Hnext. destruct M2 as [|[i' n'] M2']; cbn [it_hd it_at fst snd].
          -- do 4 eexists. split; [reflexivity|].
             split; [cbn [core_inc tl hd it_at fst snd]; rewrite Einc, Hnext; cbn [it_hd]; reflexivity|].
             split; [reflexivity|]. cbn [core_eqb fst snd sait_eqb]. apply andb_false_r.
          -- assert (Hin' : In (i', n') (sa_entries t)) by (rewrite EM; apply in_or_app; right; right; left; reflexivity).
             destruct (HF _ Hin') as [Hokn' Hnen']. cbn [snd] in *.
             destruct (content d' n') as [|y' ys'] eqn:Ec'; [congruence|].
             rewrite (first_canon d' n' y' ys' Hokn' Ec').
             do 4 eexists. split; [reflexivity|].
             split; [cbn [core_inc tl hd it_at fst snd]; rewrite Einc, Hnext; cbn [it_hd it_at fst snd];
                     rewrite (first_canon d' n' y' ys' Hokn' Ec'); reflexivity|].
             split; [reflexivity|]. cbn [core_eqb fst snd sait_eqb it_at].
             assert (Hlt : idx_of_key k < i').
             { pose proof (split_keys_facts M1 ((i', n') :: M2') (idx_of_key k) n (rep_sorted _ _ _ _ _ R')) as [_ H2].
               apply (H2 (i', n')). left; reflexivity. }
             replace (idx_of_key k =? i') with false by lia. rewrite !andb_false_r. reflexivity.
        * do 4 eexists. split; [reflexivity|].
          split; [cbn [core_inc tl hd it_at fst snd]; rewrite Einc; reflexivity|]. split; [reflexivity|].
          cbn [core_eqb fst snd]. rewrite Hneq. reflexivity.
  Qed.

  Lemma filter_len_le {A} (f : A -> bool) l : (length (filter f l) <= length l)%nat.
  Proof. induction l as [|a l IH]; cbn [filter length]; [lia|]. destruct (f a); cbn [length]; lia. Qed.

  (** all tuples with a given prefix, in iteration order *)
  Theorem prefix_spec d (t : trie d) P : trie_ok d t -> (length P <= S d)%nat -> Forall key32 P ->
    trie_prefix fx m d t P = Some (set_prefix P (content d t)).
  Proof.
    intros Hok Hlen HP. unfold trie_prefix, set_prefix. destruct P as [|k P'].
    - rewrite filter_prefix_nil. apply iter_trie_spec, Hok.
    - set (P := k :: P') in *.
      assert (Hfuel : (length (filter (is_prefix P) (content d t)) <= 2 * trie_weight d t + 2)%nat).
      { rewrite (weight_spec d t Hok). pose proof (filter_len_le (is_prefix P) (content d t)). lia. }
      destruct (Nat.eq_dec (length P) (S d)) as [Efull|Eshort].
      + pose proof (fb_A d t P Efull HP Hok) as H. rewrite Efull.
        destruct (filter (is_prefix P) (content d t)) as [|x rest] eqn:Ef; [rewrite H; reflexivity|].
        destruct H as (-> & -> & bc & ec & b & vs' & Efb & Einc & _ & Hneq). rewrite Efb.
        destruct (2 * trie_weight d t + 2)%nat as [|f] eqn:Efu; [lia|].
        cbn [range_loop]. rewrite Hneq, Einc. destruct f; cbn [range_loop]; rewrite core_eqb_refl; reflexivity.
      + pose proof (fb_B d t P ltac:(lia) HP Hok ltac:(discriminate)) as H.
        destruct (filter (is_prefix P) (content d t)) as [|x blk] eqn:Ef; [rewrite H; reflexivity|].
        destruct H as (pre & post & ec & Hc & Efb & Hec). rewrite Efb.
        apply (range_block d t Hok ec post Hec (x :: blk) pre _ Hc); [discriminate|].
        exact Hfuel.
  Qed.

  (** *** [partition] *)
  (** the tuples grouped by top-level element of the trie *)
  Definition tgroups (d : nat) : trie d -> list (list (list Z)) :=
    match d return trie d -> list (list (list Z)) with
    | O => fun t => map (fun x => [x]) (content 0 t)
    | S d' => fun t => map (gS d') (sa_entries t)
    end.
  Definition gstart (d : nat) (t : trie d) (g : list (list Z)) : list Z * core d :=
    (hd [] g, canon d t (hd [] g)).

  Lemma tgroups_concat d (t : trie d) : concat (tgroups d t) = content d t.
  Proof.
    destruct d; cbn [tgroups content].
    - induction (map f0 (bits_of (sa_entries t))) as [|x l IH]; cbn [map concat app]; [reflexivity|]. rewrite IH. reflexivity.
    - rewrite flat_map_concat_map. reflexivity.
  Qed.

  Lemma tgroups_nonempty d (t : trie d) : trie_ok d t -> Forall (fun g => g <> []) (tgroups d t).
  Proof.
    intros Hok. destruct d; cbn [tgroups]; apply Forall_forall; intros g Hg; apply in_map_iff in Hg; destruct Hg as (e & <- & He).
    - discriminate.
    - destruct Hok as [_ HF]. rewrite Forall_forall in HF. destruct (HF _ He) as [_ Hne].
      destruct (content d (snd e)); [congruence|discriminate].
  Qed.

  Lemma bm_canons_content (t : trie 0) : trie_ok 0 t ->
    map (fun it : bmit => ([key_of_idx (snd it)], it)) (bm_canons (sa_levels t) (sa_entries t)) =
    map (gstart 0 t) (tgroups 0 t).
  Proof.
    intros Hok. cbn [tgroups content]. rewrite map_map. unfold gstart. cbn [hd].
    unfold bm_canons, bits_of, word_canons.
    assert (H : forall M, (forall e, In e M -> In e (sa_entries t)) ->
              map (fun it : bmit => ([key_of_idx (snd it)], it))
                  (flat_map (fun e => map (bm_canon (sa_levels t) e) (bits_list (snd e))) M) =
              map (fun x => (x, canon 0 t x))
                  (map f0 (flat_map (fun e => map (fun p => fst e * 64 + p) (bits_list (snd e))) M))).
    { induction M as [|e M IH]; intros Hsub; [reflexivity|]. cbn [flat_map]. rewrite !map_app.
      rewrite IH by (intros e' He'; apply Hsub; right; exact He'). f_equal.
      rewrite !map_map. apply map_ext_in. intros p Hp.
      rewrite (canon_0_eq t e p Hok (Hsub e ltac:(left; reflexivity)) Hp). reflexivity. }
    apply H. auto.
  Qed.

  (** the iterators [partition] may cut at *)
  Lemma top_starts_spec d (t : trie d) : trie_ok d t -> content d t <> [] ->
    top_starts fx m d t = Some (map (gstart d t) (tgroups d t)).
  Proof.
    intros Hok Hne. destruct d as [|d'].
    - pose proof Hok as [R Hwf]. cbn [top_starts]. rewrite (bm_begin_spec fx m D4 Q4 L4 G4 HD58 t _ R Hwf).
      pose proof (content0_nonempty t Hne) as HM.
      destruct (sa_entries t) as [|e M'] eqn:EM; [congruence|].
      inversion Hwf as [|? ? [Hx1 Hx2] _]; subst. rewrite (bm_first_canon _ _ Hx1).
      pose proof (bits_list_ctz (snd e) Hx1) as Hc.
      pose proof R as R'. pose proof Hwf as Hwf'.
      rewrite (bm_its_loop_spec fx m D4 Q4 L4 G4 HD58 t M' [] e [] (ctz (snd e)) _ _ R' Hwf' Hc).
      + rewrite <- (bm_canons_content t Hok). rewrite EM. cbn [bm_canons flat_map word_canons]. rewrite Hc. reflexivity.
      + pose proof (weight_spec 0 t Hok) as Hw. cbn [content] in Hw. rewrite map_length, EM in Hw.
        unfold bits_of in Hw. cbn [flat_map] in Hw. rewrite app_length, map_length in Hw. fold (bits_of M') in Hw.
        rewrite bm_canons_length. cbn [trie_weight] in Hw |- *. rewrite Hw.
        rewrite Hc. cbn [length]. lia.
    - pose proof Hok as [R HF]. cbn [top_starts tgroups].
      rewrite (its_spec fx m SA_BITS (Dk (S d')) Q6 L6 (G6 d') t _ R).
      assert (H : forall M, (forall e, In e M -> In e (sa_entries t)) ->
        fold_right (fun (e : N * N * trie d') acc =>
                      do a <- acc; let '(q, f, n) := e in
                      do r <- iter_first fx m d' n; let '(vs, c) := r in
                      Some ((key_of_idx f :: vs, (Some (q, f, n), c)) :: a)) (Some [])
                   (map (fun e => (posof SA_BITS (sa_levels t) (fst e) / 2 ^ SA_BITS, fst e, snd e)) M)
        = Some (map (gstart (S d') t) (map (gS d') M))).
      { induction M as [|[i n] M IH]; intros Hsub; [reflexivity|]. cbn [map fold_right fst snd].
        rewrite IH by (intros e' He'; apply Hsub; right; exact He').
        assert (Hin : In (i, n) (sa_entries t)) by (apply Hsub; left; reflexivity).
        rewrite Forall_forall in HF. destruct (HF _ Hin) as [Hokn Hnen]. cbn [snd] in *.
        destruct (content d' n) as [|y ys] eqn:Ec; [congruence|].
        rewrite (first_canon d' n y ys Hokn Ec). unfold gstart at 2. cbn [map hd].
        rewrite (canon_S_eq d' t i n y Hok Hin). reflexivity. }
      apply H. auto.
  Qed.

  Lemma hd_app_ne {A} (dflt : A) l1 l2 : l1 <> [] -> hd dflt (l1 ++ l2) = hd dflt l1.
  Proof. destruct l1; [congruence|reflexivity]. Qed.

  (** cutting at canonical cores reproduces the merge of the groups *)
  Lemma chunks_loop_spec d (t : trie d) (Hok : trie_ok d t) step fuel :
    (length (content d t) <= fuel)%nat ->
    forall gs c pre cur, content d t = pre ++ cur ++ concat gs -> cur <> [] -> Forall (fun g => g <> []) gs ->
    chunks_loop fx m d t fuel (hd [] cur) (canon d t (hd [] cur)) (cut_points step c (map (gstart d t) gs))
      = Some (merge_cut step c gs cur).
  Proof.
    intros Hfuel. induction gs as [|g r IH]; intros c pre cur Hc Hcur Hgs.
    - cbn [map cut_points chunks_loop merge_cut]. cbn [concat] in Hc.
      rewrite (range_block d t Hok (core_end d) [] (core_eqb_end d) cur pre fuel Hc Hcur); [reflexivity|].
      rewrite Hc, !app_length in Hfuel. lia.
    - inversion Hgs as [|? ? Hg Hr]; subst. cbn [map cut_points merge_cut concat] in *.
      destruct ((c mod step =? 0) && negb (c =? 1)).
      + unfold gstart at 1. cbn [chunks_loop].
        assert (Hpost : exists y post', g ++ concat r = y :: post' /\ hd [] g = y).
        { destruct g as [|y g']; [congruence|]. exists y, (g' ++ concat r). split; reflexivity. }
        destruct Hpost as (y & post' & Epost & Ey).
        rewrite (range_block d t Hok (canon d t (hd [] g)) (y :: post') ltac:(rewrite Ey; reflexivity) cur pre fuel);
          [| rewrite <- Epost; exact Hc | exact Hcur | rewrite Hc, !app_length in Hfuel; lia].
        rewrite (IH (c + 1) (pre ++ cur) g); [reflexivity| |exact Hg|exact Hr].
        rewrite Hc, <- app_assoc. reflexivity.
      + rewrite <- (hd_app_ne [] cur g Hcur).
        apply (IH (c + 1) pre (cur ++ g)); [|destruct cur; [congruence|discriminate]|exact Hr].
        rewrite Hc, <- !app_assoc. reflexivity.
  Qed.

  Lemma groups_cons_same t u g gs r : groups_by_hd r = (u :: g) :: gs -> hd 0%Z t = hd 0%Z u ->
    groups_by_hd (t :: r) = (t :: u :: g) :: gs.
  Proof. intros E H. cbn [groups_by_hd]. rewrite E, H, Z.eqb_refl. reflexivity. Qed.

  (** a run of tuples with the same first component, followed by a different one, is one group *)
  Lemma groups_app_group k (g : list (list Z)) rest : g <> [] -> Forall (fun x => hd 0%Z x = k) g ->
    match rest with [] => True | y :: _ => hd 0%Z y <> k end ->
    Forall (fun x => x <> []) (groups_by_hd rest) ->
    groups_by_hd (g ++ rest) = g :: groups_by_hd rest.
  Proof.
    intros Hne Hk Hrest Hwf. induction g as [|x g IH]; [congruence|]. clear Hne.
    inversion Hk as [|? ? Hx Hk']; subst. destruct g as [|x' g'].
    - cbn [app]. cbn [groups_by_hd]. destruct rest as [|y rest']; [reflexivity|].
      destruct (groups_by_hd (y :: rest')) as [|[|u gu] gs] eqn:Eg.
      + reflexivity.
      + inversion Hwf as [|? ? Hbad _]; congruence.
      + assert (Hu : u = y).
        { cbn [groups_by_hd] in Eg. destruct (groups_by_hd rest') as [|[|u' g''] gs'']; try (injection Eg as <- _ _; reflexivity).
          destruct (Z.eqb (hd 0%Z y) (hd 0%Z u')); injection Eg as <- _ _; reflexivity. }
        subst u. replace (Z.eqb (hd 0%Z x) (hd 0%Z y)) with false; [reflexivity|].
        symmetry. apply Z.eqb_neq. intro E. apply Hrest. rewrite <- E. reflexivity.
    - specialize (IH ltac:(discriminate) Hk'). cbn [app] in IH |- *.
      inversion Hk' as [|? ? Hx' _]; subst. apply groups_cons_same; [exact IH|]. congruence.
  Qed.

  Lemma groups_nonempty s : Forall (fun x => x <> []) (groups_by_hd s).
  Proof.
    induction s as [|t r IH]; cbn [groups_by_hd]; [constructor|].
    destruct (groups_by_hd r) as [|[|u g] gs].
    - repeat constructor; discriminate.
    - repeat constructor; discriminate.
    - inversion IH as [|? ? _ IH']; subst. destruct (Z.eqb (hd 0%Z t) (hd 0%Z u)).
      + constructor; [discriminate|assumption].
      + constructor; [discriminate|]. constructor; [discriminate|assumption].
  Qed.

  Lemma key_of_idx_inj i j : Q6 i -> Q6 j -> key_of_idx i = key_of_idx j -> i = j.
  Proof. intros Hi Hj E. rewrite <- (idx_of_key_of_idx i Hi), <- (idx_of_key_of_idx j Hj), E. reflexivity. Qed.

  Lemma groups_flat d' (M : list (N * trie d')) : ksorted M -> (forall i, In i (keys M) -> Q6 i) ->
    Forall (fun e => content d' (snd e) <> []) M ->
    groups_by_hd (flat_map (gS d') M) = map (gS d') M.
  Proof.
    unfold ksorted. induction M as [|[i n] M IH]; intros HS HQ HF; [reflexivity|].
    inversion HS as [|? ? HS' HFk]; subst. inversion HF as [|? ? Hne HF']; subst. cbn [fst snd] in *.
    cbn [flat_map map fst snd].
    rewrite <- (IH HS') by (try exact HF'; intros j Hj; apply HQ; right; exact Hj).
    apply (groups_app_group (key_of_idx i)).
    - destruct (content d' n); [congruence|discriminate].
    - apply Forall_forall. intros x Hx. apply in_map_iff in Hx. destruct Hx as (r & <- & _). reflexivity.
    - destruct M as [|[j n'] M']; [exact I|]. cbn [flat_map fst snd].
      inversion HF' as [|? ? Hne' _]; subst. cbn [snd] in Hne'.
      destruct (content d' n') as [|y ys]; [congruence|]. cbn [map app hd]. intro E.
      apply key_of_idx_inj in E; [|apply HQ; right; left; reflexivity|apply HQ; left; reflexivity].
      rewrite Forall_forall in HFk. specialize (HFk j ltac:(left; reflexivity)). lia.
    - apply groups_nonempty.
  Qed.

  (** the groups of the set model are the top-level elements of the trie *)
  Lemma groups_content d (t : trie d) : trie_ok d t -> groups_by_hd (content d t) = tgroups d t.
  Proof.
    intros Hok. destruct d as [|d'].
    - pose proof Hok as [R Hwf]. cbn [tgroups content].
      pose proof (bits_of_sorted _ (rep_sorted _ _ _ _ _ R) Hwf) as HS.
      assert (HQ : forall i, In i (bits_of (sa_entries t)) -> Q6 i).
      { intros i Hi. unfold bits_of in Hi. apply in_flat_map in Hi. destruct Hi as ([w x] & Hin & Hp).
        cbn [fst snd] in Hp. apply in_map_iff in Hp. destruct Hp as (p & <- & Hp). apply Q4_Q6.
        - apply HD4Q, (rep_dom _ _ _ _ _ R w). apply (in_map fst) in Hin. exact Hin.
        - unfold wf_words in Hwf. rewrite Forall_forall in Hwf. destruct (Hwf _ Hin) as [_ Hx]. apply (bits_list_lt64 x p Hx Hp). }
      induction (bits_of (sa_entries t)) as [|i l IH]; [reflexivity|]. inversion HS as [|? ? HS' HF]; subst.
      cbn [map]. change ([key_of_idx i] :: map f0 l) with ([[key_of_idx i]] ++ map f0 l).
      rewrite <- (IH HS') by (intros j Hj; apply HQ; right; exact Hj).
      apply (groups_app_group (key_of_idx i)); [discriminate|repeat constructor| |apply groups_nonempty].
      destruct l as [|j l']; [exact I|]. cbn [map hd]. intro E.
      apply key_of_idx_inj in E; [|apply HQ; right; left; reflexivity|apply HQ; left; reflexivity].
      rewrite Forall_forall in HF. specialize (HF j ltac:(left; reflexivity)). lia.
    - pose proof (ok_entries_Q6 d' t Hok) as HQ. pose proof Hok as [R HF]. cbn [tgroups content].
      apply groups_flat; [apply (rep_sorted _ _ _ _ _ R)|exact HQ|].
      eapply Forall_impl; [|exact HF]. intros e [_ He]. exact He.
  Qed.

  (** [partition(n)] returns the chunks of the set model *)
  Theorem partition_spec d (t : trie d) n : trie_ok d t -> n <> 0 -> content d t <> [] ->
    trie_partition fx m d t n = Some (set_partition (content d t) n).
  Proof.
    intros Hok Hn Hne. unfold trie_partition, set_partition.
    pose proof (ok_empty_iff d t Hok) as He.
    destruct (trie_is_empty d t) eqn:Eemp; [exfalso; apply Hne, He; reflexivity|].
    replace (n =? 0) with false by lia.
    rewrite (top_starts_spec d t Hok Hne), (groups_content d t Hok). rewrite map_length.
    pose proof (tgroups_concat d t) as Hcat. pose proof (tgroups_nonempty d t Hok) as Hgne.
    destruct (tgroups d t) as [|g gs] eqn:Eg; [cbn in Hcat; congruence|].
    inversion Hgne as [|? ? Hg Hgs]; subst.
    unfold trie_begin. rewrite Eemp.
    destruct g as [|x0 g']; [congruence|].
    assert (Ec : content d t = x0 :: (g' ++ concat gs)) by (rewrite <- Hcat; reflexivity).
    rewrite (first_canon d t x0 _ Hok Ec).
    cbn [map cut_points]. change (1 mod _ =? 0) with (1 mod N.max (N.of_nat (length ((x0 :: g') :: gs)) / n) 1 =? 0).
    replace ((1 mod N.max (N.of_nat (length ((x0 :: g') :: gs)) / n) 1 =? 0) && negb (1 =? 1)) with false
      by (rewrite N.eqb_refl; cbn [negb]; rewrite andb_false_r; reflexivity).
    change (1 + 1) with 2.
    assert (Hfuel : (length (content d t) <= 2 * trie_weight d t + 2)%nat) by (rewrite (weight_spec d t Hok); lia).
    apply (chunks_loop_spec d t Hok _ _ Hfuel gs 2 [] (x0 :: g')); [|discriminate|exact Hgs].
    rewrite <- Hcat. reflexivity.
  Qed.

  (** *** histories *)
  Definition op_ok (d : nat) (o : op) : Prop :=
    match o with
    | OIns tup => tup_ok d tup
    | OMem q => tup32 d q
    | OSize | OIter | OPart _ => True
    | OPrefix p => (length p <= S d)%nat /\ Forall key32 p
    end.

  Lemma insert_content d (t t' : trie d) tup r : trie_ok d t -> tup_ok d tup ->
    trie_insert fx m d t tup = Some (t', r) ->
    r = negb (set_mem tup (content d t)) /\ trie_ok d t' /\ content d t' = set_insert tup (content d t).
  Proof.
    intros Hok Htup E. destruct (insert_spec d t tup Hok Htup) as (t'' & E' & Hok' & _ & Hmem).
    rewrite E in E'. injection E' as <- ->. split; [reflexivity|]. split; [exact Hok'|].
    pose proof (content_wf d t) as Hwf. pose proof (content_wf d t') as Hwf'. rewrite Forall_forall in Hwf, Hwf'.
    apply (SS_unique (fun a c => tuple_ltb a c = true)).
    - intros x Hx. rewrite tuple_ltb_irrefl in Hx. discriminate.
    - intros x y H1 H2. apply tuple_ltb_asym in H1. congruence.
    - apply content_sorted, Hok'.
    - apply (set_insert_sorted d); [apply tup_ok_q, Htup|apply content_wf|apply content_sorted, Hok].
    - intro x. rewrite set_insert_In. split.
      + intros Hx. pose proof (Hmem x (Hwf' x Hx)) as Hm.
        rewrite (proj2 (set_mem_In x _) Hx) in Hm. symmetry in Hm. apply orb_true_iff in Hm.
        destruct Hm as [Hm|Hm]; [left; apply tuple_eqb_eq, Hm|right; apply set_mem_In, Hm].
      + intros Hx. assert (Hq : tup32 d x) by (destruct Hx as [->|Hx]; [apply tup_ok_q, Htup|apply Hwf, Hx]).
        apply set_mem_In. rewrite (Hmem x Hq). apply orb_true_iff.
        destruct Hx as [->|Hx]; [left; apply tuple_eqb_eq; reflexivity|right; apply set_mem_In, Hx].
  Qed.

  (** every history of admissible inserts, membership tests, size, iteration, prefix and partition
      requests gets the answers of the set model *)
  Theorem run_refines d : forall h (t : trie d), trie_ok d t -> Forall (op_ok d) h ->
    run_model fx m d t h = run_spec (content d t) h.
  Proof.
    induction h as [|o h IH]; intros t Hok Hh; [reflexivity|].
    inversion Hh as [|? ? Ho Hh']; subst. destruct o as [tup|q| | |p|n]; cbn [run_model run_spec op_ok] in *.
    - destruct (insert_spec d t tup Hok Ho) as (t' & E & _). rewrite E.
      destruct (insert_content d t t' tup _ Hok Ho E) as (_ & Hok' & Ec).
      rewrite (IH t' Hok' Hh'), Ec. reflexivity.
    - rewrite (contains_spec d t q Hok Ho), (IH t Hok Hh'). reflexivity.
    - rewrite (size_spec d t Hok), (IH t Hok Hh'). reflexivity.
    - rewrite (iter_trie_spec d t Hok), (IH t Hok Hh'). reflexivity.
    - destruct Ho as [Hl Hp]. rewrite (prefix_spec d t p Hok Hl Hp), (IH t Hok Hh'). reflexivity.
    - rewrite (IH t Hok Hh'). f_equal. pose proof (ok_empty_iff d t Hok) as He.
      destruct (content d t) as [|x rest] eqn:Ec.
      + unfold trie_partition. rewrite (proj2 He eq_refl). reflexivity.
      + destruct (N.eqb_spec n 0) as [->|Hn].
        * unfold trie_partition. destruct (trie_is_empty d t); [pose proof (proj1 He eq_refl); discriminate|reflexivity].
        * rewrite (partition_spec d t n Hok Hn) by (rewrite Ec; discriminate). rewrite Ec. reflexivity.
  Qed.
End TrieRefine.

(** ** Part J: the two instantiations *)
Definition ops32 (d : nat) (o : op) : Prop :=
  match o with
  | OIns tup => tup32 d tup
  | OMem q => tup32 d q
  | OSize | OIter | OPart _ => True
  | OPrefix p => (length p <= S d)%nat /\ Forall key32 p
  end.

(** *** the repaired header: no hypothesis on the keys *)
Lemma tup32_ok_fixed d : forall tup, tup32 d tup -> tup_ok (fun _ => Q6) d tup.
Proof.
  induction d as [|d' IH]; intros tup H.
  - destruct tup as [|k [|? ?]]; try (cbn in H; contradiction). cbn in *. split; [exact H|apply idx_of_key_Q6, H].
  - destruct tup as [|k r]; [cbn in H; contradiction|]. destruct H as [Hk Hr]. cbn [tup_ok].
    split; [exact Hk|]. split; [apply idx_of_key_Q6, Hk|apply IH, Hr].
Qed.

Theorem fixed_refines_set m d h : Forall (ops32 d) h ->
  run_model true m d (trie_empty d) h = run_spec [] h.
Proof.
  intros Hh.
  pose proof (trie_ok_empty true m (fun _ => Q6) Q4 10 14 (fun _ => sa_good_fixed6 m) (sa_good_fixed4 m) d) as [Hok Hc].
  rewrite <- Hc.
  apply (run_refines true m (fun _ => Q6) Q4 10 14 (fun _ => sa_good_fixed6 m) (sa_good_fixed4 m)
           Q6_Q4 (fun _ i H => H) (fun w H => H) d h (trie_empty d) Hok).
  eapply Forall_impl; [|exact Hh]. intros o Ho. destruct o; cbn in *; auto. apply tup32_ok_fixed, Ho.
Qed.

(** *** the unchanged header: every column holds keys of one sign *)
Definition sign_ok (neg : bool) (k : Z) : Prop := if neg then (k < 0)%Z else (0 <= k)%Z.
(** [sg dd] = sign (true: negative) of the column that is followed by [dd] further columns *)
Fixpoint tup_signs (sg : nat -> bool) (d : nat) (tup : list Z) : Prop :=
  match d, tup with
  | O, [k] => key32 k /\ sign_ok (sg 0%nat) k
  | S d', k :: r => key32 k /\ sign_ok (sg (S d')) k /\ tup_signs sg d' r
  | _, _ => False
  end.
Definition ops_signs (sg : nat -> bool) (d : nat) (o : op) : Prop :=
  match o with
  | OIns tup => tup_signs sg d tup
  | OMem q => tup32 d q
  | OSize | OIter | OPart _ => True
  | OPrefix p => (length p <= S d)%nat /\ Forall key32 p
  end.

Lemma sign_D6s neg k : key32 k -> sign_ok neg k -> D6s neg (idx_of_key k).
Proof.
  intros Hk Hs. rewrite idx_of_key_eq by exact Hk. unfold key32, sign_ok, D6s in *.
  destruct neg; destruct (Z.ltb_spec k 0); lia.
Qed.

Lemma D6s_D4s neg i : D6s neg i -> D4s neg (i / 64).
Proof.
  unfold D6s, D4s. destruct neg.
  - intros [H1 H2]. split; [apply N.div_le_lower_bound; lia|apply N.div_lt_upper_bound; lia].
  - intros H. apply N.div_lt_upper_bound; lia.
Qed.

Lemma tup_signs_ok sg d : forall tup, tup_signs sg d tup -> tup_ok (fun dd => D6s (sg dd)) d tup.
Proof.
  induction d as [|d' IH]; intros tup H.
  - destruct tup as [|k [|? ?]]; try (cbn in H; contradiction). destruct H as [Hk Hs]. cbn [tup_ok].
    split; [exact Hk|apply sign_D6s; assumption].
  - destruct tup as [|k r]; [cbn in H; contradiction|]. destruct H as (Hk & Hs & Hr). cbn [tup_ok].
    split; [exact Hk|]. split; [apply sign_D6s; assumption|apply IH, Hr].
Qed.

Theorem asis_refines_set m sg d h : Forall (ops_signs sg d) h ->
  run_model false m d (trie_empty d) h = run_spec [] h.
Proof.
  intros Hh.
  pose proof (trie_ok_empty false m (fun dd => D6s (sg dd)) (D4s (sg 0%nat)) 5 6
                (fun dd => sa_good_asis6 m (sg (S dd))) (sa_good_asis4 m (sg 0%nat)) d) as [Hok Hc].
  rewrite <- Hc.
  apply (run_refines false m (fun dd => D6s (sg dd)) (D4s (sg 0%nat)) 5 6
           (fun dd => sa_good_asis6 m (sg (S dd))) (sa_good_asis4 m (sg 0%nat))
           (fun i H => D6s_D4s _ i H) (fun dd i H => D6s_Q6 _ i H) (fun w H => D4s_Q4 _ w H) d h (trie_empty d) Hok).
  eapply Forall_impl; [|exact Hh]. intros o Ho. destruct o; cbn in *; auto. apply tup_signs_ok, Ho.
Qed.

(** ** Part K: digits *)
Fixpoint recomp (b : N) (f : N -> N) (L : nat) : N :=
  match L with
  | O => f 0
  | S l => f (N.of_nat L) * 2 ^ (b * N.of_nat L) + recomp b f l
  end.

Lemma recomp_posof b i L : recomp b (digit b i) L = posof b L i.
Proof.
  induction L as [|l IH]; cbn [recomp].
  - rewrite posof_0. unfold digit. rewrite N.mul_0_r. cbn. rewrite N.div_1_r. reflexivity.
  - rewrite IH, posof_succ. replace (N.of_nat (S l)) with (N.of_nat l + 1) by lia. reflexivity.
Qed.

(** for shift counts below 64, [getIndex] yields the base-2^b digits, and the digits up to the root
    level together with the part above the root ([i & getLevelMask(L+1)]) give the index back *)
Theorem digits_roundtrip b i L : 0 < b -> i < 2 ^ 64 -> b * N.of_nat L < 64 ->
  (forall l, (l <= L)%nat -> getIndex b i (N.of_nat l) = Some (digit b i (N.of_nat l))) /\
  hi b (N.of_nat L + 1) i + recomp b (digit b i) L = i.
Proof.
  intros Hb Hi HL. split.
  - intros l Hl. unfold getIndex. replace (N.of_nat l * b <? 64) with true by nia.
    rewrite getIndex_at_digit by (try exact Hi; nia). unfold digit. replace (N.of_nat l * b) with (b * N.of_nat l) by lia. reflexivity.
  - rewrite recomp_posof. symmetry. apply posof_split.
Qed.

(** two indices under the same root with the same digits on every level are equal *)
Theorem digits_inj b i j L : 0 < b -> i < 2 ^ 64 -> j < 2 ^ 64 -> b * N.of_nat L < 64 ->
  (forall l, (l <= L)%nat -> getIndex b i (N.of_nat l) = getIndex b j (N.of_nat l)) ->
  hi b (N.of_nat L + 1) i = hi b (N.of_nat L + 1) j -> i = j.
Proof.
  intros Hb Hi Hj HL Hd Hh.
  destruct (digits_roundtrip b i L Hb Hi HL) as [Di Ri]. destruct (digits_roundtrip b j L Hb Hj HL) as [Dj Rj].
  rewrite <- Ri, <- Rj, Hh. f_equal.
  assert (E : forall l, (l <= L)%nat -> digit b i (N.of_nat l) = digit b j (N.of_nat l)).
  { intros l Hl. specialize (Hd l Hl). rewrite (Di l Hl), (Dj l Hl) in Hd. injection Hd as Hd. exact Hd. }
  clear - E. induction L as [|l IH]; cbn [recomp].
  - apply (E 0%nat). lia.
  - rewrite (E (S l)) by lia. rewrite IH; [reflexivity|]. intros l' Hl'. apply E. lia.
Qed.

(** ** Part L: the defect of the unchanged header *)
Local Open Scope Z_scope.

(** Trie<1>: insert -1, insert 5; then contains(-1) is false. No shift of 64 or more is involved:
    the model with undefined shifts gives the same answers. *)
Theorem trie_mixed_sign_refuted :
  run_model false X86 0 (trie_empty 0) [OIns [-1]; OIns [5]; OMem [-1]; OMem [5]; OIter]
    = [ABool true; ABool true; ABool false; ABool true; ATuples [[5]; [-1]]] /\
  run_model false UBexplicit 0 (trie_empty 0) [OIns [-1]; OIns [5]; OMem [-1]]
    = [ABool true; ABool true; ABool false] /\
  run_spec [] [OIns [-1]; OIns [5]; OMem [-1]; OMem [5]; OIter]
    = [ABool true; ABool true; ABool true; ABool true; ATuples [[5]; [-1]]].
Proof. vm_compute. repeat split. Qed.

(** so the statement of [asis_refines_set] is false without the hypothesis on the signs *)
Theorem asis_refines_set_refuted :
  exists d h, Forall (ops32 d) h /\ run_model false X86 d (trie_empty d) h <> run_spec [] h.
Proof.
  exists 0%nat, [OIns [-1]; OIns [5]; OMem [-1]]. split.
  - repeat constructor; cbn; unfold key32; lia.
  - vm_compute. discriminate.
Qed.

(** the other order works (by the arithmetic of the narrowing, see the report) *)
Example trie_mixed_sign_other_order :
  run_model false X86 0 (trie_empty 0) [OIns [5]; OIns [-1]; OMem [-1]; OMem [5]; OIter]
    = [ABool true; ABool true; ABool true; ABool true; ATuples [[5]; [-1]]].
Proof. vm_compute. reflexivity. Qed.

(** after the defect has struck: a second insert of the lost tuple is "new" again, and iteration
    stops behind the misplaced subtree (-2 is stored but not listed) *)
Example trie_mixed_sign_aftermath :
  run_model false X86 0 (trie_empty 0) [OIns [-1]; OIns [5]; OIns [-2]; OIns [-1]; OIter; OSize; OMem [-2]]
    = [ABool true; ABool true; ABool true; ABool true; ATuples [[5]; [-1]]; ANum 2; ABool true].
Proof. vm_compute. reflexivity. Qed.

(** Trie<2>: the first column is a SparseArray with 6 bits per level; with keys of both signs its
    root is raised to level 10, and stepping an iterator past the root evaluates
    [getIndex(.., 11)], a shift by 66: undefined behaviour, in either insertion order. On x86 the
    value is not used and the answer comes out right when the non-negative key came first. *)
Theorem trie2_mixed_sign_shift_undefined :
  run_model false UBexplicit 1 (trie_empty 1) [OIns [5; 1]; OIns [-1; 2]; OMem [-1; 2]; OIter; OSize]
    = [ABool true; ABool true; ABool true; AUndef; AUndef] /\
  run_model false X86 1 (trie_empty 1) [OIns [5; 1]; OIns [-1; 2]; OMem [-1; 2]; OIter; OSize]
    = [ABool true; ABool true; ABool true; ATuples [[5; 1]; [-1; 2]]; ANum 2] /\
  run_model false X86 1 (trie_empty 1) [OIns [-1; 1]; OIns [5; 2]; OMem [-1; 1]; OIter; OPrefix [-1]]
    = [ABool true; ABool true; ABool false; ATuples [[5; 2]; [-1; 1]]; ATuples []].
Proof. vm_compute. repeat split. Qed.

(** the repaired header on the same histories *)
Example fixed_mixed_sign :
  run_model true UBexplicit 0 (trie_empty 0) [OIns [-1]; OIns [5]; OIns [-2]; OIns [-1]; OMem [-1]; OIter; OSize]
    = [ABool true; ABool true; ABool true; ABool false; ABool true; ATuples [[5]; [-2]; [-1]]; ANum 3] /\
  run_model true UBexplicit 1 (trie_empty 1) [OIns [-1; 1]; OIns [5; 2]; OMem [-1; 1]; OIter; OPrefix [-1]; OSize]
    = [ABool true; ABool true; ABool true; ATuples [[5; 2]; [-1; 1]]; ATuples [[-1; 1]]; ANum 2].
Proof. vm_compute. repeat split. Qed.

(** ** Part M: the exact condition under which the unchanged header goes wrong (bounded check)
    For one SparseArray/SparseBitMap the analysis (see the end of this file) says: the structure is
    damaged exactly when the first key inserted is negative and a later one is non-negative. Checked
    exhaustively here for Trie<1>: all insertion sequences of length <= 3 over five keys, each
    followed by a membership test for every key, a full iteration and size(): the x86 model of the
    unchanged header agrees with the set model iff the sequence is not of that shape. *)
Definition ans_eqb (a c : ans) : bool :=
  match a, c with
  | ABool x, ABool y => Bool.eqb x y
  | ANum x, ANum y => N.eqb x y
  | ATuples x, ATuples y =>
      (fix go (x y : list (list Z)) : bool :=
         match x, y with
         | [], [] => true
         | u :: x', v :: y' => tuple_eqb u v && go x' y'
         | _, _ => false end) x y
  | AUndef, AUndef => true
  | _, _ => false
  end.
Fixpoint anss_eqb (a c : list ans) : bool :=
  match a, c with
  | [], [] => true
  | x :: a', y :: c' => ans_eqb x y && anss_eqb a' c'
  | _, _ => false
  end.
Fixpoint lists_upto (keys : list Z) (n : nat) : list (list Z) :=
  match n with
  | O => [[]]
  | S n' => [] :: flat_map (fun k => map (cons k) (lists_upto keys n')) keys
  end.
(** first key negative and some later key non-negative *)
Definition bad_order (ks : list Z) : bool :=
  match ks with
  | k :: r => (k <? 0) && existsb (fun x => 0 <=? x) r
  | [] => false
  end.
Definition exact_check (keys : list Z) (n : nat) : bool :=
  let qs := map (fun k => OMem [k]) keys ++ [OIter; OSize] in
  forallb (fun ks => let h := map (fun k => OIns [k]) ks ++ qs in
                     Bool.eqb (anss_eqb (run_model false X86 0 (trie_empty 0) h) (run_spec [] h))
                              (negb (bad_order ks)))
          (lists_upto keys n).

Theorem asis_defect_condition_bounded :
  exact_check [-2147483648; -1; 0; 5; 2147483647] 3 = true.
Proof. vm_cast_no_check (eq_refl true). Qed.

(** ** Examples: concrete instances of the hypotheses of the theorems above *)
Example ex_ops32 :
  Forall (ops32 1) [OIns [-1; 7]; OIns [5; -2147483648]; OMem [5; 3]; OPrefix [-1]; OPrefix [5; 3];
                    OPart 2; OIter; OSize].
Proof. repeat constructor; cbn; unfold key32; try lia. Qed.

Example ex_fixed_run :
  run_model true UBexplicit 1 (trie_empty 1)
    [OIns [-1; 7]; OIns [5; -2147483648]; OIns [-1; 7]; OIns [-1; 0]; OMem [5; 3]; OPrefix [-1]; OPart 2; OIter; OSize]
  = [ABool true; ABool true; ABool false; ABool true; ABool false;
     ATuples [[-1; 0]; [-1; 7]]; AChunks [[[5; -2147483648]]; [[-1; 0]; [-1; 7]]];
     ATuples [[5; -2147483648]; [-1; 0]; [-1; 7]]; ANum 3].
Proof. vm_compute. reflexivity. Qed.

(** first column negative, second column non-negative ([sg 1 = true], [sg 0 = false]) *)
Example ex_ops_signs :
  Forall (ops_signs (fun dd => Nat.eqb dd 1) 1)
         [OIns [-1; 7]; OIns [-2147483648; 0]; OMem [5; -3]; OPrefix [-1]; OPart 1; OIter].
Proof. repeat constructor; cbn; unfold key32, sign_ok; try lia. Qed.

Example ex_asis_run :
  run_model false UBexplicit 1 (trie_empty 1)
    [OIns [-1; 7]; OIns [-2147483648; 0]; OMem [5; -3]; OMem [-1; 7]; OPrefix [-1]; OPart 1; OIter]
  = [ABool true; ABool true; ABool false; ABool true; ATuples [[-1; 7]];
     AChunks [[[-2147483648; 0]]; [[-1; 7]]]; ATuples [[-2147483648; 0]; [-1; 7]]].
Proof. vm_compute. reflexivity. Qed.

Example ex_digits : (* 6 bits per level, 3 levels: digits 1, 2, 3 above a leaf cell 4 *)
  let i := (((1 * 64 + 2) * 64 + 3) * 64 + 4)%N in
  getIndex 6 i 3 = Some 1%N /\ getIndex 6 i 2 = Some 2%N /\ getIndex 6 i 1 = Some 3%N /\
  getIndex 6 i 0 = Some 4%N /\ getIndex 6 i 11 = None /\ getIndex_x86 6 i 11 = getIndex_at 6 i 2.
Proof. vm_compute. repeat split. Qed.

(** the index arithmetic on the two keys of the defect: -1 is index 2^64-1; covering it together with
    index 5 raises the root of a 6-bit array to level 10, where [getLevelMask(11)] is 0 *)
Example ex_index_minus_one :
  idx_of_key (-1) = (2 ^ 64 - 1)%N /\ idx_of_key 5 = 5%N /\ key_of_idx (2 ^ 64 - 1) = -1 /\
  cast32 (2 ^ 64 - 2 ^ 36) = 0%N /\ getLevelMaskM UBexplicit 6 11 = Some 0%N /\
  getLevelMaskM UBexplicit 6 10 = Some (2 ^ 64 - 2 ^ 60)%N.
Proof. vm_compute. repeat split. Qed.

(** ** Part N: statements for Properties_C27.v *)
Theorem sa_update_get : forall (V : Type) fx m b D Q Lmax, sa_good fx m b D Q Lmax ->
  forall (s : sa V) M i v, sa_rep b D Lmax s M -> D i ->
  exists s', sa_update fx m b s i v = Some s' /\ sa_rep b D Lmax s' (cells_put i v M) /\
             sa_get fx m b s' i = Some (Some v) /\
             forall j, Q j -> j <> i -> sa_get fx m b s' j = sa_get fx m b s j.
Proof.
  intros V fx m b D Q Lmax G s M i v R Di.
  destruct (rep_update fx m b D Q Lmax G s M i v R Di) as (s' & E & R').
  exists s'. split; [exact E|]. split; [exact R'|]. split.
  - rewrite (rep_get fx m b D Q Lmax G s' _ i R' Di), cells_get_put_same. reflexivity.
  - intros j Qj Hj. rewrite (rep_get_any fx m b D Q Lmax G s' _ j R' Qj), (rep_get_any fx m b D Q Lmax G s M j R Qj).
    rewrite cells_get_put_other by exact Hj. reflexivity.
Qed.

Theorem sa_iter_order : forall (V : Type) fx m b D Q Lmax, sa_good fx m b D Q Lmax ->
  forall (s : sa V) M, sa_rep b D Lmax s M ->
  sa_iter fx m b s = Some M /\ StronglySorted N.lt (map fst M).
Proof.
  intros V fx m b D Q Lmax G s M R. split; [exact (iter_spec fx m b D Q Lmax G s M R)|exact (rep_sorted _ _ _ _ _ R)].
Qed.

Theorem sa_good_fixed : forall m, sa_good true m 6 Q6 Q6 10 /\ sa_good true m 4 Q4 Q4 14.
Proof. intro m. split; [apply sa_good_fixed6|apply sa_good_fixed4]. Qed.

Theorem sa_good_asis_same_sign : forall m neg,
  sa_good false m 6 (D6s neg) Q6 5 /\ sa_good false m 4 (D4s neg) Q4 6.
Proof. intros m neg. split; [apply sa_good_asis6|apply sa_good_asis4]. Qed.

(** the chunks of the set model's partition cover the set exactly once, in order *)
Lemma groups_concat s : concat (groups_by_hd s) = s.
Proof.
  induction s as [|t r IH]; [reflexivity|]. cbn [groups_by_hd].
  destruct (groups_by_hd r) as [|[|u g] gs] eqn:E.
  - cbn in IH. subst r. reflexivity.
  - pose proof (groups_nonempty r) as Hn. rewrite E in Hn. inversion Hn; congruence.
  - destruct (Z.eqb (hd 0 t) (hd 0 u)); cbn [concat app] in *; rewrite <- IH; reflexivity.
Qed.

Lemma merge_cut_concat step gs : forall c cur, concat (merge_cut step c gs cur) = cur ++ concat gs.
Proof.
  induction gs as [|g r IH]; intros c cur; cbn [merge_cut concat].
  - reflexivity.
  - destruct ((c mod step =? 0)%N && negb (c =? 1)%N); cbn [concat]; rewrite IH; [reflexivity|].
    rewrite app_assoc. reflexivity.
Qed.

Theorem partition_covers s n : concat (set_partition s n) = s.
Proof.
  unfold set_partition. pose proof (groups_concat s) as H. destruct (groups_by_hd s) as [|g gs]; [exact H|].
  rewrite merge_cut_concat. exact H.
Qed.

Definition tuple_lt (a c : list Z) : Prop := tuple_ltb a c = true.

(** the set model after a sequence of inserts: sorted, and exactly the union *)
Lemma spec_inserts_iter d tups : Forall (tup32 d) tups -> forall s, Forall (tup32 d) s -> StronglySorted tuple_lt s ->
  exists l, last (run_spec s (map OIns tups ++ [OIter])) AUndef = ATuples l /\ StronglySorted tuple_lt l /\
            forall t, In t l <-> In t s \/ In t tups.
Proof.
  induction tups as [|t tups IH]; intros Ht s Hs HS.
  - exists s. split; [reflexivity|]. split; [exact HS|]. intro x. cbn. tauto.
  - inversion Ht as [|? ? Ht0 Ht']; subst. cbn [map app run_spec].
    destruct (IH Ht' (set_insert t s)) as (l & El & Hl & Hin).
    + apply Forall_forall. intros x Hx. apply set_insert_In in Hx. destruct Hx as [->|Hx]; [exact Ht0|].
      rewrite Forall_forall in Hs. apply Hs, Hx.
    + apply (set_insert_sorted d); assumption.
    + exists l. split; [|split; [exact Hl|]].
      * destruct (run_spec (set_insert t s) (map OIns tups ++ [OIter])) eqn:E; [|exact El].
        destruct tups; discriminate.
      * intro x. rewrite Hin, set_insert_In. cbn [In]. intuition.
Qed.

(** repaired header: after any sequence of inserts the iteration is strictly ascending and lists
    exactly the tuples inserted *)
Theorem fixed_union_sorted m d tups : Forall (tup32 d) tups ->
  exists l, last (run_model true m d (trie_empty d) (map OIns tups ++ [OIter])) AUndef = ATuples l /\
            StronglySorted tuple_lt l /\ forall t, In t l <-> In t tups.
Proof.
  intros Ht. rewrite (fixed_refines_set m d (map OIns tups ++ [OIter])).
  - destruct (spec_inserts_iter d tups Ht [] ltac:(constructor) ltac:(constructor)) as (l & El & Hl & Hin).
    exists l. split; [exact El|]. split; [exact Hl|]. intro t. rewrite Hin. cbn. tauto.
  - apply Forall_app. split; [|repeat constructor]. apply Forall_forall. intros o Ho.
    apply in_map_iff in Ho. destruct Ho as (t & <- & Hin). rewrite Forall_forall in Ht. apply Ht, Hin.
Qed.

Lemma tup_signs_32 sg d : forall tup, tup_signs sg d tup -> tup32 d tup.
Proof.
  induction d as [|d' IH]; intros [|k [|k' r]]; cbn [tup_signs tup32]; try tauto.
  - intros (H1 & _ & H3). split; [exact H1|apply IH, H3].
  - intros (H1 & _ & H3). split; [exact H1|apply IH, H3].
Qed.

(** unchanged header, one sign per column: the same *)
Theorem asis_union_sorted m sg d tups : Forall (tup_signs sg d) tups ->
  exists l, last (run_model false m d (trie_empty d) (map OIns tups ++ [OIter])) AUndef = ATuples l /\
            StronglySorted tuple_lt l /\ forall t, In t l <-> In t tups.
Proof.
  intros Ht. rewrite (asis_refines_set m sg d (map OIns tups ++ [OIter])).
  - assert (Ht32 : Forall (tup32 d) tups) by (eapply Forall_impl; [|exact Ht]; apply tup_signs_32).
    destruct (spec_inserts_iter d tups Ht32 [] ltac:(constructor) ltac:(constructor)) as (l & El & Hl & Hin).
    exists l. split; [exact El|]. split; [exact Hl|]. intro t. rewrite Hin. cbn. tauto.
  - apply Forall_app. split; [|repeat constructor]. apply Forall_forall. intros o Ho.
    apply in_map_iff in Ho. destruct Ho as (t & <- & Hin). rewrite Forall_forall in Ht. apply Ht, Hin.
Qed.

Example ex_union_sorted_hyp : Forall (tup32 1) [[-1; 7]; [5; -2147483648]; [-1; 7]]%Z.
Proof. repeat constructor; cbn; unfold key32; lia. Qed.

(* The repair (Brie.h, class SparseArray).

   Mechanism of the defect. [getIndex] takes a [brie_element_type] (int32) and every call site
   narrows its 64-bit argument: getIndex(brie_element_type(i), level). Narrowing an *index* is
   harmless (indices are sign extended int32 keys: [cast32_id]), but [raiseLevel] passes the root
   *offset*, i.e. an index with its low bits cleared ([offset &= getLevelMask(levels+1)]). As soon as
   bit 31 is among the cleared bits (6 bits/level: from level 6 on; bitmap store with 4 bits/level:
   from level 8 on) the narrowed offset of a negative key is 0, the digit computed for the old root
   is 0 instead of 63 (resp. 15), and the old root is hung under cell 0 of the new root. Lookups
   navigate with the digits of the (sign extended) index itself, 63/15 on those levels, and miss.
   Raising beyond level 5 happens exactly when keys of both signs meet in one array; if the array's
   offset is already 0 (non-negative key first) all computed digits are 0 = correct, hence the
   dependence on the order. [sa_good_asis6]/[sa_good_asis4] are the proof that nothing goes wrong
   below those levels, [trie_mixed_sign_refuted] the witness above.
   The shift by 66 that UBSan reports (getIndex, level 11) is a second, independent problem of
   arrays with both signs: it occurs when an iterator steps past a level-10 root
   ([trie2_mixed_sign_shift_undefined]); its result is not used.

   Patch (10 lines): make [getIndex] take the index type and guard the shift, and drop the eight
   narrowing casts at its call sites:
     -    static index_type getIndex(brie_element_type a, unsigned level) {
     +    static index_type getIndex(index_type a, unsigned level) {
     +        if (level * BIT_PER_STEP >= sizeof(index_type) * 8) return 0;
              return (a & (INDEX_MASK << (level * BIT_PER_STEP))) >> (level * BIT_PER_STEP);
     and  getIndex(brie_element_type(X), level)  ->  getIndex(X, level)
     in SparseArrayIter::operator++ (2x), getLeaf, lookup, addAll, lowerBound, raiseLevel (2x).
   Modelled by [fx = true]; [fixed_refines_set] is the refinement theorem without any hypothesis
   on the keys. The order of iteration is unchanged (index order = unsigned order of the keys). *)

(* NOT PROVED:
   - Concurrency. C27 speaks of concurrent insertion histories; the model and all theorems are
     sequential (one operation after the other, fresh op_context each). The lock-free protocol
     (CAS on cells, optimistic root/first-node versions) is not modelled.
   - op_context hints ([lastNode]/[lastNested]/[lastBoundaries] shortcuts) are not modelled.
   - lower_bound / upper_bound, insertAll/addAll, clear, copy are not modelled. (lowerBound of a
     SparseArray<.,6> wraps around at index 2^64-1: Trie<2> {(-100,1),(-10,1)}.lower_bound((-5,0))
     returns an iterator showing (3996,1) on the real header, patched or not; not reachable from
     synthesised code, which uses getBoundaries only.)
   - The unchanged header with keys of both signs in the non-negative-first order (which behaves
     correctly on x86, [trie_mixed_sign_other_order]) is outside [asis_refines_set]; only the
     bounded statement [asis_defect_condition_bounded] covers it.
   - Arities above 4 are covered by the theorems (any d) but not by the validation runs. *)
