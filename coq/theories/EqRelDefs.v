(** Executable sequential model of Souffle's equivalence relation
    (src/include/souffle/datastructure/EquivalenceRelation.h, class EquivalenceRelation, on top of
     SparseDisjointSet / DisjointSet in UnionFind.h and PiggyList.h), over elements [Z]
    (RamDomain, 32-bit signed in the real code), and the specification side (equivalence closure
    of the inserted pairs).  Definitions only: the proofs are in EqRelLemmas.v.

    Shape of the state (mirrors the members of the C++ classes):
    - [d2s]    SparseDisjointSet::denseToSparseMap: the sparse value of dense index i is the i-th
               entry.  Dense indices are handed out by DisjointSet::makeNode in order of first
               appearance (toDense), so sparseToDenseMap is the same association keyed the other
               way round; it is derived ([to_dense], and [s2d_keys] for its sorted iteration).
    - [fmem]   DisjointSet::a_blocks: one block (parent, rank) per dense index
               (the memory of UnionFindDefs.v, read sequentially).
    - [e_cache], [e_stale]  equivalencePartition (a B-tree set of (representative, PiggyList),
               ordered by representative) and statesMapStale.
    Sequential reading: every compare_exchange_strong is executed with the value just loaded;
    retry branches are kept (with fuel) and proved unreachable in EqRelLemmas.v.
    C++ leaves the evaluation order of the two toDense calls in
    [ds.unionNodes(toDense(x), toDense(y))] unspecified; g++ on x86-64 evaluates toDense(y)
    first, and that is what is modelled (it only influences dense numbering, hence iteration
    order, never the set of pairs). *)
From Coq Require Import List ZArith Bool Arith PeanoNat.
From SV Require Import UnionFindDefs.
Import ListNotations.

(** * DisjointSet, sequential reading (UnionFind.h) *)

(** DisjointSet::findNode: path halving.  [fuel] bounds the while loop. *)
Fixpoint find_node (fuel : nat) (m : mem) (x : nat) : mem * nat :=
  match fuel with
  | O => (m, x)
  | S f =>
      let xState := rd m x in                       (* while (x != b2p(get(x))) { xState = get(x) *)
      if fst xState =? x then (m, x)
      else
        let newParent := parent m (fst xState) in   (* b2p(get(b2p(xState))) *)
        let m' := fst (cas m x xState (newParent, snd xState)) in
        find_node f m' newParent                    (* x = newParent *)
  end.

Definition find_fuel (m : mem) : nat := S (length m).
Definition ds_find (m : mem) (x : nat) : mem * nat := find_node (find_fuel m) m x.

(** DisjointSet::updateRoot *)
Definition update_root (m : mem) (x oldrank y newrank : nat) : mem * bool :=
  let oldState := rd m x in
  if negb ((fst oldState =? x) && (snd oldState =? oldrank)) then (m, false)
  else cas m x oldState (y, newrank).

(** DisjointSet::sameSet; the loop repeats only if x stopped being a root meanwhile. *)
Fixpoint same_set (fuel : nat) (m : mem) (x y : nat) : mem * bool :=
  match fuel with
  | O => (m, false)
  | S f =>
      let (m1, x1) := ds_find m x in
      let (m2, y1) := ds_find m1 y in
      if x1 =? y1 then (m2, true)
      else if parent m2 x1 =? x1 then (m2, false)
      else same_set f m2 x1 y1
  end.

(** DisjointSet::unionNodes, as repaired: it links with updateRoot(x, xrank, y, xrank).
    [continue] (updateRoot failed) is the recursive call. *)
Fixpoint union_nodes (fuel : nat) (m : mem) (x y : nat) : mem :=
  match fuel with
  | O => m
  | S f =>
      let (m1, x1) := ds_find m x in
      let (m2, y1) := ds_find m1 y in
      if x1 =? y1 then m2
      else
        let xrank := rank m2 x1 in
        let yrank := rank m2 y1 in
        (* if (xrank > yrank || ((xrank == yrank) && x > y)) swap *)
        let sw := (yrank <? xrank) || ((xrank =? yrank) && (y1 <? x1)) in
        let x2 := if sw then y1 else x1 in
        let y2 := if sw then x1 else y1 in
        let xrank2 := if sw then yrank else xrank in
        let yrank2 := if sw then xrank else yrank in
        let (m3, ok) := update_root m2 x2 xrank2 y2 xrank2 in
        if ok then
          if xrank2 =? yrank2 then fst (update_root m3 y2 yrank2 y2 (rank_succ yrank2))
          else m3
        else union_nodes f m3 x2 y2
  end.

Definition loop_fuel : nat := 2.

(** * SparseDisjointSet (UnionFind.h) *)
Record sds := mkSds { d2s : list Z; fmem : mem }.

Definition sds_empty : sds := mkSds [] [].

Fixpoint index_of (x : Z) (l : list Z) : option nat :=
  match l with
  | [] => None
  | y :: r => if Z.eqb x y then Some O
              else match index_of x r with Some i => Some (S i) | None => None end
  end.

(** nodeExists *)
Definition node_exists (s : sds) (x : Z) : bool :=
  match index_of x (d2s s) with Some _ => true | None => false end.

(** toDense: look up, or makeNode (parent = itself, rank 0) and record the sparse value *)
Definition to_dense (s : sds) (x : Z) : sds * nat :=
  match index_of x (d2s s) with
  | Some i => (s, i)
  | None => let c2 := length (fmem s) in
            (mkSds (d2s s ++ [x]) (fmem s ++ [(c2, 0)]), c2)
  end.

(** toSparse *)
Definition to_sparse (s : sds) (i : nat) : Z := nth i (d2s s) 0%Z.

(** SparseDisjointSet::findNode = toSparse(ds.findNode(toDense(x))) *)
Definition sds_find (s : sds) (x : Z) : sds * Z :=
  let (s1, i) := to_dense s x in
  let (m, r) := ds_find (fmem s1) i in
  let s2 := mkSds (d2s s1) m in
  (s2, to_sparse s2 r).

(** SparseDisjointSet::sameSet = ds.sameSet(toDense(x), toDense(y)); toDense(y) runs first *)
Definition sds_same_set (s : sds) (x y : Z) : sds * bool :=
  let (s1, j) := to_dense s y in
  let (s2, i) := to_dense s1 x in
  let (m, b) := same_set loop_fuel (fmem s2) i j in
  (mkSds (d2s s2) m, b).

(** SparseDisjointSet::unionNodes = ds.unionNodes(toDense(x), toDense(y)); toDense(y) runs first *)
Definition sds_union (s : sds) (x y : Z) : sds :=
  let (s1, j) := to_dense s y in
  let (s2, i) := to_dense s1 x in
  mkSds (d2s s2) (union_nodes loop_fuel (fmem s2) i j).

(** SparseDisjointSet::contains *)
Definition sds_contains (s : sds) (x y : Z) : sds * bool :=
  if node_exists s x && node_exists s y then sds_same_set s x y else (s, false).

(** Keys of sparseToDenseMap in iteration order (a B-tree ordered by sparse value). *)
Fixpoint insert_sorted (x : Z) (l : list Z) : list Z :=
  match l with
  | [] => [x]
  | y :: r => if Z.leb x y then x :: l else y :: insert_sorted x r
  end.
Definition sort_z (l : list Z) : list Z := fold_right insert_sorted [] l.
Definition s2d_keys (s : sds) : list Z := sort_z (d2s s).

(** * EquivalenceRelation (EquivalenceRelation.h) *)
Definition cache := list (Z * list Z).     (* (representative, members in dense order), by key *)
Record eqrel := mkEq { e_sds : sds; e_cache : cache; e_stale : bool }.

(** constructor: statesMapStale(false), everything empty *)
Definition eq_empty : eqrel := mkEq sds_empty [] false.

(** equivalencePartition.insert(p, create) followed by mapList->append(sparseVal) *)
Fixpoint cache_add (rep v : Z) (c : cache) : cache :=
  match c with
  | [] => [(rep, [v])]
  | (k, l) :: r =>
      if Z.ltb rep k then (rep, [v]) :: c
      else if Z.eqb rep k then (k, l ++ [v]) :: r
      else (k, l) :: cache_add rep v r
  end.

(** equivalencePartition.find({rep, nullptr}) *)
Fixpoint cache_find (rep : Z) (c : cache) : option (list Z) :=
  match c with
  | [] => None
  | (k, l) :: r => if Z.eqb rep k then Some l else cache_find rep r
  end.

(** the loop of genAllDisjointSetLists over dense indices *)
Fixpoint gen_loop (is : list nat) (s : sds) (c : cache) : sds * cache :=
  match is with
  | [] => (s, c)
  | i :: r =>
      let sparseVal := to_sparse s i in
      let (s1, rep) := sds_find s sparseVal in
      gen_loop r s1 (cache_add rep sparseVal c)
  end.

(** genAllDisjointSetLists (the lock is irrelevant sequentially) *)
Definition gen (st : eqrel) : eqrel :=
  if negb (e_stale st) then st
  else
    let (s', c) := gen_loop (seq 0 (length (fmem (e_sds st)))) (e_sds st) [] in
    mkEq s' c false.

(** contains(x, y): sds.contains; may halve paths (sds is mutable) *)
Definition contains (st : eqrel) (x y : Z) : eqrel * bool :=
  let (s, b) := sds_contains (e_sds st) x y in
  (mkEq s (e_cache st) (e_stale st), b).

(** insert(x, y): stale flag first, then !contains(x,y), then unionNodes *)
Definition insert (st : eqrel) (x y : Z) : eqrel * bool :=
  let (s1, c) := sds_contains (e_sds st) x y in
  (mkEq (sds_union s1 x y) (e_cache st) true, negb c).

(** the pairs (rep, pl->get(i)) visited by insertAll, in order *)
Definition cache_pairs (c : cache) : list (Z * Z) :=
  flat_map (fun kl => map (pair (fst kl)) (snd kl)) c.

Definition union_all (s : sds) (ps : list (Z * Z)) : sds :=
  fold_left (fun s p => sds_union s (fst p) (snd p)) ps s.

(** this.insertAll(other): returns (this, other) -- other's cache is regenerated *)
Definition insert_all (this other : eqrel) : eqrel * eqrel :=
  let other1 := gen other in
  let s := union_all (e_sds this) (cache_pairs (e_cache other1)) in
  (mkEq s (e_cache this) true, other1).

(** size(): sum of squared class sizes over the regenerated cache *)
Definition size (st : eqrel) : eqrel * N :=
  let st1 := gen st in
  (st1, fold_left (fun acc kl => let s := N.of_nat (length (snd kl)) in (acc + s * s)%N)
                  (e_cache st1) 0%N).

(** begin() .. end(), IterType::ALL: classes in key order; within a class the anterior index is
    the outer loop and the posterior index the inner one. *)
Definition class_pairs (l : list Z) : list (Z * Z) := list_prod l l.
Definition iter_all (st : eqrel) : eqrel * list (Z * Z) :=
  let st1 := gen st in
  (st1, flat_map (fun kl => class_pairs (snd kl)) (e_cache st1)).

(** anteriorIt(x) .. end(), IterType::ANTERIOR.  Unguarded, as the public member function:
    sds.findNode(x) creates x if it is absent (without touching the stale flag) and the lookup
    in the cache then fails -- the C++ asserts; [None] stands for that. *)
Definition anterior_it (st : eqrel) (x : Z) : eqrel * option (list (Z * Z)) :=
  let st1 := gen st in
  let (s2, rep) := sds_find (e_sds st1) x in
  let st2 := mkEq s2 (e_cache st1) (e_stale st1) in
  (st2, match cache_find rep (e_cache st1) with
        | Some l => Some (map (pair x) l)
        | None => None
        end).

(** antpostit(x, y) .. end(), IterType::ANTPOST.  Unguarded: sds.sameSet creates x and y if
    absent, without touching the stale flag. *)
Definition antpost_it (st : eqrel) (x y : Z) : eqrel * option (list (Z * Z)) :=
  let (s1, same) := sds_same_set (e_sds st) x y in
  let st1 := mkEq s1 (e_cache st) (e_stale st) in
  if negb same then (st1, Some [])
  else
    let st2 := gen st1 in
    let (s3, rep) := sds_find (e_sds st2) y in
    let st3 := mkEq s3 (e_cache st2) (e_stale st2) in
    (st3, match cache_find rep (e_cache st2) with
          | Some l => Some (match l with [] => [] | _ => [(x, y)] end)
          | None => None
          end).

(** closure(rep) .. end(), IterType::WITHIN (used by partition) *)
Definition within_it (st : eqrel) (rep : Z) : eqrel * option (list (Z * Z)) :=
  let st1 := gen st in
  let (s2, r) := sds_find (e_sds st1) rep in
  let st2 := mkEq s2 (e_cache st1) (e_stale st1) in
  (st2, match cache_find r (e_cache st1) with
        | Some l => Some (class_pairs l)
        | None => None
        end).

Definition olist_pairs (o : option (list (Z * Z))) : list (Z * Z) :=
  match o with Some l => l | None => [] end.

(** getBoundaries<1>(x, _): all pairs (x, _) *)
Definition iter_anterior (st : eqrel) (x : Z) : eqrel * list (Z * Z) :=
  if negb (node_exists (e_sds st) x) then (st, [])
  else let (st1, o) := anterior_it st x in (st1, olist_pairs o).

(** getBoundaries<2>(x, y): the pair (x, y) if present *)
Definition iter_antpost (st : eqrel) (x y : Z) : eqrel * list (Z * Z) :=
  let (st1, b) := contains st x y in
  if negb b then (st1, [])
  else let (st2, o) := antpost_it st1 x y in (st2, olist_pairs o).

(** lower_bound(entry) .. end(): MIN_RAM_SIGNED is read as "unbound" *)
Definition MIN_RAM_SIGNED : Z := (- 2147483648)%Z.
Definition MAX_RAM_SIGNED : Z := 2147483647%Z.
Definition lower_bound (st : eqrel) (x y : Z) : eqrel * list (Z * Z) :=
  if Z.eqb x MIN_RAM_SIGNED && Z.eqb y MIN_RAM_SIGNED then iter_all st
  else if negb (Z.eqb x MIN_RAM_SIGNED) && Z.eqb y MIN_RAM_SIGNED then iter_anterior st x
  else if negb (Z.eqb x MIN_RAM_SIGNED) && negb (Z.eqb y MIN_RAM_SIGNED) then iter_antpost st x y
  else (st, []).

(** The cached partition itself: the classes, by representative, members in dense order. *)
Definition classes (st : eqrel) : eqrel * list (list Z) :=
  let st1 := gen st in (st1, map snd (e_cache st1)).

(** partition(chunks): the pairs produced by each returned range, in order.
    The states threaded through the calls only differ by path halving. *)
Fixpoint ranges_within (st : eqrel) (c : cache) : eqrel * list (list (Z * Z)) :=
  match c with
  | [] => (st, [])
  | (k, _) :: r =>
      let (st1, o) := within_it st k in
      let (st2, rest) := ranges_within st1 r in
      (st2, olist_pairs o :: rest)
  end.

Fixpoint ranges_anterior (st : eqrel) (l : list Z) : eqrel * list (list (Z * Z)) :=
  match l with
  | [] => (st, [])
  | i :: r =>
      let (st1, o) := anterior_it st i in
      let (st2, rest) := ranges_anterior st1 r in
      (st2, olist_pairs o :: rest)
  end.

Fixpoint ranges_mixed (st : eqrel) (perchunk : N) (c : cache) : eqrel * list (list (Z * Z)) :=
  match c with
  | [] => (st, [])
  | (k, l) :: r =>
      let s := N.of_nat (length l) in
      if N.ltb perchunk (s * s) then
        let (st1, a) := ranges_anterior st l in
        let (st2, rest) := ranges_mixed st1 perchunk r in
        (st2, a ++ rest)
      else
        let (st1, o) := within_it st k in
        let (st2, rest) := ranges_mixed st1 perchunk r in
        (st2, olist_pairs o :: rest)
  end.

Definition partition (st : eqrel) (chunks : N) : eqrel * list (list (Z * Z)) :=
  let st0 := gen st in
  let (st1, numPairs) := size st0 in
  if N.eqb numPairs 0 then (st1, [])
  else if N.eqb numPairs 1 || N.leb chunks 1 then
    let (st2, l) := iter_all st1 in (st2, [l])
  else if N.leb chunks (N.of_nat (length (e_cache st1))) then ranges_within st1 (e_cache st1)
  else ranges_mixed st1 (numPairs / chunks)%N (e_cache st1).

(** this.extendAndInsert(other): returns (this, other) *)
Definition mem_z (x : Z) (l : list Z) : bool := existsb (Z.eqb x) l.

(* first loop: over this->sds.sparseToDenseMap *)
Fixpoint ext_collect (els : list Z) (this other : sds) (covered : list Z) (toInsert : list (Z * Z))
  : sds * sds * list Z * list (Z * Z) :=
  match els with
  | [] => (this, other, covered, toInsert)
  | el :: r =>
      let '(other1, covered1) :=
        if node_exists other el then
          let (o1, rep) := sds_find other el in
          (o1, if mem_z rep covered then covered else rep :: covered)
        else (other, covered) in
      let (this1, rep') := sds_find this el in
      ext_collect r this1 other1 covered1 (toInsert ++ [(el, rep')])
  end.

(* second loop: over other.sds.sparseToDenseMap, this->insert(el, rep) for covered classes *)
Fixpoint ext_extend (els : list Z) (this : eqrel) (other : sds) (covered : list Z) : eqrel * sds :=
  match els with
  | [] => (this, other)
  | el :: r =>
      let (o1, rep) := sds_find other el in
      let this1 := if mem_z rep covered then fst (insert this el rep) else this in
      ext_extend r this1 o1 covered
  end.

(* third loop: other.insert(el, rep) for the saved pairs *)
Definition insert_list (st : eqrel) (ps : list (Z * Z)) : eqrel :=
  fold_left (fun st p => fst (insert st (fst p) (snd p))) ps st.

(* the three loops *)
Definition ext_core (this0 other0 : eqrel) : eqrel * eqrel :=
  let '(ts, os, covered, toInsert) :=
    ext_collect (s2d_keys (e_sds this0)) (e_sds this0) (e_sds other0) [] [] in
  let this1 := mkEq ts (e_cache this0) (e_stale this0) in
  let (this2, os2) := ext_extend (s2d_keys os) this1 os covered in
  let other2 := mkEq os2 (e_cache other0) (e_stale other0) in
  (this2, insert_list other2 toInsert).

Definition extend_and_insert (this other : eqrel) : eqrel * eqrel :=
  (* if (other.size() == 0 && this->size() == 0) return;  -- && short-circuits *)
  let (other0, so) := size other in
  let '(this0, both_empty) :=
    if N.eqb so 0 then let (t0, st) := size this in (t0, N.eqb st 0) else (this, false) in
  if both_empty then (this0, other0) else ext_core this0 other0.

(** * Histories over two relations A and B *)
Inductive rel_id := RA | RB.
Inductive op :=
| OInsert (r : rel_id) (x y : Z)           (* r.insert(x, y) *)
| OInsertAll (r : rel_id)                  (* r.insertAll(the other one) *)
| OExtend (r : rel_id)                     (* r.extendAndInsert(the other one) *)
| OContains (r : rel_id) (x y : Z)
| OSize (r : rel_id)
| OAll (r : rel_id)
| OAnterior (r : rel_id) (x : Z)
| OAntpost (r : rel_id) (x y : Z)
| OClasses (r : rel_id)
| OPartition (r : rel_id) (chunks : N)
| OLowerBound (r : rel_id) (x y : Z).

Inductive answer :=
| ABool (b : bool) | ASize (n : N) | APairs (l : list (Z * Z))
| AClasses (l : list (list Z)) | AChunks (l : list (list (Z * Z))).

Definition get (ab : eqrel * eqrel) (r : rel_id) : eqrel :=
  match r with RA => fst ab | RB => snd ab end.
Definition set (ab : eqrel * eqrel) (r : rel_id) (st : eqrel) : eqrel * eqrel :=
  match r with RA => (st, snd ab) | RB => (fst ab, st) end.
Definition other_id (r : rel_id) : rel_id := match r with RA => RB | RB => RA end.
Definition set2 (ab : eqrel * eqrel) (r : rel_id) (p : eqrel * eqrel) : eqrel * eqrel :=
  match r with RA => p | RB => (snd p, fst p) end.

Definition exec (ab : eqrel * eqrel) (o : op) : (eqrel * eqrel) * list answer :=
  match o with
  | OInsert r x y => (set ab r (fst (insert (get ab r) x y)), [])
  | OInsertAll r => (set2 ab r (insert_all (get ab r) (get ab (other_id r))), [])
  | OExtend r => (set2 ab r (extend_and_insert (get ab r) (get ab (other_id r))), [])
  | OContains r x y => let (st, b) := contains (get ab r) x y in (set ab r st, [ABool b])
  | OSize r => let (st, n) := size (get ab r) in (set ab r st, [ASize n])
  | OAll r => let (st, l) := iter_all (get ab r) in (set ab r st, [APairs l])
  | OAnterior r x => let (st, l) := iter_anterior (get ab r) x in (set ab r st, [APairs l])
  | OAntpost r x y => let (st, l) := iter_antpost (get ab r) x y in (set ab r st, [APairs l])
  | OClasses r => let (st, l) := classes (get ab r) in (set ab r st, [AClasses l])
  | OPartition r k => let (st, l) := partition (get ab r) k in (set ab r st, [AChunks l])
  | OLowerBound r x y => let (st, l) := lower_bound (get ab r) x y in (set ab r st, [APairs l])
  end.

Fixpoint run_from (ab : eqrel * eqrel) (h : list op) : (eqrel * eqrel) * list answer :=
  match h with
  | [] => (ab, [])
  | o :: r => let (ab1, a) := exec ab o in
              let (ab2, b) := run_from ab1 r in (ab2, a ++ b)
  end.
Definition run (h : list op) : (eqrel * eqrel) * list answer := run_from (eq_empty, eq_empty) h.

(** * Specification *)
(** Elements mentioned by a list of pairs *)
Definition dom (ps : list (Z * Z)) : list Z := flat_map (fun p => [fst p; snd p]) ps.

(** Reflexive (on mentioned elements), symmetric, transitive closure of the inserted pairs. *)
Inductive closure (ps : list (Z * Z)) : Z -> Z -> Prop :=
| ecl_refl x : In x (dom ps) -> closure ps x x
| ecl_base x y : In (x, y) ps -> closure ps x y
| ecl_sym x y : closure ps x y -> closure ps y x
| ecl_trans x y z : closure ps x y -> closure ps y z -> closure ps x z.

(** Executable: class labels; processing (a, b) relabels a's class with b's label.
    [label] is the definition; [label_tab] computes it for several elements at once in
    polynomial time ([label] itself recurses three times per pair). *)
Fixpoint label (ps : list (Z * Z)) (x : Z) : Z :=
  match ps with
  | [] => x
  | (a, b) :: r => if Z.eqb (label r x) (label r a) then label r b else label r x
  end.
Fixpoint label_tab (ps : list (Z * Z)) (els : list Z) : list Z :=
  match ps with
  | [] => els
  | (a, b) :: r =>
      match label_tab r (a :: b :: els) with
      | la :: lb :: rest => map (fun l => if Z.eqb l la then lb else l) rest
      | _ => []
      end
  end.
Definition closure_b (ps : list (Z * Z)) (x y : Z) : bool :=
  mem_z x (dom ps) && mem_z y (dom ps) &&
  match label_tab ps [x; y] with [lx; ly] => Z.eqb lx ly | _ => false end.

(** The class of x (elements in order of first mention, without repetition) *)
Fixpoint dedup (l : list Z) : list Z :=
  match l with
  | [] => []
  | x :: r => if mem_z x r then dedup r else x :: dedup r
  end.
Definition elements (ps : list (Z * Z)) : list Z := dedup (dom ps).
Definition class_of (ps : list (Z * Z)) (x : Z) : list Z := filter (closure_b ps x) (elements ps).

(** What the history has inserted into A and B, as lists of pairs.
    r.insertAll(o): every pair of o.   r.extendAndInsert(o): into r, the pairs of o whose class
    (in o) has an element that r mentions; into o, every pair of r (as it was before). *)
Definition touches (pr po : list (Z * Z)) (p : Z * Z) : bool :=
  existsb (fun e => closure_b po (fst p) e) (elements pr).
Definition spec_exec (s : list (Z * Z) * list (Z * Z)) (o : op) : list (Z * Z) * list (Z * Z) :=
  let g r := match r with RA => fst s | RB => snd s end in
  let put r v := match r with RA => (v, snd s) | RB => (fst s, v) end in
  match o with
  | OInsert r x y => put r (g r ++ [(x, y)])
  | OInsertAll r => put r (g r ++ g (other_id r))
  | OExtend r =>
      let pr := g r in let po := g (other_id r) in
      let pr' := pr ++ filter (touches pr po) po in
      let po' := po ++ pr in
      match r with RA => (pr', po') | RB => (po', pr') end
  | _ => s
  end.
Definition spec_pairs (h : list op) : list (Z * Z) * list (Z * Z) := fold_left spec_exec h ([], []).

(** Every element a history feeds to insert is a 32-bit signed integer. *)
Definition in_range (x : Z) : Prop := (MIN_RAM_SIGNED <= x <= MAX_RAM_SIGNED)%Z.
Definition op_in_range (o : op) : Prop :=
  match o with OInsert _ x y => in_range x /\ in_range y | _ => True end.
Definition in_rangeb (x : Z) : bool := Z.leb MIN_RAM_SIGNED x && Z.leb x MAX_RAM_SIGNED.
Definition op_in_rangeb (o : op) : bool :=
  match o with OInsert _ x y => in_rangeb x && in_rangeb y | _ => true end.
