(** C25 -- B-tree sets: for any insertion history, with or without operation hints, the tree
    holds exactly the inserted keys, every distinct key reports success once, iteration is
    strictly ascending, and find / contains / lower_bound / upper_bound / size / chunks agree
    with a sorted-set model.
    Only statements here; proofs are in BTreeLemmas.v. The model (BTreeDefs.v) is tied to
    src/include/souffle/datastructure/BTree.h by a verified validator: `./check C25` dumps the
    REAL node graph after every operation of sequential and scheduled concurrent histories, the
    extracted [wf] must accept it, [elements] must equal the sorted-set model, and the real API
    results must equal what the extracted query walks compute on the dump. The theorems below
    say what acceptance by [wf m] implies, for every tree shape, depth and maxKeys [m].
    Linearizability of the concurrent insert itself is NOT proved (see BTreeLemmas.v, end). *)
From Coq Require Import Sorted.
From SV Require Import BTreeDefs BTreeLemmas.
Local Open Scope Z_scope.

(** (a) Iteration order of a validated tree is strictly ascending, hence duplicate free. *)
Theorem C25_wf_elements_sorted : forall m t,
  wf m t = true -> StronglySorted Z.lt (elements t).
Proof. exact wf_elements_sorted. Qed.
Print Assumptions C25_wf_elements_sorted.

(** begin() followed by operator++ until end() enumerates exactly the in-order key list. *)
Theorem C25_wf_iterate : forall m t, wf m t = true -> iterate t = elements t.
Proof. exact wf_iterate. Qed.
Print Assumptions C25_wf_iterate.

(** operator++ from the position of [k] reaches the least element above [k] (or end()). *)
Theorem C25_wf_next_after : forall m t k,
  wf m t = true -> next_after t k = List.find (fun x => k <? x) (elements t).
Proof. exact wf_next_after. Qed.
Print Assumptions C25_wf_next_after.

(** (b) The descent of find/contains decides membership in the in-order key list. *)
Theorem C25_wf_find_iff : forall m t k,
  wf m t = true -> (contains t k = true <-> In k (elements t)).
Proof. exact wf_find_iff. Qed.
Print Assumptions C25_wf_find_iff.

Theorem C25_wf_find_value : forall m t k,
  wf m t = true -> find t k = if contains t k then Some k else None.
Proof. exact wf_find_value. Qed.
Print Assumptions C25_wf_find_value.

(** (c) lower_bound is the first element >= k of the ascending list, upper_bound the first
    element > k; [None] stands for end(). *)
Theorem C25_wf_lower_bound : forall m t k,
  wf m t = true -> lower_bound t k = List.find (fun x => k <=? x) (elements t).
Proof. exact wf_lower_bound. Qed.
Print Assumptions C25_wf_lower_bound.

Theorem C25_wf_upper_bound : forall m t k,
  wf m t = true -> upper_bound t k = List.find (fun x => k <? x) (elements t).
Proof. exact wf_upper_bound. Qed.
Print Assumptions C25_wf_upper_bound.

(** (d) size() (countEntries) is the number of iterated elements. *)
Theorem C25_wf_size : forall m t, wf m t = true -> size t = length (elements t).
Proof. exact wf_size. Qed.
Print Assumptions C25_wf_size.

(** Operation hints: a descent started at ANY node of the tree that [covers] accepts
    ([coversUpperBound] for upper_bound) returns what the descent from the root returns. *)
Theorem C25_hint_find : forall t h k,
  ordered t = true -> subtree h t -> covers h k = true -> find h k = find t k.
Proof. exact hint_find. Qed.
Print Assumptions C25_hint_find.

Theorem C25_hint_lower_bound : forall t h k,
  ordered t = true -> subtree h t -> covers h k = true -> lower_bound h k = lower_bound t k.
Proof. exact hint_lower_bound. Qed.
Print Assumptions C25_hint_lower_bound.

Theorem C25_hint_upper_bound : forall t h k,
  ordered t = true -> subtree h t -> covers_upper h k = true -> upper_bound h k = upper_bound t k.
Proof. exact hint_upper_bound. Qed.
Print Assumptions C25_hint_upper_bound.

(** (e) The sequential model insert (split at Souffle's 3/4 split point, no rebalancing) refines
    set insertion, reports "new" iff the key was absent, and keeps the validator's invariant. *)
Theorem C25_insert_refines_set : forall m t k, (3 <= m)%nat -> wf m t = true ->
  let (t', fresh) := insert m t k in
  wf m t' = true /\ (forall x, In x (elements t') <-> x = k \/ In x (elements t)) /\
  fresh = negb (contains t k).
Proof. exact insert_refines_set. Qed.
Print Assumptions C25_insert_refines_set.

(** A whole history from the empty tree: the final tree is valid, holds exactly the inserted
    keys, and the reported results are "first occurrence in the history". *)
Theorem C25_insert_history : forall m ks, (3 <= m)%nat ->
  wf m (fst (insert_all m (Leaf []) ks)) = true /\
  (forall x, In x (elements (fst (insert_all m (Leaf []) ks))) <-> In x ks) /\
  snd (insert_all m (Leaf []) ks) = fresh_flags [] ks.
Proof. exact insert_history. Qed.
Print Assumptions C25_insert_history.

(** Each distinct key's insertion reports success exactly once. *)
Theorem C25_insert_success_once : forall m ks x, (3 <= m)%nat -> In x ks ->
  successes x ks (snd (insert_all m (Leaf []) ks)) = 1%nat.
Proof. exact insert_all_once. Qed.
Print Assumptions C25_insert_success_once.

(** What the harness' comparison of two consecutive validated dumps with the set model gives:
    the new dump is determined by its set, and every contains query answers accordingly. *)
Theorem C25_validated_insert_step : forall m t t' k, wf m t = true -> wf m t' = true ->
  (forall x, In x (elements t') <-> x = k \/ In x (elements t)) ->
  elements t' = sinsert k (elements t) /\
  (forall q, contains t' q = (q =? k) || contains t q) /\
  size t' = (if contains t k then size t else S (size t)).
Proof. exact validated_insert_step. Qed.
Print Assumptions C25_validated_insert_step.

(** (f) Chunks (iterator ranges rendered as key lists) that concatenate to the iteration order
    partition the set. *)
Theorem C25_chunks_partition : forall m t (cks : list (list Z)),
  wf m t = true -> concat cks = elements t ->
  (forall x, In x (elements t) <-> exists c, In c cks /\ In x c) /\ NoDup (concat cks).
Proof. exact chunks_partition. Qed.
Print Assumptions C25_chunks_partition.

(** The validator is at least as strong as the implementers' own node::check, and its ordering
    part rejects no tree whose iteration order is strictly ascending. *)
Theorem C25_wf_implies_check : forall m t, wf m t = true -> check m None None t = true.
Proof. exact wf_implies_check. Qed.
Print Assumptions C25_wf_implies_check.

Theorem C25_ordered_iff_sorted : forall t, ordered t = true <-> StronglySorted Z.lt (elements t).
Proof. exact ordered_iff_sorted. Qed.
Print Assumptions C25_ordered_iff_sorted.
