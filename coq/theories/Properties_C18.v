(** C18 -- Fact input accepts exactly the valid, in-range values.
    Only statements here; proofs are in NumParseLemmas.v. The model is tied to
    src/include/souffle/utility/StringUtil.h and io/ReadStreamCSV.h by the unit-level and
    system-level correspondence run by `./check C18`. *)
From SV Require Import NumParseDefs NumParseLemmas.
Local Open Scope Z_scope.

(** A signed column accepts a field iff it is, completely, [ws* (+|-)? digit+] in base 10 and
    its mathematical value fits 32-bit two's complement; the stored value is that value. *)
Theorem C18_signed_accept_iff : forall s v,
  fact_signed s = Some v <-> (literal 10 true s v /\ - 2 ^ 31 <= v < 2 ^ 31).
Proof. exact fact_signed_accept_iff. Qed.
Print Assumptions C18_signed_accept_iff.

(** An unsigned column accepts a field iff it is a complete decimal ([ws* +? digit+]), binary
    ("0b" then [ws* +? bit+]) or hexadecimal ("0x" hexdigit+) literal with value below 2^32;
    in particular never a literal with a minus sign; the stored value is the denoted value. *)
Theorem C18_unsigned_accept_iff : forall s v,
  fact_unsigned s = Some v <-> (unsigned_literal s v /\ 0 <= v < 2 ^ 32).
Proof. exact fact_unsigned_accept_iff. Qed.
Print Assumptions C18_unsigned_accept_iff.

(** The reader as it was before the repairs (F2) violated the statement above. *)
Theorem C18_unsigned_before_fix_refuted :
  exists s v, fact_unsigned_prefix s = Some v /\ ~ (unsigned_literal s v /\ 0 <= v < 2 ^ 32).
Proof. exact fact_unsigned_prefix_refuted. Qed.
Print Assumptions C18_unsigned_before_fix_refuted.

(** Numeric constants in program text: every accepted constant is representable. *)
Theorem C18_const_signed_in_range : forall s v, const_signed s = Some v -> - 2 ^ 31 <= v < 2 ^ 31.
Proof. exact const_signed_in_range. Qed.
Print Assumptions C18_const_signed_in_range.

Theorem C18_const_unsigned_in_range : forall s v, const_unsigned s = Some v -> 0 <= v < 2 ^ 32.
Proof. exact const_unsigned_in_range. Qed.
Print Assumptions C18_const_unsigned_in_range.
