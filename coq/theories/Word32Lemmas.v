(** Proofs about Word32Defs.v: every code-shaped operation of the 32-bit model equals an independent
    specification (modular arithmetic on the unsigned reading, exact integer arithmetic on the signed
    reading where C++ defines it, bit-for-bit agreement for the bitwise operators, masked shifts,
    C's logical operators, byte-wise lexicographic string order, substr / contains / to_string, and the
    [range] generator of DatalogDefs.v), for ALL 32-bit arguments.
    Code modelled: src/interpreter/Engine.cpp (IntrinsicOperator: BINARY_OP_TYPED, BINARY_OP_SHIFT_MASK,
    MINMAX_OP, UNARY_OP, FunctorOp::EXP, COMPARE_NUMERIC), src/synthesiser/Synthesiser.cpp (same C++
    expressions as text), src/include/souffle/utility/EvaluatorUtil.h (lxor, runRange),
    src/include/souffle/RamTypes.h (RAM_BIT_SHIFT_MASK = 31). *)
From Coq Require Import ZArith Lia ZifyBool ZifyNat ZifyN List Bool.
From SV Require Import Bytes NumParseDefs NumParseLemmas Word32Defs DatalogDefs.
Import ListNotations.
Local Open Scope Z_scope.

(** * 1. The 32-bit domain: [in_s], [wrap], [u] *)

Lemma pow2_31 : 2 ^ 31 = 2147483648. Proof. reflexivity. Qed.
Lemma pow2_32 : 2 ^ 32 = 4294967296. Proof. reflexivity. Qed.

Ltac w32 := unfold in_s, chk, wrap, u, MIN_S, MAX_S in *; rewrite ?pow2_31, ?pow2_32 in *.

Lemma in_s_iff a : in_s a = true <-> - 2 ^ 31 <= a < 2 ^ 31.
Proof. w32. lia. Qed.

Lemma in_s_false_iff a : in_s a = false <-> (a < - 2 ^ 31 \/ 2 ^ 31 <= a).
Proof. w32. lia. Qed.

Lemma chk_some_iff z r : chk z = Some r <-> r = z /\ - 2 ^ 31 <= z < 2 ^ 31.
Proof.
  unfold chk. destruct (in_s z) eqn:E.
  - apply in_s_iff in E. split; [intros [= <-]; auto | intros [-> _]; reflexivity].
  - apply in_s_false_iff in E. split; [discriminate | lia].
Qed.

Lemma chk_none_iff z : chk z = None <-> (z < - 2 ^ 31 \/ 2 ^ 31 <= z).
Proof.
  unfold chk. destruct (in_s z) eqn:E.
  - apply in_s_iff in E. split; [discriminate | lia].
  - apply in_s_false_iff in E. tauto.
Qed.

(** [wrap z] is in range and congruent to [z] modulo 2^32 ... *)
Lemma wrap_spec z : in_s (wrap z) = true /\ (wrap z - z) mod 2 ^ 32 = 0.
Proof. w32. split; [lia|]. Z.div_mod_to_equations. lia. Qed.

Lemma wrap_in_s z : in_s (wrap z) = true.
Proof. apply wrap_spec. Qed.

(** ... and it is the only such value *)
Lemma wrap_unique z r : in_s r = true -> (r - z) mod 2 ^ 32 = 0 -> r = wrap z.
Proof. w32. intros. Z.div_mod_to_equations. lia. Qed.

Lemma wrap_id a : in_s a = true -> wrap a = a.
Proof. w32. intros. Z.div_mod_to_equations. lia. Qed.

Lemma wrap_fix_iff a : wrap a = a <-> in_s a = true.
Proof. split; [intros <-; apply wrap_in_s | apply wrap_id]. Qed.

(** [u a] is in [0, 2^32) and congruent to [a] *)
Lemma u_spec a : 0 <= u a < 2 ^ 32 /\ (u a - a) mod 2 ^ 32 = 0.
Proof. w32. split; [lia|]. Z.div_mod_to_equations. lia. Qed.

Lemma u_range a : 0 <= u a < 2 ^ 32.
Proof. apply u_spec. Qed.

Lemma u_unique a r : 0 <= r < 2 ^ 32 -> (r - a) mod 2 ^ 32 = 0 -> r = u a.
Proof. w32. intros. Z.div_mod_to_equations. lia. Qed.

Lemma wrap_u a : in_s a = true -> wrap (u a) = a.
Proof. w32. intros. Z.div_mod_to_equations. lia. Qed.

Lemma u_wrap z : u (wrap z) = z mod 2 ^ 32.
Proof. w32. Z.div_mod_to_equations. lia. Qed.

Lemma u_small z : 0 <= z < 2 ^ 32 -> u (wrap z) = z.
Proof. intros. rewrite u_wrap. apply Z.mod_small. assumption. Qed.

(** the unsigned reading of an in-range value: itself when non-negative, plus 2^32 otherwise *)
Lemma u_cases a : in_s a = true -> u a = if a <? 0 then a + 2 ^ 32 else a.
Proof. w32. intros. destruct (a <? 0) eqn:E; Z.div_mod_to_equations; lia. Qed.

Lemma u_inj a b : in_s a = true -> in_s b = true -> u a = u b -> a = b.
Proof. intros Ha Hb H. rewrite <- (wrap_u a Ha), <- (wrap_u b Hb), H. reflexivity. Qed.

Lemma wrap_wrap z : wrap (wrap z) = wrap z.
Proof. apply wrap_id, wrap_in_s. Qed.

Lemma wrap_congr x y : (x - y) mod 2 ^ 32 = 0 -> wrap x = wrap y.
Proof. w32. intros. Z.div_mod_to_equations. lia. Qed.

Example ex_wrap : wrap 4294967295 = -1 /\ u (-1) = 4294967295 /\ wrap (2 ^ 31) = MIN_S /\ in_s (-5) = true.
Proof. vm_compute. auto. Qed.

(** * 2. Unsigned arithmetic = arithmetic modulo 2^32 on the unsigned readings *)

Lemma uadd_spec a b : u (uadd a b) = (u a + u b) mod 2 ^ 32.
Proof. apply u_wrap. Qed.
Lemma usub_spec a b : u (usub a b) = (u a - u b) mod 2 ^ 32.
Proof. apply u_wrap. Qed.
Lemma umul_spec a b : u (umul a b) = (u a * u b) mod 2 ^ 32.
Proof. apply u_wrap. Qed.

Lemma uadd_in_s a b : in_s (uadd a b) = true. Proof. apply wrap_in_s. Qed.
Lemma usub_in_s a b : in_s (usub a b) = true. Proof. apply wrap_in_s. Qed.
Lemma umul_in_s a b : in_s (umul a b) = true. Proof. apply wrap_in_s. Qed.

(** the unsigned result is also the wrapped result of the operation on the signed readings: one adder *)
Lemma uadd_wrap a b : uadd a b = wrap (a + b).
Proof. unfold uadd. apply wrap_congr. w32. Z.div_mod_to_equations. lia. Qed.
Lemma usub_wrap a b : usub a b = wrap (a - b).
Proof. unfold usub. apply wrap_congr. w32. Z.div_mod_to_equations. lia. Qed.
Lemma umul_wrap a b : umul a b = wrap (a * b).
Proof.
  unfold umul. apply wrap_congr. unfold u.
  rewrite Zminus_mod, <- Zmult_mod, Z.sub_diag. reflexivity.
Qed.

Lemma udiv_spec a b r :
  udiv a b = Some r <-> (u b <> 0 /\ in_s r = true /\ u r = u a / u b).
Proof.
  unfold udiv. pose proof (u_range a) as Ha. pose proof (u_range b) as Hb.
  destruct (u b =? 0) eqn:E.
  - split; [discriminate | lia].
  - assert (Hq : 0 <= u a / u b < 2 ^ 32).
    { split; [apply Z.div_pos; lia|]. apply Z.div_lt_upper_bound; nia. }
    split.
    + intros [= <-]. split; [lia|]. split; [apply wrap_in_s | apply u_small, Hq].
    + intros (_ & Hr & Hu). f_equal. rewrite <- Hu. apply wrap_u, Hr.
Qed.

Lemma umod_spec a b r :
  umod a b = Some r <-> (u b <> 0 /\ in_s r = true /\ u r = u a mod u b).
Proof.
  unfold umod. pose proof (u_range a) as Ha. pose proof (u_range b) as Hb.
  destruct (u b =? 0) eqn:E.
  - split; [discriminate | lia].
  - assert (Hq : 0 <= u a mod u b < 2 ^ 32).
    { pose proof (Z.mod_pos_bound (u a) (u b)). lia. }
    split.
    + intros [= <-]. split; [lia|]. split; [apply wrap_in_s | apply u_small, Hq].
    + intros (_ & Hr & Hu). f_equal. rewrite <- Hu. apply wrap_u, Hr.
Qed.

Lemma udiv_defined_iff a b : udiv a b = None <-> u b = 0.
Proof. unfold udiv. destruct (u b =? 0) eqn:E; split; intros H; try discriminate H; try reflexivity; try (exfalso; lia); lia. Qed.
Lemma umod_defined_iff a b : umod a b = None <-> u b = 0.
Proof. unfold umod. destruct (u b =? 0) eqn:E; split; intros H; try discriminate H; try reflexivity; try (exfalso; lia); lia. Qed.

Lemma u_zero_iff b : in_s b = true -> (u b = 0 <-> b = 0).
Proof. intros H. rewrite (u_cases b H). w32. destruct (b <? 0) eqn:E; lia. Qed.

Example ex_uadd_wraps : uadd (-1) 1 = 0 /\ usub 0 1 = -1 /\ umul (-1) (-1) = 1
                        /\ udiv (-1) 2 = Some 2147483647 /\ umod (-1) 10 = Some 5 /\ udiv 7 0 = None.
Proof. vm_compute. auto 10. Qed.

(** * 3. Signed arithmetic: exact where C++ defines it, [None] exactly at overflow / zero divisor *)

Lemma sadd_spec a b r : sadd a b = Some r <-> (r = a + b /\ - 2 ^ 31 <= a + b < 2 ^ 31).
Proof. apply chk_some_iff. Qed.
Lemma ssub_spec a b r : ssub a b = Some r <-> (r = a - b /\ - 2 ^ 31 <= a - b < 2 ^ 31).
Proof. apply chk_some_iff. Qed.
Lemma smul_spec a b r : smul a b = Some r <-> (r = a * b /\ - 2 ^ 31 <= a * b < 2 ^ 31).
Proof. apply chk_some_iff. Qed.
Lemma sneg_spec a r : sneg a = Some r <-> (r = - a /\ - 2 ^ 31 <= - a < 2 ^ 31).
Proof. apply chk_some_iff. Qed.

(** negation is undefined only for INT_MIN *)
Lemma sneg_none_iff a : in_s a = true -> (sneg a = None <-> a = MIN_S).
Proof. intros H. unfold sneg. rewrite chk_none_iff. w32. lia. Qed.

Lemma quot_bound a b : 2 <= Z.abs b -> Z.abs (Z.quot a b) <= Z.abs a / 2.
Proof.
  intros H. rewrite <- Z.quot_abs by lia. rewrite Z.quot_div_nonneg by lia.
  apply Z.div_le_compat_l; lia.
Qed.

(** division truncates toward zero; undefined exactly for b = 0 and INT_MIN / -1 *)
Lemma sdiv_spec a b r :
  in_s a = true -> in_s b = true ->
  (sdiv a b = Some r <-> (b <> 0 /\ ~ (a = MIN_S /\ b = -1) /\ r = Z.quot a b)).
Proof.
  intros Ha Hb. unfold sdiv. destruct (b =? 0) eqn:E.
  - split; [discriminate | lia].
  - rewrite chk_some_iff.
    assert (Hq : b <> -1 -> - 2 ^ 31 <= Z.quot a b < 2 ^ 31).
    { intros Hb1. apply in_s_iff in Ha. rewrite pow2_31 in *.
      destruct (Z.eq_dec b 1) as [->|Hb2]; [rewrite Z.quot_1_r; lia|].
      pose proof (quot_bound a b ltac:(lia)) as Hq.
      assert (Z.abs a / 2 <= 1073741824) by (apply Z.div_le_upper_bound; lia).
      lia. }
    split.
    + intros [-> Hr]. split; [lia|]. split; [|reflexivity].
      intros [-> ->]. change (Z.quot MIN_S (-1)) with 2147483648 in Hr. rewrite pow2_31 in Hr. lia.
    + intros (_ & Hn & ->). split; [reflexivity|].
      destruct (Z.eq_dec b (-1)) as [->|Hb1]; [|auto].
      change (-1) with (- (1)). rewrite Z.quot_opp_r, Z.quot_1_r by lia.
      apply in_s_iff in Ha. w32. lia.
Qed.

(** remainder has the sign of the dividend ([Z.rem]); a = (a quot b) * b + (a rem b) *)
Lemma smod_spec a b r :
  smod a b = Some r <-> (b <> 0 /\ ~ (a = MIN_S /\ b = -1) /\ r = Z.rem a b).
Proof.
  unfold smod. destruct (b =? 0) eqn:E; [split; [discriminate | lia]|].
  destruct ((a =? MIN_S) && (b =? -1)) eqn:E2.
  - split; [discriminate | lia].
  - split; [intros [= <-] | intros (_ & _ & ->); reflexivity].
    split; [lia|]. split; [lia | reflexivity].
Qed.

Lemma smod_in_s a b r : in_s a = true -> in_s b = true -> smod a b = Some r -> in_s r = true.
Proof.
  intros Ha Hb H. apply smod_spec in H as (Hb0 & _ & ->).
  apply in_s_iff. apply in_s_iff in Ha. apply in_s_iff in Hb. rewrite pow2_31 in *.
  pose proof (Z.rem_bound_abs a b Hb0). lia.
Qed.

Lemma sdiv_smod_identity a b q r :
  sdiv a b = Some q -> smod a b = Some r -> a = q * b + r /\ Z.abs r < Z.abs b /\ 0 <= r * a.
Proof.
  unfold sdiv, smod. destruct (b =? 0) eqn:E; [discriminate|].
  destruct ((a =? MIN_S) && (b =? -1)); [discriminate|].
  intros Hq [= <-]. apply chk_some_iff in Hq as [-> _].
  pose proof (Z.quot_rem a b ltac:(lia)). split; [lia|].
  split; [apply Z.rem_bound_abs; lia|]. apply Z.rem_sign_mul. lia.
Qed.

Lemma sadd_in_s a b r : sadd a b = Some r -> in_s r = true.
Proof. intros H. apply sadd_spec in H as [-> H]. apply in_s_iff, H. Qed.
Lemma ssub_in_s a b r : ssub a b = Some r -> in_s r = true.
Proof. intros H. apply ssub_spec in H as [-> H]. apply in_s_iff, H. Qed.
Lemma smul_in_s a b r : smul a b = Some r -> in_s r = true.
Proof. intros H. apply smul_spec in H as [-> H]. apply in_s_iff, H. Qed.
Lemma sneg_in_s a r : sneg a = Some r -> in_s r = true.
Proof. intros H. apply sneg_spec in H as [-> H]. apply in_s_iff, H. Qed.
Lemma sdiv_in_s a b r : sdiv a b = Some r -> in_s r = true.
Proof.
  unfold sdiv. destruct (b =? 0); [discriminate|]. intros H.
  apply chk_some_iff in H as [-> H]. apply in_s_iff, H.
Qed.

(** signed and unsigned +, -, * produce the same bit pattern whenever the signed one is defined *)
Lemma sadd_uadd a b r : sadd a b = Some r -> uadd a b = r.
Proof. intros H. rewrite uadd_wrap. apply sadd_spec in H as [-> H]. apply wrap_id, in_s_iff, H. Qed.
Lemma ssub_usub a b r : ssub a b = Some r -> usub a b = r.
Proof. intros H. rewrite usub_wrap. apply ssub_spec in H as [-> H]. apply wrap_id, in_s_iff, H. Qed.
Lemma smul_umul a b r : smul a b = Some r -> umul a b = r.
Proof. intros H. rewrite umul_wrap. apply smul_spec in H as [-> H]. apply wrap_id, in_s_iff, H. Qed.
(** ... but division differs *)
Lemma sdiv_udiv_differ_refuted :
  exists a b r, in_s a = true /\ in_s b = true /\ sdiv a b = Some r /\ udiv a b <> Some r.
Proof. exists (-2), 2, (-1). vm_compute. repeat split; discriminate. Qed.

Example ex_signed : sadd 2147483647 1 = None /\ sadd 2147483647 (-1) = Some 2147483646
  /\ sdiv (-7) 2 = Some (-3) /\ smod (-7) 2 = Some (-1) /\ smod 7 (-2) = Some 1
  /\ sdiv MIN_S (-1) = None /\ smod MIN_S (-1) = None /\ sdiv 1 0 = None /\ sneg MIN_S = None.
Proof. vm_compute. auto 12. Qed.

(** * 4. Bitwise operators: bit-for-bit on the 32 bits of the pattern *)

(** an in-range integer is sign-extended from bit 31: all bits from 31 up are equal ... *)
Lemma testbit_high a i : in_s a = true -> 31 <= i -> Z.testbit a i = (a <? 0).
Proof.
  intros Ha Hi. apply in_s_iff in Ha.
  rewrite Z.testbit_odd, Z.shiftr_div_pow2 by lia.
  assert (Hp : 2 ^ 31 <= 2 ^ i) by (apply Z.pow_le_mono_r; lia).
  destruct (a <? 0) eqn:E.
  - replace (a / 2 ^ i) with (-1); [reflexivity|].
    apply Z.div_unique with (r := a + 2 ^ i); lia.
  - rewrite Z.div_small by lia. reflexivity.
Qed.

Lemma in_s_bits a i : in_s a = true -> 31 <= i -> Z.testbit a i = Z.testbit a 31.
Proof. intros Ha Hi. rewrite (testbit_high a i), (testbit_high a 31) by (auto; lia). reflexivity. Qed.

(** ... and conversely *)
Lemma bits_in_s_nonneg a :
  0 <= a -> (forall i, 31 <= i -> Z.testbit a i = Z.testbit a 31) -> a < 2 ^ 31.
Proof.
  intros H0 H. destruct (Z_lt_le_dec a (2 ^ 31)) as [|Hge]; [assumption|exfalso].
  assert (Hpos : 0 < a) by (rewrite pow2_31 in Hge; lia).
  assert (Hl : 31 <= Z.log2 a) by (apply Z.log2_le_pow2; assumption).
  pose proof (Z.bit_log2 a Hpos) as H1.
  pose proof (Z.bits_above_log2 a (Z.log2 a + 1) H0 ltac:(lia)) as H2.
  rewrite H in H1 by lia. rewrite H in H2 by lia. congruence.
Qed.

Lemma bits_in_s a : (forall i, 31 <= i -> Z.testbit a i = Z.testbit a 31) -> in_s a = true.
Proof.
  intros H. apply in_s_iff. destruct (Z_lt_le_dec a 0) as [Hneg|Hpos].
  - assert (Z.lnot a < 2 ^ 31).
    { apply bits_in_s_nonneg; [unfold Z.lnot; lia|].
      intros i Hi. rewrite !Z.lnot_spec by lia. f_equal. apply H, Hi. }
    unfold Z.lnot in *. rewrite pow2_31 in *. lia.
  - pose proof (bits_in_s_nonneg a Hpos H). rewrite pow2_31 in *. lia.
Qed.

Lemma band_in_s a b : in_s a = true -> in_s b = true -> in_s (band a b) = true.
Proof.
  intros Ha Hb. apply bits_in_s. intros i Hi. unfold band.
  rewrite !Z.land_spec, (in_s_bits a i), (in_s_bits b i) by auto. reflexivity.
Qed.
Lemma bor_in_s a b : in_s a = true -> in_s b = true -> in_s (bor a b) = true.
Proof.
  intros Ha Hb. apply bits_in_s. intros i Hi. unfold bor.
  rewrite !Z.lor_spec, (in_s_bits a i), (in_s_bits b i) by auto. reflexivity.
Qed.
Lemma bxor_in_s a b : in_s a = true -> in_s b = true -> in_s (bxor a b) = true.
Proof.
  intros Ha Hb. apply bits_in_s. intros i Hi. unfold bxor.
  rewrite !Z.lxor_spec, (in_s_bits a i), (in_s_bits b i) by auto. reflexivity.
Qed.
Lemma bnot_eq a : bnot a = - a - 1.
Proof. unfold bnot, Z.lnot. lia. Qed.
Lemma bnot_in_s a : in_s a = true -> in_s (bnot a) = true.
Proof. rewrite bnot_eq. w32. lia. Qed.

(** bit [i] (0 <= i < 32) of the unsigned reading is bit [i] of the representative *)
Lemma u_testbit a i : Z.testbit (u a) i = (i <? 32) && Z.testbit a i.
Proof.
  unfold u. destruct (Z_lt_le_dec i 0) as [Hn|Hi].
  - rewrite !Z.testbit_neg_r by assumption. destruct (i <? 32); reflexivity.
  - destruct (i <? 32) eqn:E.
    + rewrite Z.mod_pow2_bits_low by lia. reflexivity.
    + rewrite Z.mod_pow2_bits_high by lia. reflexivity.
Qed.

(** the model's operator on representatives = the operator on the 32-bit unsigned words *)
Lemma band_spec a b : u (band a b) = Z.land (u a) (u b).
Proof.
  apply Z.bits_inj'. intros i _. unfold band.
  rewrite Z.land_spec, !u_testbit, Z.land_spec. destruct (i <? 32); reflexivity.
Qed.
Lemma bor_spec a b : u (bor a b) = Z.lor (u a) (u b).
Proof.
  apply Z.bits_inj'. intros i _. unfold bor.
  rewrite Z.lor_spec, !u_testbit, Z.lor_spec. destruct (i <? 32); reflexivity.
Qed.
Lemma bxor_spec a b : u (bxor a b) = Z.lxor (u a) (u b).
Proof.
  apply Z.bits_inj'. intros i _. unfold bxor.
  rewrite Z.lxor_spec, !u_testbit, Z.lxor_spec. destruct (i <? 32); reflexivity.
Qed.
(** ~ flips all 32 bits: 2^32 - 1 - x on the unsigned reading *)
Lemma bnot_spec a : u (bnot a) = 2 ^ 32 - 1 - u a.
Proof. rewrite bnot_eq. w32. Z.div_mod_to_equations. lia. Qed.

(** bit-for-bit statements, bits 0..31 *)
Lemma band_bits a b i : 0 <= i < 32 ->
  Z.testbit (u (band a b)) i = Z.testbit (u a) i && Z.testbit (u b) i.
Proof. intros _. rewrite band_spec. apply Z.land_spec. Qed.
Lemma bor_bits a b i : 0 <= i < 32 ->
  Z.testbit (u (bor a b)) i = Z.testbit (u a) i || Z.testbit (u b) i.
Proof. intros _. rewrite bor_spec. apply Z.lor_spec. Qed.
Lemma bxor_bits a b i : 0 <= i < 32 ->
  Z.testbit (u (bxor a b)) i = xorb (Z.testbit (u a) i) (Z.testbit (u b) i).
Proof. intros _. rewrite bxor_spec. apply Z.lxor_spec. Qed.
Lemma bnot_bits a i : 0 <= i < 32 -> Z.testbit (u (bnot a)) i = negb (Z.testbit (u a) i).
Proof.
  intros Hi. rewrite !u_testbit. unfold bnot. rewrite Z.lnot_spec by lia.
  destruct (i <? 32) eqn:E; [reflexivity | lia].
Qed.

Example ex_bitwise : band (-1) 255 = 255 /\ bor MIN_S 1 = -2147483647 /\ bxor (-1) 1 = -2 /\ bnot 0 = -1
  /\ u (bnot 0) = 4294967295.
Proof. vm_compute. auto 8. Qed.

(** * 5. Shifts: the count is masked with 31 *)

Lemma shcount_spec b : shcount b = u b mod 32.
Proof. unfold shcount. change 31 with (Z.ones 5). rewrite Z.land_ones by lia. reflexivity. Qed.

Lemma shcount_range b : 0 <= shcount b < 32.
Proof. rewrite shcount_spec. apply Z.mod_pos_bound. lia. Qed.

(** for an in-range count the mask also equals the count modulo 32 of the *signed* reading (b & 31 on int) *)
Lemma shcount_signed b : shcount b = b mod 32.
Proof.
  rewrite shcount_spec. unfold u. rewrite pow2_32.
  change 4294967296 with (32 * 134217728). rewrite Z.rem_mul_r by lia.
  rewrite Z.mul_comm, Z.mod_add by lia. apply Z.mod_mod. lia.
Qed.

Lemma shl_spec a b : u (shl a b) = (u a * 2 ^ shcount b) mod 2 ^ 32.
Proof. apply u_wrap. Qed.
Lemma shl_in_s a b : in_s (shl a b) = true.
Proof. apply wrap_in_s. Qed.

(** >> on number: arithmetic shift = floor division by 2^count (sign-extending) *)
Lemma shr_s_spec a b : shr_s a b = a / 2 ^ shcount b.
Proof. unfold shr_s. apply Z.shiftr_div_pow2. apply shcount_range. Qed.

Lemma div_pos_in_s a d : in_s a = true -> 0 < d -> in_s (a / d) = true.
Proof.
  intros Ha Hd. apply in_s_iff in Ha. apply in_s_iff. rewrite pow2_31 in *.
  split.
  - apply Z.div_le_lower_bound; nia.
  - apply Z.div_lt_upper_bound; nia.
Qed.

Lemma shr_s_in_s a b : in_s a = true -> in_s (shr_s a b) = true.
Proof.
  intros Ha. rewrite shr_s_spec. apply div_pos_in_s; [assumption|].
  apply Z.pow_pos_nonneg; [lia | apply shcount_range].
Qed.

(** >> on unsigned and >>>: logical shift = floor division of the unsigned reading *)
Lemma shr_u_spec a b : u (shr_u a b) = u a / 2 ^ shcount b.
Proof.
  unfold shr_u. rewrite Z.shiftr_div_pow2 by apply shcount_range.
  apply u_small. pose proof (u_range a) as Ha. pose proof (shcount_range b) as Hb.
  assert (0 < 2 ^ shcount b) by (apply Z.pow_pos_nonneg; lia).
  split; [apply Z.div_pos; lia|]. apply Z.div_lt_upper_bound; nia.
Qed.
Lemma shr_u_in_s a b : in_s (shr_u a b) = true.
Proof. apply wrap_in_s. Qed.

(** a count >= 32 behaves as the count modulo 32 (not as "shift everything out") *)
Lemma shift_count_mod a b b' : u b mod 32 = u b' mod 32 ->
  shl a b = shl a b' /\ shr_s a b = shr_s a b' /\ shr_u a b = shr_u a b'.
Proof.
  intros H. unfold shl, shr_s, shr_u. rewrite !shcount_spec, H. auto.
Qed.
Example ex_shift_33 : shl 1 33 = 2 /\ shl 1 32 = 1 /\ shr_s (-8) 33 = -4 /\ shr_u (-8) 33 = 2147483644
  /\ shr_s (-8) 1 = -4 /\ shl 1 31 = MIN_S /\ shl 3 31 = MIN_S /\ shr_s (-1) 31 = -1 /\ shr_u (-1) 31 = 1
  /\ shl 1 (-31) = 2.
Proof. vm_compute. auto 12. Qed.
Example ex_shift_count_mod : u 33 mod 32 = u 1 mod 32.
Proof. reflexivity. Qed.

(** * 6. Logical operators: C's &&, ||, !, and EvaluatorUtil.h lxor *)

Definition truthy (x : Z) : bool := negb (x =? 0).

Lemma b2z_01 b : b2z b = 0 \/ b2z b = 1.
Proof. destruct b; auto. Qed.
Lemma b2z_in_s b : in_s (b2z b) = true.
Proof. destruct b; reflexivity. Qed.
Lemma b2z_truthy b : truthy (b2z b) = b.
Proof. destruct b; reflexivity. Qed.

Lemma land_spec a b : land a b = 1 <-> (a <> 0 /\ b <> 0).
Proof. unfold land. destruct (a =? 0) eqn:Ea, (b =? 0) eqn:Eb; simpl; lia. Qed.
Lemma lor_spec a b : lor a b = 1 <-> (a <> 0 \/ b <> 0).
Proof. unfold lor. destruct (a =? 0) eqn:Ea, (b =? 0) eqn:Eb; simpl; lia. Qed.
Lemma lnot_spec a : lnot a = 1 <-> a = 0.
Proof. unfold lnot. destruct (a =? 0) eqn:Ea; simpl; lia. Qed.
(** lxor(x, y) = (x || y) && (!x != !y)  -- EvaluatorUtil.h *)
Lemma lxor_spec a b :
  lxor a b = b2z ((truthy a || truthy b) && negb (Bool.eqb (negb (truthy a)) (negb (truthy b)))).
Proof. unfold lxor, truthy. destruct (a =? 0), (b =? 0); reflexivity. Qed.
Lemma lxor_one_iff a b : lxor a b = 1 <-> ((a <> 0 /\ b = 0) \/ (a = 0 /\ b <> 0)).
Proof. unfold lxor. destruct (a =? 0) eqn:Ea, (b =? 0) eqn:Eb; simpl; lia. Qed.

Lemma logical_01 a b :
  (land a b = 0 \/ land a b = 1) /\ (lor a b = 0 \/ lor a b = 1) /\
  (lxor a b = 0 \/ lxor a b = 1) /\ (lnot a = 0 \/ lnot a = 1).
Proof. unfold land, lor, lxor, lnot. repeat split; apply b2z_01. Qed.

Lemma land_in_s a b : in_s (land a b) = true. Proof. apply b2z_in_s. Qed.
Lemma lor_in_s a b : in_s (lor a b) = true. Proof. apply b2z_in_s. Qed.
Lemma lxor_in_s a b : in_s (lxor a b) = true. Proof. apply b2z_in_s. Qed.
Lemma lnot_in_s a : in_s (lnot a) = true. Proof. apply b2z_in_s. Qed.

(** the result depends only on the bit pattern being zero or not: same for both readings *)
Lemma truthy_u a : in_s a = true -> truthy a = negb (u a =? 0).
Proof. intros H. unfold truthy. pose proof (u_zero_iff a H). destruct (a =? 0) eqn:E, (u a =? 0) eqn:E'; try reflexivity; lia. Qed.

Example ex_logical : land 2 (-3) = 1 /\ land 2 0 = 0 /\ lor 0 0 = 0 /\ lor 0 7 = 1 /\ lxor 5 9 = 0
  /\ lxor 0 9 = 1 /\ lnot 0 = 1 /\ lnot (-1) = 0.
Proof. vm_compute. auto 12. Qed.

(** * 7. min / max *)

Lemma smax_spec a b : smax a b = Z.max a b. Proof. reflexivity. Qed.
Lemma smin_spec a b : smin a b = Z.min a b. Proof. reflexivity. Qed.
Lemma smax_in_s a b : in_s a = true -> in_s b = true -> in_s (smax a b) = true.
Proof. unfold smax. w32. lia. Qed.
Lemma smin_in_s a b : in_s a = true -> in_s b = true -> in_s (smin a b) = true.
Proof. unfold smin. w32. lia. Qed.
(** std::max(a,b) = (a < b) ? b : a agrees with the mathematical maximum (integers: ties are equal) *)
Lemma smax_std a b : smax a b = if a <? b then b else a.
Proof. unfold smax. destruct (a <? b) eqn:E; lia. Qed.
Lemma smin_std a b : smin a b = if b <? a then b else a.
Proof. unfold smin. destruct (b <? a) eqn:E; lia. Qed.

Lemma umax_spec a b : u (umax a b) = Z.max (u a) (u b).
Proof. unfold umax. destruct (u a <? u b) eqn:E; lia. Qed.
Lemma umin_spec a b : u (umin a b) = Z.min (u a) (u b).
Proof. unfold umin. destruct (u b <? u a) eqn:E; lia. Qed.
Lemma umax_choice a b : umax a b = a \/ umax a b = b.
Proof. unfold umax. destruct (u a <? u b); auto. Qed.
Lemma umin_choice a b : umin a b = a \/ umin a b = b.
Proof. unfold umin. destruct (u b <? u a); auto. Qed.
Lemma umax_in_s a b : in_s a = true -> in_s b = true -> in_s (umax a b) = true.
Proof. intros. destruct (umax_choice a b) as [-> | ->]; assumption. Qed.
Lemma umin_in_s a b : in_s a = true -> in_s b = true -> in_s (umin a b) = true.
Proof. intros. destruct (umin_choice a b) as [-> | ->]; assumption. Qed.

Example ex_minmax : smax (-1) 1 = 1 /\ umax (-1) 1 = -1 /\ smin (-1) 1 = -1 /\ umin (-1) 1 = 1.
Proof. vm_compute. auto. Qed.

(** * 8. Comparisons *)

Lemma slt_spec a b : slt a b = (a <? b). Proof. reflexivity. Qed.
Lemma sle_spec a b : sle a b = (a <=? b). Proof. reflexivity. Qed.
Lemma ult_spec a b : ult a b = (u a <? u b). Proof. reflexivity. Qed.
Lemma ule_spec a b : ule a b = (u a <=? u b). Proof. reflexivity. Qed.
Lemma sle_slt a b : sle a b = negb (slt b a).
Proof. unfold sle, slt. lia. Qed.
Lemma ule_ult a b : ule a b = negb (ult b a).
Proof. unfold ule, ult. lia. Qed.

(** unsigned order vs signed order on the same patterns: they differ exactly when the sign bits differ *)
Lemma ult_slt a b : in_s a = true -> in_s b = true ->
  ult a b = xorb (slt a b) (xorb (a <? 0) (b <? 0)).
Proof.
  intros Ha Hb. unfold ult, slt. rewrite (u_cases a Ha), (u_cases b Hb).
  apply in_s_iff in Ha. apply in_s_iff in Hb. rewrite pow2_31, pow2_32 in *.
  destruct (a <? 0) eqn:Ea, (b <? 0) eqn:Eb; simpl; lia.
Qed.
Lemma ult_slt_same_sign a b : in_s a = true -> in_s b = true ->
  (a <? 0) = (b <? 0) -> ult a b = slt a b.
Proof. intros Ha Hb H. rewrite ult_slt, H, xorb_nilpotent, xorb_false_r by assumption. reflexivity. Qed.
Lemma ult_slt_diff_sign a b : in_s a = true -> in_s b = true ->
  (a <? 0) <> (b <? 0) -> ult a b = negb (slt a b).
Proof.
  intros Ha Hb H. rewrite ult_slt by assumption.
  destruct (a <? 0), (b <? 0), (slt a b); try reflexivity; congruence.
Qed.

(** ult is a strict total order on bit patterns *)
Lemma ult_irrefl a : ult a a = false.
Proof. unfold ult. lia. Qed.
Lemma ult_trans a b c : ult a b = true -> ult b c = true -> ult a c = true.
Proof. unfold ult. lia. Qed.
Lemma ult_total a b : in_s a = true -> in_s b = true -> ult a b = false -> ult b a = false -> a = b.
Proof. intros Ha Hb H1 H2. apply u_inj; auto. unfold ult in *. lia. Qed.
Lemma slt_irrefl a : slt a a = false.
Proof. unfold slt. lia. Qed.
Lemma slt_trans a b c : slt a b = true -> slt b c = true -> slt a c = true.
Proof. unfold slt. lia. Qed.
Lemma slt_total a b : slt a b = false -> slt b a = false -> a = b.
Proof. unfold slt. lia. Qed.

Example ex_compare : slt (-1) 1 = true /\ ult (-1) 1 = false /\ ult 1 (-1) = true /\ ule 0 0 = true.
Proof. vm_compute. auto. Qed.

(** * 9. Exponentiation: static_cast<int>(std::pow(double, double)) *)

Lemma sexp_spec a b r : 0 <= b -> (sexp a b = Some r <-> (r = a ^ b /\ - 2 ^ 31 <= a ^ b < 2 ^ 31)).
Proof. intros Hb. unfold sexp. replace (0 <=? b) with true by lia. apply chk_some_iff. Qed.

Lemma sexp_in_s a b r : sexp a b = Some r -> in_s r = true.
Proof.
  unfold sexp. destruct (0 <=? b).
  - intros H. apply chk_some_iff in H as [-> H]. apply in_s_iff, H.
  - destruct (a =? 1); [intros [= <-]; reflexivity|].
    destruct (a =? -1); [intros [= <-]; destruct (Z.even b); reflexivity|].
    destruct (a =? 0); [discriminate | intros [= <-]; reflexivity].
Qed.

Lemma pow_m1 n : 0 <= n -> (-1) ^ n = if Z.even n then 1 else -1.
Proof.
  intros Hn. destruct (Z.even n) eqn:E.
  - apply Z.even_spec in E as [k ->]. rewrite Z.pow_mul_r by lia. change ((-1) ^ 2) with 1.
    apply Z.pow_1_l. lia.
  - rewrite <- Z.negb_odd in E. apply negb_false_iff, Z.odd_spec in E as [k ->].
    rewrite Z.pow_add_r, Z.pow_mul_r by lia. change ((-1) ^ 2) with 1.
    rewrite Z.pow_1_l by lia. reflexivity.
Qed.

(** negative exponent: pow gives the rational 1 / a^(-b), the cast truncates it toward zero;
    pow(0, negative) is +inf, whose conversion is undefined *)
Lemma sexp_neg_spec a b : b < 0 -> sexp a b = if a =? 0 then None else Some (Z.quot 1 (a ^ (- b))).
Proof.
  intros Hb. unfold sexp. replace (0 <=? b) with false by lia.
  destruct (a =? 1) eqn:E1.
  { assert (a = 1) as -> by lia. rewrite Z.pow_1_l by lia. reflexivity. }
  destruct (a =? -1) eqn:E2.
  { assert (a = -1) as -> by lia. simpl (-1 =? 0). cbv iota. rewrite pow_m1 by lia.
    rewrite Z.even_opp. destruct (Z.even b); reflexivity. }
  destruct (a =? 0) eqn:E0; [reflexivity|].
  f_equal. symmetry.
  assert (Habs : 2 <= Z.abs (a ^ (- b))).
  { rewrite Z.abs_pow. replace (- b) with (Z.succ (- b - 1)) by lia.
    rewrite Z.pow_succ_r by lia.
    assert (0 < Z.abs a ^ (- b - 1)) by (apply Z.pow_pos_nonneg; lia). nia. }
  destruct (Z_lt_le_dec (a ^ (- b)) 0).
  - rewrite <- (Z.opp_involutive (a ^ (- b))), Z.quot_opp_r by lia.
    rewrite Z.quot_small by lia. reflexivity.
  - apply Z.quot_small. lia.
Qed.

(** a large exponent of a base of magnitude >= 2 always overflows (used by the driver to avoid
    computing astronomically large powers) *)
Lemma pow_big a b : 2 <= Z.abs a -> 32 <= b -> 2 ^ 32 <= Z.abs (a ^ b).
Proof.
  intros Ha Hb. rewrite Z.abs_pow.
  transitivity (2 ^ b); [apply Z.pow_le_mono_r; lia | apply Z.pow_le_mono_l; lia].
Qed.
Lemma sexp_big_undef a b : 2 <= Z.abs a -> 32 <= b -> sexp a b = None.
Proof.
  intros Ha Hb. unfold sexp. replace (0 <=? b) with true by lia. apply chk_none_iff.
  pose proof (pow_big a b Ha Hb). rewrite pow2_31, pow2_32 in *. lia.
Qed.

Lemma uexp_spec a b r : uexp a b = Some r <-> (u a ^ u b < 2 ^ 32 /\ in_s r = true /\ u r = u a ^ u b).
Proof.
  unfold uexp. cbv zeta. pose proof (u_range a) as Ha. pose proof (u_range b) as Hb.
  assert (0 <= u a ^ u b) by (apply Z.pow_nonneg; lia).
  destruct (u a ^ u b <? 2 ^ 32) eqn:E.
  - split.
    + intros [= <-]. split; [lia|]. split; [apply wrap_in_s | apply u_small; lia].
    + intros (_ & Hr & Hu). f_equal. rewrite <- Hu. apply wrap_u, Hr.
  - split; [discriminate | lia].
Qed.
Lemma uexp_in_s a b r : uexp a b = Some r -> in_s r = true.
Proof. intros H. apply uexp_spec in H. tauto. Qed.
Lemma uexp_big_undef a b : 2 <= u a -> 32 <= u b -> uexp a b = None.
Proof.
  intros Ha Hb. unfold uexp. cbv zeta.
  pose proof (pow_big (u a) (u b) ltac:(lia) Hb) as H.
  rewrite Z.abs_eq in H by (apply Z.pow_nonneg; lia).
  replace (u a ^ u b <? 2 ^ 32) with false by lia. reflexivity.
Qed.

Example ex_exp : sexp 2 10 = Some 1024 /\ sexp (-2) 31 = Some MIN_S /\ sexp 2 31 = None /\ sexp 2 (-1) = Some 0
  /\ sexp (-1) (-3) = Some (-1) /\ sexp 0 (-1) = None /\ sexp 0 0 = Some 1
  /\ uexp 2 31 = Some MIN_S /\ uexp 2 32 = None /\ uexp (-1) 1 = Some (-1).
Proof. vm_compute. auto 12. Qed.
